(* C04 — homogeneity of the flash: scaling the feed (and a specified H / S) by k > 0 scales the products by k, for
   solver oracles that depend on the normalised composition only.  A simulation argument through every branch of
   the wrapper model of coq/C03/Model.v.  Lemmas only. *)
From V Require Import Common.NumFacts C03.Model C03.Proofs C04.Model.
From Coq Require Import Setoid Morphisms.
Open Scope Q_scope.

Section Hom.
Variable k : Q.
Hypothesis Kpos : 0 < k.

(* ------------------------------------------------------------------ scaled scalars and vectors *)
Definition qr (x y : Q) : Prop := y == k * x.
Definition vr (a b : vec) : Prop := Forall2 qr a b.

Lemma vr_length a b : vr a b -> length b = length a.
Proof. intros H. induction H; simpl; congruence. Qed.

Lemma vr_nth a b i : vr a b -> nthq b i == k * nthq a i.
Proof.
  intros H. revert i. induction H as [|x y a b Hxy H IH]; intros i.
  - rewrite !nthq_nil. ring.
  - destruct i; unfold nthq in *; simpl; [exact Hxy|apply IH].
Qed.

Lemma vr_of_nth a : forall b, length b = length a -> (forall i, nthq b i == k * nthq a i) -> vr a b.
Proof.
  induction a as [|x a IH]; intros [|y b] L H; simpl in L; try discriminate; [constructor|].
  constructor; [apply (H 0%nat)|]. apply IH; [lia|]. intros i. apply (H (S i)).
Qed.

Lemma vr_vscale a : vr a (vscale k a).
Proof. apply vr_of_nth; [apply vscale_length|]. intros i. apply nthq_vscale. Qed.

Lemma vr_veq a b b' : vr a b -> veq b' b -> vr a b'.
Proof.
  intros H (L & E). apply vr_of_nth; [rewrite L; apply vr_length; exact H|].
  intros i. rewrite E. apply vr_nth. exact H.
Qed.

Lemma vr_map2 (f : Q -> Q -> Q) :
  (forall x y x' y', qr x x' -> qr y y' -> qr (f x y) (f x' y')) ->
  forall a a' b b', vr a a' -> vr b b' -> vr (map2 f a b) (map2 f a' b').
Proof.
  intros F a a' b b' Ha. revert b b'. induction Ha as [|x x' a a' Hx Ha IH]; intros b b' Hb; simpl; [constructor|].
  destruct Hb as [|y y' b b' Hy Hb]; simpl; [constructor|]. constructor; [apply F; assumption|apply IH; exact Hb].
Qed.

Lemma vr_map (f g : Q -> Q) : (forall x x', qr x x' -> qr (f x) (g x')) -> forall a a', vr a a' -> vr (map f a) (map g a').
Proof. intros F a a' H. induction H; simpl; constructor; auto. Qed.

Lemma vr_vadd a a' b b' : vr a a' -> vr b b' -> vr (vadd a b) (vadd a' b').
Proof. apply vr_map2. unfold qr. intros x y x' y' A B. rewrite A, B. ring. Qed.
Lemma vr_vsub a a' b b' : vr a a' -> vr b b' -> vr (vsub a b) (vsub a' b').
Proof. apply vr_map2. unfold qr. intros x y x' y' A B. rewrite A, B. ring. Qed.

Lemma vr_qsum a b : vr a b -> qr (qsum a) (qsum b).
Proof. intros H. unfold qr. induction H as [|x y a b Hxy H IH]; simpl; [ring|]. unfold qr in Hxy. rewrite Hxy, IH. ring. Qed.

Lemma vr_gather ix a b : vr a b -> vr (gather ix a) (gather ix b).
Proof. intros H. unfold gather. induction ix; simpl; constructor; auto. apply vr_nth. exact H. Qed.

Lemma vr_fit n a b : vr a b -> vr (fit n a) (fit n b).
Proof. intros H. unfold fit. induction (seq 0 n); simpl; constructor; auto. apply vr_nth. exact H. Qed.

Lemma vr_scatter ix v v' a a' : vr v v' -> vr a a' -> vr (scatter ix v a) (scatter ix v' a').
Proof.
  intros Hv Ha. unfold scatter. rewrite (vr_length _ _ Ha).
  induction (seq 0 (length a)); simpl; constructor; auto.
  destruct (pos a0 ix); apply vr_nth; assumption.
Qed.
Lemma vr_scatter_c0 ix a a' : vr a a' -> vr (scatter_c ix 0 a) (scatter_c ix 0 a').
Proof.
  intros Ha. unfold scatter_c. rewrite (vr_length _ _ Ha).
  induction (seq 0 (length a)); simpl; constructor; auto.
  destruct (pos a0 ix); [unfold qr; ring|apply vr_nth; assumption].
Qed.
Lemma vr_vzero n : vr (vzero n) (vzero n).
Proof. unfold vzero. induction n; simpl; constructor; auto. unfold qr. ring. Qed.

Lemma vr_only_idx c a a' : vr a a' -> vr (only_idx c a) (only_idx c a').
Proof.
  intros Ha. unfold only_idx. rewrite (vr_length _ _ Ha).
  induction (seq 0 (length a)); simpl; constructor; auto.
  destruct (pos a0 (idx c)); [apply vr_nth; assumption|unfold qr; ring].
Qed.

(* a scale-free factor times a scaled vector *)
Lemma vr_vscale_l f f' a a' : f' == f -> vr a a' -> vr (vscale f a) (vscale f' a').
Proof. intros F. apply vr_map. unfold qr. intros x x' H. rewrite H, F. ring. Qed.
(* a scaled factor times a scale-free vector *)
Lemma vr_vscale_r f f' a : qr f f' -> vr (vscale f a) (vscale f' a).
Proof.
  intros F. unfold vscale. induction a; simpl; constructor; auto. unfold qr in *. rewrite F. ring.
Qed.

(* ------------------------------------------------------------------ tests agree *)
Lemma Kne : ~ k == 0.
Proof. lra. Qed.

Global Instance qltb_proper : Proper (Qeq ==> Qeq ==> eq) qltb.
Proof.
  intros a a' A b b' B. destruct (qltb a' b') eqn:E.
  - apply qltb_true in E. apply qltb_true. lra.
  - apply qltb_false in E. apply qltb_false. lra.
Qed.
Global Instance qleb_proper : Proper (Qeq ==> Qeq ==> eq) qleb.
Proof.
  intros a a' A b b' B. destruct (qleb a' b') eqn:E.
  - apply qleb_true in E. apply qleb_true. lra.
  - apply qleb_false in E. apply qleb_false. lra.
Qed.
Global Instance qzerob_proper : Proper (Qeq ==> eq) qzerob.
Proof.
  intros a a' A. destruct (qzerob a') eqn:E.
  - apply qzerob_true in E. apply qzerob_true. lra.
  - apply qzerob_false in E. apply qzerob_false. lra.
Qed.
Global Instance qeqb_proper : Proper (Qeq ==> Qeq ==> eq) qeqb.
Proof.
  intros a a' A b b' B. destruct (qeqb a' b') eqn:E.
  - apply qeqb_true in E. apply qeqb_true. lra.
  - destruct (qeqb a b) eqn:F; auto. apply qeqb_true in F. assert (qeqb a' b' = true) by (apply qeqb_true; lra). congruence.
Qed.

Lemma qzerob_qr x y : qr x y -> qzerob y = qzerob x.
Proof.
  unfold qr. intros H. pose proof Kne. destruct (qzerob x) eqn:E.
  - apply qzerob_true in E. apply qzerob_true. rewrite H, E. ring.
  - apply qzerob_false in E. apply qzerob_false. rewrite H. intros Z. apply Qmult_integral in Z. tauto.
Qed.
Lemma nzb_qr x y : qr x y -> nzb y = nzb x.
Proof. intros H. unfold nzb. rewrite (qzerob_qr _ _ H). reflexivity. Qed.
Lemma qltb_qr x y x' y' : qr x x' -> qr y y' -> qltb x' y' = qltb x y.
Proof.
  unfold qr. intros A B. destruct (qltb x y) eqn:E.
  - apply qltb_true in E. apply qltb_true. rewrite A, B. nra.
  - apply qltb_false in E. apply qltb_false. rewrite A, B. nra.
Qed.
Lemma qleb_qr x y x' y' : qr x x' -> qr y y' -> qleb x' y' = qleb x y.
Proof.
  unfold qr. intros A B. destruct (qleb x y) eqn:E.
  - apply qleb_true in E. apply qleb_true. rewrite A, B. nra.
  - apply qleb_false in E. apply qleb_false. rewrite A, B. nra.
Qed.
Lemma qr_0 : qr 0 0.
Proof. unfold qr. ring. Qed.

Lemma anynz_vr a b : vr a b -> anynz b = anynz a.
Proof.
  intros H. unfold anynz. induction H as [|x y a b Hxy H IH]; simpl; auto.
  rewrite IH. rewrite (qzerob_qr _ _ Hxy). reflexivity.
Qed.

Lemma qr_div x y x' y' : qr x x' -> qr y y' -> ~ y == 0 -> x' / y' == x / y.
Proof. unfold qr. intros A B NZ. rewrite A, B. pose proof Kne. field. split; assumption. Qed.


Lemma vr_vmul_r a a' w : vr a a' -> vr (vmul a w) (vmul a' w).
Proof.
  intros H. revert w. induction H as [|x y a b Hxy H IH]; intros [|u w]; simpl; try constructor.
  - unfold qr in *. rewrite Hxy. ring.
  - apply IH.
Qed.
Lemma vr_vmul_l a a' w : vr a a' -> vr (vmul w a) (vmul w a').
Proof.
  intros H. revert w. induction H as [|x y a b Hxy H IH]; intros [|u w]; simpl; try constructor.
  - unfold qr in *. rewrite Hxy. ring.
  - apply IH.
Qed.

(* ------------------------------------------------------------------ streams, contexts, machines *)
Definition sr (s s' : vst) : Prop :=
  vr (liq s) (liq s') /\ vr (vap s) (vap s') /\ Forall2 vr (oth s) (oth s') /\ sT s' = sT s /\ sP s' = sP s.
(* after the final xsolve_T_at_HP / SP the temperatures agree as rationals only *)
Definition srw (s s' : vst) : Prop :=
  vr (liq s) (liq s') /\ vr (vap s) (vap s') /\ Forall2 vr (oth s) (oth s') /\ sT s' == sT s /\ sP s' == sP s.
Definition cr (c c' : ctx) : Prop :=
  idx c' = idx c /\ vr (molv c) (molv c') /\ qr (Fmass c) (Fmass c') /\ qr (Flight c) (Flight c') /\
  qr (Fheavy c) (Fheavy c') /\ qr (Fvle c) (Fvle c') /\ qr (Fmol c) (Fmol c') /\ cN c' = cN c.
Definition mr (m m' : mach) : Prop := sr (ms m) (ms m') /\ mk m' = mk m.
Definition mrw (m m' : mach) : Prop := srw (ms m) (ms m') /\ mk m' = mk m.

Lemma sr_srw s s' : sr s s' -> srw s s'.
Proof. intros (A & B & C & D & E). repeat split; auto; [rewrite D|rewrite E]; reflexivity. Qed.

Lemma sr_with_T s s' t : sr s s' -> sr (with_T s t) (with_T s' t).
Proof. intros (A & B & C & D & E). repeat split; auto. Qed.
Lemma sr_with_P s s' p : sr s s' -> sr (with_P s p) (with_P s' p).
Proof. intros (A & B & C & D & E). repeat split; auto. Qed.
Lemma sr_with_flows s s' l l' v v' : sr s s' -> vr l l' -> vr v v' -> sr (with_flows s l v) (with_flows s' l' v').
Proof. intros (A & B & C & D & E) L V. repeat split; auto. Qed.

Lemma sr_write2 c c' lv lv' vv vv' s s' : cr c c' -> sr s s' -> vr lv lv' -> vr vv vv' ->
  sr (write2 c lv vv s) (write2 c' lv' vv' s').
Proof.
  intros (I & _) S L V. unfold write2. rewrite I. destruct S as (A & B & C & D & E).
  apply sr_with_flows; [repeat split; auto| |]; apply vr_scatter; assumption.
Qed.

Lemma vr_zeros c c' : cr c c' -> vr (zeros c) (zeros c').
Proof. intros (I & _). unfold zeros. rewrite I. apply vr_vzero. Qed.
Lemma sr_all_vap c c' s s' : cr c c' -> sr s s' -> sr (all_vap c s) (all_vap c' s').
Proof. intros C S. unfold all_vap. apply sr_write2; auto; [apply vr_zeros; exact C|apply C]. Qed.
Lemma sr_all_liq c c' s s' : cr c c' -> sr s s' -> sr (all_liq c s) (all_liq c' s').
Proof. intros C S. unfold all_liq. apply sr_write2; auto; [apply C|apply vr_zeros; exact C]. Qed.
Lemma sr_set_flows c c' v v' s s' : cr c c' -> sr s s' -> vr v v' -> sr (set_flows c v s) (set_flows c' v' s').
Proof.
  intros C S V. unfold set_flows. pose proof C as (_ & M & _). rewrite (vr_length _ _ M).
  apply sr_write2; auto; [apply vr_vsub; [exact M|]|]; apply vr_fit; exact V.
Qed.

(* ------------------------------------------------------------------ _setup *)
Lemma filter_ext_seq (f g : nat -> bool) n : (forall c, f c = g c) -> filter f (seq 0 n) = filter g (seq 0 n).
Proof. intros H. apply filter_ext. exact H. Qed.

Lemma setup_sim cf s s' : sr s s' ->
  match setup cf s, setup cf s' with
  | SOk a c, SOk a' c' => sr a a' /\ cr c c'
  | SNoEq a, SNoEq a' => sr a a'
  | SErr e a, SErr e' a' => e = e' /\ sr a a'
  | _, _ => False
  end.
Proof.
  intros S. pose proof S as (SL & SV & SO & ST & SP).
  unfold setup.
  assert (Ln : length (liq s') = length (liq s)) by (apply vr_length; exact SL).
  assert (M : vr (vadd (liq s) (vap s)) (vadd (liq s') (vap s'))) by (apply vr_vadd; assumption).
  rewrite Ln. rewrite (anynz_vr _ _ M).
  set (mol := vadd (liq s) (vap s)) in *. set (mol' := vadd (liq s') (vap s')) in *.
  destruct (negb (anynz mol)); [exact S|].
  assert (IX : vle_idx cf mol' = vle_idx cf mol).
  { unfold vle_idx. rewrite (vr_length _ _ M). apply filter_ext. intros c.
    rewrite (nzb_qr _ _ (vr_nth _ _ c M)). reflexivity. }
  rewrite IX.
  set (n := length (liq s)) in *. set (ix := vle_idx cf mol) in *.
  set (LNK := idx_of cf KLight n) in *. set (HNK := idx_of cf KHeavy n) in *.
  assert (S1 : sr (with_flows s (scatter HNK (gather HNK mol) (scatter_c LNK 0 (liq s)))
                              (scatter LNK (gather LNK mol) (scatter_c HNK 0 (vap s))))
                  (with_flows s' (scatter HNK (gather HNK mol') (scatter_c LNK 0 (liq s')))
                              (scatter LNK (gather LNK mol') (scatter_c HNK 0 (vap s'))))).
  { apply sr_with_flows; auto; apply vr_scatter; try (apply vr_gather; exact M); apply vr_scatter_c0; assumption. }
  assert (MV : vr (gather ix mol) (gather ix mol')) by (apply vr_gather; exact M).
  rewrite (anynz_vr _ _ MV).
  destruct (negb (anynz (gather ix mol))); [exact S1|].
  assert (FL : qr (qsum (gather LNK mol)) (qsum (gather LNK mol'))) by (apply vr_qsum, vr_gather; exact M).
  assert (FH : qr (qsum (vmul (gather HNK mol) (gather HNK (nsol cf)))) (qsum (vmul (gather HNK mol') (gather HNK (nsol cf)))))
    by (apply vr_qsum, vr_vmul_r, vr_gather; exact M).
  assert (FV : qr (qsum (gather ix mol)) (qsum (gather ix mol'))) by (apply vr_qsum; exact MV).
  assert (FM : qr (qsum (gather ix mol) + qsum (gather LNK mol) + qsum (vmul (gather HNK mol) (gather HNK (nsol cf))))
                  (qsum (gather ix mol') + qsum (gather LNK mol') + qsum (vmul (gather HNK mol') (gather HNK (nsol cf)))))
    by (unfold qr in *; rewrite FL, FH, FV; ring).
  rewrite (qzerob_qr _ _ FM), (qzerob_qr _ _ FV).
  destruct (qzerob _ || qzerob _) eqn:Z; [split; [reflexivity|exact S1]|].
  apply orb_false_iff in Z. destruct Z as (Z1 & Z2). apply qzerob_false in Z1.
  split; [exact S1|].
  unfold cr. cbn [idx molv Fmass Flight Fheavy Fvle Fmol cN].
  split; [reflexivity|]. split; [exact MV|]. split; [unfold vdot; apply vr_qsum, vr_vmul_l; exact M|].
  split; [exact FL|]. split; [exact FH|]. split; [exact FV|]. split; [exact FM|].
  rewrite (qr_div _ _ _ _ FL FM Z1), (qr_div _ _ _ _ FH FM Z1). reflexivity.
Qed.

(* ------------------------------------------------------------------ heterogeneous map lemmas *)
Lemma F2_map2 {A A' B B' C C'} (R1 : A -> A' -> Prop) (R2 : B -> B' -> Prop) (R3 : C -> C' -> Prop) f f' :
  (forall x x' y y', R1 x x' -> R2 y y' -> R3 (f x y) (f' x' y')) ->
  forall a a' b b', Forall2 R1 a a' -> Forall2 R2 b b' -> Forall2 R3 (map2 f a b) (map2 f' a' b').
Proof.
  intros F a a' b b' Ha. revert b b'. induction Ha as [|x x' a a' Hx Ha IH]; intros b b' Hb; simpl; [constructor|].
  destruct Hb as [|y y' b b' Hy Hb]; simpl; [constructor|]. constructor; [apply F; assumption|apply IH; exact Hb].
Qed.
Lemma F2_map {A A' B B'} (R1 : A -> A' -> Prop) (R2 : B -> B' -> Prop) f f' :
  (forall x x', R1 x x' -> R2 (f x) (f' x')) -> forall a a', Forall2 R1 a a' -> Forall2 R2 (map f a) (map f' a').
Proof. intros F a a' H. induction H; simpl; constructor; auto. Qed.
Lemma F2_refl {A} (R : A -> A -> Prop) : (forall x, R x x) -> forall a, Forall2 R a a.
Proof. intros H a. induction a; constructor; auto. Qed.
Definition v0 (a b : vec) : Prop := Forall2 Qeq a b.      (* scale-free vectors *)

Lemma v0_vdivs a a' f f' : vr a a' -> qr f f' -> ~ f == 0 -> v0 (vdivs a f) (vdivs a' f').
Proof.
  intros H F NZ. unfold vdivs. apply (F2_map qr Qeq); [|exact H].
  intros x x' X. symmetry. apply (qr_div x f x' f'); assumption.
Qed.
Lemma vr_qsum_F2 a b : Forall2 qr a b -> qr (qsum a) (qsum b).
Proof. apply vr_qsum. Qed.

(* ------------------------------------------------------------------ solver oracles that depend on the normalised composition *)
Definition orc_scaled (o o' : oracle) : Prop :=
  o_Tc o' = o_Tc o /\ (forall T, o_Psat o' T = o_Psat o T) /\ (forall P, o_Tsat o' P = o_Tsat o P) /\
  o_lim_light o' = o_lim_light o /\ o_lim_heavy o' = o_lim_heavy o /\
  (forall t a, o_bubble o' t a = o_bubble o t a) /\ (forall t a, o_dew o' t a = o_dew o t a) /\ (forall t, o_iq o' t = o_iq o t) /\
  (forall t T P, vr (o_v o t T P) (o_v o' t T P)) /\
  (forall t s s' T P, sr s s' -> qr (o_xH o t s T P) (o_xH o' t s' T P)) /\
  (forall t g m m' T P, vr m m' -> qr (o_Hp o t g m T P) (o_Hp o' t g m' T P)) /\
  (forall t s s' H T P, sr s s' -> o_solveT o' t s' (k * H) T P == o_solveT o t s H T P).

Variables orc orc' : oracle.
Hypothesis OS : orc_scaled orc orc'.

Definition rm (r r' : vres mach) : Prop :=
  match r, r' with
  | VOk m, VOk m' => mr m m'
  | VErr e m, VErr e' m' => e = e' /\ mr m m'
  | _, _ => False
  end.
(* results that may end in xsolve_T_at_HP / SP: the final T agrees as a rational; a raise never follows such a write *)
Definition rmw (r r' : vres mach) : Prop :=
  match r, r' with
  | VOk m, VOk m' => mrw m m'
  | VErr e m, VErr e' m' => e = e' /\ mr m m'
  | _, _ => False
  end.
Lemma rm_rmw r r' : rm r r' -> rmw r r'.
Proof.
  destruct r, r'; simpl; try tauto.
  intros (A & B). split; [apply sr_srw; exact A|exact B].
Qed.

Lemma mr_tick m m' : mr m m' -> mr (tick m) (tick m').
Proof. intros (A & B). split; [exact A|]. cbn [tick mk]. congruence. Qed.
Lemma mr_mset m m' s s' : mr m m' -> sr s s' -> mr (mset m s) (mset m' s').
Proof. intros (A & B) S. split; [exact S|exact B]. Qed.

(* ------------------------------------------------------------------ _solve_v *)
Lemma clip1_qr v v' m m' : qr v v' -> qr m m' -> qr (clip1 v m) (clip1 v' m').
Proof.
  intros V M. unfold clip1. rewrite (qltb_qr _ _ _ _ M V).
  destruct (qltb m v).
  - rewrite (qltb_qr _ _ _ _ M qr_0). destruct (qltb m 0); [apply qr_0|exact M].
  - rewrite (qltb_qr _ _ _ _ V qr_0). destruct (qltb v 0); [apply qr_0|exact V].
Qed.
Lemma vr_clipv raw raw' mol mol' : vr raw raw' -> vr mol mol' -> vr (clipv raw mol) (clipv raw' mol').
Proof.
  intros R M. unfold clipv. rewrite (vr_length _ _ M). apply vr_map2; [|apply vr_fit; exact R|exact M].
  intros; apply clip1_qr; assumption.
Qed.
Lemma solve_v_sim c c' T P m m' : cr c c' -> mr m m' ->
  mr (fst (solve_v orc c T P m)) (fst (solve_v orc' c' T P m')) /\ vr (snd (solve_v orc c T P m)) (snd (solve_v orc' c' T P m')).
Proof.
  intros C M. unfold solve_v. cbn [fst snd]. split; [apply mr_tick; exact M|].
  destruct M as (_ & K). rewrite K. apply vr_clipv; [apply OS|apply C].
Qed.

Lemma capv_qr_vr a a' mol mol' : vr a a' -> vr mol mol' -> vr (capv a mol) (capv a' mol').
Proof.
  intros A M. unfold capv. apply vr_map2; auto.
  intros x m x' m' X Mm. rewrite (qltb_qr _ _ _ _ Mm X). destruct (qltb m x); assumption.
Qed.

(* ------------------------------------------------------------------ _refresh_K raises in both runs or in neither *)
Lemma refresh_K_sim c c' V V' yb xd : cr c c' -> ~ Fvle c == 0 -> V' == V ->
  refresh_K_raises c' V' yb xd = refresh_K_raises c V yb xd.
Proof.
  intros C NZ EV. pose proof C as (_ & M & _ & _ & _ & FV & _).
  unfold refresh_K_raises. apply qzerob_qr. unfold refresh_K_sum. rewrite (vr_length _ _ M).
  apply vr_qsum_F2.
  assert (Z : v0 (vdivs (molv c) (Fvle c)) (vdivs (molv c') (Fvle c'))) by (apply v0_vdivs; assumption).
  apply (F2_map2 qr qr qr).
  - intros a a' b b' A B. unfold qr in *. rewrite A, B, EV. ring.
  - apply (F2_map2 Qeq eq qr); [|exact Z|apply F2_refl; reflexivity].
    intros z z' y y' Zz ->. unfold qr in *. rewrite Zz, EV, FV. ring.
  - apply (F2_map2 Qeq eq qr); [|exact Z|apply F2_refl; reflexivity].
    intros z z' y y' Zz ->. unfold qr in *. rewrite Zz, EV, FV. ring.
Qed.

Lemma setup_nz cf s a c : setup cf s = SOk a c -> ~ Fvle c == 0 /\ ~ Fmol c == 0.
Proof.
  unfold setup. destruct (negb (anynz _)); [discriminate|]. destruct (negb (anynz _)); [discriminate|].
  destruct (qzerob _ || qzerob _) eqn:Z; [discriminate|]. intros H. inversion H; subst; clear H. cbn [Fvle Fmol].
  apply orb_false_iff in Z. destruct Z as (Z1 & Z2). apply qzerob_false in Z1. apply qzerob_false in Z2. auto.
Qed.

Ltac os := destruct OS as (OTc & OPs & OTs & OLl & OLh & OB & OD & OQ & OV & OX & OH & OT).

(* ------------------------------------------------------------------ oracle calls *)
Lemma call_xH_sim m m' T P : mr m m' ->
  mr (fst (call_xH orc m T P)) (fst (call_xH orc' m' T P)) /\ qr (snd (call_xH orc m T P)) (snd (call_xH orc' m' T P)).
Proof.
  intros M. os. unfold call_xH. cbn [fst snd]. split; [apply mr_tick; exact M|].
  destruct M as (S & K). rewrite K. apply OX. exact S.
Qed.
Lemma call_Hp_sim m m' g a a' T P : mr m m' -> vr a a' ->
  mr (fst (call_Hp orc m g a T P)) (fst (call_Hp orc' m' g a' T P)) /\ qr (snd (call_Hp orc m g a T P)) (snd (call_Hp orc' m' g a' T P)).
Proof.
  intros M A. os. unfold call_Hp. cbn [fst snd]. split; [apply mr_tick; exact M|].
  destruct M as (S & K). rewrite K. apply OH. exact A.
Qed.
Lemma call_solveT_sim m m' H T P : mr m m' ->
  mr (fst (call_solveT orc m H T P)) (fst (call_solveT orc' m' (k * H) T P)) /\
  snd (call_solveT orc' m' (k * H) T P) == snd (call_solveT orc m H T P).
Proof.
  intros M. os. unfold call_solveT. cbn [fst snd]. split; [apply mr_tick; exact M|].
  destruct M as (S & K). rewrite K. apply OT. exact S.
Qed.
Lemma mrw_with_T m m' t t' : mr m m' -> t' == t -> mrw (mset m (with_T (ms m) t)) (mset m' (with_T (ms m') t')).
Proof.
  intros ((A & B & C & D & E) & K) T. split; [|exact K]. cbn [ms mset]. unfold srw. cbn [liq vap oth sT sP with_T].
  repeat split; auto. rewrite E. reflexivity.
Qed.
Lemma call_bubble_n_sim n a m m' : mr m m' ->
  mr (fst (call_bubble_n orc n a m)) (fst (call_bubble_n orc' n a m')) /\ snd (call_bubble_n orc' n a m') = snd (call_bubble_n orc n a m).
Proof.
  intros M. os. unfold call_bubble_n. cbn [fst snd]. split; [apply mr_tick; exact M|].
  destruct M as (_ & K). rewrite K, OB. reflexivity.
Qed.
Lemma call_dew_n_sim n a m m' : mr m m' ->
  mr (fst (call_dew_n orc n a m)) (fst (call_dew_n orc' n a m')) /\ snd (call_dew_n orc' n a m') = snd (call_dew_n orc n a m).
Proof.
  intros M. os. unfold call_dew_n. cbn [fst snd]. split; [apply mr_tick; exact M|].
  destruct M as (_ & K). rewrite K, OD. reflexivity.
Qed.
Lemma call_bubble_sim c c' a m m' : cr c c' -> mr m m' ->
  mr (fst (call_bubble orc c a m)) (fst (call_bubble orc' c' a m')) /\ snd (call_bubble orc' c' a m') = snd (call_bubble orc c a m).
Proof.
  intros C M. os. unfold call_bubble, call_bubble_n. cbn [fst snd]. split; [apply mr_tick; exact M|].
  destruct M as (_ & K). destruct C as (I & _). rewrite K, OB, I. reflexivity.
Qed.
Lemma call_dew_sim c c' a m m' : cr c c' -> mr m m' ->
  mr (fst (call_dew orc c a m)) (fst (call_dew orc' c' a m')) /\ snd (call_dew orc' c' a m') = snd (call_dew orc c a m).
Proof.
  intros C M. os. unfold call_dew, call_dew_n. cbn [fst snd]. split; [apply mr_tick; exact M|].
  destruct M as (_ & K). destruct C as (I & _). rewrite K, OD, I. reflexivity.
Qed.

(* ------------------------------------------------------------------ single-chemical branches *)
Lemma tp_chemical_sim c c' s s' T P : cr c c' -> sr s s' -> sr (tp_chemical orc c s T P) (tp_chemical orc' c' s' T P).
Proof.
  intros C S. os. unfold tp_chemical. rewrite OTc, OPs.
  destruct (qleb (o_Tc orc) T); [apply sr_all_vap; assumption|].
  destruct (qltb P _); [apply sr_all_vap; assumption|].
  destruct (qltb _ P); [apply sr_all_liq; assumption|exact S].
Qed.

Lemma sr_split_V c c' V V' s s' : cr c c' -> sr s s' -> V' == V -> sr (split_V c V s) (split_V c' V' s').
Proof.
  intros C S E. unfold split_V. apply sr_set_flows; auto. apply vr_vscale_l; [exact E|apply C].
Qed.

Lemma tv_chemical_sim c c' s s' T V : cr c c' -> sr s s' -> sr (tv_chemical orc c s T V) (tv_chemical orc' c' s' T V).
Proof. intros C S. os. unfold tv_chemical. rewrite OPs. apply sr_split_V; [exact C|apply sr_with_P; exact S|reflexivity]. Qed.
Lemma pv_chemical_sim c c' s s' P V : cr c c' -> sr s s' -> sr (pv_chemical orc c s P V) (pv_chemical orc' c' s' P V).
Proof. intros C S. os. unfold pv_chemical. rewrite OTs. apply sr_split_V; [exact C|apply sr_with_T; exact S|reflexivity]. Qed.

Lemma qr_kH H : qr H (k * H).
Proof. unfold qr. reflexivity. Qed.
Lemma qr_sub a a' b b' : qr a a' -> qr b b' -> qr (a - b) (a' - b').
Proof. unfold qr. intros A B. rewrite A, B. ring. Qed.

Lemma ph_chemical_sim c c' m m' P H : cr c c' -> mr m m' ->
  mrw (ph_chemical orc c m P H) (ph_chemical orc' c' m' P (k * H)).
Proof.
  intros C M. pose proof OS as (_ & _ & OTs & _). unfold ph_chemical. rewrite OTs.
  set (T := o_Tsat orc P).
  assert (M1 : mr (mset m (all_vap c (with_T (ms m) T))) (mset m' (all_vap c' (with_T (ms m') T))))
    by (apply mr_mset; [exact M|apply sr_all_vap; [exact C|apply sr_with_T; apply M]]).
  destruct (call_xH_sim _ _ T P M1) as (M2 & HD).
  destruct (call_xH orc _ T P) as [m2 Hd]. destruct (call_xH orc' _ T P) as [m2' Hd']. cbn [fst snd] in *.
  rewrite (qleb_qr _ _ _ _ HD (qr_kH H)).
  destruct (qleb Hd H) eqn:E1.
  - destruct (call_solveT_sim _ _ H T P M2) as (M3 & ET).
    destruct (call_solveT orc m2 H T P) as [m3 t]. destruct (call_solveT orc' m2' (k * H) T P) as [m3' t']. cbn [fst snd] in *.
    apply mrw_with_T; assumption.
  - assert (M3 : mr (mset m2 (all_liq c (ms m2))) (mset m2' (all_liq c' (ms m2'))))
      by (apply mr_mset; [exact M2|apply sr_all_liq; [exact C|apply M2]]).
    destruct (call_xH_sim _ _ T P M3) as (M4 & HB).
    destruct (call_xH orc _ T P) as [m4 Hb]. destruct (call_xH orc' _ T P) as [m4' Hb']. cbn [fst snd] in *.
    rewrite (qleb_qr _ _ _ _ (qr_kH H) HB).
    destruct (qleb H Hb) eqn:E2.
    + destruct (call_solveT_sim _ _ H T P M4) as (M5 & ET).
      destruct (call_solveT orc m4 H T P) as [m5 t]. destruct (call_solveT orc' m4' (k * H) T P) as [m5' t']. cbn [fst snd] in *.
      apply mrw_with_T; assumption.
    + apply qleb_false in E1. apply qleb_false in E2.
      split; [|apply M4]. cbn [ms mset]. apply sr_srw. apply sr_split_V; [exact C|apply M4|].
      apply (qr_div (H - Hb) (Hd - Hb)); [apply qr_sub; [apply qr_kH|exact HB]|apply qr_sub; assumption|lra].
Qed.

Lemma th_chemical_sim c c' m m' T H : cr c c' -> mr m m' ->
  rm (th_chemical orc c m T H) (th_chemical orc' c' m' T (k * H)).
Proof.
  intros C M. pose proof OS as (_ & OPs & _). unfold th_chemical. rewrite OPs.
  set (P := o_Psat orc T).
  assert (M1 : mr (mset m (all_vap c (with_P (with_T (ms m) T) P))) (mset m' (all_vap c' (with_P (with_T (ms m') T) P))))
    by (apply mr_mset; [exact M|apply sr_all_vap; [exact C|apply sr_with_P, sr_with_T; apply M]]).
  destruct (call_xH_sim _ _ T P M1) as (M2 & HD).
  destruct (call_xH orc _ T P) as [m2 Hd]. destruct (call_xH orc' _ T P) as [m2' Hd']. cbn [fst snd] in *.
  rewrite (qleb_qr _ _ _ _ HD (qr_kH H)).
  destruct (qleb Hd H) eqn:E1; [split; [reflexivity|exact M2]|].
  assert (M3 : mr (mset m2 (all_liq c (ms m2))) (mset m2' (all_liq c' (ms m2'))))
    by (apply mr_mset; [exact M2|apply sr_all_liq; [exact C|apply M2]]).
  destruct (call_xH_sim _ _ T P M3) as (M4 & HB).
  destruct (call_xH orc _ T P) as [m4 Hb]. destruct (call_xH orc' _ T P) as [m4' Hb']. cbn [fst snd] in *.
  rewrite (qleb_qr _ _ _ _ (qr_kH H) HB).
  destruct (qleb H Hb) eqn:E2; [split; [reflexivity|exact M4]|].
  apply qleb_false in E1. apply qleb_false in E2.
  split; [|apply M4]. cbn [ms mset]. apply sr_split_V; [exact C|apply M4|].
  apply (qr_div (H - Hb) (Hd - Hb)); [apply qr_sub; [apply qr_kH|exact HB]|apply qr_sub; assumption|lra].
Qed.

(* ------------------------------------------------------------------ lever rule, x / y specifications *)
Lemma lever_sim c c' x y m m' : cr c c' -> ~ Fmol c == 0 -> mr m m' -> rm (lever c x y m) (lever c' x y m').
Proof.
  intros C NZ M. pose proof C as (_ & MV & _ & _ & _ & _ & FM & _). unfold lever.
  assert (Z0 : nthq (molv c') 0 / Fmol c' == nthq (molv c) 0 / Fmol c)
    by (apply (qr_div (nthq (molv c) 0) (Fmol c)); [apply vr_nth; exact MV|exact FM|exact NZ]).
  destruct (qzerob (nthq y 0 - nthq x 0)); [split; [reflexivity|exact M]|].
  set (sf := (nthq (molv c) 0 / Fmol c - nthq x 0) / (nthq y 0 - nthq x 0)).
  set (sf' := (nthq (molv c') 0 / Fmol c' - nthq x 0) / (nthq y 0 - nthq x 0)).
  assert (ES : sf' == sf) by (unfold sf, sf'; rewrite Z0; reflexivity).
  assert (B1 : qltb c_lo sf' = qltb c_lo sf) by (rewrite ES; reflexivity).
  assert (B2 : qltb sf' c_hi = qltb sf c_hi) by (rewrite ES; reflexivity).
  assert (B3 : qltb 1 sf' = qltb 1 sf) by (rewrite ES; reflexivity).
  assert (B4 : qltb sf' 0 = qltb sf 0) by (rewrite ES; reflexivity).
  rewrite B1, B2, B3, B4.
  destruct (negb (qltb c_lo sf && qltb sf c_hi)); [split; [reflexivity|exact M]|].
  destruct C as (I & C'). rewrite I.
  destruct (negb (length y =? length (idx c))%nat); [split; [reflexivity|exact M]|]. cbn [rm]. apply mr_mset; [exact M|]. apply sr_set_flows; [split; [exact I|exact C']|apply M|].
  apply capv_qr_vr; [|exact MV]. apply vr_vscale_r. unfold qr in *.
  destruct (qltb 1 sf); [rewrite FM; ring|]. destruct (qltb sf 0); [rewrite FM; ring|]. rewrite FM, ES. ring.
Qed.

Lemma set_xy_sim cf bubble specT sv comp m m' : mr m m' ->
  rm (set_xy cf orc bubble specT sv comp m) (set_xy cf orc' bubble specT sv comp m').
Proof.
  intros M. unfold set_xy. pose proof (setup_sim cf _ _ (proj1 M)) as SS.
  destruct (setup cf (ms m)) as [a c|a|e a] eqn:E1; destruct (setup cf (ms m')) as [a' c'|a'|e' a'] eqn:E2; try contradiction.
  - destruct SS as (SA & C). destruct (setup_nz _ _ _ _ E1) as (_ & NZ).
    assert (M1 : mr (mset m a) (mset m' a')) by (apply mr_mset; assumption).
    pose proof C as (_ & _ & _ & _ & _ & _ & _ & EN). rewrite EN.
    destruct (negb (cN c =? 2)); [split; [reflexivity|exact M1]|].
    destruct bubble.
    + destruct (call_bubble_n_sim (length comp) sv _ _ M1) as (M2 & EB).
      destruct (call_bubble_n orc _ _ (mset m a)) as [m2 [xa ya]]. destruct (call_bubble_n orc' _ _ (mset m' a')) as [m2' r']. cbn [fst snd] in *. subst r'.
      apply lever_sim; auto. apply mr_mset; [exact M2|]. destruct specT; [apply sr_with_T, sr_with_P|apply sr_with_P, sr_with_T]; apply M2.
    + destruct (call_dew_n_sim (length comp) sv _ _ M1) as (M2 & EB).
      destruct (call_dew_n orc _ _ (mset m a)) as [m2 [xa ya]]. destruct (call_dew_n orc' _ _ (mset m' a')) as [m2' r']. cbn [fst snd] in *. subst r'.
      apply lever_sim; auto. apply mr_mset; [exact M2|]. destruct specT; [apply sr_with_T, sr_with_P|apply sr_with_P, sr_with_T]; apply M2.
  - split; [reflexivity|apply mr_mset; assumption].
  - destruct SS as (-> & SA). split; [reflexivity|apply mr_mset; assumption].
Qed.

(* ------------------------------------------------------------------ T,P *)
Lemma set_TP_sim cf T P m m' : mr m m' -> rm (set_TP cf orc T P m) (set_TP cf orc' T P m').
Proof.
  intros M. unfold set_TP. pose proof (setup_sim cf _ _ (proj1 M)) as SS.
  destruct (setup cf (ms m)) as [a c|a|e a] eqn:E1; destruct (setup cf (ms m')) as [a' c'|a'|e' a'] eqn:E2; try contradiction.
  - destruct SS as (SA & C). destruct (setup_nz _ _ _ _ E1) as (NZV & NZ).
    assert (M1 : mr (mset m (with_P (with_T a T) P)) (mset m' (with_P (with_T a' T) P)))
      by (apply mr_mset; [exact M|apply sr_with_P, sr_with_T; exact SA]).
    pose proof C as (_ & _ & _ & FL & FH & FV & _ & EN). rewrite EN.
    destruct (cN c =? 0); [exact M1|].
    destruct (cN c =? 1); [apply mr_mset; [exact M1|apply tp_chemical_sim; [exact C|apply M1]]|].
    destruct (call_dew_sim c c' T _ _ C M1) as (M2 & ED).
    destruct (call_dew orc c _ _) as [m2 [Pd xd]]. destruct (call_dew orc' c' _ _) as [m2' r']. cbn [fst snd] in *. subst r'.
    rewrite (nzb_qr _ _ FH).
    destruct (qleb P Pd && negb (nzb (Fheavy c))); [apply mr_mset; [exact M2|apply sr_all_vap; [exact C|apply M2]]|].
    destruct (call_bubble_sim c c' T _ _ C M2) as (M3 & EB).
    destruct (call_bubble orc c _ m2) as [m3 [Pb yb]]. destruct (call_bubble orc' c' _ m2') as [m3' r']. cbn [fst snd] in *. subst r'.
    rewrite (nzb_qr _ _ FL).
    destruct (qleb Pb P && negb (nzb (Flight c))); [apply mr_mset; [exact M3|apply sr_all_liq; [exact C|apply M3]]|].
    rewrite (refresh_K_sim c c' _ _ yb xd C NZV (Qeq_refl _)).
    destruct (refresh_K_raises c _ yb xd); [split; [reflexivity|exact M3]|].
    destruct (solve_v_sim c c' T P _ _ C M3) as (M4 & V4).
    destruct (solve_v orc c _ _ m3) as [m4 v]. destruct (solve_v orc' c' _ _ m3') as [m4' v']. cbn [fst snd] in *.
    apply mr_mset; [exact M4|apply sr_set_flows; [exact C|apply M4|exact V4]].
  - split; [reflexivity|apply mr_mset; assumption].
  - destruct SS as (-> & SA). split; [reflexivity|apply mr_mset; assumption].
Qed.

(* ------------------------------------------------------------------ T,V and P,V *)
Lemma sv_sim (c c' : ctx) (isT : bool) (a x : Q) (m m' : mach) : cr c c' -> mr m m' ->
  mr (fst (if isT then solve_v orc c a x m else solve_v orc c x a m)) (fst (if isT then solve_v orc' c' a x m' else solve_v orc' c' x a m')) /\
  vr (snd (if isT then solve_v orc c a x m else solve_v orc c x a m)) (snd (if isT then solve_v orc' c' a x m' else solve_v orc' c' x a m')).
Proof. intros C M. destruct isT; apply solve_v_sim; assumption. Qed.

Lemma evals_v_sim c c' isT a pts : cr c c' -> forall m m' vl vl', mr m m' -> vr vl vl' ->
  mr (fst (evals_v orc c isT a pts m vl)) (fst (evals_v orc' c' isT a pts m' vl')) /\
  vr (snd (evals_v orc c isT a pts m vl)) (snd (evals_v orc' c' isT a pts m' vl')).
Proof.
  intros C. induction pts as [|x t IH]; intros m m' vl vl' M V; cbn [evals_v]; [split; assumption|].
  destruct (sv_sim c c' isT a x _ _ C M) as (M1 & V1).
  destruct (if isT then solve_v orc c a x m else solve_v orc c x a m) as [m1 v].
  destruct (if isT then solve_v orc' c' a x m' else solve_v orc' c' x a m') as [m1' v']. cbn [fst snd] in *.
  apply IH; assumption.
Qed.

Lemma adj_V_sim c c' V : cr c c' -> adj_V c' V = adj_V c V.
Proof.
  intros (_ & _ & _ & FL & FH & _). unfold adj_V. rewrite (nzb_qr _ _ FL), (nzb_qr _ _ FH). reflexivity.
Qed.

Lemma sr_set_other isT s s' x : sr s s' -> sr (set_other isT s x) (set_other isT s' x).
Proof. intros S. unfold set_other. destruct isT; [apply sr_with_P|apply sr_with_T]; exact S. Qed.

Lemma set_XV_multi_sim c c' isT V0 m m' : cr c c' -> ~ Fvle c == 0 -> mr m m' ->
  rm (set_XV_multi orc c isT V0 m) (set_XV_multi orc' c' isT V0 m').
Proof.
  intros C NZV M. pose proof C as (I & MV & _ & FL & FH & FV & FM & _). pose proof OS as (_ & _ & _ & OLl & OLh & _ & _ & OQ & _).
  unfold set_XV_multi. rewrite (adj_V_sim c c' V0 C), (nzb_qr _ _ FL), (nzb_qr _ _ FH), OLl, OLh.
  assert (EA : (if isT then sT (ms m') else sP (ms m')) = (if isT then sT (ms m) else sP (ms m)))
    by (destruct M as ((_ & _ & _ & ET & EP) & _); destruct isT; assumption).
  rewrite EA. set (a := if isT then sT (ms m) else sP (ms m)). cbv zeta.
  set (V := adj_V c V0).
  destruct (qeqb V 1 && (isT || negb (nzb (Fheavy c)))).
  { destruct (call_dew_sim c c' a _ _ C M) as (M2 & ED).
    destruct (call_dew orc c a m) as [m2 d]. destruct (call_dew orc' c' a m') as [m2' d']. cbn [fst snd] in *. subst d'.
    apply mr_mset; [exact M2|apply sr_set_other, sr_all_vap; [exact C|apply M2]]. }
  destruct (qeqb V 0 && (isT || negb (nzb (Flight c)))).
  { destruct (call_bubble_sim c c' a _ _ C M) as (M2 & ED).
    destruct (call_bubble orc c a m) as [m2 d]. destruct (call_bubble orc' c' a m') as [m2' d']. cbn [fst snd] in *. subst d'.
    apply mr_mset; [exact M2|apply sr_set_other, sr_all_liq; [exact C|apply M2]]. }
  destruct (call_bubble_sim c c' a _ _ C M) as (M2 & EB).
  destruct (call_bubble orc c a m) as [m2 [Xb yb]]. destruct (call_bubble orc' c' a m') as [m2' b']. cbn [fst snd] in *. subst b'.
  destruct (call_dew_sim c c' a _ _ C M2) as (M3 & ED).
  destruct (call_dew orc c a m2) as [m3 [Xd xd]]. destruct (call_dew orc' c' a m2') as [m3' d']. cbn [fst snd] in *. subst d'.
  rewrite (refresh_K_sim c c' _ _ yb xd C NZV (Qeq_refl _)).
  destruct (refresh_K_raises c V yb xd); [split; [reflexivity|exact M3]|].
  set (Xb' := if nzb (Flight c) then c_01 * o_lim_light orc + c_09 * Xb else Xb).
  set (Xd' := if nzb (Fheavy c) then c_01 * o_lim_heavy orc + c_09 * Xd else Xd).
  destruct (sv_sim c c' isT a Xb' _ _ C M3) as (M4 & V4).
  destruct (if isT then solve_v orc c a Xb' m3 else solve_v orc c Xb' a m3) as [m4 vb].
  destruct (if isT then solve_v orc' c' a Xb' m3' else solve_v orc' c' Xb' a m3') as [m4' vb']. cbn [fst snd] in *.
  assert (EVb : qsum vb' / Fvle c' == qsum vb / Fvle c) by (apply (qr_div (qsum vb) (Fvle c)); [apply vr_qsum; exact V4|exact FV|exact NZV]).
  rewrite EVb.
  destruct (qltb V (qsum vb / Fvle c)).
  { cbn [rm]. apply mr_tick, mr_mset; [exact M4|]. apply sr_set_flows; [exact C|apply sr_set_other; apply M4|].
    apply capv_qr_vr; [|exact MV]. apply vr_vscale_r. unfold qr in *. rewrite FM. ring. }
  destruct (sv_sim c c' isT a Xd' _ _ C M4) as (M5 & V5).
  destruct (if isT then solve_v orc c a Xd' m4 else solve_v orc c Xd' a m4) as [m5 vd].
  destruct (if isT then solve_v orc' c' a Xd' m4' else solve_v orc' c' Xd' a m4') as [m5' vd']. cbn [fst snd] in *.
  assert (EVd : qsum vd' / Fvle c' == qsum vd / Fvle c) by (apply (qr_div (qsum vd) (Fvle c)); [apply vr_qsum; exact V5|exact FV|exact NZV]).
  rewrite EVd.
  destruct (qltb (qsum vd / Fvle c) V).
  { cbn [rm]. apply mr_tick, mr_mset; [exact M5|]. apply sr_set_flows; [exact C|apply sr_set_other; apply M5|].
    apply vr_vsub; [exact MV|]. apply capv_qr_vr; [|exact MV]. apply vr_vscale_r. unfold qr in *. rewrite FM. ring. }
  destruct M5 as (S5 & K5). rewrite K5, OQ.
  destruct (o_iq orc (mk m5)) as [pts X].
  destruct (evals_v_sim c c' isT a pts C (tick m5) (tick m5') vd vd') as (M6 & V6); [apply mr_tick; split; assumption|exact V5|].
  destruct (evals_v orc c isT a pts (tick m5) vd) as [m6 v6]. destruct (evals_v orc' c' isT a pts (tick m5') vd') as [m6' v6']. cbn [fst snd] in *.
  cbn [rm]. apply mr_tick, mr_mset; [exact M6|]. apply sr_set_flows; [exact C|apply sr_set_other; apply M6|exact V6].
Qed.

Lemma set_TV_sim cf T V m m' : mr m m' -> rm (set_TV cf orc T V m) (set_TV cf orc' T V m').
Proof.
  intros M. unfold set_TV. pose proof (setup_sim cf _ _ (proj1 M)) as SS.
  destruct (setup cf (ms m)) as [a c|a|e a] eqn:E1; destruct (setup cf (ms m')) as [a' c'|a'|e' a'] eqn:E2; try contradiction.
  - destruct SS as (SA & C). destruct (setup_nz _ _ _ _ E1) as (NZV & NZ).
    assert (M1 : mr (mset m (with_T a T)) (mset m' (with_T a' T))) by (apply mr_mset; [exact M|apply sr_with_T; exact SA]).
    pose proof C as (_ & _ & _ & _ & _ & _ & _ & EN). rewrite EN.
    destruct (cN c =? 0); [split; [reflexivity|exact M1]|].
    destruct (cN c =? 1); [apply mr_mset; [exact M1|apply tv_chemical_sim; [exact C|apply M1]]|].
    apply set_XV_multi_sim; assumption.
  - split; [reflexivity|apply mr_mset; assumption].
  - destruct SS as (-> & SA). split; [reflexivity|apply mr_mset; assumption].
Qed.
Lemma set_PV_sim cf P V m m' : mr m m' -> rm (set_PV cf orc P V m) (set_PV cf orc' P V m').
Proof.
  intros M. unfold set_PV. pose proof (setup_sim cf _ _ (proj1 M)) as SS.
  destruct (setup cf (ms m)) as [a c|a|e a] eqn:E1; destruct (setup cf (ms m')) as [a' c'|a'|e' a'] eqn:E2; try contradiction.
  - destruct SS as (SA & C). destruct (setup_nz _ _ _ _ E1) as (NZV & NZ).
    assert (M1 : mr (mset m (with_P a P)) (mset m' (with_P a' P))) by (apply mr_mset; [exact M|apply sr_with_P; exact SA]).
    pose proof C as (_ & _ & _ & _ & _ & _ & _ & EN). rewrite EN.
    destruct (cN c =? 0); [split; [reflexivity|exact M1]|].
    destruct (cN c =? 1); [apply mr_mset; [exact M1|apply pv_chemical_sim; [exact C|apply M1]]|].
    apply set_XV_multi_sim; assumption.
  - split; [reflexivity|apply mr_mset; assumption].
  - destruct SS as (-> & SA). split; [reflexivity|apply mr_mset; assumption].
Qed.

(* ------------------------------------------------------------------ T,H / T,S *)
Lemma herr_eval_sim c c' T P m m' : cr c c' -> ~ Fmass c == 0 -> mr m m' ->
  mr (fst (herr_eval orc c T P m)) (fst (herr_eval orc' c' T P m')) /\
  snd (herr_eval orc' c' T P m') == snd (herr_eval orc c T P m).
Proof.
  intros C NZ M. unfold herr_eval.
  destruct (solve_v_sim c c' T P _ _ C M) as (M1 & V1).
  destruct (solve_v orc c _ _ m) as [m1 v]. destruct (solve_v orc' c' _ _ m') as [m1' v']. cbn [fst snd] in *.
  assert (M2 : mr (mset m1 (set_flows c v (ms m1))) (mset m1' (set_flows c' v' (ms m1'))))
    by (apply mr_mset; [exact M1|apply sr_set_flows; [exact C|apply M1|exact V1]]).
  destruct (call_xH_sim _ _ T P M2) as (M3 & HX).
  destruct (call_xH orc _ T P) as [m3 h]. destruct (call_xH orc' _ T P) as [m3' h']. cbn [fst snd] in *.
  split; [exact M3|]. apply (qr_div h (Fmass c)); [exact HX|apply C|exact NZ].
Qed.

Lemma evals_h_sim c c' isT X pts : cr c c' -> ~ Fmass c == 0 -> forall m m', mr m m' ->
  mr (evals_h orc c isT X pts m) (evals_h orc' c' isT X pts m').
Proof.
  intros C NZ. induction pts as [|x t IH]; intros m m' M; cbn [evals_h]; [exact M|].
  destruct isT.
  - destruct (herr_eval_sim c c' X x _ _ C NZ M) as (M1 & _).
    destruct (herr_eval orc c X x m) as [m1 h]. destruct (herr_eval orc' c' X x m') as [m1' h']. cbn [fst] in *. apply IH; exact M1.
  - destruct (herr_eval_sim c c' x X _ _ C NZ M) as (M1 & _).
    destruct (herr_eval orc c x X m) as [m1 h]. destruct (herr_eval orc' c' x X m') as [m1' h']. cbn [fst] in *. apply IH; exact M1.
Qed.

Lemma set_TH_sim cf T H m m' : mr m m' -> rm (set_TH cf orc T H m) (set_TH cf orc' T (k * H) m').
Proof.
  intros M. unfold set_TH. pose proof (setup_sim cf _ _ (proj1 M)) as SS.
  pose proof OS as (_ & _ & _ & OLl & OLh & _ & _ & OQ & _).
  destruct (setup cf (ms m)) as [a c|a|e a] eqn:E1; destruct (setup cf (ms m')) as [a' c'|a'|e' a'] eqn:E2; try contradiction.
  - destruct SS as (SA & C). destruct (setup_nz _ _ _ _ E1) as (NZV & NZ).
    assert (M1 : mr (mset m a) (mset m' a')) by (apply mr_mset; assumption).
    pose proof C as (_ & _ & FMs & FL & FH & FV & _ & EN). rewrite EN.
    destruct (cN c =? 0); [split; [reflexivity|exact M1]|].
    destruct (cN c =? 1); [apply th_chemical_sim; assumption|].
    destruct (call_dew_sim c c' T _ _ C M1) as (M2 & ED).
    destruct (call_dew orc c _ _) as [m2 [Pd xd]]. destruct (call_dew orc' c' _ _) as [m2' r']. cbn [fst snd] in *. subst r'.
    rewrite (nzb_qr _ _ FH), OLh.
    set (Pd2 := if nzb (Fheavy c) then (1 # 2) * Pd + (1 # 2) * o_lim_heavy orc else Pd).
    assert (M3 : mr (mset m2 (all_vap c (ms m2))) (mset m2' (all_vap c' (ms m2'))))
      by (apply mr_mset; [exact M2|apply sr_all_vap; [exact C|apply M2]]).
    destruct (call_xH_sim _ _ T Pd2 M3) as (M4 & HD).
    destruct (call_xH orc _ T Pd2) as [m4 Hd]. destruct (call_xH orc' _ T Pd2) as [m4' Hd']. cbn [fst snd] in *.
    rewrite (qleb_qr _ _ _ _ qr_0 (qr_sub _ _ _ _ (qr_kH H) HD)).
    destruct (qleb 0 (H - Hd)) eqn:C1; [split; [reflexivity|exact M4]|].
    destruct (call_bubble_sim c c' T _ _ C M4) as (M5 & EB).
    destruct (call_bubble orc c _ m4) as [m5 [Pb yb]]. destruct (call_bubble orc' c' _ m4') as [m5' r']. cbn [fst snd] in *. subst r'.
    rewrite (nzb_qr _ _ FL).
    set (Pb2 := if nzb (Flight c) then 2 * Pb else Pb).
    assert (M6 : mr (mset m5 (all_liq c (ms m5))) (mset m5' (all_liq c' (ms m5'))))
      by (apply mr_mset; [exact M5|apply sr_all_liq; [exact C|apply M5]]).
    destruct (call_xH_sim _ _ T Pb2 M6) as (M7 & HB).
    destruct (call_xH orc _ T Pb2) as [m7 Hb]. destruct (call_xH orc' _ T Pb2) as [m7' Hb']. cbn [fst snd] in *.
    rewrite (qleb_qr _ _ _ _ (qr_sub _ _ _ _ (qr_kH H) HB) qr_0).
    destruct (qleb (H - Hb) 0) eqn:C2; [split; [reflexivity|exact M7]|].
    apply qleb_false in C1. apply qleb_false in C2.
    assert (EV : (k * H - Hb') / (Hd' - Hb') == (H - Hb) / (Hd - Hb))
      by (apply (qr_div (H - Hb) (Hd - Hb)); [apply qr_sub; [apply qr_kH|exact HB]|apply qr_sub; assumption|lra]).
    rewrite (refresh_K_sim c c' _ _ yb xd C NZV EV).
    destruct (refresh_K_raises c _ yb xd); [split; [reflexivity|exact M7]|].
    rewrite (qzerob_qr _ _ FMs).
    destruct (qzerob (Fmass c)) eqn:ZM; [split; [reflexivity|exact M7]|]. apply qzerob_false in ZM.
    destruct M7 as (S7 & K7). rewrite K7, OQ.
    destruct (o_iq orc (mk m7)) as [pts Px].
    pose proof (evals_h_sim c c' true T pts C ZM (tick m7) (tick m7') ltac:(apply mr_tick; split; assumption)) as M8.
    cbn [rm]. apply mr_mset; [exact M8|apply sr_with_T, sr_with_P; apply M8].
  - split; [reflexivity|apply mr_mset; assumption].
  - destruct SS as (-> & SA). split; [reflexivity|apply mr_mset; assumption].
Qed.

(* ------------------------------------------------------------------ the correction of P,H / P,S *)
Lemma clamp_f_proper x x' : x' == x -> clamp_f x' == clamp_f x.
Proof.
  intros E. unfold clamp_f.
  assert (B1 : qltb x' 0 = qltb x 0) by (rewrite E; reflexivity).
  assert (B2 : qltb 0 x' = qltb 0 x) by (rewrite E; reflexivity).
  assert (B3 : qltb 1 x' = qltb 1 x) by (rewrite E; reflexivity).
  rewrite B1, B2, B3. destruct (qltb x 0); [reflexivity|]. destruct (qltb 0 x); [|reflexivity]. destruct (qltb 1 x); [reflexivity|exact E].
Qed.

Lemma vr_only_idx2 c c' a a' : cr c c' -> vr a a' -> vr (only_idx c a) (only_idx c' a').
Proof.
  intros (I & _) A. unfold only_idx. rewrite I. apply (vr_only_idx c). exact A.
Qed.

Lemma correct_sim c c' T P H m m' : cr c c' -> mr m m' ->
  mrw (correct orc c T P H m) (correct orc' c' T P (k * H) m').
Proof.
  intros C M. pose proof C as (I & _). unfold correct.
  assert (M0 : mr (mset m (with_T (ms m) T)) (mset m' (with_T (ms m') T))) by (apply mr_mset; [exact M|apply sr_with_T; apply M]).
  set (m0 := mset m (with_T (ms m) T)) in *. set (m0' := mset m' (with_T (ms m') T)) in *.
  assert (VL : vr (only_idx c (liq (ms m0))) (only_idx c' (liq (ms m0')))) by (apply vr_only_idx2; [exact C|apply M0]).
  assert (VG : vr (only_idx c (vap (ms m0))) (only_idx c' (vap (ms m0')))) by (apply vr_only_idx2; [exact C|apply M0]).
  set (ml := only_idx c (liq (ms m0))) in *. set (ml' := only_idx c' (liq (ms m0'))) in *.
  set (mg := only_idx c (vap (ms m0))) in *. set (mg' := only_idx c' (vap (ms m0'))) in *.
  destruct (call_Hp_sim m0 m0' true mg mg' T P M0 VG) as (M1 & HG).
  destruct (call_Hp orc m0 true mg T P) as [m1 Hg]. destruct (call_Hp orc' m0' true mg' T P) as [m1' Hg']. cbn [fst snd] in *.
  destruct (call_Hp_sim m1 m1' false ml ml' T P M1 VL) as (M2 & HL).
  destruct (call_Hp orc m1 false ml T P) as [m2 Hl]. destruct (call_Hp orc' m1' false ml' T P) as [m2' Hl']. cbn [fst snd] in *.
  destruct (call_xH_sim m2 m2' T P M2) as (M3 & HC).
  destruct (call_xH orc m2 T P) as [m3 Hc]. destruct (call_xH orc' m2' T P) as [m3' Hc']. cbn [fst snd] in *.
  rewrite (qltb_qr _ _ _ _ (qr_kH H) HC).
  assert (FIN : forall (a a' : mach) (f f' : Q), mr a a' -> f' == f ->
            mrw (if qeqb f 0 || qeqb f 1 then let (m4, T') := call_solveT orc a H T P in mset m4 (with_T (ms m4) T') else a)
                (if qeqb f' 0 || qeqb f' 1 then let (m4, T') := call_solveT orc' a' (k * H) T P in mset m4 (with_T (ms m4) T') else a')).
  { intros a a' f f' A F.
    assert (B1 : qeqb f' 0 = qeqb f 0) by (rewrite F; reflexivity).
    assert (B2 : qeqb f' 1 = qeqb f 1) by (rewrite F; reflexivity).
    rewrite B1, B2. destruct (qeqb f 0 || qeqb f 1).
    - destruct (call_solveT_sim a a' H T P A) as (A1 & ET).
      destruct (call_solveT orc a H T P) as [a1 t]. destruct (call_solveT orc' a' (k * H) T P) as [a1' t']. cbn [fst snd] in *.
      apply mrw_with_T; assumption.
    - split; [apply sr_srw; apply A|apply A]. }
  destruct (qltb H Hc).
  - destruct (call_Hp_sim m3 m3' false mg mg' T P M3 VG) as (M4 & HX).
    destruct (call_Hp orc m3 false mg T P) as [m4 Hx]. destruct (call_Hp orc' m3' false mg' T P) as [m4' Hx']. cbn [fst snd] in *.
    pose proof (qr_sub _ _ _ _ HX HG) as HCo. rewrite (qzerob_qr _ _ HCo).
    destruct (qzerob (Hx - Hg)) eqn:Z; [apply (FIN m4 m4' 0 0); [exact M4|reflexivity]|]. apply qzerob_false in Z.
    assert (EF : clamp_f ((k * H - Hc') / (Hx' - Hg')) == clamp_f ((H - Hc) / (Hx - Hg))).
    { apply clamp_f_proper. apply (qr_div (H - Hc) (Hx - Hg)); [apply qr_sub; [apply qr_kH|exact HC]|exact HCo|exact Z]. }
    set (f := clamp_f ((H - Hc) / (Hx - Hg))) in *. set (f' := clamp_f ((k * H - Hc') / (Hx' - Hg'))) in *.
    assert (B0 : qltb 0 f' = qltb 0 f) by (rewrite EF; reflexivity). rewrite B0.
    destruct (qltb 0 f); [|apply FIN; assumption].
    apply FIN; [|exact EF]. apply mr_mset; [exact M4|]. rewrite I.
    apply sr_write2; [exact C|apply M4| |].
    + apply vr_vadd; [apply vr_gather; apply M4|apply vr_vscale_l; [exact EF|apply vr_gather; exact VG]].
    + apply vr_vsub; [apply vr_gather; apply M4|apply vr_vscale_l; [exact EF|apply vr_gather; exact VG]].
  - destruct (call_Hp_sim m3 m3' true ml ml' T P M3 VL) as (M4 & HX).
    destruct (call_Hp orc m3 true ml T P) as [m4 Hx]. destruct (call_Hp orc' m3' true ml' T P) as [m4' Hx']. cbn [fst snd] in *.
    pose proof (qr_sub _ _ _ _ HX HL) as HCo. rewrite (qzerob_qr _ _ HCo).
    destruct (qzerob (Hx - Hl)) eqn:Z; [apply (FIN m4 m4' 0 0); [exact M4|reflexivity]|]. apply qzerob_false in Z.
    assert (EF : clamp_f ((k * H - Hc') / (Hx' - Hl')) == clamp_f ((H - Hc) / (Hx - Hl))).
    { apply clamp_f_proper. apply (qr_div (H - Hc) (Hx - Hl)); [apply qr_sub; [apply qr_kH|exact HC]|exact HCo|exact Z]. }
    set (f := clamp_f ((H - Hc) / (Hx - Hl))) in *. set (f' := clamp_f ((k * H - Hc') / (Hx' - Hl'))) in *.
    assert (B0 : qltb 0 f' = qltb 0 f) by (rewrite EF; reflexivity). rewrite B0.
    destruct (qltb 0 f); [|apply FIN; assumption].
    apply FIN; [|exact EF]. apply mr_mset; [exact M4|]. rewrite I.
    apply sr_write2; [exact C|apply M4| |].
    + apply vr_vsub; [apply vr_gather; apply M4|apply vr_vscale_l; [exact EF|apply vr_gather; exact VL]].
    + apply vr_vadd; [apply vr_gather; apply M4|apply vr_vscale_l; [exact EF|apply vr_gather; exact VL]].
Qed.

(* ------------------------------------------------------------------ P,H / P,S *)
Lemma set_PH_sim cf ent P H m m' : mr m m' -> rmw (set_PH cf orc ent P H m) (set_PH cf orc' ent P (k * H) m').
Proof.
  intros M. unfold set_PH. pose proof (setup_sim cf _ _ (proj1 M)) as SS.
  pose proof OS as (_ & _ & _ & OLl & OLh & _ & _ & OQ & _).
  destruct (setup cf (ms m)) as [a c|a|e a] eqn:E1; destruct (setup cf (ms m')) as [a' c'|a'|e' a'] eqn:E2; try contradiction.
  2:{ split; [reflexivity|apply mr_mset; assumption]. }
  2:{ destruct SS as (-> & SA). split; [reflexivity|apply mr_mset; assumption]. }
  destruct SS as (SA & C). destruct (setup_nz _ _ _ _ E1) as (NZV & NZ).
  assert (M1 : mr (mset m (with_P a P)) (mset m' (with_P a' P))) by (apply mr_mset; [exact M|apply sr_with_P; exact SA]).
  pose proof C as (_ & _ & FMs & FL & FH & FV & _ & EN). rewrite EN.
  destruct (cN c =? 0).
  { assert (ET0 : sT (ms (mset m' (with_P a' P))) = sT (ms (mset m (with_P a P)))) by (destruct M1 as ((_ & _ & _ & A & _) & _); exact A).
    rewrite ET0.
    destruct (call_solveT_sim _ _ H (sT (ms (mset m (with_P a P)))) P M1) as (M2 & ET).
    destruct (call_solveT orc _ H _ P) as [m2 t]. destruct (call_solveT orc' _ (k * H) _ P) as [m2' t']. cbn [fst snd] in *.
    cbn [rmw]. apply mrw_with_T; assumption. }
  destruct (cN c =? 1); [cbn [rmw]; apply ph_chemical_sim; assumption|].
  destruct (call_bubble_sim c c' P _ _ C M1) as (M2 & EB).
  destruct (call_bubble orc c _ _) as [m2 [Tb0 yb]]. destruct (call_bubble orc' c' _ _) as [m2' r']. cbn [fst snd] in *. subst r'.
  rewrite (nzb_qr _ _ FL), OLl.
  set (Tb := if nzb (Flight c) then c_09 * Tb0 + c_01 * o_lim_light orc else Tb0).
  assert (M3 : mr (mset m2 (all_liq c (ms m2))) (mset m2' (all_liq c' (ms m2'))))
    by (apply mr_mset; [exact M2|apply sr_all_liq; [exact C|apply M2]]).
  destruct (call_xH_sim _ _ Tb P M3) as (M4 & HB).
  destruct (call_xH orc _ Tb P) as [m4 Hb]. destruct (call_xH orc' _ Tb P) as [m4' Hb']. cbn [fst snd] in *.
  rewrite (qleb_qr _ _ _ _ (qr_sub _ _ _ _ (qr_kH H) HB) qr_0).
  destruct (qleb (H - Hb) 0) eqn:C1.
  { destruct (call_solveT_sim _ _ H Tb P M4) as (M5 & ET).
    destruct (call_solveT orc m4 H Tb P) as [m5 t]. destruct (call_solveT orc' m4' (k * H) Tb P) as [m5' t']. cbn [fst snd] in *.
    cbn [rmw]. apply mrw_with_T; assumption. }
  destruct (call_dew_sim c c' P _ _ C M4) as (M5 & ED).
  destruct (call_dew orc c _ m4) as [m5 [Td0 xd]]. destruct (call_dew orc' c' _ m4') as [m5' r']. cbn [fst snd] in *. subst r'.
  rewrite (nzb_qr _ _ FH), OLh.
  destruct (if qleb Td0 Tb then (Tb + (1 # 2), Td0 - (1 # 2)) else (Td0, Tb)) as [Td1 Tb1].
  set (Td := if nzb (Fheavy c) then c_09 * Td1 + c_01 * o_lim_heavy orc else Td1).
  assert (M6 : mr (mset m5 (all_vap c (ms m5))) (mset m5' (all_vap c' (ms m5'))))
    by (apply mr_mset; [exact M5|apply sr_all_vap; [exact C|apply M5]]).
  destruct (call_xH_sim _ _ Td P M6) as (M7 & HD).
  destruct (call_xH orc _ Td P) as [m7 Hd]. destruct (call_xH orc' _ Td P) as [m7' Hd']. cbn [fst snd] in *.
  rewrite (qleb_qr _ _ _ _ qr_0 (qr_sub _ _ _ _ (qr_kH H) HD)).
  destruct (qleb 0 (H - Hd)) eqn:C2.
  { destruct (call_solveT_sim _ _ H Td P M7) as (M8 & ET).
    destruct (call_solveT orc m7 H Td P) as [m8 t]. destruct (call_solveT orc' m7' (k * H) Td P) as [m8' t']. cbn [fst snd] in *.
    cbn [rmw]. apply mrw_with_T; assumption. }
  apply qleb_false in C1. apply qleb_false in C2.
  assert (EV0 : (k * H - Hb') / (Hd' - Hb') == (H - Hb) / (Hd - Hb))
    by (apply (qr_div (H - Hb) (Hd - Hb)); [apply qr_sub; [apply qr_kH|exact HB]|apply qr_sub; assumption|lra]).
  assert (EV : (if ent then (k * H - Hb') / (Hd' - Hb') else Qabs ((k * H - Hb') / (Hd' - Hb'))) ==
               (if ent then (H - Hb) / (Hd - Hb) else Qabs ((H - Hb) / (Hd - Hb))))
    by (destruct ent; [exact EV0|rewrite EV0; reflexivity]).
  rewrite (refresh_K_sim c c' _ _ yb xd C NZV EV).
  destruct (refresh_K_raises c _ yb xd); [split; [reflexivity|exact M7]|].
  rewrite (qzerob_qr _ _ FMs).
  destruct (qzerob (Fmass c)) eqn:ZM; [split; [reflexivity|exact M7]|]. apply qzerob_false in ZM.
  assert (EH : k * H / Fmass c' == H / Fmass c) by (apply (qr_div H (Fmass c)); [apply qr_kH|exact FMs|exact ZM]).
  assert (M8 : mr (if ent then fst (herr_eval orc c Tb1 P m7) else m7) (if ent then fst (herr_eval orc' c' Tb1 P m7') else m7'))
    by (destruct ent; [apply herr_eval_sim; assumption|exact M7]).
  set (m8 := if ent then fst (herr_eval orc c Tb1 P m7) else m7) in *.
  set (m8' := if ent then fst (herr_eval orc' c' Tb1 P m7') else m7') in *.
  destruct (herr_eval_sim c c' Tb1 P m8 m8' C ZM M8) as (M9 & EHb).
  destruct (herr_eval orc c Tb1 P m8) as [m9 hb]. destruct (herr_eval orc' c' Tb1 P m8') as [m9' hb']. cbn [fst snd] in *.
  assert (B1 : qltb (k * H / Fmass c') hb' = qltb (H / Fmass c) hb) by (rewrite EH, EHb; reflexivity). rewrite B1.
  cbn [rmw].
  destruct (qltb (H / Fmass c) hb); [apply correct_sim; assumption|].
  destruct (herr_eval_sim c c' Td P m9 m9' C ZM M9) as (M10 & EHd).
  destruct (herr_eval orc c Td P m9) as [m10 hd]. destruct (herr_eval orc' c' Td P m9') as [m10' hd']. cbn [fst snd] in *.
  assert (B2 : qltb hd' (k * H / Fmass c') = qltb hd (H / Fmass c)) by (rewrite EH, EHd; reflexivity). rewrite B2.
  destruct (qltb hd (H / Fmass c)); [apply correct_sim; assumption|].
  destruct M10 as (S10 & K10). rewrite K10, OQ.
  destruct (o_iq orc (mk m10)) as [pts Tx].
  apply correct_sim; [exact C|]. apply evals_h_sim; [exact C|exact ZM|apply mr_tick; split; assumption].
Qed.

(* ------------------------------------------------------------------ VLE.__call__ *)
Definition scale_st (s : vst) : vst := mkst (vscale k (liq s)) (vscale k (vap s)) (map (vscale k) (oth s)) (sT s) (sP s).
Definition scale_spec (sp : spec) : spec :=
  match sp with
  | SpTH T H => SpTH T (k * H) | SpTS T Sv => SpTS T (k * Sv)
  | SpPH P H => SpPH P (k * H) | SpPS P Sv => SpPS P (k * Sv)
  | sp => sp
  end.

Lemma sr_scale_st s : sr s (scale_st s).
Proof.
  unfold sr, scale_st. cbn [liq vap oth sT sP]. repeat split; try apply vr_vscale.
  induction (oth s); simpl; constructor; auto. apply vr_vscale.
Qed.

Lemma rmw_catch r r' f : (forall s s', srw s s' -> srw (f s) (f s')) -> rmw r r' -> rmw (catch_noeq r f) (catch_noeq r' f).
Proof.
  intros F. destruct r as [a|e a], r' as [a'|e' a']; cbn [rmw catch_noeq]; try tauto.
  intros (<- & A). destruct e; cbn [rmw]; try (split; [reflexivity|exact A]).
  split; [apply F, sr_srw; apply A|apply A].
Qed.
Lemma srw_with_T s s' t : srw s s' -> srw (with_T s t) (with_T s' t).
Proof. intros (A & B & C & D & E). repeat split; auto; try reflexivity. Qed.
Lemma srw_with_P s s' p : srw s s' -> srw (with_P s p) (with_P s' p).
Proof. intros (A & B & C & D & E). repeat split; auto; try reflexivity. Qed.

Lemma vle_call_sim cf sp m m' : mr m m' -> rmw (vle_call cf orc sp m) (vle_call cf orc' (scale_spec sp) m').
Proof.
  intros M. destruct sp as [T P|T V|T H|T Sv|T x|T y|P V|P H|P Sv|P x|P y]; cbn [vle_call scale_spec].
  - apply rmw_catch; [intros; apply srw_with_P, srw_with_T; assumption|apply rm_rmw, set_TP_sim; exact M].
  - apply rmw_catch; [intros; apply srw_with_T; assumption|apply rm_rmw, set_TV_sim; exact M].
  - apply rm_rmw, set_TH_sim; exact M.
  - apply rm_rmw, set_TH_sim; exact M.
  - apply rm_rmw, set_xy_sim; exact M.
  - apply rm_rmw, set_xy_sim; exact M.
  - apply rmw_catch; [intros; apply srw_with_P; assumption|apply rm_rmw, set_PV_sim; exact M].
  - apply rmw_catch; [intros; apply srw_with_P; assumption|apply set_PH_sim; exact M].
  - pose proof (set_PH_sim cf true P Sv m m' M) as R1.
    destruct (set_PH cf orc true P Sv m) as [a|e a]; destruct (set_PH cf orc' true P (k * Sv) m') as [a'|e' a']; cbn [rmw] in R1; try contradiction.
    + exact R1.
    + destruct R1 as (_ & M1). apply rmw_catch; [intros; apply srw_with_P; assumption|apply set_PH_sim; exact M1].
  - apply rm_rmw, set_xy_sim; exact M.
  - apply rm_rmw, set_xy_sim; exact M.
Qed.

(* the flash of the feed multiplied by k is the flash of the feed, multiplied by k *)
Definition hom_result (r r' : vres vst) : Prop :=
  match r, r' with
  | VOk a, VOk b => srw a b
  | VErr e _, VErr e' _ => e = e'
  | _, _ => False
  end.
Lemma vle_homogeneous_lemma cf sp st : hom_result (vle cf orc sp st) (vle cf orc' (scale_spec sp) (scale_st st)).
Proof.
  unfold vle. assert (M : mr (mkm st 0) (mkm (scale_st st) 0)) by (split; [apply sr_scale_st|reflexivity]).
  pose proof (vle_call_sim cf sp _ _ M) as R.
  destruct (vle_call cf orc sp (mkm st 0)) as [a|e a]; destruct (vle_call cf orc' (scale_spec sp) (mkm (scale_st st) 0)) as [a'|e' a'];
    cbn [rmw hom_result] in *; try contradiction.
  - apply R.
  - apply R.
Qed.
End Hom.
