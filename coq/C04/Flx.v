(* C04 / C08 — executable model of the bracketing root finder every V / H / S specification of vle.py (and the
   bubble / dew point fall-backs) hands its residual to:  flexsolve.IQ_interpolation  with its helpers
   utils.not_within_bounds, bisect, iteration_is_getting_stuck, false_position_iter, IQ_iter, check_tols, check_bounds
   (flexsolve/bounded_solvers.py, flexsolve/utils.py: third-party code, tied by correspondence like the rest).
   Definitions only.  Numbers are exact rationals; the one place where floating point matters for the
   *behaviour* of the loop - every newly computed abscissa is a rounded number before it is tested against the
   bracket - is kept as the parameter [rnd] (the correspondence instantiates it with rounding to 53 significant
   bits, the theorems hold for every [rnd] that keeps a value between two numbers between them). *)
From V Require Import Common.Num.
Open Scope Q_scope.

Definition e16 : Q := 1 # 10000000000000000.
Definition big32 : Q := 100000000000000000000000000000000 # 1.

(* utils.not_within_bounds *)
Definition nwb (x x0 x1 : Q) : bool :=
  negb ((qltb x0 x && qltb x x1) || (qltb x1 x && qltb x x0)).

Section Solver.
Variable rnd : Q -> Q.
Variable f : Q -> Q.

(* utils.bisect *)
Definition bisect (x0 x1 : Q) : Q := rnd ((x0 + x1) / 2).

(* utils.iteration_is_getting_stuck: abs((x - xlast) / dx) < r   (a float division: raises for dx = 0) *)
Definition stuck (x xlast dx r : Q) : res bool :=
  if qzerob dx then Err EZeroDiv else Ok (qltb (Qabs ((x - xlast) / dx)) r).

(* utils.false_position_iter *)
Definition fp_iter (x0 x1 dx y0 y1 df xlast : Q) : res Q :=
  let dy := y1 - y0 in
  if qzerob dy then Ok (bisect x0 x1)
  else
    let x := rnd (x0 + df * dx / dy) in
    if nwb x x0 x1 then Ok (bisect x0 x1)
    else do s <- stuck x xlast dx (1 # 10);
         Ok (if s : bool then rnd ((x + x0 + x1) / 3) else x).

(* utils.IQ_iter *)
Definition iq_iter (y0 y1 y2 x0 x1 x2 dx df0 xlast : Q) : res Q :=
  let df1 := - y1 in
  let df2 := - y2 in
  let d01 := df0 - df1 in
  let d02 := df0 - df2 in
  let d12 := df1 - df2 in
  if qltb e16 (Qabs d01) && qltb e16 (Qabs d02) && qltb e16 (Qabs d12) then
    let a := df0 / d12 in
    let b := df1 / d02 in
    let c := df2 / d01 in
    let x := rnd (x0 * b * c - x1 * a * c + x2 * a * b) in
    Ok (if nwb x x0 x1 then bisect x0 x1 else x)
  else fp_iter x0 x1 dx y0 y1 df0 xlast.

(* how a call returned *)
Inductive why : Type := Lucky | Exact | Tol | IterOut.
Definition why_eqb (a b : why) : bool :=
  match a, b with Lucky, Lucky | Exact, Exact | Tol, Tol | IterOut, IterOut => true | _, _ => false end.

Record iqcfg := mkiqcfg { xtol : Q; ytol : Q; checkroot : bool; checkiter : bool; checkbounds : bool }.

(* "not checkroot and abs(y) < ytol or y == 0" *)
Definition lucky (c : iqcfg) (y : Q) : bool :=
  (negb (checkroot c) && qltb (Qabs y) (ytol c)) || qzerob y.

(* the result: abscissa, reason, number of evaluations of f *)
Definition iqres := res (Q * why * nat).

(* the termination test after the bracket update *)
Definition stop (c : iqcfg) (dx err : Q) : bool :=
  let xs := qltb (Qabs dx) (xtol c) in
  let ys := qltb err (ytol c) in
  if checkroot c then ys && xs else xs || ys.

(* the for loop; [fuel] = maxiter - iterations done; y = f(x) has been evaluated *)
Fixpoint iq_loop (c : iqcfg) (fuel : nat) (x y x0 y0 x1 y1 df0 : Q) (calls : nat) : iqres :=
  match fuel with
  | O => if checkiter c then Err ERuntime else Ok (x, IterOut, calls)
  | S k =>
    if qltb 0 y then
      (* y2 = y1; x2 = x1; x1 = x; err = y1 = y *)
      let dx := x - x0 in
      if stop c dx y then Ok (x, Tol, calls)
      else do xn <- iq_iter y0 y y1 x0 x x1 dx df0 x;
           iq_loop c k xn (f xn) x0 y0 x y df0 (S calls)
    else if qltb y 0 then
      (* y2 = y0; x2 = x0; x0 = x; y0 = y; err = df0 = -y *)
      let dx := x1 - x in
      if stop c dx (- y) then Ok (x, Tol, calls)
      else do xn <- iq_iter y y1 y0 x x1 x0 dx (- y) x;
           iq_loop c k xn (f xn) x y x1 y1 (- y) (S calls)
    else Ok (x, Exact, calls)
  end.

(* flexsolve.IQ_interpolation(f, x0, x1, y0, y1, x, xtol, ytol, args, maxiter, checkroot, checkiter, checkbounds) *)
Definition iq_interpolation (c : iqcfg) (maxiter : nat) (x0 x1 : Q) (oy0 oy1 : option Q) (ox : option Q) : iqres :=
  if checkroot c && (qleb (xtol c) 0 || qleb (ytol c) 0) then Err EValue else
  (* the guess *)
  let guess_x := match ox with None => true | Some x => nwb x x0 x1 end in
  let x := match ox with None => big32 | Some x => x end in
  let n0 := if guess_x then O else 1%nat in
  if negb guess_x && lucky c (f x) then Ok (x, Lucky, n0) else
  let y := f x in   (* only meaningful when guess_x = false *)
  let y0 := match oy0 with Some v => v | None => f x0 end in
  let n1 := match oy0 with Some _ => n0 | None => S n0 end in
  if lucky c y0 then Ok (x0, Lucky, n1) else
  let y1 := match oy1 with Some v => v | None => f x1 end in
  let n2 := match oy1 with Some _ => n1 | None => S n1 end in
  if lucky c y1 then Ok (x1, Lucky, n2) else
  let sw := qltb y1 0 in
  let a0 := if sw then x1 else x0 in let b0 := if sw then y1 else y0 in
  let a1 := if sw then x0 else x1 in let b1 := if sw then y0 else y1 in
  let df0 := - b0 in
  let dx := a1 - a0 in
  if guess_x then
    do xg <- fp_iter a0 a1 dx b0 b1 df0 a0;
    let yg := f xg in
    if lucky c yg then Ok (xg, Lucky, S n2) else
    if checkbounds c && qltb 0 (b0 * b1) then Err EValue else
    iq_loop c maxiter xg yg a0 b0 a1 b1 df0 (S n2)
  else
    if checkbounds c && qltb 0 (b0 * b1) then Err EValue else
    iq_loop c maxiter x y a0 b0 a1 b1 df0 n2.

End Solver.

(* ---------- rounding to 53 significant bits (the correspondence's instance of [rnd]) ---------- *)
Definition rnd53 (q : Q) : Q :=
  let n := Z.abs (Qnum q) in
  let d := Zpos (Qden q) in
  if (n =? 0)%Z then 0 else
  let e := (Z.log2 n - Z.log2 d)%Z in
  let s := (53 - e)%Z in
  let m := if (0 <=? s)%Z then ((2 * n * 2 ^ s + d) / (2 * d))%Z
           else ((2 * n + d * 2 ^ (- s)) / (2 * d * 2 ^ (- s)))%Z in
  let sg := if (Qnum q <? 0)%Z then (-1)%Z else 1%Z in
  if (0 <=? s)%Z then Qred ((sg * m) # (Z.to_pos (2 ^ s))) else Qred ((sg * m * 2 ^ (- s)) # 1).

(* cubic test functions with rational coefficients, and the comparison against the implementation *)
Definition cubic (c0 c1 c2 c3 : Q) (x : Q) : Q := c0 + x * (c1 + x * (c2 + x * c3)).

Definition why_code (w : why) : nat := match w with Lucky => 0 | Exact => 1 | Tol => 2 | IterOut => 3 end%nat.

(* expected: Some (x, calls) for a normal return, None with the error otherwise *)
Definition flx_check (c0 c1 c2 c3 : Q) (cfg : iqcfg) (maxiter : nat) (x0 x1 : Q) (oy0 oy1 ox : option Q)
  (exp : res (Q * nat)) : bool :=
  match iq_interpolation rnd53 (cubic c0 c1 c2 c3) cfg maxiter x0 x1 oy0 oy1 ox, exp with
  | Ok (x, _, n), Ok (x', n') => qapproxb x x' && Nat.eqb n n'
  | Err e, Err e' => err_eqb e e'
  | _, _ => false
  end.

(* ---------- the call sites in vle.py ---------- *)
(* class attributes of VLE (exact values of the float literals) *)
Definition c_T_tol : Q := 944473296573929 # 18889465931478580854784.     (* 5e-8 *)
Definition c_P_tol : Q := 1.
Definition c_V_tol : Q := 4722366482869645 # 4722366482869645213696.       (* 1e-6 = H_hat_tol = S_hat_tol *)
Definition c_maxiter : nat := 20.
(* what each specification pair passes: (xtol, ytol); checkroot default (off), checkiter = checkbounds = False *)
Inductive site := SiteTV | SitePV | SiteTH | SiteTS | SitePH | SitePS.
Definition site_cfg (s : site) : iqcfg :=
  match s with
  | SiteTV | SiteTH | SiteTS => mkiqcfg c_P_tol c_V_tol false false false     (* unknown: P *)
  | SitePV | SitePH | SitePS => mkiqcfg c_T_tol c_V_tol false false false     (* unknown: T *)
  end.
Definition cfg_eqb (a b : iqcfg) : bool :=
  qeqb (xtol a) (xtol b) && qeqb (ytol a) (ytol b) && Bool.eqb (checkroot a) (checkroot b)
  && Bool.eqb (checkiter a) (checkiter b) && Bool.eqb (checkbounds a) (checkbounds b).

(* a residual known at finitely many points (recorded from the real run); elsewhere a value that the comparison rejects *)
Definition near (a b : Q) : bool := Qle_bool (Qabs (a - b)) ((1 # 1000000000000) * Qmax 1 (Qmax (Qabs a) (Qabs b))).
Fixpoint table (t : list (Q * Q)) (x : Q) : Q :=
  match t with
  | [] => 0
  | (k, v) :: t' => if near k x then v else table t' x
  end.
Fixpoint covered (t : list (Q * Q)) (x : Q) : bool :=
  match t with [] => false | (k, _) :: t' => near k x || covered t' x end.

(* the real call made by vle.py for specification pair [s]: the arguments are those of the model's call site, the end
   values bracket a sign change, and the model run on the residual AS THE SOLVER SAW IT (the recorded evaluations, then the
   two end values it was handed) returns what the implementation returned after the same number of evaluations *)
Definition iqsite_check (s : site) (cfg : iqcfg) (maxiter : nat) (x0 x1 y0 y1 : Q) (guess : option Q)
  (t : list (Q * Q)) (ret : Q) (calls : nat) : bool :=
  let t' := t ++ [(x0, y0); (x1, y1)] in
  cfg_eqb cfg (site_cfg s) && Nat.eqb maxiter c_maxiter
  && qleb (y0 * y1) 0
  && match iq_interpolation rnd53 (table t') cfg maxiter x0 x1 (Some y0) (Some y1) guess with
     | Ok (x, _, n) => qapproxb x ret && Nat.eqb n calls && covered t' x
     | Err _ => false
     end.
