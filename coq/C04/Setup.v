(* C04 — VLE._setup (thermosteam/equilibrium/vle.py) with the two per-process constructor caches
   BubblePoint._cached / DewPoint._cached (bubble_point.py, dew_point.py: __new__, key =
   (tuple(chemicals), thermo.Gamma, thermo.Phi, thermo.PCF)) and the K-value base
   pcf(T, P, Psats) * Psats / P that VLE._solve_v (fixed-point branch) hands to _solve_v_fixed_point,
   over HISTORIES of flashes on several VLE objects (streams) of several property packages that may
   list the same chemical objects in different orders.  Definitions only. *)
From V Require Export Common.Num.
From V Require C08.Model.
Import ListNotations.
Open Scope Q_scope.

(* a property package: the chemical objects (global ids) in package order, each with "takes part in VLE"
   (CompiledChemicals._vle_index, ascending), and the (Gamma, Phi, PCF) class ids of the Thermo object *)
Definition chems := list (nat * bool).
Definition pkg := (chems * (nat * nat * nat))%type.
Definition chem_at (p : chems) (i : nat) : nat := fst (nth i p (0%nat, false)).
Definition is_vle (p : chems) (i : nat) : bool := snd (nth i p (0%nat, false)).
(* chemicals.get_vle_indices(nonzero) = [i for i in self._vle_index if i in nonzeros] *)
Definition vle_indices (p : chems) (nz : list nat) : list nat :=
  filter (fun i => is_vle p i && existsb (Nat.eqb i) nz) (seq 0 (length p)).
(* eq_chems = [chemicals.tuple[i] for i in index];  key = (tuple(eq_chems), thermo.Gamma, thermo.Phi, thermo.PCF) *)
Definition mkkey (p : pkg) (index : list nat) : C08.Model.key :=
  match snd p with (g, ph, f) => (map (chem_at (fst p)) index, g, ph, f) end.
(* an instance stores the chemicals it was built with IN THAT ORDER (self.chemicals, self.Psats = [i.Psat for i in chemicals],
   self.gamma = thermo.Gamma(chemicals), ...): it is represented by its constructor arguments *)
Definition eq_build2 (k : C08.Model.key) : res C08.Model.key := Ok k.
Definition inst := (nat * C08.Model.key)%type.                  (* object identity, instance *)
Definition caches := ((C08.Model.cache C08.Model.key * nat) * (C08.Model.cache C08.Model.key * nat))%type.   (* BubblePoint._cached, DewPoint._cached *)

(* the slots of a VLE object that _setup reads and writes *)
Record vobj := mkvobj { vo_nonzero : option (list nat); vo_index : list nat; vo_bp : option inst; vo_dp : option inst }.
Definition vobj0 : vobj := mkvobj None [] None None.            (* __init__: _nonzero = None, _index = () *)
Definition opt_list_eqb (a : option (list nat)) (b : list nat) : bool :=
  match a with Some l => list_eqb Nat.eqb l b | None => false end.
Definition b2n (b : bool) : nat := if b then 1%nat else 0%nat.

(* _setup.  [nz] = the keys with a non-zero total flow (sorted), [zl] / [zh] = (z_light > 0.) / (z_heavy > 0.).
   Result: N or the exception, and the state left behind (the slots _nonzero / _index are written before the second
   NoEquilibrium test).  N = 0 cannot be reached behind that test, so the `N == 0` arm of the reset is dead here. *)
Definition setup (p : pkg) (nz : list nat) (zl zh : bool) (cs : caches) (v : vobj) : res nat * (caches * vobj) :=
  match nz with
  | [] => (Err EOther, (cs, v))                                  (* if not mol.any(): raise NoEquilibrium *)
  | _ :: _ =>
    let reset := negb (opt_list_eqb (vo_nonzero v) nz) in        (* if self._nonzero == nonzero: ... else: ... *)
    let index := if reset then vle_indices (fst p) nz else vo_index v in
    let v1 := if reset then mkvobj (Some nz) index (vo_bp v) (vo_dp v) else v in
    match index with
    | [] => (Err EOther, (cs, v1))                               (* if not mol_vle.any(): raise NoEquilibrium *)
    | _ :: _ =>
      let N := (length index + b2n zl + b2n zh)%nat in
      if reset then
        if Nat.eqb N 1 then (Ok N, (cs, v1))                     (* self._chemical, = eq_chems; equilibrium objects untouched *)
        else
          let rb := C08.Model.cache_new eq_build2 (fst cs) (mkkey p index) in      (* BubblePoint(eq_chems, thermo) *)
          let rd := C08.Model.cache_new eq_build2 (snd cs) (mkkey p index) in      (* DewPoint(eq_chems, thermo) *)
          match fst rb, fst rd with
          | Ok b, Ok d => (Ok N, ((snd rb, snd rd), mkvobj (Some nz) index (Some b) (Some d)))
          | Err e, _ => (Err e, ((snd rb, snd cs), v1))
          | Ok b, Err e => (Err e, ((snd rb, snd rd), mkvobj (Some nz) index (Some b) (vo_dp v)))
          end
      else (Ok N, (cs, v1))
    end
  end.

(* _solve_v, method 'fixed-point':
     Psats = np.array([i(T) for i in self._bubble_point.Psats]);  pcf_Psats_over_P = self._pcf(T, P, Psats) * Psats / P
   [psat c T] = the vapour pressure of chemical object c at T; [pcf f T P Psats] = the Poynting factors of class f
   (self._pcf = bp.pcf is the instance built with the bubble point's chemicals).  Nothing else is read: no slot of the
   VLE object remembers vapour pressures between calls. *)
Definition kbase (psat : nat -> Q -> Q) (pcf : nat -> Q -> Q -> vec -> vec) (v : vobj) (T P : Q) : res vec :=
  match vo_bp v with
  | None => Err EType                                            (* AttributeError on None *)
  | Some (_, (cs, _, _, f)) =>
    let Ps := map (fun c => psat c T) cs in
    if qzerob P then Err EZeroDiv else Ok (map (fun x => x / P) (vmul (pcf f T P Ps) Ps))
  end.
(* what a flash of material [nz] in package [p] must use, whatever happened before *)
Definition kbase_spec (psat : nat -> Q -> Q) (pcf : nat -> Q -> Q -> vec -> vec) (p : pkg) (nz : list nat) (T P : Q) : vec :=
  let cs := map (chem_at (fst p)) (vle_indices (fst p) nz) in
  let Ps := map (fun c => psat c T) cs in
  map (fun x => x / P) (vmul (pcf (snd (snd p)) T P Ps) Ps).

(* ---------- histories: several VLE objects (one per stream, package fixed at creation) sharing the two caches ---------- *)
Record fop := mkfop { fo_obj : nat; fo_nz : list nat; fo_zl : bool; fo_zh : bool; fo_TP : list (Q * Q) }.
Record fobs := mkfobs { ob_N : res nat; ob_index : list nat; ob_bp : option inst; ob_dp : option inst; ob_kb : list (res vec) }.
Record pst := mkpst { ps_c : caches; ps_objs : list vobj }.
Fixpoint set_nth {A} (n : nat) (x : A) (l : list A) : list A :=
  match l, n with
  | [], _ => []
  | _ :: t, O => x :: t
  | h :: t, S n' => h :: set_nth n' x t
  end.
Definition fstep (psat : nat -> Q -> Q) (pcf : nat -> Q -> Q -> vec -> vec) (pkgs : list pkg) (st : pst) (o : fop) : option fobs * pst :=
  match nth_error pkgs (fo_obj o), nth_error (ps_objs st) (fo_obj o) with
  | Some p, Some v =>
    let r := setup p (fo_nz o) (fo_zl o) (fo_zh o) (ps_c st) v in
    let v' := snd (snd r) in
    (Some (mkfobs (fst r) (vo_index v') (vo_bp v') (vo_dp v')
                  (map (fun tp => kbase psat pcf v' (fst tp) (snd tp)) (fo_TP o))),
     mkpst (fst (snd r)) (set_nth (fo_obj o) v' (ps_objs st)))
  | _, _ => (None, st)
  end.
Fixpoint frun (psat : nat -> Q -> Q) (pcf : nat -> Q -> Q -> vec -> vec) (pkgs : list pkg) (st : pst) (ops : list fop) : list (option fobs) * pst :=
  match ops with
  | [] => ([], st)
  | o :: t => let r := fstep psat pcf pkgs st o in
              let rs := frun psat pcf pkgs (snd r) t in
              (fst r :: fst rs, snd rs)
  end.
Definition caches0 : caches := (([], 0%nat), ([], 0%nat)).
Definition pst0 (pkgs : list pkg) : pst := mkpst caches0 (map (fun _ => vobj0) pkgs).

(* ---------- comparison with the implementation ---------- *)
Fixpoint tab_psat (tab : list (nat * Q * Q)) (c : nat) (T : Q) : Q :=
  match tab with
  | [] => 0
  | (c', T', v) :: t => if Nat.eqb c c' && Qeq_bool T T' then v else tab_psat t c T
  end.
Definition pcf_mock (_ : nat) (_ _ : Q) (Ps : vec) : vec := map (fun _ => 1) Ps.     (* MockPoyintingCorrectionFactors.__call__ returns 1. *)
Definition inst_eqb (a b : option inst) : bool :=
  match a, b with
  | Some (i, k), Some (j, k') => Nat.eqb i j && C08.Model.key_eqb k k'
  | None, None => true
  | _, _ => false
  end.
Fixpoint forall2b {A B} (f : A -> B -> bool) (a : list A) (b : list B) : bool :=
  match a, b with
  | [], [] => true
  | x :: a', y :: b' => f x y && forall2b f a' b'
  | _, _ => false
  end.
Definition resvec_eqb (r : res vec) (e : vec) : bool := match r with Ok v => vapproxb v e | Err _ => false end.
(* expected: N (None = NoEquilibrium was raised), index, bubble / dew instance, the K bases seen by _solve_v_fixed_point *)
Definition fexp := (option nat * list nat * option inst * option inst * list vec)%type.
Definition fobs_eqb (o : option fobs) (e : fexp) : bool :=
  match o, e with
  | Some o, (n, ix, b, d, kbs) =>
    (match ob_N o, n with Ok a, Some a' => Nat.eqb a a' | Err _, None => true | _, _ => false end)
    && list_eqb Nat.eqb (ob_index o) ix && inst_eqb (ob_bp o) b && inst_eqb (ob_dp o) d
    && forall2b resvec_eqb (ob_kb o) kbs
  | None, _ => false
  end.
Definition setup_hist_check (tab : list (nat * Q * Q)) (pkgs : list pkg) (ops : list fop) (expect : list fexp) : bool :=
  forall2b fobs_eqb (fst (frun (tab_psat tab) pcf_mock pkgs (pst0 pkgs) ops)) expect.
