(* C04 — lemmas about coq/C04/Setup.v: along every history of flashes on any number of VLE objects of any packages
   (same chemical objects in any orders), the equilibrium objects a flash works with store exactly the chemicals of
   the current material in the order of the object's own package, and the K-value base handed to the fixed-point
   solver is a function of the current call alone. *)
From V Require Import Common.NumFacts C04.Setup.
From V Require C08.Model.
Import ListNotations.
Require Import Lia.
Open Scope Q_scope.

Lemma nat_list_eqb_eq : forall a b, list_eqb Nat.eqb a b = true -> a = b.
Proof.
  induction a as [|x a IH]; intros [|y b] H; cbn in H; try discriminate; [reflexivity|].
  apply andb_prop in H as [H1 H2]. apply Nat.eqb_eq in H1. f_equal; auto.
Qed.

Lemma key_eqb_eq : forall a b, C08.Model.key_eqb a b = true -> a = b.
Proof.
  intros [[[ca ga] pa] fa] [[[cb gb] pb] fb] H. cbn in H.
  apply andb_prop in H as [H H4]. apply andb_prop in H as [H H3]. apply andb_prop in H as [H1 H2].
  apply nat_list_eqb_eq in H1. apply Nat.eqb_eq in H2, H3, H4. subst. reflexivity.
Qed.

(* every cached instance was built from the key it is filed under *)
Definition coh (c : C08.Model.cache C08.Model.key * nat) : Prop :=
  forall k i a, C08.Model.cache_find (fst c) k = Some (i, a) -> a = k.

Lemma coh_new c k : coh c ->
  coh (snd (C08.Model.cache_new eq_build2 c k)) /\ exists i, fst (C08.Model.cache_new eq_build2 c k) = Ok (i, k).
Proof.
  intros C. unfold C08.Model.cache_new.
  destruct (C08.Model.cache_find (fst c) k) as [[i a]|] eqn:E.
  - cbn [fst snd]. split; [exact C|]. apply C in E. subst. eauto.
  - unfold eq_build2. cbn [fst snd]. split; [|eauto].
    intros k' i' a' H. cbn [C08.Model.cache_find fst] in H.
    destruct (C08.Model.key_eqb k' k) eqn:K.
    + inversion H; subst. symmetry. apply key_eqb_eq. exact K.
    + apply C in H. exact H.
Qed.

(* the invariant of one VLE object of package p *)
Definition vinv (p : pkg) (v : vobj) : Prop :=
  forall nz, vo_nonzero v = Some nz ->
    vo_index v = vle_indices (fst p) nz /\
    ((2 <= length (vo_index v))%nat ->
     exists i j, vo_bp v = Some (i, mkkey p (vo_index v)) /\ vo_dp v = Some (j, mkkey p (vo_index v))).

Lemma vinv0 p : vinv p vobj0.
Proof. intros nz H. discriminate. Qed.

Lemma setup_inv p nz zl zh cs v :
  coh (fst cs) -> coh (snd cs) -> vinv p v ->
  coh (fst (fst (snd (setup p nz zl zh cs v)))) /\ coh (snd (fst (snd (setup p nz zl zh cs v)))) /\
  vinv p (snd (snd (setup p nz zl zh cs v))) /\
  (nz <> [] -> vo_nonzero (snd (snd (setup p nz zl zh cs v))) = Some nz /\
    ((2 <= length (vle_indices (fst p) nz))%nat -> exists n, fst (setup p nz zl zh cs v) = Ok n /\ (2 <= n)%nat)).
Proof.
  intros Cb Cd I. unfold setup.
  destruct nz as [|n0 nz0]; [cbn [fst snd]; split; [exact Cb|]; split; [exact Cd|]; split; [exact I|]; intros HH; contradiction|].
  set (nz := n0 :: nz0) in *.
  destruct (opt_list_eqb (vo_nonzero v) nz) eqn:E; cbn [negb].
  - (* same material as at the previous call: nothing is rebuilt *)
    assert (NZ : vo_nonzero v = Some nz).
    { unfold opt_list_eqb in E. destruct (vo_nonzero v) as [l|]; [|discriminate]. apply nat_list_eqb_eq in E. subst. reflexivity. }
    destruct (I nz NZ) as [IX OB].
    destruct (vo_index v) as [|i0 ix0] eqn:EI; cbn [fst snd].
    + split; [exact Cb|]. split; [exact Cd|]. split; [exact I|]. intros _. split; [exact NZ|].
      intros L. rewrite <- IX in L. cbn in L. lia.
    + split; [exact Cb|]. split; [exact Cd|]. split; [exact I|]. intros _. split; [exact NZ|].
      intros L. eexists. split; [reflexivity|]. rewrite <- IX in L. lia.
  - destruct (vle_indices (fst p) nz) as [|i0 ix0] eqn:EI; cbn [fst snd].
    + split; [exact Cb|]. split; [exact Cd|]. split.
      * intros nz' H. cbn [vo_nonzero] in H. inversion H; subst nz'. cbn [vo_index]. split; [symmetry; exact EI|cbn; lia].
      * intros _. cbn [vo_nonzero]. split; [reflexivity|cbn; lia].
    + destruct (Nat.eqb (length (i0 :: ix0) + b2n zl + b2n zh) 1) eqn:N1; cbn [fst snd].
      * apply Nat.eqb_eq in N1. cbn [length] in N1.
        split; [exact Cb|]. split; [exact Cd|]. split.
        -- intros nz' H. cbn [vo_nonzero] in H. inversion H; subst nz'. cbn [vo_index]. split; [symmetry; exact EI|cbn [length]; lia].
        -- intros _. cbn [vo_nonzero]. split; [reflexivity|cbn [length]; lia].
      * apply Nat.eqb_neq in N1.
        destruct (coh_new (fst cs) (mkkey p (i0 :: ix0)) Cb) as [Cb' [ib Eb]].
        destruct (coh_new (snd cs) (mkkey p (i0 :: ix0)) Cd) as [Cd' [id Ed]].
        rewrite Eb, Ed. cbn [fst snd].
        split; [exact Cb'|]. split; [exact Cd'|]. split.
        -- intros nz' H. cbn [vo_nonzero] in H. inversion H; subst nz'. cbn [vo_index vo_bp vo_dp].
           split; [symmetry; exact EI|]. intros _. eauto.
        -- intros _. cbn [vo_nonzero]. split; [reflexivity|]. intros L. eexists. split; [reflexivity|]. cbn [length] in *. lia.
Qed.

Lemma kbase_of_bp psat pcf p v i ix T P :
  vo_bp v = Some (i, mkkey p ix) -> ~ P == 0 ->
  kbase psat pcf v T P =
  Ok (let cs := map (chem_at (fst p)) ix in let Ps := map (fun c => psat c T) cs in
      map (fun x => x / P) (vmul (pcf (snd (snd p)) T P Ps) Ps)).
Proof.
  intros B NP. unfold kbase. rewrite B. unfold mkkey. destruct p as [c [[g ph] f]]. cbn [fst snd].
  unfold qzerob. destruct (Qeq_bool P 0) eqn:E; [apply Qeq_bool_eq in E; contradiction|]. reflexivity.
Qed.

(* ---------- histories ---------- *)
Definition inv (pkgs : list pkg) (st : pst) : Prop :=
  coh (fst (ps_c st)) /\ coh (snd (ps_c st)) /\ Forall2 vinv pkgs (ps_objs st).

Lemma inv0 pkgs : inv pkgs (pst0 pkgs).
Proof.
  split; [intros k i a H; discriminate|]. split; [intros k i a H; discriminate|].
  unfold pst0; cbn [ps_objs]. induction pkgs as [|p t IH]; cbn [map]; constructor; [apply vinv0|exact IH].
Qed.

Lemma Forall2_nth {A B} (R : A -> B -> Prop) l1 l2 : Forall2 R l1 l2 ->
  forall n a, nth_error l1 n = Some a -> exists b, nth_error l2 n = Some b /\ R a b.
Proof.
  induction 1 as [|x y l1 l2 Rxy F IH]; intros [|n] a H; cbn in H; try discriminate.
  - inversion H; subst. exists y. split; [reflexivity|exact Rxy].
  - apply IH in H. exact H.
Qed.

Lemma Forall2_set_nth {A B} (R : A -> B -> Prop) l1 l2 : Forall2 R l1 l2 ->
  forall n a y, nth_error l1 n = Some a -> R a y -> Forall2 R l1 (set_nth n y l2).
Proof.
  induction 1 as [|x y0 l1 l2 Rxy F IH]; intros [|n] a y H Ra; cbn in H; try discriminate; cbn [set_nth].
  - inversion H; subst. constructor; assumption.
  - constructor; [exact Rxy|]. eapply IH; eassumption.
Qed.

(* what the property needs of one flash: for material with at least two chemicals in equilibrium *)
Definition good (psat : nat -> Q -> Q) (pcf : nat -> Q -> Q -> vec -> vec) (pkgs : list pkg) (o : fop) (ob : option fobs) : Prop :=
  forall p, nth_error pkgs (fo_obj o) = Some p -> fo_nz o <> [] ->
  (2 <= length (vle_indices (fst p) (fo_nz o)))%nat ->
  exists b, ob = Some b /\ ob_index b = vle_indices (fst p) (fo_nz o) /\
    (exists i, ob_bp b = Some (i, mkkey p (vle_indices (fst p) (fo_nz o)))) /\
    (exists j, ob_dp b = Some (j, mkkey p (vle_indices (fst p) (fo_nz o)))) /\
    (exists n, ob_N b = Ok n /\ (2 <= n)%nat) /\ length (ob_kb b) = length (fo_TP o) /\
    forall k T P, nth_error (fo_TP o) k = Some (T, P) -> ~ P == 0 ->
      nth_error (ob_kb b) k = Some (Ok (kbase_spec psat pcf p (fo_nz o) T P)).

Lemma fstep_good psat pcf pkgs st o : inv pkgs st ->
  inv pkgs (snd (fstep psat pcf pkgs st o)) /\ good psat pcf pkgs o (fst (fstep psat pcf pkgs st o)).
Proof.
  intros [Cb [Cd F]]. unfold fstep.
  destruct (nth_error pkgs (fo_obj o)) as [p|] eqn:EP.
  2:{ cbn [fst snd]. split; [split; [|split]; assumption|]. intros p H; congruence. }
  destruct (Forall2_nth _ _ _ F _ _ EP) as [v [EV IV]]. rewrite EV.
  pose proof (setup_inv p (fo_nz o) (fo_zl o) (fo_zh o) (ps_c st) v Cb Cd IV) as [Cb' [Cd' [IV' POST]]].
  cbn [fst snd ps_c ps_objs]. split.
  - split; [exact Cb'|]. split; [exact Cd'|]. eapply Forall2_set_nth; eassumption.
  - intros p' HP NZ L. assert (EPP : p' = p) by congruence. subst p'. destruct (POST NZ) as [ENZ OK]. destruct (OK L) as [n [EN LN]].
    destruct (IV' _ ENZ) as [IX OB]. rewrite <- IX in L. destruct (OB L) as [i [j [EB ED]]].
    eexists. split; [reflexivity|]. cbn [ob_index ob_bp ob_dp ob_N ob_kb]. rewrite <- IX.
    split; [reflexivity|]. split; [eauto|]. split; [eauto|]. split; [eauto|]. split; [apply map_length|].
    intros k T P HK NP. erewrite map_nth_error; [|exact HK]. cbn [fst snd].
    erewrite kbase_of_bp; [|exact EB|exact NP]. unfold kbase_spec. rewrite <- IX. reflexivity.
Qed.

Lemma frun_good psat pcf pkgs ops : forall st, inv pkgs st ->
  Forall2 (good psat pcf pkgs) ops (fst (frun psat pcf pkgs st ops)) /\ inv pkgs (snd (frun psat pcf pkgs st ops)).
Proof.
  induction ops as [|o t IH]; intros st I; cbn [frun fst snd]; [split; [constructor|exact I]|].
  destruct (fstep_good psat pcf pkgs st o I) as [I' G].
  destruct (IH _ I') as [F I'']. split; [constructor; assumption|exact I''].
Qed.

Lemma history_good psat pcf pkgs ops :
  Forall2 (good psat pcf pkgs) ops (fst (frun psat pcf pkgs (pst0 pkgs) ops)).
Proof. apply frun_good. apply inv0. Qed.

Lemma nth_error_ext' {A} (l1 l2 : list A) : (forall n, nth_error l1 n = nth_error l2 n) -> l1 = l2.
Proof.
  revert l2; induction l1 as [|x l1 IH]; intros [|y l2] H;
    [reflexivity|specialize (H O); discriminate|specialize (H O); discriminate|].
  pose proof (H O) as H0; cbn in H0; inversion H0; subst. f_equal. apply IH. intros n. exact (H (S n)).
Qed.

(* the same call as the only call of a fresh process gives the same K bases: nothing of the history is used *)
Lemma kbase_fresh_agrees psat pcf pkgs h o p ob1 ob2 :
  nth_error pkgs (fo_obj o) = Some p -> fo_nz o <> [] -> (2 <= length (vle_indices (fst p) (fo_nz o)))%nat ->
  (forall T P, In (T, P) (fo_TP o) -> ~ P == 0) ->
  last (fst (frun psat pcf pkgs (pst0 pkgs) (h ++ [o]))) None = Some ob1 ->
  fst (frun psat pcf pkgs (pst0 pkgs) [o]) = [Some ob2] ->
  ob_kb ob1 = ob_kb ob2 /\ ob_index ob1 = ob_index ob2 /\
  (exists i i', ob_bp ob1 = Some (i, mkkey p (ob_index ob1)) /\ ob_bp ob2 = Some (i', mkkey p (ob_index ob1))) /\
  (exists j j', ob_dp ob1 = Some (j, mkkey p (ob_index ob1)) /\ ob_dp ob2 = Some (j', mkkey p (ob_index ob1))).
Proof.
  intros HP NZ L NP H1 H2.
  pose proof (history_good psat pcf pkgs (h ++ [o])) as G1.
  pose proof (history_good psat pcf pkgs [o]) as G2. rewrite H2 in G2.
  inversion G2 as [|? ? ? ? g2 _]; subst. destruct (g2 p HP NZ L) as [b2 [E2 [IX2 [[i2 B2] [[j2 D2] [_ [L2 K2]]]]]]].
  inversion E2; subst b2.
  apply Forall2_app_inv_l in G1 as [l1 [l2 [_ [G1 EQ]]]]. rewrite EQ in H1.
  inversion G1 as [|? ? ? ? g1 G1']; subst. inversion G1'; subst. rewrite last_last in H1. subst.
  destruct (g1 p HP NZ L) as [b1 [E1 [IX1 [[i1 B1] [[j1 D1] [_ [L1 K1]]]]]]]. inversion E1; subst b1.
  split; [|split; [congruence|split]].
  - apply nth_error_ext'. intros k.
    destruct (nth_error (fo_TP o) k) as [[T P]|] eqn:EK.
    + rewrite (K1 _ _ _ EK (NP _ _ (nth_error_In _ _ EK))), (K2 _ _ _ EK (NP _ _ (nth_error_In _ _ EK))). reflexivity.
    + apply nth_error_None in EK.
      rewrite (proj2 (nth_error_None _ _)), (proj2 (nth_error_None _ _)); [reflexivity|lia|lia].
  - exists i1, i2. rewrite IX1. split; [exact B1|exact B2].
  - exists j1, j2. rewrite IX1. split; [exact D1|exact D2].
Qed.
