(* C04 — vocabulary of the kernel models (used by the generated file Gen_kernels.v and by Model.v).
   Definitions only. *)
From V Require Export Common.Num.
Open Scope Q_scope.

(* a[a < c] = v *)
Definition mask_lt (c v : Q) (a : vec) : vec := map (fun x => if qltb x c then v else x) a.
(* a division raises FloatingPointError / ZeroDivisionError (np.seterr(divide='raise', invalid='raise')) when a
   denominator is zero: the guard in front of the statement that divides *)
Definition guard_s {A} (d : Q) (k : res A) : res A := if qzerob d then Err EZeroDiv else k.
Definition guard_v {A} (d : vec) (k : res A) : res A := if existsb qzerob d then Err EZeroDiv else k.
(* a, b = v  (ValueError unless v has exactly two entries) *)
Definition unpack2 {A} (v : vec) (k : Q -> Q -> res A) : res A :=
  match v with [a; b] => k a b | _ => Err EValue end.
(* the iterate xVlogK of the fixed-point solver: xVlogK[:n], xVlogK[n], xVlogK[n+1:] *)
Record wn := mkwn { nx : vec; nV : Q; nl : vec }.
