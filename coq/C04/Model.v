(* C04 — a vapour-liquid flash honours its specifications and the equilibrium conditions.
   The wrapper model is the one of C03 (coq/C03/Model.v: VLE.__call__ and every set_* branch around
   solver oracles).  This file adds the numeric kernels of
   thermosteam/equilibrium/binary_phase_fraction.py (compute_phase_fraction_2N, the Rachford-Rice
   objective) and of vle.py (xy, xVlogK_iter_2n) with exp / log as parameters, so that the same
   Gallina term is run against the code (with rational stand-ins substituted for np.exp / np.log in
   the module namespace) and is what the theorems are about.  No proofs in this file. *)
From V Require Export Common.Num C03.Model C04.KBase.
From V Require C08.Model.
Open Scope Q_scope.

(* which members of the pair a specification fixes *)
Definition spec_T (sp : spec) : option Q :=
  match sp with
  | SpTP T _ | SpTV T _ | SpTH T _ | SpTS T _ | SpTx T _ | SpTy T _ => Some T
  | _ => None
  end.
Definition spec_P (sp : spec) : option Q :=
  match sp with
  | SpTP _ P | SpPV P _ | SpPH P _ | SpPS P _ | SpPx P _ | SpPy P _ => Some P
  | _ => None
  end.

(* compute_phase_fraction_2N(zs, Ks), operation for operation *)
Definition rr2_num (z1 z2 K1 K2 : Q) : Q :=
  let K1z1 := K1 * z1 in let K2z2 := K2 * z2 in
  let z1_z2 := z1 + z2 in
  let K1z1_K2z2 := K1z1 + K2z2 in
  - K1z1_K2z2 + z1_z2.
Definition rr2_den (z1 z2 K1 K2 : Q) : Q :=
  let K1z1 := K1 * z1 in let K1z2 := K1 * z2 in let K2z1 := K2 * z1 in let K2z2 := K2 * z2 in
  let K1K2 := K1 * K2 in
  let K1K2z1 := K1K2 * z1 in let K1K2z2 := K1K2 * z2 in
  let z1_z2 := z1 + z2 in
  let K1z1_K2z2 := K1z1 + K2z2 in
  K1K2z1 + K1K2z2 - K1z2 - K1z1_K2z2 - K2z1 + z1_z2.
Definition rr2 (z1 z2 K1 K2 : Q) : res Q :=
  if qzerob (rr2_den z1 z2 K1 K2) then Err EZeroDiv
  else Ok (rr2_num z1 z2 K1 K2 / rr2_den z1 z2 K1 K2).

(* the Rachford-Rice function  sum_i z_i (K_i - 1) / (1 + V (K_i - 1)) *)
Definition rr_term (V z K : Q) : Q := z * (K - 1) / (1 + V * (K - 1)).
Definition rr (zs Ks : vec) (V : Q) : Q := qsum (map2 (rr_term V) zs Ks).

(* phase_fraction_objective_function(phi, -zs*(Ks-1), Ks-1, za, zb) *)
Definition pf_objective (phi : Q) (zs Ks : vec) (za zb : Q) : Q :=
  let a := if qltb 0 za then za / phi else 0 in
  let b := if qltb 0 zb then zb / (1 - phi) else 0 in
  qsum (map2 (fun z K => - z * (K - 1) / (1 + phi * (K - 1))) zs Ks) - a + b.

(* compute_phase_fraction_2N on the arrays it receives: z1, z2 = zs; K1, K2 = Ks *)
Definition rr2v (zs Ks : vec) : res Q :=
  unpack2 zs (fun z1 z2 => unpack2 Ks (fun K1 K2 => rr2 z1 z2 K1 K2)).

(* vle.xy: x[x < 0] = 1e-16; x /= x.sum(); y = x * Ks; y /= y.sum() *)
Definition c_1e16 : Q := 2028240960365167 # 20282409603651670423947251286016.
Definition xyn (x Ks : vec) : res (vec * vec) :=
  let x1 := mask_lt 0 c_1e16 x in
  guard_s (qsum x1) (
  let x2 := vdivs x1 (qsum x1) in
  let y := vmul x2 Ks in
  guard_s (qsum y) (
  let y1 := vdivs y (qsum y) in
  Ok (x2, y1))).

Definition clipK (k : Q) : Q := if qltb k c_1e16 then c_1e16 else k.
(* 1. + V * (Ks - 1.) *)
Definition rr_den (V : Q) (Ks : vec) : vec := map (fun a => 1 + a) (map (fun a => V * a) (map (fun a => a - 1) Ks)).
(* Ks[:] = pcf_Psat_over_P * f_gamma(x, T, *gamma_args) / f_phi(y, T, P);  Ks[Ks < 1e-16] = 1e-16 *)
Definition new_Ks (f_gamma : vec -> Q -> vec) (f_phi : vec -> Q -> Q -> vec) (pcf x y : vec) (T P : Q) : vec :=
  mask_lt c_1e16 c_1e16 (map2 Qdiv (vmul pcf (f_gamma x T)) (f_phi y T P)).

(* xVlogK_iter_2n, non-reactive; [E], [L] stand for np.exp, np.log; f_gamma, f_phi are the activity / fugacity
   coefficient functions the solver passes *)
Definition iter2n (E L : Q -> Q) (f_gamma : vec -> Q -> vec) (f_phi : vec -> Q -> Q -> vec)
           (w : wn) (pcf : vec) (T P : Q) (z : vec) : res wn :=
  let x := nx w in
  let Ks := map E (nl w) in
  bind (xyn x Ks) (fun xy_ =>
  let x1 := fst xy_ in
  let y := snd xy_ in
  guard_v (f_phi y T P) (
  let Ks2 := new_Ks f_gamma f_phi pcf x1 y T P in
  bind (rr2v z Ks2) (fun V =>
  guard_v (rr_den V Ks2) (
  Ok (mkwn (map2 Qdiv z (rr_den V Ks2)) V (map L Ks2)))))).

(* xVlogK_iter, non-reactive; [rrsolve z Ks V z_light z_heavy] stands for
   binary.solve_phase_fraction_Rashford_Rice (a bracketing solver: oracle) *)
Definition clamp01 (V : Q) : Q := if qltb V 0 then 0 else if qltb 1 V then 1 else V.
Definition itern (E L : Q -> Q) (f_gamma : vec -> Q -> vec) (f_phi : vec -> Q -> Q -> vec)
           (rrsolve : vec -> vec -> Q -> Q -> Q -> Q) (w : wn) (pcf : vec) (T P : Q) (z : vec) (z_light z_heavy : Q) : res wn :=
  let x := nx w in
  let Ks := map E (nl w) in
  bind (xyn x Ks) (fun xy_ =>
  let x1 := fst xy_ in
  let y := snd xy_ in
  guard_v (f_phi y T P) (
  let Ks2 := new_Ks f_gamma f_phi pcf x1 y T P in
  let V2 := rrsolve z Ks2 (clamp01 (nV w)) z_light z_heavy in
  guard_v (rr_den V2 Ks2) (
  Ok (mkwn (map2 Qdiv z (rr_den V2 Ks2)) V2 (map L Ks2))))).

(* ---------- the equilibrium objects VLE._setup consults ----------
   _setup calls BubblePoint(eq_chems, thermo) and DewPoint(eq_chems, thermo); both constructors are memoised per process
   (BubblePoint.__new__ / DewPoint.__new__, key = (chemical objects, thermo.Gamma, thermo.Phi, thermo.PCF)) and the flash
   takes gamma, phi and pcf from the BubblePoint instance.  The cache is the one modelled in coq/C08/Model.v
   (cache_new / cache_run); an instance is represented by the class ids it was built with. *)
Definition eqobj := (nat * nat * nat)%type.          (* activity-, fugacity-coefficient and Poynting class ids *)
Definition eq_build (k : C08.Model.key) : res eqobj :=
  match k with (_, g, p, f) => Ok (g, p, f) end.
(* the (object identity, instance) pairs handed out along a history of constructor calls *)
Definition setup_objects (ks : list C08.Model.key) : list (res (nat * eqobj)) :=
  fst (C08.Model.cache_run eq_build ([], 0%nat) ks).
Definition eqobj_eqb (a b : res (nat * eqobj)) : bool :=
  match a, b with
  | Ok (i, (g, p, f)), Ok (i', (g', p', f')) => Nat.eqb i i' && Nat.eqb g g' && Nat.eqb p p' && Nat.eqb f f'
  | _, _ => false
  end.
Definition setup_objects_check (ks : list C08.Model.key) (expect : list (res (nat * eqobj))) : bool :=
  list_eqb eqobj_eqb (setup_objects ks) expect.

(* ---------- equilibrium/domain.py: vle_domain(chemicals), and the clamp of BubblePoint.solve_Py ----------
   Psats = [i.Psat for i in chemicals];  Tmax = min(max(Psat.Tmax), Tmax_limit) - 1e-2;  Tmin = max(min(Psat.Tmin), Tmin_limit) + 1e-2
   (BubblePoint / DewPoint store them; solve_Py: if T > self.Tmax: T = self.Tmax elif T < self.Tmin: T = self.Tmin) *)
Fixpoint lmaxq (l : list Q) : Q := match l with [] => 0 | [x] => x | x :: t => Qmax x (lmaxq t) end.
Fixpoint lminq (l : list Q) : Q := match l with [] => 0 | [x] => x | x :: t => Qmin x (lminq t) end.
Definition Tmin_limit : Q := 50.
Definition Tmax_limit : Q := 1000.
Definition vle_domain (tmins tmaxs : list Q) : Q * Q :=
  (Qmax (lminq tmins) Tmin_limit + (1#100), Qmin (lmaxq tmaxs) Tmax_limit - (1#100)).
Definition clampT (lo hi T : Q) : Q := if qltb hi T then hi else if qltb T lo then lo else T.
Definition dom_check (tmins tmaxs : list Q) (lo hi : Q) : bool :=
  qapproxb (fst (vle_domain tmins tmaxs)) lo && qapproxb (snd (vle_domain tmins tmaxs)) hi.

(* ---------- comparison helpers ---------- *)
Definition rr2_check (z1 z2 K1 K2 : Q) (expect : option Q) : bool :=
  match rr2 z1 z2 K1 K2, expect with
  | Ok v, Some e => qapproxb v e
  | Err _, None => true
  | _, _ => false
  end.
Definition wn_eqb (a b : wn) : bool := vapproxb (nx a) (nx b) && qapproxb (nV a) (nV b) && vapproxb (nl a) (nl b).
Definition itern_check (r : res wn) (expect : option wn) : bool :=
  match r, expect with
  | Ok a, Some b => wn_eqb a b
  | Err _, None => true
  | _, _ => false
  end.
(* an exact rational tie (a denominator that is exactly 0 in Q) where the float run kept a rounding residue and returned a value that
   is stable under a 2^-30 perturbation of the input (probed by the harness): rounding is not modelled, such a case is not compared *)
Definition res_zdiv {A} (r : res A) : bool := match r with Err EZeroDiv => true | _ => false end.
(* rational stand-ins for exp / log and for the activity / fugacity-coefficient models *)
Definition std_E (a b : Q) (l : Q) : Q := (a + l) / b.
Definition std_L (c d : Q) (k : Q) : Q := (k - c) / d.
Definition std_gamma (g0 g1 : Q) (x : vec) (_ : Q) : vec := map (fun xi => g0 + g1 * xi) x.
Definition std_phi (p0 p1 : Q) (y : vec) (_ _ : Q) : vec := map (fun yi => p0 + p1 * yi) y.
