(* C04 — a vapour-liquid flash honours its specifications and the equilibrium conditions.
   The wrapper model is the one of C03 (coq/C03/Model.v: VLE.__call__ and every set_* branch around
   solver oracles).  This file adds the numeric kernels of
   thermosteam/equilibrium/binary_phase_fraction.py (compute_phase_fraction_2N, the Rachford-Rice
   objective) and of vle.py (xy, xVlogK_iter_2n) with exp / log as parameters, so that the same
   Gallina term is run against the code (with rational stand-ins substituted for np.exp / np.log in
   the module namespace) and is what the theorems are about.  No proofs in this file. *)
From V Require Export Common.Num C03.Model.
From V Require C08.Model.
Open Scope Q_scope.

(* which members of the pair a specification fixes *)
Definition spec_T (sp : spec) : option Q :=
  match sp with
  | SpTP T _ | SpTV T _ | SpTH T _ | SpTS T _ | SpTx T _ | SpTy T _ => Some T
  | _ => None
  end.
Definition spec_P (sp : spec) : option Q :=
  match sp with
  | SpTP _ P | SpPV P _ | SpPH P _ | SpPS P _ | SpPx P _ | SpPy P _ => Some P
  | _ => None
  end.

(* compute_phase_fraction_2N(zs, Ks), operation for operation *)
Definition rr2_num (z1 z2 K1 K2 : Q) : Q :=
  let K1z1 := K1 * z1 in let K2z2 := K2 * z2 in
  let z1_z2 := z1 + z2 in
  let K1z1_K2z2 := K1z1 + K2z2 in
  - K1z1_K2z2 + z1_z2.
Definition rr2_den (z1 z2 K1 K2 : Q) : Q :=
  let K1z1 := K1 * z1 in let K1z2 := K1 * z2 in let K2z1 := K2 * z1 in let K2z2 := K2 * z2 in
  let K1K2 := K1 * K2 in
  let K1K2z1 := K1K2 * z1 in let K1K2z2 := K1K2 * z2 in
  let z1_z2 := z1 + z2 in
  let K1z1_K2z2 := K1z1 + K2z2 in
  K1K2z1 + K1K2z2 - K1z2 - K1z1_K2z2 - K2z1 + z1_z2.
Definition rr2 (z1 z2 K1 K2 : Q) : res Q :=
  if qzerob (rr2_den z1 z2 K1 K2) then Err EZeroDiv
  else Ok (rr2_num z1 z2 K1 K2 / rr2_den z1 z2 K1 K2).

(* the Rachford-Rice function  sum_i z_i (K_i - 1) / (1 + V (K_i - 1)) *)
Definition rr_term (V z K : Q) : Q := z * (K - 1) / (1 + V * (K - 1)).
Definition rr (zs Ks : vec) (V : Q) : Q := qsum (map2 (rr_term V) zs Ks).

(* phase_fraction_objective_function(phi, -zs*(Ks-1), Ks-1, za, zb) *)
Definition pf_objective (phi : Q) (zs Ks : vec) (za zb : Q) : Q :=
  let a := if qltb 0 za then za / phi else 0 in
  let b := if qltb 0 zb then zb / (1 - phi) else 0 in
  qsum (map2 (fun z K => - z * (K - 1) / (1 + phi * (K - 1))) zs Ks) - a + b.

(* vle.xy for two components: x[x < 0] = 1e-16; x /= x.sum(); y = x * Ks; y /= y.sum()
   (np.seterr(divide='raise', invalid='raise'): a zero sum raises FloatingPointError) *)
Definition c_1e16 : Q := 2028240960365167 # 20282409603651670423947251286016.
Definition xy2 (x1 x2 K1 K2 : Q) : res ((Q * Q) * (Q * Q)) :=
  let x1 := if qltb x1 0 then c_1e16 else x1 in
  let x2 := if qltb x2 0 then c_1e16 else x2 in
  let sx := x1 + x2 in
  if qzerob sx then Err EZeroDiv else
  let x1 := x1 / sx in let x2 := x2 / sx in
  let y1 := x1 * K1 in let y2 := x2 * K2 in
  let sy := y1 + y2 in
  if qzerob sy then Err EZeroDiv else
  Ok ((x1, x2), (y1 / sy, y2 / sy)).

Definition clipK (k : Q) : Q := if qltb k c_1e16 then c_1e16 else k.

(* xVlogK_iter_2n without reactions; [E], [L] stand for np.exp, np.log; [G x1 x2] is
   pcf_Psat_over_P * f_gamma(x, T) and [Ph y1 y2] is f_phi(y, T, P), both componentwise pairs *)
Record w2 := mkw2 { wx1 : Q; wx2 : Q; wV : Q; wl1 : Q; wl2 : Q }.
Definition iter2n (E L : Q -> Q) (G Ph : Q -> Q -> Q * Q) (z1 z2 : Q) (w : w2) : res w2 :=
  let K1 := E (wl1 w) in let K2 := E (wl2 w) in
  do xy <- xy2 (wx1 w) (wx2 w) K1 K2;
  let '((x1, x2), (y1, y2)) := xy in
  let (g1, g2) := G x1 x2 in
  let (p1, p2) := Ph y1 y2 in
  if qzerob p1 || qzerob p2 then Err EZeroDiv else
  let K1 := clipK (g1 / p1) in let K2 := clipK (g2 / p2) in
  do V <- rr2 z1 z2 K1 K2;
  if qzerob (1 + V * (K1 - 1)) || qzerob (1 + V * (K2 - 1)) then Err EZeroDiv else
  Ok (mkw2 (z1 / (1 + V * (K1 - 1))) (z2 / (1 + V * (K2 - 1))) V (L K1) (L K2)).

(* ---------- n components: vle.xy and xVlogK_iter (no reactions) ---------- *)
Definition xyn (x Ks : vec) : res (vec * vec) :=
  let x := map (fun a => if qltb a 0 then c_1e16 else a) x in
  let sx := qsum x in
  if qzerob sx then Err EZeroDiv else
  let x := vdivs x sx in
  let y := vmul x Ks in
  let sy := qsum y in
  if qzerob sy then Err EZeroDiv else Ok (x, vdivs y sy).

Record wn := mkwn { nx : vec; nV : Q; nl : vec }.
(* [rrsolve z Ks V] stands for binary.solve_phase_fraction_Rashford_Rice(z, Ks, V, z_light, z_heavy)
   (a bracketing solver: oracle) *)
Definition itern (E L : Q -> Q) (G Ph : vec -> vec) (rrsolve : vec -> vec -> Q -> Q) (z : vec) (w : wn) : res wn :=
  let Ks := map E (nl w) in
  do xy <- xyn (nx w) Ks;
  let (x, y) := xy : vec * vec in
  let g := G x in let p := Ph y in
  if existsb qzerob p then Err EZeroDiv else
  let Ks := map clipK (map2 Qdiv g p) in
  let V0 := if qltb (nV w) 0 then 0 else if qltb 1 (nV w) then 1 else nV w in
  let V := rrsolve z Ks V0 in
  if existsb (fun k => qzerob (1 + V * (k - 1))) Ks then Err EZeroDiv else
  Ok (mkwn (map2 (fun zi k => zi / (1 + V * (k - 1))) z Ks) V (map L Ks)).

(* ---------- the equilibrium objects VLE._setup consults ----------
   _setup calls BubblePoint(eq_chems, thermo) and DewPoint(eq_chems, thermo); both constructors are memoised per process
   (BubblePoint.__new__ / DewPoint.__new__, key = (chemical objects, thermo.Gamma, thermo.Phi, thermo.PCF)) and the flash
   takes gamma, phi and pcf from the BubblePoint instance.  The cache is the one modelled in coq/C08/Model.v
   (cache_new / cache_run); an instance is represented by the class ids it was built with. *)
Definition eqobj := (nat * nat * nat)%type.          (* activity-, fugacity-coefficient and Poynting class ids *)
Definition eq_build (k : C08.Model.key) : res eqobj :=
  match k with (_, g, p, f) => Ok (g, p, f) end.
(* the (object identity, instance) pairs handed out along a history of constructor calls *)
Definition setup_objects (ks : list C08.Model.key) : list (res (nat * eqobj)) :=
  fst (C08.Model.cache_run eq_build ([], 0%nat) ks).
Definition eqobj_eqb (a b : res (nat * eqobj)) : bool :=
  match a, b with
  | Ok (i, (g, p, f)), Ok (i', (g', p', f')) => Nat.eqb i i' && Nat.eqb g g' && Nat.eqb p p' && Nat.eqb f f'
  | _, _ => false
  end.
Definition setup_objects_check (ks : list C08.Model.key) (expect : list (res (nat * eqobj))) : bool :=
  list_eqb eqobj_eqb (setup_objects ks) expect.

(* ---------- comparison helpers ---------- *)
Definition rr2_check (z1 z2 K1 K2 : Q) (expect : option Q) : bool :=
  match rr2 z1 z2 K1 K2, expect with
  | Ok v, Some e => qapproxb v e
  | Err _, None => true
  | _, _ => false
  end.
Definition w2_eqb (a b : w2) : bool :=
  qapproxb (wx1 a) (wx1 b) && qapproxb (wx2 a) (wx2 b) && qapproxb (wV a) (wV b)
  && qapproxb (wl1 a) (wl1 b) && qapproxb (wl2 a) (wl2 b).
Definition iter2n_check (r : res w2) (expect : option w2) : bool :=
  match r, expect with
  | Ok a, Some b => w2_eqb a b
  | Err _, None => true
  | _, _ => false
  end.
Definition wn_eqb (a b : wn) : bool := vapproxb (nx a) (nx b) && qapproxb (nV a) (nV b) && vapproxb (nl a) (nl b).
Definition itern_check (r : res wn) (expect : option wn) : bool :=
  match r, expect with
  | Ok a, Some b => wn_eqb a b
  | Err _, None => true
  | _, _ => false
  end.
(* rational stand-ins for exp / log and for the activity / fugacity-coefficient models *)
Definition std_E (a b : Q) (l : Q) : Q := (a + l) / b.
Definition std_L (c d : Q) (k : Q) : Q := (k - c) / d.
Definition std_G2 (pc1 pc2 g0 g1 : Q) (x1 x2 : Q) : Q * Q := (pc1 * (g0 + g1 * x1), pc2 * (g0 + g1 * x2)).
Definition std_P2 (p0 p1 : Q) (y1 y2 : Q) : Q * Q := (p0 + p1 * y1, p0 + p1 * y2).
Definition std_Gn (pc : vec) (g0 g1 : Q) (x : vec) : vec := map2 (fun p xi => p * (g0 + g1 * xi)) pc x.
Definition std_Pn (p0 p1 : Q) (y : vec) : vec := map (fun yi => p0 + p1 * yi) y.
