(* C04 — a vapour-liquid flash honours its specifications and the equilibrium conditions.
   The wrapper model is the one of C03 (coq/C03/Model.v: VLE.__call__ and every set_* branch around
   solver oracles).  This file adds the numeric kernels of
   thermosteam/equilibrium/binary_phase_fraction.py (compute_phase_fraction_2N, the Rachford-Rice
   objective) and of vle.py (xy, xVlogK_iter_2n) with exp / log as parameters, so that the same
   Gallina term is run against the code (with rational stand-ins substituted for np.exp / np.log in
   the module namespace) and is what the theorems are about.  No proofs in this file. *)
From V Require Export Common.Num C03.Model.
Open Scope Q_scope.

(* which members of the pair a specification fixes *)
Definition spec_T (sp : spec) : option Q :=
  match sp with
  | SpTP T _ | SpTV T _ | SpTH T _ | SpTS T _ | SpTx T _ | SpTy T _ => Some T
  | _ => None
  end.
Definition spec_P (sp : spec) : option Q :=
  match sp with
  | SpTP _ P | SpPV P _ | SpPH P _ | SpPS P _ | SpPx P _ | SpPy P _ => Some P
  | _ => None
  end.

(* compute_phase_fraction_2N(zs, Ks), operation for operation *)
Definition rr2_num (z1 z2 K1 K2 : Q) : Q :=
  let K1z1 := K1 * z1 in let K2z2 := K2 * z2 in
  let z1_z2 := z1 + z2 in
  let K1z1_K2z2 := K1z1 + K2z2 in
  - K1z1_K2z2 + z1_z2.
Definition rr2_den (z1 z2 K1 K2 : Q) : Q :=
  let K1z1 := K1 * z1 in let K1z2 := K1 * z2 in let K2z1 := K2 * z1 in let K2z2 := K2 * z2 in
  let K1K2 := K1 * K2 in
  let K1K2z1 := K1K2 * z1 in let K1K2z2 := K1K2 * z2 in
  let z1_z2 := z1 + z2 in
  let K1z1_K2z2 := K1z1 + K2z2 in
  K1K2z1 + K1K2z2 - K1z2 - K1z1_K2z2 - K2z1 + z1_z2.
Definition rr2 (z1 z2 K1 K2 : Q) : res Q :=
  if qzerob (rr2_den z1 z2 K1 K2) then Err EZeroDiv
  else Ok (rr2_num z1 z2 K1 K2 / rr2_den z1 z2 K1 K2).

(* the Rachford-Rice function  sum_i z_i (K_i - 1) / (1 + V (K_i - 1)) *)
Definition rr_term (V z K : Q) : Q := z * (K - 1) / (1 + V * (K - 1)).
Definition rr (zs Ks : vec) (V : Q) : Q := qsum (map2 (rr_term V) zs Ks).

(* phase_fraction_objective_function(phi, -zs*(Ks-1), Ks-1, za, zb) *)
Definition pf_objective (phi : Q) (zs Ks : vec) (za zb : Q) : Q :=
  let a := if qltb 0 za then za / phi else 0 in
  let b := if qltb 0 zb then zb / (1 - phi) else 0 in
  qsum (map2 (fun z K => - z * (K - 1) / (1 + phi * (K - 1))) zs Ks) - a + b.

(* vle.xy for two components: x[x < 0] = 1e-16; x /= x.sum(); y = x * Ks; y /= y.sum() *)
Definition c_1e16 : Q := 2028240960365167 # 20282409603651670423947251286016.
Definition xy2 (x1 x2 K1 K2 : Q) : (Q * Q) * (Q * Q) :=
  let x1 := if qltb x1 0 then c_1e16 else x1 in
  let x2 := if qltb x2 0 then c_1e16 else x2 in
  let sx := x1 + x2 in
  let x1 := x1 / sx in let x2 := x2 / sx in
  let y1 := x1 * K1 in let y2 := x2 * K2 in
  let sy := y1 + y2 in
  ((x1, x2), (y1 / sy, y2 / sy)).

(* xVlogK_iter_2n without reactions; [E], [L] stand for np.exp, np.log; [G x1 x2] is
   pcf_Psat_over_P * f_gamma(x, T) and [Ph y1 y2] is f_phi(y, T, P), both componentwise pairs *)
Record w2 := mkw2 { wx1 : Q; wx2 : Q; wV : Q; wl1 : Q; wl2 : Q }.
Definition iter2n (E L : Q -> Q) (G Ph : Q -> Q -> Q * Q) (z1 z2 : Q) (w : w2) : res w2 :=
  let K1 := E (wl1 w) in let K2 := E (wl2 w) in
  let '((x1, x2), (y1, y2)) := xy2 (wx1 w) (wx2 w) K1 K2 in
  let (g1, g2) := G x1 x2 in
  let (p1, p2) := Ph y1 y2 in
  let K1 := g1 / p1 in let K2 := g2 / p2 in
  let K1 := if qltb K1 c_1e16 then c_1e16 else K1 in
  let K2 := if qltb K2 c_1e16 then c_1e16 else K2 in
  do V <- rr2 z1 z2 K1 K2;
  Ok (mkw2 (z1 / (1 + V * (K1 - 1))) (z2 / (1 + V * (K2 - 1))) V (L K1) (L K2)).

(* ---------- comparison helpers ---------- *)
Definition rr2_check (z1 z2 K1 K2 : Q) (expect : option Q) : bool :=
  match rr2 z1 z2 K1 K2, expect with
  | Ok v, Some e => qapproxb v e
  | Err _, None => true
  | _, _ => false
  end.
Definition w2_eqb (a b : w2) : bool :=
  qapproxb (wx1 a) (wx1 b) && qapproxb (wx2 a) (wx2 b) && qapproxb (wV a) (wV b)
  && qapproxb (wl1 a) (wl1 b) && qapproxb (wl2 a) (wl2 b).
Definition iter2n_check (r : res w2) (expect : option w2) : bool :=
  match r, expect with
  | Ok a, Some b => w2_eqb a b
  | Err _, None => true
  | _, _ => false
  end.
