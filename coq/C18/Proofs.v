(* C18 — proofs: the connection invariant is preserved by every modelled operation used within
   the property's preconditions, hence by every history. *)
From Coq Require Import ZArith Lia.
From V Require Import C18.Model.
Close Scope Q_scope.
Open Scope nat_scope.

(* ================================================================ basic facts *)
Lemma obj_eqb_eq a b : obj_eqb a b = true <-> a = b.
Proof.
  destruct a as [x|x], b as [y|y]; simpl; split; intro H; try discriminate;
    try (apply Nat.eqb_eq in H; now subst); inversion H; apply Nat.eqb_refl.
Qed.
Lemma obj_eqb_refl a : obj_eqb a a = true.
Proof. now apply obj_eqb_eq. Qed.
Lemma obj_eqb_neq a b : obj_eqb a b = false <-> a <> b.
Proof.
  split; intro H.
  - intro E. apply obj_eqb_eq in E. congruence.
  - destruct (obj_eqb a b) eqn:E; [apply obj_eqb_eq in E; contradiction | reflexivity].
Qed.
Lemma obj_dec (a b : obj) : a = b \/ a <> b.
Proof. destruct (obj_eqb a b) eqn:E; [left; now apply obj_eqb_eq | right; now apply obj_eqb_neq]. Qed.
Lemma side_eqb_refl sd : side_eqb sd sd = true.
Proof. now destruct sd. Qed.
Lemma side_eqb_other sd : side_eqb (other sd) sd = false.
Proof. now destruct sd. Qed.
Lemma side_eqb_other' sd : side_eqb sd (other sd) = false.
Proof. now destruct sd. Qed.
Lemma side_eqb_eq a b : side_eqb a b = true <-> a = b.
Proof. destruct a, b; simpl; split; congruence. Qed.

Lemma mem_In x l : mem x l = true <-> In x l.
Proof.
  unfold mem. rewrite existsb_exists. split.
  - intros (y & Hy & E). apply obj_eqb_eq in E. now subst.
  - intro H. exists x. split; [assumption | apply obj_eqb_refl].
Qed.
Lemma mem_false x l : mem x l = false <-> ~ In x l.
Proof.
  split; intro H.
  - intro HI. apply mem_In in HI. congruence.
  - destruct (mem x l) eqn:E; [apply mem_In in E; contradiction | reflexivity].
Qed.
Lemma nodupb_NoDup l : nodupb l = true <-> NoDup l.
Proof.
  induction l as [|a l IH]; simpl.
  - split; [constructor | reflexivity].
  - rewrite andb_true_iff, negb_true_iff, mem_false, IH. split.
    + intros [H1 H2]. now constructor.
    + intro H. inversion H; subst. now split.
Qed.

(* index_of finds the first occurrence *)
Lemma index_of_split x l k : index_of x l = Some k ->
  exists l1 l2, l = l1 ++ x :: l2 /\ length l1 = k /\ ~ In x l1.
Proof.
  revert k. induction l as [|y l IH]; simpl; intros k H; [discriminate|].
  destruct (obj_eqb y x) eqn:E.
  - apply obj_eqb_eq in E. subst y. inversion H; subst. exists [], l. simpl. auto.
  - destruct (index_of x l) as [j|] eqn:Ej; simpl in H; [|discriminate]. inversion H; subst.
    destruct (IH j eq_refl) as (l1 & l2 & -> & L & NI).
    exists (y :: l1), l2. simpl. repeat split; auto.
    intros [F|F]; [subst; rewrite obj_eqb_refl in E; discriminate | contradiction].
Qed.
Lemma index_of_None x l : index_of x l = None <-> ~ In x l.
Proof.
  induction l as [|y l IH]; simpl.
  - split; auto.
  - destruct (obj_eqb y x) eqn:E.
    + apply obj_eqb_eq in E. subst. split; [discriminate | intro H; exfalso; apply H; now left].
    + apply obj_eqb_neq in E. destruct (index_of x l); simpl.
      * split; [discriminate|]. intro H. exfalso. apply H. right. destruct IH as [_ IH].
        destruct (in_dec (fun a b => ltac:(destruct (obj_eqb a b) eqn:Q; [left; now apply obj_eqb_eq | right; now apply obj_eqb_neq])) x l) as [I|NI]; [assumption|].
        specialize (IH NI). discriminate.
      * split; [|reflexivity]. intros _ [F|F]; [contradiction|]. now apply IH.
Qed.
Lemma index_of_In x l : In x l -> exists k, index_of x l = Some k.
Proof.
  intro H. destruct (index_of x l) eqn:E; [eauto|]. apply index_of_None in E. contradiction.
Qed.

Lemma upd_app {A} (l1 l2 : list A) a x : upd (l1 ++ a :: l2) (length l1) x = l1 ++ x :: l2.
Proof. induction l1; simpl; [reflexivity | now rewrite IHl1]. Qed.
Lemma nth_app_mid {A} (l1 l2 : list A) a d : nth (length l1) (l1 ++ a :: l2) d = a.
Proof. induction l1; simpl; auto. Qed.
Lemma nth_split' {A} (l : list A) k d : k < length l ->
  exists l1 l2, l = l1 ++ nth k l d :: l2 /\ length l1 = k.
Proof.
  revert k. induction l as [|a l IH]; simpl; intros k H; [lia|].
  destruct k.
  - exists [], l. auto.
  - destruct (IH k ltac:(lia)) as (l1 & l2 & E & L). exists (a :: l1), l2. simpl. split; [now f_equal | now f_equal].
Qed.
Lemma upd_out {A} (l : list A) k x : length l <= k -> upd l k x = l.
Proof. revert k. induction l; simpl; intros k H; [reflexivity|]. destruct k; [lia|]. f_equal. apply IHl. lia. Qed.

Lemma NoDup_app_iff {A} (l1 l2 : list A) :
  NoDup (l1 ++ l2) <-> NoDup l1 /\ NoDup l2 /\ (forall x, In x l1 -> ~ In x l2).
Proof.
  induction l1 as [|a l1 IH]; simpl.
  - split; [intro H; repeat split; [constructor | assumption | auto] | tauto].
  - split.
    + intro H. inversion H as [|? ? NI ND]; subst. apply IH in ND. destruct ND as (N1 & N2 & D).
      repeat split; [constructor; [intro F; apply NI, in_or_app; now left | assumption] | assumption |].
      intros x [->|Hx]; [intro F; apply NI, in_or_app; now right | now apply D].
    + intros (N1 & N2 & D). inversion N1 as [|? ? NI ND]; subst. constructor.
      * intro F. apply in_app_or in F. destruct F as [F|F]; [contradiction | apply (D a); auto].
      * apply IH. repeat split; auto.
Qed.

(* ================================================================ Python index arithmetic *)
Lemma norm_index_lt i n k : norm_index i n = Some k -> k < n.
Proof.
  unfold norm_index. destruct (i <? 0)%Z eqn:E; intro H;
    match type of H with (if ?c then _ else _) = _ => destruct c eqn:C; [|discriminate] end;
    inversion H; subst; apply andb_true_iff in C; destruct C as [C1 C2];
    apply Z.leb_le in C1; apply Z.ltb_lt in C2; lia.
Qed.
Lemma norm_index_of_nat k n : k < n -> norm_index (Z.of_nat k) n = Some k.
Proof.
  intro H. unfold norm_index.
  destruct (Z.of_nat k <? 0)%Z eqn:E; [apply Z.ltb_lt in E; lia|].
  replace ((0 <=? Z.of_nat k)%Z && (Z.of_nat k <? Z.of_nat n)%Z) with true.
  - now rewrite Nat2Z.id.
  - symmetry. apply andb_true_iff. split; [apply Z.leb_le | apply Z.ltb_lt]; lia.
Qed.
Lemma slice_bounds_ok lo hi n a b : slice_bounds lo hi n = (a, b) -> a <= b /\ a <= n /\ b <= n.
Proof.
  unfold slice_bounds. intro H. inversion H; subst; clear H.
  assert (C : forall i d, d <= n -> clampZ i n d <= n).
  { intros [i|] d Hd; simpl; [|assumption]. destruct (i <? 0)%Z eqn:E; [|lia].
    apply Z.ltb_lt in E. lia. }
  pose proof (C lo 0 ltac:(lia)). pose proof (C hi n ltac:(lia)). lia.
Qed.

(* ================================================================ the invariant *)
Definition obj_okP (w : world) (x : obj) : Prop := match x with S_ n => n < nreal w | M_ n => n < fresh w end.
Lemma obj_ok_P w x : obj_ok w x = true <-> obj_okP w x.
Proof. destruct x; simpl; apply Nat.ltb_lt. Qed.

(* one side of the connection graph (SIn: inlets and sinks; SOut: outlets and sources) *)
Record InvS (sd : side) (w : world) : Prop := mkInvS {
  I_ptr   : forall u x, In x (ports w sd u) -> ptr w sd x = Some u;        (* listed => points back (streams and placeholders) *)
  I_real  : forall u n, ptr w sd (S_ n) = Some u -> In (S_ n) (ports w sd u);   (* a stream that points at u is listed at u *)
  I_nodup : forall u, NoDup (ports w sd u);                                (* no object occupies two ports *)
  I_len   : forall u, pfixed w sd u = true -> length (ports w sd u) = psize w sd u;
  I_ok    : forall u x, In x (ports w sd u) -> obj_okP w x;                 (* only objects that exist are listed *)
  I_new   : forall n, nreal w <= n -> ptr w sd (S_ n) = None;
  I_units : forall u, nunits w <= u -> ports w sd u = [];
  I_uptr  : forall x u, ptr w sd x = Some u -> u < nunits w
}.
Definition Inv (w : world) : Prop := InvS SIn w /\ InvS SOut w.

(* the invariant with unit u's list under repair: the objects in R sit in u's list but have not been
   redocked yet; u's length is not constrained *)
Record J (sd : side) (u : nat) (R : list obj) (w : world) : Prop := mkJ {
  J_ptr   : forall v x, In x (ports w sd v) -> ptr w sd x = Some v \/ (v = u /\ In x R);
  J_real  : forall v n, ptr w sd (S_ n) = Some v -> In (S_ n) (ports w sd v);
  J_nodup : forall v, NoDup (ports w sd v);
  J_len   : forall v, v <> u -> pfixed w sd v = true -> length (ports w sd v) = psize w sd v;
  J_ok    : forall v x, In x (ports w sd v) -> obj_okP w x;
  J_new   : forall n, nreal w <= n -> ptr w sd (S_ n) = None;
  J_units : forall v, nunits w <= v -> ports w sd v = [];
  J_uptr  : forall x v, ptr w sd x = Some v -> v < nunits w;
  J_R     : forall x, In x R -> In x (ports w sd u)
}.

Lemma Inv_J sd u w : InvS sd w -> J sd u [] w.
Proof.
  intros [A B C D E F G H]. constructor; auto; simpl; tauto.
Qed.
Lemma J_Inv sd u w : J sd u [] w ->
  (pfixed w sd u = true -> length (ports w sd u) = psize w sd u) -> InvS sd w.
Proof.
  intros [A B C D E F G H K] L. constructor; auto.
  - intros v x HI. destruct (A v x HI) as [P|[_ []]]. exact P.
  - intros v Hf. destruct (Nat.eq_dec v u) as [->|N]; auto.
Qed.

(* the other side is only touched by the creation of placeholders *)
Record frame (sd : side) (w w' : world) : Prop := mkFrame {
  F_ports : forall u, ports w' sd u = ports w sd u;
  F_ptr   : forall x, obj_okP w x -> ptr w' sd x = ptr w sd x;
  F_ptr'  : forall x, ptr w' sd x = ptr w sd x \/ ptr w' sd x = None;
  F_fresh : fresh w <= fresh w';
  F_nreal : nreal w <= nreal w';
  F_nunits: nunits w' = nunits w;
  F_psize : forall u, psize w' sd u = psize w sd u;
  F_pfixed: forall u, pfixed w' sd u = pfixed w sd u
}.
Lemma frame_refl sd w : frame sd w w.
Proof. constructor; auto. Qed.
Lemma okP_mono w w' x : fresh w <= fresh w' -> nreal w <= nreal w' -> obj_okP w x -> obj_okP w' x.
Proof. destruct x; simpl; lia. Qed.
Lemma frame_trans sd w1 w2 w3 : frame sd w1 w2 -> frame sd w2 w3 -> frame sd w1 w3.
Proof.
  intros [A1 B1 C1 D1 E1 G1 H1 K1] [A2 B2 C2 D2 E2 G2 H2 K2]. constructor; try congruence; try lia.
  - intros x Hx. rewrite B2, B1; auto. eapply okP_mono; [| |exact Hx]; lia.
  - intros x. destruct (C2 x) as [P|P]; [rewrite P; apply C1 | now right].
Qed.
Lemma frame_InvS sd w w' : frame sd w w' -> InvS sd w -> InvS sd w'.
Proof.
  intros [A B C D E G H K] [a b c d e f g h]. constructor.
  - intros u x HI. rewrite A in HI. rewrite B; eauto.
  - intros u n P. rewrite A. rewrite B in P; [auto | simpl].
    destruct (Nat.lt_ge_cases n (nreal w)) as [L|L]; [assumption|].
    destruct (C (S_ n)) as [Q|Q]; rewrite Q in P; [rewrite f in P by assumption|]; discriminate.
  - intro u. rewrite A. apply c.
  - intros u Hf. rewrite A, H. rewrite K in Hf. auto.
  - intros u x HI. rewrite A in HI. eapply okP_mono; [| |eauto]; lia.
  - intros n L. destruct (C (S_ n)) as [Q|Q]; rewrite Q; [apply f; lia | reflexivity].
  - intros u L. rewrite A. apply g. lia.
  - intros x u P. destruct (C x) as [Q|Q]; rewrite Q in P; [rewrite G; eauto | discriminate].
Qed.

(* ================================================================ world updates *)
Lemma NoDup_swap (l1 l2 : list obj) x m :
  NoDup (l1 ++ x :: l2) -> ~ In m (l1 ++ l2) -> NoDup (l1 ++ m :: l2).
Proof.
  intros H NI. apply NoDup_remove in H. destruct H as [H _].
  apply (NoDup_Add (Add_app m l1 l2)). split; assumption.
Qed.

Section Side.
Variable sd : side.

Lemma ports_upd_ports w u l v : ports (upd_ports w sd u l) sd v = if v =? u then l else ports w sd v.
Proof. unfold upd_ports; simpl. now rewrite side_eqb_refl. Qed.
Lemma ports_upd_ports_eq w u l : ports (upd_ports w sd u l) sd u = l.
Proof. rewrite ports_upd_ports. now rewrite Nat.eqb_refl. Qed.
Lemma ports_upd_ports_neq w u l v : v <> u -> ports (upd_ports w sd u l) sd v = ports w sd v.
Proof. intro H. rewrite ports_upd_ports. apply Nat.eqb_neq in H. now rewrite H. Qed.
Lemma ptr_upd_ptr w x p y : ptr (upd_ptr w sd x p) sd y = if obj_eqb y x then p else ptr w sd y.
Proof. unfold upd_ptr; simpl. now rewrite side_eqb_refl. Qed.
Lemma ptr_upd_ptr_eq w x p : ptr (upd_ptr w sd x p) sd x = p.
Proof. rewrite ptr_upd_ptr. now rewrite obj_eqb_refl. Qed.
Lemma ptr_upd_ptr_neq w x p y : y <> x -> ptr (upd_ptr w sd x p) sd y = ptr w sd y.
Proof. intro H. rewrite ptr_upd_ptr. apply obj_eqb_neq in H. now rewrite H. Qed.

Lemma frame_upd_ports w u l : frame (other sd) w (upd_ports w sd u l).
Proof.
  constructor; auto. intro v. unfold upd_ports; simpl. now rewrite side_eqb_other.
Qed.
Lemma frame_upd_ptr w x p : frame (other sd) w (upd_ptr w sd x p).
Proof.
  constructor; auto; intros; unfold upd_ptr; simpl; rewrite side_eqb_other; auto.
Qed.
Lemma frame_new_missing w u : frame (other sd) w (fst (new_missing w sd u)).
Proof.
  unfold new_missing; simpl. constructor; simpl; auto.
  - intros x Hx. rewrite side_eqb_other. simpl. replace (side_eqb (other sd) (other sd)) with true by (now destruct sd).
    simpl. destruct (obj_eqb x (M_ (fresh w))) eqn:E; [|reflexivity].
    apply obj_eqb_eq in E. subst. simpl in Hx. lia.
  - intro x. rewrite side_eqb_other. simpl. replace (side_eqb (other sd) (other sd)) with true by (now destruct sd).
    simpl. destruct (obj_eqb x (M_ (fresh w))); auto.
Qed.

(* what new_missing does on its own side *)
Lemma new_missing_spec w u w1 m : new_missing w sd u = (w1, m) ->
  m = M_ (fresh w) /\ (forall v, ports w1 sd v = ports w sd v) /\
  ptr w1 sd m = Some u /\ (forall y, y <> m -> ptr w1 sd y = ptr w sd y) /\
  fresh w1 = S (fresh w) /\ nreal w1 = nreal w /\ nunits w1 = nunits w /\
  (forall s v, psize w1 s v = psize w s v) /\ (forall s v, pfixed w1 s v = pfixed w s v).
Proof.
  unfold new_missing. intro H. inversion H; subst; clear H. simpl.
  repeat split; auto.
  - rewrite side_eqb_other'. simpl. now rewrite side_eqb_refl, Nat.eqb_refl.
  - intros y Hy. rewrite side_eqb_other'. simpl. rewrite side_eqb_refl. simpl.
    apply obj_eqb_neq in Hy. now rewrite Hy.
Qed.

(* ---------------------------------------------------------------- docking *)
Lemma dock_J u x R w :
  J sd u (x :: R) w -> u < nunits w -> obj_okP w x ->
  (forall v, v <> u -> ~ In x (ports w sd v)) ->
  J sd u R (dock w sd u x).
Proof.
  intros [A B C D E F G H K] Hu Hx NE. unfold dock.
  constructor; simpl; try assumption.
  - intros v y HI. change (ptr (upd_ptr w sd x (Some u)) sd y = Some v \/ v = u /\ In y R).
    rewrite ptr_upd_ptr. destruct (obj_eqb y x) eqn:Eq.
    + apply obj_eqb_eq in Eq. subst y. destruct (Nat.eq_dec v u) as [->|N]; [now left|]. exfalso. eapply NE; eauto.
    + apply obj_eqb_neq in Eq. destruct (A v y HI) as [P|[P [Q|Q]]]; auto. congruence.
  - intros v n. change (ptr (upd_ptr w sd x (Some u)) sd (S_ n) = Some v -> In (S_ n) (ports w sd v)).
    rewrite ptr_upd_ptr. destruct (obj_eqb (S_ n) x) eqn:Eq.
    + apply obj_eqb_eq in Eq. subst x. intro P. inversion P; subst. apply K. now left.
    + apply B.
  - intros n L. change (ptr (upd_ptr w sd x (Some u)) sd (S_ n) = None).
    rewrite ptr_upd_ptr. destruct (obj_eqb (S_ n) x) eqn:Eq; [|auto].
    apply obj_eqb_eq in Eq. subst x. simpl in Hx. lia.
  - intros y v. change (ptr (upd_ptr w sd x (Some u)) sd y = Some v -> v < nunits w).
    rewrite ptr_upd_ptr. destruct (obj_eqb y x); [intro P; inversion P; now subst | apply H].
  - intros y HI. apply K. now right.
Qed.

Lemma redock_J u x R w :
  J sd u (x :: R) w -> u < nunits w -> obj_okP w x -> J sd u R (redock w sd u x).
Proof.
  intros HJ Hu Hx. unfold redock.
  destruct (ptr w sd x) as [v|] eqn:P.
  2:{ apply dock_J; auto. intros v N HI. destruct (J_ptr _ _ _ _ HJ v x HI) as [Q|[Q _]]; congruence. }
  destruct (v =? u) eqn:Evu.
  { apply Nat.eqb_eq in Evu. subst v. destruct HJ as [A B C D E F G H K]. constructor; auto.
    - intros v y HI. destruct (A v y HI) as [Q|[Q [R'|R']]]; auto. subst. now left.
    - intros y HI. apply K. now right. }
  apply Nat.eqb_neq in Evu.
  destruct (mem x (ports w sd v)) eqn:Em.
  2:{ apply mem_false in Em. apply dock_J; auto. intros v' N HI.
      destruct (J_ptr _ _ _ _ HJ v' x HI) as [Q|[Q _]]; [|contradiction]. rewrite P in Q. inversion Q; subst. contradiction. }
  apply mem_In in Em.
  (* the stream is listed at another unit v: it is replaced there by a new placeholder *)
  destruct HJ as [A B C D E F G H K].
  unfold vacate. destruct (new_missing w sd v) as [w1 m] eqn:NM.
  destruct (new_missing_spec _ _ _ _ NM) as (Hm & Hp & Hpm & Hpo & Hf & Hr & Hn & Hs & Hfx).
  rewrite Hp. destruct (index_of_In _ _ Em) as [k Ek]. rewrite Ek.
  destruct (index_of_split _ _ _ Ek) as (l1 & l2 & EL & Lk & NI1).
  assert (Xm : x <> m). { intro Q. subst x m. simpl in Hx. lia. }
  assert (Fm : forall v' y, In y (ports w sd v') -> y <> m).
  { intros v' y HI Q. subst y m. apply E in HI. simpl in HI. lia. }
  set (wf := dock (upd_ports (undock w1 sd x) sd v (upd (ports (undock w1 sd x) sd v) k m)) sd u x).
  assert (PF : forall y, ptr wf sd y = if obj_eqb y x then Some u else if obj_eqb y m then Some v else ptr w sd y).
  { intro y. unfold wf, dock, undock. rewrite ptr_upd_ptr. destruct (obj_eqb y x) eqn:Eyx; [reflexivity|].
    change (ptr (upd_ptr w1 sd x None) sd y = if obj_eqb y m then Some v else ptr w sd y).
    rewrite ptr_upd_ptr, Eyx. destruct (obj_eqb y m) eqn:Eym.
    - apply obj_eqb_eq in Eym. now subst y.
    - apply obj_eqb_neq in Eym. now apply Hpo. }
  assert (LF : forall v', ports wf sd v' = if v' =? v then l1 ++ m :: l2 else ports w sd v').
  { intro v'. unfold wf, dock, undock.
    change (ports (upd_ports (upd_ptr w1 sd x None) sd v (upd (ports w1 sd v) k m)) sd v' = if v' =? v then l1 ++ m :: l2 else ports w sd v').
    rewrite ports_upd_ports. destruct (v' =? v); [|apply Hp].
    rewrite Hp, EL, <- Lk. apply upd_app. }
  assert (ND : NoDup (l1 ++ x :: l2)) by (rewrite <- EL; apply C).
  assert (FR : fresh wf = S (fresh w)) by exact Hf.
  assert (NR : nreal wf = nreal w) by exact Hr.
  assert (NU : nunits wf = nunits w) by exact Hn.
  assert (Vlt : v < nunits w) by (eapply H; eauto).
  assert (PS : forall v', psize wf sd v' = psize w sd v') by (intro; apply Hs).
  assert (PX : forall v', pfixed wf sd v' = pfixed w sd v') by (intro; apply Hfx).
  clearbody wf.
  constructor.
  - intros v' y. rewrite LF, PF. destruct (v' =? v) eqn:Ev.
    + apply Nat.eqb_eq in Ev. subst v'. intro HI. left.
      apply in_app_iff in HI. simpl in HI.
      destruct (obj_eqb y x) eqn:Eyx.
      { apply obj_eqb_eq in Eyx. subst y. exfalso.
        apply NoDup_remove_2 in ND. apply ND. apply in_app_iff. destruct HI as [HI|[HI|HI]]; auto. congruence. }
      destruct (obj_eqb y m) eqn:Eym; [reflexivity|].
      apply obj_eqb_neq in Eym.
      assert (HI' : In y (ports w sd v)). { rewrite EL. apply in_app_iff. simpl. destruct HI as [HI|[HI|HI]]; auto. congruence. }
      destruct (A v y HI') as [Q|[Q _]]; [assumption | contradiction].
    + apply Nat.eqb_neq in Ev. intro HI. destruct (obj_eqb y x) eqn:Eyx.
      * apply obj_eqb_eq in Eyx. subst y. destruct (A v' x HI) as [Q|[Q _]]; [rewrite P in Q; inversion Q; congruence | subst; now left].
      * apply obj_eqb_neq in Eyx. pose proof (Fm v' y HI) as Ym. apply obj_eqb_neq in Ym. rewrite Ym.
        destruct (A v' y HI) as [Q|[Q [R'|R']]]; auto. congruence.
  - intros v' n. rewrite LF, PF. destruct (obj_eqb (S_ n) x) eqn:Eyx.
    + apply obj_eqb_eq in Eyx. intro Q. inversion Q; subst v'. apply Nat.eqb_neq in Evu.
      rewrite Nat.eqb_sym in Evu. rewrite Evu. apply K. left. auto.
    + apply obj_eqb_neq in Eyx. replace (obj_eqb (S_ n) m) with false by (subst m; reflexivity).
      intro Q. pose proof (B v' n Q) as HI. destruct (v' =? v) eqn:Ev; [|assumption].
      apply Nat.eqb_eq in Ev. subst v'. rewrite EL in HI. apply in_app_iff in HI. apply in_app_iff.
      destruct HI as [HI|[HI|HI]]; [now left | congruence | right; now right].
  - intro v'. rewrite LF. destruct (v' =? v); [|apply C].
    eapply NoDup_swap; [exact ND|]. intro HI. apply (Fm v m); [|reflexivity].
    rewrite EL. apply in_app_iff in HI. apply in_app_iff. simpl. tauto.
  - intros v' N. rewrite LF, PS, PX. destruct (v' =? v) eqn:Ev; [|now apply D].
    apply Nat.eqb_eq in Ev. subst v'. intro Fx. rewrite <- (D v N Fx), EL, !app_length. reflexivity.
  - intros v' y. rewrite LF. intro HI.
    assert (Q : y = m \/ exists v'', In y (ports w sd v'')).
    { destruct (v' =? v); [|right; eauto]. apply in_app_iff in HI. destruct HI as [HI|[HI|HI]]; auto;
      right; exists v; rewrite EL; apply in_app_iff; [now left | right; now right]. }
    destruct Q as [->|(v'' & Q)].
    + rewrite Hm. simpl. lia.
    + eapply okP_mono; [| |eapply E; eauto]; lia.
  - intros n L. rewrite PF. rewrite NR in L. destruct (obj_eqb (S_ n) x) eqn:Eyx.
    + apply obj_eqb_eq in Eyx. subst x. simpl in Hx. lia.
    + replace (obj_eqb (S_ n) m) with false by (subst m; reflexivity). now apply F.
  - intros v' L. rewrite LF. rewrite NU in L. destruct (v' =? v) eqn:Ev; [apply Nat.eqb_eq in Ev; lia | now apply G].
  - intros y v'. rewrite PF, NU. destruct (obj_eqb y x); [intro Q; inversion Q; now subst|].
    destruct (obj_eqb y m); [intro Q; inversion Q; now subst | apply H].
  - intros y HI. rewrite LF. apply Nat.eqb_neq in Evu. rewrite Nat.eqb_sym in Evu. rewrite Evu. apply K. now right.
Qed.

(* ---------------------------------------------------------------- what redock leaves alone *)
Record stat (w w' : world) : Prop := mkStat {
  St_nunits : nunits w' = nunits w;
  St_nreal  : nreal w' = nreal w;
  St_fresh  : fresh w <= fresh w';
  St_psize  : forall s v, psize w' s v = psize w s v;
  St_pfixed : forall s v, pfixed w' s v = pfixed w s v
}.
Lemma stat_refl w : stat w w.
Proof. constructor; auto. Qed.
Lemma stat_trans w1 w2 w3 : stat w1 w2 -> stat w2 w3 -> stat w1 w3.
Proof. intros [A B C D E] [A' B' C' D' E']. constructor; try congruence; try lia; intros; rewrite ?D', ?E'; auto. Qed.
Lemma stat_okP w w' x : stat w w' -> obj_okP w x -> obj_okP w' x.
Proof. intros [A B C D E]. apply okP_mono; lia. Qed.

Lemma redock_misc u x w :
  frame (other sd) w (redock w sd u x) /\ stat w (redock w sd u x) /\
  ports (redock w sd u x) sd u = ports w sd u.
Proof.
  unfold redock. destruct (ptr w sd x) as [v|].
  2:{ split; [apply frame_upd_ptr | split; [constructor; simpl; auto | reflexivity]]. }
  destruct (v =? u) eqn:Evu; [split; [apply frame_refl | split; [apply stat_refl | reflexivity]]|].
  destruct (mem x (ports w sd v)); [|split; [apply frame_upd_ptr | split; [constructor; simpl; auto | reflexivity]]].
  unfold vacate. destruct (new_missing w sd v) as [w1 m] eqn:NM.
  pose proof (frame_new_missing w v) as FN. rewrite NM in FN. simpl in FN.
  destruct (new_missing_spec _ _ _ _ NM) as (Hm & Hp & Hpm & Hpo & Hf & Hr & Hn & Hs & Hfx).
  destruct (index_of x (ports w1 sd v)) as [k|].
  - split; [|split].
    + unfold dock, undock. eapply frame_trans; [exact FN|]. eapply frame_trans; [apply frame_upd_ptr|].
      eapply frame_trans; [apply frame_upd_ports | apply frame_upd_ptr].
    + constructor; simpl; auto. lia.
    + unfold dock, undock.
      change (ports (upd_ports (upd_ptr w1 sd x None) sd v (upd (ports w1 sd v) k m)) sd u = ports w sd u).
      rewrite ports_upd_ports. rewrite Nat.eqb_sym, Evu. apply Hp.
  - split; [|split].
    + unfold dock. eapply frame_trans; [exact FN | apply frame_upd_ptr].
    + constructor; simpl; auto. lia.
    + unfold dock. simpl. apply Hp.
Qed.

Lemma J_weaken u R R' w : J sd u R w -> (forall y, In y R -> In y R') ->
  (forall y, In y R' -> In y (ports w sd u)) -> J sd u R' w.
Proof.
  intros [A B C D E F G H K] S1 S2. constructor; auto.
  intros v y HI. destruct (A v y HI) as [Q|[Q1 Q2]]; auto.
Qed.

Lemma redock_all_J u R : forall w, J sd u R w -> u < nunits w -> (forall y, In y R -> obj_okP w y) ->
  let w' := fold_left (fun w x => redock w sd u x) R w in
  J sd u [] w' /\ frame (other sd) w w' /\ stat w w' /\ ports w' sd u = ports w sd u.
Proof.
  induction R as [|x R IH]; intros w HJ Hu Hok; simpl.
  - split; [assumption | split; [apply frame_refl | split; [apply stat_refl | reflexivity]]].
  - destruct (redock_misc u x w) as (Fr & St & Pu).
    assert (HJ' : J sd u R (redock w sd u x)) by (apply redock_J; auto; apply Hok; now left).
    destruct (IH (redock w sd u x) HJ') as (J' & Fr' & St' & Pu').
    + destruct St as [A _ _ _ _]. lia.
    + intros y Hy. eapply stat_okP; [exact St|]. apply Hok. now right.
    + split; [assumption | split; [eapply frame_trans; eauto | split; [eapply stat_trans; eauto | simpl in Pu'; congruence]]].
Qed.

(* ---------------------------------------------------------------- undocking a segment and writing new contents *)
Lemma undock_all_ptr olds : forall w y,
  ptr (undock_all w sd olds) sd y = if mem y olds then None else ptr w sd y.
Proof.
  unfold undock_all. induction olds as [|o olds IH]; intros w y; simpl; [reflexivity|].
  rewrite IH. unfold undock. rewrite ptr_upd_ptr.
  destruct (obj_eqb y o) eqn:E; simpl.
  - destruct (mem y olds); reflexivity.
  - reflexivity.
Qed.
Lemma undock_all_misc olds : forall w,
  (forall s v, ports (undock_all w sd olds) s v = ports w s v) /\ stat w (undock_all w sd olds) /\
  fresh (undock_all w sd olds) = fresh w /\ frame (other sd) w (undock_all w sd olds).
Proof.
  unfold undock_all. induction olds as [|o olds IH]; intro w; simpl.
  - split; [reflexivity | split; [apply stat_refl | split; [reflexivity | apply frame_refl]]].
  - destruct (IH (undock w sd o)) as (A & B & C & D). split; [|split; [|split]].
    + intros. rewrite A. reflexivity.
    + eapply stat_trans; [|exact B]. constructor; simpl; auto.
    + rewrite C. reflexivity.
    + eapply frame_trans; [apply frame_upd_ptr | exact D].
Qed.

Lemma slice_J u w l1 olds l2 ys :
  InvS sd w -> u < nunits w -> ports w sd u = l1 ++ olds ++ l2 ->
  NoDup ys -> (forall y, In y ys -> ~ In y (l1 ++ l2)) -> (forall y, In y ys -> obj_okP w y) ->
  J sd u ys (upd_ports (undock_all w sd olds) sd u (l1 ++ ys ++ l2)).
Proof.
  intros [A B C D E F G H] Hu EL NDy Dis Oky.
  destruct (undock_all_misc olds w) as (Po & St & Fr & _).
  pose proof (C u) as NDl. rewrite EL in NDl.
  assert (NDl' : NoDup (l1 ++ l2)).
  { apply NoDup_app_iff in NDl. destruct NDl as (N1 & N2 & N3). apply NoDup_app_iff in N2. destruct N2 as (N4 & N5 & N6).
    apply NoDup_app_iff. repeat split; auto. intros x Hx Hx'. apply (N3 x Hx). apply in_or_app. now right. }
  assert (Old : forall y, In y (l1 ++ l2) -> mem y olds = false).
  { intros y Hy. apply mem_false. intro Ho. apply NoDup_app_iff in NDl. destruct NDl as (N1 & N2 & N3).
    apply in_app_or in Hy. destruct Hy as [Hy|Hy].
    - apply (N3 y Hy). apply in_or_app. now left.
    - apply NoDup_app_iff in N2. destruct N2 as (_ & _ & N6). apply (N6 y Ho Hy). }
  assert (Oth : forall v y, v <> u -> In y (ports w sd v) -> mem y olds = false).
  { intros v y N HI. apply mem_false. intro Ho. assert (In y (ports w sd u)) by (rewrite EL; apply in_or_app; right; apply in_or_app; now left).
    apply A in HI. apply A in H0. congruence. }
  constructor.
  - intros v y. rewrite ports_upd_ports. change (ptr (upd_ports (undock_all w sd olds) sd u (l1 ++ ys ++ l2)) sd y) with (ptr (undock_all w sd olds) sd y).
    rewrite undock_all_ptr. destruct (v =? u) eqn:Ev.
    + apply Nat.eqb_eq in Ev. subst v. intro HI.
      destruct (in_dec (fun a b => ltac:(destruct (obj_eqb a b) eqn:Q; [left; now apply obj_eqb_eq | right; now apply obj_eqb_neq])) y ys) as [I|NI]; [now right|].
      left. assert (Hy : In y (l1 ++ l2)). { apply in_app_or in HI. destruct HI as [HI|HI]; [apply in_or_app; now left|].
        apply in_app_or in HI. destruct HI as [HI|HI]; [contradiction | apply in_or_app; now right]. }
      rewrite (Old y Hy). apply A. rewrite EL. apply in_app_or in Hy. destruct Hy; apply in_or_app; [now left | right; apply in_or_app; now right].
    + apply Nat.eqb_neq in Ev. rewrite Po. intro HI. left. rewrite (Oth v y Ev HI). now apply A.
  - intros v n. change (ptr (upd_ports (undock_all w sd olds) sd u (l1 ++ ys ++ l2)) sd (S_ n)) with (ptr (undock_all w sd olds) sd (S_ n)).
    rewrite undock_all_ptr, ports_upd_ports. destruct (mem (S_ n) olds) eqn:Em; [discriminate|].
    intro Q. apply B in Q. destruct (v =? u) eqn:Ev; [|now rewrite Po].
    apply Nat.eqb_eq in Ev. subst v. rewrite EL in Q. apply mem_false in Em.
    apply in_app_or in Q. destruct Q as [Q|Q]; [apply in_or_app; now left|].
    apply in_app_or in Q. destruct Q as [Q|Q]; [contradiction | apply in_or_app; right; apply in_or_app; now right].
  - intro v. rewrite ports_upd_ports. destruct (v =? u); [|rewrite Po; apply C].
    apply NoDup_app_iff in NDl'. destruct NDl' as (N1 & N2 & N3).
    apply NoDup_app_iff. split; [assumption|]. split.
    + apply NoDup_app_iff. repeat split; auto. intros x Hx Hx'. apply (Dis x Hx). apply in_or_app. now right.
    + intros x Hx Hx'. apply in_app_or in Hx'. destruct Hx' as [Hx'|Hx']; [|now apply (N3 x)].
      apply (Dis x Hx'). apply in_or_app. now left.
  - intros v N. rewrite ports_upd_ports_neq by assumption. rewrite Po. destruct St as [_ _ _ S4 S5]. cbn [psize pfixed upd_ports]. rewrite S4, S5. apply D.
  - intros v y. rewrite ports_upd_ports. intro HI. change (obj_okP (undock_all w sd olds) y). eapply stat_okP; [exact St|].
    destruct (v =? u).
    + apply in_app_or in HI. destruct HI as [HI|HI]; [apply (E u); rewrite EL; apply in_or_app; now left|].
      apply in_app_or in HI. destruct HI as [HI|HI]; [now apply Oky|]. apply (E u). rewrite EL. apply in_or_app. right. apply in_or_app. now right.
    + rewrite Po in HI. eapply E; eauto.
  - intros n L. change (ptr (undock_all w sd olds) sd (S_ n) = None). rewrite undock_all_ptr.
    destruct (mem (S_ n) olds); [reflexivity|]. apply F. destruct St as [_ S2 _ _ _]. simpl in L. rewrite S2 in L. exact L.
  - intros v L. rewrite ports_upd_ports. destruct St as [S1 _ _ _ _]. simpl in L. rewrite S1 in L.
    destruct (v =? u) eqn:Ev; [apply Nat.eqb_eq in Ev; lia|]. rewrite Po. now apply G.
  - intros y v. change (ptr (undock_all w sd olds) sd y = Some v -> v < nunits (undock_all w sd olds)).
    rewrite undock_all_ptr. destruct St as [S1 _ _ _ _]. rewrite S1. destruct (mem y olds); [discriminate | apply H].
  - intros y HI. rewrite ports_upd_ports_eq. apply in_or_app. right. apply in_or_app. now left.
Qed.
End Side.

(* ================================================================ extensionally equal worlds *)
Record weq (w w' : world) : Prop := mkWeq {
  Q_ports : forall s v, ports w' s v = ports w s v;
  Q_ptr : forall s y, ptr w' s y = ptr w s y;
  Q_psize : forall s v, psize w' s v = psize w s v;
  Q_pfixed : forall s v, pfixed w' s v = pfixed w s v;
  Q_fresh : fresh w' = fresh w; Q_nreal : nreal w' = nreal w; Q_nunits : nunits w' = nunits w }.
Lemma weq_refl w : weq w w. Proof. constructor; auto. Qed.
Lemma redock_comm sd u x L w : weq (redock (upd_ports w sd u L) sd u x) (upd_ports (redock w sd u x) sd u L).
Proof.
  unfold redock. cbn [ptr upd_ports]. destruct (ptr w sd x) as [v|].
  2:{ constructor; intros; reflexivity. }
  destruct (v =? u) eqn:E; [apply weq_refl|].
  rewrite ports_upd_ports, E.
  destruct (mem x (ports w sd v)); [|constructor; intros; reflexivity].
  unfold vacate, new_missing. cbn [ports upd_ports upd_ptr bump_fresh undock dock ptr fresh nreal nunits psize pfixed].
  rewrite side_eqb_refl, E. cbn [andb].
  destruct (index_of x (ports w sd v)) as [k|].
  - constructor; intros; cbn [ports upd_ports upd_ptr bump_fresh undock dock ptr fresh nreal nunits psize pfixed]; try reflexivity.
    destruct (side_eqb s sd) eqn:Es; cbn [andb]; [|reflexivity].
    destruct (v0 =? u) eqn:E1; destruct (v0 =? v) eqn:E2; try reflexivity.
    apply Nat.eqb_eq in E1, E2. subst. rewrite Nat.eqb_refl in E. discriminate.
  - constructor; intros; reflexivity.
Qed.

Lemma weq_InvS sd w w' : weq w w' -> InvS sd w -> InvS sd w'.
Proof.
  intros [A B C D E F G] [a b c d e f g h]. constructor.
  - intros u x. rewrite A, B. apply a.
  - intros u n. rewrite A, B. apply b.
  - intro u. rewrite A. apply c.
  - intro u. rewrite A, C, D. apply d.
  - intros u x. rewrite A. intro HI. apply e in HI. destruct x; simpl in *; congruence.
  - intro n. rewrite F, B. apply f.
  - intro u. rewrite G, A. apply g.
  - intros x u. rewrite B, G. apply h.
Qed.
Lemma weq_frame sd w0 w w' : weq w w' -> frame sd w0 w -> frame sd w0 w'.
Proof.
  intros [A B C D E F G] [a b c d e f g h]. constructor; intros; rewrite ?A, ?B, ?C, ?D, ?E, ?F, ?G; auto.
Qed.
Lemma weq_stat w0 w w' : weq w w' -> stat w0 w -> stat w0 w'.
Proof.
  intros [A B C D E F G] [a b c d e]. constructor; intros; rewrite ?A, ?B, ?C, ?D, ?E, ?F, ?G; auto.
Qed.

(* ================================================================ the list methods *)
Section Side2.
Variable sd : side.

Definition good (w : world) (r : outcome) : Prop :=
  InvS sd (fst r) /\ frame (other sd) w (fst r) /\ stat w (fst r).
Lemma good_same w e : InvS sd w -> good w (w, e).
Proof. intro H. split; [exact H | split; [apply frame_refl | apply stat_refl]]. Qed.

Lemma new_missing_InvS w u w1 m : InvS sd w -> u < nunits w -> new_missing w sd u = (w1, m) ->
  InvS sd w1 /\ obj_okP w1 m /\ (forall v, ~ In m (ports w1 sd v)) /\ stat w w1 /\ frame (other sd) w w1.
Proof.
  intros [A B C D E F G H] Hu NM.
  pose proof (frame_new_missing sd w u) as FN. rewrite NM in FN. simpl in FN.
  destruct (new_missing_spec _ _ _ _ _ NM) as (Hm & Hp & Hpm & Hpo & Hf & Hr & Hn & Hs & Hfx).
  assert (Fm : forall v y, In y (ports w sd v) -> y <> m).
  { intros v y HI Q. subst y m. apply E in HI. simpl in HI. lia. }
  split; [|split; [|split; [|split]]].
  - constructor.
    + intros v y. rewrite Hp. intro HI. rewrite Hpo; [now apply A | eapply Fm; eauto].
    + intros v n. rewrite Hp, Hpo; [apply B | subst m; discriminate].
    + intro v. rewrite Hp. apply C.
    + intro v. rewrite Hp, Hs, Hfx. apply D.
    + intros v y. rewrite Hp. intro HI. eapply okP_mono; [| |eapply E; eauto]; lia.
    + intros n L. rewrite Hpo; [apply F; lia | subst m; discriminate].
    + intros v L. rewrite Hp. apply G. lia.
    + intros y v. destruct (obj_dec y m) as [->|N].
      * rewrite Hpm. intro Q. inversion Q. subst. lia.
      * rewrite Hpo, Hn by assumption. apply H.
  - subst m. simpl. lia.
  - intros v HI. rewrite Hp in HI. eapply Fm; eauto.
  - constructor; auto. lia.
  - exact FN.
Qed.

(* common core of item assignment, slice assignment: the segment [olds] of u's list is undocked and
   replaced by [ys], then the objects in R (which include ys) are redocked *)
Lemma place_J u w l1 olds l2 ys R :
  InvS sd w -> u < nunits w -> ports w sd u = l1 ++ olds ++ l2 ->
  NoDup ys -> (forall y, In y ys -> ~ In y (l1 ++ l2)) -> (forall y, In y ys -> obj_okP w y) ->
  (forall y, In y ys -> In y R) -> (forall y, In y R -> In y (l1 ++ ys ++ l2)) ->
  let w4 := fold_left (fun w x => redock w sd u x) R (upd_ports (undock_all w sd olds) sd u (l1 ++ ys ++ l2)) in
  J sd u [] w4 /\ frame (other sd) w w4 /\ stat w w4 /\ ports w4 sd u = l1 ++ ys ++ l2.
Proof.
  intros HI Hu EL ND Dis Ok S1 S2.
  pose proof (slice_J sd u w l1 olds l2 ys HI Hu EL ND Dis Ok) as J0.
  destruct (undock_all_misc sd olds w) as (Po & St & Fr & Frm).
  set (w3 := upd_ports (undock_all w sd olds) sd u (l1 ++ ys ++ l2)) in *.
  assert (P3 : ports w3 sd u = l1 ++ ys ++ l2) by apply ports_upd_ports_eq.
  assert (J1 : J sd u R w3) by (eapply J_weaken; [exact J0 | exact S1 | intros y Hy; rewrite P3; auto]).
  assert (St3 : stat w w3) by (destruct St; constructor; auto).
  destruct (redock_all_J sd u R w3 J1) as (J2 & Fr2 & St2 & P2).
  - destruct St3 as [A _ _ _ _]. lia.
  - intros y Hy. eapply J_ok; [exact J1|]. rewrite P3. eauto.
  - split; [exact J2|]. split; [|split].
    + eapply frame_trans; [|exact Fr2]. eapply frame_trans; [exact Frm | apply frame_upd_ports].
    + eapply stat_trans; eauto.
    + etransitivity; [exact P2 | exact P3].
Qed.

Lemma set_stream_obj u w i x :
  InvS sd w -> u < nunits w -> obj_okP w x -> pre_set w sd u i (RObj x) = true ->
  good w (set_stream w sd u i (RObj x)).
Proof.
  intros HI Hu Hx Pre. unfold set_stream, as_stream. unfold pre_set in Pre.
  set (l := ports w sd u) in *.
  destruct (norm_index i (length l)) as [k|] eqn:Ek.
  - pose proof (norm_index_lt _ _ _ Ek) as Lk.
    destruct (nth_split' l k x Lk) as (l1 & l2 & EL & L1).
    set (old := nth k l x) in *.
    assert (Dis : ~ In x (l1 ++ l2)).
    { pose proof (I_nodup _ _ HI u) as ND. fold l in ND. rewrite EL in ND.
      destruct (index_of x l) as [j|] eqn:Ej.
      - apply Nat.eqb_eq in Pre. subst j. destruct (index_of_split _ _ _ Ej) as (a1 & a2 & EA & LA & _).
        assert (old = x). { unfold old. rewrite EA, <- LA. apply nth_app_mid. }
        rewrite H in ND. apply NoDup_remove_2 in ND. exact ND.
      - apply index_of_None in Ej. intro Q. apply Ej. rewrite EL. apply in_app_or in Q. apply in_or_app. simpl. tauto. }
    destruct (place_J u w l1 [old] l2 [x] [x] HI Hu) as (J4 & Fr4 & St4 & P4); auto.
    + constructor; [intros []|constructor].
    + intros y [<-|[]]. exact Dis.
    + intros y [<-|[]]. exact Hx.
    + intros y [<-|[]]. apply in_or_app. right. now left.
    + unfold undock_all in *. cbn [fold_left] in *.
      destruct (redock_misc sd u x (undock w sd old)) as (_ & _ & Pu).
      assert (EQ : upd (ports (redock (undock w sd old) sd u x) sd u) k x = l1 ++ [x] ++ l2).
      { rewrite Pu. change (ports (undock w sd old) sd u) with l. rewrite EL at 1. rewrite <- L1. apply upd_app. }
      rewrite EQ.
      pose proof (redock_comm sd u x (l1 ++ [x] ++ l2) (undock w sd old)) as WQ.
      unfold ok, good. simpl fst.
      split; [|split].
      * eapply weq_InvS; [exact WQ|]. eapply J_Inv; [exact J4|].
        rewrite P4. destruct St4 as [_ _ _ S4 S5]. rewrite S4, S5. intro Fx.
        rewrite <- (I_len _ _ HI u Fx). fold l. rewrite EL. rewrite !app_length. reflexivity.
      * eapply weq_frame; eauto.
      * eapply weq_stat; eauto.
  - destruct ((Z.of_nat (length l) <=? i)%Z && negb (pfixed w sd u)) eqn:Ec; [|apply good_same; exact HI].
    apply andb_true_iff in Ec. destruct Ec as [_ Nf]. apply negb_true_iff in Nf.
    assert (Dis : ~ In x l).
    { destruct (index_of x l) eqn:Ej; [discriminate|]. now apply index_of_None in Ej. }
    destruct (place_J u w l [] [] [x] [x] HI Hu) as (J4 & Fr4 & St4 & P4); auto.
    + fold l. now rewrite app_nil_r.
    + constructor; [intros []|constructor].
    + intros y [<-|[]]. now rewrite app_nil_r.
    + intros y [<-|[]]. exact Hx.
    + intros y [<-|[]]. apply in_or_app. right. now left.
    + unfold undock_all in *. cbn [fold_left] in *.
      destruct (redock_misc sd u x w) as (_ & _ & Pu). rewrite Pu. fold l.
      pose proof (redock_comm sd u x (l ++ [x] ++ []) w) as WQ.
      replace (l ++ [x]) with (l ++ [x] ++ []) by reflexivity.
      unfold ok, good. simpl fst.
      split; [|split].
      * eapply weq_InvS; [exact WQ|]. eapply J_Inv; [exact J4|].
        destruct St4 as [_ _ _ S4 S5]. rewrite S5, Nf. discriminate.
      * eapply weq_frame; eauto.
      * eapply weq_stat; eauto.
Qed.
End Side2.

Section Side3.
Variable sd : side.
Notation good := (good sd).

Definition rarg_okP (w : world) (a : rarg) : Prop := match a with RObj x => obj_okP w x | _ => True end.

Lemma good_trans w w1 r : stat w w1 -> frame (other sd) w w1 -> good w1 r -> good w r.
Proof.
  intros St Fr (A & B & C). split; [exact A|]. split; [eapply frame_trans; eauto | eapply stat_trans; eauto].
Qed.

Lemma index_of_notin x l : (forall y, In y l -> y <> x) -> index_of x l = None.
Proof. intro H. apply index_of_None. intro HI. now apply (H x HI). Qed.

Lemma set_stream_good u w i a :
  InvS sd w -> u < nunits w -> rarg_okP w a -> pre_set w sd u i a = true ->
  good w (set_stream w sd u i a).
Proof.
  intros HI Hu Ha Pre. destruct a as [x| |].
  - now apply set_stream_obj.
  - unfold set_stream, as_stream. destruct (new_missing w sd u) as [w1 m] eqn:NM.
    destruct (new_missing_InvS sd w u w1 m HI Hu NM) as (I1 & Om & Nm & St & Fr).
    change (good w (set_stream w1 sd u i (RObj m))).
    eapply good_trans; [exact St | exact Fr |].
    apply set_stream_obj; auto.
    + destruct St as [A _ _ _ _]. lia.
    + unfold pre_set. rewrite (proj2 (index_of_None m (ports w1 sd u)) (Nm u)). reflexivity.
  - unfold set_stream, as_stream. apply good_same. exact HI.
Qed.

Lemma replace_good u w a b :
  InvS sd w -> u < nunits w -> rarg_okP w b -> pre_replace w sd u a b = true ->
  good w (replace w sd u a b).
Proof.
  intros HI Hu Hb Pre. unfold replace. unfold pre_replace in Pre.
  destruct a as [x| |]; try (apply good_same; exact HI).
  destruct (index_of x (ports w sd u)) as [k|]; [|apply good_same; exact HI].
  now apply set_stream_good.
Qed.

Lemma remove_good u w a : InvS sd w -> u < nunits w -> good w (remove w sd u a).
Proof.
  intros HI Hu. unfold remove. destruct (new_missing w sd u) as [w1 m] eqn:NM.
  destruct (new_missing_InvS sd w u w1 m HI Hu NM) as (I1 & Om & Nm & St & Fr).
  eapply good_trans; [exact St | exact Fr |].
  apply replace_good; auto.
  - destruct St as [A _ _ _ _]. lia.
  - unfold pre_replace. destruct a as [x| |]; auto.
    destruct (index_of x (ports w1 sd u)); auto.
    unfold pre_set. rewrite (proj2 (index_of_None m (ports w1 sd u)) (Nm u)). reflexivity.
Qed.

Lemma disconnect_side_good w a : InvS sd w -> good w (disconnect_side w sd a).
Proof.
  intro HI. unfold disconnect_side. destruct a as [x| |]; try (apply good_same; exact HI).
  destruct (ptr w sd x) as [v|] eqn:P; [|apply good_same; exact HI].
  apply remove_good; auto. eapply I_uptr; eauto.
Qed.

Lemma remove_nth_app (l1 l2 : list obj) x : remove_nth (length l1) (l1 ++ x :: l2) = l1 ++ l2.
Proof. induction l1; simpl; [reflexivity | now rewrite IHl1]. Qed.

Lemma pop_good u w i : InvS sd w -> u < nunits w -> good w (pop true w sd u i).
Proof.
  intros HI Hu. unfold pop. set (l := ports w sd u).
  destruct (pfixed w sd u) eqn:Fx.
  - destruct (norm_index i (length l)) as [k|]; [|apply good_same; exact HI].
    destruct (new_missing w sd u) as [w1 m] eqn:NM.
    destruct (new_missing_InvS sd w u w1 m HI Hu NM) as (I1 & Om & Nm & St & Fr).
    eapply good_trans; [exact St | exact Fr |].
    apply replace_good; auto.
    + destruct St as [A _ _ _ _]. lia.
    + unfold pre_replace. destruct (index_of (nth k l (M_ 0)) (ports w1 sd u)); auto.
      unfold pre_set. rewrite (proj2 (index_of_None m (ports w1 sd u)) (Nm u)). reflexivity.
  - destruct (norm_index i (length l)) as [k|] eqn:Ek; [|apply good_same; exact HI].
    pose proof (norm_index_lt _ _ _ Ek) as Lk.
    destruct (nth_split' l k (M_ 0) Lk) as (l1 & l2 & EL & L1).
    set (x := nth k l (M_ 0)) in *.
    pose proof (slice_J sd u w l1 [x] l2 [] HI Hu EL (NoDup_nil _)) as J0.
    assert (J1 : J sd u [] (upd_ports (undock_all w sd [x]) sd u (l1 ++ [] ++ l2))) by (apply J0; intros y []).
    unfold ok, good. simpl fst.
    assert (EQ : remove_nth k l = l1 ++ [] ++ l2) by (rewrite EL at 1; rewrite <- L1; apply remove_nth_app).
    rewrite EQ.
    change (undock (upd_ports w sd u (l1 ++ [] ++ l2)) sd x) with (upd_ports (undock_all w sd [x]) sd u (l1 ++ [] ++ l2)).
    split; [|split].
    + eapply J_Inv; [exact J1|]. cbn [pfixed upd_ports undock_all fold_left undock upd_ptr]. rewrite Fx. discriminate.
    + eapply frame_trans; [apply frame_upd_ptr | apply frame_upd_ports].
    + constructor; auto.
Qed.

Lemma insert_stream_good u w i a :
  InvS sd w -> u < nunits w -> rarg_okP w a -> pre_insert w sd u a = true ->
  good w (insert_stream w sd u i a).
Proof.
  intros HI Hu Ha Pre. unfold insert_stream. unfold pre_insert in Pre.
  destruct (pfixed w sd u) eqn:Fx; [apply good_same; exact HI|]. simpl in Pre.
  destruct a as [x| |]; try (apply good_same; exact HI).
  destruct (ptr w sd x) eqn:P; [discriminate|]. simpl in Ha.
  set (w1 := dock (undock w sd x) sd u x). set (l := ports w1 sd u).
  assert (El : l = ports w sd u) by reflexivity.
  set (k := match i with Some i0 => clampZ (Some i0) (length l) 0 | None => length l end).
  assert (Nx : forall v, ~ In x (ports w sd v)).
  { intros v Q. apply (I_ptr _ _ HI) in Q. congruence. }
  pose proof (firstn_skipn k l) as Sp.
  assert (EL : ports w sd u = firstn k l ++ [] ++ skipn k l) by (rewrite <- El; symmetry; exact Sp).
  pose proof (slice_J sd u w (firstn k l) [] (skipn k l) [x] HI Hu EL) as J0.
  assert (J1 : J sd u [x] (upd_ports w sd u (firstn k l ++ [x] ++ skipn k l))).
  { apply J0.
    - constructor; [intros []|constructor].
    - intros y [<-|[]]. rewrite Sp, El. apply Nx.
    - intros y [<-|[]]. exact Ha. }
  assert (J2 : J sd u [] (dock (upd_ports w sd u (firstn k l ++ [x] ++ skipn k l)) sd u x)).
  { apply dock_J; auto. intros v N. rewrite ports_upd_ports_neq by assumption. apply Nx. }
  unfold ok, good. simpl fst. unfold insert_at.
  assert (WQ : weq (dock (upd_ports w sd u (firstn k l ++ [x] ++ skipn k l)) sd u x)
                   (upd_ports w1 sd u (firstn k l ++ x :: skipn k l))).
  { constructor; intros; try reflexivity.
    unfold w1, dock, undock, upd_ptr, upd_ports. cbn [ptr].
    destruct (side_eqb s sd && obj_eqb y x); reflexivity. }
  split; [|split].
  - eapply weq_InvS; [exact WQ|]. eapply J_Inv; [exact J2|].
    cbn [pfixed dock upd_ptr upd_ports]. rewrite Fx. discriminate.
  - eapply frame_trans; [|apply frame_upd_ports]. unfold w1, dock, undock.
    eapply frame_trans; apply frame_upd_ptr.
  - constructor; auto.
Qed.

Lemma insert_stream_ptr u w i a y :
  (forall x, a = RObj x -> y <> x) ->
  ptr (fst (insert_stream w sd u i a)) sd y = ptr w sd y.
Proof.
  intro N. unfold insert_stream. destruct (pfixed w sd u); [reflexivity|].
  destruct a as [x| |]; try reflexivity. simpl fst.
  unfold dock, undock. cbn [ptr upd_ports]. rewrite !ptr_upd_ptr.
  specialize (N x eq_refl). apply obj_eqb_neq in N. now rewrite N.
Qed.

Lemma extend_streams_good u xs : forall w,
  InvS sd w -> u < nunits w -> pfixed w sd u = false -> (forall a, In a xs -> rarg_okP w a) ->
  NoDup (before_error xs) -> (forall x, In x (before_error xs) -> ptr w sd x = None) ->
  good w (extend_streams w sd u xs).
Proof.
  induction xs as [|a xs IH]; intros w HI Hu Fx Ok ND Pn; simpl.
  - apply good_same. exact HI.
  - assert (G1 : good w (insert_stream w sd u None a)).
    { apply insert_stream_good; auto.
      - apply Ok. now left.
      - unfold pre_insert. rewrite Fx. simpl. destruct a as [x| |]; auto. rewrite Pn; [reflexivity | now left]. }
    destruct (insert_stream w sd u None a) as [w1 [e|]] eqn:E1; [exact G1|].
    simpl andthen. destruct G1 as (I1 & Fr & St). simpl fst in *.
    destruct a as [x| |]; try (unfold insert_stream in E1; rewrite Fx in E1; discriminate).
    simpl in ND, Pn. inversion ND as [|? ? NI ND']; subst.
    eapply good_trans; [exact St | exact Fr |].
    apply IH; auto.
    + destruct St as [A _ _ _ _]. lia.
    + destruct St as [_ _ _ _ S5]. rewrite S5. exact Fx.
    + intros b Hb. specialize (Ok b (or_intror Hb)). destruct b; simpl in *; auto. eapply stat_okP; eauto.
    + intros y Hy. replace w1 with (fst (insert_stream w sd u None (RObj x))) by (rewrite E1; reflexivity).
      rewrite insert_stream_ptr; [apply Pn; now right|]. intros x0 Q. inversion Q; subst. intro; subst; contradiction.
Qed.

Lemma clear_var_good u w : InvS sd w -> u < nunits w -> pfixed w sd u = false -> good w (clear w sd u).
Proof.
  intros HI Hu Fx. unfold clear. rewrite Fx. unfold ok, good. simpl fst.
  pose proof (slice_J sd u w [] (ports w sd u) [] [] HI Hu) as J0.
  assert (J1 : J sd u [] (upd_ports (undock_all w sd (ports w sd u)) sd u ([] ++ [] ++ []))).
  { apply J0; [now rewrite app_nil_r | constructor | intros y [] | intros y []]. }
  destruct (undock_all_misc sd (ports w sd u) w) as (Po & St & Fr & Frm).
  split; [|split].
  - eapply J_Inv; [exact J1|]. cbn [pfixed upd_ports]. destruct St as [_ _ _ _ S5]. rewrite S5, Fx. discriminate.
  - eapply frame_trans; [exact Frm | apply frame_upd_ports].
  - destruct St. constructor; auto.
Qed.
End Side3.

Section Side4.
Variable sd : side.
Notation good := (good sd).

Lemma new_missing_J u R w v w1 m : J sd u R w -> v < nunits w -> new_missing w sd v = (w1, m) ->
  J sd u R w1 /\ obj_okP w1 m /\ (forall v', ~ In m (ports w1 sd v')) /\ stat w w1 /\ frame (other sd) w w1
  /\ ptr w1 sd m = Some v /\ (forall y, y <> m -> ptr w1 sd y = ptr w sd y) /\ (forall v', ports w1 sd v' = ports w sd v')
  /\ m = M_ (fresh w).
Proof.
  intros [A B C D E F G H K] Hv NM.
  pose proof (frame_new_missing sd w v) as FN. rewrite NM in FN. simpl in FN.
  destruct (new_missing_spec _ _ _ _ _ NM) as (Hm & Hp & Hpm & Hpo & Hf & Hr & Hn & Hs & Hfx).
  assert (Fm : forall v' y, In y (ports w sd v') -> y <> m).
  { intros v' y HI Q. subst y m. apply E in HI. simpl in HI. lia. }
  split; [|split; [|split; [|split; [|split; [|split; [|split; [|split]]]]]]]; auto.
  - constructor.
    + intros v' y. rewrite Hp. intro HI. rewrite Hpo; [now apply A | eapply Fm; eauto].
    + intros v' n. rewrite Hp, Hpo; [apply B | subst m; discriminate].
    + intro v'. rewrite Hp. apply C.
    + intros v' N. rewrite Hp, Hs, Hfx. now apply D.
    + intros v' y. rewrite Hp. intro HI. eapply okP_mono; [| |eapply E; eauto]; lia.
    + intros n L. rewrite Hpo; [apply F; lia | subst m; discriminate].
    + intros v' L. rewrite Hp. apply G. lia.
    + intros y v'. destruct (obj_dec y m) as [->|N].
      * rewrite Hpm. intro Q. inversion Q. subst. lia.
      * rewrite Hpo, Hn by assumption. apply H.
    + intros y HI. rewrite Hp. now apply K.
  - subst m. simpl. lia.
  - intros v' HI. rewrite Hp in HI. eapply Fm; eauto.
  - constructor; auto. lia.
Qed.

Definition pend (u : nat) (w : world) (m : obj) : Prop :=
  ptr w sd m = Some u /\ obj_okP w m /\ (forall v, ~ In m (ports w sd v)).

Lemma pend_news u n : forall w Ms w5 ms, J sd u [] w -> u < nunits w -> NoDup Ms ->
  (forall m, In m Ms -> pend u w m) -> new_missings w sd u n = (w5, ms) ->
  J sd u [] w5 /\ NoDup (Ms ++ ms) /\ (forall m, In m (Ms ++ ms) -> pend u w5 m) /\ length ms = n /\
  frame (other sd) w w5 /\ stat w w5 /\ (forall v, ports w5 sd v = ports w sd v).
Proof.
  induction n as [|n IH]; intros w Ms w5 ms HJ Hu ND Pm NM; cbn [new_missings] in NM.
  - inversion NM; subst. rewrite app_nil_r.
    split; [exact HJ|]. split; [exact ND|]. split; [exact Pm|]. split; [reflexivity|].
    split; [apply frame_refl|]. split; [apply stat_refl | reflexivity].
  - destruct (new_missing w sd u) as [w1 m] eqn:E1. destruct (new_missings w1 sd u n) as [w2 ms'] eqn:E2.
    inversion NM; subst; clear NM.
    destruct (new_missing_J u [] w u w1 m HJ Hu E1) as (J1 & Om & Nm & St & Fr & Pm1 & Po1 & Pp1 & Em).
    assert (Mm : forall y, In y Ms -> y <> m).
    { intros y Hy Q. subst y. destruct (Pm _ Hy) as (_ & O & _). rewrite Em in O. simpl in O. lia. }
    destruct (IH w1 (Ms ++ [m]) w5 ms' J1) as (J5 & ND5 & P5 & L5 & Fr5 & St5 & Pp5); auto.
    + destruct St as [A _ _ _ _]. lia.
    + apply NoDup_app_iff. split; [exact ND|]. split; [constructor; [intros []|constructor]|].
      intros y Hy [Q|[]]. now apply (Mm y).
    + intros y Hy. apply in_app_or in Hy. destruct Hy as [Hy|[<-|[]]].
      * destruct (Pm _ Hy) as (P1 & P2 & P3). split; [|split].
        -- rewrite Po1; auto.
        -- eapply stat_okP; eauto.
        -- intro v. rewrite Pp1. apply P3.
      * split; [exact Pm1 | split; [exact Om | exact Nm]].
    + rewrite <- app_assoc in ND5, P5. simpl in ND5, P5.
      split; [exact J5|]. split; [exact ND5|]. split; [exact P5|]. split; [simpl; congruence|].
      split; [eapply frame_trans; eauto|]. split; [eapply stat_trans; eauto|].
      intro v. rewrite Pp5. apply Pp1.
Qed.

Lemma pend_flush u w Ms : J sd u [] w -> u < nunits w -> NoDup Ms -> (forall m, In m Ms -> pend u w m) ->
  J sd u [] (upd_ports w sd u (ports w sd u ++ Ms)).
Proof.
  intros [A B C D E F G H K] Hu ND Pm. constructor.
  - intros v y. rewrite ports_upd_ports. destruct (v =? u) eqn:Ev.
    + apply Nat.eqb_eq in Ev. subst v. intro HI. left. apply in_app_or in HI. destruct HI as [HI|HI].
      * destruct (A u y HI) as [Q|[_ []]]. exact Q.
      * apply Pm. exact HI.
    + apply A.
  - intros v n Q. apply B in Q. rewrite ports_upd_ports. destruct (v =? u) eqn:Ev; [|exact Q].
    apply Nat.eqb_eq in Ev. subst v. apply in_or_app. now left.
  - intro v. rewrite ports_upd_ports. destruct (v =? u); [|apply C].
    apply NoDup_app_iff. split; [apply C|]. split; [exact ND|].
    intros y Hy Hm. destruct (Pm y Hm) as (_ & _ & N). now apply (N u).
  - intros v N. rewrite ports_upd_ports_neq by assumption. now apply D.
  - intros v y. rewrite ports_upd_ports. destruct (v =? u); [|apply E].
    intro HI. apply in_app_or in HI. destruct HI as [HI|HI]; [eapply E; eauto | apply Pm; exact HI].
  - exact F.
  - intros v L. rewrite ports_upd_ports. simpl in L. destruct (v =? u) eqn:Ev; [apply Nat.eqb_eq in Ev; lia | now apply G].
  - exact H.
  - intros y [].
Qed.

Lemma skipn_skipn' {A} x : forall y (l : list A), skipn x (skipn y l) = skipn (y + x) l.
Proof.
  induction y as [|y IH]; intro l; simpl; [reflexivity|].
  destruct l; [now rewrite !skipn_nil | apply IH].
Qed.
Lemma slice_split (l : list obj) a b : a <= b ->
  l = firstn a l ++ firstn (b - a) (skipn a l) ++ skipn b l.
Proof.
  intro H. rewrite <- (firstn_skipn a l) at 1. f_equal.
  rewrite <- (firstn_skipn (b - a) (skipn a l)) at 1. f_equal.
  rewrite skipn_skipn'. f_equal. lia.
Qed.

Lemma as_streams_spec u xs : forall w,
  InvS sd w -> u < nunits w -> (forall a, In a xs -> rarg_okP w a) ->
  InvS sd (fst (as_streams w sd u xs)) /\ stat w (fst (as_streams w sd u xs)) /\
  frame (other sd) w (fst (as_streams w sd u xs)) /\
  (forall v, ports (fst (as_streams w sd u xs)) sd v = ports w sd v) /\
  match snd (as_streams w sd u xs) with
  | Err _ => robj_list xs = None
  | Ok ys => exists os, robj_list xs = Some os /\ length ys = length os /\
      (forall y, In y ys -> obj_okP (fst (as_streams w sd u xs)) y) /\
      (NoDup (somes os) -> NoDup ys) /\
      (forall y, In y ys -> In y (somes os) \/ exists n, y = M_ n /\ fresh w <= n)
  end.
Proof.
  induction xs as [|a xs IH]; intros w HI Hu Ok; simpl.
  - split; [exact HI|]. split; [apply stat_refl|]. split; [apply frame_refl|]. split; [reflexivity|].
    exists []. simpl. repeat split; auto. intros y [].
  - destruct a as [x| |]; cbn [as_streams as_stream].
    + specialize (IH w HI Hu (fun a H => Ok a (or_intror H))).
      destruct (as_streams w sd u xs) as [w2 [ys|e]] eqn:E2; simpl in *.
      * destruct IH as (I2 & St & Fr & Pp & os & Eo & Ln & Oky & NDy & Src).
        split; [exact I2|]. split; [exact St|]. split; [exact Fr|]. split; [exact Pp|].
        exists (Some x :: os). rewrite Eo. simpl. split; [reflexivity|]. split; [congruence|]. split; [|split].
        -- intros y [<-|Hy]; [|now apply Oky]. eapply stat_okP; [exact St|]. apply (Ok (RObj x)). now left.
        -- intro ND. inversion ND as [|? ? NI ND']; subst. constructor; [|now apply NDy].
           intro Hx. destruct (Src x Hx) as [Q|(n & -> & Ln')]; [contradiction|].
           specialize (Ok (RObj (M_ n)) (or_introl eq_refl)). simpl in Ok. lia.
        -- intros y [<-|Hy]; [left; now left|]. destruct (Src y Hy) as [Q|Q]; [left; now right | now right].
      * destruct IH as (I2 & St & Fr & Pp & Eo). repeat (split; auto). now rewrite Eo.
    + destruct (new_missing w sd u) as [w1 m] eqn:NM.
      destruct (new_missing_InvS sd w u w1 m HI Hu NM) as (I1 & Om & Nm & St1 & Fr1).
      destruct (new_missing_spec _ _ _ _ _ NM) as (Hm & Hp & _ & _ & Hf & _).
      assert (Hu1 : u < nunits w1) by (destruct St1 as [A _ _ _ _]; lia).
      assert (Ok1 : forall a, In a xs -> rarg_okP w1 a).
      { intros b Hb. specialize (Ok b (or_intror Hb)). destruct b; simpl in *; auto. eapply stat_okP; eauto. }
      specialize (IH w1 I1 Hu1 Ok1).
      destruct (as_streams w1 sd u xs) as [w2 [ys|e]] eqn:E2; simpl in *.
      * destruct IH as (I2 & St & Fr & Pp & os & Eo & Ln & Oky & NDy & Src).
        split; [exact I2|]. split; [eapply stat_trans; eauto|]. split; [eapply frame_trans; eauto|].
        split; [intro v; rewrite Pp; apply Hp|].
        exists (None :: os). rewrite Eo. simpl. split; [reflexivity|]. split; [congruence|]. split; [|split].
        -- intros y [<-|Hy]; [|now apply Oky]. eapply stat_okP; [exact St | exact Om].
        -- intro ND. constructor; [|now apply NDy].
           intro Hx. destruct (Src m Hx) as [Q|(n & Q & Ln')].
           ++ assert (OO : forall y os', robj_list xs = Some os' -> In y (somes os') -> obj_okP w y).
              { clear - Ok. revert Ok. induction xs as [|b xs IHx]; intros Ok y os' E HI; simpl in E.
                - inversion E; subst. destruct HI.
                - destruct b as [z| |]; [| |discriminate].
                  + destruct (robj_list xs) as [o|]; [|discriminate]. inversion E; subst. simpl in HI.
                    destruct HI as [<-|HI]; [apply (Ok (RObj z)); right; now left|].
                    eapply IHx; [|reflexivity|exact HI]. intros a [Ha|Ha]; [apply Ok; now left | apply Ok; right; now right].
                  + destruct (robj_list xs) as [o|]; [|discriminate]. inversion E; subst. simpl in HI.
                    eapply IHx; [|reflexivity|exact HI]. intros a [Ha|Ha]; [apply Ok; now left | apply Ok; right; now right]. }
              specialize (OO m os Eo Q). rewrite Hm in OO. simpl in OO. lia.
           ++ rewrite Hm in Q. inversion Q. lia.
        -- intros y [<-|Hy]; [right; exists (fresh w); split; [exact Hm | lia]|].
           destruct (Src y Hy) as [Q|(n & Q & Ln')]; [now left | right; exists n; split; [exact Q | lia]].
      * destruct IH as (I2 & St & Fr & Pp & Eo).
        split; [exact I2|]. split; [eapply stat_trans; eauto|]. split; [eapply frame_trans; eauto|].
        split; [intro v; rewrite Pp; apply Hp | now rewrite Eo].
    + split; [exact HI|]. split; [apply stat_refl|]. split; [apply frame_refl|]. split; reflexivity.
Qed.
End Side4.

Section Side5.
Variable sd : side.
Notation good := (good sd).

Lemma set_streams_good u w lo hi xs :
  InvS sd w -> u < nunits w -> (forall a, In a xs -> rarg_okP w a) ->
  pre_slice w sd u lo hi xs = true -> good w (set_streams w sd u lo hi xs).
Proof.
  intros HI Hu Ok Pre. unfold set_streams.
  pose proof (as_streams_spec sd u xs w HI Hu Ok) as S.
  destruct (as_streams w sd u xs) as [w1 [ys|e]]; simpl in S.
  2:{ destruct S as (I1 & St & Fr & _). unfold fail, Proofs.good. simpl. auto. }
  destruct S as (I1 & St1 & Fr1 & Pp & os & Eo & Ln & Oky & NDy & Src).
  unfold pre_slice in Pre. rewrite Eo in Pre.
  rewrite <- (Pp u) in Pre. set (l := ports w1 sd u) in *.
  destruct (slice_bounds lo hi (length l)) as [a b] eqn:Eb.
  destruct (slice_bounds_ok _ _ _ _ _ Eb) as (Hab & Han & Hbn).
  apply andb_true_iff in Pre. destruct Pre as [Pre P3]. apply andb_true_iff in Pre. destruct Pre as [P1 P2].
  apply nodupb_NoDup in P1. rewrite forallb_forall in P2.
  set (l1 := firstn a l) in *. set (l2 := skipn b l) in *. set (olds := firstn (b - a) (skipn a l)).
  assert (EL : ports w1 sd u = l1 ++ olds ++ l2) by (apply slice_split; exact Hab).
  assert (Hu1 : u < nunits w1) by (destruct St1 as [A _ _ _ _]; lia).
  assert (Dis : forall y, In y ys -> ~ In y (l1 ++ l2)).
  { intros y Hy HIn. destruct (Src y Hy) as [Q|(n & -> & Ln')].
    - specialize (P2 y Q). apply negb_true_iff in P2. apply mem_false in P2. contradiction.
    - assert (In (M_ n) (ports w sd u)).
      { rewrite <- Pp. fold l. rewrite (slice_split l a b Hab). fold l1 l2 olds.
        apply in_app_or in HIn. apply in_or_app. destruct HIn; [now left | right; apply in_or_app; now right]. }
      apply (I_ok _ _ HI) in H. simpl in H. lia. }
  change (fold_left (fun w x => undock w sd x) olds w1) with (undock_all w1 sd olds).
  destruct (place_J sd u w1 l1 olds l2 ys (l1 ++ ys ++ l2) I1 Hu1 EL (NDy P1) Dis Oky) as (J4 & Fr4 & St4 & P4).
  { intros y Hy. apply in_or_app. right. apply in_or_app. now left. }
  { auto. }
  set (w4 := fold_left (fun w x => redock w sd u x) (l1 ++ ys ++ l2)
                (upd_ports (undock_all w1 sd olds) sd u (l1 ++ ys ++ l2))) in *.
  assert (Hu4 : u < nunits w4) by (destruct St4 as [A _ _ _ _]; lia).
  assert (Len : length (l1 ++ ys ++ l2) = length (l1 ++ l2) + length os) by (rewrite !app_length; lia).
  destruct (pfixed w4 sd u && (length (l1 ++ ys ++ l2) <? psize w4 sd u)) eqn:Pad.
  - apply andb_true_iff in Pad. destruct Pad as [Fx Lt]. apply Nat.ltb_lt in Lt.
    destruct (new_missings w4 sd u (psize w4 sd u - length (l1 ++ ys ++ l2))) as [w5 ms] eqn:NM.
    destruct (pend_news sd u _ w4 [] w5 ms J4 Hu4 (NoDup_nil _) (fun m (H : In m []) => match H with end) NM)
      as (J5 & ND5 & P5 & L5 & Fr5 & St5 & Pp5).
    assert (Hu5 : u < nunits w5) by (destruct St5 as [A _ _ _ _]; lia).
    pose proof (pend_flush sd u w5 ms J5 Hu5 ND5 P5) as J6.
    unfold ok, Proofs.good. simpl fst. split; [|split].
    + eapply J_Inv; [exact J6|]. intros _. rewrite ports_upd_ports_eq. cbn [psize upd_ports].
      rewrite Pp5, P4, app_length, L5. destruct St5 as [_ _ _ S4 _]. rewrite S4. lia.
    + eapply frame_trans; [exact Fr1|]. eapply frame_trans; [exact Fr4|]. eapply frame_trans; [exact Fr5 | apply frame_upd_ports].
    + eapply stat_trans; [exact St1|]. eapply stat_trans; [exact St4|]. destruct St5. constructor; auto.
  - unfold ok, Proofs.good. simpl fst. split; [|split].
    + eapply J_Inv; [exact J4|]. intro Fx. rewrite Fx in Pad. simpl in Pad. apply Nat.ltb_ge in Pad.
      rewrite P4. destruct St4 as [_ _ _ S4 S5]. destruct St1 as [_ _ _ S4' S5'].
      rewrite S5, S5' in Fx. rewrite Fx in P3. simpl in P3. apply Nat.leb_le in P3.
      rewrite S4, S4' in *. lia.
    + eapply frame_trans; eauto.
    + eapply stat_trans; eauto.
Qed.
End Side5.

(* ================================================================ both sides together *)
Definition Good (w : world) (r : outcome) : Prop := Inv (fst r) /\ stat w (fst r).

Lemma other_other sd : other (other sd) = sd.
Proof. now destruct sd. Qed.
Lemma InvS_side sd w : Inv w -> InvS sd w /\ InvS (other sd) w.
Proof. intros [A B]. destruct sd; simpl; auto. Qed.
Lemma Inv_of sd w : InvS sd w -> InvS (other sd) w -> Inv w.
Proof. destruct sd; simpl; intros; split; auto. Qed.

Lemma good_Good sd w r : Inv w -> good sd w r -> Good w r.
Proof.
  intros HI (A & B & C). split; [|exact C].
  apply (Inv_of sd); [exact A|]. eapply frame_InvS; [exact B|]. apply (InvS_side sd w HI).
Qed.
Lemma Good_same w e : Inv w -> Good w (w, e).
Proof. intro H. split; [exact H | apply stat_refl]. Qed.
Lemma Good_andthen w r f : Good w r ->
  (forall w1, fst r = w1 -> Inv w1 -> stat w w1 -> Good w1 (f w1)) -> Good w (andthen r f).
Proof.
  intros [A B] H. destruct r as [w1 [e|]]; simpl in *.
  - split; assumption.
  - destruct (H w1 eq_refl A B) as [A' B']. split; [exact A' | eapply stat_trans; eauto].
Qed.

Lemma rarg_ok_stat w w1 a : stat w w1 -> rarg_okP w a -> rarg_okP w1 a.
Proof. intros St H. destruct a; simpl in *; auto. eapply stat_okP; eauto. Qed.
Lemma resolve_ok w a : Inv w -> arg_ok w a = true -> rarg_okP w (resolve w a).
Proof.
  intros HI H. destruct a as [x|s u k| |]; [| | exact I | exact I].
  { simpl in H. apply andb_true_iff in H. destruct H as [_ H]. now apply obj_ok_P. }
  unfold resolve. destruct (ports w s u) as [|d t] eqn:E; [exact I|].
  destruct (InvS_side s w HI) as [IS _]. unfold rarg_okP. apply (I_ok _ _ IS u). rewrite E.
  apply nth_In. apply Nat.mod_upper_bound. simpl. lia.
Qed.
Lemma unit_ok_lt w u : unit_ok w u = true -> u < nunits w.
Proof. apply Nat.ltb_lt. Qed.

Lemma pre_slice_nil w sd u : pre_slice w sd u None None [] = true.
Proof.
  unfold pre_slice, slice_bounds. simpl. rewrite skipn_all. simpl.
  destruct (pfixed w sd u); reflexivity.
Qed.
Lemma robjs_ok sd w v : Inv w -> forall a, In a (robjs (ports w sd v)) -> rarg_okP w a.
Proof.
  intros HI a Ha. unfold robjs in Ha. apply in_map_iff in Ha. destruct Ha as (x & <- & Hx). simpl.
  destruct (InvS_side sd w HI) as [IS _]. eapply I_ok; eauto.
Qed.

Lemma join_ends_Good ios : forall w, Inv w -> (forall i o, In (i, o) ios -> rarg_okP w i) ->
  pre_join w ios = true -> Good w (join_ends w ios).
Proof.
  induction ios as [|[i [o|]] ios IH]; intros w HI Ok Pre; cbn [join_ends pre_join] in *.
  - now apply Good_same.
  - destruct (ptr w SIn o) as [v|] eqn:P.
    + apply andb_true_iff in Pre. destruct Pre as [P1 P2].
      destruct (InvS_side SIn w HI) as [IS _].
      apply Good_andthen.
      * apply (good_Good SIn); auto. apply replace_good; auto. eapply I_uptr; eauto. eapply Ok. now left.
      * intros w1 E I1 St. rewrite E in P2. apply IH; auto.
        intros i' o' H. eapply rarg_ok_stat; [exact St|]. eapply Ok. right. exact H.
    + apply IH; auto. intros i' o' H. eapply Ok. right. exact H.
  - now apply Good_same.
Qed.

Lemma disc_items_Good sd u its : forall w, Inv w -> u < nunits w -> Good w (disc_items w sd u its).
Proof.
  induction its as [|it t IH]; intros w HI Hu; cbn [disc_items].
  - now apply Good_same.
  - apply Good_andthen.
    + assert (G : forall i, Good w (set_stream w sd u i RNone)).
      { intro i. apply (good_Good sd); auto. apply set_stream_good; auto; [apply (InvS_side sd w HI) | exact I]. }
      destruct it as [i|x|]; [apply G | | now apply Good_same].
      destruct (is_real x); [|now apply Good_same].
      destruct (index_of x (ports w SIn u)); [apply G | now apply Good_same].
    + intros w1 _ I1 St1. apply IH; auto. destruct St1 as [A _ _ _ _]. lia.
Qed.
Lemma disc_side_Good sd u o w : Inv w -> u < nunits w -> Good w (disc_side w sd u o).
Proof.
  intros HI Hu. destruct o as [its|]; cbn [disc_side].
  - now apply disc_items_Good.
  - apply (good_Good sd); auto. apply set_streams_good; auto; [apply (InvS_side sd w HI) | intros a [] | apply pre_slice_nil].
Qed.
Lemma items_ok_P w o its : Inv w -> items_okb w o = true -> resolve_items w o = Some its ->
  forall it, In it its -> rarg_okP w (as_inlet it).
Proof.
  intros HI H E it Hit. destruct o as [l|]; [|discriminate]. simpl in E. inversion E; subst. clear E.
  apply in_map_iff in Hit. destruct Hit as (d & <- & Hd). simpl in H. rewrite forallb_forall in H. specialize (H d Hd).
  destruct d as [i|a]; simpl; [exact I|].
  pose proof (resolve_ok w a HI H) as R. destruct (resolve w a); simpl in *; auto.
Qed.

Lemma filter_real_ok sd w u : Inv w -> forall x, In x (filter is_real (ports w sd u)) -> obj_okP w x.
Proof.
  intros HI x Hx. apply filter_In in Hx. destruct Hx as [Hx _].
  destruct (InvS_side sd w HI) as [IS _]. eapply I_ok; eauto.
Qed.

Definition rport_okP (w : world) (p : rport) : Prop := match p with RPObj x => obj_okP w x | _ => True end.
Lemma resolve_port_ok w p : Inv w -> port_ok w p = true -> rport_okP w (resolve_port w p).
Proof.
  intros HI H. destruct p as [|i|a]; simpl; auto.
  pose proof (resolve_ok w a HI H) as R. destruct (resolve w a); simpl in *; auto.
Qed.
Lemma explicit_port_ok w u chk p y : Inv w -> rport_okP w p -> explicit_port w u chk p = Ok y -> obj_okP w y.
Proof.
  intros HI Op E. destruct p as [|i|x]; simpl in E; [discriminate| |].
  - destruct (norm_index i (length (ports w SOut u))) as [k|] eqn:Ek; [|discriminate]. inversion E; subst.
    destruct (InvS_side SOut w HI) as [IS _]. apply (I_ok _ _ IS u). apply nth_In. eapply norm_index_lt; eauto.
  - destruct (is_real x); [|discriminate]. destruct (ptr w chk x) as [v|]; [|discriminate].
    destruct (v =? u); inversion E; subst. exact Op.
Qed.

Definition proven (o : op) : bool :=
  match o with
  | OEmpty _ _ | OReplaceWith _ None | ONewUnit _ _ _ _ _ _ | OSetSliceStep _ _ _ _ _ _ => false
  | _ => true
  end.

Lemma take_place_Good w u v : Inv w -> u < nunits w -> pre_take_place_of w u v = true ->
  Good w (take_place_of w u v).
Proof.
  intros HI Hu Pre. unfold take_place_of. unfold pre_take_place_of in Pre.
  apply andb_true_iff in Pre. destruct Pre as [P1 P2].
  apply Good_andthen.
  - apply (good_Good SIn); auto. apply set_streams_good; auto.
    + apply (InvS_side SIn w HI).
    + apply robjs_ok. exact HI.
  - intros w1 E I1 St. rewrite E in P2. apply (good_Good SOut); auto. apply set_streams_good; auto.
    + apply (InvS_side SOut w1 I1).
    + destruct St as [A _ _ _ _]. lia.
    + apply robjs_ok. exact I1.
Qed.

Theorem step_Inv w o : Inv w -> wfb w o = true -> preb w o = true -> proven o = true ->
  Good w (step w o).
Proof.
  intros HI Wf Pre Pr. unfold step.
  destruct o; cbn [wfb preb proven] in Wf, Pre, Pr; try discriminate; cbn [step_with];
    repeat match goal with H : _ && _ = true |- _ => apply andb_true_iff in H; destruct H end;
    repeat match goal with H : unit_ok _ _ = true |- _ => apply unit_ok_lt in H end.
  - (* OSet *) apply (good_Good sd); auto. apply set_stream_good; auto; [apply (InvS_side sd w HI) | now apply resolve_ok].
  - (* OSetSlice *) apply (good_Good sd); auto. apply set_streams_good; auto; [apply (InvS_side sd w HI)|].
    intros a Ha. apply in_map_iff in Ha. destruct Ha as (b & <- & Hb). apply resolve_ok; auto.
    rewrite forallb_forall in H0. auto.
  - (* OInsert *) apply (good_Good sd); auto. apply insert_stream_good; auto; [apply (InvS_side sd w HI) | now apply resolve_ok].
  - (* OAppend *) apply (good_Good sd); auto. apply insert_stream_good; auto; [apply (InvS_side sd w HI) | now apply resolve_ok].
  - (* OExtend *) unfold extend. unfold pre_extend in Pre.
    destruct (pfixed w sd u) eqn:Fx; [now apply Good_same|]. simpl in Pre.
    apply andb_true_iff in Pre. destruct Pre as [P1 P2]. apply nodupb_NoDup in P1. rewrite forallb_forall in P2.
    apply (good_Good sd); auto. apply extend_streams_good; auto; [apply (InvS_side sd w HI) | |].
    + intros a Ha. apply in_map_iff in Ha. destruct Ha as (b & <- & Hb). apply resolve_ok; auto.
      rewrite forallb_forall in H0. auto.
    + intros x Hx. specialize (P2 x Hx). destruct (ptr w sd x); [discriminate | reflexivity].
  - (* OReplace *) apply (good_Good sd); auto. apply replace_good; auto; [apply (InvS_side sd w HI) | now apply resolve_ok].
  - (* OPop *) apply (good_Good sd); auto. apply pop_good; auto. apply (InvS_side sd w HI).
  - (* ORemove *) apply (good_Good sd); auto. apply remove_good; auto. apply (InvS_side sd w HI).
  - (* OClear *) apply negb_true_iff in Pre. apply (good_Good sd); auto. apply clear_var_good; auto. apply (InvS_side sd w HI).
  - (* ODisc *) apply (good_Good sd); auto. apply disconnect_side_good. apply (InvS_side sd w HI).
  - (* ODiscBoth *) apply Good_andthen.
    + apply (good_Good SOut); auto. apply disconnect_side_good. apply (InvS_side SOut w HI).
    + intros w1 _ I1 _. apply (good_Good SIn); auto. apply disconnect_side_good. apply (InvS_side SIn w1 I1).
  - (* OPipeUU *) apply (good_Good SIn); auto. apply set_streams_good; auto; [apply (InvS_side SIn w HI) | apply robjs_ok; exact HI].
  - (* OUnitDisconnect *) unfold unit_disconnect.
    set (ri := resolve_items w pi) in *. set (ro := resolve_items w po) in *.
    apply Good_andthen; [now apply disc_side_Good|].
    intros w1 E1 I1 St1. apply Good_andthen; [apply disc_side_Good; auto; destruct St1 as [A _ _ _ _]; lia|].
    intros w2 E2 I2 St2. destruct join; [|now apply Good_same].
    cbv zeta in Pre. rewrite E1, E2 in Pre.
    destruct (negb (join_len_ok w w1 u ri ro)) eqn:Ln; [now apply Good_same|]. simpl in Pre.
    apply join_ends_Good; auto.
    intros i o Hio. unfold join_list in Hio. apply in_combine_l in Hio.
    apply (rarg_ok_stat w w2); [eapply stat_trans; [exact St1 | exact St2]|].
    destruct ri as [its|] eqn:Eri.
    + apply in_map_iff in Hio. destruct Hio as (it & <- & Hit). eapply (items_ok_P w pi its); eauto.
    + apply in_map_iff in Hio. destruct Hio as (x & <- & Hx). simpl. eapply filter_real_ok; eauto.
  - (* OUnitInsert *) unfold unit_insert.
    assert (Ra0 : rarg_okP w (resolve w a)) by (apply resolve_ok; assumption).
    destruct (resolve w a) as [s| |] eqn:Ra; try now apply Good_same.
    apply andb_true_iff in Pre. destruct Pre as [Po Pi].
    assert (Oro : rport_okP w (resolve_port w pout)) by (apply resolve_port_ok; assumption).
    assert (Ori : rport_okP w (resolve_port w pin)) by (apply resolve_port_ok; assumption).
    set (ro := resolve_port w pout) in *. set (ri := resolve_port w pin) in *.
    unfold pre_insert_out in Po. destruct (ptr w SIn s) as [v|] eqn:Psi; [|discriminate].
    assert (Vlt : v < nunits w) by (destruct (InvS_side SIn w HI) as [IS _]; eapply I_uptr; eauto).
    assert (Add : match ro with RPNone => negb (pfixed w SOut u) | _ => false end = false).
    { destruct ro; auto. apply andb_true_iff in Po. destruct Po as [Po _]. apply andb_true_iff in Po.
      destruct Po as [Q1 _]. now rewrite Q1. }
    rewrite Add.
    apply Good_andthen.
    + unfold insert_out. rewrite Psi.
      assert (EX : forall y, explicit_port w u SOut ro = Ok y -> pre_replace w SIn v (RObj s) (RObj y) = true ->
                   Good w (replace w SIn v (RObj s) (RObj y))).
      { intros y Ex Pr'. apply (good_Good SIn); auto. apply replace_good; auto; [apply (InvS_side SIn w HI)|].
        exact (explicit_port_ok w u SOut ro y HI Oro Ex). }
      destruct ro as [|i|x] eqn:Ero.
      * apply andb_true_iff in Po. destruct Po as [Po P3]. apply andb_true_iff in Po. destruct Po as [Q1 Q2].
        rewrite Q1, Q2. destruct (hd_arg (ports w SOut u)) as [y|] eqn:Hy; [|discriminate].
        apply (good_Good SIn); auto. apply replace_good; auto; [apply (InvS_side SIn w HI)|].
        destruct (ports w SOut u) as [|y' t'] eqn:E; [discriminate|]. simpl in Hy. inversion Hy; subst.
        destruct (InvS_side SOut w HI) as [IS _]. apply (I_ok _ _ IS u). rewrite E. now left.
      * destruct (explicit_port w u SOut (RPIndex i)) as [y|e] eqn:Ex; [|discriminate]. now apply EX.
      * destruct (explicit_port w u SOut (RPObj x)) as [y|e] eqn:Ex; [|discriminate]. now apply EX.
    + intros w1 E1 I1 St1. rewrite E1 in Pi.
      pose proof (St_nunits _ _ St1) as S1.
      assert (SRC : forall t z, ptr w SOut s = Some t -> obj_okP w1 z -> pre_replace w1 SOut t (RObj s) (RObj z) = true ->
                    Good w1 (replace w1 SOut t (RObj s) (RObj z))).
      { intros t z Pt Oz Pr'. apply (good_Good SOut); auto. apply replace_good; auto; [apply (InvS_side SOut w1 I1)|].
        destruct (InvS_side SOut w HI) as [IS _]. rewrite S1. eapply I_uptr; eauto. }
      assert (Ori1 : rport_okP w1 ri) by (destruct ri; simpl in *; auto; eapply stat_okP; eauto).
      unfold insert_in, pre_insert_in in *. destruct ri as [|i|x] eqn:Eri.
      * rewrite orb_false_r. destruct (pfixed w1 SIn u) eqn:Fx1.
        -- apply andb_true_iff in Pi. destruct Pi as [Q3 Pi]. rewrite Q3.
           destruct (ptr w SOut s) as [t|] eqn:Pt; [|discriminate].
           destruct (hd_arg (ports w1 SIn u)) as [z|] eqn:Hz; [|now apply Good_same].
           apply (SRC t z eq_refl); auto.
           destruct (InvS_side SIn w1 I1) as [IS _]. apply (I_ok _ _ IS u).
           destruct (ports w1 SIn u) as [|z' t'] eqn:E; [discriminate|]. simpl in Hz. inversion Hz. now left.
        -- apply (good_Good SIn); auto. apply insert_stream_good; auto; [apply (InvS_side SIn w1 I1) | lia |].
           eapply (rarg_ok_stat w w1 (RObj s)); eauto.
      * destruct (explicit_port w1 u SIn (RPIndex i)) as [z|e] eqn:Ex; [|discriminate].
        destruct (ptr w SOut s) as [t|] eqn:Pt; [|discriminate].
        apply (SRC t z eq_refl); auto. eapply explicit_port_ok; eauto.
      * destruct (explicit_port w1 u SIn (RPObj x)) as [z|e] eqn:Ex; [|discriminate].
        destruct (ptr w SOut s) as [t|] eqn:Pt; [|discriminate].
        apply (SRC t z eq_refl); auto. eapply explicit_port_ok; eauto.
  - (* OTakePlaceOf *) now apply take_place_Good.
  - (* OReplaceWith (Some v) *) destruct v as [v|]; [|discriminate]. cbn [replace_with].
    apply take_place_Good; auto. apply unit_ok_lt; assumption.
  - (* OReconnect *) unfold reconnect.
    assert (Ra : rarg_okP w (resolve w a)) by (apply resolve_ok; assumption).
    assert (Hsrc : match src with Some t => t < nunits w | None => True end).
    { destruct src; [apply unit_ok_lt; assumption | exact I]. }
    assert (Hsnk : match snk with Some v => v < nunits w | None => True end).
    { destruct snk; [apply unit_ok_lt; assumption | exact I]. }
    assert (PA : match src with Some t => pre_set w SOut t si (resolve w a) = true | None => True end).
    { destruct src; [assumption | exact I]. }
    assert (PB : forall w1, fst (match src with
                                 | Some t => set_stream w SOut t si (resolve w a)
                                 | None => disconnect_side w SOut (resolve w a)
                                 end) = w1 ->
                 match snk with Some v => pre_set w1 SIn v ki (resolve w a) = true | None => True end).
    { intros w1 E. destruct snk; [|exact I]. rewrite <- E. assumption. }
    apply Good_andthen.
    + destruct src as [t|].
      * apply (good_Good SOut); auto. apply set_stream_good; auto. apply (InvS_side SOut w HI).
      * apply (good_Good SOut); auto. apply disconnect_side_good. apply (InvS_side SOut w HI).
    + intros w1 E1 I1 St1. specialize (PB w1 E1). destruct snk as [v|].
      * apply (good_Good SIn); auto. apply set_stream_good; auto.
        -- apply (InvS_side SIn w1 I1).
        -- destruct St1 as [A _ _ _ _]. lia.
        -- eapply rarg_ok_stat; eauto.
      * apply (good_Good SIn); auto. apply disconnect_side_good. apply (InvS_side SIn w1 I1).
Qed.

(* ================================================================ creating a unit whose ports are all missing *)
Lemma frame_J sd u w w' : frame sd w w' -> J sd u [] w -> J sd u [] w'.
Proof.
  intros [A B C D E G H K] [a b c d e f g h k]. constructor.
  - intros v x HI. rewrite A in HI. left. rewrite B; [|eauto]. destruct (a v x HI) as [Q|[_ []]]. exact Q.
  - intros v n P. rewrite A. rewrite B in P; [auto | simpl].
    destruct (Nat.lt_ge_cases n (nreal w)) as [L|L]; [assumption|].
    destruct (C (S_ n)) as [Q|Q]; rewrite Q in P; [rewrite f in P by assumption|]; discriminate.
  - intro v. rewrite A. apply c.
  - intros v N Hf. rewrite A, H. rewrite K in Hf. auto.
  - intros v x HI. rewrite A in HI. eapply okP_mono; [| |eauto]; lia.
  - intros n L. destruct (C (S_ n)) as [Q|Q]; rewrite Q; [apply f; lia | reflexivity].
  - intros v L. rewrite A. apply g. lia.
  - intros x v P. destruct (C x) as [Q|Q]; rewrite Q in P; [rewrite G; eauto | discriminate].
  - intros x [].
Qed.

Lemma init_missing_fresh sd u w : J sd u [] w -> ports w sd u = [] -> u < nunits w ->
  J sd u [] (init_missing w sd u) /\ length (ports (init_missing w sd u) sd u) = psize w sd u /\
  frame (other sd) w (init_missing w sd u) /\ stat w (init_missing w sd u).
Proof.
  intros HJ E Hu. unfold init_missing.
  destruct (new_missings w sd u (psize w sd u)) as [w5 ms] eqn:NM.
  destruct (pend_news sd u _ w [] w5 ms HJ Hu (NoDup_nil _) (fun m (H : In m []) => match H with end) NM)
    as (J5 & ND5 & P5 & L5 & Fr5 & St5 & Pp5).
  assert (Hu5 : u < nunits w5) by (destruct St5 as [A _ _ _ _]; lia).
  pose proof (pend_flush sd u w5 ms J5 Hu5 ND5 P5) as J6.
  rewrite Pp5, E in J6. simpl in J6, ND5.
  split; [exact J6|]. split; [rewrite ports_upd_ports_eq; exact L5|].
  split; [eapply frame_trans; [exact Fr5 | apply frame_upd_ports]|].
  destruct St5. constructor; auto.
Qed.

Lemma new_unit_none_Inv w nin nout fin fout : Inv w ->
  Inv (fst (new_unit w nin nout fin fout FNone FNone)).
Proof.
  intros [HI HO]. unfold new_unit. set (u := nunits w).
  set (w0 := mkW (ports w)
                (fun sd v => if v =? u then (match sd with SIn => nin | SOut => nout end) else psize w sd v)
                (fun sd v => if v =? u then (match sd with SIn => fin | SOut => fout end) else pfixed w sd v)
                (ptr w) (fresh w) (nreal w) (S u)).
  assert (J0 : forall sd, InvS sd w -> J sd u [] w0).
  { intros sd [A B C D E F G H]. constructor.
    - intros v x HIn. left. apply A. exact HIn.
    - exact B.
    - exact C.
    - intros v N. unfold w0; simpl. apply Nat.eqb_neq in N. rewrite N. apply D.
    - exact E.
    - exact F.
    - intros v L. apply G. simpl in L. unfold u in *. lia.
    - intros x v P. simpl. apply H in P. unfold u. lia.
    - intros x []. }
  assert (P0 : forall sd, InvS sd w -> ports w0 sd u = []).
  { intros sd IS. apply (I_units _ _ IS). unfold u. lia. }
  assert (Hu0 : u < nunits w0) by (simpl; lia).
  assert (IP : forall w' sd, init_ports w' sd u FNone = ok (init_missing w' sd u)).
  { intros w' sd. unfold init_ports. destruct (pfixed w' sd u); reflexivity. }
  rewrite IP.
  destruct (init_missing_fresh SIn u w0 (J0 SIn HI) (P0 SIn HI) Hu0) as (J1 & L1 & Fr1 & St1).
  set (w1 := init_missing w0 SIn u) in *. cbn [ok].
  rewrite IP. cbn [ok fst].
  assert (JO1 : J SOut u [] w1) by (eapply frame_J; [exact Fr1 | exact (J0 SOut HO)]).
  assert (PO1 : ports w1 SOut u = []) by (rewrite (F_ports _ _ _ Fr1); exact (P0 SOut HO)).
  assert (Hu1 : u < nunits w1) by (destruct St1 as [A _ _ _ _]; lia).
  destruct (init_missing_fresh SOut u w1 JO1 PO1 Hu1) as (J2 & L2 & Fr2 & St2).
  split.
  - eapply frame_InvS; [exact Fr2|]. eapply J_Inv; [exact J1|]. intros _. rewrite L1.
    destruct St1 as [_ _ _ S4 _]. now rewrite S4.
  - eapply J_Inv; [exact J2|]. intros _. rewrite L2. destruct St2 as [_ _ _ S4 _]. now rewrite S4.
Qed.

Lemma Inv_empty k : Inv (empty_world k).
Proof.
  split; constructor; simpl; intros; try tauto; try discriminate; try constructor.
Qed.

(* ================================================================ histories *)
Definition provenb (o : op) : bool :=
  match o with
  | ONewUnit _ _ _ _ FNone FNone => true
  | _ => proven o
  end.

Theorem step_Inv' w o : Inv w -> wfb w o = true -> preb w o = true -> provenb o = true ->
  Inv (fst (step w o)).
Proof.
  intros HI Wf Pre Pr.
  destruct (proven o) eqn:E.
  - now apply step_Inv.
  - destruct o; try discriminate;
      try (match goal with v : option nat |- _ => destruct v; simpl in *; discriminate end).
    repeat match goal with f : form |- _ => destruct f; try discriminate end.
    apply new_unit_none_Inv. exact HI.
Qed.

Fixpoint within (w : world) (ops : list op) : Prop :=
  match ops with
  | [] => True
  | o :: t => wfb w o = true /\ preb w o = true /\ provenb o = true /\ within (fst (step w o)) t
  end.

Theorem history_Inv ops : forall w, Inv w -> within w ops -> Inv (run w ops).
Proof.
  unfold run. induction ops as [|o t IH]; intros w HI HW; simpl.
  - exact HI.
  - destruct HW as (Wf & Pre & Pr & HW). apply IH; [|exact HW]. now apply step_Inv'.
Qed.

(* ================================================================ the decidable form of the invariant is implied by it *)
Lemma InvS_sideb sd w : InvS sd w -> inv_sideb w sd = true.
Proof.
  intros [A B C D E F G H]. unfold inv_sideb. apply andb_true_iff. split.
  - apply forallb_forall. intros u _. apply andb_true_iff. split; [apply andb_true_iff; split|].
    + apply forallb_forall. intros x Hx. rewrite (A u x Hx). simpl. apply Nat.eqb_refl.
    + apply nodupb_NoDup. apply C.
    + destruct (pfixed w sd u) eqn:Fx; simpl; [|reflexivity]. apply Nat.eqb_eq. now apply D.
  - apply forallb_forall. intros n _. destruct (ptr w sd (S_ n)) as [u|] eqn:P; [|reflexivity].
    apply mem_In. now apply B.
Qed.
Lemma Inv_invb w : Inv w -> invb w = true.
Proof. intros [A B]. unfold invb. now rewrite (InvS_sideb SIn w A), (InvS_sideb SOut w B). Qed.
Lemma not_Inv w : invb w = false -> ~ Inv w.
Proof. intros H HI. apply Inv_invb in HI. congruence. Qed.

(* ================================================================ what the invariant says, in the property's words *)
Lemma Inv_meaning w : Inv w ->
  (forall u s, In (S_ s) (ports w SIn u) <-> ptr w SIn (S_ s) = Some u) /\
  (forall u s, In (S_ s) (ports w SOut u) <-> ptr w SOut (S_ s) = Some u) /\
  (forall sd u, NoDup (ports w sd u)) /\
  (forall sd u v x, In x (ports w sd u) -> In x (ports w sd v) -> u = v) /\
  (forall sd u, pfixed w sd u = true -> length (ports w sd u) = psize w sd u) /\
  (forall sd u m, In (M_ m) (ports w sd u) -> ptr w sd (M_ m) = Some u /\ is_real (M_ m) = false).
Proof.
  intros [HI HO].
  assert (S : forall sd, InvS sd w) by (intros []; assumption).
  split; [|split; [|split; [|split; [|split]]]].
  - intros u s. split; [apply (I_ptr _ _ HI) | apply (I_real _ _ HI)].
  - intros u s. split; [apply (I_ptr _ _ HO) | apply (I_real _ _ HO)].
  - intros sd u. apply (I_nodup _ _ (S sd)).
  - intros sd u v x H1 H2. apply (I_ptr _ _ (S sd)) in H1. apply (I_ptr _ _ (S sd)) in H2. congruence.
  - intros sd u. apply (I_len _ _ (S sd)).
  - intros sd u m H. split; [now apply (I_ptr _ _ (S sd)) | reflexivity].
Qed.

(* a vacated port holds a new placeholder and the list keeps its length *)
Lemma remove_vacates sd w u x k : index_of x (ports w sd u) = Some k ->
  ports (fst (remove w sd u (RObj x))) sd u = upd (ports w sd u) k (M_ (fresh w)).
Proof.
  intro E. unfold remove, new_missing. cbn [replace ports bump_fresh upd_ptr]. rewrite E.
  unfold set_stream, as_stream. cbn [ports bump_fresh upd_ptr length].
  destruct (index_of_split _ _ _ E) as (l1 & l2 & EL & Lk & _).
  assert (Lt : k < length (ports w sd u)) by (rewrite EL, app_length; simpl; lia).
  rewrite (norm_index_of_nat k _ Lt). cbn [ok fst]. rewrite ports_upd_ports_eq.
  destruct (redock_misc sd u (M_ (fresh w))
             (undock (bump_fresh (upd_ptr (upd_ptr w sd (M_ (fresh w)) (Some u)) (other sd) (M_ (fresh w)) None)) sd
                     (nth k (ports w sd u) (M_ (fresh w))))) as (_ & _ & Pu).
  rewrite Pu. reflexivity.
Qed.


(* ================================================================ empty() and replace_with(None) *)


Lemma new_missing_comm sd u L v w :
  new_missing (upd_ports w sd u L) sd v = (upd_ports (fst (new_missing w sd v)) sd u L, snd (new_missing w sd v)).
Proof. reflexivity. Qed.
Lemma new_missings_comm sd u L v n : forall w,
  new_missings (upd_ports w sd u L) sd v n =
  (upd_ports (fst (new_missings w sd v n)) sd u L, snd (new_missings w sd v n)).
Proof.
  induction n as [|n IH]; intro w; [reflexivity|].
  cbn [new_missings]. rewrite new_missing_comm.
  destruct (new_missing w sd v) as [w1 m]. cbn [fst snd]. rewrite IH.
  destruct (new_missings w1 sd v n) as [w2 ms]. reflexivity.
Qed.
Lemma upd_ports_twice sd u L L' w : weq (upd_ports (upd_ports w sd u L) sd u L') (upd_ports w sd u L').
Proof.
  constructor; intros; try reflexivity. unfold upd_ports; simpl.
  destruct (side_eqb s sd && (v =? u)); reflexivity.
Qed.
Lemma weq_sym w w' : weq w w' -> weq w' w.
Proof. intros [A B C D E F G]. constructor; intros; symmetry; auto. Qed.

Lemma empty_good sd u w : InvS sd w -> u < nunits w -> good sd w (empty w sd u).
Proof.
  intros HI Hu. unfold empty, ok, good. cbn [fst].
  set (l := ports w sd u). set (B := undock_all w sd l).
  pose proof (slice_J sd u w [] l [] [] HI Hu) as J0.
  assert (JA : J sd u [] (upd_ports B sd u ([] ++ [] ++ []))).
  { apply J0; [unfold l; now rewrite app_nil_r | constructor | intros y [] | intros y []]. }
  simpl app in JA. set (A := upd_ports B sd u []) in *.
  destruct (undock_all_misc sd l w) as (Po & St & Fr & Frm). fold B in Po, St, Fr, Frm.
  assert (HuA : u < nunits A) by (destruct St as [S1 _ _ _ _]; simpl; lia).
  destruct (init_missing_fresh sd u A JA (ports_upd_ports_eq sd B u []) HuA) as (J1 & L1 & Fr1 & St1).
  assert (WQ : weq (init_missing A sd u) (init_missing B sd u)).
  { unfold init_missing, A. rewrite new_missings_comm. cbn [psize upd_ports].
    destruct (new_missings B sd u (psize B sd u)) as [B5 ms]. cbn [fst snd]. apply upd_ports_twice. }
  assert (IA : InvS sd (init_missing A sd u)).
  { eapply J_Inv; [exact J1|]. intros _. rewrite L1. destruct St1 as [_ _ _ S4 _]. now rewrite S4. }
  split; [|split].
  - eapply weq_InvS; eauto.
  - eapply weq_frame; [exact WQ|]. eapply frame_trans; [exact Frm|]. eapply frame_trans; [apply frame_upd_ports | exact Fr1].
  - eapply weq_stat; [exact WQ|]. eapply stat_trans; [exact St|]. eapply stat_trans; [|exact St1]. constructor; auto.
Qed.

(* ================================================================ replace_with(None) *)
Lemma bypass_Good ios : forall w, Inv w -> (forall i o, In (i, o) ios -> obj_okP w i /\ obj_okP w o) ->
  pre_bypass w ios = true -> Good w (bypass w ios).
Proof.
  induction ios as [|[i o] ios IH]; intros w HI Ok Pre; cbn [bypass pre_bypass] in *.
  - now apply Good_same.
  - assert (Oki : obj_okP w i /\ obj_okP w o) by (apply Ok; now left).
    assert (Ok' : forall w1, stat w w1 -> forall i' o', In (i', o') ios -> obj_okP w1 i' /\ obj_okP w1 o').
    { intros w1 St i' o' H. destruct (Ok i' o' (or_intror H)). split; eapply stat_okP; eauto. }
    destruct (ptr w SOut i) as [src|] eqn:P.
    + apply andb_true_iff in Pre. destruct Pre as [P1 P2].
      destruct (InvS_side SOut w HI) as [IS _].
      apply Good_andthen.
      * apply (good_Good SOut); auto. apply replace_good; auto; [eapply I_uptr; eauto | apply Oki].
      * intros w1 E I1 St. rewrite E in P2. apply IH; auto.
    + destruct (ptr w SIn o) as [snk|] eqn:Q.
      * apply andb_true_iff in Pre. destruct Pre as [P1 P2].
        destruct (InvS_side SIn w HI) as [IS _].
        apply Good_andthen.
        -- apply (good_Good SIn); auto. apply replace_good; auto; [eapply I_uptr; eauto | apply Oki].
        -- intros w1 E I1 St. rewrite E in P2. apply IH; auto.
      * apply IH; auto. apply (Ok' w (stat_refl w)).
Qed.

Lemma replace_with_none_Good w u : Inv w -> u < nunits w ->
  pre_bypass w (combine (ports w SIn u) (ports w SOut u)) = true -> Good w (replace_with w u None).
Proof.
  intros HI Hu Pre. unfold replace_with.
  apply Good_andthen.
  - apply bypass_Good; auto. intros i o H. split.
    + apply in_combine_l in H. destruct (InvS_side SIn w HI) as [IS _]. eapply I_ok; eauto.
    + apply in_combine_r in H. destruct (InvS_side SOut w HI) as [IS _]. eapply I_ok; eauto.
  - intros w1 _ I1 St1. apply Good_andthen.
    + apply (good_Good SIn); auto. apply empty_good; [apply (InvS_side SIn w1 I1) | destruct St1 as [A _ _ _ _]; lia].
    + intros w2 _ I2 St2. apply (good_Good SOut); auto. apply empty_good; [apply (InvS_side SOut w2 I2)|].
      destruct St1 as [A _ _ _ _]. destruct St2 as [A' _ _ _ _]. lia.
Qed.



(* ================================================================ unit construction with given inlets / outlets *)
Lemma weq_J sd u R w w' : weq w w' -> J sd u R w -> J sd u R w'.
Proof.
  intros [A B C D E F G] [a b c d e f g h k]. constructor.
  - intros v x. rewrite A, B. apply a.
  - intros v n. rewrite A, B. apply b.
  - intro v. rewrite A. apply c.
  - intros v. rewrite A, C, D. apply d.
  - intros v x. rewrite A. intro HI. apply e in HI. destruct x; simpl in *; congruence.
  - intro n. rewrite F, B. apply f.
  - intro v. rewrite G, A. apply g.
  - intros x v. rewrite B, G. apply h.
  - intros x Hx. rewrite A. now apply k.
Qed.

Record stat2 (w w' : world) : Prop := mkStat2 {
  S2_nunits : nunits w' = nunits w;
  S2_nreal  : nreal w <= nreal w';
  S2_fresh  : fresh w <= fresh w';
  S2_psize  : forall s v, psize w' s v = psize w s v;
  S2_pfixed : forall s v, pfixed w' s v = pfixed w s v
}.
Lemma stat_stat2 w w' : stat w w' -> stat2 w w'.
Proof. intros [A B C D E]. constructor; auto. lia. Qed.
Lemma stat2_refl w : stat2 w w.
Proof. constructor; auto. Qed.
Lemma stat2_trans w1 w2 w3 : stat2 w1 w2 -> stat2 w2 w3 -> stat2 w1 w3.
Proof. intros [A B C D E] [A' B' C' D' E']. constructor; try congruence; try lia; intros; rewrite ?D', ?E'; auto. Qed.
Lemma stat2_okP w w' x : stat2 w w' -> obj_okP w x -> obj_okP w' x.
Proof. intros [A B C D E]. apply okP_mono; lia. Qed.

Section Ctor.
Variable sd : side.
Variable u : nat.

(* the invariant of the world whose list of u is (virtually) L *)
Definition Jv (R L : list obj) (w : world) : Prop := J sd u R (upd_ports w sd u L).

Lemma Jv_of_J w L : J sd u [] w -> ports w sd u = L -> Jv [] L w.
Proof.
  intros HJ E. unfold Jv. eapply weq_J; [|exact HJ].
  constructor; intros; try reflexivity. unfold upd_ports; simpl.
  destruct (side_eqb s sd) eqn:Es; simpl; [|reflexivity]. apply side_eqb_eq in Es. subst s.
  destruct (v =? u) eqn:Ev; [|reflexivity]. apply Nat.eqb_eq in Ev. subst v. now rewrite E.
Qed.

Lemma redock_Jv x R L w : Jv (x :: R) L w -> u < nunits w -> obj_okP w x -> Jv R L (redock w sd u x).
Proof.
  intros HJ Hu Hx. unfold Jv in *. eapply weq_J; [apply redock_comm|]. apply redock_J; auto.
Qed.

Lemma J_add W l1 l2 x : J sd u [] W -> u < nunits W -> ports W sd u = l1 ++ l2 -> ~ In x (l1 ++ l2) -> obj_okP W x ->
  J sd u [x] (upd_ports W sd u (l1 ++ [x] ++ l2)).
Proof.
  intros [A B C D E F G H K] Hu EL NI Ok. constructor.
  - intros v y. rewrite ports_upd_ports. destruct (v =? u) eqn:Ev.
    + apply Nat.eqb_eq in Ev. subst v. intro HI. destruct (obj_dec y x) as [->|N]; [right; split; [reflexivity | now left]|].
      left. destruct (A u y) as [Q|[_ []]]; [|exact Q]. rewrite EL. apply in_app_or in HI. apply in_or_app.
      destruct HI as [HI|[HI|HI]]; [now left | congruence | now right].
    + intro HI. destruct (A v y HI) as [Q|[_ []]]. now left.
  - intros v n Q. apply B in Q. rewrite ports_upd_ports. destruct (v =? u) eqn:Ev; [|exact Q].
    apply Nat.eqb_eq in Ev. subst v. rewrite EL in Q. apply in_app_or in Q. apply in_or_app.
    destruct Q; [now left | right; right; assumption].
  - intro v. rewrite ports_upd_ports. destruct (v =? u); [|apply C].
    pose proof (C u) as ND. rewrite EL in ND. apply NoDup_app_iff in ND. destruct ND as (N1 & N2 & N3).
    apply NoDup_app_iff. split; [exact N1|]. split.
    + constructor; [intro Q; apply NI; apply in_or_app; now right | exact N2].
    + intros y Hy [<-|Hy']; [apply NI; apply in_or_app; now left | now apply (N3 y)].
  - intros v N. rewrite ports_upd_ports_neq by assumption. now apply D.
  - intros v y. rewrite ports_upd_ports. destruct (v =? u); [|apply E].
    intro HI. apply in_app_or in HI. destruct HI as [HI|[<-|HI]]; [|exact Ok|];
      apply (E u); rewrite EL; apply in_or_app; [now left | now right].
  - exact F.
  - intros v L. rewrite ports_upd_ports. simpl in L. destruct (v =? u) eqn:Ev; [|now apply G].
    apply Nat.eqb_eq in Ev. subst v. lia.
  - exact H.
  - intros y [<-|[]]. rewrite ports_upd_ports_eq. apply in_or_app. right. now left.
Qed.

Lemma Jv_add w l1 l2 x : Jv [] (l1 ++ l2) w -> u < nunits w -> ~ In x (l1 ++ l2) -> obj_okP w x ->
  Jv [x] (l1 ++ [x] ++ l2) w.
Proof.
  intros HJ Hu NI Ok. unfold Jv in *. eapply weq_J; [apply (upd_ports_twice sd u (l1 ++ l2))|].
  apply J_add; [exact HJ | exact Hu | apply ports_upd_ports_eq | exact NI | exact Ok].
Qed.

Lemma J_R_drop x R w : J sd u (x :: R) w -> ptr w sd x = Some u -> J sd u R w.
Proof.
  intros [A B C D E F G H K] P. constructor; auto.
  - intros v y HI. destruct (A v y HI) as [Q|[Q [<-|R']]]; auto. subst. now left.
  - intros y Hy. apply K. now right.
Qed.

Lemma redock_ptr_real x n w : S_ n <> x -> ptr (redock w sd u x) sd (S_ n) = ptr w sd (S_ n).
Proof.
  intro N. unfold redock. destruct (ptr w sd x) as [v|]; [|unfold dock; now rewrite ptr_upd_ptr_neq].
  destruct (v =? u); [reflexivity|].
  destruct (mem x (ports w sd v)); [|unfold dock; now rewrite ptr_upd_ptr_neq].
  unfold dock. rewrite ptr_upd_ptr_neq by assumption.
  unfold vacate, new_missing. cbn [ports bump_fresh upd_ptr].
  destruct (index_of x (ports w sd v)); unfold undock, upd_ports, upd_ptr, bump_fresh; cbn [ptr];
    rewrite ?side_eqb_refl, ?side_eqb_other'; cbn [andb];
    try (apply obj_eqb_neq in N; rewrite N); reflexivity.
Qed.

(* ---- the three kinds of constructor items, acting on the virtual list acc ++ T *)
Lemma step_real w acc T n :
  Jv [] (acc ++ T) w -> u < nunits w -> n < nreal w -> ptr w sd (S_ n) <> Some u ->
  Jv [] (acc ++ [S_ n] ++ T) (redock w sd u (S_ n)) /\
  frame (other sd) w (redock w sd u (S_ n)) /\ stat w (redock w sd u (S_ n)) /\
  ports (redock w sd u (S_ n)) sd u = ports w sd u.
Proof.
  intros HJ Hu Hn Np.
  assert (NI : ~ In (S_ n) (acc ++ T)).
  { intro HI. apply Np. destruct (J_ptr _ _ _ _ HJ u (S_ n)) as [Q|[_ []]]; [|exact Q].
    now rewrite ports_upd_ports_eq. }
  destruct (redock_misc sd u (S_ n) w) as (Fr & St & Pu).
  split; [|auto]. apply redock_Jv; auto. apply Jv_add; auto.
Qed.

Lemma step_newM w acc T w1 m : new_missing w sd u = (w1, m) ->
  Jv [] (acc ++ T) w -> u < nunits w ->
  Jv [] (acc ++ [m] ++ T) w1 /\ frame (other sd) w w1 /\ stat w w1 /\ ports w1 sd u = ports w sd u /\
  m = M_ (fresh w) /\ (forall y, y <> m -> ptr w1 sd y = ptr w sd y).
Proof.
  intros NM HJ Hu. unfold Jv in *.
  assert (NM' : new_missing (upd_ports w sd u (acc ++ T)) sd u = (upd_ports w1 sd u (acc ++ T), m)).
  { rewrite new_missing_comm, NM. reflexivity. }
  destruct (new_missing_J sd u [] _ u _ _ HJ Hu NM') as (J1 & Om & Nm & St & Fr & Pm & Po & Pp & Em).
  pose proof (frame_new_missing sd w u) as FN. rewrite NM in FN. simpl in FN.
  destruct (new_missing_spec _ _ _ _ _ NM) as (Hm & Hp & Hpm & Hpo & Hf & Hr & Hn & Hs & Hfx).
  split; [|split; [exact FN | split; [constructor; auto; lia | split; [apply Hp | split; [exact Hm | exact Hpo]]]]].
  eapply weq_J; [apply (upd_ports_twice sd u (acc ++ T))|].
  apply (J_R_drop m []); [|exact Pm].
  apply J_add; [exact J1 | simpl; rewrite Hn; exact Hu | apply ports_upd_ports_eq | | exact Om].
  specialize (Nm u). now rewrite ports_upd_ports_eq in Nm.
Qed.

Lemma step_newS w acc T :
  Jv [] (acc ++ T) w -> u < nunits w ->
  let w1 := fst (new_stream_docked w sd u) in let s := S_ (nreal w) in
  snd (new_stream_docked w sd u) = s /\
  Jv [] (acc ++ [s] ++ T) w1 /\ frame (other sd) w w1 /\ stat2 w w1 /\ ports w1 sd u = ports w sd u /\
  (forall y, y <> s -> ptr w1 sd y = ptr w sd y).
Proof.
  intros HJ Hu. unfold new_stream_docked. cbn [fst snd]. split; [reflexivity|].
  set (s := S_ (nreal w)). unfold Jv in *.
  set (W := upd_ports w sd u (acc ++ T)) in *.
  assert (J1 : J sd u [] (bump_real W)).
  { destruct HJ as [A B C D E F G H K]. constructor; auto.
    - intros v y HI. eapply okP_mono; [| |eapply E; eauto]; cbn [nreal fresh bump_real]; lia.
    - intros n L. apply F. cbn [nreal bump_real] in L. lia. }
  assert (Ns : ~ In s (acc ++ T)).
  { intro HI. assert (Q : obj_okP W s) by (apply (J_ok _ _ _ _ HJ u); unfold W; now rewrite ports_upd_ports_eq).
    simpl in Q. lia. }
  assert (J2 : J sd u [s] (upd_ports (bump_real W) sd u (acc ++ [s] ++ T))).
  { apply J_add; [exact J1 | exact Hu | exact (ports_upd_ports_eq sd w u (acc ++ T)) | exact Ns |].
    unfold s, W. simpl. lia. }
  assert (J3 : J sd u [] (dock (upd_ports (bump_real W) sd u (acc ++ [s] ++ T)) sd u s)).
  { apply dock_J; [exact J2 | exact Hu | unfold s, W; simpl; lia |]. intros v N HI. rewrite ports_upd_ports_neq in HI by assumption.
    assert (Q : obj_okP W s) by (eapply (J_ok _ _ _ _ HJ v); exact HI). simpl in Q. lia. }
  split; [|split; [|split; [|split]]].
  - eapply weq_J; [|exact J3]. constructor; intros; try reflexivity.
    unfold W, dock, bump_real, upd_ports, upd_ptr; simpl. destruct (side_eqb s0 sd && (v =? u)); reflexivity.
  - unfold dock. eapply frame_trans; [|apply frame_upd_ptr]. constructor; simpl; auto.
  - constructor; simpl; auto.
  - reflexivity.
  - intros y N. unfold dock. now rewrite ptr_upd_ptr_neq.
Qed.
End Ctor.

Section Ctor2.
Variable sd : side.
Variable u : nat.

Definition items_ok (w : world) (its : list item) : Prop :=
  NoDup (item_reals its) /\ forall n, In (S_ n) (item_reals its) -> n < nreal w /\ ptr w sd (S_ n) <> Some u.

Definition norm_item (it : item) : item := match it with INone => INew | i => i end.

Lemma fixed_as_var its : forall w, init_items_fixed w sd u its = init_items_var w sd u (map norm_item its).
Proof.
  induction its as [|it t IH]; intro w; [reflexivity|]. cbn [init_items_fixed init_items_var map].
  destruct it; cbn [norm_item]; try (rewrite IH; reflexivity).
  - destruct (new_stream_docked w sd u) as [w1 x]. now rewrite IH.
  - destruct (new_stream_docked w sd u) as [w1 x]. now rewrite IH.
Qed.
Lemma item_reals_norm its : item_reals (map norm_item its) = item_reals its.
Proof. induction its as [|it t IH]; [reflexivity|]. unfold item_reals in *. simpl. rewrite IH. now destruct it. Qed.
Lemma news_as_var n : forall w, new_streams_docked w sd u n = init_items_var w sd u (repeat INew n).
Proof.
  induction n as [|n IH]; intro w; [reflexivity|]. cbn [new_streams_docked repeat init_items_var].
  destruct (new_stream_docked w sd u) as [w1 x]. now rewrite IH.
Qed.
Lemma item_reals_repeat n : item_reals (repeat INew n) = [].
Proof. induction n; [reflexivity|]. unfold item_reals in *. simpl. exact IHn. Qed.

Lemma init_items_var_J its : forall w acc T,
  Jv sd u [] (acc ++ T) w -> u < nunits w -> items_ok w its ->
  Jv sd u [] ((acc ++ snd (init_items_var w sd u its)) ++ T) (fst (init_items_var w sd u its)) /\
  frame (other sd) w (fst (init_items_var w sd u its)) /\ stat2 w (fst (init_items_var w sd u its)) /\
  length (snd (init_items_var w sd u its)) = length its /\
  ports (fst (init_items_var w sd u its)) sd u = ports w sd u.
Proof.
  induction its as [|it t IH]; intros w acc T HJ Hu [ND Ok].
  - simpl. rewrite app_nil_r. split; [exact HJ|]. split; [apply frame_refl|]. split; [apply stat2_refl | auto].
  - cbn [init_items_var].
    assert (STEP : exists w1 x, (match it with
                                 | IReal n => (redock w sd u (S_ n), S_ n)
                                 | INone => new_missing w sd u
                                 | INew => new_stream_docked w sd u
                                 end) = (w1, x) /\
              Jv sd u [] (acc ++ [x] ++ T) w1 /\ frame (other sd) w w1 /\ stat2 w w1 /\
              ports w1 sd u = ports w sd u /\ items_ok w1 t).
    { destruct it as [|n|].
      - destruct (step_newS sd u w acc T HJ Hu) as (Es & J1 & Fr & St & Pp & Po).
        exists (fst (new_stream_docked w sd u)), (S_ (nreal w)).
        split; [rewrite <- Es; now destruct (new_stream_docked w sd u)|].
        split; [exact J1|]. split; [exact Fr|]. split; [exact St|]. split; [exact Pp|].
        split; [exact ND|]. intros n Hn. destruct (Ok n Hn) as [L Np]. split.
        + destruct St as [_ B _ _ _]. lia.
        + rewrite Po; [exact Np|]. intro Q. inversion Q. lia.
      - unfold item_reals in ND, Ok. simpl in ND, Ok. inversion ND as [|? ? NI ND']; subst.
        destruct (Ok n (or_introl eq_refl)) as [Ln Np].
        destruct (step_real sd u w acc T n HJ Hu Ln Np) as (J1 & Fr & St & Pp).
        exists (redock w sd u (S_ n)), (S_ n). split; [reflexivity|].
        split; [exact J1|]. split; [exact Fr|]. split; [apply stat_stat2; exact St|]. split; [exact Pp|].
        split; [exact ND'|]. intros k Hk. destruct (Ok k (or_intror Hk)) as [L Npk]. split.
        + destruct St as [_ B _ _ _]. lia.
        + rewrite redock_ptr_real; [exact Npk|]. intro Q. inversion Q. subst. contradiction.
      - destruct (new_missing w sd u) as [w1 m] eqn:NM.
        destruct (step_newM sd u w acc T w1 m NM HJ Hu) as (J1 & Fr & St & Pp & Em & Po).
        exists w1, m. split; [reflexivity|].
        split; [exact J1|]. split; [exact Fr|]. split; [apply stat_stat2; exact St|]. split; [exact Pp|].
        split; [exact ND|]. intros n Hn. destruct (Ok n Hn) as [L Np]. split.
        + destruct St as [_ B _ _ _]. lia.
        + rewrite Po; [exact Np|]. rewrite Em. discriminate. }
    destruct STEP as (w1 & x & E1 & J1 & Fr1 & St1 & Pp1 & Ok1). rewrite E1.
    assert (Hu1 : u < nunits w1) by (destruct St1 as [A _ _ _ _]; lia).
    rewrite app_assoc in J1.
    destruct (IH w1 (acc ++ [x]) T J1 Hu1 Ok1) as (J2 & Fr2 & St2 & L2 & Pp2).
    destruct (init_items_var w1 sd u t) as [w2 xs]. cbn [fst snd] in *.
    replace ((acc ++ [x]) ++ xs) with (acc ++ x :: xs) in J2 by (rewrite <- app_assoc; reflexivity).
    split; [exact J2|]. split; [eapply frame_trans; eauto|]. split; [eapply stat2_trans; eauto|].
    split; [simpl; congruence | congruence].
Qed.

Lemma new_missings_M n : forall w, forall x, In x (snd (new_missings w sd u n)) -> is_real x = false.
Proof.
  induction n as [|n IH]; intros w x; simpl; [tauto|].
  destruct (new_missings (bump_fresh (upd_ptr (upd_ptr w sd (M_ (fresh w)) (Some u)) (other sd) (M_ (fresh w)) None)) sd u n)
    as [w2 ms] eqn:E. simpl. intros [<-|H]; [reflexivity|]. eapply IH. rewrite E. exact H.
Qed.

Lemma J_drop w D T : J sd u [] w -> ports w sd u = D ++ T -> (forall x, In x D -> is_real x = false) ->
  Jv sd u [] T w.
Proof.
  intros [A B C D' E F G H K] EL Hd. unfold Jv. constructor.
  - intros v y. rewrite ports_upd_ports. destruct (v =? u) eqn:Ev; [|apply A].
    apply Nat.eqb_eq in Ev. subst v. intro HI. apply A. rewrite EL. apply in_or_app. now right.
  - intros v n Q. apply B in Q. rewrite ports_upd_ports. destruct (v =? u) eqn:Ev; [|exact Q].
    apply Nat.eqb_eq in Ev. subst v. rewrite EL in Q. apply in_app_or in Q. destruct Q as [Q|Q]; [|exact Q].
    apply Hd in Q. discriminate.
  - intro v. rewrite ports_upd_ports. destruct (v =? u); [|apply C].
    pose proof (C u) as ND. rewrite EL in ND. apply NoDup_app_iff in ND. tauto.
  - intros v N. rewrite ports_upd_ports_neq by assumption. now apply D'.
  - intros v y. rewrite ports_upd_ports. destruct (v =? u); [|apply E].
    intro HI. apply (E u). rewrite EL. apply in_or_app. now right.
  - exact F.
  - intros v L. rewrite ports_upd_ports. simpl in L. destruct (v =? u) eqn:Ev; [|now apply G].
    apply Nat.eqb_eq in Ev. subst v. specialize (G u L). rewrite EL in G. apply app_eq_nil in G. tauto.
  - exact H.
  - intros x [].
Qed.
End Ctor2.

Lemma firstn_In' {A} (x : A) n l : In x (firstn n l) -> In x l.
Proof. intro H. rewrite <- (firstn_skipn n l). apply in_or_app. now left. Qed.

Section Ctor3.
Variable sd : side.
Variable u : nat.

Lemma new_missings_ptr_real n k : forall w,
  ptr (fst (new_missings w sd u n)) sd (S_ k) = ptr w sd (S_ k).
Proof.
  induction n as [|n IH]; intro w; [reflexivity|]. cbn [new_missings].
  destruct (new_missing w sd u) as [w1 m] eqn:NM.
  destruct (new_missing_spec _ _ _ _ _ NM) as (Hm & _ & _ & Hpo & _).
  specialize (IH w1). destruct (new_missings w1 sd u n) as [w2 ms]. cbn [fst] in *.
  rewrite IH. apply Hpo. rewrite Hm. discriminate.
Qed.
Lemma init_missing_ptr_real k w : ptr (init_missing w sd u) sd (S_ k) = ptr w sd (S_ k).
Proof.
  unfold init_missing. pose proof (new_missings_ptr_real (psize w sd u) k w) as H.
  destruct (new_missings w sd u (psize w sd u)) as [w1 ms]. exact H.
Qed.
Lemma init_missing_all_M w x : In x (ports (init_missing w sd u) sd u) -> is_real x = false.
Proof.
  unfold init_missing. pose proof (new_missings_M sd u (psize w sd u) w x) as H.
  destruct (new_missings w sd u (psize w sd u)) as [w1 ms]. rewrite ports_upd_ports_eq. exact H.
Qed.

Lemma items_place its wb :
  J sd u [] wb -> (forall x, In x (firstn (length its) (ports wb sd u)) -> is_real x = false) ->
  u < nunits wb -> items_ok sd u wb its ->
  let r := init_items_var wb sd u its in
  J sd u [] (upd_ports (fst r) sd u (snd r ++ skipn (length its) (ports (fst r) sd u))) /\
  frame (other sd) wb (fst r) /\ stat2 wb (fst r) /\ length (snd r) = length its /\
  ports (fst r) sd u = ports wb sd u.
Proof.
  intros HJ HM Hu Ok. cbv zeta.
  set (N := length its) in *. set (P := ports wb sd u) in *.
  assert (EP : ports wb sd u = firstn N P ++ skipn N P) by (symmetry; apply firstn_skipn).
  pose proof (J_drop sd u wb _ _ HJ EP HM) as J0.
  destruct (init_items_var_J sd u its wb [] (skipn N P) J0 Hu Ok) as (J1 & Fr & St & Ln & Pp).
  rewrite Pp. fold P. simpl app in J1.
  split; [exact J1|]. split; [exact Fr|]. split; [exact St|]. split; [exact Ln | reflexivity].
Qed.

Definition size_ok (w : world) (f : form) : Prop :=
  pfixed w sd u = true ->
  match f with FOne _ => 1 <= psize w sd u | FList its => length its <= psize w sd u | _ => True end.

Lemma items_ok_norm w its : items_ok sd u w its -> items_ok sd u w (map norm_item its).
Proof. unfold items_ok. now rewrite item_reals_norm. Qed.

Lemma init_ports_Inv f w w' : J sd u [] w -> ports w sd u = [] -> u < nunits w ->
  items_ok sd u w (form_items f) -> size_ok w f -> init_ports w sd u f = (w', None) ->
  InvS sd w' /\ frame (other sd) w w' /\ stat2 w w'.
Proof.
  intros HJ E0 Hu Ok Sz EQ.
  (* the three ways the list is finally written *)
  assert (VAR : forall its, items_ok sd u w its ->
            (pfixed w sd u = true -> length its = psize w sd u) ->
            let r := init_items_var w sd u its in
            InvS sd (upd_ports (fst r) sd u (snd r)) /\ frame (other sd) w (upd_ports (fst r) sd u (snd r)) /\
            stat2 w (upd_ports (fst r) sd u (snd r))).
  { intros its Oki Len. cbv zeta.
    destruct (items_place its w HJ) as (J1 & Fr & St & Ln & Pp); auto.
    { rewrite E0. rewrite firstn_nil. intros x []. }
    rewrite Pp, E0, skipn_nil, app_nil_r in J1.
    split; [|split].
    - eapply J_Inv; [exact J1|]. rewrite ports_upd_ports_eq. cbn [pfixed psize upd_ports].
      destruct St as [_ _ _ S4 S5]. rewrite S4, S5, Ln. exact Len.
    - eapply frame_trans; [exact Fr | apply frame_upd_ports].
    - destruct St. constructor; auto. }
  assert (MISS : InvS sd (init_missing w sd u) /\ frame (other sd) w (init_missing w sd u) /\ stat2 w (init_missing w sd u)).
  { destruct (init_missing_fresh sd u w HJ E0 Hu) as (J1 & L1 & Fr1 & St1).
    split; [|split; [exact Fr1 | apply stat_stat2; exact St1]].
    eapply J_Inv; [exact J1|]. intros _. rewrite L1. destruct St1 as [_ _ _ S4 _]. now rewrite S4. }
  assert (FIX : forall its, pfixed w sd u = true -> length its <= psize w sd u -> items_ok sd u w its ->
            let w0 := init_missing w sd u in let r := init_items_fixed w0 sd u its in
            let wf := upd_ports (fst r) sd u (snd r ++ skipn (length its) (ports (fst r) sd u)) in
            InvS sd wf /\ frame (other sd) w wf /\ stat2 w wf).
  { intros its Fx Len Oki. cbv zeta. rewrite fixed_as_var.
    destruct (init_missing_fresh sd u w HJ E0 Hu) as (J1 & L1 & Fr1 & St1).
    set (w0 := init_missing w sd u) in *.
    assert (Hu0 : u < nunits w0) by (destruct St1 as [A _ _ _ _]; lia).
    assert (Ok0 : items_ok sd u w0 (map norm_item its)).
    { apply items_ok_norm. destruct Oki as [ND Okn]. split; [exact ND|]. intros n Hn. destruct (Okn n Hn) as [L Np].
      split; [destruct St1 as [_ B _ _ _]; lia|]. unfold w0. now rewrite init_missing_ptr_real. }
    destruct (items_place (map norm_item its) w0 J1) as (J2 & Fr2 & St2 & Ln2 & Pp2); auto.
    { intros x Hx. apply (init_missing_all_M w). fold w0. eapply firstn_In'. exact Hx. }
    rewrite map_length in *.
    split; [|split].
    - eapply J_Inv; [exact J2|]. intros _. rewrite ports_upd_ports_eq. cbn [psize upd_ports].
      rewrite app_length, Ln2, skipn_length, Pp2, L1.
      destruct St2 as [_ _ _ S4 _]. destruct St1 as [_ _ _ S4' _]. rewrite S4, S4'. lia.
    - eapply frame_trans; [exact Fr1|]. eapply frame_trans; [exact Fr2 | apply frame_upd_ports].
    - eapply stat2_trans; [apply stat_stat2; exact St1|]. destruct St2. constructor; auto. }
  unfold init_ports in EQ. unfold size_ok in Sz.
  destruct f as [| |it|its]; cbn [form_items] in Ok.
  - (* None *) destruct (pfixed w sd u); inversion EQ; subst; exact MISS.
  - (* () *) rewrite news_as_var in EQ.
    specialize (VAR (repeat INew (psize w sd u))). cbv zeta in VAR.
    destruct (init_items_var w sd u (repeat INew (psize w sd u))) as [w1 ss]. cbn [fst snd] in VAR.
    inversion EQ; subst. apply VAR.
    + split; [rewrite item_reals_repeat; constructor | rewrite item_reals_repeat; intros n []].
    + intros _. apply repeat_length.
  - (* a single stream or name *)
    destruct (pfixed w sd u) eqn:Fx.
    + specialize (Sz eq_refl). destruct (psize w sd u =? 0) eqn:Z; [apply Nat.eqb_eq in Z; lia|].
      specialize (FIX [it] eq_refl Sz Ok). cbv zeta in FIX.
      destruct (init_items_fixed (init_missing w sd u) sd u [it]) as [w1 xs]. cbn [fst snd length] in FIX.
      inversion EQ; subst. exact FIX.
    + specialize (VAR [norm_item it]). cbv zeta in VAR. unfold norm_item in VAR.
      destruct (init_items_var w sd u [match it with INone => INew | i => i end]) as [w1 xs]. cbn [fst snd] in VAR.
      inversion EQ; subst. apply VAR; [|discriminate].
      change [match it with INone => INew | i => i end] with (map norm_item [it]). now apply items_ok_norm.
  - (* a list *)
    destruct (pfixed w sd u) eqn:Fx.
    + specialize (Sz eq_refl). destruct (psize w sd u <? length its) eqn:Z; [apply Nat.ltb_lt in Z; lia|].
      specialize (FIX its eq_refl Sz Ok). cbv zeta in FIX.
      destruct (init_items_fixed (init_missing w sd u) sd u its) as [w1 xs]. cbn [fst snd] in FIX.
      inversion EQ; subst. exact FIX.
    + specialize (VAR its Ok). cbv zeta in VAR.
      destruct (init_items_var w sd u its) as [w1 xs]. cbn [fst snd] in VAR.
      inversion EQ; subst. apply VAR. discriminate.
Qed.
End Ctor3.

Lemma pre_form_ok sd u w0 fixed size f :
  pfixed w0 sd u = fixed -> psize w0 sd u = size -> pre_form fixed size f = true ->
  NoDup (item_reals (form_items f)) /\ size_ok sd u w0 f.
Proof.
  intros Fx Sz Pre. unfold pre_form in Pre. apply andb_true_iff in Pre. destruct Pre as [P1 P2].
  split; [now apply nodupb_NoDup|]. unfold size_ok. rewrite Fx, Sz. intro Q. subst fixed. rewrite Q in P2. cbn [negb orb] in P2.
  destruct f; auto; now apply Nat.leb_le.
Qed.

Lemma new_unit_Inv w nin nout fin fout fi fo :
  Inv w -> wfb w (ONewUnit nin nout fin fout fi fo) = true -> preb w (ONewUnit nin nout fin fout fi fo) = true ->
  Inv (fst (new_unit w nin nout fin fout fi fo)).
Proof.
  intros [HI HO] Wf Pre. cbn [wfb preb] in Wf, Pre.
  apply andb_true_iff in Wf. destruct Wf as [Wi Wo]. apply andb_true_iff in Pre. destruct Pre as [Pi Po].
  rewrite forallb_forall in Wi, Wo.
  unfold new_unit. set (u := nunits w).
  set (w0 := mkW (ports w)
                (fun sd v => if v =? u then (match sd with SIn => nin | SOut => nout end) else psize w sd v)
                (fun sd v => if v =? u then (match sd with SIn => fin | SOut => fout end) else pfixed w sd v)
                (ptr w) (fresh w) (nreal w) (S u)).
  assert (J0 : forall sd, InvS sd w -> J sd u [] w0).
  { intros sd [A B C D E F G H]. constructor.
    - intros v x HIn. left. apply A. exact HIn.
    - exact B.
    - exact C.
    - intros v N. unfold w0; simpl. apply Nat.eqb_neq in N. rewrite N. apply D.
    - exact E.
    - exact F.
    - intros v L. apply G. simpl in L. unfold u in *. lia.
    - intros x v P. simpl. apply H in P. unfold u. lia.
    - intros x []. }
  assert (P0 : forall sd, InvS sd w -> ports w0 sd u = []).
  { intros sd IS. apply (I_units _ _ IS). unfold u. lia. }
  assert (Hu0 : u < nunits w0) by (simpl; lia).
  assert (NP : forall sd, InvS sd w -> forall n, ptr w0 sd (S_ n) <> Some u).
  { intros sd IS n Q. apply (I_uptr _ _ IS) in Q. unfold u in Q. lia. }
  destruct (pre_form_ok SIn u w0 fin nin fi) as [NDi Szi]; auto; try (simpl; now rewrite Nat.eqb_refl).
  destruct (pre_form_ok SOut u w0 fout nout fo) as [NDo Szo]; auto; try (simpl; now rewrite Nat.eqb_refl).
  destruct (init_ports w0 SIn u fi) as [w1 [e|]] eqn:E1; [cbn; split; assumption|].
  destruct (init_ports_Inv SIn u fi w0 w1 (J0 SIn HI) (P0 SIn HI) Hu0) as (I1 & Fr1 & St1); auto.
  { split; [exact NDi|]. intros n Hn. split; [|apply (NP SIn HI)].
    specialize (Wi _ Hn). apply obj_ok_P in Wi. exact Wi. }
  assert (Hu1 : u < nunits w1) by (destruct St1 as [A _ _ _ _]; lia).
  assert (JO1 : J SOut u [] w1) by (eapply frame_J; [exact Fr1 | exact (J0 SOut HO)]).
  assert (PO1 : ports w1 SOut u = []) by (rewrite (F_ports _ _ _ Fr1); exact (P0 SOut HO)).
  destruct (init_ports w1 SOut u fo) as [w2 [e|]] eqn:E2; [cbn; split; assumption|].
  destruct (init_ports_Inv SOut u fo w1 w2 JO1 PO1 Hu1) as (I2 & Fr2 & St2); auto.
  { split; [exact NDo|]. intros n Hn. specialize (Wo _ Hn). apply obj_ok_P in Wo. split.
    - destruct St1 as [_ B _ _ _]. simpl in Wo, B. lia.
    - rewrite (F_ptr _ _ _ Fr1); [apply (NP SOut HO) | exact Wo]. }
  { unfold size_ok in *. destruct St1 as [_ _ _ S4 S5]. rewrite S4, S5. exact Szo. }
  cbn. split; [|exact I2]. eapply frame_InvS; [exact Fr2 | exact I1].
Qed.

(* ================================================================ extended slices L[lo:hi:st] = xs *)
Lemma nth_upd_other_obj (l : list obj) i j y d : i <> j -> nth j (upd l i y) d = nth j l d.
Proof.
  revert i j. induction l as [|a l IH]; intros i j N; simpl; [reflexivity|].
  destruct i, j; simpl; try reflexivity; [congruence | apply IH; congruence].
Qed.
Lemma In_upd_iff (l : list obj) i y d z : NoDup l -> i < length l ->
  (In z (upd l i y) <-> z = y \/ (In z l /\ z <> nth i l d)).
Proof.
  intros ND Li. destruct (nth_split' l i d Li) as (l1 & l2 & EL & L1).
  remember (nth i l d) as o eqn:Ho. clear Ho. subst l. rewrite <- L1, upd_app.
  pose proof (NoDup_remove_2 _ _ _ ND) as NI.
  rewrite !in_app_iff. simpl. rewrite in_app_iff in NI. split.
  - intros [H|[H|H]]; [right; split; [tauto | intro; subst; tauto] | left; now subst | right; split; [tauto | intro; subst; tauto]].
  - intros [->|[[H|[H|H]] N]]; [tauto | tauto | congruence | tauto].
Qed.
Lemma upd_length' (l : list obj) i y : length (upd l i y) = length l.
Proof. revert i. induction l; intro i; simpl; [reflexivity|]. destruct i; simpl; [reflexivity | now rewrite IHl]. Qed.
Lemma NoDup_upd (l : list obj) i y : NoDup l -> ~ In y l -> NoDup (upd l i y).
Proof.
  intros ND NI. destruct (Nat.lt_ge_cases i (length l)) as [Li|Li]; [|now rewrite upd_out].
  destruct (nth_split' l i y Li) as (l1 & l2 & EL & L1). rewrite EL in ND |- *. rewrite <- L1, upd_app.
  eapply NoDup_swap; [exact ND|]. intro H. apply NI. rewrite EL. apply in_app_or in H. apply in_or_app. simpl. tauto.
Qed.

Lemma assign_spec idxs : forall ys l, NoDup idxs -> (forall i, In i idxs -> i < length l) ->
  length ys = length idxs -> NoDup l -> NoDup ys -> (forall y, In y ys -> ~ In y l) ->
  NoDup (assign l idxs ys) /\ length (assign l idxs ys) = length l /\
  (forall z, In z (assign l idxs ys) <-> (In z l /\ ~ In z (map (fun i => nth i l (M_ 0)) idxs)) \/ In z ys).
Proof.
  unfold assign. induction idxs as [|i idxs IH]; intros ys l NDi Bi Ln NDl NDy Dis.
  - destruct ys; [|discriminate]. simpl. split; [exact NDl|]. split; [reflexivity|]. intro z. tauto.
  - destruct ys as [|y ys]; [discriminate|]. cbn [combine fold_left fst snd].
    inversion NDi as [|? ? NIi NDi']; subst. inversion NDy as [|? ? NIy NDy']; subst.
    assert (Li : i < length l) by (apply Bi; now left).
    assert (ND1 : NoDup (upd l i y)) by (apply NoDup_upd; [exact NDl | apply Dis; now left]).
    destruct (IH ys (upd l i y) NDi') as (A & B & C); auto.
    + intros j Hj. rewrite upd_length'. apply Bi. now right.
    + intros y' Hy' HI. apply (In_upd_iff l i y (M_ 0) y' NDl Li) in HI. destruct HI as [->|[HI _]]; [contradiction|].
      apply (Dis y'); [now right | exact HI].
    + split; [exact A|]. split; [rewrite B; apply upd_length'|].
      intro z. rewrite C. rewrite (In_upd_iff l i y (M_ 0) z NDl Li).
      assert (EM : map (fun j => nth j (upd l i y) (M_ 0)) idxs = map (fun j => nth j l (M_ 0)) idxs).
      { apply map_ext_in. intros j Hj. apply nth_upd_other_obj. intro; subst; contradiction. }
      rewrite EM. simpl.
      assert (Yn : ~ In y (map (fun j => nth j l (M_ 0)) idxs)).
      { intro H. apply in_map_iff in H. destruct H as (j & E & Hj). apply (Dis y); [now left|].
        rewrite <- E. apply nth_In. apply Bi. now right. }
      split.
      * intros [[[->|[HI N]] NM]|H]; [right; now left | left; split; [exact HI | intros [Q|Q]; [congruence | contradiction]] | right; now right].
      * intros [[HI NM]|[->|H]]; [left; split; [right; split; [exact HI | intro Q; apply NM; left; congruence] | intro Q; apply NM; now right] | left; split; [now left | exact Yn] | right; exact H].
Qed.

Lemma zrange_up fuel : forall cur stop st, (0 < st)%Z -> (0 <= cur)%Z ->
  NoDup (zrange fuel cur stop st) /\
  forall i, In i (zrange fuel cur stop st) -> Z.to_nat cur <= i /\ (Z.of_nat i < stop)%Z.
Proof.
  induction fuel as [|f IH]; intros cur stop st Hs Hc; simpl; [split; [constructor | intros i []]|].
  assert (E : (0 <? st)%Z = true) by now apply Z.ltb_lt. rewrite E.
  destruct (cur <? stop)%Z eqn:C; [|split; [constructor | intros i []]]. apply Z.ltb_lt in C.
  destruct (IH (cur + st)%Z stop st Hs ltac:(lia)) as [ND B]. split.
  - constructor; [|exact ND]. intro H. apply B in H. lia.
  - intros i [<-|H]; [split; [lia | rewrite Z2Nat.id; lia]|]. apply B in H. lia.
Qed.
Lemma zrange_down fuel : forall cur stop st, (st < 0)%Z -> (-1 <= stop)%Z ->
  NoDup (zrange fuel cur stop st) /\
  forall i, In i (zrange fuel cur stop st) -> (Z.of_nat i <= cur)%Z /\ (stop < Z.of_nat i)%Z.
Proof.
  induction fuel as [|f IH]; intros cur stop st Hs Hc; simpl; [split; [constructor | intros i []]|].
  assert (E : (0 <? st)%Z = false) by (apply Z.ltb_ge; lia). rewrite E.
  destruct (stop <? cur)%Z eqn:C; [|split; [constructor | intros i []]]. apply Z.ltb_lt in C.
  destruct (IH (cur + st)%Z stop st Hs Hc) as [ND B]. split.
  - constructor; [|exact ND]. intro H. apply B in H. rewrite Z2Nat.id in H by lia. lia.
  - intros i [<-|H]; [rewrite Z2Nat.id by lia; lia|]. apply B in H. lia.
Qed.
Lemma ext_indices_ok lo hi st n : st <> 0%Z ->
  NoDup (ext_indices lo hi st n) /\ forall i, In i (ext_indices lo hi st n) -> i < n.
Proof.
  intro Nz. unfold ext_indices. destruct (0 <? st)%Z eqn:E.
  - apply Z.ltb_lt in E. destruct (zrange_up n (Z.of_nat (clampZ lo n 0)) (Z.of_nat (clampZ hi n n)) st E ltac:(lia)) as [ND B].
    split; [exact ND|]. intros i H. apply B in H.
    assert (clampZ hi n n <= n).
    { destruct hi as [h|]; simpl; [|lia]. destruct (h <? 0)%Z eqn:Q; [apply Z.ltb_lt in Q|]; lia. }
    lia.
  - apply Z.ltb_ge in E.
    set (cl := fun (i : option Z) (dflt : Z) => match i with
               | None => dflt
               | Some i => if (i <? 0)%Z then Z.max (-1) (i + Z.of_nat n) else Z.min i (Z.of_nat n - 1) end).
    assert (Cs : (-1 <= cl hi (-1))%Z).
    { unfold cl. destruct hi as [h|]; [|lia]. destruct (h <? 0)%Z eqn:Q; [lia|]. apply Z.ltb_ge in Q. lia. }
    assert (Cc : (cl lo (Z.of_nat n - 1) <= Z.of_nat n - 1)%Z).
    { unfold cl. destruct lo as [h|]; [|lia]. destruct (h <? 0)%Z eqn:Q; [apply Z.ltb_lt in Q|]; lia. }
    destruct (zrange_down n (cl lo (Z.of_nat n - 1)%Z) (cl hi (-1)%Z) st ltac:(lia) Cs) as [ND B].
    split; [exact ND|]. intros i H. apply B in H. lia.
Qed.

Section SideX.
Variable sd : side.

Lemma rewrite_J u w olds l' ys :
  InvS sd w -> u < nunits w ->
  (forall y, In y olds -> In y (ports w sd u)) -> NoDup l' ->
  (forall y, In y l' -> (In y (ports w sd u) /\ ~ In y olds) \/ In y ys) ->
  (forall y, In y (ports w sd u) -> ~ In y olds -> In y l') ->
  (forall y, In y ys -> In y l' /\ obj_okP w y) ->
  J sd u ys (upd_ports (undock_all w sd olds) sd u l').
Proof.
  intros [A B C D E F G H] Hu So NDl' Src Kept Ysl.
  destruct (undock_all_misc sd olds w) as (Po & St & Fr & _).
  assert (Oth : forall v y, v <> u -> In y (ports w sd v) -> mem y olds = false).
  { intros v y N HI. apply mem_false. intro Ho. apply So in Ho. apply A in HI. apply A in Ho. congruence. }
  constructor.
  - intros v y. rewrite ports_upd_ports.
    change (ptr (upd_ports (undock_all w sd olds) sd u l') sd y) with (ptr (undock_all w sd olds) sd y).
    rewrite undock_all_ptr. destruct (v =? u) eqn:Ev.
    + apply Nat.eqb_eq in Ev. subst v. intro HI.
      destruct (in_dec (fun a b => ltac:(destruct (obj_eqb a b) eqn:Q; [left; now apply obj_eqb_eq | right; now apply obj_eqb_neq])) y ys) as [I|NI]; [now right|].
      left. destruct (Src y HI) as [[Hl No]|Hy]; [|contradiction].
      apply mem_false in No. rewrite No. now apply A.
    + apply Nat.eqb_neq in Ev. rewrite Po. intro HI. left. rewrite (Oth v y Ev HI). now apply A.
  - intros v n. change (ptr (upd_ports (undock_all w sd olds) sd u l') sd (S_ n)) with (ptr (undock_all w sd olds) sd (S_ n)).
    rewrite undock_all_ptr, ports_upd_ports. destruct (mem (S_ n) olds) eqn:Em; [discriminate|].
    intro Q. apply B in Q. destruct (v =? u) eqn:Ev; [|now rewrite Po].
    apply Nat.eqb_eq in Ev. subst v. apply mem_false in Em. now apply Kept.
  - intro v. rewrite ports_upd_ports. destruct (v =? u); [exact NDl' | rewrite Po; apply C].
  - intros v N. rewrite ports_upd_ports_neq by assumption. rewrite Po. destruct St as [_ _ _ S4 S5].
    cbn [psize pfixed upd_ports]. rewrite S4, S5. apply D.
  - intros v y. rewrite ports_upd_ports. intro HI. change (obj_okP (undock_all w sd olds) y). eapply stat_okP; [exact St|].
    destruct (v =? u).
    + destruct (Src y HI) as [[Hl _]|Hy]; [eapply E; eauto | apply Ysl; exact Hy].
    + rewrite Po in HI. eapply E; eauto.
  - intros n L. change (ptr (undock_all w sd olds) sd (S_ n) = None). rewrite undock_all_ptr.
    destruct (mem (S_ n) olds); [reflexivity|]. apply F. destruct St as [_ S2 _ _ _]. simpl in L. rewrite S2 in L. exact L.
  - intros v L. rewrite ports_upd_ports. destruct St as [S1 _ _ _ _]. simpl in L. rewrite S1 in L.
    destruct (v =? u) eqn:Ev; [apply Nat.eqb_eq in Ev; lia|]. rewrite Po. now apply G.
  - intros y v. change (ptr (undock_all w sd olds) sd y = Some v -> v < nunits (undock_all w sd olds)).
    rewrite undock_all_ptr. destruct St as [S1 _ _ _ _]. rewrite S1. destruct (mem y olds); [discriminate | apply H].
  - intros y HI. rewrite ports_upd_ports_eq. apply Ysl. exact HI.
Qed.

Lemma set_streams_step_good u w lo hi st xs :
  InvS sd w -> u < nunits w -> (forall a, In a xs -> rarg_okP w a) ->
  pre_slice_step w sd u lo hi st xs = true -> good sd w (set_streams_step w sd u lo hi st xs).
Proof.
  intros HI Hu Ok Pre. unfold set_streams_step. unfold pre_slice_step in Pre.
  destruct (st =? 1)%Z; [now apply set_streams_good|].
  pose proof (as_streams_spec sd u xs w HI Hu Ok) as S.
  destruct (as_streams w sd u xs) as [w1 [ys|e]]; simpl in S.
  2:{ destruct S as (I1 & St & Fr & _). unfold fail, good. simpl. auto. }
  destruct S as (I1 & St1 & Fr1 & Pp & os & Eo & Ln & Oky & NDy & Src).
  rewrite Eo in Pre.
  destruct (st =? 0)%Z eqn:Z0; [unfold fail, good; simpl; auto|]. apply Z.eqb_neq in Z0.
  rewrite <- (Pp u) in Pre. set (l := ports w1 sd u) in *.
  apply andb_true_iff in Pre. destruct Pre as [Pre P3]. apply andb_true_iff in Pre. destruct Pre as [P1 P2].
  apply Nat.eqb_eq in P1. apply nodupb_NoDup in P2. rewrite forallb_forall in P3.
  set (idxs := ext_indices lo hi st (length l)) in *.
  destruct (ext_indices_ok lo hi st (length l) Z0) as [NDi Bi]. fold idxs in NDi, Bi.
  assert (Le : (length ys =? length idxs) = true) by (apply Nat.eqb_eq; congruence). rewrite Le. cbn [negb].
  assert (Hu1 : u < nunits w1) by (destruct St1 as [A _ _ _ _]; lia).
  assert (Dis : forall y, In y ys -> ~ In y l).
  { intros y Hy HIn. destruct (Src y Hy) as [Q|(n & -> & Ln')].
    - specialize (P3 y Q). apply negb_true_iff in P3. apply mem_false in P3. contradiction.
    - unfold l in HIn. rewrite Pp in HIn. apply (I_ok _ _ HI) in HIn. simpl in HIn. lia. }
  destruct (assign_spec idxs ys l NDi Bi ltac:(congruence) (I_nodup _ _ I1 u) (NDy P2) Dis) as (NDl' & Ll' & Mem).
  set (olds := map (fun i => nth i l (M_ 0)) idxs) in *. set (l' := assign l idxs ys) in *.
  change (fold_left (fun w x => undock w sd x) olds w1) with (undock_all w1 sd olds).
  assert (J0 : J sd u ys (upd_ports (undock_all w1 sd olds) sd u l')).
  { apply rewrite_J; auto.
    - intros y Hy. apply in_map_iff in Hy. destruct Hy as (i & <- & Hi). apply nth_In. now apply Bi.
    - intros y Hy. apply Mem in Hy. exact Hy.
    - intros y Hy No. apply Mem. left. split; assumption.
    - intros y Hy. split; [apply Mem; now right | now apply Oky]. }
  set (w3 := upd_ports (undock_all w1 sd olds) sd u l') in *.
  destruct (undock_all_misc sd olds w1) as (Po & St & Fr & Frm).
  assert (P3' : ports w3 sd u = l') by apply ports_upd_ports_eq.
  assert (J1 : J sd u l' w3).
  { eapply J_weaken; [exact J0 | | intros y Hy; rewrite P3'; exact Hy]. intros y Hy. apply Mem. now right. }
  assert (St3 : stat w1 w3) by (destruct St; constructor; auto).
  destruct (redock_all_J sd u l' w3 J1) as (J2 & Fr2 & St2 & P2').
  { destruct St3 as [A _ _ _ _]. lia. }
  { intros y Hy. eapply J_ok; [exact J1|]. rewrite P3'. exact Hy. }
  set (w4 := fold_left (fun w x => redock w sd u x) l' w3) in *.
  assert (P4 : ports w4 sd u = l') by (etransitivity; [exact P2' | exact P3']).
  assert (Fx : pfixed w4 sd u = true -> length l' = psize w4 sd u).
  { intro Fx. destruct St2 as [_ _ _ S4 S5]. destruct St3 as [_ _ _ S4' S5']. rewrite S5, S5' in Fx.
    rewrite S4, S4', Ll'. apply (I_len _ _ I1 u Fx). }
  destruct (pfixed w4 sd u && (length l' <? psize w4 sd u)) eqn:Pad.
  { apply andb_true_iff in Pad. destruct Pad as [F1 F2]. apply Nat.ltb_lt in F2. specialize (Fx F1). lia. }
  unfold ok, good. simpl fst. split; [|split].
  - eapply J_Inv; [exact J2|]. rewrite P4. exact Fx.
  - eapply frame_trans; [exact Fr1|]. eapply frame_trans; [|exact Fr2]. eapply frame_trans; [exact Frm | apply frame_upd_ports].
  - eapply stat_trans; [exact St1|]. eapply stat_trans; eauto.
Qed.
End SideX.

(* ================================================================ which port changes *)
Lemma index_of_app_notin x l1 l2 : ~ In x l1 -> index_of x (l1 ++ x :: l2) = Some (length l1).
Proof.
  induction l1 as [|a l1 IH]; intro NI; simpl.
  - now rewrite obj_eqb_refl.
  - destruct (obj_eqb a x) eqn:E; [apply obj_eqb_eq in E; subst; exfalso; apply NI; now left|].
    rewrite IH; [reflexivity | intro H; apply NI; now right].
Qed.
Lemma index_of_nth_NoDup l k d : NoDup l -> k < length l -> index_of (nth k l d) l = Some k.
Proof.
  intros ND Lk. destruct (nth_split' l k d Lk) as (l1 & l2 & EL & L1).
  remember (nth k l d) as x eqn:Hx. clear Hx. subst l. rewrite <- L1. apply index_of_app_notin.
  apply NoDup_remove_2 in ND. intro H. apply ND. apply in_or_app. now left.
Qed.
(* pop(i) on a fixed-size list: exactly port i (python index arithmetic included) receives a new placeholder *)
Lemma pop_fixed_vacates sd w u i k b : InvS sd w -> pfixed w sd u = true ->
  norm_index i (length (ports w sd u)) = Some k ->
  ports (fst (pop b w sd u i)) sd u = upd (ports w sd u) k (M_ (fresh w)).
Proof.
  intros HI Fx Ek. unfold pop. rewrite Fx, Ek.
  change (let (w1, m) := new_missing w sd u in replace w1 sd u (RObj (nth k (ports w sd u) (M_ 0))) (RObj m))
    with (remove w sd u (RObj (nth k (ports w sd u) (M_ 0)))).
  apply remove_vacates. apply index_of_nth_NoDup; [apply (I_nodup _ _ HI) | eapply norm_index_lt; eauto].
Qed.
(* pop(i) on a variable-size list removes exactly port i *)
Lemma pop_var_shrinks sd w u i k b : pfixed w sd u = false ->
  norm_index i (length (ports w sd u)) = Some k ->
  ports (fst (pop b w sd u i)) sd u = remove_nth k (ports w sd u).
Proof.
  intros Fx Ek. unfold pop. rewrite Fx, Ek. cbn [ok fst]. destruct b.
  - unfold undock. change (ports (upd_ports w sd u (remove_nth k (ports w sd u))) sd u = remove_nth k (ports w sd u)).
    apply ports_upd_ports_eq.
  - apply ports_upd_ports_eq.
Qed.
(* L[i] = x writes port i and leaves the other ports of that list alone *)
Lemma set_stream_writes sd w u i k x : norm_index i (length (ports w sd u)) = Some k ->
  ports (fst (set_stream w sd u i (RObj x))) sd u = upd (ports w sd u) k x.
Proof.
  intro Ek. unfold set_stream, as_stream. rewrite Ek. cbn [ok fst]. rewrite ports_upd_ports_eq.
  destruct (redock_misc sd u x (undock w sd (nth k (ports w sd u) x))) as (_ & _ & Pu). rewrite Pu. reflexivity.
Qed.

(* ================================================================ whatever leaves a port is undocked (streams and placeholders alike) *)
Lemma redock_ptr_other sd u x y w : y <> x -> y <> M_ (fresh w) ->
  ptr (redock w sd u x) sd y = ptr w sd y.
Proof.
  intros N Nm. unfold redock. destruct (ptr w sd x) as [v|]; [|unfold dock; now rewrite ptr_upd_ptr_neq].
  destruct (v =? u); [reflexivity|].
  destruct (mem x (ports w sd v)); [|unfold dock; now rewrite ptr_upd_ptr_neq].
  unfold dock. rewrite ptr_upd_ptr_neq by assumption.
  apply obj_eqb_neq in N. apply obj_eqb_neq in Nm.
  unfold vacate, new_missing. cbn [ports bump_fresh upd_ptr].
  destruct (index_of x (ports w sd v)); unfold undock, upd_ports, upd_ptr, bump_fresh; cbn [ptr];
    rewrite ?side_eqb_refl, ?side_eqb_other'; cbn [andb]; rewrite ?N, ?Nm; reflexivity.
Qed.
Lemma set_stream_undocks_old sd w u i k x :
  norm_index i (length (ports w sd u)) = Some k ->
  let old := nth k (ports w sd u) x in
  old <> x -> old <> M_ (fresh w) ->
  ptr (fst (set_stream w sd u i (RObj x))) sd old = None.
Proof.
  intros Ek old N Nm. unfold set_stream, as_stream. rewrite Ek. cbn [ok fst].
  change (ptr (redock (undock w sd old) sd u x) sd old = None).
  rewrite redock_ptr_other; [unfold undock; apply ptr_upd_ptr_eq | exact N | exact Nm].
Qed.
Lemma pop_var_undocks sd w u i k : pfixed w sd u = false ->
  norm_index i (length (ports w sd u)) = Some k ->
  ptr (fst (pop true w sd u i)) sd (nth k (ports w sd u) (M_ 0)) = None.
Proof.
  intros Fx Ek. unfold pop. rewrite Fx, Ek. cbn [ok fst]. unfold undock. apply ptr_upd_ptr_eq.
Qed.
Lemma clear_var_undocks sd w u y : pfixed w sd u = false -> In y (ports w sd u) ->
  ptr (fst (clear w sd u)) sd y = None.
Proof.
  intros Fx HI. unfold clear. rewrite Fx. cbn [ok fst].
  change (ptr (undock_all w sd (ports w sd u)) sd y = None). rewrite undock_all_ptr.
  apply mem_In in HI. now rewrite HI.
Qed.

(* ================================================================ every operation, every history *)
Theorem step_Inv_all w o : Inv w -> wfb w o = true -> preb w o = true -> Inv (fst (step w o)).
Proof.
  intros HI Wf Pre. destruct (proven o) eqn:E.
  - now apply step_Inv.
  - destruct o; try discriminate.
    + (* L[lo:hi:st] = xs *) cbn [wfb preb] in Wf, Pre. apply andb_true_iff in Wf. destruct Wf as [Wu Wa].
      apply unit_ok_lt in Wu. rewrite forallb_forall in Wa. unfold step. cbn [step_with].
      apply (good_Good sd w _ HI). apply set_streams_step_good; auto; [apply (InvS_side sd w HI)|].
      intros a Ha. apply in_map_iff in Ha. destruct Ha as (b & <- & Hb). apply resolve_ok; auto.
    + (* list.empty() *) cbn [wfb] in Wf. apply unit_ok_lt in Wf. unfold step. cbn [step_with].
      apply (good_Good sd w _ HI). apply empty_good; auto. apply (InvS_side sd w HI).
    + (* unit.replace_with(None) *) destruct v as [v|]; [discriminate|]. cbn [wfb preb] in Wf, Pre.
      apply andb_true_iff in Wf. destruct Wf as [Wf _]. apply unit_ok_lt in Wf.
      unfold step. cbn [step_with]. now apply replace_with_none_Good.
    + (* Unit(ins=..., outs=...) *) unfold step. cbn [step_with]. now apply new_unit_Inv.
Qed.

Fixpoint within_pre (w : world) (ops : list op) : Prop :=
  match ops with
  | [] => True
  | o :: t => wfb w o = true /\ preb w o = true /\ within_pre (fst (step w o)) t
  end.

Theorem history_Inv_all ops : forall w, Inv w -> within_pre w ops -> Inv (run w ops).
Proof.
  unfold run. induction ops as [|o t IH]; intros w HI HW; simpl.
  - exact HI.
  - destruct HW as (Wf & Pre & HW). apply IH; [|exact HW]. now apply step_Inv_all.
Qed.

(* ================================================================ caller-owned lists *)
Lemma xstep_Inv xw x : Inv (fst xw) -> xwfb xw x = true -> xpreb xw x = true -> Inv (fst (fst (xstep xw x))).
Proof.
  destruct xw as [w st]. unfold xwfb, xpreb, xstep. cbn [fst snd]. intros HI Wf Pre.
  destruct (to_op st x) as [o|] eqn:E.
  - pose proof (step_Inv_all w o HI Wf Pre) as H. destruct (step w o) as [w' e]. exact H.
  - destruct x; try discriminate; cbn [fst].
    + exact HI.
    + destruct (i <? length (clist_of st k)); exact HI.
    + destruct (clist_of st k); exact HI.
Qed.
Lemma xstep_store_frame w st x o : to_op st x = Some o -> snd (fst (xstep (w, st) x)) = st.
Proof. intro E. unfold xstep. rewrite E. destruct (step w o). reflexivity. Qed.
Lemma xstep_by_value w st x o : to_op st x = Some o ->
  fst (fst (xstep (w, st) x)) = fst (step w o) /\ snd (xstep (w, st) x) = snd (step w o).
Proof. intro E. unfold xstep. rewrite E. destruct (step w o). split; reflexivity. Qed.
Lemma xstep_world_frame w st x : to_op st x = None -> fst (fst (xstep (w, st) x)) = w.
Proof.
  intro E. unfold xstep. rewrite E. destruct x; try discriminate; cbn [fst]; try reflexivity.
  - destruct (i <? length (clist_of st k)); reflexivity.
  - destruct (clist_of st k); reflexivity.
Qed.
Fixpoint xwithin (xw : xworld) (xs : list xop) : Prop :=
  match xs with
  | [] => True
  | x :: t => xwfb xw x = true /\ xpreb xw x = true /\ xwithin (fst (xstep xw x)) t
  end.
Theorem xhistory_Inv xs : forall xw, Inv (fst xw) -> xwithin xw xs -> Inv (fst (xrun xw xs)).
Proof.
  unfold xrun. induction xs as [|x t IH]; intros xw HI HW; simpl.
  - exact HI.
  - destruct HW as (Wf & Pre & HW). apply IH; [|exact HW]. now apply xstep_Inv.
Qed.

(* ================================================================ a small universe used by the examples in Props.v *)
Definition setup3 : list op :=
  [ONewUnit 1 1 true true FNone FNone; ONewUnit 2 1 false true FNone FNone; ONewUnit 2 2 true false FNone FNone].
Definition U3 : world := run (empty_world 5) setup3.
Lemma Inv_after pre : within_pre (empty_world 5) (setup3 ++ pre) -> Inv (run U3 pre).
Proof.
  intro H. unfold U3, run. rewrite <- fold_left_app. apply (history_Inv_all (setup3 ++ pre)); [apply Inv_empty | exact H].
Qed.
