From V Require Import C18.Model.
