From V Require Import C18.Model C18.Proofs.
