(* C18 — property theorems only.  Each is closed by [exact <lemma>] (examples by computation) and
   followed by Print Assumptions.

   Vocabulary (definitions in Model.v / Proofs.v):
     world        units' port lists [ports w SIn u] (= unit.ins) / [ports w SOut u] (= unit.outs), the
                  back-pointers [ptr w SIn x] (= x._sink) / [ptr w SOut x] (= x._source) of every stream
                  [S_ n] and placeholder [M_ n], fixed sizes, counters;
     step w o     the operation [o] of network.py run on [w] (world left behind, exception raised);
                  [step] is the source with pending_fixes/C18_1_pop_undock.diff applied, [step_found] the
                  source as found;
     wfb w o      o only mentions units and streams that exist in w;
     preb w o     the property's precondition for o in w (Model.v, "preconditions of the property");
     Inv w        the connection invariant; [C18_invariant_meaning] spells it out. *)
From Coq Require Import ZArith.
From V Require Import C18.Model C18.Proofs C18.ProofsDeep.
Close Scope Q_scope.
Open Scope nat_scope.

(* what [Inv] says: a stream is among a unit's inlets exactly when that unit is its sink, among its
   outlets exactly when it is its source; no object sits in two ports (of one list or of two units);
   fixed-size lists have their size; placeholders in a unit's list point back at it and are empty *)
Theorem C18_invariant_meaning : forall w, Inv w ->
  (forall u s, In (S_ s) (ports w SIn u) <-> ptr w SIn (S_ s) = Some u) /\
  (forall u s, In (S_ s) (ports w SOut u) <-> ptr w SOut (S_ s) = Some u) /\
  (forall sd u, NoDup (ports w sd u)) /\
  (forall sd u v x, In x (ports w sd u) -> In x (ports w sd v) -> u = v) /\
  (forall sd u, pfixed w sd u = true -> length (ports w sd u) = psize w sd u) /\
  (forall sd u m, In (M_ m) (ports w sd u) -> ptr w sd (M_ m) = Some u /\ is_real (M_ m) = false).
Proof. exact Inv_meaning. Qed.
Print Assumptions C18_invariant_meaning.

(* every modelled operation, used on existing units/streams and within its precondition,
   preserves the invariant (item/slice/extended-slice assignment and pipes, insert, append, extend, replace, pop,
   remove, clear (variable size), empty, disconnect_sink/source/disconnect, u1-u2,
   unit.disconnect(inlets, outlets, join_ends), unit.insert(stream, inlet, outlet), take_place_of, replace_with(other / None),
   Connection.reconnect, Unit(ins=..., outs=...) in all accepted forms) *)
Theorem C18_step : forall w o,
  Inv w -> wfb w o = true -> preb w o = true -> Inv (fst (step w o)).
Proof. exact step_Inv_all. Qed.
Print Assumptions C18_step.

(* lifted to every history, by induction; [within_pre w ops]: each operation is well-formed and within
   its precondition at the moment it is executed *)
Theorem C18_history : forall ops w, Inv w -> within_pre w ops -> Inv (run w ops).
Proof. exact history_Inv_all. Qed.
Print Assumptions C18_history.

(* ... in particular from scratch: no units yet, k streams; the units are created by the history *)
Theorem C18_history_from_scratch : forall k ops,
  within_pre (empty_world k) ops -> Inv (run (empty_world k) ops).
Proof. intros k ops. apply history_Inv_all. apply Inv_empty. Qed.
Print Assumptions C18_history_from_scratch.

(* a vacated port holds a new placeholder (remove; pop on a fixed-size list and
   disconnect_sink/source go through remove) and nothing else in that list moves *)
Theorem C18_vacated_port : forall sd w u x k, index_of x (ports w sd u) = Some k ->
  ports (fst (remove w sd u (RObj x))) sd u = upd (ports w sd u) k (M_ (fresh w)).
Proof. exact remove_vacates. Qed.
Print Assumptions C18_vacated_port.

(* Caller-owned lists.  The list object handed to Unit(ins=lst, outs=lst2), to L[a:b] = lst or to
   L.extend(lst) may be kept by the caller, passed again to another unit and edited afterwards.
   [xstep] runs histories over (world, store of caller lists):
   - such an operation is the plain operation on the contents the list has at the call
     (C18_list_argument_is_read_by_value) and leaves the caller's list as it was
     (C18_list_argument_is_left_alone);
   - the caller's own edits of its list change no port list and no sink/source
     (C18_caller_edit_leaves_the_flowsheet_alone): a unit owns its port lists;
   - the connection invariant holds along every such history (C18_history_with_caller_lists),
     e.g. the same list object used to build two units. *)
Theorem C18_list_argument_is_read_by_value : forall w st x o, to_op st x = Some o ->
  fst (fst (xstep (w, st) x)) = fst (step w o) /\ snd (xstep (w, st) x) = snd (step w o).
Proof. exact xstep_by_value. Qed.
Print Assumptions C18_list_argument_is_read_by_value.
Theorem C18_list_argument_is_left_alone : forall w st x o, to_op st x = Some o ->
  snd (fst (xstep (w, st) x)) = st.
Proof. exact xstep_store_frame. Qed.
Print Assumptions C18_list_argument_is_left_alone.
Theorem C18_caller_edit_leaves_the_flowsheet_alone : forall w st x, to_op st x = None ->
  fst (fst (xstep (w, st) x)) = w.
Proof. exact xstep_world_frame. Qed.
Print Assumptions C18_caller_edit_leaves_the_flowsheet_alone.
Theorem C18_history_with_caller_lists : forall xs xw,
  Inv (fst xw) -> xwithin xw xs -> Inv (fst (xrun xw xs)).
Proof. exact xhistory_Inv. Qed.
Print Assumptions C18_history_with_caller_lists.

(* pop(i), python index arithmetic included (negative i): on a fixed-size list exactly port i receives
   a new placeholder and every other port keeps its stream; on a variable-size list exactly port i goes *)
Theorem C18_pop_vacates_its_port : forall sd w u i k b, InvS sd w -> pfixed w sd u = true ->
  norm_index i (length (ports w sd u)) = Some k ->
  ports (fst (pop b w sd u i)) sd u = upd (ports w sd u) k (M_ (fresh w)).
Proof. exact pop_fixed_vacates. Qed.
Print Assumptions C18_pop_vacates_its_port.
Theorem C18_pop_variable_removes_its_port : forall sd w u i k b, pfixed w sd u = false ->
  norm_index i (length (ports w sd u)) = Some k ->
  ports (fst (pop b w sd u i)) sd u = remove_nth k (ports w sd u).
Proof. exact pop_var_shrinks. Qed.
Print Assumptions C18_pop_variable_removes_its_port.
(* L[i] = x writes port i only *)
Theorem C18_item_assignment_writes_its_port : forall sd w u i k x,
  norm_index i (length (ports w sd u)) = Some k ->
  ports (fst (set_stream w sd u i (RObj x))) sd u = upd (ports w sd u) k x.
Proof. exact set_stream_writes. Qed.
Print Assumptions C18_item_assignment_writes_its_port.

(* Whatever leaves a port is undocked, streams and placeholders alike (a placeholder may be shared by an
   outlet list and an inlet list, so a stale sink/source on it would stay visible through the other unit):
   the object overwritten by L[i] = x (hence by replace, remove, pop on a fixed list, disconnect_sink/source),
   the object popped from a variable-size list, everything dropped by clear() *)
Theorem C18_replaced_object_is_undocked : forall sd w u i k x,
  norm_index i (length (ports w sd u)) = Some k ->
  let old := nth k (ports w sd u) x in
  old <> x -> old <> M_ (fresh w) ->
  ptr (fst (set_stream w sd u i (RObj x))) sd old = None.
Proof. exact set_stream_undocks_old. Qed.
Print Assumptions C18_replaced_object_is_undocked.
Theorem C18_popped_object_is_undocked : forall sd w u i k, pfixed w sd u = false ->
  norm_index i (length (ports w sd u)) = Some k ->
  ptr (fst (pop true w sd u i)) sd (nth k (ports w sd u) (M_ 0)) = None.
Proof. exact pop_var_undocks. Qed.
Print Assumptions C18_popped_object_is_undocked.
Theorem C18_cleared_objects_are_undocked : forall sd w u y, pfixed w sd u = false -> In y (ports w sd u) ->
  ptr (fst (clear w sd u)) sd y = None.
Proof. exact clear_var_undocks. Qed.
Print Assumptions C18_cleared_objects_are_undocked.

(* The global form of the clause for placeholders: a placeholder that is reachable through a port list is listed
   wherever it points ([LiveP]; [Inv] has this for streams, and for placeholders only "listed => points back").
   Proved for EVERY modelled operation and every history within the preconditions (ProofsDeep.v: every operation
   has a pointer footprint [Eff] -- a pointer that dangles afterwards dangled before or belongs to a placeholder
   the operation created itself, and an old placeholder that is listed afterwards was reachable or harmless
   before).  [Unborn w]: placeholders that do not exist yet point nowhere; it holds in the empty world and is
   preserved, i.e. it holds in every reachable world. *)
Theorem C18_placeholder_backpointer_step : forall w o,
  Inv w -> LiveP w -> Unborn w -> wfb w o = true -> preb w o = true ->
  Inv (fst (step w o)) /\ LiveP (fst (step w o)) /\ Unborn (fst (step w o)).
Proof. intros w o HI HL HU. apply step_Live_all. split; [exact HI | split; assumption]. Qed.
Print Assumptions C18_placeholder_backpointer_step.
Theorem C18_placeholder_backpointer : forall ops w,
  Inv w -> LiveP w -> Unborn w -> within_pre w ops -> LiveP (run w ops).
Proof. exact placeholder_backpointer. Qed.
Print Assumptions C18_placeholder_backpointer.
Theorem C18_placeholder_backpointer_from_scratch : forall k ops,
  within_pre (empty_world k) ops -> LiveP (run (empty_world k) ops).
Proof. exact placeholder_backpointer_from_scratch. Qed.
Print Assumptions C18_placeholder_backpointer_from_scratch.
(* ... also along histories that pass caller-owned lists *)
Theorem C18_placeholder_backpointer_with_caller_lists : forall xs xw,
  Inv (fst xw) -> LiveP (fst xw) -> Unborn (fst xw) -> xwithin xw xs -> LiveP (fst (xrun xw xs)).
Proof. intros xs xw HI HL HU HW. apply (xhistory_Live xs xw); [split; [exact HI | split; assumption] | exact HW]. Qed.
Print Assumptions C18_placeholder_backpointer_with_caller_lists.

(* ---------------------------------------------------------------- examples *)
Ltac within_tac := vm_compute; repeat split; reflexivity.

(* non-vacuity: a history through most operations is within the hypotheses of C18_history *)
Definition demo : list op :=
  [OSet SOut 0 0%Z (AObj (S_ 0)); OSet SIn 1 0%Z (AObj (S_ 0)); OAppend SIn 1 (AObj (S_ 1));
   OSetSlice SIn 2 None None [AObj (S_ 2); ANone]; OSet SIn 2 1%Z (AObj (S_ 1)); OPipeUU 1 2;
   OInsert SOut 2 0%Z (AObj (S_ 3)); OExtend SOut 2 [AObj (S_ 4)]; OPop SOut 2 0%Z; OPop SIn 2 0%Z;
   OReplace SIn 1 (AObj (S_ 0)) (AAt SOut 0 0); ORemove SIn 1 (AAt SIn 1 0); ODisc SOut (AObj (S_ 0));
   OUnitDisconnect 2 true None None; OUnitDisconnect 1 false (Some [DIdx 0%Z; DArg (AAt SIn 1 1)]) (Some [DIdx 0%Z]); OTakePlaceOf 1 2; OReconnect (Some 0) 0%Z (AObj (S_ 2)) 1%Z (Some 1);
   OUnitInsert 0 (AObj (S_ 2)) PNone PNone; OUnitInsert 1 (AObj (S_ 2)) PNone PNone; ODiscBoth (AObj (S_ 2)); OClear SOut 2; OEmpty SIn 1;
   ONewUnit 2 2 true false (FList [IReal 0; INone]) (FList [INew; IReal 1; INone]);
   ONewUnit 1 1 true true (FOne (IReal 0)) FEmpty; OReplaceWith 3 None;
   ONewUnit 1 2 true true FNone FNone; OSet SOut 0 0%Z (AObj (S_ 3)); OSet SIn 1 0%Z (AObj (S_ 3));
   OUnitInsert 5 (AObj (S_ 3)) (PIndex 1%Z) (PIndex 0%Z);
   ONewUnit 3 1 false true FNone FNone; OSetSliceStep SIn 6 None None 2%Z [AObj (S_ 4); ANone];
   OSetSliceStep SIn 6 None None (-1)%Z [AObj (S_ 0); AObj (S_ 1); AObj (S_ 2)]].
Example C18_nonvacuous : within_pre (empty_world 5) (setup3 ++ demo) /\ Inv (run U3 demo).
Proof. assert (H : within_pre (empty_world 5) (setup3 ++ demo)) by within_tac. split; [exact H | now apply Inv_after]. Qed.
Definition xdemo : list xop :=
  [XNewUnit 2 1 false true (XV 0) (XF FNone); XNewUnit 2 1 false true (XV 0) (XF FNone);
   XCAppend 0 (IReal 2); XNewUnit 1 2 true false (XF FNone) (XV 1); XNewUnit 1 2 true false (XF FNone) (XV 1);
   XCPop 0; XCPop 0; XCPop 0; XCAppend 0 (IReal 4); XExtend SIn 0 0; XCSet 1 1 (IReal 2);
   XSlice SOut 3 None None 1; XCPop 1].
Example C18_caller_lists_nonvacuous :
  let xw0 := (empty_world 5, [[IReal 0; IReal 1]; [IReal 3; INone]]) in
  xwithin xw0 xdemo /\ Inv (fst (xrun xw0 xdemo)).
Proof.
  cbv zeta. assert (H : xwithin (empty_world 5, [[IReal 0; IReal 1]; [IReal 3; INone]]) xdemo) by within_tac.
  split; [exact H | apply xhistory_Inv; [apply Inv_empty | exact H]].
Qed.
Example C18_placeholder_backpointer_nonvacuous :
  Inv U3 /\ LiveP U3 /\ Unborn U3 /\ within_pre U3 demo /\ LiveP (run U3 demo).
Proof.
  assert (H0 : within_pre (empty_world 5) setup3) by within_tac.
  assert (L0 : InvL U3) by (apply (history_Live_all setup3 (empty_world 5)); [apply InvL_empty | exact H0]).
  destruct L0 as (HI & HL & HU).
  assert (H : within_pre U3 demo) by within_tac.
  split; [exact HI|]. split; [exact HL|]. split; [exact HU|]. split; [exact H|]. now apply placeholder_backpointer.
Qed.
Example C18_placeholder_backpointer_holds_along_demo :
  forallb (fun n => live_backb (run U3 (firstn n demo))) (seq 0 (S (length demo))) = true.
Proof. vm_compute. reflexivity. Qed.

(* DESIGN.md section 5 item 13: with the source as found, pop on a variable-size list breaks the
   invariant (the stream keeps its sink).  The repaired branch is the one [step] models. *)
Theorem C18_pop_as_found_refuted : exists w o,
  Inv w /\ wfb w o = true /\ preb w o = true /\ ~ Inv (fst (step_found w o)) /\ Inv (fst (step w o)).
Proof.
  exists (run U3 [OAppend SIn 1 (AObj (S_ 0))]), (OPop SIn 1 2%Z).
  assert (HI : Inv (run U3 [OAppend SIn 1 (AObj (S_ 0))])) by (apply Inv_after; within_tac).
  split; [exact HI|]. split; [reflexivity|]. split; [reflexivity|]. split.
  - apply not_Inv. vm_compute. reflexivity.
  - apply step_Inv_all; auto.
Qed.
Print Assumptions C18_pop_as_found_refuted.

(* each precondition is needed: dropping it admits an operation that breaks the invariant *)
Definition needed (pre : list op) (o : op) : Prop :=
  let w := run U3 pre in Inv w /\ wfb w o = true /\ preb w o = false /\ ~ Inv (fst (step w o)).
Ltac needed_tac :=
  unfold needed; cbv zeta; split; [apply Inv_after; within_tac|];
  split; [reflexivity|]; split; [reflexivity|]; apply not_Inv; vm_compute; reflexivity.

(* item assignment of a stream that already sits at another index of the same list *)
Example C18_set_precondition_needed :
  needed [OSet SIn 1 0%Z (AObj (S_ 0))] (OSet SIn 1 1%Z (AObj (S_ 0))).
Proof. needed_tac. Qed.
(* append of a stream that is docked at another unit on that side *)
Example C18_append_precondition_needed :
  needed [OSet SIn 0 0%Z (AObj (S_ 0))] (OAppend SIn 1 (AObj (S_ 0))).
Proof. needed_tac. Qed.
Example C18_extend_precondition_needed :
  needed [OSet SIn 0 0%Z (AObj (S_ 0))] (OExtend SIn 1 [AObj (S_ 0)]).
Proof. needed_tac. Qed.
(* a slice that supplies more streams than a fixed-size list holds: the list silently grows *)
Example C18_slice_size_precondition_needed :
  needed [] (OSetSlice SIn 0 None None [AObj (S_ 0); AObj (S_ 1)]).
Proof. needed_tac. Qed.
(* a slice with the same stream twice / with a stream that stays in the rest of the list *)
Example C18_slice_distinct_precondition_needed :
  needed [] (OSetSlice SIn 1 None None [AObj (S_ 0); AObj (S_ 0)]).
Proof. needed_tac. Qed.
Example C18_slice_disjoint_precondition_needed :
  needed [OSet SIn 1 0%Z (AObj (S_ 0))] (OSetSlice SIn 1 (Some 1%Z) None [AObj (S_ 0)]).
Proof. needed_tac. Qed.

(* an extended slice with fewer streams than positions: list.__setitem__ raises ValueError after the
   selected streams were undocked, so they stay listed without a sink *)
Example C18_extended_slice_length_precondition_needed :
  needed [OSet SIn 1 0%Z (AObj (S_ 0))] (OSetSliceStep SIn 1 None None (-1)%Z [AObj (S_ 1)]).
Proof. needed_tac. Qed.

(* reported separately (not among the property's operations): clear() on a fixed-size list
   re-creates the placeholders without undocking the streams it drops *)
Example C18_clear_fixed_breaks_invariant :
  needed [OSet SIn 0 0%Z (AObj (S_ 0))] (OClear SIn 0).
Proof. needed_tac. Qed.
(* reported separately: unit.insert(stream) on a unit whose outlets have variable size appends the
   stream to its outlets and then undocks it through source.outs.replace: outside "single default ports" *)
Example C18_unit_insert_variable_outlets_breaks_invariant :
  needed [OSet SOut 0 0%Z (AObj (S_ 0)); OSet SIn 1 0%Z (AObj (S_ 0))] (OUnitInsert 2 (AObj (S_ 0)) PNone PNone).
Proof. needed_tac. Qed.
