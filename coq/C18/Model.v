(* C18 — executable model of the docking state machine of thermosteam/network.py.
   Source modelled (branch for branch, as written):
     StreamSequence.{__init__, _create_missing_stream, _create_N_missing_streams,
       _initialize_missing_streams, _set_streams, _as_stream, _set_stream, empty, insert,
       append, extend, replace, index, pop, remove, clear, __setitem__}      (network.py:274-475)
     AbstractInlets / AbstractOutlets.{_create_missing_stream, _dock, _redock, _undock} (:478-561)
     AbstractStream / AbstractMissingStream.{disconnect_source, disconnect_sink, disconnect} (:112-125)
     InletPipe.__sub__, OutletPipe.__rsub__ (= item assignment)                 (:592-703)
     Connection.reconnect                                                      (:574-587)
     AbstractUnit.{__init__ (port lists), disconnect, insert (default ports), take_place_of,
       replace_with, __sub__, __rsub__}                                        (:1006-1052, :1579-1730)
   The two sides (inlets / sink pointers, outlets / source pointers) are the same code up to
   renaming, so every definition takes a [side].  Placeholders (AbstractMissingStream) are
   objects with their own _sink/_source, exactly like streams, so [ptr] is defined on both.
   An operation returns the world it leaves behind together with the exception class it
   raised, if any (Python leaves partially updated state behind when it raises).
   No proofs in this file. *)
From Coq Require Import ZArith Uint63.
From V Require Export Common.Num.
Close Scope Q_scope.
Open Scope nat_scope.

(* ---------- objects ---------- *)
Inductive obj := S_ (n : nat) | M_ (n : nat).      (* AbstractStream #n / AbstractMissingStream #n *)
Definition obj_eqb (a b : obj) : bool :=
  match a, b with S_ x, S_ y => x =? y | M_ x, M_ y => x =? y | _, _ => false end.
Definition is_real (x : obj) : bool := match x with S_ _ => true | M_ _ => false end.   (* bool(stream) *)

Inductive side := SIn | SOut.                       (* SIn: unit.ins & stream._sink; SOut: unit.outs & stream._source *)
Definition side_eqb (a b : side) : bool :=
  match a, b with SIn, SIn | SOut, SOut => true | _, _ => false end.
Definition other (sd : side) : side := match sd with SIn => SOut | SOut => SIn end.

Record world := mkW {
  ports  : side -> nat -> list obj;      (* unit._ins._streams / unit._outs._streams *)
  psize  : side -> nat -> nat;           (* _N_ins / _N_outs *)
  pfixed : side -> nat -> bool;          (* _ins_size_is_fixed / _outs_size_is_fixed *)
  ptr    : side -> obj -> option nat;    (* SIn: _sink, SOut: _source *)
  fresh  : nat;                          (* number of placeholder objects created so far *)
  nreal  : nat;                          (* number of AbstractStream objects created so far *)
  nunits : nat                           (* number of units created so far *)
}.

Definition upd_ports (w : world) (sd : side) (u : nat) (l : list obj) : world :=
  mkW (fun sd' u' => if side_eqb sd' sd && (u' =? u) then l else ports w sd' u')
      (psize w) (pfixed w) (ptr w) (fresh w) (nreal w) (nunits w).
Definition upd_ptr (w : world) (sd : side) (x : obj) (v : option nat) : world :=
  mkW (ports w) (psize w) (pfixed w)
      (fun sd' y => if side_eqb sd' sd && obj_eqb y x then v else ptr w sd' y)
      (fresh w) (nreal w) (nunits w).
Definition bump_fresh (w : world) : world :=
  mkW (ports w) (psize w) (pfixed w) (ptr w) (S (fresh w)) (nreal w) (nunits w).
Definition bump_real (w : world) : world :=
  mkW (ports w) (psize w) (pfixed w) (ptr w) (fresh w) (S (nreal w)) (nunits w).

Definition empty_world (k : nat) : world :=
  mkW (fun _ _ => []) (fun _ _ => 0) (fun _ _ => false) (fun _ _ => None) 0 k 0.

(* ---------- list helpers (python list semantics) ---------- *)
Fixpoint index_of (x : obj) (l : list obj) : option nat :=       (* list.index, first occurrence *)
  match l with
  | [] => None
  | y :: t => if obj_eqb y x then Some 0 else option_map S (index_of x t)
  end.
Definition mem (x : obj) (l : list obj) : bool := existsb (obj_eqb x) l.    (* stream in ins *)

Definition norm_index (i : Z) (n : nat) : option nat :=           (* list[i]; None = IndexError *)
  let i' := if (i <? 0)%Z then (i + Z.of_nat n)%Z else i in
  if ((0 <=? i') && (i' <? Z.of_nat n))%Z then Some (Z.to_nat i') else None.
Definition clampZ (i : option Z) (n dflt : nat) : nat :=          (* slice.indices, step 1 *)
  match i with
  | None => dflt
  | Some i => if (i <? 0)%Z then Z.to_nat (Z.max 0 (i + Z.of_nat n)) else Nat.min (Z.to_nat i) n
  end.
Definition slice_bounds (lo hi : option Z) (n : nat) : nat * nat :=
  let a := clampZ lo n 0 in (a, Nat.max a (clampZ hi n n)).
Definition insert_at (k : nat) (x : obj) (l : list obj) : list obj := firstn k l ++ x :: skipn k l.
Fixpoint remove_nth (k : nat) (l : list obj) : list obj :=
  match l, k with [] , _ => [] | _ :: t, O => t | h :: t, S j => h :: remove_nth j t end.

(* ---------- outcomes ---------- *)
Definition outcome := (world * option err)%type.
Definition ok (w : world) : outcome := (w, None).
Definition fail (w : world) (e : err) : outcome := (w, Some e).
Definition andthen (r : outcome) (f : world -> outcome) : outcome :=
  match r with (w, None) => f w | (w, Some e) => (w, Some e) end.

(* ---------- docking primitives ---------- *)
(* MissingStream(None, sink) for inlets, MissingStream(source, None) for outlets *)
Definition new_missing (w : world) (sd : side) (u : nat) : world * obj :=
  let m := M_ (fresh w) in
  (bump_fresh (upd_ptr (upd_ptr w sd m (Some u)) (other sd) m None), m).
Fixpoint new_missings (w : world) (sd : side) (u : nat) (n : nat) : world * list obj :=
  match n with
  | O => (w, [])
  | S n' => let (w1, m) := new_missing w sd u in
            let (w2, ms) := new_missings w1 sd u n' in (w2, m :: ms)
  end.
Definition undock (w : world) (sd : side) (x : obj) : world := upd_ptr w sd x None.
Definition dock (w : world) (sd : side) (u : nat) (x : obj) : world := upd_ptr w sd x (Some u).

(* [ins.remove(stream)] as reached from _redock, i.e. on another unit's list that contains the
   stream: remove -> replace(stream, new placeholder) -> index -> _set_stream(index, placeholder):
   _undock(stream); _redock(placeholder) finds placeholder._sink._ins is that same list and does
   nothing; the slot is overwritten. *)
Definition vacate (w : world) (sd : side) (v : nat) (x : obj) : world :=
  let (w1, m) := new_missing w sd v in
  match index_of x (ports w1 sd v) with
  | Some k => let w2 := undock w1 sd x in upd_ports w2 sd v (upd (ports w2 sd v) k m)
  | None => w1
  end.

(* AbstractInlets._redock / AbstractOutlets._redock on the list of unit u *)
Definition redock (w : world) (sd : side) (u : nat) (x : obj) : world :=
  match ptr w sd x with
  | Some v =>
      if v =? u then w                                     (* ins is self *)
      else if mem x (ports w sd v) then dock (vacate w sd v x) sd u x
      else dock w sd u x
  | None => dock w sd u x
  end.

(* ---------- arguments ---------- *)
Inductive arg := AObj (x : obj) | AAt (sd : side) (u k : nat) | ANone | AJunk.
Inductive rarg := RObj (x : obj) | RNone | RJunk.          (* a stream object / None / a non-stream *)
(* AAt names whatever object (stream or placeholder) currently sits in a port; the index is
   taken modulo the length, an empty list gives None (harness convention, same on both sides) *)
Definition resolve (w : world) (a : arg) : rarg :=
  match a with
  | AObj x => RObj x
  | AAt sd u k => match ports w sd u with
                  | [] => RNone
                  | d :: t => RObj (nth (k mod length (d :: t)) (d :: t) d)
                  end
  | ANone => RNone
  | AJunk => RJunk
  end.

(* inlet= / outlet= arguments of unit.insert as written in a history *)
Inductive port := PNone | PIndex (i : Z) | PArg (a : arg).
(* elements of the inlets= / outlets= lists of unit.disconnect as written in a history *)
Inductive ditem := DIdx (i : Z) | DArg (a : arg).
(* StreamSequence._as_stream *)
Definition as_stream (w : world) (sd : side) (u : nat) (a : rarg) : world * res obj :=
  match a with
  | RObj x => (w, Ok x)
  | RNone => let (w1, m) := new_missing w sd u in (w1, Ok m)
  | RJunk => (w, Err EType)
  end.
Fixpoint as_streams (w : world) (sd : side) (u : nat) (xs : list rarg) : world * res (list obj) :=
  match xs with
  | [] => (w, Ok [])
  | a :: t => match as_stream w sd u a with
              | (w1, Ok x) => match as_streams w1 sd u t with
                              | (w2, Ok l) => (w2, Ok (x :: l))
                              | (w2, Err e) => (w2, Err e)
                              end
              | (w1, Err e) => (w1, Err e)
              end
  end.

(* ---------- StreamSequence methods ---------- *)
(* _set_stream (L[i] = a) *)
Definition set_stream (w : world) (sd : side) (u : nat) (i : Z) (a : rarg) : outcome :=
  match as_stream w sd u a with
  | (w1, Err e) => fail w1 e
  | (w1, Ok x) =>
      let l := ports w1 sd u in
      match norm_index i (length l) with
      | Some k =>
          let old := nth k l x in
          let w2 := undock w1 sd old in
          let w3 := redock w2 sd u x in
          ok (upd_ports w3 sd u (upd (ports w3 sd u) k x))
      | None =>
          if (Z.of_nat (length l) <=? i)%Z && negb (pfixed w1 sd u)
          then let w3 := redock w1 sd u x in ok (upd_ports w3 sd u (ports w3 sd u ++ [x]))
          else fail w1 EIndex
      end
  end.

(* _set_streams (L[lo:hi] = xs) *)
Definition set_streams (w : world) (sd : side) (u : nat) (lo hi : option Z) (xs : list rarg) : outcome :=
  match as_streams w sd u xs with
  | (w1, Err e) => fail w1 e
  | (w1, Ok ys) =>
      let l := ports w1 sd u in
      let (a, b) := slice_bounds lo hi (length l) in
      let w2 := fold_left (fun w x => undock w sd x) (firstn (b - a) (skipn a l)) w1 in
      let l' := firstn a l ++ ys ++ skipn b l in
      let w3 := upd_ports w2 sd u l' in
      let w4 := fold_left (fun w x => redock w sd u x) l' w3 in
      if pfixed w4 sd u && (length l' <? psize w4 sd u)
      then let (w5, ms) := new_missings w4 sd u (psize w4 sd u - length l') in
           ok (upd_ports w5 sd u (ports w5 sd u ++ ms))
      else ok w4
  end.

(* _set_streams with an extended slice L[lo:hi:st] = xs (st other than 1; python treats st = 1 as a plain slice).
   Positions are the range given by slice(lo, hi, st).indices(len); the streams at those positions are undocked, then
   list.__setitem__ demands as many new streams as positions (ValueError otherwise, after the undocking),
   then every stream of the list is redocked. *)
Fixpoint zrange (fuel : nat) (cur stop st : Z) : list nat :=
  match fuel with
  | O => []
  | S f => if (if (0 <? st)%Z then (cur <? stop)%Z else (stop <? cur)%Z)
           then Z.to_nat cur :: zrange f (cur + st)%Z stop st else []
  end.
Definition ext_indices (lo hi : option Z) (st : Z) (n : nat) : list nat :=
  let nz := Z.of_nat n in
  if (0 <? st)%Z then zrange n (Z.of_nat (clampZ lo n 0)) (Z.of_nat (clampZ hi n n)) st
  else
    let cl (i : option Z) (dflt : Z) : Z :=
      match i with
      | None => dflt
      | Some i => if (i <? 0)%Z then Z.max (-1) (i + nz) else Z.min i (nz - 1)
      end in
    zrange n (cl lo (nz - 1)%Z) (cl hi (-1)%Z) st.
Definition assign (l : list obj) (idxs : list nat) (ys : list obj) : list obj :=
  fold_left (fun l p => upd l (fst p) (snd p)) (combine idxs ys) l.
Definition set_streams_step (w : world) (sd : side) (u : nat) (lo hi : option Z) (st : Z) (xs : list rarg) : outcome :=
  if (st =? 1)%Z then set_streams w sd u lo hi xs else
  match as_streams w sd u xs with
  | (w1, Err e) => fail w1 e
  | (w1, Ok ys) =>
      if (st =? 0)%Z then fail w1 EValue else        (* slice step cannot be zero *)
      let l := ports w1 sd u in
      let idxs := ext_indices lo hi st (length l) in
      let w2 := fold_left (fun w x => undock w sd x) (map (fun i => nth i l (M_ 0)) idxs) w1 in
      if negb (length ys =? length idxs) then fail w2 EValue else
      let l' := assign l idxs ys in
      let w3 := upd_ports w2 sd u l' in
      let w4 := fold_left (fun w x => redock w sd u x) l' w3 in
      if pfixed w4 sd u && (length l' <? psize w4 sd u)
      then let (w5, ms) := new_missings w4 sd u (psize w4 sd u - length l') in
           ok (upd_ports w5 sd u (ports w5 sd u ++ ms))
      else ok w4
  end.

Definition size_is_fixed (w : world) (sd : side) (u : nat) : bool := pfixed w sd u.

(* insert(index, stream): list.insert clamps the index *)
Definition insert_stream (w : world) (sd : side) (u : nat) (i : option Z) (a : rarg) : outcome :=
  if pfixed w sd u then fail w ERuntime
  else match a with
       | RObj x =>
           let w1 := dock (undock w sd x) sd u x in
           let l := ports w1 sd u in
           let k := match i with Some i => clampZ (Some i) (length l) 0 | None => length l end in
           ok (upd_ports w1 sd u (insert_at k x l))
       | _ => fail w EOther                      (* None._sink = None : AttributeError *)
       end.
(* extend(streams) *)
Fixpoint extend_streams (w : world) (sd : side) (u : nat) (xs : list rarg) : outcome :=
  match xs with
  | [] => ok w
  | a :: t => andthen (insert_stream w sd u None a) (fun w1 => extend_streams w1 sd u t)
  end.
Definition extend (w : world) (sd : side) (u : nat) (xs : list rarg) : outcome :=
  if pfixed w sd u then fail w ERuntime else extend_streams w sd u xs.

(* replace(stream, other) = self[self.index(stream)] = other *)
Definition replace (w : world) (sd : side) (u : nat) (a b : rarg) : outcome :=
  match a with
  | RObj x => match index_of x (ports w sd u) with
              | Some k => set_stream w sd u (Z.of_nat k) b
              | None => fail w EValue
              end
  | _ => fail w EValue
  end.

(* remove(stream) = replace(stream, new placeholder) *)
Definition remove (w : world) (sd : side) (u : nat) (a : rarg) : outcome :=
  let (w1, m) := new_missing w sd u in replace w1 sd u a (RObj m).

(* pop(index).  [fixed_pop]: the variable-size branch after the proposed repair
   (pending_fixes/C18_1_pop_undock.diff) undocks the popped stream; [false] = the code as found. *)
Definition pop (undock_on_pop : bool) (w : world) (sd : side) (u : nat) (i : Z) : outcome :=
  let l := ports w sd u in
  if pfixed w sd u then
    match norm_index i (length l) with
    | Some k => let x := nth k l (M_ 0) in
                let (w1, m) := new_missing w sd u in replace w1 sd u (RObj x) (RObj m)
    | None => fail w EIndex
    end
  else
    match norm_index i (length l) with
    | Some k => let x := nth k l (M_ 0) in
                let w1 := upd_ports w sd u (remove_nth k l) in
                ok (if undock_on_pop then undock w1 sd x else w1)
    | None => fail w EIndex
    end.

Definition undock_all (w : world) (sd : side) (l : list obj) : world :=
  fold_left (fun w x => undock w sd x) l w.
Definition init_missing (w : world) (sd : side) (u : nat) : world :=     (* _initialize_missing_streams *)
  let (w1, ms) := new_missings w sd u (psize w sd u) in upd_ports w1 sd u ms.
Definition clear (w : world) (sd : side) (u : nat) : outcome :=
  if pfixed w sd u then ok (init_missing w sd u)
  else ok (upd_ports (undock_all w sd (ports w sd u)) sd u []).
Definition empty (w : world) (sd : side) (u : nat) : outcome :=
  ok (init_missing (undock_all w sd (ports w sd u)) sd u).

(* stream.disconnect_sink() / disconnect_source() *)
Definition disconnect_side (w : world) (sd : side) (a : rarg) : outcome :=
  match a with
  | RObj x => match ptr w sd x with
              | Some v => remove w sd v (RObj x)
              | None => ok w
              end
  | _ => fail w EOther
  end.

(* ---------- unit-level operations ---------- *)
Definition robjs (l : list obj) : list rarg := map RObj l.

(* AbstractUnit.disconnect(inlets=..., outlets=..., join_ends=join).
   An element of the inlets / outlets lists: an int, a stream object, or something else (None) *)
Inductive rditem := RDIdx (i : Z) | RDObj (x : obj) | RDBad.
(* for i in inlets: ins[ins.index(i) if isinstance(i, AbstractStream) else i] = None
   for o in outlets: outs[ins.index(o) if isinstance(o, AbstractStream) else o] = None   (ins.index in both, as written) *)
Fixpoint disc_items (w : world) (sd : side) (u : nat) (its : list rditem) : outcome :=
  match its with
  | [] => ok w
  | it :: t =>
      andthen (match it with
               | RDObj x => if is_real x
                            then match index_of x (ports w SIn u) with
                                 | Some k => set_stream w sd u (Z.of_nat k) RNone
                                 | None => fail w EValue
                                 end
                            else fail w EIndex          (* a placeholder / None as index: IndexError *)
               | RDIdx i => set_stream w sd u i RNone
               | RDBad => fail w EIndex
               end) (fun w1 => disc_items w1 sd u t)
  end.
Definition disc_side (w : world) (sd : side) (u : nat) (o : option (list rditem)) : outcome :=
  match o with
  | None => set_streams w sd u None None []       (* ins[:] = () *)
  | Some its => disc_items w sd u its
  end.
(* for inlet, outlet in zip(inlets, outlets): if outlet.sink: outlet.sink.ins.replace(outlet, inlet);
   an int has no .sink (AttributeError); an int as inlet is rejected by _as_stream (TypeError) *)
Fixpoint join_ends (w : world) (ios : list (rarg * option obj)) : outcome :=
  match ios with
  | [] => ok w
  | (inlet, None) :: _ => fail w EOther
  | (inlet, Some outlet) :: t =>
      match ptr w SIn outlet with
      | Some v => andthen (replace w SIn v (RObj outlet) inlet) (fun w1 => join_ends w1 t)
      | None => join_ends w t
      end
  end.
Definition as_inlet (it : rditem) : rarg := match it with RDObj x => RObj x | RDIdx _ => RJunk | RDBad => RNone end.
Definition as_outlet (it : rditem) : option obj := match it with RDObj x => Some x | _ => None end.
Definition join_list (w w1 : world) (u : nat) (pi po : option (list rditem)) : list (rarg * option obj) :=
  combine (match pi with None => map RObj (filter is_real (ports w SIn u)) | Some its => map as_inlet its end)
          (match po with None => map Some (filter is_real (ports w1 SOut u)) | Some its => map as_outlet its end).
Definition join_len_ok (w w1 : world) (u : nat) (pi po : option (list rditem)) : bool :=
  length (match pi with None => map RObj (filter is_real (ports w SIn u)) | Some its => map as_inlet its end)
  =? length (match po with None => map Some (filter is_real (ports w1 SOut u)) | Some its => map as_outlet its end).
Definition unit_disconnect (w : world) (u : nat) (join : bool) (pi po : option (list rditem)) : outcome :=
  andthen (disc_side w SIn u pi) (fun w1 =>
  andthen (disc_side w1 SOut u po) (fun w2 =>
  if join then
    if negb (join_len_ok w w1 u pi po) then fail w2 EValue
    else join_ends w2 (join_list w w1 u pi po)
  else ok w2)).

(* AbstractUnit.insert(stream) with inlet=None, outlet=None *)
Definition hd_arg (l : list obj) : option obj := match l with [] => None | x :: _ => Some x end.
(* the inlet= / outlet= arguments: None, an int, or a stream object *)
Inductive rport := RPNone | RPIndex (i : Z) | RPObj (x : obj).
(* [outlet = self.outs[outlet]] and, as written in the source, also [inlet = self.outs[inlet]] for an int;
   for an AbstractStream the test [outlet.source is not self] / [inlet.sink is not self] (side [chk]);
   a placeholder object is not an AbstractStream and is used as a list index: TypeError *)
Definition explicit_port (w : world) (u : nat) (chk : side) (p : rport) : res obj :=
  match p with
  | RPObj y => if is_real y
               then match ptr w chk y with
                    | Some v => if v =? u then Ok y else Err EValue
                    | None => Err EValue
                    end
               else Err EType
  | RPIndex i => match norm_index i (length (ports w SOut u)) with
                 | Some k => Ok (nth k (ports w SOut u) (M_ 0))
                 | None => Err EIndex
                 end
  | RPNone => Err EOther
  end.
(* first block of insert(): the downstream side *)
Definition insert_out (w : world) (u : nat) (s : obj) (ro : rport) : outcome :=
  let sink := ptr w SIn s in
  match ro with
  | RPNone =>
      if pfixed w SOut u then
        if psize w SOut u =? 1 then
          match sink with
          | None => fail w EOther                              (* None.ins *)
          | Some v => match hd_arg (ports w SOut u) with
                      | Some y => replace w SIn v (RObj s) (RObj y)
                      | None => fail w EIndex
                      end
          end
        else fail w EValue
      else insert_stream w SOut u None (RObj s)
  | _ => match explicit_port w u SOut ro with
         | Err e => fail w e
         | Ok y => match sink with
                   | None => fail w EOther
                   | Some v => replace w SIn v (RObj s) (RObj y)
                   end
         end
  end.
(* second block: the upstream side; [source] was read before the first block ran *)
Definition insert_in (w1 : world) (u : nat) (s : obj) (source : option nat) (added : bool) (ri : rport) : outcome :=
  match ri with
  | RPNone =>
      if pfixed w1 SIn u || added then
        if psize w1 SIn u =? 1 then
          match source with
          | None => fail w1 EOther
          | Some t => match hd_arg (ports w1 SIn u) with
                      | Some z => replace w1 SOut t (RObj s) (RObj z)
                      | None => fail w1 EIndex
                      end
          end
        else fail w1 EValue
      else insert_stream w1 SIn u None (RObj s)
  | _ => match explicit_port w1 u SIn ri with
         | Err e => fail w1 e
         | Ok z => match source with
                   | None => fail w1 EOther
                   | Some t => replace w1 SOut t (RObj s) (RObj z)
                   end
         end
  end.
(* AbstractUnit.insert(stream, inlet, outlet) *)
Definition unit_insert (w : world) (u : nat) (a : rarg) (ri ro : rport) : outcome :=
  match a with
  | RObj s =>
      let source := ptr w SOut s in
      let added := match ro with RPNone => negb (pfixed w SOut u) | _ => false end in
      andthen (insert_out w u s ro) (fun w1 => insert_in w1 u s source added ri)
  | _ => fail w EOther                                           (* None.source *)
  end.

Definition resolve_item (w : world) (d : ditem) : rditem :=
  match d with
  | DIdx i => RDIdx i
  | DArg a => match resolve w a with RObj x => RDObj x | RNone => RDBad | RJunk => RDIdx 7%Z end
  end.
Definition resolve_items (w : world) (o : option (list ditem)) : option (list rditem) :=
  option_map (map (resolve_item w)) o.
Definition resolve_port (w : world) (p : port) : rport :=
  match p with
  | PNone => RPNone
  | PIndex i => RPIndex i
  | PArg a => match resolve w a with RObj x => RPObj x | RNone => RPNone | RJunk => RPIndex 7%Z end
  end.

(* take_place_of / replace_with(other) *)
Definition take_place_of (w : world) (u v : nat) : outcome :=
  andthen (set_streams w SIn u None None (robjs (ports w SIn v))) (fun w1 =>
  set_streams w1 SOut u None None (robjs (ports w1 SOut v))).
(* replace_with(None) *)
Fixpoint bypass (w : world) (ios : list (obj * obj)) : outcome :=
  match ios with
  | [] => ok w
  | (inlet, outlet) :: t =>
      match ptr w SOut inlet with
      | Some src => andthen (replace w SOut src (RObj inlet) (RObj outlet)) (fun w1 => bypass w1 t)
      | None => match ptr w SIn outlet with
                | Some snk => andthen (replace w SIn snk (RObj outlet) (RObj inlet)) (fun w1 => bypass w1 t)
                | None => bypass w t
                end
      end
  end.
Definition replace_with (w : world) (u : nat) (v : option nat) : outcome :=
  match v with
  | Some v => take_place_of w v u
  | None => andthen (bypass w (combine (ports w SIn u) (ports w SOut u))) (fun w1 =>
            andthen (empty w1 SIn u) (fun w2 => empty w2 SOut u))
  end.

(* Connection(source, source_index, stream, sink_index, sink).reconnect() (no auxiliary owners) *)
Definition reconnect (w : world) (src : option nat) (si : Z) (a : rarg) (ki : Z) (snk : option nat) : outcome :=
  andthen (match src with
           | Some t => set_stream w SOut t si a
           | None => disconnect_side w SOut a
           end) (fun w1 =>
  match snk with
  | Some v => set_stream w1 SIn v ki a
  | None => disconnect_side w1 SIn a
  end).

(* ---------- unit construction: StreamSequence.__init__ ---------- *)
Inductive item := INew | IReal (n : nat) | INone.       (* 'name' / stream object / None *)
Inductive form := FNone | FEmpty | FOne (it : item) | FList (its : list item).
                  (* None / () / a single str or stream / a list *)

Definition new_stream_docked (w : world) (sd : side) (u : nat) : world * obj :=   (* dock(Stream(...)) *)
  let s := S_ (nreal w) in (dock (bump_real w) sd u s, s).
Fixpoint new_streams_docked (w : world) (sd : side) (u : nat) (n : nat) : world * list obj :=
  match n with
  | O => (w, [])
  | S n' => let (w1, s) := new_stream_docked w sd u in
            let (w2, ss) := new_streams_docked w1 sd u n' in (w2, s :: ss)
  end.
(* list element, fixed-size branch: redock(i) if isa(i, Stream) else dock(Stream(i)) — None gives a new stream *)
Fixpoint init_items_fixed (w : world) (sd : side) (u : nat) (its : list item) : world * list obj :=
  match its with
  | [] => (w, [])
  | it :: t =>
      let (w1, x) := match it with
                     | IReal n => (redock w sd u (S_ n), S_ n)
                     | _ => new_stream_docked w sd u
                     end in
      let (w2, xs) := init_items_fixed w1 sd u t in (w2, x :: xs)
  end.
(* list element, variable-size branch: None gives a placeholder *)
Fixpoint init_items_var (w : world) (sd : side) (u : nat) (its : list item) : world * list obj :=
  match its with
  | [] => (w, [])
  | it :: t =>
      let (w1, x) := match it with
                     | IReal n => (redock w sd u (S_ n), S_ n)
                     | INone => new_missing w sd u
                     | INew => new_stream_docked w sd u
                     end in
      let (w2, xs) := init_items_var w1 sd u t in (w2, x :: xs)
  end.
Definition init_ports (w : world) (sd : side) (u : nat) (f : form) : outcome :=
  let size := psize w sd u in
  match f with
  | FEmpty => let (w1, ss) := new_streams_docked w sd u size in ok (upd_ports w1 sd u ss)
  | _ =>
    if pfixed w sd u then
      let w0 := init_missing w sd u in
      match f with
      | FOne it => if size =? 0 then fail w0 EIndex else
                   let (w1, xs) := init_items_fixed w0 sd u [it] in
                   ok (upd_ports w1 sd u (xs ++ skipn 1 (ports w1 sd u)))
      | FList its => if size <? length its then fail w0 ERuntime else
                     let (w1, xs) := init_items_fixed w0 sd u its in
                     ok (upd_ports w1 sd u (xs ++ skipn (length its) (ports w1 sd u)))
      | _ => ok w0
      end
    else
      match f with
      | FOne it => let (w1, xs) := init_items_var w sd u [match it with INone => INew | i => i end] in
                   ok (upd_ports w1 sd u xs)
      | FList its => let (w1, xs) := init_items_var w sd u its in ok (upd_ports w1 sd u xs)
      | _ => ok (init_missing w sd u)
      end
  end.
Definition new_unit (w : world) (nin nout : nat) (fin fout : bool) (fi fo : form) : outcome :=
  let u := nunits w in
  let w0 := mkW (ports w)
                (fun sd v => if v =? u then (match sd with SIn => nin | SOut => nout end) else psize w sd v)
                (fun sd v => if v =? u then (match sd with SIn => fin | SOut => fout end) else pfixed w sd v)
                (ptr w) (fresh w) (nreal w) (S u) in
  (* when the constructor raises no unit object is returned: the world is left as it was
     (the harness never lets the outlet list raise after inlets were docked) *)
  match init_ports w0 SIn u fi with
  | (w1, None) => match init_ports w1 SOut u fo with
                  | (w2, None) => ok w2
                  | (_, Some e) => fail w e
                  end
  | (_, Some e) => fail w e
  end.

(* ---------- operations of a history ---------- *)
Inductive op :=
| OSet (sd : side) (u : nat) (i : Z) (a : arg)                 (* L[i] = a;  s-i-u;  u-(i-s);  u**i**s *)
| OSetSlice (sd : side) (u : nat) (lo hi : option Z) (xs : list arg)   (* L[lo:hi] = xs;  xs-u;  u-xs *)
| OSetSliceStep (sd : side) (u : nat) (lo hi : option Z) (st : Z) (xs : list arg)   (* L[lo:hi:st] = xs *)
| OInsert (sd : side) (u : nat) (i : Z) (a : arg)
| OAppend (sd : side) (u : nat) (a : arg)
| OExtend (sd : side) (u : nat) (xs : list arg)
| OReplace (sd : side) (u : nat) (a b : arg)
| OPop (sd : side) (u : nat) (i : Z)
| ORemove (sd : side) (u : nat) (a : arg)
| OClear (sd : side) (u : nat)
| OEmpty (sd : side) (u : nat)
| ODisc (sd : side) (a : arg)                                  (* a.disconnect_sink() / a.disconnect_source() *)
| ODiscBoth (a : arg)                                          (* a.disconnect() *)
| OPipeUU (u1 u2 : nat)                                        (* u1 - u2 *)
| OUnitDisconnect (u : nat) (join : bool) (pi po : option (list ditem))   (* u.disconnect(inlets=pi, outlets=po, join_ends=join) *)
| OUnitInsert (u : nat) (a : arg) (pin pout : port)               (* u.insert(a, inlet=inl, outlet=outl) *)
| OTakePlaceOf (u v : nat)
| OReplaceWith (u : nat) (v : option nat)
| OReconnect (src : option nat) (si : Z) (a : arg) (ki : Z) (snk : option nat)
| ONewUnit (nin nout : nat) (fin fout : bool) (fi fo : form).

Definition step_with (undock_on_pop : bool) (w : world) (o : op) : outcome :=
  match o with
  | OSet sd u i a => set_stream w sd u i (resolve w a)
  | OSetSlice sd u lo hi xs => set_streams w sd u lo hi (map (resolve w) xs)
  | OSetSliceStep sd u lo hi st xs => set_streams_step w sd u lo hi st (map (resolve w) xs)
  | OInsert sd u i a => insert_stream w sd u (Some i) (resolve w a)
  | OAppend sd u a => insert_stream w sd u None (resolve w a)
  | OExtend sd u xs => extend w sd u (map (resolve w) xs)
  | OReplace sd u a b => replace w sd u (resolve w a) (resolve w b)
  | OPop sd u i => pop undock_on_pop w sd u i
  | ORemove sd u a => remove w sd u (resolve w a)
  | OClear sd u => clear w sd u
  | OEmpty sd u => empty w sd u
  | ODisc sd a => disconnect_side w sd (resolve w a)
  | ODiscBoth a => let r := resolve w a in
                   andthen (disconnect_side w SOut r) (fun w1 => disconnect_side w1 SIn r)
  | OPipeUU u1 u2 => set_streams w SIn u2 None None (robjs (ports w SOut u1))
  | OUnitDisconnect u join pi po => unit_disconnect w u join (resolve_items w pi) (resolve_items w po)
  | OUnitInsert u a pin pout => unit_insert w u (resolve w a) (resolve_port w pin) (resolve_port w pout)
  | OTakePlaceOf u v => take_place_of w u v
  | OReplaceWith u v => replace_with w u v
  | OReconnect src si a ki snk => reconnect w src si (resolve w a) ki snk
  | ONewUnit nin nout fin fout fi fo => new_unit w nin nout fin fout fi fo
  end.

(* the model of the code: pop on a variable-size list undocks (repaired source,
   pending_fixes/C18_1_pop_undock.diff).  [step_found] is the code as found in the tree. *)
Definition step : world -> op -> outcome := step_with true.
Definition step_found : world -> op -> outcome := step_with false.

Definition run (w : world) (ops : list op) : world := fold_left (fun w o => fst (step w o)) ops w.

(* ---------- preconditions of the property (decidable) ---------- *)
Fixpoint nodupb (l : list obj) : bool :=
  match l with [] => true | x :: t => negb (mem x t) && nodupb t end.
Fixpoint robj_list (xs : list rarg) : option (list (option obj)) :=     (* None if a non-stream occurs *)
  match xs with
  | [] => Some []
  | RJunk :: _ => None
  | RObj x :: t => option_map (cons (Some x)) (robj_list t)
  | RNone :: t => option_map (cons None) (robj_list t)
  end.
Fixpoint somes (l : list (option obj)) : list obj :=
  match l with [] => [] | Some x :: t => x :: somes t | None :: t => somes t end.

(* L[i] = x: x is not already in L at another index *)
Definition pre_set (w : world) (sd : side) (u : nat) (i : Z) (a : rarg) : bool :=
  match a with
  | RObj x => let l := ports w sd u in
              match index_of x l, norm_index i (length l) with
              | Some j, Some k => j =? k
              | Some _, None => false
              | None, _ => true
              end
  | _ => true
  end.
(* L[lo:hi] = xs: xs distinct, disjoint from the part of L that stays, result fits a fixed size *)
Definition pre_slice (w : world) (sd : side) (u : nat) (lo hi : option Z) (xs : list rarg) : bool :=
  match robj_list xs with
  | None => true                                   (* TypeError before anything is touched *)
  | Some ys =>
      let l := ports w sd u in
      let (a, b) := slice_bounds lo hi (length l) in
      let keep := firstn a l ++ skipn b l in
      nodupb (somes ys) && forallb (fun x => negb (mem x keep)) (somes ys)
      && (negb (pfixed w sd u) || (length keep + length ys <=? psize w sd u))
  end.
(* L[lo:hi:st] = xs: as many streams as positions, distinct, none of them already in the list *)
Definition pre_slice_step (w : world) (sd : side) (u : nat) (lo hi : option Z) (st : Z) (xs : list rarg) : bool :=
  if (st =? 1)%Z then pre_slice w sd u lo hi xs else
  match robj_list xs with
  | None => true
  | Some ys =>
      if (st =? 0)%Z then true else
      let l := ports w sd u in
      (length ys =? length (ext_indices lo hi st (length l))) && nodupb (somes ys)
      && forallb (fun x => negb (mem x l)) (somes ys)
  end.
(* insert / append: variable list (otherwise it raises), stream not docked on that side *)
Definition pre_insert (w : world) (sd : side) (u : nat) (a : rarg) : bool :=
  pfixed w sd u ||
  match a with
  | RObj x => match ptr w sd x with None => true | Some _ => false end
  | _ => true
  end.
Fixpoint before_error (xs : list rarg) : list obj :=
  match xs with RObj x :: t => x :: before_error t | _ => [] end.
Definition pre_extend (w : world) (sd : side) (u : nat) (xs : list rarg) : bool :=
  pfixed w sd u ||
  (nodupb (before_error xs) &&
   forallb (fun x => match ptr w sd x with None => true | Some _ => false end) (before_error xs)).
Definition pre_replace (w : world) (sd : side) (u : nat) (a b : rarg) : bool :=
  match a with
  | RObj x => match index_of x (ports w sd u) with
              | Some k => pre_set w sd u (Z.of_nat k) b
              | None => true
              end
  | _ => true
  end.

(* compound operations: every item/slice assignment they perform meets the precondition above
   at the moment it is performed *)
Fixpoint pre_join (w : world) (ios : list (rarg * option obj)) : bool :=
  match ios with
  | [] => true
  | (inlet, None) :: _ => true
  | (inlet, Some outlet) :: t =>
      match ptr w SIn outlet with
      | Some v => pre_replace w SIn v (RObj outlet) inlet
                  && pre_join (fst (replace w SIn v (RObj outlet) inlet)) t
      | None => pre_join w t
      end
  end.
Fixpoint pre_bypass (w : world) (ios : list (obj * obj)) : bool :=
  match ios with
  | [] => true
  | (inlet, outlet) :: t =>
      match ptr w SOut inlet with
      | Some src => pre_replace w SOut src (RObj inlet) (RObj outlet)
                    && pre_bypass (fst (replace w SOut src (RObj inlet) (RObj outlet))) t
      | None => match ptr w SIn outlet with
                | Some snk => pre_replace w SIn snk (RObj outlet) (RObj inlet)
                              && pre_bypass (fst (replace w SIn snk (RObj outlet) (RObj inlet))) t
                | None => pre_bypass w t
                end
      end
  end.
Definition pre_take_place_of (w : world) (u v : nat) : bool :=
  pre_slice w SIn u None None (robjs (ports w SIn v)) &&
  (let w1 := fst (set_streams w SIn u None None (robjs (ports w SIn v))) in
   pre_slice w1 SOut u None None (robjs (ports w1 SOut v))).

Definition item_reals (its : list item) : list obj :=
  flat_map (fun it => match it with IReal n => [S_ n] | _ => [] end) its.
Definition form_items (f : form) : list item :=
  match f with FOne it => [it] | FList its => its | _ => [] end.
Definition pre_form (fixed : bool) (size : nat) (f : form) : bool :=
  nodupb (item_reals (form_items f)) &&
  (negb fixed || match f with FOne _ => 1 <=? size | FList its => length its <=? size | _ => true end).

(* unit.insert: the stream has a sink; the downstream block assigns the chosen outlet (default: the single
   outlet of a fixed one-outlet unit) in the stream's place among the sink's inlets; the upstream block either
   assigns the chosen inlet (default: the single inlet of a fixed one-inlet unit) in the stream's place among
   the source's outlets, or appends the stream to a variable-size inlet list (the docstring's
   M1.insert(P1-0)); each assignment / append meets its own precondition when it is performed *)
Definition pre_insert_out (w : world) (u : nat) (s : obj) (ro : rport) : bool :=
  match ptr w SIn s with
  | None => false
  | Some v =>
      match ro with
      | RPNone => pfixed w SOut u && (psize w SOut u =? 1) &&
                  match hd_arg (ports w SOut u) with
                  | Some y => pre_replace w SIn v (RObj s) (RObj y)
                  | None => false
                  end
      | _ => match explicit_port w u SOut ro with
             | Ok y => pre_replace w SIn v (RObj s) (RObj y)
             | Err _ => false
             end
      end
  end.
Definition pre_insert_in (w w1 : world) (u : nat) (s : obj) (ri : rport) : bool :=
  match ri with
  | RPNone =>
      if pfixed w1 SIn u then
        (psize w1 SIn u =? 1) &&
        match ptr w SOut s with
        | Some t => match hd_arg (ports w1 SIn u) with
                    | Some z => pre_replace w1 SOut t (RObj s) (RObj z)
                    | None => true
                    end
        | None => false
        end
      else pre_insert w1 SIn u (RObj s)
  | _ => match explicit_port w1 u SIn ri, ptr w SOut s with
         | Ok z, Some t => pre_replace w1 SOut t (RObj s) (RObj z)
         | _, _ => false
         end
  end.

Definition preb (w : world) (o : op) : bool :=
  match o with
  | OSet sd u i a => pre_set w sd u i (resolve w a)
  | OSetSlice sd u lo hi xs => pre_slice w sd u lo hi (map (resolve w) xs)
  | OSetSliceStep sd u lo hi st xs => pre_slice_step w sd u lo hi st (map (resolve w) xs)
  | OInsert sd u _ a | OAppend sd u a => pre_insert w sd u (resolve w a)
  | OExtend sd u xs => pre_extend w sd u (map (resolve w) xs)
  | OReplace sd u a b => pre_replace w sd u (resolve w a) (resolve w b)
  | OPop _ _ _ | ORemove _ _ _ | OEmpty _ _ | ODisc _ _ | ODiscBoth _ => true
  | OClear sd u => negb (pfixed w sd u)            (* clear() of a fixed-size list is outside the property *)
  | OPipeUU u1 u2 => pre_slice w SIn u2 None None (robjs (ports w SOut u1))
  | OUnitDisconnect u join pi po =>
      if join then
        let ri := resolve_items w pi in let ro := resolve_items w po in
        let w1 := fst (disc_side w SIn u ri) in
        let w2 := fst (disc_side w1 SOut u ro) in
        negb (join_len_ok w w1 u ri ro) || pre_join w2 (join_list w w1 u ri ro)
      else true
  | OUnitInsert u a pin pout =>
      match resolve w a with
      | RObj s => pre_insert_out w u s (resolve_port w pout) &&
                  pre_insert_in w (fst (insert_out w u s (resolve_port w pout))) u s (resolve_port w pin)
      | _ => true
      end
  | OTakePlaceOf u v => pre_take_place_of w u v
  | OReplaceWith u (Some v) => pre_take_place_of w v u
  | OReplaceWith u None => pre_bypass w (combine (ports w SIn u) (ports w SOut u))
  | OReconnect src si a ki snk =>
      let r := resolve w a in
      (match src with Some t => pre_set w SOut t si r | None => true end) &&
      (let w1 := fst (match src with Some t => set_stream w SOut t si r | None => disconnect_side w SOut r end) in
       match snk with Some v => pre_set w1 SIn v ki r | None => true end)
  | ONewUnit nin nout fin fout fi fo => pre_form fin nin fi && pre_form fout nout fo
  end.

(* well-formedness of an operation in a world: it only mentions streams and units that exist *)
Definition obj_ok (w : world) (x : obj) : bool := match x with S_ n => n <? nreal w | M_ n => n <? fresh w end.
(* streams are named directly; placeholders only through the port they sit in *)
Definition arg_ok (w : world) (a : arg) : bool :=
  match a with AObj x => is_real x && obj_ok w x | AAt _ u _ => u <? nunits w | _ => true end.
Definition unit_ok (w : world) (u : nat) : bool := u <? nunits w.
Definition port_ok (w : world) (p : port) : bool := match p with PArg a => arg_ok w a | _ => true end.
Definition items_okb (w : world) (o : option (list ditem)) : bool :=
  match o with
  | None => true
  | Some l => forallb (fun d => match d with DArg a => arg_ok w a | _ => true end) l
  end.
Definition wfb (w : world) (o : op) : bool :=
  match o with
  | OSet _ u _ a | OInsert _ u _ a | OAppend _ u a | ORemove _ u a => unit_ok w u && arg_ok w a
  | OSetSlice _ u _ _ xs | OExtend _ u xs | OSetSliceStep _ u _ _ _ xs => unit_ok w u && forallb (arg_ok w) xs
  | OReplace _ u a b => unit_ok w u && arg_ok w a && arg_ok w b
  | OPop _ u _ | OClear _ u | OEmpty _ u => unit_ok w u
  | OUnitDisconnect u _ pi po => unit_ok w u && items_okb w pi && items_okb w po
  | ODisc _ a | ODiscBoth a => arg_ok w a
  | OPipeUU u v | OTakePlaceOf u v => unit_ok w u && unit_ok w v
  | OUnitInsert u a pin pout => unit_ok w u && arg_ok w a && port_ok w pin && port_ok w pout
  | OReplaceWith u v => unit_ok w u && match v with Some v => unit_ok w v | None => true end
  | OReconnect src _ a _ snk =>
      arg_ok w a && match src with Some t => unit_ok w t | None => true end
      && match snk with Some v => unit_ok w v | None => true end
  | ONewUnit _ _ _ _ fi fo =>
      forallb (obj_ok w) (item_reals (form_items fi)) && forallb (obj_ok w) (item_reals (form_items fo))
  end.

(* ---------- observation (what the harness reads off the real objects) ---------- *)
(* a slot: is it a real stream, its number (placeholders: order of first appearance in the
   traversal u0.ins, u0.outs, u1.ins, ... so that sharing of placeholders is visible), sink, source *)
Definition cslot := (bool * nat * option nat * option nat)%type.
Fixpoint pos_of (n : nat) (tbl : list nat) : option nat :=
  match tbl with [] => None | m :: t => if m =? n then Some 0 else option_map S (pos_of n t) end.
Fixpoint canon_list (w : world) (tbl : list nat) (l : list obj) : list nat * list cslot :=
  match l with
  | [] => (tbl, [])
  | x :: t =>
      let '(tbl1, id) := match x with
                         | S_ n => (tbl, n)
                         | M_ n => match pos_of n tbl with
                                   | Some p => (tbl, p)
                                   | None => (tbl ++ [n], length tbl)
                                   end
                         end in
      let '(tbl2, cs) := canon_list w tbl1 t in
      (tbl2, (is_real x, id, ptr w SIn x, ptr w SOut x) :: cs)
  end.
Fixpoint canon_units (w : world) (tbl : list nat) (us : list nat) : list (list cslot * list cslot) :=
  match us with
  | [] => []
  | u :: t => let '(tbl1, i) := canon_list w tbl (ports w SIn u) in
              let '(tbl2, o) := canon_list w tbl1 (ports w SOut u) in
              (i, o) :: canon_units w tbl2 t
  end.
Definition obs := (list (list cslot * list cslot) * list (option nat * option nat))%type.
Definition observe (w : world) : obs :=
  (canon_units w [] (seq 0 (nunits w)),
   map (fun n => (ptr w SIn (S_ n), ptr w SOut (S_ n))) (seq 0 (nreal w))).

Definition onat_eqb := opt_eqb Nat.eqb.
Definition cslot_eqb (a b : cslot) : bool :=
  let '(r1, i1, k1, s1) := a in let '(r2, i2, k2, s2) := b in
  Bool.eqb r1 r2 && (i1 =? i2) && onat_eqb k1 k2 && onat_eqb s1 s2.
Definition obs_eqb (a b : obs) : bool :=
  list_eqb (fun x y => list_eqb cslot_eqb (fst x) (fst y) && list_eqb cslot_eqb (snd x) (snd y)) (fst a) (fst b)
  && list_eqb (fun x y => onat_eqb (fst x) (fst y) && onat_eqb (snd x) (snd y)) (snd a) (snd b).
Definition oerr_eqb := opt_eqb err_eqb.
Definition oflag_ok (model : bool) (impl : option bool) : bool :=
  match impl with Some b => Bool.eqb model b | None => true end.

(* ---------- comparison through a rolling checksum ----------
   Writing every intermediate observation into the generated case files makes coqc spend minutes
   parsing literals, so the harness and the model both fold the complete per-operation record
   (exception class, precondition flag, whole observation) into a 63-bit polynomial checksum
   h' = (h * HB + token + 1) mod 2^63 (primitive 63-bit integers) and only the checksums (and the final observation, in
   full) are compared. *)
Definition HB : int := 1000003%uint63.
Fixpoint int_of_nat (n : nat) : int := match n with O => 0%uint63 | S n' => (1 + int_of_nat n')%uint63 end.
Definition hmix (h : int) (x : nat) : int := (h * HB + int_of_nat x + 1)%uint63.     (* wraps modulo 2^63 *)
Definition hopt (h : int) (o : option nat) : int := hmix h (match o with None => 0 | Some n => S n end).
Definition hash_cslot (h : int) (c : cslot) : int :=
  let '(r, i, k, s) := c in hopt (hopt (hmix (hmix h (if r then 1 else 0)) i) k) s.
Definition hash_slots (h : int) (l : list cslot) : int := fold_left hash_cslot l (hmix h (length l)).
Definition hash_obs (h : int) (o : obs) : int :=
  let h1 := fold_left (fun h u => hash_slots (hash_slots h (fst u)) (snd u)) (fst o) (hmix h (length (fst o))) in
  fold_left (fun h p => hopt (hopt h (fst p)) (snd p)) (snd o) (hmix h1 (length (snd o))).
Definition err_code (e : option err) : nat :=
  match e with
  | None => 0 | Some EIndex => 1 | Some EValue => 2 | Some EType => 3 | Some ERuntime => 4 | Some EOther => 5
  | Some _ => 9
  end.
(* flag token: 0/1 = the precondition flag, compared; 2 = not compared for this operation *)
Definition hstep (h : int) (cmp pre : bool) (r : option err) (w' : world) : int :=
  hash_obs (hmix (hmix h (err_code r)) (if cmp then (if pre then 1 else 0) else 2)) (observe w').

Fixpoint run_hash (stp : world -> op -> outcome) (w : world) (ops : list op) (cmps : list bool) (h : int) : world * int :=
  match ops with
  | [] => (w, h)
  | o :: t => let cmp := match cmps with c :: _ => c | [] => false end in
              let (w', r) := stp w o in
              run_hash stp w' t (tl cmps) (hstep h cmp (preb w o) r w')
  end.
Definition check_hist (stp : world -> op -> outcome) (w : world) (ops : list op) (cmps : list bool)
           (expected : int) (final : obs) : bool :=
  let (w', h) := run_hash stp w ops cmps (hash_obs 0%uint63 (observe w)) in
  Uint63.eqb h expected && obs_eqb (observe w') final.

(* operations whose precondition flag the harness computes exactly in every state *)
Definition flag_exact (o : op) : bool :=
  match o with
  | OUnitDisconnect _ _ _ _ | OUnitInsert _ _ _ _ | OReplaceWith _ None => false
  | _ => true
  end.
(* every sequence of [d] operations over the alphabet [A] from world [w]: sum of the checksums *)
Fixpoint enum_sum (stp : world -> op -> outcome) (A : list op) (d : nat) (w : world) (h : int) : int :=
  match d with
  | O => h
  | S d' => fold_left (fun acc o =>
              let (w', r) := stp w o in
              (acc + enum_sum stp A d' w' (hstep h (flag_exact o) (preb w o) r w'))%uint63) A 0%uint63
  end.
Definition check_enum (stp : world -> op -> outcome) (w : world) (A : list op) (d : nat) (expected : int) : bool :=
  Uint63.eqb (enum_sum stp A d w (hash_obs 0%uint63 (observe w))) expected.

Fixpoint trace (stp : world -> op -> outcome) (w : world) (ops : list op) : list (option err * bool * obs) :=
  match ops with
  | [] => []
  | o :: t => let (w', r) := stp w o in (r, preb w o, observe w') :: trace stp w' t
  end.

(* ---------- the invariant, decidable form (used by examples and the harness cross-check) ---------- *)
Definition inv_sideb (w : world) (sd : side) : bool :=
  forallb (fun u =>
    let l := ports w sd u in
    forallb (fun x => onat_eqb (ptr w sd x) (Some u)) l && nodupb l
    && (negb (pfixed w sd u) || (length l =? psize w sd u))) (seq 0 (nunits w))
  && forallb (fun n => match ptr w sd (S_ n) with
                       | Some u => mem (S_ n) (ports w sd u)
                       | None => true end) (seq 0 (nreal w)).
Definition invb (w : world) : bool := inv_sideb w SIn && inv_sideb w SOut.

(* ---------- caller-owned python lists ----------
   The caller may keep the very list object it passes to a constructor (ins=feeds, outs=products), to a
   slice assignment or to extend(), pass it again to another unit, and go on editing it.  The code reads
   such an argument at the call and keeps nothing of it: the unit's port list is its own list.  So a history
   carries a store of caller lists next to the world; an operation that takes list #k is the plain
   operation applied to the contents list #k has at that moment, it leaves the store alone, and the
   caller's own edits leave the world alone.  (The harness passes the same python list object again and
   again and compares the store and every port list after every operation, so a port list that aliases a
   caller's list, or another unit's, shows up.) *)
Definition store := list (list item).
Inductive xform := XF (f : form) | XV (k : nat).               (* a literal argument / the caller's list #k *)
Inductive xop :=
| XOp (o : op)
| XNewUnit (nin nout : nat) (fin fout : bool) (fi fo : xform)   (* Unit(ins=<list k>, outs=...) *)
| XSlice (sd : side) (u : nat) (lo hi : option Z) (k : nat)     (* L[lo:hi] = <list k> *)
| XExtend (sd : side) (u : nat) (k : nat)                       (* L.extend(<list k>) *)
| XCAppend (k : nat) (it : item)                                (* the caller: lst.append(x) *)
| XCSet (k : nat) (i : nat) (it : item)                         (*             lst[i] = x    *)
| XCPop (k : nat).                                              (*             lst.pop()     *)
(* an element of a caller list as an argument: a stream, None, or a str (not a stream: TypeError in
   _as_stream, AttributeError in extend) *)
Definition item_arg (it : item) : arg :=
  match it with IReal n => AObj (S_ n) | INone => ANone | INew => AJunk end.
Definition clist_of (st : store) (k : nat) : list item := nth k st [].
Definition xform_form (st : store) (f : xform) : form :=
  match f with XF f => f | XV k => FList (clist_of st k) end.
Definition to_op (st : store) (x : xop) : option op :=
  match x with
  | XOp o => Some o
  | XNewUnit nin nout fin fout fi fo => Some (ONewUnit nin nout fin fout (xform_form st fi) (xform_form st fo))
  | XSlice sd u lo hi k => Some (OSetSlice sd u lo hi (map item_arg (clist_of st k)))
  | XExtend sd u k => Some (OExtend sd u (map item_arg (clist_of st k)))
  | _ => None
  end.
Fixpoint upd_store (st : store) (k : nat) (l : list item) : store :=
  match st, k with
  | [], _ => []
  | _ :: t, O => l :: t
  | h :: t, S j => h :: upd_store t j l
  end.
Definition xworld := (world * store)%type.
Definition xstep (xw : xworld) (x : xop) : xworld * option err :=
  let (w, st) := xw in
  match to_op st x with
  | Some o => let (w', e) := step w o in ((w', st), e)
  | None =>
      match x with
      | XCAppend k it => ((w, upd_store st k (clist_of st k ++ [it])), None)
      | XCSet k i it => if i <? length (clist_of st k)
                        then ((w, upd_store st k (upd (clist_of st k) i it)), None)
                        else ((w, st), Some EIndex)
      | XCPop k => match clist_of st k with
                   | [] => ((w, st), Some EIndex)
                   | l => ((w, upd_store st k (removelast l)), None)
                   end
      | _ => ((w, st), None)
      end
  end.
Definition xwfb (xw : xworld) (x : xop) : bool :=
  match to_op (snd xw) x with Some o => wfb (fst xw) o | None => true end.
Definition xpreb (xw : xworld) (x : xop) : bool :=
  match to_op (snd xw) x with Some o => preb (fst xw) o | None => true end.
Definition xrun (xw : xworld) (xs : list xop) : xworld := fold_left (fun xw x => fst (xstep xw x)) xs xw.

Definition item_code (it : item) : nat := match it with INone => 0 | INew => 1 | IReal n => 2 + n end.
Definition hash_store (h : int) (st : store) : int :=
  fold_left (fun h l => fold_left (fun h it => hmix h (item_code it)) l (hmix h (length l))) st (hmix h (length st)).
Definition xflag_exact (x : xop) : bool := match x with XOp o => flag_exact o | _ => true end.
Fixpoint xrun_hash (xw : xworld) (xs : list xop) (cmps : list bool) (h : int) : xworld * int :=
  match xs with
  | [] => (xw, h)
  | x :: t => let cmp := match cmps with c :: _ => c | [] => false end in
              let (xw', r) := xstep xw x in
              xrun_hash xw' t (tl cmps) (hash_store (hstep h cmp (xpreb xw x) r (fst xw')) (snd xw'))
  end.
Definition check_xhist (w : world) (st : store) (xs : list xop) (cmps : list bool)
           (expected : int) (final : obs) (final_store : list (list nat)) : bool :=
  let (xw', h) := xrun_hash (w, st) xs cmps (hash_store (hash_obs 0%uint63 (observe w)) st) in
  Uint63.eqb h expected && obs_eqb (observe (fst xw')) final
  && list_eqb (list_eqb Nat.eqb) (map (map item_code) (snd xw')) final_store.
Fixpoint xtrace (xw : xworld) (xs : list xop) : list (option err * bool * obs * list (list nat)) :=
  match xs with
  | [] => []
  | x :: t => let (xw', r) := xstep xw x in
              (r, xpreb xw x, observe (fst xw'), map (map item_code) (snd xw')) :: xtrace xw' t
  end.

(* a placeholder that can be reached through a port list (placeholders are shared between an outlet list
   and an inlet list by u1-u2, take_place_of, item assignment) is listed wherever it points *)
Definition live_back_sideb (w : world) (sd : side) : bool :=
  forallb (fun v => forallb (fun x => is_real x ||
                      match ptr w sd x with Some u => mem x (ports w sd u) | None => true end)
                    (ports w (other sd) v)) (seq 0 (nunits w)).
Definition live_backb (w : world) : bool := live_back_sideb w SIn && live_back_sideb w SOut.
