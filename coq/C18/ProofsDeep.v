(* C18 — deepening: placeholders that can be reached through a port list are listed wherever they point.
   New theorems about the existing model (Model.v is unchanged). *)
From Coq Require Import ZArith Lia.
From V Require Import C18.Model C18.Proofs.
Close Scope Q_scope.
Open Scope nat_scope.

(* ================================================================ the clause and what an operation must guarantee *)
(* a placeholder listed on one side is listed wherever its pointer of the other side points *)
Definition LiveP (w : world) : Prop := forall sd v u m,
  In (M_ m) (ports w (other sd) v) -> ptr w sd (M_ m) = Some u -> In (M_ m) (ports w sd u).
(* placeholders that do not exist yet point nowhere *)
Definition Unborn (w : world) : Prop := forall sd n, fresh w <= n -> ptr w sd (M_ n) = None.
Definition live (w : world) (x : obj) : Prop := exists s v, In x (ports w s v).
(* the pointer of side s of x does not dangle *)
Definition ND (s : side) (w : world) (x : obj) : Prop := forall u', ptr w s x = Some u' -> In x (ports w s u').

(* the footprint of an operation on side sd: a pointer that dangles afterwards dangled before or belongs to a
   placeholder the operation created (SB); an old placeholder that is listed afterwards was listed before (PR) *)
Record Eff (sd : side) (N : nat) (w w' : world) : Prop := mkEff {
  E_sb : forall x u, ptr w' sd x = Some u ->
         In x (ports w' sd u) \/ (ptr w sd x = Some u /\ ~ In x (ports w sd u)) \/
         (exists n, x = M_ n /\ fresh w <= n /\ n < fresh w');
  E_pr : forall v n, In (M_ n) (ports w' sd v) -> n < N -> live w (M_ n) \/ ND (other sd) w (M_ n);
  E_po : forall n, n < N -> ptr w' (other sd) (M_ n) = ptr w (other sd) (M_ n);
  E_fm : fresh w <= fresh w';
  E_fo : forall v, ports w' (other sd) v = ports w (other sd) v
}.
Lemma Eff_refl sd N w : Eff sd N w w.
Proof.
  constructor; auto.
  - intros x u P. destruct (in_dec (fun a b => ltac:(destruct (obj_eqb a b) eqn:Q; [left; now apply obj_eqb_eq | right; now apply obj_eqb_neq])) x (ports w sd u)); auto.
  - intros v n H _. left. exists sd, v. exact H.
Qed.
Lemma Eff_trans sd N w1 w2 w3 : Eff sd N w1 w2 -> Eff sd N w2 w3 -> Eff sd N w1 w3.
Proof.
  intros [A1 B1 P1 C1 D1] [A2 B2 P2 C2 D2]. constructor.
  - intros x u P. destruct (A2 x u P) as [H|[[H1 H2]|(n & -> & L1 & L2)]]; [now left | | right; right; exists n; repeat split; auto; lia].
    destruct (A1 x u H1) as [H|[H|(n & -> & L1 & L2)]]; [contradiction | right; now left | right; right; exists n; repeat split; auto; lia].
  - intros v n HI L. destruct (B2 v n HI L) as [(s & v' & H)|H].
    + destruct (side_eqb s sd) eqn:E.
      * apply side_eqb_eq in E. subst s. now apply (B1 v' n).
      * assert (s = other sd) by (destruct s, sd; simpl in *; congruence). subst s. rewrite D1 in H. left. exists (other sd), v'. exact H.
    + right. intros u' Q. rewrite <- (P1 n L) in Q. rewrite <- D1. now apply H.
  - intros n L. now rewrite P2, P1.
  - lia.
  - intro v. now rewrite D2, D1.
Qed.
Lemma Eff_weq sd N w w1 w2 : weq w1 w2 -> Eff sd N w w1 -> Eff sd N w w2.
Proof.
  intros [A B C D E F G] [a b po c d]. constructor.
  - intros x u. rewrite B, A, E. apply a.
  - intros v n. rewrite A. apply b.
  - intros n L. rewrite B. now apply po.
  - now rewrite E.
  - intro v. rewrite A. apply d.
Qed.

(* the clause is preserved by an operation on side s0 with such a footprint *)
Lemma LiveP_step' s0 w w' :
  (forall v x, In x (ports w (other s0) v) -> obj_okP w x) ->
  (forall v x, In x (ports w (other s0) v) -> ptr w (other s0) x = Some v) ->
  (forall v x, In x (ports w' s0 v) -> obj_okP w' x) ->
  LiveP w -> Unborn w ->
  Eff s0 (fresh w) w w' -> frame (other s0) w w' -> LiveP w' /\ Unborn w'.
Proof.
  intros Hok Hptr Hok' HL HU [SB PR _ Fm Fo] Fr. split.
  - intros sd v u m Hl P. destruct (side_eqb sd s0) eqn:Es.
    + apply side_eqb_eq in Es. subst sd. rewrite Fo in Hl.
      assert (Ok : m < fresh w) by (apply (Hok v (M_ m) Hl)).
      destruct (SB _ _ P) as [H|[[H1 H2]|(n & Q & L1 & L2)]]; [exact H | | inversion Q; lia].
      exfalso. apply H2. now apply (HL s0 v u m).
    + assert (sd = other s0) by (destruct sd, s0; simpl in *; congruence). subst sd.
      rewrite other_other in Hl. rewrite (F_ports _ _ _ Fr).
      destruct (Nat.lt_ge_cases m (fresh w)) as [L|L].
      * rewrite (F_ptr _ _ _ Fr (M_ m) L) in P.
        destruct (PR v m Hl L) as [(s & v0 & H0)|H0]; [|exact (H0 u P)]. destruct (side_eqb s s0) eqn:E2.
        -- apply side_eqb_eq in E2. subst s. apply (HL (other s0) v0 u m); [now rewrite other_other | exact P].
        -- assert (s = other s0) by (destruct s, s0; simpl in *; congruence). subst s.
           pose proof (Hptr v0 _ H0) as Q. congruence.
      * destruct (F_ptr' _ _ _ Fr (M_ m)) as [Q|Q]; rewrite Q in P; [rewrite HU in P by assumption|]; discriminate.
  - intros sd n L. destruct (side_eqb sd s0) eqn:Es.
    + apply side_eqb_eq in Es. subst sd. destruct (ptr w' s0 (M_ n)) as [u|] eqn:P; [|reflexivity]. exfalso.
      destruct (SB _ _ P) as [H|[[H1 H2]|(k & Q & L1 & L2)]].
      * apply Hok' in H. simpl in H. lia.
      * rewrite HU in H1 by lia. discriminate.
      * inversion Q. lia.
    + assert (sd = other s0) by (destruct sd, s0; simpl in *; congruence). subst sd.
      destruct (F_ptr' _ _ _ Fr (M_ n)) as [Q|Q]; rewrite Q; [apply HU; lia | reflexivity].
Qed.
Lemma LiveP_step s0 w w' : Inv w -> Inv w' -> LiveP w -> Unborn w ->
  Eff s0 (fresh w) w w' -> frame (other s0) w w' -> LiveP w' /\ Unborn w'.
Proof.
  intros HI HI'. destruct (InvS_side (other s0) w HI) as [IS _]. destruct (InvS_side s0 w' HI') as [IS' _].
  apply LiveP_step'; [apply (I_ok _ _ IS) | apply (I_ptr _ _ IS) | apply (I_ok _ _ IS')].
Qed.

(* ================================================================ footprints of the building blocks *)
Section Blocks.
Variable sd : side.
Variable N : nat.

Lemma obj_in_dec (x : obj) l : In x l \/ ~ In x l.
Proof. destruct (mem x l) eqn:E; [left; now apply mem_In | right; now apply mem_false]. Qed.

Lemma new_missing_Eff w u : N <= fresh w -> Eff sd N w (fst (new_missing w sd u)).
Proof.
  intro HN.
  destruct (new_missing w sd u) as [w1 m] eqn:NM. cbn [fst].
  destruct (new_missing_spec _ _ _ _ _ NM) as (Hm & Hp & Hpm & Hpo & Hf & Hr & Hn & Hs & Hfx).
  pose proof (frame_new_missing sd w u) as FN. rewrite NM in FN. simpl in FN.
  constructor.
  - intros x t P. destruct (obj_dec x m) as [->|Nx].
    + right. right. exists (fresh w). rewrite Hf. repeat split; auto.
    + rewrite Hpo in P by assumption. rewrite Hp. destruct (obj_in_dec x (ports w sd t)); auto.
  - intros v n HI _. rewrite Hp in HI. left. exists sd, v. exact HI.
  - intros n L. apply (F_ptr _ _ _ FN (M_ n)). simpl. lia.
  - lia.
  - apply (F_ports _ _ _ FN).
Qed.

(* the segment [olds] of u's list is undocked and the list is rewritten as l' *)
Lemma rewrite_Eff u w olds l' : N <= fresh w ->
  (forall y, In y (ports w sd u) -> ~ In y olds -> In y l') ->
  (forall n, In (M_ n) l' -> n < N -> live w (M_ n) \/ ND (other sd) w (M_ n)) ->
  Eff sd N w (upd_ports (undock_all w sd olds) sd u l').
Proof.
  intros HN Kept Src. destruct (undock_all_misc sd olds w) as (Po & St & Fr & Frm).
  constructor.
  - intros x t. change (ptr (upd_ports (undock_all w sd olds) sd u l') sd x) with (ptr (undock_all w sd olds) sd x).
    rewrite undock_all_ptr, ports_upd_ports. destruct (mem x olds) eqn:Em; [discriminate|]. apply mem_false in Em.
    intro P. destruct (obj_in_dec x (ports w sd t)) as [HI|HI]; [left | right; left; split; assumption].
    destruct (t =? u) eqn:E; [apply Nat.eqb_eq in E; subst t; now apply Kept | now rewrite Po].
  - intros v n. rewrite ports_upd_ports. destruct (v =? u); [apply Src|]. rewrite Po. intros HI _. left. exists sd, v. exact HI.
  - intros n L. apply (F_ptr _ _ _ (frame_trans _ _ _ _ Frm (frame_upd_ports sd _ u l')) (M_ n)). simpl. lia.
  - cbn [fresh upd_ports]. lia.
  - intro v. apply (F_ports _ _ _ (frame_trans _ _ _ _ Frm (frame_upd_ports sd _ u l'))).
Qed.

Lemma In_upd_self (l : list obj) k y : k < length l -> In y (upd l k y).
Proof. revert k. induction l; intros k H; simpl in *; [lia|]. destruct k; simpl; [now left | right; apply IHl; lia]. Qed.

Lemma redock_ptr_self u x w : ptr (redock w sd u x) sd x = Some u.
Proof.
  unfold redock. destruct (ptr w sd x) as [v|] eqn:P; [|unfold dock; apply ptr_upd_ptr_eq].
  destruct (v =? u) eqn:E; [apply Nat.eqb_eq in E; now subst|].
  destruct (mem x (ports w sd v)); unfold dock; apply ptr_upd_ptr_eq.
Qed.

Lemma redock_cases u x w :
  ((forall v, ports (redock w sd u x) sd v = ports w sd v) /\ fresh (redock w sd u x) = fresh w /\
   (forall y, y <> x -> ptr (redock w sd u x) sd y = ptr w sd y))
  \/ (exists v0 l1 l2, v0 <> u /\ ports w sd v0 = l1 ++ x :: l2 /\
        (forall v, ports (redock w sd u x) sd v = if v =? v0 then l1 ++ M_ (fresh w) :: l2 else ports w sd v) /\
        fresh (redock w sd u x) = S (fresh w) /\
        (forall y, y <> x -> y <> M_ (fresh w) -> ptr (redock w sd u x) sd y = ptr w sd y)).
Proof.
  unfold redock. destruct (ptr w sd x) as [v|] eqn:P.
  2:{ left. unfold dock. repeat split; auto. intros y Ny. now rewrite ptr_upd_ptr_neq. }
  destruct (v =? u) eqn:Evu; [left; repeat split; auto|]. apply Nat.eqb_neq in Evu.
  destruct (mem x (ports w sd v)) eqn:Em.
  2:{ left. unfold dock. repeat split; auto. intros y Ny. now rewrite ptr_upd_ptr_neq. }
  apply mem_In in Em. right.
  destruct (index_of_In _ _ Em) as [k Ek]. destruct (index_of_split _ _ _ Ek) as (l1 & l2 & EL & Lk & _).
  exists v, l1, l2. split; [exact Evu|]. split; [exact EL|].
  unfold vacate. destruct (new_missing w sd v) as [w1 m] eqn:NM.
  destruct (new_missing_spec _ _ _ _ _ NM) as (Hm & Hp & Hpm & Hpo & Hf & _).
  rewrite Hp, Ek. split; [|split].
  - intro v'. unfold dock, undock.
    change (ports (upd_ports (upd_ptr w1 sd x None) sd v (upd (ports w1 sd v) k m)) sd v' = if v' =? v then l1 ++ M_ (fresh w) :: l2 else ports w sd v').
    rewrite ports_upd_ports. destruct (v' =? v); [|apply Hp]. rewrite Hp, EL, <- Lk, Hm. apply upd_app.
  - exact Hf.
  - intros y Ny Nm. unfold dock, undock. rewrite ptr_upd_ptr_neq by assumption.
    change (ptr (upd_ptr w1 sd x None) sd y = ptr w sd y). rewrite ptr_upd_ptr_neq by assumption.
    apply Hpo. now rewrite Hm.
Qed.

Lemma redock_Eff u x w : N <= fresh w -> In x (ports w sd u) -> Eff sd N w (redock w sd u x).
Proof.
  intros HN Hx. destruct (redock_misc sd u x w) as (Fr & St & Pu).
  destruct (redock_cases u x w) as [(Pp & Ff & Po)|(v0 & l1 & l2 & Nv & EL & Pp & Ff & Po)]; constructor.
  - intros y t P. destruct (obj_dec y x) as [->|Ny].
    + rewrite redock_ptr_self in P. inversion P; subst. left. now rewrite Pp.
    + rewrite Po in P by assumption. rewrite Pp. destruct (obj_in_dec y (ports w sd t)); auto.
  - intros v n. rewrite Pp. intros HI _. left. exists sd, v. exact HI.
  - intros n L. apply (F_ptr _ _ _ Fr (M_ n)). simpl. lia.
  - lia.
  - apply (F_ports _ _ _ Fr).
  - intros y t P. destruct (obj_dec y x) as [->|Ny].
    + rewrite redock_ptr_self in P. inversion P; subst. left. now rewrite Pu.
    + destruct (obj_dec y (M_ (fresh w))) as [->|Nm].
      * right. right. exists (fresh w). rewrite Ff. repeat split; auto.
      * rewrite Po in P by assumption. destruct (obj_in_dec y (ports w sd t)) as [HI|HI]; [left | right; left; split; assumption].
        rewrite Pp. destruct (t =? v0) eqn:E; [|exact HI]. apply Nat.eqb_eq in E. subst t.
        rewrite EL in HI. apply in_app_or in HI. apply in_or_app. destruct HI as [HI|[HI|HI]]; [now left | congruence | right; now right].
  - intros v n. rewrite Pp. intros HI L. left. exists sd, v. destruct (v =? v0) eqn:E; [|exact HI]. apply Nat.eqb_eq in E. subst v.
    rewrite EL. apply in_app_or in HI. apply in_or_app. destruct HI as [HI|[HI|HI]]; [now left | | right; now right].
    inversion HI. subst. lia.
  - intros n L. apply (F_ptr _ _ _ Fr (M_ n)). simpl. lia.
  - lia.
  - apply (F_ports _ _ _ Fr).
Qed.
End Blocks.

(* ================================================================ footprints of the list methods *)
Section Prims.
Variable sd : side.
Variable N : nat.

(* an argument that is an old placeholder is listed somewhere, or at least points nowhere on the other side *)
Definition argL (w : world) (a : rarg) : Prop :=
  match a with RObj (M_ n) => n < N -> live w (M_ n) \/ ND (other sd) w (M_ n) | _ => True end.
Lemma live_here w v x : In x (ports w sd v) -> live w x.
Proof. intro H. exists sd, v. exact H. Qed.

Lemma set_stream_obj_Eff u w i x : InvS sd w -> N <= fresh w -> argL w (RObj x) ->
  Eff sd N w (fst (set_stream w sd u i (RObj x))).
Proof.
  intros HI HN Hx. unfold set_stream, as_stream. set (l := ports w sd u).
  assert (SrcX : forall n, M_ n = x -> n < N -> live w (M_ n) \/ ND (other sd) w (M_ n)) by (intros n <- L; now apply Hx).
  destruct (norm_index i (length l)) as [k|] eqn:Ek.
  - pose proof (norm_index_lt _ _ _ Ek) as Lk. cbn [ok fst].
    set (old := nth k l x). destruct (redock_misc sd u x (undock w sd old)) as (_ & _ & Pu). rewrite Pu.
    change (ports (undock w sd old) sd u) with l.
    eapply Eff_weq; [apply (redock_comm sd u x (upd l k x) (undock w sd old))|].
    eapply Eff_trans.
    + apply (rewrite_Eff sd N u w [old] (upd l k x) HN).
      * intros y Hy No. apply (In_upd_iff l k x x y (I_nodup _ _ HI u) Lk). right. split; [exact Hy|]. intro Q. apply No. left. now rewrite Q.
      * intros n Hn L. apply (In_upd_iff l k x x (M_ n) (I_nodup _ _ HI u) Lk) in Hn. destruct Hn as [Q|[Hn _]]; [now apply SrcX | left; now apply (live_here w u)].
    + apply redock_Eff; [exact HN|]. rewrite ports_upd_ports_eq. now apply In_upd_self.
  - destruct ((Z.of_nat (length l) <=? i)%Z && negb (pfixed w sd u)); [|apply Eff_refl]. cbn [ok fst].
    destruct (redock_misc sd u x w) as (_ & _ & Pu). rewrite Pu. fold l.
    eapply Eff_weq; [apply (redock_comm sd u x (l ++ [x]) w)|].
    eapply Eff_trans.
    + apply (rewrite_Eff sd N u w [] (l ++ [x]) HN).
      * intros y Hy _. apply in_or_app. now left.
      * intros n Hn L. apply in_app_or in Hn. destruct Hn as [Hn|[Q|[]]]; [left; now apply (live_here w u) | now apply SrcX].
    + apply redock_Eff; [exact HN|]. rewrite ports_upd_ports_eq. apply in_or_app. right. now left.
Qed.

Lemma Eff_after_new w u r : InvS sd w -> u < nunits w -> N <= fresh w ->
  (forall w1 m, new_missing w sd u = (w1, m) -> InvS sd w1 -> N <= fresh w1 -> u < nunits w1 -> argL w1 (RObj m) -> Eff sd N w1 (r w1 m)) ->
  Eff sd N w (let (w1, m) := new_missing w sd u in r w1 m).
Proof.
  intros HI Hu HN H. pose proof (new_missing_Eff sd N w u HN) as E0.
  destruct (new_missing w sd u) as [w1 m] eqn:NM. cbn [fst] in E0.
  destruct (new_missing_InvS sd w u w1 m HI Hu NM) as (I1 & Om & Nm & St & Fr).
  destruct (new_missing_spec _ _ _ _ _ NM) as (Hm & _ & _ & _ & Hf & _).
  eapply Eff_trans; [exact E0|]. apply (H w1 m eq_refl I1); [lia | destruct St as [A _ _ _ _]; lia |]. rewrite Hm. simpl. lia.
Qed.

Lemma set_stream_Eff u w i a : InvS sd w -> u < nunits w -> N <= fresh w -> argL w a ->
  Eff sd N w (fst (set_stream w sd u i a)).
Proof.
  intros HI Hu HN Ha. destruct a as [x| |].
  - now apply set_stream_obj_Eff.
  - unfold set_stream, as_stream.
    pose proof (Eff_after_new w u (fun w1 m => fst (set_stream w1 sd u i (RObj m))) HI Hu HN) as H.
    destruct (new_missing w sd u) as [w1 m] eqn:NM. apply H. intros w1' m' E I1 HN1 Hu1 Hm. now apply set_stream_obj_Eff.
  - unfold set_stream, as_stream. apply Eff_refl.
Qed.

Lemma replace_Eff u w a b : InvS sd w -> u < nunits w -> N <= fresh w -> argL w b ->
  Eff sd N w (fst (replace w sd u a b)).
Proof.
  intros HI Hu HN Hb. unfold replace. destruct a as [x| |]; try apply Eff_refl.
  destruct (index_of x (ports w sd u)); [now apply set_stream_Eff | apply Eff_refl].
Qed.

Lemma remove_Eff u w a : InvS sd w -> u < nunits w -> N <= fresh w -> Eff sd N w (fst (remove w sd u a)).
Proof.
  intros HI Hu HN. unfold remove.
  pose proof (Eff_after_new w u (fun w1 m => fst (replace w1 sd u a (RObj m))) HI Hu HN) as H.
  destruct (new_missing w sd u) as [w1 m] eqn:NM. apply H. intros w1' m' E I1 HN1 Hu1 Hm. now apply replace_Eff.
Qed.

Lemma disconnect_side_Eff w a : InvS sd w -> N <= fresh w -> Eff sd N w (fst (disconnect_side w sd a)).
Proof.
  intros HI HN. unfold disconnect_side. destruct a as [x| |]; try apply Eff_refl.
  destruct (ptr w sd x) as [v|] eqn:P; [|apply Eff_refl]. apply remove_Eff; auto. eapply I_uptr; eauto.
Qed.

Lemma pop_Eff u w i : InvS sd w -> u < nunits w -> N <= fresh w -> Eff sd N w (fst (pop true w sd u i)).
Proof.
  intros HI Hu HN. unfold pop. set (l := ports w sd u).
  destruct (pfixed w sd u).
  - destruct (norm_index i (length l)) as [k|]; [|apply Eff_refl].
    change (Eff sd N w (fst (remove w sd u (RObj (nth k l (M_ 0)))))). now apply remove_Eff.
  - destruct (norm_index i (length l)) as [k|] eqn:Ek; [|apply Eff_refl]. cbn [ok fst].
    pose proof (norm_index_lt _ _ _ Ek) as Lk.
    destruct (nth_split' l k (M_ 0) Lk) as (l1 & l2 & EL & L1). set (x := nth k l (M_ 0)) in *.
    change (undock (upd_ports w sd u (remove_nth k l)) sd x) with (upd_ports (undock_all w sd [x]) sd u (remove_nth k l)).
    assert (EQ : remove_nth k l = l1 ++ l2) by (rewrite EL at 1; rewrite <- L1; apply remove_nth_app).
    apply rewrite_Eff; [exact HN | |].
    + intros y Hy No. rewrite EQ. fold l in Hy. rewrite EL in Hy. apply in_app_or in Hy. apply in_or_app.
      destruct Hy as [Hy|[Hy|Hy]]; [now left | exfalso; apply No; now left | now right].
    + intros n Hn _. left. apply (live_here w u). fold l. rewrite EQ in Hn. rewrite EL. apply in_app_or in Hn. apply in_or_app.
      destruct Hn; [now left | right; now right].
Qed.

Lemma insert_stream_Eff u w i a : N <= fresh w -> argL w a -> Eff sd N w (fst (insert_stream w sd u i a)).
Proof.
  intros HN Ha. unfold insert_stream. destruct (pfixed w sd u); [apply Eff_refl|].
  destruct a as [x| |]; try apply Eff_refl. cbn [ok fst].
  set (w1 := dock (undock w sd x) sd u x). set (l := ports w1 sd u).
  set (k := match i with Some i0 => clampZ (Some i0) (length l) 0 | None => length l end).
  assert (El : l = ports w sd u) by reflexivity.
  assert (Pw : forall y, ptr w1 sd y = if obj_eqb y x then Some u else ptr w sd y).
  { intro y. unfold w1, dock, undock. rewrite ptr_upd_ptr. destruct (obj_eqb y x) eqn:E; [reflexivity|].
    change (ptr (upd_ptr w sd x None) sd y = ptr w sd y). now rewrite ptr_upd_ptr, E. }
  constructor.
  - intros y t. change (ptr (upd_ports w1 sd u (insert_at k x l)) sd y) with (ptr w1 sd y). rewrite Pw, ports_upd_ports.
    destruct (obj_eqb y x) eqn:E.
    + apply obj_eqb_eq in E. subst y. intro P. inversion P; subst. left. rewrite Nat.eqb_refl. unfold insert_at. apply in_or_app. right. now left.
    + intro P. destruct (obj_in_dec y (ports w sd t)) as [HI|HI]; [left | right; left; split; assumption].
      destruct (t =? u) eqn:Et; [|exact HI]. apply Nat.eqb_eq in Et. subst t. rewrite <- El in HI.
      unfold insert_at. rewrite <- (firstn_skipn k l) in HI. apply in_app_or in HI. apply in_or_app. destruct HI; [now left | right; now right].
  - intros v n. rewrite ports_upd_ports. destruct (v =? u) eqn:Ev; [|intros HI _; left; now apply (live_here w v)].
    unfold insert_at. intros HI L. apply in_app_or in HI. destruct HI as [HI|[HI|HI]].
    + left. apply (live_here w u). rewrite <- El. eapply firstn_In'. exact HI.
    + subst x. now apply Ha.
    + left. apply (live_here w u). rewrite <- El. rewrite <- (firstn_skipn k l). apply in_or_app. now right.
  - intros n L. unfold w1, dock, undock, upd_ports, upd_ptr; simpl. now rewrite !side_eqb_other.
  - cbn. lia.
  - intro v. unfold w1, dock, undock, upd_ports, upd_ptr; simpl. now rewrite side_eqb_other.
Qed.

Lemma clear_var_Eff u w : N <= fresh w -> pfixed w sd u = false -> Eff sd N w (fst (clear w sd u)).
Proof.
  intros HN Fx. unfold clear. rewrite Fx. cbn [ok fst]. apply rewrite_Eff; [exact HN | |].
  - intros y Hy No. contradiction.
  - intros n [].
Qed.
End Prims.

(* ================================================================ both sides, whole operations *)
Definition InvL (w : world) : Prop := Inv w /\ LiveP w /\ Unborn w.
Definition GoodL (w : world) (r : outcome) : Prop := InvL (fst r) /\ stat w (fst r).

Lemma prim_GoodL sd w r : InvL w -> good sd w r -> Eff sd (fresh w) w (fst r) -> GoodL w r.
Proof.
  intros (HI & HL & HU) G E. destruct (good_Good sd w r HI G) as [I' St]. destruct G as (_ & Fr & _).
  destruct (LiveP_step sd w (fst r) HI I' HL HU E Fr) as [L' U']. split; [split; [exact I' | split; assumption] | exact St].
Qed.
Lemma GoodL_same w e : InvL w -> GoodL w (w, e).
Proof. intro H. split; [exact H | apply stat_refl]. Qed.
Lemma GoodL_andthen w r f : GoodL w r ->
  (forall w1, r = (w1, None) -> InvL w1 -> stat w w1 -> GoodL w1 (f w1)) -> GoodL w (andthen r f).
Proof.
  intros [A B] H. destruct r as [w1 [e|]]; simpl in *.
  - split; assumption.
  - destruct (H w1 eq_refl A B) as [A' B']. split; [exact A' | eapply stat_trans; eauto].
Qed.

Lemma resolve_argL sd N w a : arg_ok w a = true -> argL sd N w (resolve w a).
Proof.
  intro H. destruct a as [x|s u k| |]; [| | exact I | exact I].
  - simpl in H. destruct x; [exact I | discriminate].
  - unfold resolve. destruct (ports w s u) as [|d t] eqn:E; [exact I|].
    assert (HI : In (nth (k mod length (d :: t)) (d :: t) d) (ports w s u)).
    { rewrite E. apply nth_In. apply Nat.mod_upper_bound. simpl. lia. }
    remember (nth (k mod length (d :: t)) (d :: t) d) as y eqn:Ey. clear Ey.
    destruct y as [n|n]; [exact I|]. intros _. left. exists s, u. exact HI.
Qed.

(* ================================================================ slices *)
Section Slices.
Variable sd : side.
Variable N : nat.

Lemma redock_all_Eff u R : forall w, N <= fresh w -> (forall x, In x R -> In x (ports w sd u)) ->
  Eff sd N w (fold_left (fun w x => redock w sd u x) R w).
Proof.
  induction R as [|x R IH]; intros w HN Hin; simpl; [apply Eff_refl|].
  destruct (redock_misc sd u x w) as (_ & St & Pu).
  eapply Eff_trans; [apply redock_Eff; [exact HN | apply Hin; now left]|].
  apply IH; [destruct St as [_ _ S3 _ _]; lia|]. intros y Hy. rewrite Pu. apply Hin. now right.
Qed.

Lemma new_missings_Eff u n : forall w, N <= fresh w ->
  Eff sd N w (fst (new_missings w sd u n)) /\
  (forall m, In m (snd (new_missings w sd u n)) -> exists k, m = M_ k /\ fresh w <= k) /\
  (forall v, ports (fst (new_missings w sd u n)) sd v = ports w sd v) /\
  fresh w <= fresh (fst (new_missings w sd u n)).
Proof.
  induction n as [|n IH]; intros w HN; cbn [new_missings].
  - split; [apply Eff_refl|]. split; [intros m []|]. split; [reflexivity | cbn; lia].
  - pose proof (new_missing_Eff sd N w u HN) as E0.
    destruct (new_missing w sd u) as [w1 m] eqn:NM. cbn [fst] in E0.
    destruct (new_missing_spec _ _ _ _ _ NM) as (Hm & Hp & _ & _ & Hf & _).
    destruct (IH w1 ltac:(lia)) as (E1 & M1 & P1 & F1).
    destruct (new_missings w1 sd u n) as [w2 ms]. cbn [fst snd] in *.
    split; [eapply Eff_trans; eauto|]. split; [|split; [intro v; now rewrite P1 | lia]].
    intros y [<-|Hy]; [exists (fresh w); split; [exact Hm | lia]|].
    destruct (M1 y Hy) as (k & -> & L). exists k. split; [reflexivity | lia].
Qed.

Definition argsL (w : world) (xs : list rarg) : Prop := forall a, In a xs -> argL sd N w a.

Lemma robj_list_somes xs : forall os y, robj_list xs = Some os -> In y (somes os) -> In (RObj y) xs.
Proof.
  induction xs as [|a xs IH]; intros os y E HI; simpl in E.
  - inversion E; subst. destruct HI.
  - destruct a as [x| |]; [| |discriminate].
    + destruct (robj_list xs) as [o|]; [|discriminate]. inversion E; subst. simpl in HI.
      destruct HI as [<-|HI]; [now left | right; eapply IH; eauto].
    + destruct (robj_list xs) as [o|]; [|discriminate]. inversion E; subst. simpl in HI. right. eapply IH; eauto.
Qed.

Lemma as_streams_Eff u xs : forall w, InvS sd w -> u < nunits w -> N <= fresh w ->
  Eff sd N w (fst (as_streams w sd u xs)).
Proof.
  induction xs as [|a xs IH]; intros w HI Hu HN; cbn [as_streams]; [apply Eff_refl|].
  destruct a as [x| |]; cbn [as_stream].
  - specialize (IH w HI Hu HN). destruct (as_streams w sd u xs) as [w2 [ys|e]]; exact IH.
  - pose proof (new_missing_Eff sd N w u HN) as E0.
    destruct (new_missing w sd u) as [w1 m] eqn:NM. cbn [fst] in E0.
    destruct (new_missing_InvS sd w u w1 m HI Hu NM) as (I1 & _ & _ & St & _).
    destruct (new_missing_spec _ _ _ _ _ NM) as (_ & _ & _ & _ & Hf & _).
    assert (E1 : Eff sd N w1 (fst (as_streams w1 sd u xs))) by (apply IH; auto; [destruct St as [A _ _ _ _]; lia | lia]).
    destruct (as_streams w1 sd u xs) as [w2 [ys|e]]; cbn [fst] in *; eapply Eff_trans; eauto.
  - apply Eff_refl.
Qed.

Lemma set_streams_Eff u w lo hi xs : InvS sd w -> u < nunits w -> N <= fresh w -> argsL w xs ->
  (forall a, In a xs -> rarg_okP w a) ->
  Eff sd N w (fst (set_streams w sd u lo hi xs)).
Proof.
  intros HI Hu HN Ha Ok. unfold set_streams.
  pose proof (as_streams_Eff u xs w HI Hu HN) as E0.
  pose proof (as_streams_spec sd u xs w HI Hu Ok) as S.
  destruct (as_streams w sd u xs) as [w1 [ys|e]] eqn:EA; cbn [fst snd] in *; [|exact E0].
  destruct S as (I1 & St1 & Fr1 & Pp & os & Eo & Ln & Oky & NDy & Src0).
  assert (Ff : fresh w <= fresh w1) by (destruct St1 as [_ _ S3 _ _]; exact S3).
  assert (Src : forall y, In y ys -> In (RObj y) xs \/ exists n, y = M_ n /\ fresh w <= n).
  { intros y Hy. destruct (Src0 y Hy) as [Q|Q]; [left; eapply robj_list_somes; eauto | now right]. }
  assert (Tr : forall a, argL sd N w a -> argL sd N w1 a).
  { intros a0 H0. destruct a0 as [[n|n]| |]; simpl in *; auto. intro L.
    destruct (H0 L) as [(s0 & v & HIn)|Q].
    - left. exists s0, v. destruct (side_eqb s0 sd) eqn:E.
      + apply side_eqb_eq in E. subst s0. now rewrite Pp.
      + assert (s0 = other sd) by (destruct s0, sd; simpl in *; congruence). subst s0. now rewrite (F_ports _ _ _ Fr1).
    - right. intros u' Q'. rewrite (F_ptr _ _ _ Fr1 (M_ n)) in Q' by (simpl; lia). rewrite (F_ports _ _ _ Fr1). now apply Q. }
  set (l := ports w1 sd u).
  destruct (slice_bounds lo hi (length l)) as [a b] eqn:Eb.
  destruct (slice_bounds_ok _ _ _ _ _ Eb) as (Hab & Han & Hbn).
  set (l1 := firstn a l). set (l2 := skipn b l). set (olds := firstn (b - a) (skipn a l)).
  assert (EL : l = l1 ++ olds ++ l2) by (apply slice_split; exact Hab).
  change (fold_left (fun w x => undock w sd x) olds w1) with (undock_all w1 sd olds).
  set (l' := l1 ++ ys ++ l2).
  set (w3 := upd_ports (undock_all w1 sd olds) sd u l').
  assert (E3 : Eff sd N w1 w3).
  { apply rewrite_Eff; [lia | |].
    - intros y Hy No. fold l in Hy. rewrite EL in Hy. unfold l'. apply in_app_or in Hy. apply in_or_app.
      destruct Hy as [Hy|Hy]; [now left|]. apply in_app_or in Hy. destruct Hy as [Hy|Hy]; [contradiction|].
      right. apply in_or_app. now right.
    - intros n Hn L. unfold l' in Hn. apply in_app_or in Hn. destruct Hn as [Hn|Hn].
      + left. apply (live_here sd w1 u). fold l. rewrite EL. apply in_or_app. now left.
      + apply in_app_or in Hn. destruct Hn as [Hn|Hn].
        * destruct (Src _ Hn) as [Q|(k & Q & Lk)]; [|inversion Q; lia].
          exact (Tr (RObj (M_ n)) (Ha _ Q) L).
        * left. apply (live_here sd w1 u). fold l. rewrite EL. apply in_or_app. right. apply in_or_app. now right. }
  set (w4 := fold_left (fun w x => redock w sd u x) l' w3).
  assert (E4 : Eff sd N w3 w4).
  { apply redock_all_Eff; [cbn; destruct (undock_all_misc sd olds w1) as (_ & _ & Fr & _); cbn in *; lia|].
    intros x Hx. unfold w3. now rewrite ports_upd_ports_eq. }
  assert (E04 : Eff sd N w w4) by (eapply Eff_trans; [exact E0 | eapply Eff_trans; eauto]).
  destruct (pfixed w4 sd u && (length l' <? psize w4 sd u)); [|exact E04].
  assert (F4 : N <= fresh w4) by (destruct E04 as [_ _ _ Fm _]; lia).
  destruct (new_missings_Eff u (psize w4 sd u - length l') w4 F4) as (E5 & M5 & P5 & F5).
  destruct (new_missings w4 sd u (psize w4 sd u - length l')) as [w5 ms]. cbn [fst snd ok] in *.
  eapply Eff_trans; [exact E04|]. eapply Eff_trans; [exact E5|].
  change (upd_ports w5 sd u (ports w5 sd u ++ ms)) with (upd_ports (undock_all w5 sd []) sd u (ports w5 sd u ++ ms)).
  apply rewrite_Eff; [lia | |].
  - intros y Hy _. apply in_or_app. now left.
  - intros n Hn L. apply in_app_or in Hn. destruct Hn as [Hn|Hn]; [left; now apply (live_here sd w5 u)|].
    destruct (M5 _ Hn) as (k & Q & Lk). inversion Q. lia.
Qed.
End Slices.

Section Empty.
Variable sd : side.
Variable N : nat.

Lemma init_missing_Eff u w : N <= fresh w -> ports w sd u = [] -> Eff sd N w (init_missing w sd u).
Proof.
  intros HN E0. unfold init_missing.
  destruct (new_missings_Eff sd N u (psize w sd u) w HN) as (E5 & M5 & P5 & F5).
  destruct (new_missings w sd u (psize w sd u)) as [w5 ms]. cbn [fst snd] in *.
  eapply Eff_trans; [exact E5|].
  change (upd_ports w5 sd u ms) with (upd_ports (undock_all w5 sd []) sd u ms).
  apply rewrite_Eff; [lia | |].
  - intros y Hy _. rewrite P5, E0 in Hy. destruct Hy.
  - intros n Hn L. destruct (M5 _ Hn) as (k & Q & Lk). inversion Q. lia.
Qed.

Lemma empty_Eff u w : N <= fresh w -> Eff sd N w (fst (empty w sd u)).
Proof.
  intro HN. unfold empty, ok. cbn [fst].
  set (l := ports w sd u). set (B := undock_all w sd l). set (A := upd_ports B sd u []).
  assert (WQ : weq (init_missing A sd u) (init_missing B sd u)).
  { unfold init_missing, A. rewrite new_missings_comm. cbn [psize upd_ports].
    destruct (new_missings B sd u (psize B sd u)) as [B5 ms]. cbn [fst snd]. apply upd_ports_twice. }
  eapply Eff_weq; [exact WQ|].
  eapply Eff_trans.
  - apply (rewrite_Eff sd N u w l [] HN); [intros y Hy No; contradiction | intros n []].
  - apply init_missing_Eff; [|apply ports_upd_ports_eq].
    destruct (undock_all_misc sd l w) as (_ & _ & Fr & _). cbn. fold B in Fr. cbn in Fr. lia.
Qed.
End Empty.

(* ================================================================ whole operations *)
Definition noPH (a : rarg) : Prop := match a with RObj (M_ _) => False | _ => True end.
Lemma noPH_argL sd N w a : noPH a -> argL sd N w a.
Proof. destruct a as [[n|n]| |]; simpl; tauto. Qed.
Definition direct (a : arg) : bool := match a with AAt _ _ _ => false | _ => true end.
Lemma direct_noPH w a : arg_ok w a = true -> direct a = true -> noPH (resolve w a).
Proof. destruct a as [[n|n]|s u k| |]; simpl; try discriminate; auto. Qed.

Lemma robjs_argsL sd N s w v : argsL sd N w (robjs (ports w s v)).
Proof.
  intros a Ha. unfold robjs in Ha. apply in_map_iff in Ha. destruct Ha as (x & <- & Hx).
  destruct x as [n|n]; simpl; [exact I|]. intros _. left. exists s, v. exact Hx.
Qed.

Lemma slice_GoodL sd u w lo hi xs : InvL w -> u < nunits w -> (forall a, In a xs -> rarg_okP w a) ->
  argsL sd (fresh w) w xs -> pre_slice w sd u lo hi xs = true -> GoodL w (set_streams w sd u lo hi xs).
Proof.
  intros HL Hu Ok Ha Pre. pose proof HL as (HI & _ & _). apply (prim_GoodL sd); auto.
  - apply set_streams_good; auto. apply (InvS_side sd w HI).
  - apply set_streams_Eff; auto. apply (InvS_side sd w HI).
Qed.

Lemma take_place_GoodL w u v : InvL w -> u < nunits w -> pre_take_place_of w u v = true ->
  GoodL w (take_place_of w u v).
Proof.
  intros HL Hu Pre. pose proof HL as (HI & _ & _). unfold take_place_of. unfold pre_take_place_of in Pre.
  apply andb_true_iff in Pre. destruct Pre as [P1 P2].
  apply GoodL_andthen.
  - apply slice_GoodL; auto; [apply robjs_ok; exact HI | apply robjs_argsL].
  - intros w1 E L1 St. pose proof L1 as (I1 & _ & _). rewrite E in P2. cbn [fst] in P2.
    apply slice_GoodL; auto; [destruct St as [A _ _ _ _]; lia | apply robjs_ok; exact I1 | apply robjs_argsL].
Qed.

Lemma disc_items_GoodL sd u its : forall w, InvL w -> u < nunits w -> GoodL w (disc_items w sd u its).
Proof.
  induction its as [|it t IH]; intros w HL Hu; cbn [disc_items]; pose proof HL as (HI & _ & _).
  - now apply GoodL_same.
  - apply GoodL_andthen.
    + assert (G : forall i, GoodL w (set_stream w sd u i RNone)).
      { intro i. apply (prim_GoodL sd); auto.
        - apply set_stream_good; auto; [apply (InvS_side sd w HI) | exact I].
        - apply set_stream_Eff; auto; [apply (InvS_side sd w HI) | exact I]. }
      destruct it as [i|x|]; [apply G | | now apply GoodL_same].
      destruct (is_real x); [|now apply GoodL_same].
      destruct (index_of x (ports w SIn u)); [apply G | now apply GoodL_same].
    + intros w1 _ L1 St1. apply IH; auto. destruct St1 as [A _ _ _ _]. lia.
Qed.
Lemma disc_side_GoodL sd u o w : InvL w -> u < nunits w -> GoodL w (disc_side w sd u o).
Proof.
  intros HL Hu. destruct o as [its|]; cbn [disc_side].
  - now apply disc_items_GoodL.
  - apply slice_GoodL; auto; [intros a [] | intros a [] | apply pre_slice_nil].
Qed.

Lemma join_ends_GoodL ios : forall w, InvL w -> (forall i o, In (i, o) ios -> rarg_okP w i /\ noPH i) ->
  pre_join w ios = true -> GoodL w (join_ends w ios).
Proof.
  induction ios as [|[i [o|]] ios IH]; intros w HL Ok Pre; cbn [join_ends pre_join] in *; pose proof HL as (HI & _ & _).
  - now apply GoodL_same.
  - destruct (ptr w SIn o) as [v|] eqn:P.
    + apply andb_true_iff in Pre. destruct Pre as [P1 P2].
      destruct (InvS_side SIn w HI) as [IS _]. destruct (Ok i (Some o) (or_introl eq_refl)) as [Oi Ni].
      assert (Hv : v < nunits w) by (eapply I_uptr; eauto).
      apply GoodL_andthen.
      * apply (prim_GoodL SIn); auto; [apply replace_good | apply replace_Eff]; auto. now apply noPH_argL.
      * intros w1 E L1 St. rewrite E in P2. cbn [fst] in P2. apply IH; auto.
        intros i' o' H. destruct (Ok i' o' (or_intror H)) as [A B]. split; [eapply rarg_ok_stat; eauto | exact B].
    + apply IH; auto. intros i' o' H. apply (Ok i' o'). now right.
  - now apply GoodL_same.
Qed.

Lemma insert_stream_argL sd u w i a b :
  argL sd (fresh w) w b -> argL sd (fresh (fst (insert_stream w sd u i a))) (fst (insert_stream w sd u i a)) b.
Proof.
  intro H. unfold insert_stream. destruct (pfixed w sd u); [exact H|].
  destruct a as [x| |]; try exact H. cbn [ok fst].
  destruct b as [[n|n]| |]; simpl in *; auto. intro L.
  change (fresh (upd_ports (dock (undock w sd x) sd u x) sd u
           (insert_at match i with Some i0 => clampZ (Some i0) (length (ports w sd u)) 0 | None => length (ports w sd u) end x (ports w sd u)))) with (fresh w) in L.
  destruct (H L) as [(s0 & v & HI)|Q].
  - left. exists s0, v. unfold upd_ports, dock, undock, upd_ptr; simpl.
    destruct (side_eqb s0 sd && (v =? u)) eqn:E; [|exact HI].
    apply andb_true_iff in E. destruct E as [E1 E2]. apply side_eqb_eq in E1. apply Nat.eqb_eq in E2. subst s0 v.
    unfold insert_at. rewrite <- (firstn_skipn (match i with Some i0 => clampZ (Some i0) (length (ports w sd u)) 0 | None => length (ports w sd u) end) (ports w sd u)) in HI.
    apply in_app_or in HI. apply in_or_app. destruct HI; [now left | right; now right].
  - right. intros u' Q'. unfold ND in Q. unfold upd_ports, dock, undock, upd_ptr in *; simpl in *. rewrite !side_eqb_other in *. now apply Q.
Qed.

Fixpoint extend_GoodL_aux sd u xs : forall w, InvL w -> u < nunits w -> pfixed w sd u = false ->
  (forall a, In a xs -> rarg_okP w a /\ argL sd (fresh w) w a) ->
  NoDup (before_error xs) -> (forall x, In x (before_error xs) -> ptr w sd x = None) ->
  GoodL w (extend_streams w sd u xs).
Proof.
  destruct xs as [|a xs]; intros w HL Hu Fx Ok ND Pn; cbn [extend_streams]; pose proof HL as (HI & _ & _).
  - now apply GoodL_same.
  - destruct (Ok a (or_introl eq_refl)) as [Oa Na].
    apply GoodL_andthen.
    + apply (prim_GoodL sd); auto.
      * apply insert_stream_good; auto; [apply (InvS_side sd w HI)|].
        unfold pre_insert. rewrite Fx. simpl. destruct a as [x| |]; auto. rewrite Pn; [reflexivity | now left].
      * apply insert_stream_Eff; [lia | exact Na].
    + intros w1 E1 L1 St.
      assert (W1 : w1 = fst (insert_stream w sd u None a)) by (rewrite E1; reflexivity).
      destruct a as [x| |]; try (unfold insert_stream in E1; rewrite Fx in E1; discriminate).
      simpl in ND, Pn. inversion ND as [|? ? NI ND']; subst.
      apply (extend_GoodL_aux sd u xs); auto.
      * destruct St as [A _ _ _ _]. lia.
      * destruct St as [_ _ _ _ S5]. rewrite S5. exact Fx.
      * intros b Hb. destruct (Ok b (or_intror Hb)) as [A B]. split; [eapply rarg_ok_stat; eauto | now apply insert_stream_argL].
      * intros y Hy. rewrite insert_stream_ptr; [apply Pn; now right|]. intros x0 Q. inversion Q; subst. intro; subst; contradiction.
Qed.

(* ================================================================ pointers that do not dangle stay that way *)
Lemma ND_prim sd w r x s : good sd w r -> Eff sd (fresh w) w (fst r) -> obj_okP w x -> ND s w x -> ND s (fst r) x.
Proof.
  intros (_ & Fr & _) [SB _ _ _ _] Ok H u' P. destruct (side_eqb s sd) eqn:E.
  - apply side_eqb_eq in E. subst s. destruct (SB _ _ P) as [Q|[[Q1 Q2]|(n & -> & L1 & L2)]]; [exact Q | | simpl in Ok; lia].
    exfalso. apply Q2. now apply H.
  - assert (s = other sd) by (destruct s, sd; simpl in *; congruence). subst s.
    rewrite (F_ptr _ _ _ Fr x Ok) in P. rewrite (F_ports _ _ _ Fr). now apply H.
Qed.
Lemma live_ND w x s : InvL w -> live w x -> ND s w x.
Proof.
  intros ((HIi & HIo) & HL & _) (s0 & v & H) u' P.
  assert (IS : forall s1, InvS s1 w) by (intros []; assumption).
  destruct x as [n|n]; [apply (I_real _ _ (IS s)); exact P|].
  destruct (side_eqb s0 s) eqn:E.
  - apply side_eqb_eq in E. subst s0. pose proof (I_ptr _ _ (IS s) v _ H) as Q. rewrite P in Q. inversion Q; subst. exact H.
  - assert (s0 = other s) by (destruct s0, s; simpl in *; congruence). subst s0. now apply (HL s v u' n).
Qed.
Lemma real_ND w n s : Inv w -> ND s w (S_ n).
Proof. intros [A B] u' P. destruct s; [apply (I_real _ _ A) | apply (I_real _ _ B)]; exact P. Qed.
Lemma resolve_ND w a s : InvL w -> arg_ok w a = true ->
  match resolve w a with RObj x => ND s w x | _ => True end.
Proof.
  intros HL H. pose proof HL as (HI & _ & _). destruct a as [x|s0 u k| |]; [| | exact I | exact I].
  - simpl in H. destruct x; [simpl; now apply real_ND | discriminate].
  - unfold resolve. destruct (ports w s0 u) as [|d t] eqn:E; [exact I|].
    apply live_ND; auto. exists s0, u. rewrite E. apply nth_In. apply Nat.mod_upper_bound. simpl. lia.
Qed.
Lemma ND_argL sd N w x : ND (other sd) w x -> argL sd N w (RObj x).
Proof. intro H. destruct x as [n|n]; simpl; [exact I|]. intros _. now right. Qed.

(* disconnect(inlets=[...]): once the items were processed without an exception they were ints or streams *)
Lemma disc_items_noPH sd u its : forall w w1, disc_items w sd u its = (w1, None) ->
  forall it, In it its -> noPH (as_inlet it).
Proof.
  induction its as [|it t IH]; intros w w1 E it0 Hit; [destruct Hit|]. cbn [disc_items] in E.
  destruct Hit as [<-|Hit].
  - destruct it as [i|x|]; simpl; auto.
    destruct x as [n|n]; simpl; auto. simpl in E. discriminate.
  - destruct (match it with
              | RDIdx i => set_stream w sd u i RNone
              | RDObj x => if is_real x then match index_of x (ports w SIn u) with
                                             | Some k => set_stream w sd u (Z.of_nat k) RNone
                                             | None => fail w EValue end else fail w EIndex
              | RDBad => fail w EIndex end) as [w' [e|]] eqn:E0; simpl in E; [discriminate|].
    eapply IH; eauto.
Qed.

(* replace_with(None): the unit is bypassed pair by pair *)
Lemma bypass_GoodL ios : forall w, InvL w ->
  (forall i o, In (i, o) ios -> (obj_okP w i /\ ND SIn w i /\ ND SOut w i) /\ (obj_okP w o /\ ND SIn w o /\ ND SOut w o)) ->
  pre_bypass w ios = true -> GoodL w (bypass w ios).
Proof.
  induction ios as [|[i o] ios IH]; intros w HL Ok Pre; cbn [bypass pre_bypass] in *; pose proof HL as (HI & _ & _).
  - now apply GoodL_same.
  - destruct (Ok i o (or_introl eq_refl)) as [(Oi & Ni1 & Ni2) (Oo & No1 & No2)].
    assert (NEXT : forall sd r, good sd w r -> Eff sd (fresh w) w (fst r) -> stat w (fst r) ->
              forall i' o', In (i', o') ios ->
              (obj_okP (fst r) i' /\ ND SIn (fst r) i' /\ ND SOut (fst r) i') /\ (obj_okP (fst r) o' /\ ND SIn (fst r) o' /\ ND SOut (fst r) o')).
    { intros sd r G E St i' o' H. destruct (Ok i' o' (or_intror H)) as [(A1 & A2 & A3) (B1 & B2 & B3)].
      repeat split; try (eapply stat_okP; eauto); eapply ND_prim; eauto. }
    destruct (ptr w SOut i) as [src|] eqn:P.
    + apply andb_true_iff in Pre. destruct Pre as [P1 P2].
      destruct (InvS_side SOut w HI) as [IS _]. assert (Hs : src < nunits w) by (eapply I_uptr; eauto).
      assert (G : good SOut w (replace w SOut src (RObj i) (RObj o))) by (apply replace_good; auto).
      assert (E : Eff SOut (fresh w) w (fst (replace w SOut src (RObj i) (RObj o)))) by (apply replace_Eff; auto; now apply ND_argL).
      apply GoodL_andthen; [apply (prim_GoodL SOut); auto|].
      intros w1 E1 L1 St. assert (W1 : fst (replace w SOut src (RObj i) (RObj o)) = w1) by (rewrite E1; reflexivity).
      rewrite W1 in P2. apply IH; auto. intros i' o' H. rewrite <- W1. exact (NEXT SOut _ G E (proj2 (proj2 G)) i' o' H).
    + destruct (ptr w SIn o) as [snk|] eqn:Q.
      * apply andb_true_iff in Pre. destruct Pre as [P1 P2].
        destruct (InvS_side SIn w HI) as [IS _]. assert (Hs : snk < nunits w) by (eapply I_uptr; eauto).
        assert (G : good SIn w (replace w SIn snk (RObj o) (RObj i))) by (apply replace_good; auto).
        assert (E : Eff SIn (fresh w) w (fst (replace w SIn snk (RObj o) (RObj i)))) by (apply replace_Eff; auto; now apply ND_argL).
        apply GoodL_andthen; [apply (prim_GoodL SIn); auto|].
        intros w1 E1 L1 St. assert (W1 : fst (replace w SIn snk (RObj o) (RObj i)) = w1) by (rewrite E1; reflexivity).
        rewrite W1 in P2. apply IH; auto. intros i' o' H. rewrite <- W1. exact (NEXT SIn _ G E (proj2 (proj2 G)) i' o' H).
      * apply IH; auto. intros i' o' H. apply Ok. now right.
Qed.
Lemma replace_with_none_GoodL w u : InvL w -> u < nunits w ->
  pre_bypass w (combine (ports w SIn u) (ports w SOut u)) = true -> GoodL w (replace_with w u None).
Proof.
  intros HL Hu Pre. pose proof HL as (HI & _ & _). unfold replace_with.
  apply GoodL_andthen.
  - apply bypass_GoodL; auto. intros i o H.
    pose proof (in_combine_l _ _ _ _ H) as H1. pose proof (in_combine_r _ _ _ _ H) as H2.
    destruct (InvS_side SIn w HI) as [ISi _]. destruct (InvS_side SOut w HI) as [ISo _].
    assert (Li : live w i) by (exists SIn, u; exact H1). assert (Lo : live w o) by (exists SOut, u; exact H2).
    split; (split; [|split; apply live_ND; auto]); [apply (I_ok _ _ ISi u _ H1) | apply (I_ok _ _ ISo u _ H2)].
  - intros w1 _ L1 St1. pose proof L1 as (I1 & _ & _). apply GoodL_andthen.
    + apply (prim_GoodL SIn); auto; [apply empty_good | apply empty_Eff]; auto; [apply (InvS_side SIn w1 I1) | destruct St1 as [A _ _ _ _]; lia].
    + intros w2 _ L2 St2. pose proof L2 as (I2 & _ & _).
      apply (prim_GoodL SOut); auto; [apply empty_good | apply empty_Eff]; auto; [apply (InvS_side SOut w2 I2)|].
      destruct St1 as [A _ _ _ _]. destruct St2 as [A' _ _ _ _]. lia.
Qed.

(* ================================================================ extended slices *)
Lemma set_streams_step_Eff sd N u w lo hi st xs :
  InvS sd w -> u < nunits w -> N <= fresh w -> argsL sd N w xs -> (forall a, In a xs -> rarg_okP w a) ->
  pre_slice_step w sd u lo hi st xs = true -> Eff sd N w (fst (set_streams_step w sd u lo hi st xs)).
Proof.
  intros HI Hu HN Ha Ok Pre. unfold set_streams_step. unfold pre_slice_step in Pre.
  destruct (st =? 1)%Z; [now apply set_streams_Eff|].
  pose proof (as_streams_Eff sd N u xs w HI Hu HN) as E0.
  pose proof (as_streams_spec sd u xs w HI Hu Ok) as S.
  destruct (as_streams w sd u xs) as [w1 [ys|e]]; cbn [fst snd] in *; [|exact E0].
  destruct S as (I1 & St1 & Fr1 & Pp & os & Eo & Ln & Oky & NDy & Src0).
  rewrite Eo in Pre.
  destruct (st =? 0)%Z eqn:Z0; [exact E0|]. apply Z.eqb_neq in Z0.
  rewrite <- (Pp u) in Pre. set (l := ports w1 sd u) in *.
  apply andb_true_iff in Pre. destruct Pre as [Pre P3]. apply andb_true_iff in Pre. destruct Pre as [P1 P2].
  apply Nat.eqb_eq in P1. apply nodupb_NoDup in P2. rewrite forallb_forall in P3.
  set (idxs := ext_indices lo hi st (length l)) in *.
  destruct (ext_indices_ok lo hi st (length l) Z0) as [NDi Bi]. fold idxs in NDi, Bi.
  assert (Le : (length ys =? length idxs) = true) by (apply Nat.eqb_eq; congruence). rewrite Le. cbn [negb].
  assert (Ff : fresh w <= fresh w1) by (destruct St1 as [_ _ S3 _ _]; exact S3).
  assert (Dis : forall y, In y ys -> ~ In y l).
  { intros y Hy HIn. destruct (Src0 y Hy) as [Q|(n & -> & Ln')].
    - specialize (P3 y Q). apply negb_true_iff in P3. apply mem_false in P3. contradiction.
    - unfold l in HIn. rewrite Pp in HIn. apply (I_ok _ _ HI) in HIn. simpl in HIn. lia. }
  destruct (assign_spec idxs ys l NDi Bi ltac:(congruence) (I_nodup _ _ I1 u) (NDy P2) Dis) as (NDl' & Ll' & Mem).
  set (olds := map (fun i => nth i l (M_ 0)) idxs) in *. set (l' := assign l idxs ys) in *.
  change (fold_left (fun w x => undock w sd x) olds w1) with (undock_all w1 sd olds).
  assert (Tr : forall a, argL sd N w a -> argL sd N w1 a).
  { intros a0 H0. destruct a0 as [[n|n]| |]; simpl in *; auto. intro L.
    destruct (H0 L) as [(s0 & v & HIn)|Q].
    - left. exists s0, v. destruct (side_eqb s0 sd) eqn:E.
      + apply side_eqb_eq in E. subst s0. now rewrite Pp.
      + assert (s0 = other sd) by (destruct s0, sd; simpl in *; congruence). subst s0. now rewrite (F_ports _ _ _ Fr1).
    - right. intros u' Q'. rewrite (F_ptr _ _ _ Fr1 (M_ n)) in Q' by (simpl; lia). rewrite (F_ports _ _ _ Fr1). now apply Q. }
  set (w3 := upd_ports (undock_all w1 sd olds) sd u l').
  assert (E3 : Eff sd N w1 w3).
  { apply rewrite_Eff; [lia | |].
    - intros y Hy No. apply Mem. left. split; assumption.
    - intros n Hn L. apply Mem in Hn. destruct Hn as [[Hn _]|Hn]; [left; now apply (live_here sd w1 u)|].
      destruct (Src0 _ Hn) as [Q|(k & Q & Lk)]; [|inversion Q; lia].
      exact (Tr (RObj (M_ n)) (Ha _ (robj_list_somes xs os (M_ n) Eo Q)) L). }
  set (w4 := fold_left (fun w x => redock w sd u x) l' w3).
  assert (E4 : Eff sd N w3 w4).
  { apply redock_all_Eff; [cbn; destruct (undock_all_misc sd olds w1) as (_ & _ & Fr & _); cbn in *; lia|].
    intros x Hx. unfold w3. now rewrite ports_upd_ports_eq. }
  assert (E04 : Eff sd N w w4) by (eapply Eff_trans; [exact E0 | eapply Eff_trans; eauto]).
  destruct (pfixed w4 sd u && (length l' <? psize w4 sd u)); [|exact E04].
  assert (F4 : N <= fresh w4) by (destruct E04 as [_ _ _ Fm _]; lia).
  destruct (new_missings_Eff sd N u (psize w4 sd u - length l') w4 F4) as (E5 & M5 & P5 & F5).
  destruct (new_missings w4 sd u (psize w4 sd u - length l')) as [w5 ms]. cbn [fst snd ok] in *.
  eapply Eff_trans; [exact E04|]. eapply Eff_trans; [exact E5|].
  change (upd_ports w5 sd u (ports w5 sd u ++ ms)) with (upd_ports (undock_all w5 sd []) sd u (ports w5 sd u ++ ms)).
  apply rewrite_Eff; [lia | |].
  - intros y Hy _. apply in_or_app. now left.
  - intros n Hn L. apply in_app_or in Hn. destruct Hn as [Hn|Hn]; [left; now apply (live_here sd w5 u)|].
    destruct (M5 _ Hn) as (k & Q & Lk). inversion Q. lia.
Qed.

(* ================================================================ unit.insert(stream, inlet, outlet) *)
Lemma explicit_port_argL sd N w u chk p y : explicit_port w u chk p = Ok y -> argL sd N w (RObj y).
Proof.
  intro E. destruct p as [|i|x]; simpl in E; [discriminate| |].
  - destruct (norm_index i (length (ports w SOut u))) as [k|] eqn:Ek; [|discriminate]. inversion E; subst.
    assert (HI : In (nth k (ports w SOut u) (M_ 0)) (ports w SOut u)) by (apply nth_In; eapply norm_index_lt; eauto).
    remember (nth k (ports w SOut u) (M_ 0)) as z eqn:Ez. clear Ez. destruct z as [n|n]; simpl; [exact I|].
    intros _. left. exists SOut, u. exact HI.
  - destruct (is_real x) eqn:R; [|discriminate]. destruct (ptr w chk x) as [v|]; [|discriminate].
    destruct (v =? u); inversion E; subst. destruct y; simpl in *; [exact I | discriminate].
Qed.
Lemma hd_argL sd N w s v y : hd_arg (ports w s v) = Some y -> argL sd N w (RObj y).
Proof.
  intro H. destruct (ports w s v) as [|y' t'] eqn:E; [discriminate|]. simpl in H. inversion H; subst.
  destruct y as [n|n]; simpl; [exact I|]. intros _. left. exists s, v. rewrite E. now left.
Qed.

Lemma unit_insert_GoodL w u a pin pout : InvL w -> u < nunits w -> arg_ok w a = true ->
  port_ok w pin = true -> port_ok w pout = true -> preb w (OUnitInsert u a pin pout) = true ->
  GoodL w (unit_insert w u (resolve w a) (resolve_port w pin) (resolve_port w pout)).
Proof.
  intros HLv Wf H0 H1 H2 Pre. pose proof HLv as (HI & HL & HU). cbn [preb] in Pre. unfold unit_insert.
  assert (Ra0 : rarg_okP w (resolve w a)) by (apply resolve_ok; assumption).
  pose proof (resolve_argL SIn (fresh w) w a H0) as La0.
  destruct (resolve w a) as [s| |] eqn:Ra; try now apply GoodL_same.
  apply andb_true_iff in Pre. destruct Pre as [Po Pi].
  assert (Oro : rport_okP w (resolve_port w pout)) by (apply resolve_port_ok; assumption).
  assert (Ori : rport_okP w (resolve_port w pin)) by (apply resolve_port_ok; assumption).
  set (ro := resolve_port w pout) in *. set (ri := resolve_port w pin) in *.
  unfold pre_insert_out in Po. destruct (ptr w SIn s) as [v|] eqn:Psi; [|discriminate].
  assert (Vlt : v < nunits w) by (destruct (InvS_side SIn w HI) as [IS _]; eapply I_uptr; eauto).
  assert (Add : match ro with RPNone => negb (pfixed w SOut u) | _ => false end = false).
  { destruct ro; auto. apply andb_true_iff in Po. destruct Po as [Po _]. apply andb_true_iff in Po.
    destruct Po as [Q1 _]. now rewrite Q1. }
  rewrite Add.
  assert (REP : forall y, obj_okP w y -> argL SIn (fresh w) w (RObj y) -> pre_replace w SIn v (RObj s) (RObj y) = true ->
                GoodL w (replace w SIn v (RObj s) (RObj y))).
  { intros y Oy Ly Pr'. apply (prim_GoodL SIn); auto; [apply replace_good | apply replace_Eff]; auto; apply (InvS_side SIn w HI). }
  assert (OUT : exists y, insert_out w u s ro = replace w SIn v (RObj s) (RObj y) /\ obj_okP w y /\
                          argL SIn (fresh w) w (RObj y) /\ pre_replace w SIn v (RObj s) (RObj y) = true).
  { unfold insert_out. rewrite Psi. destruct ro as [|i|x] eqn:Ero.
    + apply andb_true_iff in Po. destruct Po as [Po P3]. apply andb_true_iff in Po. destruct Po as [Q1 Q2].
      rewrite Q1, Q2. destruct (hd_arg (ports w SOut u)) as [y|] eqn:Hy; [|discriminate].
      exists y. split; [reflexivity|]. split; [|split; [eapply hd_argL; eauto | exact P3]].
      destruct (ports w SOut u) as [|y' t'] eqn:E; [discriminate|]. simpl in Hy. inversion Hy; subst.
      destruct (InvS_side SOut w HI) as [IS _]. apply (I_ok _ _ IS u). rewrite E. now left.
    + destruct (explicit_port w u SOut (RPIndex i)) as [y|e] eqn:Ex; [|discriminate].
      exists y. split; [reflexivity|]. split; [exact (explicit_port_ok w u SOut _ y HI Oro Ex)|]. split; [eapply explicit_port_argL; eauto | exact Po].
    + destruct (explicit_port w u SOut (RPObj x)) as [y|e] eqn:Ex; [|discriminate].
      exists y. split; [reflexivity|]. split; [exact (explicit_port_ok w u SOut _ y HI Oro Ex)|]. split; [eapply explicit_port_argL; eauto | exact Po]. }
  destruct OUT as (y & EO & Oy & Ly & Py).
  assert (GO : good SIn w (insert_out w u s ro)).
  { rewrite EO. apply replace_good; auto. apply (InvS_side SIn w HI). }
  apply GoodL_andthen.
  - rewrite EO. now apply REP.
  - intros w1 E1 L1 St1. pose proof L1 as (I1 & _ & _).
    assert (E1' : fst (insert_out w u s ro) = w1) by (rewrite E1; reflexivity). rewrite E1' in Pi.
    pose proof (St_nunits _ _ St1) as S1.
    assert (SRC : forall t z, ptr w SOut s = Some t -> obj_okP w1 z -> argL SOut (fresh w1) w1 (RObj z) ->
                  pre_replace w1 SOut t (RObj s) (RObj z) = true -> GoodL w1 (replace w1 SOut t (RObj s) (RObj z))).
    { intros t z Pt Oz Lz Pr'. apply (prim_GoodL SOut); auto; [apply replace_good | apply replace_Eff]; auto;
        try apply (InvS_side SOut w1 I1); destruct (InvS_side SOut w HI) as [IS _]; rewrite S1; eapply I_uptr; eauto. }
    assert (Ori1 : rport_okP w1 ri) by (destruct ri; simpl in *; auto; eapply stat_okP; eauto).
    unfold insert_in, pre_insert_in in *. destruct ri as [|i|x] eqn:Eri.
    + rewrite orb_false_r. destruct (pfixed w1 SIn u) eqn:Fx1.
      * apply andb_true_iff in Pi. destruct Pi as [Q3 Pi]. rewrite Q3.
        destruct (ptr w SOut s) as [t|] eqn:Pt; [|discriminate].
        destruct (hd_arg (ports w1 SIn u)) as [z|] eqn:Hz; [|now apply GoodL_same].
        apply (SRC t z eq_refl); auto; [|eapply hd_argL; eauto].
        destruct (InvS_side SIn w1 I1) as [IS _]. apply (I_ok _ _ IS u).
        destruct (ports w1 SIn u) as [|z' t'] eqn:E; [discriminate|]. simpl in Hz. inversion Hz. now left.
      * (* the stream itself is appended to the unit's variable-size inlets *)
        apply (prim_GoodL SIn); auto.
        -- apply insert_stream_good; auto; [apply (InvS_side SIn w1 I1) | lia |]. eapply (rarg_ok_stat w w1 (RObj s)); eauto.
        -- apply insert_stream_Eff; [lia|]. destruct s as [n|n]; simpl; [exact I|]. intros _.
           (* a placeholder: it is still listed among its source's outlets, or has no source *)
           assert (Ex : n < fresh w) by exact Ra0.
           destruct GO as (_ & Fr & _). rewrite E1' in Fr.
           pose proof (F_ptr _ _ _ Fr (M_ n) Ex) as Qp. pose proof (F_ports _ _ _ Fr) as Qq. cbn [other] in Qp, Qq |- *.
           right. intros t Pt. rewrite Qp in Pt. rewrite Qq.
           destruct (La0 Ex) as [(s0 & v0 & H0')|Q]; [|exact (Q t Pt)].
           destruct s0.
           ++ apply (HL SOut v0 t n); [exact H0' | exact Pt].
           ++ destruct (InvS_side SOut w HI) as [IS _]. pose proof (I_ptr _ _ IS v0 _ H0') as Q. rewrite Pt in Q. inversion Q; subst. exact H0'.
    + destruct (explicit_port w1 u SIn (RPIndex i)) as [z|e] eqn:Ex; [|discriminate].
      destruct (ptr w SOut s) as [t|] eqn:Pt; [|discriminate].
      apply (SRC t z eq_refl); auto; [eapply explicit_port_ok; eauto | eapply explicit_port_argL; eauto].
    + destruct (explicit_port w1 u SIn (RPObj x)) as [z|e] eqn:Ex; [|discriminate].
      destruct (ptr w SOut s) as [t|] eqn:Pt; [|discriminate].
      apply (SRC t z eq_refl); auto; [eapply explicit_port_ok; eauto | eapply explicit_port_argL; eauto].
Qed.

(* every operation except unit construction, which is covered separately (new_unit_Live) *)
Definition coveredb (o : op) : bool := match o with ONewUnit _ _ _ _ _ _ => false | _ => true end.

Theorem step_Live w o : InvL w -> wfb w o = true -> preb w o = true -> coveredb o = true ->
  GoodL w (step w o).
Proof.
  intros HL Wf Pre Cv. pose proof HL as (HI & _ & _). unfold step.
  destruct o; cbn [wfb preb coveredb] in Wf, Pre, Cv; try discriminate; cbn [step_with];
    repeat match goal with H : _ && _ = true |- _ => apply andb_true_iff in H; destruct H end;
    repeat match goal with H : unit_ok _ _ = true |- _ => apply unit_ok_lt in H end.
  - (* OSet *) apply (prim_GoodL sd); auto.
    + apply set_stream_good; auto; [apply (InvS_side sd w HI) | now apply resolve_ok].
    + apply set_stream_Eff; auto; [apply (InvS_side sd w HI) | now apply resolve_argL].
  - (* OSetSlice *)
    assert (Oa : forall a, In a xs -> arg_ok w a = true) by (rewrite forallb_forall in H0; exact H0).
    apply slice_GoodL; auto.
    + intros a Ha. apply in_map_iff in Ha. destruct Ha as (b & <- & Hb). apply resolve_ok; auto.
    + intros a Ha. apply in_map_iff in Ha. destruct Ha as (b & <- & Hb). apply resolve_argL; auto.
  - (* OSetSliceStep *)
    assert (Oa : forall a, In a xs -> arg_ok w a = true) by (rewrite forallb_forall in H0; exact H0).
    assert (Ok : forall a, In a (map (resolve w) xs) -> rarg_okP w a).
    { intros a Ha. apply in_map_iff in Ha. destruct Ha as (b & <- & Hb). apply resolve_ok; auto. }
    apply (prim_GoodL sd); auto.
    + apply set_streams_step_good; auto. apply (InvS_side sd w HI).
    + apply set_streams_step_Eff; auto; [apply (InvS_side sd w HI)|].
      intros a Ha. apply in_map_iff in Ha. destruct Ha as (b & <- & Hb). apply resolve_argL; auto.
  - (* OInsert *) apply (prim_GoodL sd); auto.
    + apply insert_stream_good; auto; [apply (InvS_side sd w HI) | now apply resolve_ok].
    + apply insert_stream_Eff; [lia | now apply resolve_argL].
  - (* OAppend *) apply (prim_GoodL sd); auto.
    + apply insert_stream_good; auto; [apply (InvS_side sd w HI) | now apply resolve_ok].
    + apply insert_stream_Eff; [lia | now apply resolve_argL].
  - (* OExtend *) unfold extend. unfold pre_extend in Pre.
    destruct (pfixed w sd u) eqn:Fx; [now apply GoodL_same|]. simpl in Pre.
    apply andb_true_iff in Pre. destruct Pre as [P1 P2]. apply nodupb_NoDup in P1. rewrite forallb_forall in P2.
    rewrite forallb_forall in H0.
    apply extend_GoodL_aux; auto.
    + intros a Ha. apply in_map_iff in Ha. destruct Ha as (b & <- & Hb). split; [apply resolve_ok; auto | apply resolve_argL; auto].
    + intros x Hx. specialize (P2 x Hx). destruct (ptr w sd x); [discriminate | reflexivity].
  - (* OReplace *) apply (prim_GoodL sd); auto.
    + apply replace_good; auto; [apply (InvS_side sd w HI) | now apply resolve_ok].
    + apply replace_Eff; auto; [apply (InvS_side sd w HI) | now apply resolve_argL].
  - (* OPop *) apply (prim_GoodL sd); auto; [apply pop_good | apply pop_Eff]; auto; apply (InvS_side sd w HI).
  - (* ORemove *) apply (prim_GoodL sd); auto; [apply remove_good | apply remove_Eff]; auto; apply (InvS_side sd w HI).
  - (* OClear *) apply negb_true_iff in Pre. apply (prim_GoodL sd); auto; [apply clear_var_good | apply clear_var_Eff]; auto.
    apply (InvS_side sd w HI).
  - (* OEmpty *) apply (prim_GoodL sd); auto; [apply empty_good | apply empty_Eff]; auto. apply (InvS_side sd w HI).
  - (* ODisc *) apply (prim_GoodL sd); auto; [apply disconnect_side_good | apply disconnect_side_Eff]; auto; apply (InvS_side sd w HI).
  - (* ODiscBoth *) apply GoodL_andthen.
    + apply (prim_GoodL SOut); auto; [apply disconnect_side_good | apply disconnect_side_Eff]; auto; apply (InvS_side SOut w HI).
    + intros w1 _ L1 _. pose proof L1 as (I1 & _ & _).
      apply (prim_GoodL SIn); auto; [apply disconnect_side_good | apply disconnect_side_Eff]; auto; apply (InvS_side SIn w1 I1).
  - (* OPipeUU *) apply slice_GoodL; auto; [apply robjs_ok; exact HI | apply robjs_argsL].
  - (* OUnitDisconnect *) unfold unit_disconnect.
    set (ri := resolve_items w pi) in *. set (ro := resolve_items w po) in *.
    apply GoodL_andthen; [now apply disc_side_GoodL|].
    intros w1 E1 L1 St1. apply GoodL_andthen; [apply disc_side_GoodL; auto; destruct St1 as [A _ _ _ _]; lia|].
    intros w2 E2 L2 St2. destruct join; [|now apply GoodL_same].
    assert (W1 : fst (disc_side w SIn u ri) = w1) by (rewrite E1; reflexivity).
    assert (W2 : fst (disc_side w1 SOut u ro) = w2) by (rewrite E2; reflexivity).
    cbv zeta in Pre. rewrite W1 in Pre. rewrite W2 in Pre.
    destruct (negb (join_len_ok w w1 u ri ro)) eqn:Ln; [now apply GoodL_same|]. simpl in Pre.
    apply join_ends_GoodL; auto.
    intros i o Hio. unfold join_list in Hio. apply in_combine_l in Hio.
    destruct ri as [its|] eqn:Eri.
    + apply in_map_iff in Hio. destruct Hio as (it & <- & Hit). split.
      * apply (rarg_ok_stat w w2); [eapply stat_trans; [exact St1 | exact St2]|]. eapply (items_ok_P w pi its); eauto.
      * cbn [disc_side] in E1. eapply disc_items_noPH; eauto.
    + apply in_map_iff in Hio. destruct Hio as (x & <- & Hx). split.
      * apply (rarg_ok_stat w w2); [eapply stat_trans; [exact St1 | exact St2]|]. simpl. eapply filter_real_ok; eauto.
      * apply filter_In in Hx. destruct Hx as [_ Hr]. destruct x; simpl in *; [exact I | discriminate].
  - (* OUnitInsert *) apply unit_insert_GoodL; auto.
  - (* OTakePlaceOf *) now apply take_place_GoodL.
  - (* OReplaceWith *) destruct v as [v|].
    + cbn [replace_with]. apply take_place_GoodL; auto. apply unit_ok_lt; assumption.
    + now apply replace_with_none_GoodL.
  - (* OReconnect *) unfold reconnect.
    assert (Ra : rarg_okP w (resolve w a)) by (apply resolve_ok; assumption).
    pose proof (resolve_ND w a SOut HL ltac:(assumption)) as NDo.
    assert (Hsrc : match src with Some t => t < nunits w | None => True end).
    { destruct src; [apply unit_ok_lt; assumption | exact I]. }
    assert (Hsnk : match snk with Some v => v < nunits w | None => True end).
    { destruct snk; [apply unit_ok_lt; assumption | exact I]. }
    assert (PA : match src with Some t => pre_set w SOut t si (resolve w a) = true | None => True end).
    { destruct src; [assumption | exact I]. }
    assert (PB : forall w1, fst (match src with
                                 | Some t => set_stream w SOut t si (resolve w a)
                                 | None => disconnect_side w SOut (resolve w a)
                                 end) = w1 ->
                 match snk with Some v => pre_set w1 SIn v ki (resolve w a) = true | None => True end).
    { intros w1 E. destruct snk; [|exact I]. rewrite <- E. assumption. }
    assert (La : argL SOut (fresh w) w (resolve w a)) by (apply resolve_argL; assumption).
    assert (G1 : good SOut w (match src with
                              | Some t => set_stream w SOut t si (resolve w a)
                              | None => disconnect_side w SOut (resolve w a) end)).
    { destruct src as [t|]; [apply set_stream_good | apply disconnect_side_good]; auto; apply (InvS_side SOut w HI). }
    assert (F1 : Eff SOut (fresh w) w (fst (match src with
                              | Some t => set_stream w SOut t si (resolve w a)
                              | None => disconnect_side w SOut (resolve w a) end))).
    { destruct src as [t|]; [apply set_stream_Eff | apply disconnect_side_Eff]; auto; apply (InvS_side SOut w HI). }
    apply GoodL_andthen; [apply (prim_GoodL SOut); auto|].
    intros w1 E1 L1 St1. pose proof L1 as (I1 & _ & _).
    assert (W1 : fst (match src with
                      | Some t => set_stream w SOut t si (resolve w a)
                      | None => disconnect_side w SOut (resolve w a) end) = w1) by (destruct src; rewrite E1; reflexivity).
    assert (PB1 : match snk with Some v => pre_set w1 SIn v ki (resolve w a) = true | None => True end) by (now apply PB).
    assert (La1 : argL SIn (fresh w1) w1 (resolve w a)).
    { destruct (resolve w a) as [x| |]; try exact I. apply ND_argL. rewrite <- W1. eapply ND_prim; eauto. }
    destruct snk as [v|].
    + apply (prim_GoodL SIn); auto; [apply set_stream_good | apply set_stream_Eff]; auto;
        try apply (InvS_side SIn w1 I1); try (destruct St1 as [A _ _ _ _]; lia). eapply rarg_ok_stat; eauto.
    + apply (prim_GoodL SIn); auto; [apply disconnect_side_good | apply disconnect_side_Eff]; auto; apply (InvS_side SIn w1 I1).
Qed.

(* ================================================================ Unit(ins=None, outs=None), histories *)
Lemma J_ptr0 sd u w : J sd u [] w -> forall v x, In x (ports w sd v) -> ptr w sd x = Some v.
Proof. intros HJ v x H. destruct (J_ptr _ _ _ _ HJ v x H) as [Q|[_ []]]. exact Q. Qed.

Lemma new_unit_none_Live w nin nout fin fout : InvL w ->
  InvL (fst (new_unit w nin nout fin fout FNone FNone)).
Proof.
  intros (HIv & HL & HU). pose proof (new_unit_none_Inv w nin nout fin fout HIv) as IR.
  split; [exact IR|]. clear IR. destruct HIv as [HI HO]. unfold new_unit. set (u := nunits w).
  set (w0 := mkW (ports w)
                (fun sd v => if v =? u then (match sd with SIn => nin | SOut => nout end) else psize w sd v)
                (fun sd v => if v =? u then (match sd with SIn => fin | SOut => fout end) else pfixed w sd v)
                (ptr w) (fresh w) (nreal w) (S u)).
  assert (J0 : forall sd, InvS sd w -> J sd u [] w0).
  { intros sd [A B C D E F G H]. constructor.
    - intros v x HIn. left. apply A. exact HIn.
    - exact B.
    - exact C.
    - intros v N. unfold w0; simpl. apply Nat.eqb_neq in N. rewrite N. apply D.
    - exact E.
    - exact F.
    - intros v L. apply G. simpl in L. unfold u in *. lia.
    - intros x v P. simpl. apply H in P. unfold u. lia.
    - intros x []. }
  assert (P0 : forall sd, InvS sd w -> ports w0 sd u = []).
  { intros sd IS. apply (I_units _ _ IS). unfold u. lia. }
  assert (Hu0 : u < nunits w0) by (simpl; lia).
  assert (IP : forall w' sd, init_ports w' sd u FNone = ok (init_missing w' sd u)).
  { intros w' sd. unfold init_ports. destruct (pfixed w' sd u); reflexivity. }
  rewrite IP.
  destruct (init_missing_fresh SIn u w0 (J0 SIn HI) (P0 SIn HI) Hu0) as (J1 & L1 & Fr1 & St1).
  set (w1 := init_missing w0 SIn u) in *. cbn [ok].
  rewrite IP. cbn [ok fst].
  assert (JO1 : J SOut u [] w1) by (eapply frame_J; [exact Fr1 | exact (J0 SOut HO)]).
  assert (PO1 : ports w1 SOut u = []) by (rewrite (F_ports _ _ _ Fr1); exact (P0 SOut HO)).
  assert (Hu1 : u < nunits w1) by (destruct St1 as [A _ _ _ _]; lia).
  destruct (init_missing_fresh SOut u w1 JO1 PO1 Hu1) as (J2 & L2 & Fr2 & St2).
  (* the clause through the two initialisations *)
  assert (L0 : LiveP w0 /\ Unborn w0) by (split; [exact HL | exact HU]).
  destruct L0 as [HL0 HU0].
  destruct (LiveP_step' SIn w0 w1) as [HL1 HU1]; auto.
  - intros v x. apply (J_ok _ _ _ _ (J0 SOut HO)).
  - apply (J_ptr0 _ _ _ (J0 SOut HO)).
  - intros v x. apply (J_ok _ _ _ _ J1).
  - apply init_missing_Eff; [cbn; lia | exact (P0 SIn HI)].
  - apply (LiveP_step' SOut w1 (init_missing w1 SOut u)); auto.
    + intros v x. apply (J_ok _ _ _ _ J1).
    + apply (J_ptr0 _ _ _ J1).
    + intros v x. apply (J_ok _ _ _ _ J2).
    + apply init_missing_Eff; [lia | exact PO1].
Qed.

(* ================================================================ unit construction with given inlets / outlets *)
Section CtorEff.
Variable sd : side.
Variable N : nat.
Variable u : nat.

(* footprint with pending objects X: docked at u already, written into u's list at the end *)
Record EffP (X : list obj) (w w' : world) : Prop := mkEffP {
  P_sb : forall x t, ptr w' sd x = Some t ->
         In x (ports w' sd t) \/ (t = u /\ In x X) \/ (ptr w sd x = Some t /\ ~ In x (ports w sd t)) \/
         (exists n, x = M_ n /\ fresh w <= n /\ n < fresh w');
  P_pr : forall v n, In (M_ n) (ports w' sd v) -> n < N -> live w (M_ n) \/ ND (other sd) w (M_ n);
  P_po : forall n, n < N -> ptr w' (other sd) (M_ n) = ptr w (other sd) (M_ n);
  P_fm : fresh w <= fresh w';
  P_fo : forall v, ports w' (other sd) v = ports w (other sd) v
}.
Lemma Eff_EffP w w' : Eff sd N w w' -> EffP [] w w'.
Proof.
  intros [A B C D E]. constructor; auto.
  intros x t P. destruct (A x t P) as [H|[H|H]]; auto.
Qed.
Lemma EffP_trans X1 X2 w1 w2 w3 : EffP X1 w1 w2 -> EffP X2 w2 w3 -> EffP (X1 ++ X2) w1 w3.
Proof.
  intros [A1 B1 P1 C1 D1] [A2 B2 P2 C2 D2]. constructor.
  - intros x t P. destruct (A2 x t P) as [H|[[H1 H2]|[[H1 H2]|(n & -> & L1 & L2)]]].
    + now left.
    + right. left. split; [exact H1 | apply in_or_app; now right].
    + destruct (A1 x t H1) as [H|[[H3 H4]|[H|(n & -> & L1 & L2)]]].
      * contradiction.
      * right. left. split; [exact H3 | apply in_or_app; now left].
      * right. right. now left.
      * right. right. right. exists n. repeat split; auto; lia.
    + right. right. right. exists n. repeat split; auto; lia.
  - intros v n HI L. destruct (B2 v n HI L) as [(s & v' & H)|H].
    + destruct (side_eqb s sd) eqn:E.
      * apply side_eqb_eq in E. subst s. now apply (B1 v' n).
      * assert (s = other sd) by (destruct s, sd; simpl in *; congruence). subst s. rewrite D1 in H. left. exists (other sd), v'. exact H.
    + right. intros u' Q. rewrite <- (P1 n L) in Q. rewrite <- D1. now apply H.
  - intros n L. now rewrite P2, P1.
  - lia.
  - intro v. now rewrite D2, D1.
Qed.

Lemma redock_EffP x w : N <= fresh w -> EffP [x] w (redock w sd u x).
Proof.
  intro HN. destruct (redock_misc sd u x w) as (Fr & St & Pu).
  destruct (redock_cases sd u x w) as [(Pp & Ff & Po)|(v0 & l1 & l2 & Nv & EL & Pp & Ff & Po)]; constructor; auto.
  - intros y t P. destruct (obj_dec y x) as [->|Ny].
    + rewrite redock_ptr_self in P. inversion P; subst. right. left. split; [reflexivity | now left].
    + rewrite Po in P by assumption. rewrite Pp. destruct (obj_in_dec y (ports w sd t)); auto.
  - intros v n. rewrite Pp. intros HI _. left. exists sd, v. exact HI.
  - intros n L. apply (F_ptr _ _ _ Fr (M_ n)). simpl. lia.
  - lia.
  - apply (F_ports _ _ _ Fr).
  - intros y t P. destruct (obj_dec y x) as [->|Ny].
    + rewrite redock_ptr_self in P. inversion P; subst. right. left. split; [reflexivity | now left].
    + destruct (obj_dec y (M_ (fresh w))) as [->|Nm].
      * right. right. right. exists (fresh w). rewrite Ff. repeat split; auto.
      * rewrite Po in P by assumption. destruct (obj_in_dec y (ports w sd t)) as [HI|HI]; [left | right; right; left; split; assumption].
        rewrite Pp. destruct (t =? v0) eqn:E; [|exact HI]. apply Nat.eqb_eq in E. subst t.
        rewrite EL in HI. apply in_app_or in HI. apply in_or_app. destruct HI as [HI|[HI|HI]]; [now left | congruence | right; now right].
  - intros v n. rewrite Pp. intros HI L. left. exists sd, v. destruct (v =? v0) eqn:E; [|exact HI]. apply Nat.eqb_eq in E. subst v.
    rewrite EL. apply in_app_or in HI. apply in_or_app. destruct HI as [HI|[HI|HI]]; [now left | | right; now right].
    inversion HI. subst. lia.
  - intros n L. apply (F_ptr _ _ _ Fr (M_ n)). simpl. lia.
  - lia.
  - apply (F_ports _ _ _ Fr).
Qed.

Lemma new_stream_EffP w : EffP [S_ (nreal w)] w (fst (new_stream_docked w sd u)).
Proof.
  unfold new_stream_docked. cbn [fst]. set (s := S_ (nreal w)). constructor.
  - intros y t. unfold dock. rewrite ptr_upd_ptr. destruct (obj_eqb y s) eqn:E.
    + apply obj_eqb_eq in E. subst y. intro P. inversion P; subst. right. left. split; [reflexivity | now left].
    + change (ptr (bump_real w) sd y) with (ptr w sd y). change (ports (upd_ptr (bump_real w) sd s (Some u)) sd t) with (ports w sd t).
      intro P. destruct (obj_in_dec y (ports w sd t)); auto.
  - intros v n HI _. left. exists sd, v. exact HI.
  - intros n L. unfold dock, upd_ptr, bump_real; simpl. now rewrite side_eqb_other.
  - cbn. lia.
  - intro v. reflexivity.
Qed.

(* objects produced by the constructor items are streams or placeholders made on the spot *)
Definition made (F0 : nat) (x : obj) : Prop := match x with S_ _ => True | M_ n => F0 <= n end.

Lemma items_EffP its : forall w, N <= fresh w ->
  EffP (snd (init_items_var w sd u its)) w (fst (init_items_var w sd u its)) /\
  (forall x, In x (snd (init_items_var w sd u its)) -> made (fresh w) x).
Proof.
  induction its as [|it rest IH]; intros w HN; cbn [init_items_var].
  - split; [apply Eff_EffP; apply Eff_refl | intros x []].
  - assert (STEP : exists w1 x, (match it with
                                 | IReal n => (redock w sd u (S_ n), S_ n)
                                 | INone => new_missing w sd u
                                 | INew => new_stream_docked w sd u
                                 end) = (w1, x) /\ EffP [x] w w1 /\ made (fresh w) x).
    { destruct it as [|n|].
      - exists (fst (new_stream_docked w sd u)), (S_ (nreal w)). split; [reflexivity|]. split; [apply new_stream_EffP | exact I].
      - exists (redock w sd u (S_ n)), (S_ n). split; [reflexivity|]. split; [now apply redock_EffP | exact I].
      - destruct (new_missing w sd u) as [w1 m] eqn:NM.
        destruct (new_missing_spec _ _ _ _ _ NM) as (Hm & Hp & _).
        exists w1, m. split; [reflexivity|]. split.
        + pose proof (new_missing_Eff sd N w u HN) as E0. rewrite NM in E0. cbn [fst] in E0.
          destruct E0 as [A B C D E]. constructor; auto. intros x t P. destruct (A x t P) as [H|[H|H]]; auto.
        + rewrite Hm. simpl. lia. }
    destruct STEP as (w1 & x & E1 & P1 & M1). rewrite E1.
    assert (HN1 : N <= fresh w1) by (destruct P1 as [_ _ _ F _]; lia).
    destruct (IH w1 HN1) as (P2 & M2).
    destruct (init_items_var w1 sd u rest) as [w2 xs]. cbn [fst snd] in *.
    split; [apply (EffP_trans [x] xs w w1 w2 P1 P2)|].
    intros y [<-|Hy]; [exact M1|]. specialize (M2 y Hy). destruct y; simpl in *; auto. destruct P1 as [_ _ _ F _]. lia.
Qed.

(* the list is finally written: pending objects are listed, leftover placeholders of this very operation are dropped *)
Lemma flush_Eff X w w' L : EffP X w w' -> N <= fresh w ->
  (forall x, In x X -> In x L) ->
  (forall y, In y (ports w' sd u) -> In y L \/ exists n, y = M_ n /\ fresh w <= n /\ n < fresh w') ->
  (forall n, In (M_ n) L -> n < N -> In (M_ n) (ports w' sd u)) ->
  Eff sd N w (upd_ports w' sd u L).
Proof.
  intros [A B P C D] HN XL Keep Src. constructor.
  - intros x t. change (ptr (upd_ports w' sd u L) sd x) with (ptr w' sd x). rewrite ports_upd_ports. intro Q.
    destruct (A x t Q) as [H|[[H1 H2]|[H|H]]]; auto.
    + destruct (t =? u) eqn:E; [|now left]. apply Nat.eqb_eq in E. subst t.
      destruct (Keep x H) as [H'|H']; [now left | right; now right].
    + subst t. rewrite Nat.eqb_refl. left. now apply XL.
  - intros v n. rewrite ports_upd_ports. destruct (v =? u) eqn:E; [|apply B].
    intros HI L0. apply (B u n); [now apply Src | exact L0].
  - exact P.
  - exact C.
  - intro v. unfold upd_ports; simpl. rewrite side_eqb_other. apply D.
Qed.
Lemma items_ports its : forall w, ports (fst (init_items_var w sd u its)) sd u = ports w sd u.
Proof.
  induction its as [|it rest IH]; intro w; cbn [init_items_var]; [reflexivity|].
  destruct it as [|n|].
  - unfold new_stream_docked. specialize (IH (dock (bump_real w) sd u (S_ (nreal w)))).
    destruct (init_items_var (dock (bump_real w) sd u (S_ (nreal w))) sd u rest) as [w2 xs]. cbn [fst] in *. rewrite IH. reflexivity.
  - specialize (IH (redock w sd u (S_ n))). destruct (init_items_var (redock w sd u (S_ n)) sd u rest) as [w2 xs]. cbn [fst] in *.
    rewrite IH. apply (redock_misc sd u (S_ n) w).
  - destruct (new_missing w sd u) as [w1 m] eqn:NM. specialize (IH w1).
    destruct (init_items_var w1 sd u rest) as [w2 xs]. cbn [fst] in *. rewrite IH.
    destruct (new_missing_spec _ _ _ _ _ NM) as (_ & Hp & _). apply Hp.
Qed.

Lemma place_Eff its Nk w wb : Eff sd N w wb -> N <= fresh w ->
  (forall y, In y (ports wb sd u) -> exists n, y = M_ n /\ fresh w <= n /\ n < fresh wb) ->
  Eff sd N w (upd_ports (fst (init_items_var wb sd u its)) sd u
                 (snd (init_items_var wb sd u its) ++ skipn Nk (ports (fst (init_items_var wb sd u its)) sd u))).
Proof.
  intros E0 HN HP. assert (HNb : N <= fresh wb) by (destruct E0 as [_ _ _ F _]; lia).
  destruct (items_EffP its wb HNb) as (P1 & M1). pose proof (items_ports its wb) as Pu.
  destruct (init_items_var wb sd u its) as [w1 xs]. cbn [fst snd] in *.
  pose proof (EffP_trans [] xs w wb w1 (Eff_EffP w wb E0) P1) as P01. simpl in P01.
  assert (F1 : fresh wb <= fresh w1) by (destruct P1 as [_ _ _ F _]; exact F).
  apply (flush_Eff xs w w1 _ P01 HN).
  - intros x Hx. apply in_or_app. now left.
  - intros y Hy. rewrite Pu in Hy. rewrite <- (firstn_skipn Nk (ports wb sd u)) in Hy. apply in_app_or in Hy.
    destruct Hy as [Hy|Hy].
    + right. destruct (HP y (firstn_In' _ _ _ Hy)) as (n & -> & L1 & L2). exists n. repeat split; auto. lia.
    + left. apply in_or_app. right. now rewrite Pu.
  - intros n Hn L. apply in_app_or in Hn. destruct Hn as [Hn|Hn].
    + specialize (M1 _ Hn). simpl in M1. lia.
    + rewrite Pu in *. rewrite <- (firstn_skipn Nk (ports wb sd u)). apply in_or_app. now right.
Qed.
End CtorEff.

Section CtorEff2.
Variable sd : side.
Variable N : nat.
Variable u : nat.

Lemma new_missings_upper n : forall w m, In m (snd (new_missings w sd u n)) ->
  exists k, m = M_ k /\ fresh w <= k /\ k < fresh (fst (new_missings w sd u n)).
Proof.
  induction n as [|n IH]; intros w m; cbn [new_missings]; [intros []|].
  destruct (new_missing w sd u) as [w1 m1] eqn:NM.
  destruct (new_missing_spec _ _ _ _ _ NM) as (Hm & _ & _ & _ & Hf & _).
  specialize (IH w1). destruct (new_missings_Eff sd 0 u n w1 ltac:(lia)) as (_ & _ & _ & F1).
  destruct (new_missings w1 sd u n) as [w2 ms]. cbn [fst snd] in *.
  intros [<-|Hy]; [exists (fresh w); rewrite Hm; repeat split; lia|].
  destruct (IH m Hy) as (k & -> & L1 & L2). exists k. repeat split; lia.
Qed.
Lemma init_missing_bounds w y : In y (ports (init_missing w sd u) sd u) ->
  exists n, y = M_ n /\ fresh w <= n /\ n < fresh (init_missing w sd u).
Proof.
  unfold init_missing. pose proof (new_missings_upper (psize w sd u) w y) as H.
  destruct (new_missings w sd u (psize w sd u)) as [w1 ms]. cbn [fst snd] in *.
  rewrite ports_upd_ports_eq. exact H.
Qed.

Lemma place_var_Eff its w : N <= fresh w -> ports w sd u = [] ->
  Eff sd N w (upd_ports (fst (init_items_var w sd u its)) sd u (snd (init_items_var w sd u its))).
Proof.
  intros HN E0. pose proof (place_Eff sd N u its 0 w w (Eff_refl sd N w) HN) as H.
  rewrite (items_ports sd u its w), E0 in H. simpl in H. rewrite app_nil_r in H. apply H. intros y [].
Qed.
Lemma place_fixed_Eff its Nk w : N <= fresh w -> ports w sd u = [] ->
  let w0 := init_missing w sd u in let r := init_items_fixed w0 sd u its in
  Eff sd N w (upd_ports (fst r) sd u (snd r ++ skipn Nk (ports (fst r) sd u))).
Proof.
  intros HN E0. cbv zeta. rewrite fixed_as_var.
  apply place_Eff; [now apply init_missing_Eff | exact HN | apply init_missing_bounds].
Qed.

Lemma init_ports_Eff f w w' : N <= fresh w -> ports w sd u = [] ->
  init_ports w sd u f = (w', None) -> Eff sd N w w'.
Proof.
  intros HN E0 EQ. unfold init_ports in EQ.
  destruct f as [| |it|its].
  - destruct (pfixed w sd u); inversion EQ; subst; now apply init_missing_Eff.
  - rewrite news_as_var in EQ. pose proof (place_var_Eff (repeat INew (psize w sd u)) w HN E0) as H.
    destruct (init_items_var w sd u (repeat INew (psize w sd u))) as [w1 ss]. cbn [fst snd] in H. inversion EQ; subst. exact H.
  - destruct (pfixed w sd u).
    + destruct (psize w sd u =? 0); [discriminate|].
      pose proof (place_fixed_Eff [it] 1 w HN E0) as H. cbv zeta in H.
      destruct (init_items_fixed (init_missing w sd u) sd u [it]) as [w1 xs]. cbn [fst snd] in H. inversion EQ; subst. exact H.
    + pose proof (place_var_Eff [match it with INone => INew | i => i end] w HN E0) as H.
      destruct (init_items_var w sd u [match it with INone => INew | i => i end]) as [w1 xs]. cbn [fst snd] in H. inversion EQ; subst. exact H.
  - destruct (pfixed w sd u).
    + destruct (psize w sd u <? length its); [discriminate|].
      pose proof (place_fixed_Eff its (length its) w HN E0) as H. cbv zeta in H.
      destruct (init_items_fixed (init_missing w sd u) sd u its) as [w1 xs]. cbn [fst snd] in H. inversion EQ; subst. exact H.
    + pose proof (place_var_Eff its w HN E0) as H.
      destruct (init_items_var w sd u its) as [w1 xs]. cbn [fst snd] in H. inversion EQ; subst. exact H.
Qed.
End CtorEff2.

Lemma new_unit_Live w nin nout fin fout fi fo :
  InvL w -> wfb w (ONewUnit nin nout fin fout fi fo) = true -> preb w (ONewUnit nin nout fin fout fi fo) = true ->
  InvL (fst (new_unit w nin nout fin fout fi fo)).
Proof.
  intros HLv Wf Pre. pose proof HLv as ([HI HO] & HL & HU). cbn [wfb preb] in Wf, Pre.
  apply andb_true_iff in Wf. destruct Wf as [Wi Wo]. apply andb_true_iff in Pre. destruct Pre as [Pi Po].
  rewrite forallb_forall in Wi, Wo.
  unfold new_unit. set (u := nunits w).
  set (w0 := mkW (ports w)
                (fun sd v => if v =? u then (match sd with SIn => nin | SOut => nout end) else psize w sd v)
                (fun sd v => if v =? u then (match sd with SIn => fin | SOut => fout end) else pfixed w sd v)
                (ptr w) (fresh w) (nreal w) (S u)).
  assert (J0 : forall sd, InvS sd w -> J sd u [] w0).
  { intros sd [A B C D E F G H]. constructor.
    - intros v x HIn. left. apply A. exact HIn.
    - exact B.
    - exact C.
    - intros v N. unfold w0; simpl. apply Nat.eqb_neq in N. rewrite N. apply D.
    - exact E.
    - exact F.
    - intros v L. apply G. simpl in L. unfold u in *. lia.
    - intros x v P. simpl. apply H in P. unfold u. lia.
    - intros x []. }
  assert (P0 : forall sd, InvS sd w -> ports w0 sd u = []).
  { intros sd IS. apply (I_units _ _ IS). unfold u. lia. }
  assert (Hu0 : u < nunits w0) by (simpl; lia).
  assert (NP : forall sd, InvS sd w -> forall n, ptr w0 sd (S_ n) <> Some u).
  { intros sd IS n Q. apply (I_uptr _ _ IS) in Q. unfold u in Q. lia. }
  destruct (pre_form_ok SIn u w0 fin nin fi) as [NDi Szi]; auto; try (simpl; now rewrite Nat.eqb_refl).
  destruct (pre_form_ok SOut u w0 fout nout fo) as [NDo Szo]; auto; try (simpl; now rewrite Nat.eqb_refl).
  destruct (init_ports w0 SIn u fi) as [w1 [e|]] eqn:E1; [cbn; exact HLv|].
  destruct (init_ports_Inv SIn u fi w0 w1 (J0 SIn HI) (P0 SIn HI) Hu0) as (I1 & Fr1 & St1); auto.
  { split; [exact NDi|]. intros n Hn. split; [|apply (NP SIn HI)].
    specialize (Wi _ Hn). apply obj_ok_P in Wi. exact Wi. }
  assert (Hu1 : u < nunits w1) by (destruct St1 as [A _ _ _ _]; lia).
  assert (JO1 : J SOut u [] w1) by (eapply frame_J; [exact Fr1 | exact (J0 SOut HO)]).
  assert (PO1 : ports w1 SOut u = []) by (rewrite (F_ports _ _ _ Fr1); exact (P0 SOut HO)).
  destruct (init_ports w1 SOut u fo) as [w2 [e|]] eqn:E2; [cbn; exact HLv|].
  destruct (init_ports_Inv SOut u fo w1 w2 JO1 PO1 Hu1) as (I2 & Fr2 & St2); auto.
  { split; [exact NDo|]. intros n Hn. specialize (Wo _ Hn). apply obj_ok_P in Wo. split.
    - destruct St1 as [_ B _ _ _]. simpl in Wo, B. lia.
    - rewrite (F_ptr _ _ _ Fr1); [apply (NP SOut HO) | exact Wo]. }
  { unfold size_ok in *. destruct St1 as [_ _ _ S4 S5]. rewrite S4, S5. exact Szo. }
  cbn [fst ok].
  assert (IR : Inv w2) by (split; [eapply frame_InvS; [exact Fr2 | exact I1] | exact I2]).
  split; [exact IR|].
  assert (HL0 : LiveP w0) by exact HL. assert (HU0 : Unborn w0) by exact HU.
  destruct (LiveP_step' SIn w0 w1) as [HL1 HU1]; auto.
  - intros v x. apply (J_ok _ _ _ _ (J0 SOut HO)).
  - apply (J_ptr0 _ _ _ (J0 SOut HO)).
  - apply (I_ok _ _ I1).
  - apply (init_ports_Eff SIn (fresh w0) u fi w0 w1); [lia | exact (P0 SIn HI) | exact E1].
  - apply (LiveP_step' SOut w1 w2); auto.
    + apply (I_ok _ _ I1).
    + apply (I_ptr _ _ I1).
    + apply (I_ok _ _ I2).
    + apply (init_ports_Eff SOut (fresh w1) u fo w1 w2); [lia | exact PO1 | exact E2].
Qed.

(* ================================================================ every covered operation, every history *)
Definition coveredb' (o : op) : bool :=
  match o with ONewUnit _ _ _ _ _ _ => true | _ => coveredb o end.

Theorem step_Live' w o : InvL w -> wfb w o = true -> preb w o = true -> coveredb' o = true ->
  InvL (fst (step w o)).
Proof.
  intros HL Wf Pre Cv. destruct (coveredb o) eqn:E.
  - destruct (step_Live w o HL Wf Pre E) as [A _]. exact A.
  - destruct o; try (cbn [coveredb'] in Cv; congruence).
    unfold step. cbn [step_with]. now apply new_unit_Live.
Qed.

Fixpoint within_live (w : world) (ops : list op) : Prop :=
  match ops with
  | [] => True
  | o :: t => wfb w o = true /\ preb w o = true /\ coveredb' o = true /\ within_live (fst (step w o)) t
  end.
Theorem history_Live ops : forall w, InvL w -> within_live w ops -> InvL (run w ops).
Proof.
  unfold run. induction ops as [|o t IH]; intros w HL HW; simpl.
  - exact HL.
  - destruct HW as (Wf & Pre & Cv & HW). apply IH; [|exact HW]. now apply step_Live'.
Qed.
Lemma InvL_empty k : InvL (empty_world k).
Proof.
  split; [apply Inv_empty|]. split.
  - intros sd v u m H. destruct H.
  - intros sd n _. reflexivity.
Qed.


(* ================================================================ all operations, all histories *)
Lemma coveredb'_all o : coveredb' o = true.
Proof. destruct o; reflexivity. Qed.
Theorem step_Live_all w o : InvL w -> wfb w o = true -> preb w o = true -> InvL (fst (step w o)).
Proof. intros HL Wf Pre. apply step_Live'; auto. apply coveredb'_all. Qed.
Theorem history_Live_all ops : forall w, InvL w -> within_pre w ops -> InvL (run w ops).
Proof.
  unfold run. induction ops as [|o t IH]; intros w HL HW; simpl.
  - exact HL.
  - destruct HW as (Wf & Pre & HW). apply IH; [|exact HW]. now apply step_Live_all.
Qed.
Theorem placeholder_backpointer ops w : Inv w -> LiveP w -> Unborn w -> within_pre w ops -> LiveP (run w ops).
Proof. intros HI HL HU HW. apply (history_Live_all ops w); [split; [exact HI | split; assumption] | exact HW]. Qed.
Theorem placeholder_backpointer_from_scratch k ops : within_pre (empty_world k) ops -> LiveP (run (empty_world k) ops).
Proof. intro HW. apply (history_Live_all ops (empty_world k)); [apply InvL_empty | exact HW]. Qed.
(* the decidable form used by the examples agrees with the clause *)
Lemma LiveP_live_backb w : Inv w -> LiveP w -> live_backb w = true.
Proof.
  intros HI HL. unfold live_backb.
  assert (H : forall sd, live_back_sideb w sd = true).
  { intro sd. unfold live_back_sideb. apply forallb_forall. intros v _. apply forallb_forall. intros x Hx.
    destruct x as [n|n]; [reflexivity|]. simpl. destruct (ptr w sd (M_ n)) as [u|] eqn:P; [|reflexivity].
    apply mem_In. now apply (HL sd v u n). }
  now rewrite (H SIn), (H SOut).
Qed.

(* histories that also pass caller-owned lists *)
Lemma xstep_Live xw x : InvL (fst xw) -> xwfb xw x = true -> xpreb xw x = true -> InvL (fst (fst (xstep xw x))).
Proof.
  destruct xw as [w st]. unfold xwfb, xpreb, xstep. cbn [fst snd]. intros HL Wf Pre.
  destruct (to_op st x) as [o|] eqn:E.
  - pose proof (step_Live_all w o HL Wf Pre) as H. destruct (step w o) as [w' e]. exact H.
  - destruct x; try discriminate; cbn [fst].
    + exact HL.
    + destruct (i <? length (clist_of st k)); exact HL.
    + destruct (clist_of st k); exact HL.
Qed.
Theorem xhistory_Live xs : forall xw, InvL (fst xw) -> xwithin xw xs -> InvL (fst (xrun xw xs)).
Proof.
  unfold xrun. induction xs as [|x t IH]; intros xw HL HW; simpl.
  - exact HL.
  - destruct HW as (Wf & Pre & HW). apply IH; [|exact HW]. now apply xstep_Live.
Qed.
