(* C03 — lemmas.  Part 1: index arithmetic.  Part 2: VLE._setup.  Part 3: the closure of
   the writes the wrappers perform.  Part 4: every wrapper stays in the closure.
   Part 5: LLE, SLE. *)
From V Require Import Common.NumFacts C03.Model C03.ModelVlle.
Open Scope Q_scope.

(* ------------------------------------------------------------------ part 1 *)
Lemma nthq_map_seq (f : nat -> Q) n k : (k < n)%nat -> nthq (map f (seq 0 n)) k = f k.
Proof.
  intros H. unfold nthq.
  rewrite (nth_indep _ 0 (f 0%nat)) by (rewrite map_length, seq_length; exact H).
  rewrite map_nth. rewrite seq_nth by exact H. reflexivity.
Qed.

Lemma nthq_over (a : vec) k : (length a <= k)%nat -> nthq a k = 0.
Proof. intros H. unfold nthq. apply nth_overflow. exact H. Qed.

Lemma fit_length n v : length (fit n v) = n.
Proof. unfold fit. rewrite map_length, seq_length. reflexivity. Qed.
Lemma nthq_fit n v k : (k < n)%nat -> nthq (fit n v) k = nthq v k.
Proof. intros H. unfold fit. apply nthq_map_seq. exact H. Qed.

Lemma gather_length ix a : length (gather ix a) = length ix.
Proof. apply map_length. Qed.
Lemma nthq_gather ix a p : (p < length ix)%nat -> nthq (gather ix a) p = nthq a (nth p ix 0%nat).
Proof.
  unfold nthq, gather. revert p; induction ix as [|i t IH]; intros [|p] H; simpl in *; try lia; auto.
  apply IH. lia.
Qed.

Lemma pos_from_some k0 c ix p : pos_from k0 c ix = Some p ->
  (k0 <= p)%nat /\ (p - k0 < length ix)%nat /\ nth (p - k0) ix 0%nat = c.
Proof.
  revert k0; induction ix as [|i t IH]; intros k0 H; simpl in H; [discriminate|].
  destruct (Nat.eqb i c) eqn:E.
  - inversion H; subst. apply Nat.eqb_eq in E. rewrite Nat.sub_diag. simpl. split; [lia|]. split; [lia|exact E].
  - apply IH in H. destruct H as (H1 & H2 & H3).
    replace (p - k0)%nat with (S (p - S k0)) by lia. simpl. split; [lia|]. split; [lia|exact H3].
Qed.

Lemma pos_from_none k0 c ix : pos_from k0 c ix = None -> ~ In c ix.
Proof.
  revert k0; induction ix as [|i t IH]; intros k0 H; simpl in *; [tauto|].
  destruct (Nat.eqb i c) eqn:E; [discriminate|].
  apply Nat.eqb_neq in E. intros [A|A]; [congruence|]. exact (IH _ H A).
Qed.

Lemma pos_some c ix p : pos c ix = Some p -> (p < length ix)%nat /\ nth p ix 0%nat = c.
Proof.
  intros H. apply pos_from_some in H. rewrite Nat.sub_0_r in H. tauto.
Qed.
Lemma pos_none c ix : pos c ix = None -> ~ In c ix.
Proof. apply pos_from_none. Qed.
Lemma pos_in c ix p : pos c ix = Some p -> In c ix.
Proof. intros H. apply pos_some in H. destruct H as (H1 & H2). rewrite <- H2. apply nth_In. exact H1. Qed.

Lemma pos_from_nodup k0 ix p : NoDup ix -> (p < length ix)%nat ->
  pos_from k0 (nth p ix 0%nat) ix = Some (k0 + p)%nat.
Proof.
  revert k0 p; induction ix as [|i t IH]; intros k0 p ND H; simpl in *; [lia|].
  inversion ND as [|? ? NI ND']; subst.
  destruct p as [|p].
  - rewrite Nat.eqb_refl. f_equal. lia.
  - destruct (Nat.eqb i (nth p t 0%nat)) eqn:E.
    + apply Nat.eqb_eq in E. exfalso. apply NI. rewrite E. apply nth_In. lia.
    + rewrite IH by (auto; lia). f_equal. lia.
Qed.
Lemma pos_nodup ix p : NoDup ix -> (p < length ix)%nat -> pos (nth p ix 0%nat) ix = Some p.
Proof. intros ND H. unfold pos. rewrite pos_from_nodup by auto. reflexivity. Qed.

Lemma scatter_length ix vals a : length (scatter ix vals a) = length a.
Proof. unfold scatter. rewrite map_length, seq_length. reflexivity. Qed.
Lemma scatter_c_length ix x a : length (scatter_c ix x a) = length a.
Proof. unfold scatter_c. rewrite map_length, seq_length. reflexivity. Qed.

Lemma nthq_scatter ix vals a k : (k < length a)%nat ->
  nthq (scatter ix vals a) k = match pos k ix with Some p => nthq vals p | None => nthq a k end.
Proof. intros H. unfold scatter. rewrite nthq_map_seq by exact H. reflexivity. Qed.
Lemma nthq_scatter_c ix x a k : (k < length a)%nat ->
  nthq (scatter_c ix x a) k = match pos k ix with Some _ => x | None => nthq a k end.
Proof. intros H. unfold scatter_c. rewrite nthq_map_seq by exact H. reflexivity. Qed.

Lemma filter_seq_nodup f n : NoDup (filter f (seq 0 n)).
Proof. apply NoDup_filter. apply seq_NoDup. Qed.
Lemma filter_seq_lt f n i : In i (filter f (seq 0 n)) -> (i < n)%nat /\ f i = true.
Proof. intros H. apply filter_In in H. destruct H as (H1 & H2). apply in_seq in H1. split; [lia|exact H2]. Qed.

Lemma kind_eqb_eq a b : kind_eqb a b = true <-> a = b.
Proof. destruct a, b; simpl; split; intros; try discriminate; auto. Qed.

Lemma vadd_len a b : length a = length b -> length (vadd a b) = length a.
Proof. apply map2_length. Qed.
Lemma vsub_len a b : length a = length b -> length (vsub a b) = length a.
Proof. apply map2_length. Qed.
Lemma vzero_length n : length (vzero n) = n.
Proof. apply repeat_length. Qed.
Lemma nthq_vzero n k : nthq (vzero n) k = 0.
Proof.
  unfold nthq, vzero. revert k; induction n as [|n IH]; intros [|k]; simpl; auto.
Qed.

Lemma qltb_true a b : qltb a b = true <-> a < b.
Proof.
  unfold qltb. rewrite negb_true_iff. split; intros H.
  - destruct (Qlt_le_dec a b) as [L|L]; auto. apply Qle_bool_iff in L. congruence.
  - destruct (Qle_bool b a) eqn:E; auto. apply Qle_bool_iff in E. lra.
Qed.
Lemma qltb_false a b : qltb a b = false <-> b <= a.
Proof.
  unfold qltb. rewrite negb_false_iff. apply Qle_bool_iff.
Qed.
Lemma qleb_true a b : qleb a b = true <-> a <= b.
Proof. unfold qleb. apply Qle_bool_iff. Qed.
Lemma qleb_false a b : qleb a b = false <-> b < a.
Proof.
  unfold qleb. split; intros H.
  - destruct (Qlt_le_dec b a) as [L|L]; auto. apply Qle_bool_iff in L. congruence.
  - destruct (Qle_bool a b) eqn:E; auto. apply Qle_bool_iff in E. lra.
Qed.
Lemma qeqb_true a b : qeqb a b = true <-> a == b.
Proof. unfold qeqb. apply Qeq_bool_iff. Qed.

Lemma nthq_map2 {f : Q -> Q -> Q} a b p : (p < length a)%nat -> length a = length b ->
  nthq (map2 f a b) p = f (nthq a p) (nthq b p).
Proof.
  unfold nthq. revert b p; induction a as [|x a IH]; intros [|y b] [|p] L E; simpl in *; try lia; auto.
  apply IH; lia.
Qed.

Lemma clip1_bounds v m : 0 <= m -> 0 <= clip1 v m <= m.
Proof.
  intros M. unfold clip1.
  destruct (qltb m v) eqn:E1.
  - destruct (qltb m 0) eqn:E2; [lra|]. apply qltb_false in E2. lra.
  - apply qltb_false in E1. destruct (qltb v 0) eqn:E2; [lra|]. apply qltb_false in E2. lra.
Qed.

(* ------------------------------------------------------------------ part 2: setup *)
Definition mol0 (s : vst) (k : nat) : Q := nthq (liq s) k + nthq (vap s) k.
Definition wf (s : vst) : Prop := length (liq s) = length (vap s).

Definition is_light (cf : cfg) (k : nat) := kind_at cf k = KLight.
Definition is_heavy (cf : cfg) (k : nat) := kind_at cf k = KHeavy.

(* flows of gas-only chemicals are in g, those of liquid/solid-only chemicals in l *)
Definition placed (cf : cfg) (s : vst) : Prop :=
  forall k, (k < length (liq s))%nat ->
    (is_light cf k -> nthq (liq s) k == 0) /\ (is_heavy cf k -> nthq (vap s) k == 0).

(* l + g per chemical, the other phases and the shape are those of s0 *)
Definition same_lg (s0 s : vst) : Prop :=
  length (liq s) = length (liq s0) /\ length (vap s) = length (vap s0) /\ oth s = oth s0 /\
  forall k, mol0 s k == mol0 s0 k.

Lemma same_lg_refl s : same_lg s s.
Proof. unfold same_lg. repeat split; auto; try (intros; reflexivity). Qed.
Lemma same_lg_trans a b c : same_lg a b -> same_lg b c -> same_lg a c.
Proof.
  unfold same_lg. intros (A1 & A2 & A3 & A4) (B1 & B2 & B3 & B4). repeat split; try congruence.
  intros k. rewrite B4. apply A4.
Qed.

Definition wfc (c : ctx) (s1 : vst) : Prop :=
  length (molv c) = length (idx c) /\ NoDup (idx c) /\
  (forall i, In i (idx c) -> (i < length (liq s1))%nat) /\
  wf s1 /\
  (forall k p, pos k (idx c) = Some p -> mol0 s1 k == nthq (molv c) p).

Lemma pos_idx_of_some cf kd n k p : pos k (idx_of cf kd n) = Some p -> kind_at cf k = kd /\ (k < n)%nat.
Proof.
  intros H. apply pos_in in H. unfold idx_of in H. apply filter_seq_lt in H.
  destruct H as (H1 & H2). apply kind_eqb_eq in H2. auto.
Qed.
Lemma pos_idx_of_none cf kd n k : pos k (idx_of cf kd n) = None -> (k < n)%nat -> kind_at cf k <> kd.
Proof.
  intros H L E. apply pos_none in H. apply H. unfold idx_of. apply filter_In. split.
  - apply in_seq. lia.
  - apply kind_eqb_eq. exact E.
Qed.

Lemma nthq_vadd' a b k : length a = length b -> nthq (vadd a b) k == nthq a k + nthq b k.
Proof. apply nthq_vadd. Qed.

(* the relocation of light / heavy chemicals done by _setup *)
Definition reloc (cf : cfg) (s : vst) : vst :=
  let n := length (liq s) in
  let mol := vadd (liq s) (vap s) in
  let LNK := idx_of cf KLight n in
  let HNK := idx_of cf KHeavy n in
  with_flows s (scatter HNK (gather HNK mol) (scatter_c LNK 0 (liq s)))
               (scatter LNK (gather LNK mol) (scatter_c HNK 0 (vap s))).

Lemma reloc_spec cf s k : wf s -> (k < length (liq s))%nat ->
  (nthq (liq (reloc cf s)) k == match kind_at cf k with KVle => nthq (liq s) k | KLight => 0 | KHeavy => mol0 s k end) /\
  (nthq (vap (reloc cf s)) k == match kind_at cf k with KVle => nthq (vap s) k | KLight => mol0 s k | KHeavy => 0 end).
Proof.
  intros W L. unfold wf in W. unfold reloc. cbn [liq vap with_flows].
  assert (Lv : (k < length (vap s))%nat) by lia.
  rewrite !nthq_scatter by (rewrite scatter_c_length; auto).
  rewrite !nthq_scatter_c by auto.
  set (n := length (liq s)).
  destruct (pos k (idx_of cf KHeavy n)) eqn:EH; destruct (pos k (idx_of cf KLight n)) eqn:EL.
  - apply pos_idx_of_some in EH. apply pos_idx_of_some in EL. destruct EH as (EH & _), EL as (EL & _). congruence.
  - pose proof (pos_some _ _ _ EH) as (Hp & Hn). apply pos_idx_of_some in EH. destruct EH as (EH & _). rewrite EH.
    rewrite nthq_gather by exact Hp. rewrite Hn. rewrite nthq_vadd by exact W. unfold mol0. split; reflexivity.
  - pose proof (pos_some _ _ _ EL) as (Hp & Hn). apply pos_idx_of_some in EL. destruct EL as (EL & _). rewrite EL.
    rewrite nthq_gather by exact Hp. rewrite Hn. rewrite nthq_vadd by exact W. unfold mol0. split; reflexivity.
  - apply pos_idx_of_none in EH; [|exact L]. apply pos_idx_of_none in EL; [|exact L].
    destruct (kind_at cf k); try congruence. split; reflexivity.
Qed.

Lemma reloc_len cf s : length (liq (reloc cf s)) = length (liq s) /\ length (vap (reloc cf s)) = length (vap s).
Proof. unfold reloc. cbn [liq vap with_flows]. rewrite !scatter_length, !scatter_c_length. auto. Qed.

Lemma reloc_same cf s : wf s -> same_lg s (reloc cf s).
Proof.
  intros W. destruct (reloc_len cf s) as (L1 & L2). unfold same_lg. repeat split; auto.
  intros k. unfold mol0 at 1.
  destruct (Nat.lt_ge_cases k (length (liq s))) as [L|G].
  - destruct (reloc_spec cf s k W L) as (A & B). rewrite A, B. unfold mol0.
    destruct (kind_at cf k); lra.
  - rewrite !nthq_over by (unfold wf in W; lia). unfold mol0. rewrite !nthq_over by (unfold wf in W; lia). reflexivity.
Qed.

Lemma reloc_placed cf s : wf s -> placed cf (reloc cf s).
Proof.
  intros W k L. destruct (reloc_len cf s) as (L1 & L2). rewrite L1 in L.
  destruct (reloc_spec cf s k W L) as (A & B). unfold is_light, is_heavy.
  split; intros E; rewrite E in *; assumption.
Qed.

Lemma reloc_wf cf s : wf s -> wf (reloc cf s).
Proof. intros W. destruct (reloc_len cf s) as (L1 & L2). unfold wf in *. congruence. Qed.

Definition nn (s : vst) : Prop := forall k, 0 <= nthq (liq s) k /\ 0 <= nthq (vap s) k.

Lemma reloc_nn cf s : wf s -> nn s -> nn (reloc cf s).
Proof.
  intros W N k. destruct (reloc_len cf s) as (L1 & L2).
  destruct (Nat.lt_ge_cases k (length (liq s))) as [L|G].
  - destruct (reloc_spec cf s k W L) as (A & B). rewrite A, B. destruct (N k) as (N1 & N2). unfold mol0.
    destruct (kind_at cf k); split; lra.
  - rewrite !nthq_over by (unfold wf in W; lia). split; lra.
Qed.

Lemma vle_idx_props cf mol i : In i (vle_idx cf mol) ->
  (i < length mol)%nat /\ kind_at cf i = KVle /\ ~ nthq mol i == 0.
Proof.
  intros H. unfold vle_idx in H. apply filter_seq_lt in H. destruct H as (H1 & H2).
  apply andb_prop in H2. destruct H2 as (H2 & H3). apply kind_eqb_eq in H2.
  unfold nzb in H3. apply negb_true_iff in H3. apply qzerob_false in H3. auto.
Qed.

(* what a successful _setup establishes *)
Lemma setup_ok cf s s1 c : wf s -> setup cf s = SOk s1 c ->
  s1 = reloc cf s /\ wfc c s1 /\ (forall k, In k (idx c) -> kind_at cf k = KVle) /\
  ~ Fmol c == 0 /\ ~ Fvle c == 0 /\
  (forall p, (p < length (idx c))%nat -> nthq (molv c) p == mol0 s (nth p (idx c) 0%nat)).
Proof.
  intros W H. unfold setup in H.
  destruct (negb (anynz (vadd (liq s) (vap s)))) eqn:E1; [discriminate|].
  fold (reloc cf s) in H.
  change (with_flows s
            (scatter (idx_of cf KHeavy (length (liq s))) (gather (idx_of cf KHeavy (length (liq s))) (vadd (liq s) (vap s)))
               (scatter_c (idx_of cf KLight (length (liq s))) 0 (liq s)))
            (scatter (idx_of cf KLight (length (liq s))) (gather (idx_of cf KLight (length (liq s))) (vadd (liq s) (vap s)))
               (scatter_c (idx_of cf KHeavy (length (liq s))) 0 (vap s)))) with (reloc cf s) in H.
  destruct (negb (anynz (gather (vle_idx cf (vadd (liq s) (vap s))) (vadd (liq s) (vap s))))) eqn:E2; [discriminate|].
  match type of H with (if ?b then _ else _) = _ => destruct b eqn:E3; [discriminate|] end.
  inversion H; subst s1 c; clear H.
  apply orb_false_iff in E3. destruct E3 as (E3 & E4).
  apply qzerob_false in E3. apply qzerob_false in E4.
  set (mol := vadd (liq s) (vap s)) in *.
  assert (Lm : length mol = length (liq s)) by (apply vadd_len; exact W).
  assert (Hm : forall p, (p < length (vle_idx cf mol))%nat ->
             nthq (gather (vle_idx cf mol) mol) p == mol0 s (nth p (vle_idx cf mol) 0%nat)).
  { intros p Hp. rewrite nthq_gather by exact Hp. unfold mol. rewrite nthq_vadd by exact W. reflexivity. }
  split; [reflexivity|]. split; [|split; [|split; [|split]]]; cbn [idx molv Fmol Fvle]; auto.
  - unfold wfc. cbn [idx molv]. split; [apply gather_length|]. split; [apply filter_seq_nodup|].
    destruct (reloc_len cf s) as (L1 & L2).
    split; [|split; [apply reloc_wf; exact W|]].
    + intros i Hi. apply vle_idx_props in Hi. rewrite L1. lia.
    + intros k p Hp. pose proof (pos_some _ _ _ Hp) as (Hp1 & Hp2).
      rewrite Hm by exact Hp1. rewrite Hp2.
      destruct (reloc_same cf s W) as (_ & _ & _ & Q). apply Q.
  - intros k Hk. apply vle_idx_props in Hk. tauto.
Qed.

Lemma setup_noeq cf s s1 : setup cf s = SNoEq s1 -> s1 = s \/ s1 = reloc cf s.
Proof.
  unfold setup. intros H.
  destruct (negb (anynz (vadd (liq s) (vap s)))) eqn:E1; [inversion H; auto|].
  destruct (negb (anynz (gather (vle_idx cf (vadd (liq s) (vap s))) (vadd (liq s) (vap s))))) eqn:E2.
  - inversion H. right. reflexivity.
  - match type of H with (if ?b then _ else _) = _ => destruct b; discriminate end.
Qed.

Lemma setup_noeq_zero cf s : setup cf s = SNoEq s -> wf s -> nn s ->
  (forall k, nthq (liq s) k == 0 /\ nthq (vap s) k == 0) \/ s = reloc cf s.
Proof.
  unfold setup. intros H W N.
  destruct (negb (anynz (vadd (liq s) (vap s)))) eqn:E1.
  - left. intros k. apply negb_true_iff in E1.
    assert (Z : nthq (vadd (liq s) (vap s)) k == 0).
    { destruct (Nat.lt_ge_cases k (length (vadd (liq s) (vap s)))) as [L|G]; [|rewrite nthq_over by exact G; reflexivity].
      unfold anynz in E1.
      assert (A : forall x, In x (vadd (liq s) (vap s)) -> negb (qzerob x) = false).
      { intros x Hx. destruct (negb (qzerob x)) eqn:E; auto.
        assert (existsb (fun x => negb (qzerob x)) (vadd (liq s) (vap s)) = true) by (apply existsb_exists; eauto). congruence. }
      specialize (A (nthq (vadd (liq s) (vap s)) k) (nth_In _ _ L)).
      apply negb_false_iff in A. apply qzerob_true in A. exact A. }
    rewrite nthq_vadd in Z by exact W. destruct (N k). split; lra.
  - destruct (negb (anynz (gather (vle_idx cf (vadd (liq s) (vap s))) (vadd (liq s) (vap s))))) eqn:E2.
    + injection H as H1. right. symmetry. exact H1.
    + match type of H with (if ?b then _ else _) = _ => destruct b; discriminate end.
Qed.

Lemma setup_err cf s e s1 : setup cf s = SErr e s1 -> s1 = reloc cf s.
Proof.
  unfold setup. intros H.
  destruct (negb (anynz (vadd (liq s) (vap s)))) eqn:E1; [discriminate|].
  destruct (negb (anynz (gather (vle_idx cf (vadd (liq s) (vap s))) (vadd (liq s) (vap s))))) eqn:E2; [discriminate|].
  match type of H with (if ?b then _ else _) = _ => destruct b; [|discriminate] end.
  inversion H. reflexivity.
Qed.

(* ------------------------------------------------------------------ part 3: closure of the writes *)
Definition outm {A} (d : mach) (f : A -> mach) (r : vres A) : mach :=
  match r with VOk a => f a | VErr _ m => m end.

Section Closure.
Variable hyp : Prop.     (* the external hypotheses non-negativity needs; False for pure conservation *)
Variable c : ctx.

Definition molv_nn : Prop := forall p, 0 <= nthq (molv c) p.
Definition sum_m (lv vv : vec) : Prop :=
  forall p, (p < length (idx c))%nat -> nthq lv p + nthq vv p == nthq (molv c) p.
Definition sum_c (s : vst) (lv vv : vec) : Prop :=
  forall p, (p < length (idx c))%nat -> nthq lv p + nthq vv p == mol0 s (nth p (idx c) 0%nat).
Definition nn_w (s : vst) (lv vv : vec) : Prop :=
  hyp -> nn s -> molv_nn -> forall p, (p < length (idx c))%nat -> 0 <= nthq lv p /\ 0 <= nthq vv p.

Inductive reach (s1 : vst) : vst -> Prop :=
| r_refl : reach s1 s1
| r_T s t : reach s1 s -> reach s1 (with_T s t)
| r_P s p : reach s1 s -> reach s1 (with_P s p)
| r_Wm s lv vv : reach s1 s -> sum_m lv vv -> nn_w s lv vv -> reach s1 (write2 c lv vv s)
| r_Wc s lv vv : reach s1 s -> sum_c s lv vv -> nn_w s lv vv -> reach s1 (write2 c lv vv s).

Definition good (s1 s : vst) : Prop :=
  length (liq s) = length (liq s1) /\ length (vap s) = length (vap s1) /\ oth s = oth s1 /\
  (forall k, pos k (idx c) = None -> nthq (liq s) k = nthq (liq s1) k /\ nthq (vap s) k = nthq (vap s1) k) /\
  (forall k p, pos k (idx c) = Some p -> mol0 s k == nthq (molv c) p).

Lemma write2_nth lv vv s k : (k < length (liq s))%nat -> length (liq s) = length (vap s) ->
  nthq (liq (write2 c lv vv s)) k = match pos k (idx c) with Some p => nthq lv p | None => nthq (liq s) k end /\
  nthq (vap (write2 c lv vv s)) k = match pos k (idx c) with Some p => nthq vv p | None => nthq (vap s) k end.
Proof.
  intros L W. unfold write2. cbn [liq vap with_flows].
  rewrite !nthq_scatter by lia. split; reflexivity.
Qed.

Lemma good_write s1 s lv vv : wfc c s1 -> good s1 s ->
  (forall p, (p < length (idx c))%nat -> nthq lv p + nthq vv p == nthq (molv c) p) ->
  good s1 (write2 c lv vv s).
Proof.
  intros (W1 & W2 & W3 & W4 & W5) (G1 & G2 & G3 & G4 & G5) S.
  unfold good. unfold write2 at 1 2 3. cbn [liq vap oth with_flows].
  rewrite !scatter_length. repeat split; auto.
  - destruct (Nat.lt_ge_cases k (length (liq s))) as [L|G].
    + destruct (write2_nth lv vv s k L) as (A & _); [unfold wf in W4; congruence|].
      rewrite A, H. apply G4; exact H.
    + unfold write2. cbn [liq with_flows]. rewrite nthq_over by (rewrite scatter_length; exact G).
      destruct (G4 k H) as (A & _). rewrite <- A. rewrite nthq_over by exact G. reflexivity.
  - destruct (Nat.lt_ge_cases k (length (liq s))) as [L|G].
    + destruct (write2_nth lv vv s k L) as (_ & A); [unfold wf in W4; congruence|].
      rewrite A, H. apply G4; exact H.
    + unfold write2. cbn [vap with_flows]. unfold wf in W4.
      rewrite nthq_over by (rewrite scatter_length; lia).
      destruct (G4 k H) as (_ & A). rewrite <- A. rewrite nthq_over by lia. reflexivity.
  - intros k p Hp. pose proof (pos_some _ _ _ Hp) as (Hp1 & Hp2).
    assert (L : (k < length (liq s))%nat) by (rewrite G1; apply W3; eapply pos_in; eauto).
    destruct (write2_nth lv vv s k L) as (A & B); [unfold wf in W4; congruence|].
    unfold mol0. rewrite A, B, Hp. apply S. exact Hp1.
Qed.

Lemma reach_good s1 s : wfc c s1 -> reach s1 s -> good s1 s.
Proof.
  intros W R. induction R as [|s t R IH|s p R IH|s lv vv R IH S N|s lv vv R IH S N].
  - destruct W as (W1 & W2 & W3 & W4 & W5). unfold good. repeat split; auto.
  - exact IH.
  - exact IH.
  - apply good_write; auto.
  - apply good_write; auto. intros p Hp. rewrite (S p Hp).
    destruct IH as (_ & _ & _ & _ & G5). apply G5. destruct W as (_ & W2 & _). apply pos_nodup; auto.
Qed.

Lemma good_same s1 s : wfc c s1 -> good s1 s -> same_lg s1 s.
Proof.
  intros (W1 & W2 & W3 & W4 & W5) (G1 & G2 & G3 & G4 & G5). unfold same_lg. repeat split; auto.
  intros k. destruct (pos k (idx c)) as [p|] eqn:E.
  - rewrite (G5 k p E). symmetry. apply W5. exact E.
  - unfold mol0. destruct (G4 k E) as (A & B). rewrite A, B. reflexivity.
Qed.

Lemma good_placed cf s1 s : good s1 s -> (forall k, In k (idx c) -> kind_at cf k = KVle) ->
  placed cf s1 -> placed cf s.
Proof.
  intros (G1 & G2 & G3 & G4 & G5) K P k L. rewrite G1 in L. destruct (P k L) as (P1 & P2).
  destruct (pos k (idx c)) as [p|] eqn:E.
  - apply pos_in in E. apply K in E. unfold is_light, is_heavy. split; intros F; congruence.
  - destruct (G4 k E) as (A & B). rewrite A, B. auto.
Qed.

Lemma reach_nn s1 s : wfc c s1 -> reach s1 s -> hyp -> nn s1 -> molv_nn -> nn s.
Proof.
  intros W R H N M. induction R as [|s t R IH|s p R IH|s lv vv R IH S NW|s lv vv R IH S NW]; auto.
  - pose proof (reach_good _ _ W R) as (G1 & G2 & _).
    destruct W as (W1 & W2 & W3 & W4 & W5).
    intros k. destruct (Nat.lt_ge_cases k (length (liq s))) as [L|G].
    + destruct (write2_nth lv vv s k L) as (A & B); [unfold wf in W4; congruence|]. rewrite A, B.
      destruct (pos k (idx c)) as [p|] eqn:E; [|apply IH].
      apply NW; auto. apply pos_some in E. tauto.
    + unfold write2. cbn [liq vap with_flows]. unfold wf in W4.
      rewrite !nthq_over by (rewrite scatter_length; lia). split; lra.
  - pose proof (reach_good _ _ W R) as (G1 & G2 & _).
    destruct W as (W1 & W2 & W3 & W4 & W5).
    intros k. destruct (Nat.lt_ge_cases k (length (liq s))) as [L|G].
    + destruct (write2_nth lv vv s k L) as (A & B); [unfold wf in W4; congruence|]. rewrite A, B.
      destruct (pos k (idx c)) as [p|] eqn:E; [|apply IH].
      apply NW; auto. apply pos_some in E. tauto.
    + unfold write2. cbn [liq vap with_flows]. unfold wf in W4.
      rewrite !nthq_over by (rewrite scatter_length; lia). split; lra.
Qed.

(* ---- the writes the wrappers make ---- *)
Hypothesis Lmolv : length (molv c) = length (idx c).

Lemma reach_all_vap s1 s : reach s1 s -> reach s1 (all_vap c s).
Proof.
  intros R. apply r_Wm; auto.
  - intros p Hp. unfold zeros. rewrite nthq_vzero. lra.
  - intros _ _ M p Hp. unfold zeros. rewrite nthq_vzero. split; [lra|apply M].
Qed.
Lemma reach_all_liq s1 s : reach s1 s -> reach s1 (all_liq c s).
Proof.
  intros R. apply r_Wm; auto.
  - intros p Hp. unfold zeros. rewrite nthq_vzero. lra.
  - intros _ _ M p Hp. unfold zeros. rewrite nthq_vzero. split; [apply M|lra].
Qed.

Lemma reach_set_flows s1 s v : reach s1 s ->
  (hyp -> nn s -> molv_nn -> forall p, (p < length (idx c))%nat -> 0 <= nthq v p <= nthq (molv c) p) ->
  reach s1 (set_flows c v s).
Proof.
  intros R B. unfold set_flows. apply r_Wm; auto.
  - intros p Hp. rewrite nthq_vsub by (rewrite fit_length; reflexivity).
    rewrite nthq_fit by lia. lra.
  - intros H N M p Hp. rewrite nthq_vsub by (rewrite fit_length; reflexivity).
    rewrite nthq_fit by lia. specialize (B H N M p Hp). split; lra.
Qed.

Lemma clipv_bounds raw p : molv_nn -> (p < length (idx c))%nat ->
  0 <= nthq (clipv raw (molv c)) p <= nthq (molv c) p.
Proof.
  intros M Hp. unfold clipv. rewrite nthq_map2 by (rewrite fit_length; lia).
  apply clip1_bounds. apply M.
Qed.

Lemma reach_solve_flows s1 s raw : reach s1 s -> reach s1 (set_flows c (clipv raw (molv c)) s).
Proof.
  intros R. apply reach_set_flows; auto. intros _ _ M p Hp. apply clipv_bounds; auto.
Qed.

Lemma reach_split_V s1 s V : reach s1 s -> (hyp -> 0 <= V <= 1) -> reach s1 (split_V c V s).
Proof.
  intros R HV. unfold split_V. apply reach_set_flows; auto.
  intros H _ M p Hp. rewrite nthq_vscale. specialize (HV H). specialize (M p). nra.
Qed.

End Closure.

(* ------------------------------------------------------------------ part 4: every wrapper stays in the closure *)
Definition om (r : vres mach) : mach := match r with VOk m => m | VErr _ m => m end.

Lemma frac_between b h d : b < h -> h < d -> 0 <= (h - b) / (d - b) <= 1.
Proof.
  intros A B. assert (D : 0 < d - b) by lra.
  split.
  - apply Qle_shift_div_l; lra.
  - apply Qle_shift_div_r; lra.
Qed.

Lemma c_tol_01 : 0 <= c_tol <= 1.
Proof. unfold c_tol. split; unfold Qle; simpl; lia. Qed.
Lemma c_999_01 : 0 <= c_999 <= 1.
Proof. unfold c_999. split; unfold Qle; simpl; lia. Qed.

Section Wrappers.
Variable hyp : Prop.
Variable c : ctx.
Variable orc : oracle.
Variable s1 : vst.
Hypothesis Lmolv : length (molv c) = length (idx c).
Notation R := (reach hyp c s1).

Ltac brk := match goal with
  | |- context [if ?x then _ else _] => destruct x eqn:?
  end.
Ltac rauto := repeat first [ assumption | apply r_T | apply r_P | apply reach_all_vap | apply reach_all_liq
                           | apply reach_solve_flows | apply r_refl ].
Ltac red1 := cbn [ms mset tick mk fst snd om].

Lemma tp_chemical_reach s T P : R s -> R (tp_chemical orc c s T P).
Proof. intros R0. unfold tp_chemical. repeat brk; rauto. Qed.

Lemma tv_chemical_reach s T V : (hyp -> 0 <= V <= 1) -> R s -> R (tv_chemical orc c s T V).
Proof. intros HV R0. unfold tv_chemical. apply reach_split_V; rauto. Qed.
Lemma pv_chemical_reach s P V : (hyp -> 0 <= V <= 1) -> R s -> R (pv_chemical orc c s P V).
Proof. intros HV R0. unfold pv_chemical. apply reach_split_V; rauto. Qed.

Lemma ph_chemical_reach m P H : R (ms m) -> R (ms (ph_chemical orc c m P H)).
Proof.
  intros R0. unfold ph_chemical, call_xH, call_solveT. red1.
  repeat brk; red1; rauto.
  apply reach_split_V; rauto. intros _.
  apply qleb_false in Heqb. apply qleb_false in Heqb0. apply frac_between; assumption.
Qed.

Lemma th_chemical_reach m T H : R (ms m) -> R (ms (om (th_chemical orc c m T H))).
Proof.
  intros R0. unfold th_chemical, call_xH. red1.
  repeat brk; red1; rauto.
  apply reach_split_V; rauto. intros _.
  apply qleb_false in Heqb. apply qleb_false in Heqb0. apply frac_between; assumption.
Qed.

(* the split fraction _lever_rule ends up using *)
Definition lever_sf (x y : vec) : Q :=
  let sf := (nthq (molv c) 0 / Fmol c - nthq x 0) / (nthq y 0 - nthq x 0) in
  if qltb 1 sf then 1 else if qltb sf 0 then 0 else sf.
Lemma lever_sf_01 x y : 0 <= lever_sf x y <= 1.
Proof.
  unfold lever_sf. destruct (qltb 1 _) eqn:A; [lra|]. destruct (qltb _ 0) eqn:B; [lra|].
  apply qltb_false in A. apply qltb_false in B. lra.
Qed.
(* what non-negativity still needs of the lever rule now that v is clipped to mol_vle: the composition that multiplies the
   split (the bubble-point y of an x= specification, the user's y of a y= specification) has no negative entry *)
Definition lever_ok (y : vec) : Prop := forall p, 0 <= nthq y p.

Lemma solve_v_ms T P m : ms (fst (solve_v orc c T P m)) = ms m.
Proof. reflexivity. Qed.

Lemma evals_v_ms isT a pts : forall m vl, ms (fst (evals_v orc c isT a pts m vl)) = ms m.
Proof.
  induction pts as [|x t IH]; intros m vl; simpl; auto.
  destruct isT; unfold solve_v; cbn [fst snd]; rewrite IH; reflexivity.
Qed.

(* every vector a bracketing loop leaves in self._v is a clipped one *)
Definition clipped (v : vec) : Prop := exists raw, v = clipv raw (molv c).
Lemma evals_v_clipped isT a pts : forall m vl, clipped vl -> clipped (snd (evals_v orc c isT a pts m vl)).
Proof.
  induction pts as [|x t IH]; intros m vl Hc; simpl; auto.
  destruct isT; unfold solve_v; cbn [fst snd]; apply IH; eexists; reflexivity.
Qed.

Lemma reach_set_flows_clipped s v : clipped v -> R s -> R (set_flows c v s).
Proof. intros (raw & E) R0. subst v. apply reach_solve_flows; auto. Qed.

Lemma capv_le a mol p : (p < length mol)%nat -> length a = length mol ->
  nthq (capv a mol) p <= nthq mol p /\ (nthq (capv a mol) p == nthq a p \/ nthq (capv a mol) p == nthq mol p).
Proof.
  intros Hp L. unfold capv. rewrite nthq_map2 by lia.
  destruct (qltb (nthq mol p) (nthq a p)) eqn:E.
  - split; [lra|right; reflexivity].
  - apply qltb_false in E. split; [exact E|left; reflexivity].
Qed.

Lemma adj_V_01 V : 0 <= V <= 1 -> 0 <= adj_V c V <= 1.
Proof.
  intros HV. unfold adj_V. pose proof c_tol_01. pose proof c_999_01.
  repeat brk; lra.
Qed.

Lemma cap_bubble F V y mol n p : 0 <= F -> 0 <= V -> (forall q, 0 <= nthq y q) -> 0 <= nthq mol p ->
  (p < n)%nat -> length mol = n ->
  0 <= nthq (capv (vscale (F * V) (fit n y)) mol) p <= nthq mol p.
Proof.
  intros HF HV Hy Hm Hp L.
  assert (L' : length (vscale (F * V) (fit n y)) = length mol) by (rewrite vscale_length, fit_length; auto).
  destruct (capv_le _ mol p ltac:(lia) L') as (A & [B|B]).
  - split; [|exact A]. rewrite B. rewrite nthq_vscale, nthq_fit by exact Hp. specialize (Hy p).
    apply Qmult_le_0_compat; [apply Qmult_le_0_compat|]; auto.
  - split; [|exact A]. rewrite B. exact Hm.
Qed.
Lemma cap_dew F V x mol n p : 0 <= F -> V <= 1 -> (forall q, 0 <= nthq x q) -> 0 <= nthq mol p ->
  (p < n)%nat -> length mol = n ->
  0 <= nthq (vsub mol (capv (vscale (F * (1 - V)) (fit n x)) mol)) p <= nthq mol p.
Proof.
  intros HF HV Hx Hm Hp L.
  assert (L' : length (vscale (F * (1 - V)) (fit n x)) = length mol) by (rewrite vscale_length, fit_length; auto).
  rewrite nthq_vsub by (unfold capv; rewrite map2_length; lia).
  destruct (capv_le _ mol p ltac:(lia) L') as (A & [B|B]).
  - split; [lra|]. rewrite B. rewrite nthq_vscale, nthq_fit by exact Hp. specialize (Hx p).
    assert (0 <= F * (1 - V) * nthq x p) by (apply Qmult_le_0_compat; [apply Qmult_le_0_compat|]; auto; lra). lra.
  - split; lra.
Qed.

Lemma lever_reach x y m : (hyp -> lever_ok y /\ 0 <= Fmol c) -> R (ms m) -> R (ms (om (lever c x y m))).
Proof.
  intros HL R0. unfold lever.
  destruct (qzerob (nthq y 0 - nthq x 0)); red1; rauto.
  match goal with |- context [if negb ?b then _ else _] => destruct (negb b) end; red1; rauto.
  match goal with |- context [if negb ?b then _ else _] => destruct (negb b) end; red1; rauto.
  change (R (set_flows c (capv (vscale (Fmol c * lever_sf x y) (fit (length (idx c)) y)) (molv c)) (ms m))).
  apply reach_set_flows; auto. intros H _ M p Hp. destruct (HL H) as (Y & F).
  apply cap_bubble; auto. apply lever_sf_01.
Qed.

Definition comps_nn : Prop :=
  forall k a p, 0 <= nthq (snd (o_bubble orc k a)) p /\ 0 <= nthq (snd (o_dew orc k a)) p.

Lemma set_XV_multi_reach isT V m :
  (hyp -> 0 <= V <= 1) -> (hyp -> comps_nn) -> (hyp -> 0 <= Fmol c) ->
  R (ms m) -> R (ms (om (set_XV_multi orc c isT V m))).
Proof.
  intros HV HC HF R0. unfold set_XV_multi, call_dew, call_bubble, call_dew_n, call_bubble_n, set_other.
  assert (HV' : hyp -> 0 <= adj_V c V <= 1) by (intros H; apply adj_V_01; auto).
  destruct isT; cbv zeta; red1.
  all: destruct (o_bubble orc (mk m) _) as [Xb yb] eqn:EB0.
  all: repeat brk; red1; rauto.
  all: try (destruct (o_dew orc (mk m) _) as [Xd0 xd0]; red1; rauto; fail).
  all: try (destruct (o_bubble orc (mk m) _) as [Xb0 yb0]; red1; rauto; fail).
  all: destruct (o_dew orc (S (mk m)) _) as [Xd xd] eqn:ED; red1.
  all: repeat brk; red1; rauto.
  all: unfold solve_v; red1.
  all: repeat brk; red1; rauto.
  all: try (destruct (o_iq orc _) as [pts X]; red1;
            match goal with |- context [evals_v orc c ?b ?a0 pts ?m0 ?v0] =>
              pose proof (evals_v_ms b a0 pts m0 v0) as E1;
              pose proof (evals_v_clipped b a0 pts m0 v0) as E2;
              destruct (evals_v orc c b a0 pts m0 v0) as [m' v'] eqn:EV end;
            cbn [fst snd] in E1, E2; red1; rewrite E1; red1;
            apply reach_set_flows_clipped; [apply E2; eexists; reflexivity|]; repeat brk; rauto; fail).
  (* bubble-side and dew-side boundary branches *)
  all: apply reach_set_flows; [assumption|repeat brk; rauto|].
  all: intros H N M p Hp.
  all: specialize (HV' H); specialize (HC H); specialize (HF H); specialize (M p).
  all: first [ apply cap_bubble; auto; try lra; intros q0;
               match type of EB0 with o_bubble _ _ ?a0 = _ => destruct (HC (mk m) a0 q0) as (C1 & _) end; rewrite EB0 in C1; exact C1
             | apply cap_dew; auto; try lra; intros q0;
               match type of ED with o_dew _ _ ?a0 = _ => destruct (HC (S (mk m)) a0 q0) as (_ & C1) end; rewrite ED in C1; exact C1 ].
Qed.

Lemma herr_eval_reach T P m : R (ms m) -> R (ms (fst (herr_eval orc c T P m))).
Proof. intros R0. unfold herr_eval, solve_v, call_xH. red1. rauto. Qed.

Lemma evals_h_reach isT X pts : forall m, R (ms m) -> R (ms (evals_h orc c isT X pts m)).
Proof.
  induction pts as [|x t IH]; intros m R0; simpl; auto.
  destruct isT.
  - destruct (herr_eval orc c X x m) as [m' h] eqn:E. apply IH.
    change m' with (fst (m', h)). rewrite <- E. apply herr_eval_reach; auto.
  - destruct (herr_eval orc c x X m) as [m' h] eqn:E. apply IH.
    change m' with (fst (m', h)). rewrite <- E. apply herr_eval_reach; auto.
Qed.

Lemma clamp_f_01 f : 0 <= clamp_f f <= 1.
Proof.
  unfold clamp_f. repeat brk; try lra.
  apply qltb_false in Heqb1. apply qltb_true in Heqb0. lra.
Qed.

Lemma nthq_only_idx a k p : pos k (idx c) = Some p -> (k < length a)%nat -> nthq (only_idx c a) k = nthq a k.
Proof. intros Hp L. unfold only_idx. rewrite nthq_map_seq by exact L. rewrite Hp. reflexivity. Qed.

Hypothesis Hnd : NoDup (idx c).
Hypothesis Hrange : forall i, In i (idx c) -> (i < length (liq s1))%nat.
Hypothesis Hwf : wf s1.
Hypothesis Hwfc : wfc c s1.

Lemma correct_reach T P H m : R (ms m) -> R (ms (correct orc c T P H m)).
Proof.
  intros R0. unfold correct, call_Hp, call_xH, call_solveT. red1.
  pose proof (reach_good hyp c s1 _ Hwfc R0) as (G1 & G2 & _).
  assert (RT : R (with_T (ms m) T)) by rauto.
  set (s := with_T (ms m) T) in *.
  assert (Ls : length (liq s) = length (liq s1)) by (unfold s; cbn [liq with_T]; exact G1).
  assert (Lv : length (vap s) = length (vap s1)) by (unfold s; cbn [vap with_T]; exact G2).
  assert (IDX : forall p, (p < length (idx c))%nat ->
            nthq (gather (idx c) (only_idx c (liq s))) p = nthq (liq s) (nth p (idx c) 0%nat) /\
            nthq (gather (idx c) (only_idx c (vap s))) p = nthq (vap s) (nth p (idx c) 0%nat)).
  { intros p Hp. rewrite !nthq_gather by exact Hp.
    assert (I : In (nth p (idx c) 0%nat) (idx c)) by (apply nth_In; exact Hp).
    pose proof (Hrange _ I) as L. unfold wf in Hwf.
    rewrite !(nthq_only_idx _ _ p) by (try (apply pos_nodup; auto); lia). auto. }
  repeat brk; red1; rauto.
  - (* condense *)
    apply r_Wc; rauto.
    + intros p Hp. rewrite nthq_vadd by (rewrite vscale_length, !gather_length; reflexivity).
      rewrite nthq_vsub by (rewrite vscale_length, !gather_length; reflexivity).
      rewrite !nthq_gather by exact Hp. unfold mol0. lra.
    + intros _ N _ p Hp. rewrite nthq_vadd by (rewrite vscale_length, !gather_length; reflexivity).
      rewrite nthq_vsub by (rewrite vscale_length, !gather_length; reflexivity).
      rewrite nthq_vscale. destruct (IDX p Hp) as (_ & I2). rewrite I2.
      rewrite !nthq_gather by exact Hp.
      match goal with |- context [clamp_f ?f] => pose proof (clamp_f_01 f) as F end.
      destruct (N (nth p (idx c) 0%nat)) as (N1 & N2). split; nra.
  - apply r_Wc; rauto.
    + intros p Hp. rewrite nthq_vadd by (rewrite vscale_length, !gather_length; reflexivity).
      rewrite nthq_vsub by (rewrite vscale_length, !gather_length; reflexivity).
      rewrite !nthq_gather by exact Hp. unfold mol0. lra.
    + intros _ N _ p Hp. rewrite nthq_vadd by (rewrite vscale_length, !gather_length; reflexivity).
      rewrite nthq_vsub by (rewrite vscale_length, !gather_length; reflexivity).
      rewrite nthq_vscale. destruct (IDX p Hp) as (_ & I2). rewrite I2.
      rewrite !nthq_gather by exact Hp.
      match goal with |- context [clamp_f ?f] => pose proof (clamp_f_01 f) as F end.
      destruct (N (nth p (idx c) 0%nat)) as (N1 & N2). split; nra.
  - (* vaporise *)
    apply r_Wc; rauto.
    + intros p Hp. rewrite nthq_vadd by (rewrite vscale_length, !gather_length; reflexivity).
      rewrite nthq_vsub by (rewrite vscale_length, !gather_length; reflexivity).
      rewrite !nthq_gather by exact Hp. unfold mol0. lra.
    + intros _ N _ p Hp. rewrite nthq_vadd by (rewrite vscale_length, !gather_length; reflexivity).
      rewrite nthq_vsub by (rewrite vscale_length, !gather_length; reflexivity).
      rewrite nthq_vscale. destruct (IDX p Hp) as (I1 & _). rewrite I1.
      rewrite !nthq_gather by exact Hp.
      match goal with |- context [clamp_f ?f] => pose proof (clamp_f_01 f) as F end.
      destruct (N (nth p (idx c) 0%nat)) as (N1 & N2). split; nra.
  - apply r_Wc; rauto.
    + intros p Hp. rewrite nthq_vadd by (rewrite vscale_length, !gather_length; reflexivity).
      rewrite nthq_vsub by (rewrite vscale_length, !gather_length; reflexivity).
      rewrite !nthq_gather by exact Hp. unfold mol0. lra.
    + intros _ N _ p Hp. rewrite nthq_vadd by (rewrite vscale_length, !gather_length; reflexivity).
      rewrite nthq_vsub by (rewrite vscale_length, !gather_length; reflexivity).
      rewrite nthq_vscale. destruct (IDX p Hp) as (I1 & _). rewrite I1.
      rewrite !nthq_gather by exact Hp.
      match goal with |- context [clamp_f ?f] => pose proof (clamp_f_01 f) as F end.
      destruct (N (nth p (idx c) 0%nat)) as (N1 & N2). split; nra.
Qed.

End Wrappers.

(* ------------------------------------------------------------------ part 4b: setup + wrapper *)
Lemma qsum_nonneg v : (forall p, 0 <= nthq v p) -> 0 <= qsum v.
Proof.
  induction v as [|x t IH]; intros H; simpl; [lra|].
  assert (0 <= x) by (apply (H 0%nat)).
  assert (0 <= qsum t) by (apply IH; intros p; apply (H (S p))). lra.
Qed.

Definition nsol_nn (cf : cfg) : Prop := forall k, 0 <= nthq (nsol cf) k.

Lemma nthq_nn_gather ix a : (forall k, 0 <= nthq a k) -> forall p, 0 <= nthq (gather ix a) p.
Proof.
  intros H p. destruct (Nat.lt_ge_cases p (length ix)) as [L|G].
  - rewrite nthq_gather by exact L. apply H.
  - rewrite nthq_over by (rewrite gather_length; exact G). lra.
Qed.

Lemma setup_Fmol_nn cf s s1 c : wf s -> nn s -> nsol_nn cf -> setup cf s = SOk s1 c -> 0 <= Fmol c.
Proof.
  intros W N NS H. unfold setup in H.
  destruct (negb (anynz (vadd (liq s) (vap s)))); [discriminate|].
  destruct (negb (anynz (gather (vle_idx cf (vadd (liq s) (vap s))) (vadd (liq s) (vap s))))); [discriminate|].
  match type of H with (if ?b then _ else _) = _ => destruct b; [discriminate|] end.
  inversion H; subst; clear H. cbn [Fmol].
  assert (M : forall k, 0 <= nthq (vadd (liq s) (vap s)) k).
  { intros k. rewrite nthq_vadd by exact W. destruct (N k). lra. }
  assert (A : 0 <= qsum (gather (vle_idx cf (vadd (liq s) (vap s))) (vadd (liq s) (vap s))))
    by (apply qsum_nonneg; apply nthq_nn_gather; exact M).
  assert (B : 0 <= qsum (gather (idx_of cf KLight (length (liq s))) (vadd (liq s) (vap s))))
    by (apply qsum_nonneg; apply nthq_nn_gather; exact M).
  assert (C : 0 <= qsum (vmul (gather (idx_of cf KHeavy (length (liq s))) (vadd (liq s) (vap s)))
                              (gather (idx_of cf KHeavy (length (liq s))) (nsol cf)))).
  { apply qsum_nonneg. intros p.
    destruct (Nat.lt_ge_cases p (length (idx_of cf KHeavy (length (liq s))))) as [L|G].
    - rewrite nthq_vmul by (rewrite !gather_length; reflexivity).
      apply Qmult_le_0_compat; apply nthq_nn_gather; auto.
    - rewrite nthq_over; [lra|]. unfold vmul. rewrite map2_length by (rewrite !gather_length; reflexivity).
      rewrite gather_length. exact G. }
  lra.
Qed.

Lemma setup_molv_nn cf s s1 c : wf s -> nn s -> setup cf s = SOk s1 c -> molv_nn c.
Proof.
  intros W N H. destruct (setup_ok cf s s1 c W H) as (_ & (W1 & _) & _ & _ & _ & M).
  intros p. destruct (Nat.lt_ge_cases p (length (idx c))) as [L|G].
  - rewrite (M p L). unfold mol0. destruct (N (nth p (idx c) 0%nat)). lra.
  - rewrite nthq_over by lia. lra.
Qed.

(* outcome of one wrapper call seen from the initial stream *)
Record post (hyp : Prop) (cf : cfg) (s0 : vst) (r : vres mach) : Prop := mkpost {
  p_same : same_lg s0 (ms (om r));
  p_wf : wf (ms (om r));
  p_nn : hyp -> nn s0 -> nn (ms (om r));
  p_placed : nn s0 -> (match r with VOk _ => True | VErr VNoEq _ => True | _ => False end) -> placed cf (ms (om r))
}.

Lemma zero_placed cf s : (forall k, nthq (liq s) k == 0 /\ nthq (vap s) k == 0) -> placed cf s.
Proof. intros Z k _. destruct (Z k). split; auto. Qed.

Lemma post_of_setup hyp cf m r :
  wf (ms m) ->
  (forall s1 c, setup cf (ms m) = SOk s1 c -> reach hyp c s1 (ms (om r))) ->
  (forall s, setup cf (ms m) = SNoEq s -> r = VErr VNoEq (mset m s)) ->
  (forall e s, setup cf (ms m) = SErr e s -> r = VErr e (mset m s)) ->
  post hyp cf (ms m) r.
Proof.
  intros W HOk HNo HErr.
  destruct (setup cf (ms m)) as [s1 c|s|e s] eqn:E.
  - specialize (HOk s1 c eq_refl).
    destruct (setup_ok cf _ s1 c W E) as (E1 & WC & K & _ & _ & _).
    pose proof (reach_good hyp c s1 _ WC HOk) as G.
    pose proof (good_same c s1 _ WC G) as S.
    assert (S0 : same_lg (ms m) s1) by (rewrite E1; apply reloc_same; exact W).
    split.
    + eapply same_lg_trans; eauto.
    + destruct S as (A & B & _). destruct WC as (_ & _ & _ & W4 & _). unfold wf in *. congruence.
    + intros H N. eapply reach_nn; eauto.
      * rewrite E1. apply reloc_nn; auto.
      * eapply setup_molv_nn; eauto.
    + intros N _. eapply good_placed; eauto. rewrite E1. apply reloc_placed; exact W.
  - rewrite (HNo s eq_refl). cbn [om ms mset].
    destruct (setup_noeq cf _ _ E) as [E1|E1]; subst s.
    + split; auto using same_lg_refl.
      intros N _. destruct (setup_noeq_zero cf _ E W N) as [Z|Z].
      * apply zero_placed; exact Z.
      * rewrite Z. apply reloc_placed; exact W.
    + split.
      * apply reloc_same; exact W.
      * apply reloc_wf; exact W.
      * intros _ N. apply reloc_nn; auto.
      * intros _ _. apply reloc_placed; exact W.
  - rewrite (HErr e s eq_refl). cbn [om ms mset].
    rewrite (setup_err cf _ _ _ E). split.
    + apply reloc_same; exact W.
    + apply reloc_wf; exact W.
    + intros _ N. apply reloc_nn; auto.
    + intros _ F. destruct e; try contradiction. apply reloc_placed; exact W.
Qed.

Section Calls.
Variable hyp : Prop.
Variable cf : cfg.
Variable orc : oracle.

Ltac brk := match goal with
  | |- context [if ?x then _ else _] => destruct x eqn:?
  end.
Ltac red1 := cbn [ms mset tick mk fst snd om].
Ltac rauto := repeat first [ assumption | apply r_T | apply r_P | apply reach_all_vap | apply reach_all_liq
                           | apply reach_solve_flows | apply r_refl ].
Ltac setup_cases E := intros; rewrite E; reflexivity.

Lemma set_TP_post T P m : wf (ms m) -> post hyp cf (ms m) (set_TP cf orc T P m).
Proof.
  intros W. apply post_of_setup; auto.
  - intros s1 c E. destruct (setup_ok cf _ s1 c W E) as (_ & WC & _). pose proof WC as (L & _).
    unfold set_TP. rewrite E. red1. unfold call_dew, call_bubble, call_dew_n, call_bubble_n, solve_v.
    repeat brk; red1; rauto; try (apply tp_chemical_reach; rauto).
    all: destruct (o_dew orc (mk m) _) as [Pd xd]; red1; repeat brk; red1; rauto.
    all: destruct (o_bubble orc (S (mk m)) _) as [Pb yb]; red1; repeat brk; red1; rauto.
  - intros s E. unfold set_TP. rewrite E. reflexivity.
  - intros e s E. unfold set_TP. rewrite E. reflexivity.
Qed.

Lemma set_TV_post T V m : wf (ms m) -> (hyp -> 0 <= V <= 1 /\ comps_nn orc /\ nsol_nn cf /\ nn (ms m)) ->
  post hyp cf (ms m) (set_TV cf orc T V m).
Proof.
  intros W HH. apply post_of_setup; auto.
  - intros s1 c E. destruct (setup_ok cf _ s1 c W E) as (_ & WC & _). pose proof WC as (L & _).
    unfold set_TV. rewrite E. red1.
    repeat brk; red1; rauto.
    + apply tv_chemical_reach; rauto. intros H. apply HH; exact H.
    + apply set_XV_multi_reach; rauto; intros H; destruct (HH H) as (A & B & C & D); auto.
      eapply setup_Fmol_nn; eauto.
  - intros s E. unfold set_TV. rewrite E. reflexivity.
  - intros e s E. unfold set_TV. rewrite E. reflexivity.
Qed.

Lemma set_PV_post P V m : wf (ms m) -> (hyp -> 0 <= V <= 1 /\ comps_nn orc /\ nsol_nn cf /\ nn (ms m)) ->
  post hyp cf (ms m) (set_PV cf orc P V m).
Proof.
  intros W HH. apply post_of_setup; auto.
  - intros s1 c E. destruct (setup_ok cf _ s1 c W E) as (_ & WC & _). pose proof WC as (L & _).
    unfold set_PV. rewrite E. red1.
    repeat brk; red1; rauto.
    + apply pv_chemical_reach; rauto. intros H. apply HH; exact H.
    + apply set_XV_multi_reach; rauto; intros H; destruct (HH H) as (A & B & C & D); auto.
      eapply setup_Fmol_nn; eauto.
  - intros s E. unfold set_PV. rewrite E. reflexivity.
  - intros e s E. unfold set_PV. rewrite E. reflexivity.
Qed.

Lemma set_TH_post T H m : wf (ms m) -> post hyp cf (ms m) (set_TH cf orc T H m).
Proof.
  intros W. apply post_of_setup; auto.
  - intros s1 c E. destruct (setup_ok cf _ s1 c W E) as (_ & WC & _). pose proof WC as (L & _).
    unfold set_TH. rewrite E. red1. unfold call_dew, call_bubble, call_dew_n, call_bubble_n, call_xH.
    repeat brk; red1; rauto; try (apply th_chemical_reach; rauto).
    all: destruct (o_dew orc (mk m) _) as [Pd xd]; red1; repeat brk; red1; rauto.
    all: destruct (o_bubble orc _ _) as [Pb yb]; red1; repeat brk; red1; rauto.
    all: destruct (o_iq orc _) as [pts Px]; red1; rauto.
    all: apply evals_h_reach; red1; rauto.
  - intros s E. unfold set_TH. rewrite E. reflexivity.
  - intros e s E. unfold set_TH. rewrite E. reflexivity.
Qed.

Lemma set_PH_post ent P H m : wf (ms m) -> post hyp cf (ms m) (set_PH cf orc ent P H m).
Proof.
  intros W. apply post_of_setup; auto.
  - intros s1 c E. destruct (setup_ok cf _ s1 c W E) as (_ & WC & _).
    pose proof WC as (L & ND & RG & W1 & _).
    unfold set_PH. rewrite E. red1. unfold call_dew, call_bubble, call_dew_n, call_bubble_n, call_xH, call_solveT.
    repeat brk; red1; rauto; try (apply ph_chemical_reach; rauto).
    all: destruct (o_bubble orc (mk m) _) as [Tb yb]; red1; repeat brk; red1; rauto.
    all: destruct (o_dew orc _ _) as [Td xd]; red1; repeat brk; red1; rauto.
    all: repeat match goal with
         | |- context [herr_eval ?o ?c0 ?T ?P ?m0] =>
           let m' := fresh "m'" in let h := fresh "h" in let EV := fresh "EV" in
           pose proof (herr_eval_reach hyp c0 o s1 L T P m0);
           destruct (herr_eval o c0 T P m0) as [m' h] eqn:EV; cbn [fst snd] in *
         end.
    all: repeat brk; red1.
    all: try (destruct (o_iq orc _) as [pts Tx]; red1).
    all: apply correct_reach; auto.
    all: try (apply evals_h_reach; auto; red1).
    all: repeat match goal with
         | HH : reach _ _ _ _ -> reach _ _ _ (ms ?x) |- reach _ _ _ (ms ?x) => apply HH
         | |- reach _ _ _ (ms (fst (herr_eval _ _ _ _ _))) => apply herr_eval_reach; auto
         end.
    all: red1; rauto.
  - intros s E. unfold set_PH. rewrite E. reflexivity.
  - intros e s E. unfold set_PH. rewrite E. reflexivity.
Qed.

End Calls.

Section Calls2.
Variable hyp : Prop.
Variable cf : cfg.
Variable orc : oracle.
Ltac red1 := cbn [ms mset tick mk fst snd om].
Ltac rauto := repeat first [ assumption | apply r_T | apply r_P | apply r_refl ].

(* what the x / y specifications need for non-negativity now that the lever-rule flows are clipped: the composition that
   multiplies the split has no negative entry (the bubble-point y for x=: an oracle contract; the user's y for y=) and
   N_solutes >= 0 *)
Definition xy_ok (bubble : bool) (comp : vec) : Prop :=
  (if bubble then comps_nn orc else lever_ok comp) /\ nsol_nn cf.

Lemma lever_ok_fit n y : lever_ok y -> lever_ok (fit n y).
Proof.
  intros H p. destruct (Nat.lt_ge_cases p n) as [L|G]; [rewrite nthq_fit by exact L; apply H|].
  rewrite nthq_over by (rewrite fit_length; exact G). lra.
Qed.

Lemma set_xy_post bubble specT sv comp m : wf (ms m) -> (hyp -> xy_ok bubble comp /\ nn (ms m)) ->
  post hyp cf (ms m) (set_xy cf orc bubble specT sv comp m).
Proof.
  intros W HH. apply post_of_setup; auto.
  - intros s1 c E. destruct (setup_ok cf _ s1 c W E) as (_ & WC & _). pose proof WC as (L & _).
    unfold set_xy. rewrite E. red1.
    destruct (negb (cN c =? 2)); red1; rauto.
    unfold call_bubble, call_dew, call_bubble_n, call_dew_n.
    assert (HF : hyp -> 0 <= Fmol c) by (intros H; destruct (HH H) as ((_ & NS) & N); eapply setup_Fmol_nn; eauto).
    destruct bubble; red1.
    + destruct (o_bubble orc (mk m) sv) as [a y] eqn:EB. red1.
      apply lever_reach; auto.
      * intros H. split; [|apply HF; exact H]. destruct (HH H) as ((CN & _) & _). cbn [xy_ok] in CN.
        apply lever_ok_fit. intros p. destruct (CN (mk m) sv p) as (C1 & _). rewrite EB in C1. exact C1.
      * red1. destruct specT; rauto.
    + destruct (o_dew orc (mk m) sv) as [a y] eqn:EB. red1.
      apply lever_reach; auto.
      * intros H. split; [|apply HF; exact H]. destruct (HH H) as ((CN & _) & _). exact CN.
      * red1. destruct specT; rauto.
  - intros s E. unfold set_xy. rewrite E. reflexivity.
  - intros e s E. unfold set_xy. rewrite E. reflexivity.
Qed.

(* hypotheses of the non-negativity theorem, per specification *)
Definition vle_hyp (sp : spec) (s : vst) : Prop :=
  match sp with
  | SpTV _ V | SpPV _ V => 0 <= V <= 1 /\ comps_nn orc /\ nsol_nn cf
  | SpTx _ _ | SpPx _ _ => xy_ok true []
  | SpTy _ y | SpPy _ y => xy_ok false y
  | _ => True
  end.

Lemma post_catch hyp' s0 r f :
  (forall s, same_lg s (f s) /\ (wf s -> wf (f s)) /\ (nn s -> nn (f s)) /\ (placed cf s -> placed cf (f s))) ->
  post hyp' cf s0 r -> post hyp' cf s0 (catch_noeq r f).
Proof.
  intros F [A B C D]. destruct r as [m'|e m']; [split; auto|].
  destruct e; try (split; auto; fail).
  cbn [catch_noeq om ms mset] in *. destruct (F (ms m')) as (F1 & F2 & F3 & F4). split; auto.
  - eapply same_lg_trans; eauto.
Qed.

Lemma thermal_ok (f : vst -> vst) :
  (forall s, liq (f s) = liq s /\ vap (f s) = vap s /\ oth (f s) = oth s) ->
  forall s, same_lg s (f s) /\ (wf s -> wf (f s)) /\ (nn s -> nn (f s)) /\ (placed cf s -> placed cf (f s)).
Proof.
  intros F s. destruct (F s) as (A & B & C).
  unfold same_lg, wf, nn, placed, mol0. rewrite A, B, C. repeat split; auto; try (intros; reflexivity).
  all: intros; apply H; auto.
Qed.

Lemma vle_call_post sp s :
  wf s -> (hyp -> nn s /\ vle_hyp sp s) -> post hyp cf s (vle_call cf orc sp (mkm s 0)).
Proof.
  intros W HH. change s with (ms (mkm s 0)) at 1.
  destruct sp; cbn [vle_call].
  - apply post_catch; [apply thermal_ok; intros; auto|]. apply set_TP_post; auto.
  - apply post_catch; [apply thermal_ok; intros; auto|]. apply set_TV_post; auto.
    intros H. destruct (HH H) as (N & A & B & C). auto.
  - apply set_TH_post; auto.
  - apply set_TH_post; auto.
  - apply set_xy_post; auto. intros H. destruct (HH H) as (N & X). split; assumption.
  - apply set_xy_post; auto. intros H. destruct (HH H) as (N & X). split; assumption.
  - apply post_catch; [apply thermal_ok; intros; auto|]. apply set_PV_post; auto.
    intros H. destruct (HH H) as (N & A & B & C). auto.
  - apply post_catch; [apply thermal_ok; intros; auto|]. apply set_PH_post; auto.
  - (* set_PS, tried twice *)
    pose proof (set_PH_post hyp cf orc true P Sv (mkm s 0) W) as P1.
    destruct (set_PH cf orc true P Sv (mkm s 0)) as [m1|e m1] eqn:E1; [exact P1|].
    destruct P1 as [A B C D]. cbn [om] in *.
    pose proof (set_PH_post hyp cf orc true P Sv m1 B) as P2.
    apply (post_catch hyp (ms m1) _ (fun s => with_P s P)) in P2; [|apply thermal_ok; intros; auto].
    destruct P2 as [A2 B2 C2 D2]. split; auto.
    + eapply same_lg_trans; eauto.
    + intros N F. apply D2; auto.
      (* non-negativity of the state the first attempt left: set_PS needs no outside hypothesis for it *)
      pose proof (set_PH_post True cf orc true P Sv (mkm s 0) W) as PT. rewrite E1 in PT.
      destruct PT as [_ _ CT _]. apply CT; auto.
  - apply set_xy_post; auto. intros H. destruct (HH H) as (N & X). split; assumption.
  - apply set_xy_post; auto. intros H. destruct (HH H) as (N & X). split; assumption.
Qed.
End Calls2.

(* ------------------------------------------------------------------ part 4c: the VLE theorems *)
Lemma vle_ok_call cf orc sp st st' : vle cf orc sp st = VOk st' ->
  exists m, vle_call cf orc sp (mkm st 0) = VOk m /\ ms m = st'.
Proof.
  unfold vle. destruct (vle_call cf orc sp (mkm st 0)) as [m|e m]; intros H; inversion H. eauto.
Qed.

Lemma vle_conserve_lemma cf orc sp st st' : wf st -> vle cf orc sp st = VOk st' ->
  (forall k, tot st' k == tot st k) /\
  length (liq st') = length (liq st) /\ length (vap st') = length (vap st) /\ oth st' = oth st.
Proof.
  intros W H. destruct (vle_ok_call _ _ _ _ _ H) as (m & E & <-).
  pose proof (vle_call_post False cf orc sp st W ltac:(intros [])) as [A _ _ _].
  rewrite E in A. cbn [om] in A. destruct A as (A1 & A2 & A3 & A4). repeat split; auto.
  intros k. unfold tot. rewrite A3. specialize (A4 k). unfold mol0 in A4. lra.
Qed.

Lemma vle_nonneg_lemma cf orc sp st st' : wf st -> nn st -> vle_hyp cf orc sp st ->
  vle cf orc sp st = VOk st' -> nn st'.
Proof.
  intros W N HH H. destruct (vle_ok_call _ _ _ _ _ H) as (m & E & <-).
  pose proof (vle_call_post True cf orc sp st W ltac:(auto)) as [_ _ C _].
  rewrite E in C. cbn [om] in C. auto.
Qed.

Lemma vle_placed_lemma cf orc sp st st' : wf st -> nn st -> vle cf orc sp st = VOk st' ->
  forall k, (k < length (liq st))%nat ->
    (is_light cf k -> nthq (liq st') k == 0 /\ nthq (vap st') k == nthq (liq st) k + nthq (vap st) k) /\
    (is_heavy cf k -> nthq (vap st') k == 0 /\ nthq (liq st') k == nthq (liq st) k + nthq (vap st) k).
Proof.
  intros W N H k L. destruct (vle_ok_call _ _ _ _ _ H) as (m & E & <-).
  pose proof (vle_call_post False cf orc sp st W ltac:(intros [])) as [A _ _ D].
  rewrite E in A, D. cbn [om] in A, D. specialize (D N I).
  destruct A as (A1 & A2 & A3 & A4). rewrite <- A1 in L. destruct (D k L) as (D1 & D2).
  specialize (A4 k). unfold mol0 in A4.
  split; intros K.
  - specialize (D1 K). split; [exact D1|lra].
  - specialize (D2 K). split; [exact D2|lra].
Qed.

(* ------------------------------------------------------------------ part 5: LLE, SLE *)
Lemma lle_idx_props islle mol i : In i (lle_idx islle mol) -> (i < length mol)%nat.
Proof. intros H. unfold lle_idx in H. apply filter_seq_lt in H. tauto. Qed.

Lemma lle_conserve_lemma islle o s s' : length (l_l s) = length (l_L s) -> lle_call islle o s = Ok s' ->
  length (l_l s') = length (l_l s) /\ length (l_L s') = length (l_L s) /\
  forall k, nthq (l_l s') k + nthq (l_L s') k == nthq (l_l s) k + nthq (l_L s) k.
Proof.
  intros W H. unfold lle_call in H.
  set (pooled := vadd (l_l s) (l_L s)) in *.
  set (zero := vzero (length (l_l s))) in *.
  set (ix := lle_idx islle pooled) in *.
  assert (Lp : length pooled = length (l_l s)) by (apply vadd_len; exact W).
  assert (PK : forall k, nthq pooled k == nthq (l_l s) k + nthq (l_L s) k) by (intros; apply nthq_vadd; exact W).
  destruct (nzb (qsum (gather ix pooled)) && (1 <? length ix)%nat) eqn:E0.
  2:{ inversion H; subst; cbn [l_l l_L]. unfold zero. rewrite vzero_length. repeat split; auto; try lia.
      intros k. rewrite nthq_vzero, PK. lra. }
  apply andb_prop in E0. destruct E0 as (E0 & _). unfold nzb in E0. apply negb_true_iff in E0. apply qzerob_false in E0.
  set (F := qsum (gather ix pooled)) in *.
  set (z := vdivs (gather ix pooled) F) in *.
  assert (Lz : length z = length ix) by (unfold z; rewrite vdivs_length, gather_length; reflexivity).
  match type of H with bind ?r _ = _ => destruct r as [[ml mL]|e] eqn:ER; [|discriminate] end.
  cbn [bind] in H.
  assert (SUM : length ml = length ix /\ length mL = length ix /\ forall p, (p < length ix)%nat -> nthq ml p + nthq mL p == nthq z p).
  { destruct (lo_cache o).
    - destruct (qleb 1 (lo_phi o)).
      + inversion ER; subst. rewrite vscale_length. repeat split; auto. intros p Hp. rewrite nthq_vscale. lra.
      + destruct (existsb _ _); [discriminate|]. inversion ER; subst.
        assert (L1 : length (vscale (lo_phi o) (map2 (fun zk k => zk * k / (lo_phi o * k + (1 - lo_phi o))) z (fit (length ix) (lo_K o)))) = length ix).
        { rewrite vscale_length, map2_length by (rewrite fit_length; auto). auto. }
        split; [exact L1|]. split; [rewrite vsub_len; congruence|].
        intros p Hp. rewrite nthq_vsub by congruence. lra.
    - inversion ER; subst. rewrite vsub_len by (rewrite fit_length; auto). rewrite fit_length. repeat split; auto.
      intros p Hp. rewrite nthq_vsub by (rewrite fit_length; auto). lra. }
  destruct SUM as (L1 & L2 & SUM).
  match type of H with (let (_, _) := if ?b then _ else _ in _) = _ => destruct b end.
  all: inversion H; subst; cbn [l_l l_L]; rewrite !scatter_length; unfold zero at 1; rewrite vzero_length.
  all: split; [reflexivity|]; split; [lia|]; intros k.
  all: destruct (Nat.lt_ge_cases k (length (l_l s))) as [L|G];
       [|rewrite !nthq_over by (rewrite ?scatter_length; unfold zero; rewrite ?vzero_length; lia); reflexivity].
  all: rewrite !nthq_scatter by (unfold zero; rewrite ?vzero_length; lia).
  all: destruct (pos k ix) as [p|] eqn:EP; [|unfold zero; rewrite nthq_vzero, PK; lra].
  all: pose proof (pos_some _ _ _ EP) as (Hp & Hk); rewrite !nthq_vscale.
  all: assert (ZP : nthq z p * F == nthq pooled k)
         by (unfold z; rewrite nthq_vdivs, nthq_gather by exact Hp; rewrite Hk; field; exact E0).
  all: specialize (SUM p Hp); rewrite <- PK, <- ZP; nra.
Qed.

Lemma sle_update_lemma ix j msol x s s' : (j < length (s_l s))%nat -> length (s_l s) = length (s_s s) ->
  sle_update ix j msol x s = Ok s' ->
  length (s_l s') = length (s_l s) /\ length (s_s s') = length (s_s s) /\
  (forall k, k <> j -> nthq (s_l s') k = nthq (s_l s) k /\ nthq (s_s s') k = nthq (s_s s) k) /\
  nthq (s_l s') j + nthq (s_s s') j == msol /\
  (0 <= qsum (gather ix (s_l s)) - nthq (s_l s) j -> 0 < msol -> 0 <= nthq (s_l s') j <= msol).
Proof.
  intros Lj W H. unfold sle_update in H.
  set (F := qsum (gather ix (s_l s)) - nthq (s_l s) j) in *.
  destruct (qzerob (F + msol)) eqn:E0; [discriminate|]. apply qzerob_false in E0.
  assert (Lj' : (j < length (s_s s))%nat) by lia.
  destruct (qltb x 0) eqn:E1; [|destruct (qleb (msol / (F + msol)) x) eqn:E2; [|destruct (qzerob (1 - x)) eqn:E3; [discriminate|]]].
  all: inversion H; subst; cbn [s_l s_s]; rewrite !upd_length.
  all: split; [reflexivity|]; split; [reflexivity|]; split;
       [intros k Hk; rewrite !nth_upd_other by auto; auto|].
  all: rewrite !nth_upd_same by assumption.
  - split; [lra|]. intros; lra.
  - split; [lra|]. intros; lra.
  - split; [lra|]. intros HF HM. apply qltb_false in E1. apply qleb_false in E2. apply qzerob_false in E3.
    assert (D : 0 < F + msol) by lra.
    assert (X : x * (F + msol) < msol).
    { apply (Qmult_lt_r _ _ (F + msol)) in E2; [|exact D].
      assert (msol / (F + msol) * (F + msol) == msol) by (field; lra). lra. }
    assert (X1 : x < 1) by nra.
    assert (D1 : 0 < 1 - x) by lra.
    split.
    + apply Qle_shift_div_l; [exact D1|]. nra.
    + apply Qle_shift_div_r; [exact D1|]. nra.
Qed.

Lemma sle_T_chemical_lemma j T Tm s s' : (j < length (s_l s))%nat -> length (s_l s) = length (s_s s) ->
  sle_T_chemical j T Tm s = Ok s' ->
  (forall k, k <> j -> nthq (s_l s') k = nthq (s_l s) k /\ nthq (s_s s') k = nthq (s_s s) k) /\
  nthq (s_l s') j + nthq (s_s s') j == nthq (s_l s) j + nthq (s_s s) j.
Proof.
  intros Lj W H. unfold sle_T_chemical in H. assert (Lj' : (j < length (s_s s))%nat) by lia.
  destruct (qzerob _); [discriminate|]. destruct (qltb Tm T); inversion H; subst; cbn [s_l s_s].
  all: split; [intros k Hk; rewrite !nth_upd_other by auto; auto|rewrite !nth_upd_same by assumption; lra].
Qed.

Lemma sle_H_chemical_lemma j H Tm Hl Hs Ts s s' : (j < length (s_l s))%nat -> length (s_l s) = length (s_s s) ->
  sle_H_chemical j H Tm Hl Hs Ts s = Ok s' ->
  (forall k, k <> j -> nthq (s_l s') k = nthq (s_l s) k /\ nthq (s_s s') k = nthq (s_s s) k) /\
  nthq (s_l s') j + nthq (s_s s') j == nthq (s_l s) j + nthq (s_s s) j.
Proof.
  intros Lj W E. unfold sle_H_chemical in E. assert (Lj' : (j < length (s_s s))%nat) by lia.
  destruct (qzerob _); [discriminate|]. destruct (qleb Hl H); [|destruct (qleb H Hs)]; inversion E; subst; cbn [s_l s_s].
  all: split; [intros k Hk; rewrite !nth_upd_other by auto; auto|rewrite !nth_upd_same by assumption; lra].
Qed.

(* ------------------------------------------------------------------ LLE write-back: non-negativity *)
Definition lle_z (islle : list bool) (s : lst) : vec :=
  let pooled := vadd (l_l s) (l_L s) in
  let ix := lle_idx islle pooled in
  vdivs (gather ix pooled) (qsum (gather ix pooled)).
(* cached branch: 0 <= phi and K >= 0 (what phase_fraction and the stored K satisfy);
   solver branch: the result lies within the bounds [0, z] handed to the optimiser *)
Definition lle_hyp (islle : list bool) (o : lle_oracle) (s : lst) : Prop :=
  if lo_cache o then 0 <= lo_phi o /\ (forall p, 0 <= nthq (lo_K o) p)
  else forall p, 0 <= nthq (lo_molL o) p <= nthq (lle_z islle s) p.

Lemma lle_nonneg_lemma islle o s s' : length (l_l s) = length (l_L s) ->
  (forall k, 0 <= nthq (l_l s) k /\ 0 <= nthq (l_L s) k) -> lle_hyp islle o s ->
  lle_call islle o s = Ok s' -> forall k, 0 <= nthq (l_l s') k /\ 0 <= nthq (l_L s') k.
Proof.
  intros W N HY H. unfold lle_call in H. unfold lle_hyp, lle_z in HY.
  set (pooled := vadd (l_l s) (l_L s)) in *.
  set (zero := vzero (length (l_l s))) in *.
  set (ix := lle_idx islle pooled) in *.
  assert (Lp : length pooled = length (l_l s)) by (apply vadd_len; exact W).
  assert (PK : forall k, 0 <= nthq pooled k).
  { intros k. unfold pooled. rewrite nthq_vadd by exact W. destruct (N k). lra. }
  destruct (nzb (qsum (gather ix pooled)) && (1 <? length ix)%nat) eqn:E0.
  2:{ inversion H; subst; cbn [l_l l_L]. intros k. unfold zero. rewrite nthq_vzero. split; [lra|apply PK]. }
  apply andb_prop in E0. destruct E0 as (E0 & _). unfold nzb in E0. apply negb_true_iff in E0. apply qzerob_false in E0.
  set (F := qsum (gather ix pooled)) in *.
  assert (F0 : 0 < F).
  { assert (0 <= F) by (apply qsum_nonneg; apply nthq_nn_gather; exact PK). destruct (Qeq_dec F 0); [contradiction|lra]. }
  set (z := vdivs (gather ix pooled) F) in *.
  assert (Lz : length z = length ix) by (unfold z; rewrite vdivs_length, gather_length; reflexivity).
  assert (Zp : forall p, 0 <= nthq z p).
  { intros p. unfold z. rewrite nthq_vdivs. apply Qle_shift_div_l; [exact F0|]. rewrite Qmult_0_l. apply nthq_nn_gather; exact PK. }
  match type of H with bind ?r _ = _ => destruct r as [[ml mL]|e] eqn:ER; [|discriminate] end.
  cbn [bind] in H.
  assert (NNp : forall p, (p < length ix)%nat -> 0 <= nthq ml p /\ 0 <= nthq mL p).
  { destruct (lo_cache o).
    - destruct HY as (P0 & K0).
      destruct (qleb 1 (lo_phi o)) eqn:E1.
      + inversion ER; subst. intros p Hp. rewrite nthq_vscale. split; [apply Zp|lra].
      + apply qleb_false in E1. destruct (existsb _ _); [discriminate|]. inversion ER; subst.
        intros p Hp.
        assert (L1 : length (map2 (fun zk k => zk * k / (lo_phi o * k + (1 - lo_phi o))) z (fit (length ix) (lo_K o))) = length ix)
          by (rewrite map2_length by (rewrite fit_length; auto); auto).
        rewrite nthq_vsub by (rewrite vscale_length; congruence).
        rewrite nthq_vscale. rewrite nthq_map2 by (rewrite ?fit_length; lia). rewrite nthq_fit by exact Hp.
        set (k := nthq (lo_K o) p). assert (Kp : 0 <= k) by apply K0. specialize (Zp p). set (zp := nthq z p) in *.
        assert (D : 0 < lo_phi o * k + (1 - lo_phi o)).
        { assert (0 <= lo_phi o * k) by (apply Qmult_le_0_compat; assumption). lra. }
        assert (A : 0 <= zp * k / (lo_phi o * k + (1 - lo_phi o))).
        { apply Qle_shift_div_l; [exact D|]. rewrite Qmult_0_l. apply Qmult_le_0_compat; assumption. }
        split; [apply Qmult_le_0_compat; assumption|].
        assert (B : zp - lo_phi o * (zp * k / (lo_phi o * k + (1 - lo_phi o))) ==
                    zp * (1 - lo_phi o) / (lo_phi o * k + (1 - lo_phi o))) by (field; lra).
        rewrite B. apply Qle_shift_div_l; [exact D|]. rewrite Qmult_0_l. apply Qmult_le_0_compat; lra.
    - inversion ER; subst. intros p Hp.
      rewrite nthq_vsub by (rewrite fit_length; auto). rewrite nthq_fit by exact Hp.
      specialize (HY p). fold z in HY. lra. }
  assert (FIN : forall a b, (forall p, (p < length ix)%nat -> 0 <= nthq a p /\ 0 <= nthq b p) ->
            forall k, 0 <= nthq (scatter ix (vscale F a) zero) k /\ 0 <= nthq (scatter ix (vscale F b) pooled) k).
  { intros a b AB k. destruct (Nat.lt_ge_cases k (length (l_l s))) as [L|G].
    - rewrite !nthq_scatter by (unfold zero; rewrite ?vzero_length; lia).
      destruct (pos k ix) as [p|] eqn:EP.
      + apply pos_some in EP. destruct EP as (Hp & _). destruct (AB p Hp). rewrite !nthq_vscale.
        split; apply Qmult_le_0_compat; lra.
      + unfold zero. rewrite nthq_vzero. split; [lra|apply PK].
    - rewrite !nthq_over by (rewrite scatter_length; unfold zero; rewrite ?vzero_length; lia). split; lra. }
  match type of H with (let (_, _) := if ?b then _ else _ in _) = _ => destruct b end.
  - inversion H; subst; cbn [l_l l_L]. intros k. apply FIN. intros p Hp. destruct (NNp p Hp). split; assumption.
  - inversion H; subst; cbn [l_l l_L]. apply FIN. exact NNp.
Qed.

(* ------------------------------------------------------------------ Stream.vlle *)
Definition keeps3 (s s' : v3) : Prop := wf3 s' /\ length (d_l s') = length (d_l s) /\ forall k, tot3 s' k == tot3 s k.

Lemma keeps3_refl s : wf3 s -> keeps3 s s.
Proof. intros W. split; [exact W|]. split; [reflexivity|]. intros; reflexivity. Qed.
Lemma keeps3_trans a b c : keeps3 a b -> keeps3 b c -> keeps3 a c.
Proof.
  intros (A1 & A2 & A3) (B1 & B2 & B3). split; [exact B1|]. split; [congruence|]. intros k. rewrite B3. apply A3.
Qed.

Lemma nthq_map_lt3 (f : Q -> Q) l i : (i < length l)%nat -> nthq (map f l) i = f (nthq l i).
Proof.
  unfold nthq. revert i; induction l as [|x l IH]; intros [|i] H; simpl in *; try lia; auto. apply IH. lia.
Qed.
Lemma nthq_map0 (f : Q -> Q) l k : f 0 == 0 -> nthq (map f l) k == f (nthq l k).
Proof.
  intros F. destruct (Nat.lt_ge_cases k (length l)) as [L|G].
  - rewrite nthq_map_lt3 by exact L. reflexivity.
  - rewrite !nthq_over by (rewrite ?map_length; exact G). symmetry. exact F.
Qed.
Lemma red_keeps s : wf3 s -> keeps3 s (v3_red s).
Proof.
  intros (W1 & W2). unfold keeps3, wf3, tot3, v3_red. cbn [d_L d_g d_l]. rewrite !map_length.
  split; [split; assumption|]. split; [reflexivity|]. intros k.
  rewrite !(nthq_map0 Qred) by (apply Qred_correct). rewrite !Qred_correct. reflexivity.
Qed.
Lemma keeps_red s x : keeps3 s x -> keeps3 s (v3_red x).
Proof. intros K. eapply keeps3_trans; [exact K|apply red_keeps; exact (proj1 K)]. Qed.

Lemma vlle_vle_keeps cf orc T P s s' : wf3 s -> vlle_vle cf orc T P s = XOk s' -> keeps3 s s'.
Proof.
  intros (W1 & W2) H. unfold vlle_vle in H.
  destruct (vle cf orc (SpTP T P) (mkst (d_l s) (d_g s) [d_L s] (d_T s) (d_P s))) as [st|e m] eqn:E; [|discriminate].
  inversion H; subst s'; clear H. apply keeps_red.
  apply vle_conserve_lemma in E; [|unfold wf; cbn [liq vap]; congruence].
  destruct E as (E1 & E2 & E3 & E4). cbn [liq vap oth] in *.
  unfold keeps3, wf3, tot3. cbn [d_L d_g d_l]. rewrite E4. cbn [nth].
  split; [split; congruence|]. split; [exact E2|].
  intros k. specialize (E1 k). unfold tot in E1. cbn [liq vap oth map qsum fold_right] in E1. rewrite E4 in E1.
  cbn [map qsum fold_right] in E1. unfold qsum in E1. cbn [fold_right] in E1. lra.
Qed.

Lemma vlle_lle_keeps islle o T P s s' : wf3 s -> vlle_lle islle o T P s = XOk s' -> keeps3 s s'.
Proof.
  intros (W1 & W2) H. unfold vlle_lle in H.
  destruct (lle_call islle o (mklst (d_l s) (d_L s))) as [r|e] eqn:E; [|discriminate].
  inversion H; subst s'; clear H. apply keeps_red.
  apply lle_conserve_lemma in E; [|cbn [l_l l_L]; congruence].
  destruct E as (E1 & E2 & E3). cbn [l_l l_L] in *.
  unfold keeps3, wf3, tot3. cbn [d_L d_g d_l]. split; [split; congruence|]. split; [exact E1|].
  intros k. specialize (E3 k). lra.
Qed.

Lemma swap_keeps s : wf3 s -> keeps3 s (swap_lL s).
Proof.
  intros (W1 & W2). unfold keeps3, wf3, tot3, swap_lL. cbn [d_L d_g d_l].
  split; [split; congruence|]. split; [congruence|]. intros k. lra.
Qed.

Lemma vlle_step_keeps cf islle T P os s s' : wf3 s -> vlle_step cf islle T P os s = XOk s' -> keeps3 s s'.
Proof.
  intros W H. unfold vlle_step in H. destruct os as [[lo vo1] vo2].
  destruct (vlle_lle islle lo T P s) as [s1| |] eqn:E1; try discriminate. cbn [xbind] in H.
  pose proof (vlle_lle_keeps _ _ _ _ _ _ W E1) as K1.
  destruct (vlle_vle cf vo1 T P s1) as [s2| |] eqn:E2; try discriminate. cbn [xbind] in H.
  pose proof (vlle_vle_keeps _ _ _ _ _ _ (proj1 K1) E2) as K2.
  pose proof (swap_keeps s2 (proj1 K2)) as K3.
  destruct (vlle_vle cf vo2 T P (swap_lL s2)) as [s3| |] eqn:E3; try discriminate. cbn [xbind] in H.
  pose proof (vlle_vle_keeps _ _ _ _ _ _ (proj1 K3) E3) as K4.
  pose proof (swap_keeps s3 (proj1 K4)) as K5.
  inversion H; subst s'.
  eapply keeps3_trans; [exact K1|]. eapply keeps3_trans; [exact K2|]. eapply keeps3_trans; [exact K3|].
  eapply keeps3_trans; [exact K4|exact K5].
Qed.

Lemma vlle_steps_keeps cf islle T P oss : forall s s', wf3 s -> vlle_steps cf islle T P oss s = XOk s' -> keeps3 s s'.
Proof.
  induction oss as [|os t IH]; intros s s' W H; cbn [vlle_steps] in H.
  - inversion H; subst. apply keeps3_refl; exact W.
  - destruct (vlle_step cf islle T P os s) as [s1| |] eqn:E; try discriminate. cbn [xbind] in H.
    pose proof (vlle_step_keeps _ _ _ _ _ _ _ W E) as K1.
    eapply keeps3_trans; [exact K1|]. apply IH; [exact (proj1 K1)|exact H].
Qed.

Lemma merge_keeps s : wf3 s ->
  keeps3 s (mkv3 (vzero (length (d_L s))) (d_g s) (vadd (d_l s) (d_L s)) (d_T s) (d_P s)).
Proof.
  intros (W1 & W2). unfold keeps3, wf3, tot3. cbn [d_L d_g d_l].
  rewrite vzero_length, vadd_len by congruence. split; [split; congruence|]. split; [reflexivity|].
  intros k. rewrite nthq_vzero, nthq_vadd by congruence. lra.
Qed.

Lemma vlle_conserve_lemma cf islle vo0 lo0 oss T P s s' : wf3 s ->
  vlle cf islle vo0 lo0 oss T P s = XOk s' -> wf3 s' /\ forall k, tot3 s' k == tot3 s k.
Proof.
  intros W H. unfold vlle in H.
  pose proof (merge_keeps s W) as K0.
  set (s0 := mkv3 (vzero (length (d_L s))) (d_g s) (vadd (d_l s) (d_L s)) (d_T s) (d_P s)) in *.
  assert (FIN : forall x, keeps3 s0 x -> wf3 x /\ forall k, tot3 x k == tot3 s k).
  { intros x Kx. destruct (keeps3_trans _ _ _ K0 Kx) as (A & _ & B). auto. }
  destruct (vlle_vle cf vo0 T P s0) as [s1| |] eqn:E1; try discriminate. cbn [xbind] in H.
  pose proof (vlle_vle_keeps _ _ _ _ _ _ (proj1 K0) E1) as K1.
  destruct (negb (anynz (d_g s1))).
  { apply FIN. eapply keeps3_trans; [exact K1|]. eapply vlle_lle_keeps; [exact (proj1 K1)|exact H]. }
  destruct (negb (anynz (d_l s1))).
  { inversion H; subst. apply FIN. exact K1. }
  destruct (vlle_lle islle lo0 T P s1) as [s2| |] eqn:E2; try discriminate. cbn [xbind] in H.
  pose proof (vlle_lle_keeps _ _ _ _ _ _ (proj1 K1) E2) as K2.
  assert (K02 : keeps3 s0 s2) by (eapply keeps3_trans; eauto).
  destruct (negb (anynz (d_L s2) && anynz (d_l s2))).
  { inversion H; subst. apply FIN. exact K02. }
  destruct (qzerob (v3_total s2)) eqn:Z; [discriminate|]. apply qzerob_false in Z.
  set (t := v3_total s2) in *.
  (* normalise *)
  assert (KN : wf3 (v3_scale (fun x => x / t) s2) /\ length (d_l (v3_scale (fun x => x / t) s2)) = length (d_l s2) /\
               forall k, tot3 (v3_scale (fun x => x / t) s2) k == tot3 s2 k / t).
  { destruct K02 as ((A1 & A2) & _). unfold wf3, v3_scale, tot3. cbn [d_L d_g d_l]. rewrite !map_length.
    split; [split; assumption|]. split; [reflexivity|]. intros k.
    rewrite !(nthq_map0 (fun x => x / t)) by (field; exact Z). field. exact Z. }
  destruct KN as (WN & LN & TN).
  pose proof (red_keeps _ WN) as KR.
  destruct (vlle_steps cf islle T P oss (v3_red (v3_scale (fun x => x / t) s2))) as [s3| |] eqn:E3; try discriminate.
  cbn [xbind] in H.
  pose proof (keeps3_trans _ _ _ KR (vlle_steps_keeps _ _ _ _ _ _ _ (proj1 KR) E3)) as K3.
  set (s4 := if qltb (qabs_diff_sum (d_l s3) (d_L s3)) c_1em6
             then mkv3 (vzero (length (d_L s3))) (d_g s3) (vadd (d_l s3) (d_L s3)) (d_T s3) (d_P s3) else s3) in *.
  assert (K4 : keeps3 s3 s4).
  { unfold s4. destruct (qltb _ _); [apply merge_keeps|apply keeps3_refl]; exact (proj1 K3). }
  pose proof (keeps3_trans _ _ _ K3 K4) as (W4 & L4 & T4).
  injection H as H. subst s'.
  assert (WS : wf3 (v3_scale (fun x => x * t) s4)).
  { destruct W4 as (B1 & B2). unfold wf3, v3_scale. cbn [d_L d_g d_l]. rewrite !map_length. split; assumption. }
  destruct (red_keeps _ WS) as (WR & _ & TR).
  split; [exact WR|].
  - intros k. rewrite TR. unfold v3_scale, tot3 at 1. cbn [d_L d_g d_l].
    rewrite !(nthq_map0 (fun x => x * t)) by ring.
    destruct K02 as (_ & _ & T02). destruct K0 as (_ & _ & T0).
    specialize (T4 k). specialize (TN k). specialize (T02 k). specialize (T0 k). unfold tot3 in *.
    assert (Q1 : (nthq (d_L s4) k + nthq (d_g s4) k + nthq (d_l s4) k) * t ==
                 (nthq (d_L s2) k + nthq (d_g s2) k + nthq (d_l s2) k) / t * t) by (rewrite T4, TN; reflexivity).
    assert (Q2 : (nthq (d_L s2) k + nthq (d_g s2) k + nthq (d_l s2) k) / t * t ==
                 nthq (d_L s2) k + nthq (d_g s2) k + nthq (d_l s2) k) by (field; exact Z).
    lra.
Qed.

(* ------------------------------------------------------------------ SLE on a persistent object: every call conserves,
   whatever the object remembers from earlier calls *)
From V Require Import C03.ModelHist.

Lemma sle_setup_msol islle j st o o' : sle_setup islle j st o = (o', None) ->
  so_msol o' = nthq (vadd (s_l st) (s_s st)) j.
Proof.
  unfold sle_setup. destruct (qzerob _); [intros H; inversion H|].
  destruct (opt_eqb _ _ _); [cbn [so_idx so_nz]; destruct (pos j _); intros H; inversion H; reflexivity|].
  destruct (Nat.eqb _ 1); [intros H; inversion H; reflexivity|].
  destruct (pos j _); intros H; inversion H; reflexivity.
Qed.

Definition sle_same (j : nat) (st st' : sst) : Prop :=
  (forall k, k <> j -> nthq (s_l st') k = nthq (s_l st) k /\ nthq (s_s st') k = nthq (s_s st) k) /\
  nthq (s_l st') j + nthq (s_s st') j == nthq (s_l st) j + nthq (s_s st) j.

Lemma sle_call_T_conserve islle j T Tm x st o st' o' e :
  (j < length (s_l st))%nat -> length (s_l st) = length (s_s st) ->
  sle_call_T islle j T Tm x (st, o) = ((st', o'), e) -> sle_same j st st'.
Proof.
  intros Lj W H. unfold sle_call_T in H. assert (Lj' : (j < length (s_s st))%nat) by lia.
  destruct (sle_setup islle j (with_sT st T) o) as [o1 [e1|]] eqn:ES.
  - inversion H; subst. split; [intros; split; reflexivity|reflexivity].
  - pose proof (sle_setup_msol _ _ _ _ _ ES) as M0. cbn [with_sT s_l s_s] in M0.
    assert (M : so_msol o1 == nthq (s_l st) j + nthq (s_s st) j) by (rewrite M0; apply nthq_vadd; exact W).
    destruct (so_chem o1).
    + destruct (qltb Tm T); inversion H; subst; split; cbn [s_l s_s with_sT].
      all: try (intros k Hk; rewrite !nth_upd_other by auto; auto).
      all: rewrite !nth_upd_same by assumption; rewrite M; lra.
    + destruct (sle_update (so_idx o1) j (so_msol o1) x (with_sT st T)) as [s2|e2] eqn:EU.
      * inversion H; subst.
        destruct (sle_update_lemma (so_idx o') j (so_msol o') x (with_sT st T) st' Lj W EU) as (_ & _ & A & B & _).
        cbn [with_sT s_l s_s] in *. split; [exact A|]. rewrite B, M. reflexivity.
      * inversion H; subst. split; [intros; split; reflexivity|reflexivity].
Qed.

Lemma sle_call_given_conserve j T x st o st' o' e :
  (j < length (s_l st))%nat -> length (s_l st) = length (s_s st) ->
  sle_call_given j T x (st, o) = ((st', o'), e) -> sle_same j st st'.
Proof.
  intros Lj W H. unfold sle_call_given in H. cbn [so_idx so_msol with_sT s_l s_s] in H.
  destruct (sle_update _ j _ x (with_sT st T)) as [s2|e2] eqn:EU.
  - inversion H; subst.
    destruct (sle_update_lemma _ j _ x (with_sT st T) st' Lj W EU) as (_ & _ & A & B & _). cbn [with_sT s_l s_s] in *.
    split; [exact A|]. rewrite B. lra.
  - inversion H; subst. split; [intros; split; reflexivity|reflexivity].
Qed.

(* ------------------------------------------------------------------ VLE on a persistent object: the index cache is coherent *)
Lemma filter_filter_comm {A} (f g : A -> bool) l : filter f (filter g l) = filter (fun x => g x && f x) l.
Proof.
  induction l as [|x l IH]; simpl; auto. destruct (g x); simpl; [destruct (f x); simpl; congruence|exact IH].
Qed.

Lemma vle_idx_as_filter cf mol :
  vle_idx cf mol = filter (fun c => kind_eqb (kind_at cf c) KVle) (nz_idx mol).
Proof.
  unfold vle_idx, nz_idx. rewrite filter_filter_comm. apply filter_ext. intros c. apply andb_comm.
Qed.

Lemma setup_index_coherent cf o mol : vobj_ok cf o ->
  fst (setup_index cf o mol) = vle_idx cf mol /\ vobj_ok cf (snd (setup_index cf o mol)).
Proof.
  intros OK. unfold setup_index. rewrite vle_idx_as_filter.
  destruct (vo_nz o) as [nz|] eqn:E; cbn [opt_eqb].
  - destruct (list_eqb Nat.eqb nz (nz_idx mol)) eqn:L.
    + cbn [fst snd]. unfold vobj_ok in OK. rewrite E in OK. split; [|unfold vobj_ok; rewrite E; exact OK].
      rewrite OK. f_equal. clear - L. revert L. generalize (nz_idx mol).
      induction nz as [|x a IH]; intros [|y b] H; simpl in H; try discriminate; auto.
      apply andb_prop in H. destruct H as (A & B). apply Nat.eqb_eq in A. f_equal; auto.
    + cbn [fst snd]. split; [reflexivity|]. unfold vobj_ok. cbn [vo_nz vo_idx]. reflexivity.
  - cbn [fst snd]. split; [reflexivity|]. unfold vobj_ok. cbn [vo_nz vo_idx]. reflexivity.
Qed.

(* for every history of setups: the index _setup uses is the one a fresh object would compute *)
Fixpoint setup_history (cf : cfg) (o : vobj) (mols : list vec) : vobj :=
  match mols with [] => o | m :: t => setup_history cf (snd (setup_index cf o m)) t end.
Lemma setup_history_ok cf mols : forall o, vobj_ok cf o -> vobj_ok cf (setup_history cf o mols).
Proof.
  induction mols as [|m t IH]; intros o OK; cbn [setup_history]; auto.
  apply IH. apply setup_index_coherent. exact OK.
Qed.
Lemma vle_index_history_independent cf mols mol :
  fst (setup_index cf (setup_history cf vobj0 mols) mol) = vle_idx cf mol.
Proof. apply setup_index_coherent. apply setup_history_ok. exact I. Qed.

(* ------------------------------------------------------------------ phase_fraction lies in [0, 1] *)
Lemma as_valid_fraction_01 x : 0 <= as_valid_fraction x <= 1.
Proof.
  unfold as_valid_fraction. destruct (qltb x 0) eqn:A; [lra|]. destruct (qltb 1 x) eqn:B; [lra|].
  apply qltb_false in A. apply qltb_false in B. lra.
Qed.
Lemma phase_fraction_range rr zs Ks phi : phase_fraction_m rr zs Ks = Ok phi -> 0 <= phi <= 1.
Proof.
  unfold phase_fraction_m. destruct (Nat.ltb 2 (length zs)); [intros H; inversion H; apply as_valid_fraction_01|].
  destruct (qleb (vmax Ks) c_1p); [intros H; inversion H; lra|].
  destruct (qleb c_1m (vmin Ks)); [intros H; inversion H; lra|].
  destruct zs as [|z1 [|z2 [|? ?]]]; try discriminate.
  destruct Ks as [|K1 [|K2 [|? ?]]]; try discriminate.
  destruct (rr2_closed z1 z2 K1 K2); cbn [bind]; [|discriminate].
  intros H; inversion H. apply as_valid_fraction_01.
Qed.

(* the cached branch of LLE.__call__ with phase_fraction as it is: non-negative flows need only K >= 0 *)
Lemma lle_cached_nonneg_lemma islle rr K molL top mws s s' phi :
  length (l_l s) = length (l_L s) -> (forall k, 0 <= nthq (l_l s) k /\ 0 <= nthq (l_L s) k) ->
  (forall p, 0 <= nthq K p) ->
  lle_cached_phi islle rr K s = Ok phi ->
  lle_call islle (mklo true K phi molL top mws) s = Ok s' ->
  forall k, 0 <= nthq (l_l s') k /\ 0 <= nthq (l_L s') k.
Proof.
  intros W N HK HP H. unfold lle_cached_phi in HP. apply phase_fraction_range in HP.
  eapply lle_nonneg_lemma; eauto. unfold lle_hyp. cbn [lo_cache lo_phi lo_K]. split; [lra|exact HK].
Qed.

(* ---------- the indexer rows the VLE works on, across an in-place widening of the phases ---------- *)

Lemma pos_from_combine : forall l k p,
  kc_get p (combine l (seq k (length l))) = pos_from k p l.
Proof.
  induction l as [|a t IH]; intros k p; cbn; [reflexivity|].
  destruct (Nat.eqb a p); [reflexivity|]. apply IH.
Qed.
Lemma kc_for_pos : forall l p, kc_get p (kc_for l) = pos p l.
Proof. intros. unfold kc_for, pos. apply pos_from_combine. Qed.

Lemma pos_from_lt : forall l k p i, pos_from k p l = Some i -> (k <= i /\ i - k < length l)%nat /\ nth (i - k) l 0%nat = p.
Proof.
  induction l as [|a t IH]; intros k p i H; cbn in H; [discriminate|].
  destruct (Nat.eqb a p) eqn:E.
  - injection H as <-. apply Nat.eqb_eq in E. rewrite Nat.sub_diag. cbn. repeat split; lia || assumption.
  - destruct (IH _ _ _ H) as [[A B] C]. repeat split; try (cbn; lia).
    replace (i - k)%nat with (S (i - S k)) by lia. cbn. exact C.
Qed.

Lemma nth_map_vec : forall (f : nat -> vec) l i, (i < length l)%nat -> nth i (map f l) [] = f (nth i l 0%nat).
Proof.
  intros f l i H. rewrite (nth_indep _ [] (f 0%nat)) by (rewrite map_length; exact H). apply map_nth.
Qed.

(* a coherent indexer hands out, for every key, the row that belongs to that phase *)
Definition ixr_ok (x : ixr) : Prop := forall p, row_of x p = row_phys x p.

Lemma kc_for_ok : forall phs rows, ixr_ok (mkixr phs rows (kc_for phs)).
Proof.
  intros phs rows p. unfold row_of, row_phys. cbn [ix_kc ix_ph ix_rows]. rewrite kc_for_pos.
  destruct (pos p phs); reflexivity.
Qed.

Lemma expand_rows_lemma : forall x all n p,
  ixr_ok (expand_phases x all n) /\
  (forall i, pos p all = Some i ->
     row_of (expand_phases x all n) p =
     match pos p (ix_ph x) with Some j => nth j (ix_rows x) [] | None => repeat 0 n end).
Proof.
  intros x all n p. split; [apply kc_for_ok|].
  intros i Hi. unfold expand_phases. rewrite (kc_for_ok all _ p). unfold row_phys. cbn [ix_ph ix_rows]. rewrite Hi.
  destruct (pos_from_lt all 0 p i Hi) as [[_ B] C]. rewrite Nat.sub_0_r in B, C.
  rewrite (nth_map_vec _ all i B). rewrite C. reflexivity.
Qed.
