(* C03 — lemmas.  Part 1: index arithmetic.  Part 2: VLE._setup.  Part 3: the closure of
   the writes the wrappers perform.  Part 4: every wrapper stays in the closure.
   Part 5: LLE, SLE. *)
From V Require Import Common.NumFacts C03.Model.
Open Scope Q_scope.

(* ------------------------------------------------------------------ part 1 *)
Lemma nthq_map_seq (f : nat -> Q) n k : (k < n)%nat -> nthq (map f (seq 0 n)) k = f k.
Proof.
  intros H. unfold nthq.
  rewrite (nth_indep _ 0 (f 0%nat)) by (rewrite map_length, seq_length; exact H).
  rewrite map_nth. rewrite seq_nth by exact H. reflexivity.
Qed.

Lemma nthq_over (a : vec) k : (length a <= k)%nat -> nthq a k = 0.
Proof. intros H. unfold nthq. apply nth_overflow. exact H. Qed.

Lemma fit_length n v : length (fit n v) = n.
Proof. unfold fit. rewrite map_length, seq_length. reflexivity. Qed.
Lemma nthq_fit n v k : (k < n)%nat -> nthq (fit n v) k = nthq v k.
Proof. intros H. unfold fit. apply nthq_map_seq. exact H. Qed.

Lemma gather_length ix a : length (gather ix a) = length ix.
Proof. apply map_length. Qed.
Lemma nthq_gather ix a p : (p < length ix)%nat -> nthq (gather ix a) p = nthq a (nth p ix 0%nat).
Proof.
  unfold nthq, gather. revert p; induction ix as [|i t IH]; intros [|p] H; simpl in *; try lia; auto.
  apply IH. lia.
Qed.

Lemma pos_from_some k0 c ix p : pos_from k0 c ix = Some p ->
  (k0 <= p)%nat /\ (p - k0 < length ix)%nat /\ nth (p - k0) ix 0%nat = c.
Proof.
  revert k0; induction ix as [|i t IH]; intros k0 H; simpl in H; [discriminate|].
  destruct (Nat.eqb i c) eqn:E.
  - inversion H; subst. apply Nat.eqb_eq in E. rewrite Nat.sub_diag. simpl. split; [lia|]. split; [lia|exact E].
  - apply IH in H. destruct H as (H1 & H2 & H3).
    replace (p - k0)%nat with (S (p - S k0)) by lia. simpl. split; [lia|]. split; [lia|exact H3].
Qed.

Lemma pos_from_none k0 c ix : pos_from k0 c ix = None -> ~ In c ix.
Proof.
  revert k0; induction ix as [|i t IH]; intros k0 H; simpl in *; [tauto|].
  destruct (Nat.eqb i c) eqn:E; [discriminate|].
  apply Nat.eqb_neq in E. intros [A|A]; [congruence|]. exact (IH _ H A).
Qed.

Lemma pos_some c ix p : pos c ix = Some p -> (p < length ix)%nat /\ nth p ix 0%nat = c.
Proof.
  intros H. apply pos_from_some in H. rewrite Nat.sub_0_r in H. tauto.
Qed.
Lemma pos_none c ix : pos c ix = None -> ~ In c ix.
Proof. apply pos_from_none. Qed.
Lemma pos_in c ix p : pos c ix = Some p -> In c ix.
Proof. intros H. apply pos_some in H. destruct H as (H1 & H2). rewrite <- H2. apply nth_In. exact H1. Qed.

Lemma pos_from_nodup k0 ix p : NoDup ix -> (p < length ix)%nat ->
  pos_from k0 (nth p ix 0%nat) ix = Some (k0 + p)%nat.
Proof.
  revert k0 p; induction ix as [|i t IH]; intros k0 p ND H; simpl in *; [lia|].
  inversion ND as [|? ? NI ND']; subst.
  destruct p as [|p].
  - rewrite Nat.eqb_refl. f_equal. lia.
  - destruct (Nat.eqb i (nth p t 0%nat)) eqn:E.
    + apply Nat.eqb_eq in E. exfalso. apply NI. rewrite E. apply nth_In. lia.
    + rewrite IH by (auto; lia). f_equal. lia.
Qed.
Lemma pos_nodup ix p : NoDup ix -> (p < length ix)%nat -> pos (nth p ix 0%nat) ix = Some p.
Proof. intros ND H. unfold pos. rewrite pos_from_nodup by auto. reflexivity. Qed.

Lemma scatter_length ix vals a : length (scatter ix vals a) = length a.
Proof. unfold scatter. rewrite map_length, seq_length. reflexivity. Qed.
Lemma scatter_c_length ix x a : length (scatter_c ix x a) = length a.
Proof. unfold scatter_c. rewrite map_length, seq_length. reflexivity. Qed.

Lemma nthq_scatter ix vals a k : (k < length a)%nat ->
  nthq (scatter ix vals a) k = match pos k ix with Some p => nthq vals p | None => nthq a k end.
Proof. intros H. unfold scatter. rewrite nthq_map_seq by exact H. reflexivity. Qed.
Lemma nthq_scatter_c ix x a k : (k < length a)%nat ->
  nthq (scatter_c ix x a) k = match pos k ix with Some _ => x | None => nthq a k end.
Proof. intros H. unfold scatter_c. rewrite nthq_map_seq by exact H. reflexivity. Qed.

Lemma filter_seq_nodup f n : NoDup (filter f (seq 0 n)).
Proof. apply NoDup_filter. apply seq_NoDup. Qed.
Lemma filter_seq_lt f n i : In i (filter f (seq 0 n)) -> (i < n)%nat /\ f i = true.
Proof. intros H. apply filter_In in H. destruct H as (H1 & H2). apply in_seq in H1. split; [lia|exact H2]. Qed.

Lemma kind_eqb_eq a b : kind_eqb a b = true <-> a = b.
Proof. destruct a, b; simpl; split; intros; try discriminate; auto. Qed.

Lemma vadd_len a b : length a = length b -> length (vadd a b) = length a.
Proof. apply map2_length. Qed.
Lemma vsub_len a b : length a = length b -> length (vsub a b) = length a.
Proof. apply map2_length. Qed.
Lemma vzero_length n : length (vzero n) = n.
Proof. apply repeat_length. Qed.
Lemma nthq_vzero n k : nthq (vzero n) k = 0.
Proof.
  unfold nthq, vzero. revert k; induction n as [|n IH]; intros [|k]; simpl; auto.
Qed.

(* ------------------------------------------------------------------ part 2: setup *)
Definition mol0 (s : vst) (k : nat) : Q := nthq (liq s) k + nthq (vap s) k.
Definition wf (s : vst) : Prop := length (liq s) = length (vap s).

Definition is_light (cf : cfg) (k : nat) := kind_at cf k = KLight.
Definition is_heavy (cf : cfg) (k : nat) := kind_at cf k = KHeavy.

(* flows of gas-only chemicals are in g, those of liquid/solid-only chemicals in l *)
Definition placed (cf : cfg) (s : vst) : Prop :=
  forall k, (k < length (liq s))%nat ->
    (is_light cf k -> nthq (liq s) k == 0) /\ (is_heavy cf k -> nthq (vap s) k == 0).

(* l + g per chemical, the other phases and the shape are those of s0 *)
Definition same_lg (s0 s : vst) : Prop :=
  length (liq s) = length (liq s0) /\ length (vap s) = length (vap s0) /\ oth s = oth s0 /\
  forall k, mol0 s k == mol0 s0 k.

Lemma same_lg_refl s : same_lg s s.
Proof. unfold same_lg. repeat split; auto; try (intros; reflexivity). Qed.
Lemma same_lg_trans a b c : same_lg a b -> same_lg b c -> same_lg a c.
Proof.
  unfold same_lg. intros (A1 & A2 & A3 & A4) (B1 & B2 & B3 & B4). repeat split; try congruence.
  intros k. rewrite B4. apply A4.
Qed.

Definition wfc (c : ctx) (s1 : vst) : Prop :=
  length (molv c) = length (idx c) /\ NoDup (idx c) /\
  (forall i, In i (idx c) -> (i < length (liq s1))%nat) /\
  wf s1 /\
  (forall k p, pos k (idx c) = Some p -> mol0 s1 k == nthq (molv c) p).

Lemma pos_idx_of_some cf kd n k p : pos k (idx_of cf kd n) = Some p -> kind_at cf k = kd /\ (k < n)%nat.
Proof.
  intros H. apply pos_in in H. unfold idx_of in H. apply filter_seq_lt in H.
  destruct H as (H1 & H2). apply kind_eqb_eq in H2. auto.
Qed.
Lemma pos_idx_of_none cf kd n k : pos k (idx_of cf kd n) = None -> (k < n)%nat -> kind_at cf k <> kd.
Proof.
  intros H L E. apply pos_none in H. apply H. unfold idx_of. apply filter_In. split.
  - apply in_seq. lia.
  - apply kind_eqb_eq. exact E.
Qed.

Lemma nthq_vadd' a b k : length a = length b -> nthq (vadd a b) k == nthq a k + nthq b k.
Proof. apply nthq_vadd. Qed.

(* the relocation of light / heavy chemicals done by _setup *)
Definition reloc (cf : cfg) (s : vst) : vst :=
  let n := length (liq s) in
  let mol := vadd (liq s) (vap s) in
  let LNK := idx_of cf KLight n in
  let HNK := idx_of cf KHeavy n in
  with_flows s (scatter HNK (gather HNK mol) (scatter_c LNK 0 (liq s)))
               (scatter LNK (gather LNK mol) (scatter_c HNK 0 (vap s))).

Lemma reloc_spec cf s k : wf s -> (k < length (liq s))%nat ->
  (nthq (liq (reloc cf s)) k == match kind_at cf k with KVle => nthq (liq s) k | KLight => 0 | KHeavy => mol0 s k end) /\
  (nthq (vap (reloc cf s)) k == match kind_at cf k with KVle => nthq (vap s) k | KLight => mol0 s k | KHeavy => 0 end).
Proof.
  intros W L. unfold wf in W. unfold reloc. cbn [liq vap with_flows].
  assert (Lv : (k < length (vap s))%nat) by lia.
  rewrite !nthq_scatter by (rewrite scatter_c_length; auto).
  rewrite !nthq_scatter_c by auto.
  set (n := length (liq s)).
  destruct (pos k (idx_of cf KHeavy n)) eqn:EH; destruct (pos k (idx_of cf KLight n)) eqn:EL.
  - apply pos_idx_of_some in EH. apply pos_idx_of_some in EL. destruct EH as (EH & _), EL as (EL & _). congruence.
  - pose proof (pos_some _ _ _ EH) as (Hp & Hn). apply pos_idx_of_some in EH. destruct EH as (EH & _). rewrite EH.
    rewrite nthq_gather by exact Hp. rewrite Hn. rewrite nthq_vadd by exact W. unfold mol0. split; reflexivity.
  - pose proof (pos_some _ _ _ EL) as (Hp & Hn). apply pos_idx_of_some in EL. destruct EL as (EL & _). rewrite EL.
    rewrite nthq_gather by exact Hp. rewrite Hn. rewrite nthq_vadd by exact W. unfold mol0. split; reflexivity.
  - apply pos_idx_of_none in EH; [|exact L]. apply pos_idx_of_none in EL; [|exact L].
    destruct (kind_at cf k); try congruence. split; reflexivity.
Qed.

Lemma reloc_len cf s : length (liq (reloc cf s)) = length (liq s) /\ length (vap (reloc cf s)) = length (vap s).
Proof. unfold reloc. cbn [liq vap with_flows]. rewrite !scatter_length, !scatter_c_length. auto. Qed.

Lemma reloc_same cf s : wf s -> same_lg s (reloc cf s).
Proof.
  intros W. destruct (reloc_len cf s) as (L1 & L2). unfold same_lg. repeat split; auto.
  intros k. unfold mol0 at 1.
  destruct (Nat.lt_ge_cases k (length (liq s))) as [L|G].
  - destruct (reloc_spec cf s k W L) as (A & B). rewrite A, B. unfold mol0.
    destruct (kind_at cf k); lra.
  - rewrite !nthq_over by (unfold wf in W; lia). unfold mol0. rewrite !nthq_over by (unfold wf in W; lia). reflexivity.
Qed.

Lemma reloc_placed cf s : wf s -> placed cf (reloc cf s).
Proof.
  intros W k L. destruct (reloc_len cf s) as (L1 & L2). rewrite L1 in L.
  destruct (reloc_spec cf s k W L) as (A & B). unfold is_light, is_heavy.
  split; intros E; rewrite E in *; assumption.
Qed.

Lemma reloc_wf cf s : wf s -> wf (reloc cf s).
Proof. intros W. destruct (reloc_len cf s) as (L1 & L2). unfold wf in *. congruence. Qed.

Definition nn (s : vst) : Prop := forall k, 0 <= nthq (liq s) k /\ 0 <= nthq (vap s) k.

Lemma reloc_nn cf s : wf s -> nn s -> nn (reloc cf s).
Proof.
  intros W N k. destruct (reloc_len cf s) as (L1 & L2).
  destruct (Nat.lt_ge_cases k (length (liq s))) as [L|G].
  - destruct (reloc_spec cf s k W L) as (A & B). rewrite A, B. destruct (N k) as (N1 & N2). unfold mol0.
    destruct (kind_at cf k); split; lra.
  - rewrite !nthq_over by (unfold wf in W; lia). split; lra.
Qed.

Lemma vle_idx_props cf mol i : In i (vle_idx cf mol) ->
  (i < length mol)%nat /\ kind_at cf i = KVle /\ ~ nthq mol i == 0.
Proof.
  intros H. unfold vle_idx in H. apply filter_seq_lt in H. destruct H as (H1 & H2).
  apply andb_prop in H2. destruct H2 as (H2 & H3). apply kind_eqb_eq in H2.
  unfold nzb in H3. apply negb_true_iff in H3. apply qzerob_false in H3. auto.
Qed.

(* what a successful _setup establishes *)
Lemma setup_ok cf s s1 c : wf s -> setup cf s = SOk s1 c ->
  s1 = reloc cf s /\ wfc c s1 /\ (forall k, In k (idx c) -> kind_at cf k = KVle) /\
  ~ Fmol c == 0 /\ ~ Fvle c == 0 /\
  (forall p, (p < length (idx c))%nat -> nthq (molv c) p == mol0 s (nth p (idx c) 0%nat)).
Proof.
  intros W H. unfold setup in H.
  destruct (negb (anynz (vadd (liq s) (vap s)))) eqn:E1; [discriminate|].
  fold (reloc cf s) in H.
  change (with_flows s
            (scatter (idx_of cf KHeavy (length (liq s))) (gather (idx_of cf KHeavy (length (liq s))) (vadd (liq s) (vap s)))
               (scatter_c (idx_of cf KLight (length (liq s))) 0 (liq s)))
            (scatter (idx_of cf KLight (length (liq s))) (gather (idx_of cf KLight (length (liq s))) (vadd (liq s) (vap s)))
               (scatter_c (idx_of cf KHeavy (length (liq s))) 0 (vap s)))) with (reloc cf s) in H.
  destruct (negb (anynz (gather (vle_idx cf (vadd (liq s) (vap s))) (vadd (liq s) (vap s))))) eqn:E2; [discriminate|].
  match type of H with (if ?b then _ else _) = _ => destruct b eqn:E3; [discriminate|] end.
  inversion H; subst s1 c; clear H.
  apply orb_false_iff in E3. destruct E3 as (E3 & E4).
  apply qzerob_false in E3. apply qzerob_false in E4.
  set (mol := vadd (liq s) (vap s)) in *.
  assert (Lm : length mol = length (liq s)) by (apply vadd_len; exact W).
  assert (Hm : forall p, (p < length (vle_idx cf mol))%nat ->
             nthq (gather (vle_idx cf mol) mol) p == mol0 s (nth p (vle_idx cf mol) 0%nat)).
  { intros p Hp. rewrite nthq_gather by exact Hp. unfold mol. rewrite nthq_vadd by exact W. reflexivity. }
  split; [reflexivity|]. split; [|split; [|split; [|split]]]; cbn [idx molv Fmol Fvle]; auto.
  - unfold wfc. cbn [idx molv]. split; [apply gather_length|]. split; [apply filter_seq_nodup|].
    destruct (reloc_len cf s) as (L1 & L2).
    split; [|split; [apply reloc_wf; exact W|]].
    + intros i Hi. apply vle_idx_props in Hi. rewrite L1. lia.
    + intros k p Hp. pose proof (pos_some _ _ _ Hp) as (Hp1 & Hp2).
      rewrite Hm by exact Hp1. rewrite Hp2.
      destruct (reloc_same cf s W) as (_ & _ & _ & Q). apply Q.
  - intros k Hk. apply vle_idx_props in Hk. tauto.
Qed.

Lemma setup_noeq cf s s1 : setup cf s = SNoEq s1 -> s1 = s \/ s1 = reloc cf s.
Proof.
  unfold setup. intros H.
  destruct (negb (anynz (vadd (liq s) (vap s)))) eqn:E1; [inversion H; auto|].
  destruct (negb (anynz (gather (vle_idx cf (vadd (liq s) (vap s))) (vadd (liq s) (vap s))))) eqn:E2.
  - inversion H. right. reflexivity.
  - match type of H with (if ?b then _ else _) = _ => destruct b; discriminate end.
Qed.

Lemma setup_noeq_zero cf s : setup cf s = SNoEq s -> wf s -> nn s ->
  (forall k, nthq (liq s) k == 0 /\ nthq (vap s) k == 0) \/ s = reloc cf s.
Proof.
  unfold setup. intros H W N.
  destruct (negb (anynz (vadd (liq s) (vap s)))) eqn:E1.
  - left. intros k. apply negb_true_iff in E1.
    assert (Z : nthq (vadd (liq s) (vap s)) k == 0).
    { destruct (Nat.lt_ge_cases k (length (vadd (liq s) (vap s)))) as [L|G]; [|rewrite nthq_over by exact G; reflexivity].
      unfold anynz in E1.
      assert (A : forall x, In x (vadd (liq s) (vap s)) -> negb (qzerob x) = false).
      { intros x Hx. destruct (negb (qzerob x)) eqn:E; auto.
        assert (existsb (fun x => negb (qzerob x)) (vadd (liq s) (vap s)) = true) by (apply existsb_exists; eauto). congruence. }
      specialize (A (nthq (vadd (liq s) (vap s)) k) (nth_In _ _ L)).
      apply negb_false_iff in A. apply qzerob_true in A. exact A. }
    rewrite nthq_vadd in Z by exact W. destruct (N k). split; lra.
  - destruct (negb (anynz (gather (vle_idx cf (vadd (liq s) (vap s))) (vadd (liq s) (vap s))))) eqn:E2.
    + injection H as H1. right. symmetry. exact H1.
    + match type of H with (if ?b then _ else _) = _ => destruct b; discriminate end.
Qed.

Lemma setup_err cf s e s1 : setup cf s = SErr e s1 -> s1 = reloc cf s.
Proof.
  unfold setup. intros H.
  destruct (negb (anynz (vadd (liq s) (vap s)))) eqn:E1; [discriminate|].
  destruct (negb (anynz (gather (vle_idx cf (vadd (liq s) (vap s))) (vadd (liq s) (vap s))))) eqn:E2; [discriminate|].
  match type of H with (if ?b then _ else _) = _ => destruct b; [|discriminate] end.
  inversion H. reflexivity.
Qed.
