(* C03 — lemmas about ordinary flashes on a VLE object that remembers the mole change of an earlier reactive flash *)
From V Require Import Common.NumFacts C03.Model C03.ModelHist C03.ModelRx C03.Proofs.
Open Scope Q_scope.

(* at every guarded site an ordinary call reads the plain quantity, whatever the object remembers *)
Lemma site_mol_ordinary o c : site_mol false o c = molv c.
Proof. reflexivity. Qed.
Lemma site_F_ordinary o c : site_F false o c = Fvle c.
Proof. reflexivity. Qed.
Lemma solve_v_o_ordinary o orc c T P m : solve_v_o false o orc c T P m = solve_v orc c T P m.
Proof. reflexivity. Qed.
Lemma set_flows_o_ordinary o c v s : set_flows_o false o c v s = set_flows c v s.
Proof. reflexivity. Qed.
Lemma tp_two_phase_ordinary o orc c T P m :
  tp_two_phase_o false o orc c T P m = (let (m', v) := solve_v orc c T P m in mset m' (set_flows c v (ms m'))).
Proof. reflexivity. Qed.

(* the ordinary call does not depend on what the object remembers, and does not change it *)
Lemma vle_used_frame cf orc sp o o' st :
  fst (vle_used cf orc sp o st) = fst (vle_used cf orc sp o' st) /\ snd (vle_used cf orc sp o st) = o.
Proof. split; reflexivity. Qed.

Lemma vle_used_conserve_lemma cf orc sp o st st' o' :
  wf st -> vle_used cf orc sp o st = (VOk st', o') ->
  (forall k, tot st' k == tot st k) /\
  length (liq st') = length (liq st) /\ length (vap st') = length (vap st) /\ oth st' = oth st /\ o' = o.
Proof.
  intros W H. unfold vle_used in H. inversion H as [[Hv Ho]].
  destruct (vle_conserve_lemma cf orc sp st st' W Hv) as (A & B & C & D).
  repeat split; auto.
Qed.

Lemma vle_used_nonneg_lemma cf orc sp o st st' o' :
  wf st -> nn st -> vle_hyp cf orc sp st -> vle_used cf orc sp o st = (VOk st', o') -> nn st'.
Proof.
  intros W N Hy H. unfold vle_used in H. inversion H as [[Hv Ho]].
  exact (vle_nonneg_lemma cf orc sp st st' W N Hy Hv).
Qed.

Lemma vle_used_placed_lemma cf orc sp o st st' o' :
  wf st -> nn st -> vle_used cf orc sp o st = (VOk st', o') ->
  forall k, (k < length (liq st))%nat ->
    (is_light cf k -> nthq (liq st') k == 0 /\ nthq (vap st') k == nthq (liq st) k + nthq (vap st) k) /\
    (is_heavy cf k -> nthq (vap st') k == 0 /\ nthq (liq st') k == nthq (liq st) k + nthq (vap st) k).
Proof.
  intros W N H. unfold vle_used in H. inversion H as [[Hv Ho]].
  exact (vle_placed_lemma cf orc sp st st' W N Hv).
Qed.

(* every ordinary flash of every history -- after any number of reactive calls with any outcome and any outside changes --
   keeps the total of every chemical it found on the stream *)
Definition flash_conserves (e : vst * vres vst) : Prop :=
  wf (fst e) -> forall s', snd e = VOk s' ->
    (forall k, tot s' k == tot (fst e) k) /\ length (liq s') = length (liq (fst e)) /\
    length (vap s') = length (vap (fst e)) /\ oth s' = oth (fst e).

Lemma rrun_conserve_lemma cf hs : forall s o, Forall flash_conserves (rrun cf s o hs).
Proof.
  induction hs as [|h t IH]; intros s o; cbn [rrun]; [constructor|].
  destruct h as [orc sp|s' d|s'].
  - unfold vle_used. constructor.
    + intros W s' E. cbn [fst snd] in *. exact (vle_conserve_lemma cf orc sp s s' W E).
    + apply IH.
  - apply IH.
  - apply IH.
Qed.

(* ... and the same history with every remembered mole change erased gives the same flashes *)
Fixpoint forget (hs : list rop) : list rop :=
  match hs with
  | [] => []
  | RReact s' d :: t => RReact s' None :: forget t
  | h :: t => h :: forget t
  end.
Lemma rrun_forget_lemma cf hs : forall s o o', rrun cf s o hs = rrun cf s o' (forget hs).
Proof.
  induction hs as [|h t IH]; intros s o o'; cbn [rrun forget]; [reflexivity|].
  destruct h as [orc sp|s' d|s']; cbn [rrun].
  - unfold vle_used. f_equal. apply IH.
  - apply IH.
  - apply IH.
Qed.
