(* C03 — executable model of the phase-equilibrium WRAPPERS of thermosteam around
   adversarial solver oracles.  Source modelled (non-reactive calls only, i.e.
   gas_conversion = liquid_conversion = None):
     thermosteam/equilibrium/vle.py   VLE.__call__ (dispatch, NoEquilibrium handlers, the
        retry of set_PS), _setup, set_flows, _solve_v (fixed-point method: clipping),
        _set_thermal_condition_chemical, _set_TV_chemical, _set_PV_chemical,
        _set_PH_chemical/_set_PS_chemical, _set_TH_chemical/_set_TS_chemical, _lever_rule,
        set_Tx/Px/Ty/Py, set_thermal_condition, set_TV, set_PV, set_TH/set_TS,
        set_PH/set_PS, _refresh_K (only whether it raises), _H_hat_err_at_T/P,
        _S_hat_err_at_T/P, _V_err_at_T/P
     thermosteam/equilibrium/lle.py   LLE.get_liquid_mol_data, LLE.__call__ (update=True)
     thermosteam/equilibrium/sle.py   SLE._update_solubility, the given-solubility path and
        the single-chemical T / H branches of SLE.__call__
     thermosteam/_stream.py           Stream.vlle (pooling, alternation, rescaling)
   Oracles (arbitrary; see record [oracle]): VLE._solve_v_fixed_point, flx.IQ_interpolation,
   BubblePoint.solve_Py/Ty, DewPoint.solve_Px/Tx, mixture.xH/xS/H/S/xsolve_T_at_HP/SP,
   Chemical.Psat/Tsat/Tc, bubble/dew point domain limits, LLE solver, phase_fraction,
   SLE._solve_x, flx.fixed_point of vlle.
   Every oracle call consumes one tick of the counter [mk]; oracles may depend on the tick
   (so recorded call sequences of the real solvers are oracles too) and on their arguments.
   No proofs in this file. *)
From V Require Export Common.Num.

(* ---------- errors of the wrappers ---------- *)
Inductive verr :=
| VNoEq        (* thermosteam.exceptions.NoEquilibrium *)
| VRuntime     (* RuntimeError *)
| VNotImpl     (* NotImplementedError *)
| VInfeasible  (* InfeasibleRegion *)
| VAssert      (* AssertionError *)
| VArith       (* FloatingPointError / ZeroDivisionError (np.seterr divide, invalid = raise) *)
| VShape.      (* IndexError: numpy mask / operand shapes do not match *)

Definition verr_eqb (a b : verr) : bool :=
  match a, b with
  | VNoEq, VNoEq | VRuntime, VRuntime | VNotImpl, VNotImpl
  | VInfeasible, VInfeasible | VAssert, VAssert | VArith, VArith | VShape, VShape => true
  | _, _ => false
  end.

(* ---------- chemicals, stream state, setup context ---------- *)
Inductive kind := KVle | KLight | KHeavy.   (* no locked state | locked 'g' | locked 'l'/'s' *)
Definition kind_eqb (a b : kind) : bool :=
  match a, b with KVle, KVle | KLight, KLight | KHeavy, KHeavy => true | _, _ => false end.

Record cfg := mkcfg {
  kinds : list kind;   (* per chemical *)
  nsol : vec;          (* Chemical.N_solutes per chemical (read for heavy ones) *)
  mw : vec             (* chemicals.MW *)
}.

Record vst := mkst {
  liq : vec;           (* imol['l'] *)
  vap : vec;           (* imol['g'] *)
  oth : list vec;      (* every other phase row of the indexer (never written by VLE) *)
  sT : Q; sP : Q       (* thermal_condition *)
}.

Definition with_flows (s : vst) (l v : vec) := mkst l v (oth s) (sT s) (sP s).
Definition with_T (s : vst) (t : Q) := mkst (liq s) (vap s) (oth s) t (sP s).
Definition with_P (s : vst) (p : Q) := mkst (liq s) (vap s) (oth s) (sT s) p.

(* machine state: the stream and the oracle tick *)
Record mach := mkm { ms : vst; mk : nat }.
Definition tick (m : mach) := mkm (ms m) (S (mk m)).
Definition mset (m : mach) (s : vst) := mkm s (mk m).

Inductive vres (A : Type) := VOk (a : A) | VErr (e : verr) (m : mach).
Arguments VOk {A} a. Arguments VErr {A} e m.

Record ctx := mkctx {
  idx : list nat;      (* _index *)
  molv : vec;          (* _mol_vle *)
  Fmass : Q; Flight : Q; Fheavy : Q; Fvle : Q; Fmol : Q;
  cN : nat             (* _N *)
}.

Record oracle := mkorc {
  o_Tc : Q;                               (* _chemical.Tc *)
  o_Psat : Q -> Q;                        (* _chemical.Psat(T) *)
  o_Tsat : Q -> Q;                        (* _chemical.Tsat(P) *)
  o_lim_light : Q;                        (* bubble_point.Pmax (T,V) / Tmin (P,V; P,H; P,S) *)
  o_lim_heavy : Q;                        (* bubble_point.Pmin (T,V; T,H; T,S) / Tmax (P,V), dew_point.Tmax (P,H; P,S) *)
  o_bubble : nat -> Q -> Q * vec;         (* BubblePoint.solve_Py(z, T) / solve_Ty(z, P) at this tick, with the T or P it is passed *)
  o_dew : nat -> Q -> Q * vec;            (* DewPoint.solve_Px(z, T) / solve_Tx(z, P) *)
  o_v : nat -> Q -> Q -> vec;             (* raw result of VLE._solve_v_fixed_point(.., T, P, ..) at this tick *)
  o_iq : nat -> list Q * Q;               (* flx.IQ_interpolation: evaluation points, returned value *)
  o_xH : nat -> vst -> Q -> Q -> Q;       (* mixture.xH / xS (phase_data, T, P) *)
  o_Hp : nat -> bool -> vec -> Q -> Q -> Q; (* mixture.H / S (gas?, mol, T, P) *)
  o_solveT : nat -> vst -> Q -> Q -> Q -> Q (* mixture.xsolve_T_at_HP / SP (phase_data, H, T, P) *)
}.

(* ---------- exact values of the float literals in the source ---------- *)
Definition c_tol : Q := 1152921504606847 # 1152921504606846976.        (* 1e-3 *)
Definition c_999 : Q := 8998192055486251 # 9007199254740992.           (* 1. - 1e-3 *)
Definition c_01 : Q := 3602879701896397 # 36028797018963968.           (* 0.1 *)
Definition c_09 : Q := 8106479329266893 # 9007199254740992.            (* 0.9 *)
Definition c_lo : Q := -5902958103587057 # 590295810358705651712.      (* -0.00001 *)
Definition c_hi : Q := 2251822331683385 # 2251799813685248.            (* 1.00001 *)

(* ---------- index arithmetic ---------- *)
Definition fit (n : nat) (v : vec) : vec := map (nthq v) (seq 0 n).
Definition gather (ix : list nat) (a : vec) : vec := map (nthq a) ix.

Fixpoint pos_from (k : nat) (c : nat) (ix : list nat) : option nat :=
  match ix with
  | [] => None
  | i :: t => if Nat.eqb i c then Some k else pos_from (S k) c t
  end.
Definition pos (c : nat) (ix : list nat) : option nat := pos_from 0 c ix.

(* a[ix] = vals  (ix has no repetitions: it is a filter of range(n)) *)
Definition scatter (ix : list nat) (vals : vec) (a : vec) : vec :=
  map (fun c => match pos c ix with Some k => nthq vals k | None => nthq a c end)
      (seq 0 (length a)).
(* a[ix] = x *)
Definition scatter_c (ix : list nat) (x : Q) (a : vec) : vec :=
  map (fun c => match pos c ix with Some _ => x | None => nthq a c end) (seq 0 (length a)).

Definition anynz (v : vec) : bool := existsb (fun x => negb (qzerob x)) v.
Definition nzb (x : Q) : bool := negb (qzerob x).     (* truthiness of a float *)

Definition kind_at (cf : cfg) (c : nat) : kind := nth c (kinds cf) KVle.
Definition idx_of (cf : cfg) (k : kind) (n : nat) : list nat :=
  filter (fun c => kind_eqb (kind_at cf c) k) (seq 0 n).
(* chemicals.get_vle_indices(nonzero) *)
Definition vle_idx (cf : cfg) (mol : vec) : list nat :=
  filter (fun c => kind_eqb (kind_at cf c) KVle && nzb (nthq mol c)) (seq 0 (length mol)).

(* ---------- VLE._setup ---------- *)
Inductive sres := SOk (s : vst) (c : ctx) | SNoEq (s : vst) | SErr (e : verr) (s : vst).

Definition setup (cf : cfg) (s : vst) : sres :=
  let n := length (liq s) in
  let mol := vadd (liq s) (vap s) in
  if negb (anynz mol) then SNoEq s else
  let ix := vle_idx cf mol in
  let LNK := idx_of cf KLight n in
  let HNK := idx_of cf KHeavy n in
  let fmass := vdot (mw cf) mol in
  let mv := gather ix mol in
  let light_mol := gather LNK mol in
  let heavy_mol := gather HNK mol in
  let vap1 := scatter LNK light_mol (scatter_c HNK 0 (vap s)) in
  let liq1 := scatter HNK heavy_mol (scatter_c LNK 0 (liq s)) in
  let s1 := with_flows s liq1 vap1 in
  if negb (anynz mv) then SNoEq s1 else
  let fl := qsum light_mol in
  let fh := qsum (vmul heavy_mol (gather HNK (nsol cf))) in
  let fv := qsum mv in
  let fm := fv + fl + fh in
  if qzerob fm || qzerob fv then SErr VArith s1 else
  let nn := (length ix + (if qltb 0 (fl / fm) then 1 else 0) + (if qltb 0 (fh / fm) then 1 else 0))%nat in
  SOk s1 (mkctx ix mv fmass fl fh fv fm nn).

(* ---------- writes at _index ---------- *)
Definition write2 (c : ctx) (lv vv : vec) (s : vst) : vst :=
  with_flows s (scatter (idx c) lv (liq s)) (scatter (idx c) vv (vap s)).
Definition zeros (c : ctx) : vec := vzero (length (idx c)).
Definition all_vap (c : ctx) (s : vst) : vst := write2 c (zeros c) (molv c) s.
Definition all_liq (c : ctx) (s : vst) : vst := write2 c (molv c) (zeros c) s.
(* set_flows(vapor_mol, liquid_mol, index, v, mol_vle) *)
Definition set_flows (c : ctx) (v : vec) (s : vst) : vst :=
  let v := fit (length (molv c)) v in      (* shape contract of numpy fancy assignment *)
  write2 c (vsub (molv c) v) v s.

(* _solve_v, fixed-point method: mask = v > mol; v[mask] = mol[mask]; v[v < 0] = 0 *)
Definition clip1 (v m : Q) : Q :=
  let v1 := if qltb m v then m else v in if qltb v1 0 then 0 else v1.
Definition clipv (raw mol : vec) : vec := map2 clip1 (fit (length mol) raw) mol.
Definition solve_v (orc : oracle) (c : ctx) (T P : Q) (m : mach) : mach * vec :=
  (tick m, clipv (o_v orc (mk m) T P) (molv c)).

(* mask = a > mol; a[mask] = mol[mask] *)
Definition capv (a mol : vec) : vec := map2 (fun x m => if qltb m x then m else x) a mol.

(* _refresh_K: only its exception matters to the flows (y = v / v.sum() with
   np.seterr(divide='raise', invalid='raise')); the K it stores feeds the solver oracle *)
Definition refresh_K_sum (c : ctx) (V : Q) (yb xd : vec) : Q :=
  let F := Fvle c in
  let L := 1 - V in
  let z := vdivs (molv c) F in
  let n := length (molv c) in
  let vb := map2 (fun zk yk => (V * zk + L * yk) * V * F) z (fit n yb) in
  let vd := map2 (fun zk xk => (zk - L * (L * zk + V * xk)) * F) z (fit n xd) in
  qsum (map2 (fun a b => L * a + V * b) vb vd).
Definition refresh_K_raises (c : ctx) (V : Q) (yb xd : vec) : bool :=
  qzerob (refresh_K_sum c V yb xd).

(* oracle calls *)
Definition call_xH (orc : oracle) (m : mach) (T P : Q) : mach * Q :=
  (tick m, o_xH orc (mk m) (ms m) T P).
Definition call_Hp (orc : oracle) (m : mach) (gas : bool) (mol : vec) (T P : Q) : mach * Q :=
  (tick m, o_Hp orc (mk m) gas mol T P).
Definition call_solveT (orc : oracle) (m : mach) (H T P : Q) : mach * Q :=
  (tick m, o_solveT orc (mk m) (ms m) H T P).
(* the composition a bubble / dew point solver returns has the length of the composition it is given: self._z (the
   chemicals in equilibrium) in the flashes, the user's x / y in set_Tx / set_Px / set_Ty / set_Py *)
Definition call_bubble_n (orc : oracle) (n : nat) (arg : Q) (m : mach) : mach * (Q * vec) :=
  (tick m, let (a, y) := o_bubble orc (mk m) arg in (a, fit n y)).
Definition call_dew_n (orc : oracle) (n : nat) (arg : Q) (m : mach) : mach * (Q * vec) :=
  (tick m, let (a, x) := o_dew orc (mk m) arg in (a, fit n x)).
Definition call_bubble (orc : oracle) (c : ctx) (arg : Q) (m : mach) : mach * (Q * vec) :=
  call_bubble_n orc (length (idx c)) arg m.
Definition call_dew (orc : oracle) (c : ctx) (arg : Q) (m : mach) : mach * (Q * vec) :=
  call_dew_n orc (length (idx c)) arg m.

(* ---------- single-chemical branches ---------- *)
(* _set_thermal_condition_chemical *)
Definition tp_chemical (orc : oracle) (c : ctx) (s : vst) (T P : Q) : vst :=
  if qleb (o_Tc orc) T then all_vap c s
  else
    let Psat := o_Psat orc T in
    if qltb P (Psat - c_tol) then all_vap c s
    else if qltb (Psat + c_tol) P then all_liq c s
    else s.

(* vapor[index] = V * mol_vle; liquid[index] = mol_vle - vapor[index] *)
Definition split_V (c : ctx) (V : Q) (s : vst) : vst :=
  set_flows c (vscale V (molv c)) s.

(* _set_TV_chemical (after pending_fixes/C04_1: Psat(T) goes to the pressure; before the fix it
   was assigned to thermal_condition.T) *)
Definition tv_chemical (orc : oracle) (c : ctx) (s : vst) (T V : Q) : vst :=
  split_V c V (with_P s (o_Psat orc T)).
(* _set_PV_chemical *)
Definition pv_chemical (orc : oracle) (c : ctx) (s : vst) (P V : Q) : vst :=
  split_V c V (with_T s (o_Tsat orc P)).

(* _set_PH_chemical / _set_PS_chemical *)
Definition ph_chemical (orc : oracle) (c : ctx) (m : mach) (P H : Q) : mach :=
  let T := o_Tsat orc P in
  let m := mset m (all_vap c (with_T (ms m) T)) in
  let (m, H_dew) := call_xH orc m T P in
  if qleb H_dew H then
    let (m, T') := call_solveT orc m H T P in mset m (with_T (ms m) T')
  else
    let m := mset m (all_liq c (ms m)) in
    let (m, H_bub) := call_xH orc m T P in
    if qleb H H_bub then
      let (m, T') := call_solveT orc m H T P in mset m (with_T (ms m) T')
    else
      let V := (H - H_bub) / (H_dew - H_bub) in
      mset m (split_V c V (ms m)).

(* _set_TH_chemical / _set_TS_chemical (after pending_fixes/C04_3: the specified T is stored
   first; before the fix thermal_condition.T was never written on this path) *)
Definition th_chemical (orc : oracle) (c : ctx) (m : mach) (T H : Q) : vres mach :=
  let P := o_Psat orc T in
  let m := mset m (all_vap c (with_P (with_T (ms m) T) P)) in
  let (m, H_dew) := call_xH orc m T P in
  if qleb H_dew H then VErr VNotImpl m
  else
    let m := mset m (all_liq c (ms m)) in
    let (m, H_bub) := call_xH orc m T P in
    if qleb H H_bub then VErr VNotImpl m
    else
      let V := (H - H_bub) / (H_dew - H_bub) in
      VOk (mset m (split_V c V (ms m))).

(* ---------- _lever_rule and the x / y specifications ---------- *)
Definition lever (c : ctx) (x y : vec) (m : mach) : vres mach :=
  let z0 := nthq (molv c) 0 / Fmol c in
  let den := nthq y 0 - nthq x 0 in
  if qzerob den then VErr VArith m else
  let sf := (z0 - nthq x 0) / den in
  if negb (qltb c_lo sf && qltb sf c_hi) then VErr VInfeasible m else
  let sf := if qltb 1 sf then 1 else if qltb sf 0 then 0 else sf in
  (* a y= composition whose length is not the number of chemicals in equilibrium (N == 2 can also be one volatile chemical
     plus non-condensable gas / solute): `v[mask] = mol_vle[mask]` raises IndexError *)
  if negb (Nat.eqb (length y) (length (idx c))) then VErr VShape m else
  (* v = F_mol * split_frac * y;  mask = v > mol_vle;  v[mask] = mol_vle[mask]   (clip added by /repo dd55412) *)
  let v := capv (vscale (Fmol c * sf) (fit (length (idx c)) y)) (molv c) in
  VOk (mset m (set_flows c v (ms m))).

(* set_Tx (bubble = true, spec_T = true), set_Px, set_Ty, set_Py (after pending_fixes/C04_2: the
   specified member [sv] of the pair is stored next to the solved one; before the fix it was not) *)
Definition set_xy (cf : cfg) (orc : oracle) (bubble specT : bool) (sv : Q) (comp : vec) (m : mach) : vres mach :=
  match setup cf (ms m) with
  | SErr e s => VErr e (mset m s)
  | SNoEq s => VErr VNoEq (mset m s)
  | SOk s c =>
    let m := mset m s in
    if negb (Nat.eqb (cN c) 2) then VErr VAssert m else
    let (m, r) := if bubble then call_bubble_n orc (length comp) sv m else call_dew_n orc (length comp) sv m in
    let (a, other) := r in
    let m := mset m (if specT then with_T (with_P (ms m) a) sv else with_P (with_T (ms m) a) sv) in
    if bubble then lever c comp other m else lever c other comp m
  end.

(* ---------- set_thermal_condition ---------- *)
Definition set_TP (cf : cfg) (orc : oracle) (T P : Q) (m : mach) : vres mach :=
  match setup cf (ms m) with
  | SErr e s => VErr e (mset m s)
  | SNoEq s => VErr VNoEq (mset m s)
  | SOk s c =>
    let m := mset m (with_P (with_T s T) P) in
    if Nat.eqb (cN c) 0 then VOk m else
    if Nat.eqb (cN c) 1 then VOk (mset m (tp_chemical orc c (ms m) T P)) else
    let (m, d) := call_dew orc c T m in
    let (P_dew, x_dew) := d in
    if qleb P P_dew && negb (nzb (Fheavy c)) then VOk (mset m (all_vap c (ms m))) else
    let (m, b) := call_bubble orc c T m in
    let (P_bub, y_bub) := b in
    if qleb P_bub P && negb (nzb (Flight c)) then VOk (mset m (all_liq c (ms m))) else
    let dP := P_bub - P_dew in
    let V := if qltb 1 dP then (P - P_dew) / dP else 1 # 2 in
    if refresh_K_raises c V y_bub x_dew then VErr VArith m else
    let (m, v) := solve_v orc c T P m in
    VOk (mset m (set_flows c v (ms m)))
  end.

(* the evaluations a bracketing solver makes of _V_err_at_P / _V_err_at_T:
   each one is a _solve_v call whose result stays in self._v *)
Fixpoint evals_v (orc : oracle) (c : ctx) (isT : bool) (a : Q) (pts : list Q) (m : mach) (vlast : vec) : mach * vec :=
  match pts with
  | [] => (m, vlast)
  | x :: t => let (m, v) := (if isT then solve_v orc c a x m else solve_v orc c x a m) in evals_v orc c isT a t m v
  end.

(* set_TV (isT = true) and set_PV (isT = false): the part after the N = 0 / N = 1 tests.
   [a] is the specified T or P; the other member of the pair is what is solved for. *)
Definition adj_V (c : ctx) (V : Q) : Q :=
  let V := if nzb (Fheavy c) && qeqb V 1 then c_999 else V in
  if nzb (Flight c) && qeqb V 0 then c_tol else V.

Definition set_other (isT : bool) (s : vst) (x : Q) : vst :=
  if isT then with_P s x else with_T s x.

Definition set_XV_multi (orc : oracle) (c : ctx) (isT : bool) (V0 : Q) (m : mach) : vres mach :=
  let V := adj_V c V0 in
  let a := if isT then sT (ms m) else sP (ms m) in      (* the specified member: self._T (T,V) / self._P (P,V) *)
  let sv := fun (x : Q) (m : mach) => if isT then solve_v orc c a x m else solve_v orc c x a m in
  if qeqb V 1 && (isT || negb (nzb (Fheavy c))) then
    let (m, d) := call_dew orc c a m in
    VOk (mset m (set_other isT (all_vap c (ms m)) (fst d)))
  else if qeqb V 0 && (isT || negb (nzb (Flight c))) then
    let (m, b) := call_bubble orc c a m in
    VOk (mset m (set_other isT (all_liq c (ms m)) (fst b)))
  else
    let (m, b) := call_bubble orc c a m in
    let (m, d) := call_dew orc c a m in
    let (X_bub, y_bub) := b in
    let (X_dew, x_dew) := d in
    if refresh_K_raises c V y_bub x_dew then VErr VArith m else
    let X_bub := if nzb (Flight c) then c_01 * o_lim_light orc + c_09 * X_bub else X_bub in
    let X_dew := if nzb (Fheavy c) then c_01 * o_lim_heavy orc + c_09 * X_dew else X_dew in
    let (m, vb) := sv X_bub m in
    let V_bub := qsum vb / Fvle c in
    let '(m, v, X) :=
      if qltb V V_bub then
        (m, capv (vscale (Fmol c * V) y_bub) (molv c), X_bub)
      else
        let (m, vd) := sv X_dew m in
        let V_dew := qsum vd / Fvle c in
        if qltb V_dew V then
          let l := capv (vscale (Fmol c * (1 - V)) x_dew) (molv c) in
          (m, vsub (molv c) l, X_dew)
        else
          let (pts, X) := o_iq orc (mk m) in
          let (m, v) := evals_v orc c isT a pts (tick m) vd in
          (m, v, X) in
    let m := mset m (set_flows c v (set_other isT (ms m) X)) in
    (* try: self._H_hat = mixture.xH(...) / F_mass; except: pass *)
    VOk (tick m).

Definition set_TV (cf : cfg) (orc : oracle) (T V : Q) (m : mach) : vres mach :=
  match setup cf (ms m) with
  | SErr e s => VErr e (mset m s)
  | SNoEq s => VErr VNoEq (mset m s)
  | SOk s c =>
    let m := mset m (with_T s T) in
    if Nat.eqb (cN c) 0 then VErr VRuntime m else
    if Nat.eqb (cN c) 1 then VOk (mset m (tv_chemical orc c (ms m) T V)) else
    set_XV_multi orc c true V m
  end.

Definition set_PV (cf : cfg) (orc : oracle) (P V : Q) (m : mach) : vres mach :=
  match setup cf (ms m) with
  | SErr e s => VErr e (mset m s)
  | SNoEq s => VErr VNoEq (mset m s)
  | SOk s c =>
    let m := mset m (with_P s P) in
    if Nat.eqb (cN c) 0 then VErr VRuntime m else
    if Nat.eqb (cN c) 1 then VOk (mset m (pv_chemical orc c (ms m) P V)) else
    set_XV_multi orc c false V m
  end.

(* one evaluation of _H_hat_err_at_T/P or _S_hat_err_at_T/P: _solve_v, set_flows, xH;
   returns H_hat = xH / F_mass *)
Definition herr_eval (orc : oracle) (c : ctx) (T P : Q) (m : mach) : mach * Q :=
  let (m, v) := solve_v orc c T P m in
  let m := mset m (set_flows c v (ms m)) in
  let (m, h) := call_xH orc m T P in
  (m, h / Fmass c).

Fixpoint evals_h (orc : oracle) (c : ctx) (isT : bool) (fixedX : Q) (pts : list Q) (m : mach) : mach :=
  match pts with
  | [] => m
  | x :: t =>
    let (m, _) := if isT then herr_eval orc c fixedX x m else herr_eval orc c x fixedX m in
    evals_h orc c isT fixedX t m
  end.

(* set_TH / set_TS *)
Definition set_TH (cf : cfg) (orc : oracle) (T H : Q) (m : mach) : vres mach :=
  match setup cf (ms m) with
  | SErr e s => VErr e (mset m s)
  | SNoEq s => VErr VNoEq (mset m s)
  | SOk s c =>
    let m := mset m s in
    if Nat.eqb (cN c) 0 then VErr VRuntime m else
    if Nat.eqb (cN c) 1 then th_chemical orc c m T H else
    let (m, d) := call_dew orc c T m in
    let (P_dew, x_dew) := d in
    let P_dew := if nzb (Fheavy c) then (1#2) * P_dew + (1#2) * o_lim_heavy orc else P_dew in
    let m := mset m (all_vap c (ms m)) in
    let (m, H_dew) := call_xH orc m T P_dew in
    if qleb 0 (H - H_dew) then VErr VNotImpl m else
    let (m, b) := call_bubble orc c T m in
    let (P_bub, y_bub) := b in
    let P_bub := if nzb (Flight c) then 2 * P_bub else P_bub in
    let m := mset m (all_liq c (ms m)) in
    let (m, H_bub) := call_xH orc m T P_bub in
    if qleb (H - H_bub) 0 then VErr VNotImpl m else
    let V := (H - H_bub) / (H_dew - H_bub) in
    if refresh_K_raises c V y_bub x_dew then VErr VArith m else
    if qzerob (Fmass c) then VErr VArith m else
    let (pts, Px) := o_iq orc (mk m) in
    let m := evals_h orc c true T pts (tick m) in
    VOk (mset m (with_T (with_P (ms m) Px) T))
  end.

(* the vaporise / condense correction at the end of set_PH / set_PS *)
Definition only_idx (c : ctx) (a : vec) : vec :=
  map (fun k => match pos k (idx c) with Some _ => nthq a k | None => 0 end) (seq 0 (length a)).

Definition clamp_f (f : Q) : Q := if qltb f 0 then 0 else if qltb 0 f then (if qltb 1 f then 1 else f) else 0.

Definition correct (orc : oracle) (c : ctx) (T P H : Q) (m : mach) : mach :=
  let m := mset m (with_T (ms m) T) in
  let mol_liq := only_idx c (liq (ms m)) in
  let mol_gas := only_idx c (vap (ms m)) in
  let (m, H_gas) := call_Hp orc m true mol_gas T P in
  let (m, H_liq) := call_Hp orc m false mol_liq T P in
  let (m, H_cur) := call_xH orc m T P in
  let '(m, f) :=
    if qltb H H_cur then
      let (m, Hl) := call_Hp orc m false mol_gas T P in
      let H_cond := Hl - H_gas in
      if qzerob H_cond then (m, 0) else
      let f := clamp_f ((H - H_cur) / H_cond) in
      if qltb 0 f then
        let cond := vscale f (gather (idx c) mol_gas) in
        (mset m (write2 c (vadd (gather (idx c) (liq (ms m))) cond)
                          (vsub (gather (idx c) (vap (ms m))) cond) (ms m)), f)
      else (m, f)
    else
      let (m, Hg) := call_Hp orc m true mol_liq T P in
      let H_vap := Hg - H_liq in
      if qzerob H_vap then (m, 0) else
      let f := clamp_f ((H - H_cur) / H_vap) in
      if qltb 0 f then
        let vapd := vscale f (gather (idx c) mol_liq) in
        (mset m (write2 c (vsub (gather (idx c) (liq (ms m))) vapd)
                          (vadd (gather (idx c) (vap (ms m))) vapd) (ms m)), f)
      else (m, f) in
  if qeqb f 0 || qeqb f 1 then
    let (m, T') := call_solveT orc m H T P in mset m (with_T (ms m) T')
  else m.

(* set_PH (ent = false) and set_PS (ent = true; it evaluates _S_hat_err_at_T(T_bubble) twice and
   has no abs() in the guess of V) *)
Definition set_PH (cf : cfg) (orc : oracle) (ent : bool) (P H : Q) (m : mach) : vres mach :=
  match setup cf (ms m) with
  | SErr e s => VErr e (mset m s)
  | SNoEq s => VErr VNoEq (mset m s)
  | SOk s c =>
    let m := mset m (with_P s P) in
    if Nat.eqb (cN c) 0 then
      let (m, T') := call_solveT orc m H (sT (ms m)) P in VOk (mset m (with_T (ms m) T'))
    else if Nat.eqb (cN c) 1 then VOk (ph_chemical orc c m P H) else
    let (m, b) := call_bubble orc c P m in
    let (T_bub, y_bub) := b in
    let T_bub := if nzb (Flight c) then c_09 * T_bub + c_01 * o_lim_light orc else T_bub in
    let m := mset m (all_liq c (ms m)) in
    let (m, H_bub) := call_xH orc m T_bub P in
    let dH_bub := H - H_bub in
    if qleb dH_bub 0 then
      let (m, T') := call_solveT orc m H T_bub P in VOk (mset m (with_T (ms m) T'))
    else
    let (m, d) := call_dew orc c P m in
    let (T_dew, x_dew) := d in
    let '(T_dew, T_bub) := if qleb T_dew T_bub then (T_bub + (1#2), T_dew - (1#2)) else (T_dew, T_bub) in
    let T_dew := if nzb (Fheavy c) then c_09 * T_dew + c_01 * o_lim_heavy orc else T_dew in
    let m := mset m (all_vap c (ms m)) in
    let (m, H_dew) := call_xH orc m T_dew P in
    let dH_dew := H - H_dew in
    if qleb 0 dH_dew then
      let (m, T') := call_solveT orc m H T_dew P in VOk (mset m (with_T (ms m) T'))
    else
    let V0 := dH_bub / (H_dew - H_bub) in
    let V := if ent then V0 else Qabs V0 in
    if refresh_K_raises c V y_bub x_dew then VErr VArith m else
    if qzerob (Fmass c) then VErr VArith m else
    let H_hat := H / Fmass c in
    let m := if ent then fst (herr_eval orc c T_bub P m) else m in
    let (m, hb) := herr_eval orc c T_bub P m in
    let '(m, T) :=
      if qltb H_hat hb then (m, T_bub)
      else
        let (m, hd) := herr_eval orc c T_dew P m in
        if qltb hd H_hat then (m, T_dew)
        else
          let (pts, Tx) := o_iq orc (mk m) in
          (evals_h orc c false P pts (tick m), Tx) in
    VOk (correct orc c T P H m)
  end.

(* ---------- VLE.__call__ ---------- *)
Inductive spec :=
| SpTP (T P : Q) | SpTV (T V : Q) | SpTH (T H : Q) | SpTS (T Sv : Q)
| SpTx (T : Q) (x : vec) | SpTy (T : Q) (y : vec)
| SpPV (P V : Q) | SpPH (P H : Q) | SpPS (P Sv : Q)
| SpPx (P : Q) (x : vec) | SpPy (P : Q) (y : vec).

(* except NoEquilibrium: write the specified member(s) and return normally *)
Definition catch_noeq (r : vres mach) (f : vst -> vst) : vres mach :=
  match r with
  | VErr VNoEq m => VOk (mset m (f (ms m)))
  | r => r
  end.

Definition vle_call (cf : cfg) (orc : oracle) (sp : spec) (m : mach) : vres mach :=
  match sp with
  | SpTP T P => catch_noeq (set_TP cf orc T P m) (fun s => with_P (with_T s T) P)
  | SpTV T V => catch_noeq (set_TV cf orc T V m) (fun s => with_T s T)
  | SpTH T H => set_TH cf orc T H m
  | SpTS T Sv => set_TH cf orc T Sv m
  | SpTx T x => set_xy cf orc true true T x m
  | SpTy T y => set_xy cf orc false true T y m
  | SpPV P V => catch_noeq (set_PV cf orc P V m) (fun s => with_P s P)
  | SpPH P H => catch_noeq (set_PH cf orc false P H m) (fun s => with_P s P)
  | SpPS P Sv =>
    match set_PH cf orc true P Sv m with
    | VOk m' => VOk m'
    | VErr _ m1 => catch_noeq (set_PH cf orc true P Sv m1) (fun s => with_P s P)
    end
  | SpPx P x => set_xy cf orc true false P x m
  | SpPy P y => set_xy cf orc false false P y m
  end.

Definition vle (cf : cfg) (orc : oracle) (sp : spec) (s : vst) : vres vst :=
  match vle_call cf orc sp (mkm s 0) with
  | VOk m => VOk (ms m)
  | VErr e m => VErr e m
  end.

(* per-chemical total over all phases *)
Definition tot (s : vst) (c : nat) : Q :=
  nthq (liq s) c + nthq (vap s) c + qsum (map (fun r => nthq r c) (oth s)).

(* ---------- LLE.__call__ (update=True) write-back ---------- *)
Record lst := mklst { l_l : vec; l_L : vec }.    (* imol['l'], imol['L'] *)

Record lle_oracle := mklo {
  lo_cache : bool;          (* the use_cache test succeeded (C15 owns that test) *)
  lo_K : vec;               (* cached self._K *)
  lo_phi : Q;               (* phase_fraction(z, K, phi) *)
  lo_molL : vec;            (* solve_lle_liquid_mol(z, T, ...) *)
  lo_top : option nat;      (* index of top_chemical in the package, if given *)
  lo_mw : vec               (* chemicals.MW *)
}.

(* chemicals.get_lle_indices(mol.nonzero_keys()) *)
Definition lle_idx (islle : list bool) (mol : vec) : list nat :=
  filter (fun c => nth c islle false && nzb (nthq mol c)) (seq 0 (length mol)).

Definition lle_call (islle : list bool) (o : lle_oracle) (s : lst) : res lst :=
  let pooled := vadd (l_l s) (l_L s) in                 (* imol['L'] = imol['l'] + imol['L'] *)
  let zero := vzero (length (l_l s)) in                 (* imol['l'] = 0 *)
  let ix := lle_idx islle pooled in
  let mol := gather ix pooled in
  let F := qsum mol in
  if nzb F && Nat.ltb 1 (length ix) then
    let z := vdivs mol F in
    let n := length ix in
    do lL <-
      (if lo_cache o then
         let K := fit n (lo_K o) in
         let phi := lo_phi o in
         if qleb 1 phi then Ok (z, vscale 0 z)
         else
           if existsb (fun k => qzerob (phi * k + (1 - phi))) K then Err EZeroDiv
           else
             let y := map2 (fun zk k => zk * k / (phi * k + (1 - phi))) z K in
             let ml := vscale phi y in
             Ok (ml, vsub z ml)
       else
         let mL := fit n (lo_molL o) in
         Ok (vsub z mL, mL));
    let (ml, mL) := lL : vec * vec in
    let swap :=
      match lo_top o with
      | None => false
      | Some t =>
        match pos t ix with
        | None => false                                  (* top_chemical not among the LLE chemicals: pass *)
        | Some p =>
          let MW := gather ix (lo_mw o) in
          let mass_L := vmul mL MW in
          let mass_l := vmul ml MW in
          let ML := qsum mass_L in
          let Ml := qsum mass_l in
          if nzb ML && nzb Ml then qltb (nthq mass_L p / ML) (nthq mass_l p / Ml)
          else nzb Ml
        end
      end in
    let (ml, mL) := if swap then (mL, ml) else (ml, mL) in
    Ok (mklst (scatter ix (vscale F ml) zero) (scatter ix (vscale F mL) pooled))
  else Ok (mklst zero pooled).

(* ---------- SLE ---------- *)
Record sst := mksst { s_l : vec; s_s : vec; s_T : Q }.   (* imol['l'], imol['s'], T *)

(* SLE._update_solubility(x); [ix] is self._index ([range(n)] on the given-solubility path),
   [msol] is self._mol_solute *)
Definition sle_update (ix : list nat) (j : nat) (msol x : Q) (s : sst) : res sst :=
  let F := qsum (gather ix (s_l s)) - nthq (s_l s) j in
  if qzerob (F + msol) then Err EZeroDiv else
  let xmax := msol / (F + msol) in
  if qltb x 0 then Ok (mksst (upd (s_l s) j 0) (upd (s_s s) j msol) (s_T s))
  else if qleb xmax x then Ok (mksst (upd (s_l s) j msol) (upd (s_s s) j 0) (s_T s))
  else if qzerob (1 - x) then Err EZeroDiv
  else
    let ml := F * x / (1 - x) in
    Ok (mksst (upd (s_l s) j ml) (upd (s_s s) j (msol - ml)) (s_T s)).

(* SLE.__call__(solute, T=T, solubility=x) on an object that has been set up before *)
Definition sle_given (j : nat) (T x : Q) (s : sst) : res sst :=
  let msol := nthq (s_s s) j + nthq (s_l s) j in
  do s' <- sle_update (seq 0 (length (s_l s))) j msol x (mksst (s_l s) (s_s s) T);
  Ok s'.

(* SLE.__call__(solute, T=T) when self._chemical is set: melt or freeze the solute *)
Definition sle_T_chemical (j : nat) (T Tm : Q) (s : sst) : res sst :=
  let msol := nthq (s_l s) j + nthq (s_s s) j in
  if qzerob msol then Err ERuntime else
  if qltb Tm T then Ok (mksst (upd (s_l s) j msol) (upd (s_s s) j 0) T)
  else Ok (mksst (upd (s_l s) j 0) (upd (s_s s) j msol) T).

(* SLE.__call__(solute, H=H) when self._chemical is set; H_liq, H_sol, solved T are oracles *)
Definition sle_H_chemical (j : nat) (H Tm H_liq H_sol Tsolve : Q) (s : sst) : res sst :=
  let msol := nthq (s_l s) j + nthq (s_s s) j in
  if qzerob msol then Err ERuntime else
  if qleb H_liq H then Ok (mksst (upd (s_l s) j msol) (upd (s_s s) j 0) Tsolve)
  else if qleb H H_sol then Ok (mksst (upd (s_l s) j 0) (upd (s_s s) j msol) Tsolve)
  else
    let L := (H - H_sol) / (H_liq - H_sol) in
    Ok (mksst (upd (s_l s) j (L * msol)) (upd (s_s s) j (msol - L * msol)) Tm).

(* ---------- a property package that is linear in the flows (stub of the harness; the ideal
   mixture has this structure for H) ---------- *)
Definition lin_row (h c : vec) (T : Q) (r : vec) : Q :=
  Qred (qsum (map2 (fun x hc => x * hc) r (map2 (fun hk ck => hk + ck * (T - 300)) h c))).
Definition lin_xH (hl hg cl cg : vec) (s : vst) (T : Q) : Q :=
  lin_row hl cl T (liq s) + lin_row hg cg T (vap s) + qsum (map (lin_row hl cl T) (oth s)).
Definition lin_Hp (hl hg cl cg : vec) (gas : bool) (mol : vec) (T : Q) : Q :=
  if gas then lin_row hg cg T mol else lin_row hl cl T mol.

(* ---------- comparison helpers for the correspondence files ---------- *)
Definition vst_eqb (a b : vst) : bool :=
  vapproxb (liq a) (liq b) && vapproxb (vap a) (vap b) && list_eqb vapproxb (oth a) (oth b)
  && qapproxb (sT a) (sT b) && qapproxb (sP a) (sP b).

(* expected outcome observed on the implementation: the final stream, or the exception class *)
Definition vle_check (cf : cfg) (orc : oracle) (sp : spec) (s : vst)
           (expect : vst) (raised : option verr) (ticks : nat) : bool :=
  match vle_call cf orc sp (mkm s 0), raised with
  | VOk m, None => vst_eqb (ms m) expect && Nat.eqb (mk m) ticks
  | VErr e m, Some e' => verr_eqb e e' && vst_eqb (ms m) expect && Nat.eqb (mk m) ticks
  | _, _ => false
  end.

(* C03 compares the material only (T and P are the business of C04) *)
Definition flows_eqb (a b : vst) : bool :=
  vapproxb (liq a) (liq b) && vapproxb (vap a) (vap b) && list_eqb vapproxb (oth a) (oth b).
Definition vle_check_flows (cf : cfg) (orc : oracle) (sp : spec) (s : vst)
           (expect : vst) (raised : option verr) (ticks : nat) : bool :=
  match vle_call cf orc sp (mkm s 0), raised with
  | VOk m, None => flows_eqb (ms m) expect && Nat.eqb (mk m) ticks
  | VErr e m, Some e' => verr_eqb e e' && flows_eqb (ms m) expect && Nat.eqb (mk m) ticks
  | _, _ => false
  end.

Definition lst_eqb (a b : lst) : bool := vapproxb (l_l a) (l_l b) && vapproxb (l_L a) (l_L b).
Definition lle_check (islle : list bool) (o : lle_oracle) (s : lst) (expect : lst) (raised : bool) : bool :=
  match lle_call islle o s, raised with
  | Ok r, false => lst_eqb r expect
  | Err _, true => true
  | _, _ => false
  end.

Definition sst_eqb (a b : sst) : bool :=
  vapproxb (s_l a) (s_l b) && vapproxb (s_s a) (s_s b) && qapproxb (s_T a) (s_T b).
Definition sle_check (r : res sst) (expect : sst) (raised : bool) : bool :=
  match r, raised with
  | Ok s, false => sst_eqb s expect
  | Err _, true => true
  | _, _ => false
  end.

(* tapes that also check the arguments the oracle was called with (to 1e-9: the implementation computes them in floats);
   a call with other arguments gets the default *)
Definition tape1 {A} (d : A) (l : list (nat * Q * A)) (k : nat) (x : Q) : A :=
  match find (fun p => Nat.eqb (fst (fst p)) k && qapproxb (snd (fst p)) x) l with Some p => snd p | None => d end.
Definition tape2 {A} (d : A) (l : list (nat * Q * Q * A)) (k : nat) (x y : Q) : A :=
  match find (fun p => Nat.eqb (fst (fst (fst p))) k && qapproxb (snd (fst (fst p))) x && qapproxb (snd (fst p)) y) l with
  | Some p => snd p | None => d end.
(* was the oracle called at tick k with the arguments recorded on the implementation?  (the correspondence files answer a call
   whose arguments differ from the recorded ones with an out-of-range value, once a huge one and once a hugely negative one, so that
   a model that evaluates H / S at another (T, P) than the code does -- a bracket end widened or not -- cannot go unnoticed) *)
Definition hit2 (l : list (nat * Q * Q)) (k : nat) (x y : Q) : bool :=
  existsb (fun p => Nat.eqb (fst (fst p)) k && qapproxb (snd (fst p)) x && qapproxb (snd p) y) l.
(* a tape as a function of the tick *)
Definition tape {A} (d : A) (l : list (nat * A)) (k : nat) : A :=
  match find (fun p => Nat.eqb (fst p) k) l with Some p => snd p | None => d end.
