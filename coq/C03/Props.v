(* C03 — property theorems only.  Each is closed by [exact <lemma>] and followed by
   Print Assumptions.  [vle cf orc sp st] is VLE.__call__ with specification [sp] on stream [st]
   for the package [cf], with every numerical solver and property model inside the record [orc]. *)
From V Require Import Common.NumFacts C03.Model C03.ModelVlle C03.ModelHist C03.ModelRx C03.Proofs C03.ProofsRx.
Open Scope Q_scope.

(* for every oracle: the per-chemical total over all phases is unchanged, and so are the shape
   of the phase x chemical array and every phase other than l and g *)
Theorem C03_vle_conserve : forall cf orc sp st st',
  wf st -> vle cf orc sp st = VOk st' ->
  (forall k, tot st' k == tot st k) /\
  length (liq st') = length (liq st) /\ length (vap st') = length (vap st) /\ oth st' = oth st.
Proof. exact vle_conserve_lemma. Qed.
Print Assumptions C03_vle_conserve.

(* no flow becomes negative.  [vle_hyp] is exactly what the proof forces: nothing for T,P / T,H / T,S / P,H / P,S; 0 <= V <= 1,
   non-negative bubble/dew compositions and N_solutes >= 0 for the V specifications; for x= / y= (the lever-rule flows are
   clipped to mol_vle since /repo dd55412) only that the composition multiplying the split fraction has no negative entry
   -- the bubble-point y for x= (oracle contract), the user's y for y= -- and N_solutes >= 0 *)
Theorem C03_vle_nonneg : forall cf orc sp st st',
  wf st -> nn st -> vle_hyp cf orc sp st -> vle cf orc sp st = VOk st' -> nn st'.
Proof. exact vle_nonneg_lemma. Qed.
Print Assumptions C03_vle_nonneg.

(* gas-only chemicals end entirely in g; liquid/solid-only chemicals never appear in g *)
Theorem C03_vle_light_heavy : forall cf orc sp st st',
  wf st -> nn st -> vle cf orc sp st = VOk st' ->
  forall k, (k < length (liq st))%nat ->
    (is_light cf k -> nthq (liq st') k == 0 /\ nthq (vap st') k == nthq (liq st) k + nthq (vap st) k) /\
    (is_heavy cf k -> nthq (vap st') k == 0 /\ nthq (liq st') k == nthq (liq st) k + nthq (vap st) k).
Proof. exact vle_placed_lemma. Qed.
Print Assumptions C03_vle_light_heavy.

(* what is still needed of the lever rule: a composition with a NEGATIVE entry (here a bubble-point result (1/8, -1)) still
   gives a negative vapour flow -- the clip bounds v from above only.  A y that merely does not sum to 1, or a split fraction
   in the +-1e-5 band (the defect fixed by dd55412), no longer does: Example below. *)
Definition cf2 := mkcfg [KVle; KVle] [0; 0] [18; 46].
Definition orc_lever := mkorc 0 (fun _ => 0) (fun _ => 0) 0 0 (fun _ _ => (50000, [1#8; -1])) (fun _ _ => (0, []))
  (fun _ _ _ => []) (fun _ => ([], 0)) (fun _ _ _ _ => 0) (fun _ _ _ _ _ => 0) (fun _ _ _ _ _ => 0).
Definition st_lever := mkst [1; 1] [0; 0] [] 300 101325.
Theorem C03_vle_nonneg_needs_nonneg_composition :
  exists st', vle cf2 orc_lever (SpTx 350 [3#4; 1#4]) st_lever = VOk st' /\ nthq (vap st') 1 < 0.
Proof. eexists. split; [vm_compute; reflexivity|]. vm_compute. reflexivity. Qed.
Print Assumptions C03_vle_nonneg_needs_nonneg_composition.
(* the earlier counterexample (a bubble-point y summing to 17/8) is now harmless: the flows stay within [0, mol] *)
Definition orc_lever2 := mkorc 0 (fun _ => 0) (fun _ => 0) 0 0 (fun _ _ => (50000, [1#8; 2])) (fun _ _ => (0, []))
  (fun _ _ _ => []) (fun _ => ([], 0)) (fun _ _ _ _ => 0) (fun _ _ _ _ _ => 0) (fun _ _ _ _ _ => 0).
Example C03_lever_clip_example :
  vle cf2 orc_lever2 (SpTx 350 [3#4; 1#4]) st_lever = VOk (mkst [1152 # 1280; 0] [128 # 1280; 1] [] 350 50000).
Proof. vm_compute. reflexivity. Qed.

(* LLE.__call__ write-back, for every solver result / cached K / phase fraction *)
Theorem C03_lle_conserve : forall islle o s s',
  length (l_l s) = length (l_L s) -> lle_call islle o s = Ok s' ->
  length (l_l s') = length (l_l s) /\ length (l_L s') = length (l_L s) /\
  forall k, nthq (l_l s') k + nthq (l_L s') k == nthq (l_l s) k + nthq (l_L s) k.
Proof. exact lle_conserve_lemma. Qed.
Print Assumptions C03_lle_conserve.

(* ... and no liquid flow becomes negative: in the cached branch under 0 <= phi and K >= 0, in the solver branch
   when the result lies within the bounds [0, z] handed to the optimiser (lle_hyp) *)
Theorem C03_lle_nonneg : forall islle o s s',
  length (l_l s) = length (l_L s) ->
  (forall k, 0 <= nthq (l_l s) k /\ 0 <= nthq (l_L s) k) -> lle_hyp islle o s ->
  lle_call islle o s = Ok s' -> forall k, 0 <= nthq (l_l s') k /\ 0 <= nthq (l_L s') k.
Proof. exact lle_nonneg_lemma. Qed.
Print Assumptions C03_lle_nonneg.

(* Stream.vlle: pooling, VLE / LLE alternation on normalised data, merge and rescaling conserve every chemical
   over the three phases, for every VLE / LLE oracle and any number of applications of f by flx.fixed_point *)
Theorem C03_vlle_conserve : forall cf islle vo0 lo0 oss T P s s', wf3 s ->
  vlle cf islle vo0 lo0 oss T P s = XOk s' -> wf3 s' /\ forall k, tot3 s' k == tot3 s k.
Proof. exact vlle_conserve_lemma. Qed.
Print Assumptions C03_vlle_conserve.

(* SLE._update_solubility: only the solute moves, its total is the recorded solute amount, and the
   dissolved amount lies in [0, solute] *)
Theorem C03_sle_conserve_bounds : forall ix j msol x s s',
  (j < length (s_l s))%nat -> length (s_l s) = length (s_s s) ->
  sle_update ix j msol x s = Ok s' ->
  length (s_l s') = length (s_l s) /\ length (s_s s') = length (s_s s) /\
  (forall k, k <> j -> nthq (s_l s') k = nthq (s_l s) k /\ nthq (s_s s') k = nthq (s_s s) k) /\
  nthq (s_l s') j + nthq (s_s s') j == msol /\
  (0 <= qsum (gather ix (s_l s)) - nthq (s_l s) j -> 0 < msol -> 0 <= nthq (s_l s') j <= msol).
Proof. exact sle_update_lemma. Qed.
Print Assumptions C03_sle_conserve_bounds.

Theorem C03_sle_T_chemical_conserve : forall j T Tm s s',
  (j < length (s_l s))%nat -> length (s_l s) = length (s_s s) ->
  sle_T_chemical j T Tm s = Ok s' ->
  (forall k, k <> j -> nthq (s_l s') k = nthq (s_l s) k /\ nthq (s_s s') k = nthq (s_s s) k) /\
  nthq (s_l s') j + nthq (s_s s') j == nthq (s_l s) j + nthq (s_s s) j.
Proof. exact sle_T_chemical_lemma. Qed.
Print Assumptions C03_sle_T_chemical_conserve.

Theorem C03_sle_H_chemical_conserve : forall j H Tm Hl Hs Ts s s',
  (j < length (s_l s))%nat -> length (s_l s) = length (s_s s) ->
  sle_H_chemical j H Tm Hl Hs Ts s = Ok s' ->
  (forall k, k <> j -> nthq (s_l s') k = nthq (s_l s) k /\ nthq (s_s s') k = nthq (s_s s) k) /\
  nthq (s_l s') j + nthq (s_s s') j == nthq (s_l s) j + nthq (s_s s) j.
Proof. exact sle_H_chemical_lemma. Qed.
Print Assumptions C03_sle_H_chemical_conserve.

(* SLE on a persistent object: for EVERY state of the fields that survive a call (_nonzero, _index, _chemical,
   _mol_solute -- i.e. after any history of earlier calls and outside changes of the flows), a call moves only the
   solute and keeps its total; also when it raises *)
Theorem C03_sle_history_call_conserve : forall islle j T Tm x st o st' o' e,
  (j < length (s_l st))%nat -> length (s_l st) = length (s_s st) ->
  sle_call_T islle j T Tm x (st, o) = ((st', o'), e) -> sle_same j st st'.
Proof. exact sle_call_T_conserve. Qed.
Print Assumptions C03_sle_history_call_conserve.
Theorem C03_sle_history_given_conserve : forall j T x st o st' o' e,
  (j < length (s_l st))%nat -> length (s_l st) = length (s_s st) ->
  sle_call_given j T x (st, o) = ((st', o'), e) -> sle_same j st st'.
Proof. exact sle_call_given_conserve. Qed.
Print Assumptions C03_sle_history_given_conserve.

(* VLE on a persistent object: the only remembered fields that reach the flows are _nonzero / _index; after EVERY history of
   _setup calls the index taken from the object is the one a fresh object computes, so a call on a used stream is the call
   on a fresh stream (conservation, non-negativity and placement above therefore hold for every history) *)
Theorem C03_vle_index_history_independent : forall cf mols mol,
  fst (setup_index cf (setup_history cf vobj0 mols) mol) = vle_idx cf mol.
Proof. exact vle_index_history_independent. Qed.
Print Assumptions C03_vle_index_history_independent.

(* binary_phase_fraction.phase_fraction returns a fraction in [0, 1] on every branch (closed form and solver alike) ... *)
Theorem C03_phase_fraction_range : forall rr zs Ks phi, phase_fraction_m rr zs Ks = Ok phi -> 0 <= phi <= 1.
Proof. exact phase_fraction_range. Qed.
Print Assumptions C03_phase_fraction_range.
(* ... hence an LLE call answered from the object's cache keeps every flow non-negative as soon as the remembered K >= 0 *)
Theorem C03_lle_cached_nonneg : forall islle rr K molL top mws s s' phi,
  length (l_l s) = length (l_L s) -> (forall k, 0 <= nthq (l_l s) k /\ 0 <= nthq (l_L s) k) ->
  (forall p, 0 <= nthq K p) ->
  lle_cached_phi islle rr K s = Ok phi ->
  lle_call islle (mklo true K phi molL top mws) s = Ok s' ->
  forall k, 0 <= nthq (l_l s') k /\ 0 <= nthq (l_L s') k.
Proof. exact lle_cached_nonneg_lemma. Qed.
Print Assumptions C03_lle_cached_nonneg.

(* non-vacuity: a two-phase result with a gas-only and a liquid-only chemical, adversarial raw v *)
Definition cf4 := mkcfg [KVle; KVle; KLight; KHeavy] [0; 0; 0; 2] [18; 46; 28; 58].
Definition orc_tp := mkorc 0 (fun _ => 0) (fun _ => 0) 0 0 (fun _ _ => (200000, [1#2; 1#2])) (fun _ _ => (50000, [1#2; 1#2]))
  (fun _ _ _ => [-1; 9]) (fun _ => ([], 0)) (fun _ _ _ _ => 0) (fun _ _ _ _ _ => 0) (fun _ _ _ _ _ => 0).
Definition st4 := mkst [4; 2; 1; 0] [0; 2; 0; 3] [[1; 1; 1; 1]] 300 101325.
Example C03_nonvacuous :
  wf st4 /\ nn st4 /\ vle_hyp cf4 orc_tp (SpTP 350 101325) st4 /\
  vle cf4 orc_tp (SpTP 350 101325) st4 = VOk (mkst [4; 0; 0; 3] [0; 4; 1; 0] [[1; 1; 1; 1]] 350 101325).
Proof.
  split; [reflexivity|]. split.
  - intros k. do 5 (destruct k as [|k]; [vm_compute; split; discriminate|]). vm_compute. split; discriminate.
  - split; [exact I|]. vm_compute. reflexivity.
Qed.
Example C03_nonvacuous_V : vle_hyp cf4 orc_tp (SpPV 101325 (1#2)) st4.
Proof.
  split; [split; unfold Qle; simpl; lia|]. split.
  - intros k a p. cbn. do 3 (destruct p as [|p]; [split; unfold Qle; simpl; lia|]). split; unfold Qle; simpl; lia.
  - intros k. do 5 (destruct k as [|k]; [unfold Qle; simpl; lia|]). unfold Qle; simpl; lia.
Qed.

(* Where VLE._setup finds its rows (imol['l'], imol['g'], fetched through the indexer's key cache on every call): after
   MaterialIndexer._expand_phases (copy_like / mix_from of material with a phase the stream lacks: rows re-ordered in place for the
   widened, sorted phase tuple, key cache re-selected for it) every key still leads to the row of ITS phase -- the old row for an old
   phase, an empty one for a new phase -- so the VLE of the history theorems keeps working on the liquid and the gas row. *)
Theorem C03_expand_phases_keeps_rows : forall x all n p,
  ixr_ok (expand_phases x all n) /\
  (forall i, pos p all = Some i ->
     row_of (expand_phases x all n) p =
     match pos p (ix_ph x) with Some j => nth j (ix_rows x) [] | None => repeat 0 n end).
Proof. exact expand_rows_lemma. Qed.
Print Assumptions C03_expand_phases_keeps_rows.

(* ('g', 'l') widened by 'L': the keys still reach their rows; with the key cache of the OLD tuple kept, 'l' would reach the gas row *)
Example C03_expand_phases_example :
  let x := mkixr [2; 3]%nat [[1; 0]; [0; 5]] (kc_for [2; 3]%nat) in
  row_of (expand_phases x [0; 2; 3]%nat 2) 3 = [0; 5] /\ row_of (expand_phases x [0; 2; 3]%nat 2) 2 = [1; 0] /\
  row_of (expand_phases x [0; 2; 3]%nat 2) 0 = [0; 0] /\
  row_of (mkixr [0; 2; 3]%nat [[0; 0]; [1; 0]; [0; 5]] (kc_for [2; 3]%nat)) 3 = [1; 0].
Proof. cbv zeta. repeat split; vm_compute; reflexivity. Qed.


(* ---------- ordinary flashes on a VLE object that has performed a REACTIVE flash before (ModelRx.v) ----------
   The object keeps the reaction mole change (_dmol_vle, _dF_mol) of the last reactive call for ever; every read of it in vle.py
   is behind the test `gas_conversion or liquid_conversion` of the call in progress.  For EVERY remembered value [o]:
   an ordinary call conserves every chemical, changes no other phase, and leaves the remembered value alone ... *)
Theorem C03_vle_used_conserve : forall cf orc sp o st st' o',
  wf st -> vle_used cf orc sp o st = (VOk st', o') ->
  (forall k, tot st' k == tot st k) /\
  length (liq st') = length (liq st) /\ length (vap st') = length (vap st) /\ oth st' = oth st /\ o' = o.
Proof. exact vle_used_conserve_lemma. Qed.
Print Assumptions C03_vle_used_conserve.
(* ... keeps every flow non-negative under the same solver contracts as on a fresh object ... *)
Theorem C03_vle_used_nonneg : forall cf orc sp o st st' o',
  wf st -> nn st -> vle_hyp cf orc sp st -> vle_used cf orc sp o st = (VOk st', o') -> nn st'.
Proof. exact vle_used_nonneg_lemma. Qed.
Print Assumptions C03_vle_used_nonneg.
(* ... and puts the phase-locked chemicals where they belong *)
Theorem C03_vle_used_light_heavy : forall cf orc sp o st st' o',
  wf st -> nn st -> vle_used cf orc sp o st = (VOk st', o') ->
  forall k, (k < length (liq st))%nat ->
    (is_light cf k -> nthq (liq st') k == 0 /\ nthq (vap st') k == nthq (liq st) k + nthq (vap st) k) /\
    (is_heavy cf k -> nthq (vap st') k == 0 /\ nthq (liq st') k == nthq (liq st) k + nthq (vap st) k).
Proof. exact vle_used_placed_lemma. Qed.
Print Assumptions C03_vle_used_light_heavy.
(* histories on one stream: ordinary flashes, reactive calls (NOT modelled: any resulting stream, any remembered mole change)
   and outside changes in any order -- every ordinary flash conserves what it found on the stream *)
Theorem C03_vle_reactive_history_conserve : forall cf hs s o, Forall flash_conserves (rrun cf s o hs).
Proof. intros cf hs s o. exact (rrun_conserve_lemma cf hs s o). Qed.
Print Assumptions C03_vle_reactive_history_conserve.
(* ... and is the flash it would be had no reactive call left anything behind *)
Theorem C03_vle_reactive_history_forget : forall cf hs s o o', rrun cf s o hs = rrun cf s o' (forget hs).
Proof. intros cf hs s o o'. exact (rrun_forget_lemma cf hs s o o'). Qed.
Print Assumptions C03_vle_reactive_history_forget.
(* the guards are what this rests on: the same last two statements of set_thermal_condition with the guard taken as true on
   an object that remembers (1, -1) -- i.e. a stale mole change added unconditionally -- turn 1 + 0 kmol/hr of the first
   chemical into 2 and the 1 kmol/hr of the second into nothing; with the guard false (the code) nothing of the kind *)
Definition c_rx := mkctx [0%nat; 1%nat] [1; 1] 64 0 0 2 2 2.
Definition orc_rx := mkorc 0 (fun _ => 0) (fun _ => 0) 0 0 (fun _ _ => (0, [])) (fun _ _ => (0, []))
  (fun _ _ _ => [1#2; 1#2]) (fun _ => ([], 0)) (fun _ _ _ _ => 0) (fun _ _ _ _ _ => 0) (fun _ _ _ _ _ => 0).
Definition st_rx := mkst [1; 1] [0; 0] [] 350 101325.
Example C03_stale_mole_change_needs_guard :
  let bad := ms (tp_two_phase_o true (mkro (Some [1; -1])) orc_rx c_rx 350 101325 (mkm st_rx 0)) in
  let good := ms (tp_two_phase_o false (mkro (Some [1; -1])) orc_rx c_rx 350 101325 (mkm st_rx 0)) in
  tot bad 0 == 2 /\ tot bad 1 == 0 /\ tot good 0 == tot st_rx 0 /\ tot good 1 == tot st_rx 1 /\
  good = mkst [1#2; 1#2] [1#2; 1#2] [] 350 101325.
Proof. vm_compute. repeat split; try reflexivity; discriminate. Qed.
(* non-vacuity: a history with a reactive step that leaves (1, -1) behind, then a two-phase flash *)
Example C03_reactive_history_example :
  rrun cf2 st_lever robj0 [RReact st_rx (Some [1; -1]); RFlash orc_tp (SpTP 350 101325)] =
  [(st_rx, VOk (mkst [1; 0] [0; 1] [] 350 101325))].
Proof. vm_compute. reflexivity. Qed.
