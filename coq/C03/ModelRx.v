(* C03 — what a VLE object remembers of an earlier REACTIVE flash (vle(..., gas_conversion= / liquid_conversion=)), and what an
   ordinary flash on the same object does with it (thermosteam/equilibrium/vle.py at /repo HEAD).

   _solve_v_fixed_point stores, only under `if gas_conversion or liquid_conversion:`, the reaction mole change of the
   equilibrium chemicals in the slots self._dmol_vle and self._dF_mol (= _dmol_vle.sum()); nothing ever resets them, and the
   object is cached on the stream (MultiStream._vle_cache), so every later call sees them.  They are READ at these sites, each
   one behind the test of the CURRENT call's arguments:
      set_thermal_condition  :698   mol_vle = self._mol_vle + self._dmol_vle if (gas_conversion or liquid_conversion) else self._mol_vle
      set_TV / set_PV        :746-748 / :939-941 (bubble side, if liquid_conversion), :759-761 / :952-954 (dew side, if gas_conversion),
                             :777-779 / :970-972 (interpolation branch, if gas_conversion or liquid_conversion)
      _solve_v               :1333-1336  the upper clip is against _mol_vle + _dmol_vle only if gas_conversion or liquid_conversion
      _V_err_at_P / _at_T    :1295-1298 / :1303-1306  F_mol_vle + _dF_mol only if gas_conversion or liquid_conversion
      _H_hat_err_at_T / _at_P :1257 / :1270, set_PH :1181   likewise
   [rx] below is that test.  The reactive call itself (rx = true: reactive bubble / dew points, dz terms) is NOT modelled: in a
   history it is a step with an arbitrary outcome (any flows, any remembered mole change).  The ordinary call (rx = false) is
   modelled in full: at every site the guard selects the plain quantity, so it is [vle_call] of Model.v whatever the object
   remembers, and it leaves the remembered value alone (the only write is behind the same guard).
   No proofs in this file. *)
From V Require Export Common.Num C03.Model C03.ModelHist.
Open Scope Q_scope.

(* the slots; None = never assigned (no reactive flash reached the two-phase solver on this object) *)
Record robj := mkro { ro_dmol : option vec }.
Definition robj0 : robj := mkro None.

Definition dmol_of (o : robj) (n : nat) : vec :=
  match ro_dmol o with Some d => fit n d | None => vzero n end.
Definition dF_of (o : robj) (n : nat) : Q := qsum (dmol_of o n).

(* the guarded reads *)
Definition site_mol (rx : bool) (o : robj) (c : ctx) : vec :=
  if rx then vadd (molv c) (dmol_of o (length (molv c))) else molv c.
Definition site_F (rx : bool) (o : robj) (c : ctx) : Q :=
  if rx then Fvle c + dF_of o (length (molv c)) else Fvle c.

(* _solve_v (fixed-point method) with its guard: v is clipped into [0, site_mol] *)
Definition solve_v_o (rx : bool) (o : robj) (orc : oracle) (c : ctx) (T P : Q) (m : mach) : mach * vec :=
  (tick m, clipv (o_v orc (mk m) T P) (site_mol rx o c)).
(* set_flows(vapor_mol, liquid_mol, index, v, mol) at the sites that pass the guarded mol *)
Definition set_flows_o (rx : bool) (o : robj) (c : ctx) (v : vec) (s : vst) : vst :=
  let mol := site_mol rx o c in
  let v := fit (length mol) v in
  write2 c (vsub mol v) v s.
(* _V_err_at_P / _V_err_at_T: v.sum() / F - V *)
Definition V_err_o (rx : bool) (o : robj) (c : ctx) (v : vec) (V : Q) : Q := qsum v / site_F rx o c - V.
(* the last two statements of set_thermal_condition: _solve_v, then set_flows with the guarded mol_vle *)
Definition tp_two_phase_o (rx : bool) (o : robj) (orc : oracle) (c : ctx) (T P : Q) (m : mach) : mach :=
  let (m, v) := solve_v_o rx o orc c T P m in
  mset m (set_flows_o rx o c v (ms m)).

(* VLE.__call__ WITHOUT gas_conversion / liquid_conversion on an object that remembers [o]: every guard above is false *)
Definition vle_call_used (cf : cfg) (orc : oracle) (sp : spec) (o : robj) (m : mach) : vres mach * robj :=
  (vle_call cf orc sp m, o).
Definition vle_used (cf : cfg) (orc : oracle) (sp : spec) (o : robj) (s : vst) : vres vst * robj :=
  (vle cf orc sp s, o).

(* histories on ONE stream / ONE VLE object *)
Inductive rop :=
| RFlash (orc : oracle) (sp : spec)       (* an ordinary call *)
| RReact (s' : vst) (d : option vec)      (* a reactive call: not modelled -- whatever stream and whatever _dmol_vle it leaves *)
| ROutside (s' : vst).                    (* the flows are changed from outside between two calls *)

(* one entry per ordinary flash: the stream before the call and the outcome *)
Fixpoint rrun (cf : cfg) (s : vst) (o : robj) (hs : list rop) : list (vst * vres vst) :=
  match hs with
  | [] => []
  | RFlash orc sp :: t =>
    let (r, o') := vle_used cf orc sp o s in
    (s, r) :: rrun cf (match r with VOk s' => s' | VErr _ m => ms m end) o' t
  | RReact s' d :: t => rrun cf s' (mkro d) t
  | ROutside s' :: t => rrun cf s' o t
  end.

(* correspondence: an ordinary flash observed on a stream whose VLE object remembers [d] *)
Definition vle_check_flows_used (cf : cfg) (orc : oracle) (sp : spec) (d : option vec) (s : vst)
           (expect : vst) (raised : option verr) (ticks : nat) : bool :=
  match fst (vle_call_used cf orc sp (mkro d) (mkm s 0)), raised with
  | VOk m, None => flows_eqb (ms m) expect && Nat.eqb (mk m) ticks
  | VErr e m, Some e' => verr_eqb e e' && flows_eqb (ms m) expect && Nat.eqb (mk m) ticks
  | _, _ => false
  end.
(* the object after an ordinary flash still remembers what it did (observed: _dmol_vle before and after the call) *)
Definition dmol_kept (cf : cfg) (orc : oracle) (sp : spec) (d : option vec) (s : vst) (after : option vec) : bool :=
  match ro_dmol (snd (vle_call_used cf orc sp (mkro d) (mkm s 0))), after with
  | Some a, Some b => vapproxb a b
  | None, None => true
  | _, _ => false
  end.
