(* C03 — executable model of Stream.vlle (thermosteam/_stream.py): pooling of the two liquids, the first VLE and LLE
   calls, the normalised alternation  f(x): data[:] = x; lle; vle; swap l <-> L; vle; swap back  driven by
   flx.fixed_point, the merge of identical liquids and the final rescaling by the saved total.
   VLE and LLE are the models of Model.v, each call with its own oracle record.  flx.fixed_point is an oracle
   for HOW OFTEN f is applied; its contract (plain iteration: f is evaluated at x0 and then only at values f
   returned) makes the array it leaves behind the one of the last application.  No proofs in this file. *)
From V Require Export Common.Num C03.Model.
Open Scope Q_scope.

Record v3 := mkv3 { d_L : vec; d_g : vec; d_l : vec; d_T : Q; d_P : Q }.   (* rows 'L', 'g', 'l' of imol.data *)

(* values are kept in lowest terms between the stages (Qred x == x): only the size of the rationals changes *)
Definition v3_red (s : v3) : v3 := mkv3 (map Qred (d_L s)) (map Qred (d_g s)) (map Qred (d_l s)) (Qred (d_T s)) (Qred (d_P s)).

Inductive xres := XOk (s : v3) | XErrV (e : verr) | XErrL (e : err).

(* vle(T=T, P=P) on the stream: l and g are the VLE phases, L is an untouched third row *)
Definition vlle_vle (cf : cfg) (orc : oracle) (T P : Q) (s : v3) : xres :=
  match vle cf orc (SpTP T P) (mkst (d_l s) (d_g s) [d_L s] (d_T s) (d_P s)) with
  | VOk st => XOk (v3_red (mkv3 (nth 0 (oth st) []) (vap st) (liq st) (sT st) (sP st)))
  | VErr e _ => XErrV e
  end.

(* lle(T, P): thermal condition, then the write-back of LLE.__call__ on rows l and L *)
Definition vlle_lle (islle : list bool) (o : lle_oracle) (T P : Q) (s : v3) : xres :=
  match lle_call islle o (mklst (d_l s) (d_L s)) with
  | Ok r => XOk (v3_red (mkv3 (l_L r) (d_g s) (l_l r) T (if nzb P then P else d_P s)))
  | Err e => XErrL e
  end.

Definition xbind (r : xres) (f : v3 -> xres) : xres := match r with XOk s => f s | e => e end.

Definition swap_lL (s : v3) : v3 := mkv3 (d_l s) (d_g s) (d_L s) (d_T s) (d_P s).

(* one application of f (after data[:] = x, which the iteration contract makes the identity) *)
Definition vlle_step (cf : cfg) (islle : list bool) (T P : Q) (os : lle_oracle * oracle * oracle) (s : v3) : xres :=
  let '(lo, vo1, vo2) := os in
  xbind (vlle_lle islle lo T P s) (fun s =>
  xbind (vlle_vle cf vo1 T P s) (fun s =>
  xbind (vlle_vle cf vo2 T P (swap_lL s)) (fun s => XOk (swap_lL s)))).

Fixpoint vlle_steps (cf : cfg) (islle : list bool) (T P : Q) (oss : list (lle_oracle * oracle * oracle)) (s : v3) : xres :=
  match oss with
  | [] => XOk s
  | os :: t => xbind (vlle_step cf islle T P os s) (vlle_steps cf islle T P t)
  end.

Definition v3_total (s : v3) : Q := qsum (d_L s) + qsum (d_g s) + qsum (d_l s).
Definition v3_scale (f : Q -> Q) (s : v3) : v3 := mkv3 (map f (d_L s)) (map f (d_g s)) (map f (d_l s)) (d_T s) (d_P s).
Definition qabs_diff_sum (a b : vec) : Q := qsum (map Qabs (vsub a b)).
Definition c_1em6 : Q := 4722366482869645 # 4722366482869645213696.     (* 1e-6 *)

(* Stream.vlle(T, P); [oss] has one entry per application of f by flx.fixed_point *)
Definition vlle (cf : cfg) (islle : list bool) (vo0 : oracle) (lo0 : lle_oracle)
           (oss : list (lle_oracle * oracle * oracle)) (T P : Q) (s : v3) : xres :=
  let s := mkv3 (vzero (length (d_L s))) (d_g s) (vadd (d_l s) (d_L s)) (d_T s) (d_P s) in   (* liq += LIQ; LIQ[:] = 0 *)
  xbind (vlle_vle cf vo0 T P s) (fun s =>
  if negb (anynz (d_g s)) then vlle_lle islle lo0 T P s
  else if negb (anynz (d_l s)) then XOk s
  else
  xbind (vlle_lle islle lo0 T P s) (fun s =>
  if negb (anynz (d_L s) && anynz (d_l s)) then XOk s else
  let total := v3_total s in
  if qzerob total then XErrL EZeroDiv else
  xbind (vlle_steps cf islle T P oss (v3_red (v3_scale (fun x => x / total) s))) (fun s =>
  let s := if qltb (qabs_diff_sum (d_l s) (d_L s)) c_1em6
           then mkv3 (vzero (length (d_L s))) (d_g s) (vadd (d_l s) (d_L s)) (d_T s) (d_P s) else s in
  XOk (v3_red (v3_scale (fun x => x * total) s))))).

Definition tot3 (s : v3) (k : nat) : Q := nthq (d_L s) k + nthq (d_g s) k + nthq (d_l s) k.
Definition wf3 (s : v3) : Prop := length (d_L s) = length (d_l s) /\ length (d_g s) = length (d_l s).

Definition v3_eqb (a b : v3) : bool :=
  vapproxb (d_L a) (d_L b) && vapproxb (d_g a) (d_g b) && vapproxb (d_l a) (d_l b)
  && qapproxb (d_T a) (d_T b) && qapproxb (d_P a) (d_P b).
Definition vlle_check (r : xres) (expect : v3) : bool :=
  match r with XOk s => v3_eqb s expect | _ => false end.
(* the implementation raised (an arithmetic error inside a VLE / LLE call propagates out of Stream.vlle) *)
Definition vlle_check_err (r : xres) : bool :=
  match r with XOk _ => false | _ => true end.
