(* C03 — SLE call histories on one persistent SLE object (thermosteam/equilibrium/sle.py): the fields that survive
   a call (_nonzero, _index, _chemical, _mol_solute) are a state of their own, and SLE._setup consults them.
   Modelled: _setup (solute total recomputed on EVERY call, RuntimeError without solute, the _nonzero cache (which resets
   _chemical), the N == 1 branch that sets _chemical without touching _nonzero / _index, the ValueError of index(solute) raised AFTER
   _nonzero / _index were stored), __call__(solute, T=T) and __call__(solute, T=T, solubility=x) (which leaves
   _index = slice(None) behind).  SLE._solve_x is an oracle (its intermediate _update_solubility calls are
   overwritten by the final one: both solute entries are rewritten from _mol_solute and the other flows).
   No proofs in this file. *)
From V Require Export Common.Num C03.Model.
Open Scope Q_scope.

Record sobj := mksobj {
  so_nz : option (list nat);    (* _nonzero *)
  so_idx : list nat;            (* _index *)
  so_chem : bool;               (* _chemical is set *)
  so_msol : Q                   (* _mol_solute *)
}.
Definition sobj0 : sobj := mksobj None [] false 0.

Definition nz_idx (mol : vec) : list nat := filter (fun c => nzb (nthq mol c)) (seq 0 (length mol)).

(* SLE._setup; the object is returned also when the call raises *)
Definition sle_setup (islle : list bool) (j : nat) (st : sst) (o : sobj) : sobj * option err :=
  let mol := vadd (s_l st) (s_s st) in
  let msol := nthq mol j in
  let o := mksobj (so_nz o) (so_idx o) (so_chem o) msol in
  if qzerob msol then (o, Some ERuntime) else
  let nz := nz_idx mol in
  if opt_eqb (list_eqb Nat.eqb) (so_nz o) (Some nz) then (mksobj (so_nz o) (so_idx o) false msol, None)   (* _chemical = None *)
  else
    let ix := lle_idx islle mol in
    if Nat.eqb (length ix) 1 then (mksobj (so_nz o) (so_idx o) true msol, None)
    else
      let o := mksobj (Some nz) ix false msol in
      match pos j ix with None => (o, Some EValue) | Some _ => (o, None) end.

Definition with_sT (st : sst) (T : Q) : sst := mksst (s_l st) (s_s st) T.

(* sle(solute, T=T): [Tm] is the melting point of the solute, [x] what _solve_x returns *)
Definition sle_call_T (islle : list bool) (j : nat) (T Tm x : Q) (p : sst * sobj) : (sst * sobj) * option err :=
  let (st, o) := p in
  let st := with_sT st T in
  let (o, e) := sle_setup islle j st o in
  match e with
  | Some e => ((st, o), Some e)
  | None =>
    if so_chem o then
      let m := so_msol o in
      if qltb Tm T then ((mksst (upd (s_l st) j m) (upd (s_s st) j 0) T, o), None)
      else ((mksst (upd (s_l st) j 0) (upd (s_s st) j m) T, o), None)
    else
      match sle_update (so_idx o) j (so_msol o) x st with
      | Ok st' => ((st', o), None)
      | Err e => ((st, o), Some e)
      end
  end.

(* sle(solute, T=T, solubility=x) *)
Definition sle_call_given (j : nat) (T x : Q) (p : sst * sobj) : (sst * sobj) * option err :=
  let (st, o) := p in
  let st := with_sT st T in
  let m := nthq (s_s st) j + nthq (s_l st) j in
  let o := mksobj (so_nz o) (seq 0 (length (s_l st))) (so_chem o) m in
  match sle_update (so_idx o) j m x st with
  | Ok st' => ((st', o), None)
  | Err e => ((st, o), Some e)
  end.

(* what happens between the calls: flows are changed from outside *)
Inductive hop :=
| HCallT (T x : Q)
| HGiven (T x : Q)
| HSetL (k : nat) (v : Q)        (* imol['l', k] = v *)
| HSetS (k : nat) (v : Q)        (* imol['s', k] = v *)
| HScale (f : Q).                (* imol.data *= f *)

Definition hstep (islle : list bool) (j : nat) (Tm : Q) (p : sst * sobj) (h : hop) : (sst * sobj) * option err :=
  match h with
  | HCallT T x => sle_call_T islle j T Tm x p
  | HGiven T x => sle_call_given j T x p
  | HSetL k v => ((mksst (upd (s_l (fst p)) k v) (s_s (fst p)) (s_T (fst p)), snd p), None)
  | HSetS k v => ((mksst (s_l (fst p)) (upd (s_s (fst p)) k v) (s_T (fst p)), snd p), None)
  | HScale f => ((mksst (vscale f (s_l (fst p))) (vscale f (s_s (fst p))) (s_T (fst p)), snd p), None)
  end.

(* run a history; returns the stream after every step and whether the step raised *)
Fixpoint hrun (islle : list bool) (j : nat) (Tm : Q) (p : sst * sobj) (hs : list hop) : list (sst * bool) :=
  match hs with
  | [] => []
  | h :: t => let (p', e) := hstep islle j Tm p h in
              (fst p', match e with Some _ => true | None => false end) :: hrun islle j Tm p' t
  end.

Definition hist_eqb (a b : list (sst * bool)) : bool :=
  list_eqb (fun x y => sst_eqb (fst x) (fst y) && Bool.eqb (snd x) (snd y)) a b.
