(* C03 — SLE call histories on one persistent SLE object (thermosteam/equilibrium/sle.py): the fields that survive
   a call (_nonzero, _index, _chemical, _mol_solute) are a state of their own, and SLE._setup consults them.
   Modelled: _setup (solute total recomputed on EVERY call, RuntimeError without solute, the _nonzero cache (which resets
   _chemical), the N == 1 branch that sets _chemical without touching _nonzero / _index, the ValueError of index(solute) raised AFTER
   _nonzero / _index were stored), __call__(solute, T=T) and __call__(solute, T=T, solubility=x) (which leaves
   _index = slice(None) behind and, since /repo 341f38f, forgets _nonzero).  SLE._solve_x is an oracle (its intermediate _update_solubility calls are
   overwritten by the final one: both solute entries are rewritten from _mol_solute and the other flows).
   No proofs in this file. *)
From V Require Export Common.Num C03.Model.
Open Scope Q_scope.

Record sobj := mksobj {
  so_nz : option (list nat);    (* _nonzero *)
  so_idx : list nat;            (* _index *)
  so_chem : bool;               (* _chemical is set *)
  so_msol : Q                   (* _mol_solute *)
}.
Definition sobj0 : sobj := mksobj None [] false 0.

Definition nz_idx (mol : vec) : list nat := filter (fun c => nzb (nthq mol c)) (seq 0 (length mol)).

(* SLE._setup; the object is returned also when the call raises *)
Definition sle_setup (islle : list bool) (j : nat) (st : sst) (o : sobj) : sobj * option err :=
  let mol := vadd (s_l st) (s_s st) in
  let msol := nthq mol j in
  let o := mksobj (so_nz o) (so_idx o) (so_chem o) msol in
  if qzerob msol then (o, Some ERuntime) else
  let nz := nz_idx mol in
  if opt_eqb (list_eqb Nat.eqb) (so_nz o) (Some nz) then
    (* _chemical = None; /repo 341f38f: _solute_gamma_index = index.index(solute_index) is recomputed (ValueError when absent) *)
    let o := mksobj (so_nz o) (so_idx o) false msol in
    match pos j (so_idx o) with None => (o, Some EValue) | Some _ => (o, None) end
  else
    let ix := lle_idx islle mol in
    if Nat.eqb (length ix) 1 then (mksobj (so_nz o) (so_idx o) true msol, None)
    else
      let o := mksobj (Some nz) ix false msol in
      match pos j ix with None => (o, Some EValue) | Some _ => (o, None) end.

Definition with_sT (st : sst) (T : Q) : sst := mksst (s_l st) (s_s st) T.

(* sle(solute, T=T): [Tm] is the melting point of the solute, [x] what _solve_x returns *)
Definition sle_call_T (islle : list bool) (j : nat) (T Tm x : Q) (p : sst * sobj) : (sst * sobj) * option err :=
  let (st, o) := p in
  let st := with_sT st T in
  let (o, e) := sle_setup islle j st o in
  match e with
  | Some e => ((st, o), Some e)
  | None =>
    if so_chem o then
      let m := so_msol o in
      if qltb Tm T then ((mksst (upd (s_l st) j m) (upd (s_s st) j 0) T, o), None)
      else ((mksst (upd (s_l st) j 0) (upd (s_s st) j m) T, o), None)
    else
      match sle_update (so_idx o) j (so_msol o) x st with
      | Ok st' => ((st', o), None)
      | Err e => ((st, o), Some e)
      end
  end.

(* sle(solute, T=T, solubility=x) *)
Definition sle_call_given (j : nat) (T x : Q) (p : sst * sobj) : (sst * sobj) * option err :=
  let (st, o) := p in
  let st := with_sT st T in
  let m := nthq (s_s st) j + nthq (s_l st) j in
  let o := mksobj None (seq 0 (length (s_l st))) (so_chem o) m in      (* /repo 341f38f: _nonzero = None with _index = slice(None) *)
  match sle_update (so_idx o) j m x st with
  | Ok st' => ((st', o), None)
  | Err e => ((st, o), Some e)
  end.

(* what happens between the calls: flows are changed from outside *)
Inductive hop :=
| HCallT (T x : Q)
| HGiven (T x : Q)
| HSetL (k : nat) (v : Q)        (* imol['l', k] = v *)
| HSetS (k : nat) (v : Q)        (* imol['s', k] = v *)
| HScale (f : Q).                (* imol.data *= f *)

Definition hstep (islle : list bool) (j : nat) (Tm : Q) (p : sst * sobj) (h : hop) : (sst * sobj) * option err :=
  match h with
  | HCallT T x => sle_call_T islle j T Tm x p
  | HGiven T x => sle_call_given j T x p
  | HSetL k v => ((mksst (upd (s_l (fst p)) k v) (s_s (fst p)) (s_T (fst p)), snd p), None)
  | HSetS k v => ((mksst (s_l (fst p)) (upd (s_s (fst p)) k v) (s_T (fst p)), snd p), None)
  | HScale f => ((mksst (vscale f (s_l (fst p))) (vscale f (s_s (fst p))) (s_T (fst p)), snd p), None)
  end.

(* run a history; returns the stream after every step and whether the step raised *)
Fixpoint hrun (islle : list bool) (j : nat) (Tm : Q) (p : sst * sobj) (hs : list hop) : list (sst * bool) :=
  match hs with
  | [] => []
  | h :: t => let (p', e) := hstep islle j Tm p h in
              (fst p', match e with Some _ => true | None => false end) :: hrun islle j Tm p' t
  end.

Definition hist_eqb (a b : list (sst * bool)) : bool :=
  list_eqb (fun x y => sst_eqb (fst x) (fst y) && Bool.eqb (snd x) (snd y)) a b.

(* ====================================================================================================
   VLE on a persistent object.  Of everything a VLE object keeps between calls (_nonzero, _index, _chemical, the
   BubblePoint / DewPoint objects, _T, _P, _V, _K, _z_last, _v), only _nonzero / _index reach the flows: on a hit of the
   _nonzero cache _setup takes [index = self._index] instead of recomputing it.  (_T, _P, _V, _K, _z_last are initial
   guesses handed to the solver oracles; the equilibrium objects are covered by C04 / C08.)  Everything else _setup does
   -- pooling, relocation of the phase-locked chemicals, the totals -- is done on EVERY call. *)
Record vobj := mkvobj { vo_nz : option (list nat); vo_idx : list nat }.
Definition vobj0 : vobj := mkvobj None [].

(* the part of _setup that consults the object *)
Definition setup_index (cf : cfg) (o : vobj) (mol : vec) : list nat * vobj :=
  let nz := nz_idx mol in
  if opt_eqb (list_eqb Nat.eqb) (vo_nz o) (Some nz) then (vo_idx o, o)
  else let ix := filter (fun c => kind_eqb (kind_at cf c) KVle) nz in (ix, mkvobj (Some nz) ix).

(* the object is coherent when its remembered index is the one of its remembered set of chemicals *)
Definition vobj_ok (cf : cfg) (o : vobj) : Prop :=
  match vo_nz o with
  | Some nz => vo_idx o = filter (fun c => kind_eqb (kind_at cf c) KVle) nz
  | None => True
  end.

(* ====================================================================================================
   binary_phase_fraction.phase_fraction(zs, Ks, guess, za, zb) as LLE uses it (za = zb = 0):
   N > 2 -> as_valid_fraction(solve_phase_fraction_Rashford_Rice(...)) (a bracketing solver: oracle [rr]);
   Ks.max() <= 1 + 1e-9 -> 1;  Ks.min() >= 1 - 1e-9 -> 0;  N == 2 -> as_valid_fraction(compute_phase_fraction_2N);
   otherwise ValueError. *)
Definition c_1p : Q := 281474976992131 # 281474976710656.     (* 1.0 + 1e-9 *)
Definition c_1m : Q := 9007199245733793 # 9007199254740992.     (* 1.0 - 1e-9 *)
Definition as_valid_fraction (x : Q) : Q := if qltb x 0 then 0 else if qltb 1 x then 1 else x.
Definition vmax (v : vec) : Q := match v with [] => 0 | x :: t => fold_left Qmax t x end.
Definition vmin (v : vec) : Q := match v with [] => 0 | x :: t => fold_left Qmin t x end.
Definition rr2_closed (z1 z2 K1 K2 : Q) : res Q :=
  let num := - (K1 * z1 + K2 * z2) + (z1 + z2) in
  let den := K1 * K2 * z1 + K1 * K2 * z2 - K1 * z2 - (K1 * z1 + K2 * z2) - K2 * z1 + (z1 + z2) in
  if qzerob den then Err EZeroDiv else Ok (num / den).
Definition phase_fraction_m (rr : Q) (zs Ks : vec) : res Q :=
  if Nat.ltb 2 (length zs) then Ok (as_valid_fraction rr)
  else if qleb (vmax Ks) c_1p then Ok 1
  else if qleb c_1m (vmin Ks) then Ok 0
  else match zs, Ks with
       | [z1; z2], [K1; K2] => do v <- rr2_closed z1 z2 K1 K2; Ok (as_valid_fraction v)
       | _, _ => Err EValue
       end.

(* the phase fraction of the cached branch of LLE.__call__: z computed as lle_call computes it *)
Definition lle_cached_phi (islle : list bool) (rr : Q) (K : vec) (s : lst) : res Q :=
  let pooled := vadd (l_l s) (l_L s) in
  let ix := lle_idx islle pooled in
  let mol := gather ix pooled in
  phase_fraction_m rr (vdivs mol (qsum mol)) (fit (length ix) K).

Definition pf_check (r : res Q) (expect : option Q) : bool :=
  match r, expect with
  | Ok a, Some b => qapproxb a b
  | Err _, None => true
  | _, _ => false
  end.
(* LLE.__call__ answered from the cache with the REAL phase_fraction *)
Definition lle_check_pf (islle : list bool) (rr : Q) (o : lle_oracle) (s : lst) (expect : lst) (raised : bool) : bool :=
  match lle_cached_phi islle rr (lo_K o) s with
  | Ok phi => lle_check islle (mklo true (lo_K o) (Qred phi) (lo_molL o) (lo_top o) (lo_mw o)) s expect raised
  | Err _ => raised
  end.

(* ====================================================================================================
   Where the VLE finds its rows.  A MaterialIndexer keeps its phases sorted, one row per phase in that order, and answers
   imol['l'] / imol['g'] (what VLE._setup fetches on EVERY call) through a key -> row-number cache; the cache in use is the
   class-level one that _set_cache selects for the current (phases, chemicals) pair.  _expand_phases (copy_like / mix_from of material
   that brings a phase the stream does not have) re-orders the rows IN PLACE for the widened phase tuple and re-selects the cache.
   Phases are numbers here (their rank in the sorted alphabet 'L' < 'S' < 'g' < 'l' < 's'). *)
Record ixr := mkixr { ix_ph : list nat; ix_rows : list vec; ix_kc : list (nat * nat) }.
Fixpoint kc_get (p : nat) (kc : list (nat * nat)) : option nat :=
  match kc with [] => None | (k, i) :: t => if Nat.eqb k p then Some i else kc_get p t end.
(* the row the indexer hands out for the key p: through the cache, else through the phase index *)
Definition row_of (x : ixr) (p : nat) : vec :=
  match (match kc_get p (ix_kc x) with Some i => Some i | None => pos p (ix_ph x) end) with
  | Some i => nth i (ix_rows x) []
  | None => []
  end.
(* the row that physically belongs to phase p *)
Definition row_phys (x : ixr) (p : nat) : vec :=
  match pos p (ix_ph x) with Some i => nth i (ix_rows x) [] | None => [] end.
(* a populated cache of the phase tuple phs *)
Definition kc_for (phs : list nat) : list (nat * nat) := combine phs (seq 0 (length phs)).
(* _expand_phases to the (sorted) union [all]; n = number of chemicals *)
Definition expand_phases (x : ixr) (all : list nat) (n : nat) : ixr :=
  mkixr all
        (map (fun p => match pos p (ix_ph x) with Some i => nth i (ix_rows x) [] | None => repeat 0 n end) all)
        (kc_for all).
(* correspondence: after the widening of a stream with phases phs to the tuple all, the key p hands out [expect]; rows_after = the
   rows as they physically lie in the indexer afterwards (read by iteration) *)
Definition expand_key_check (phs all : list nat) (rows_after : list vec) (p : nat) (expect : vec) : bool :=
  vapproxb (row_of (mkixr all rows_after (ix_kc (expand_phases (mkixr phs [] (kc_for phs)) all 0))) p) expect.
