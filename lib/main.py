import os, sys
sys.path.insert(0, os.path.dirname(os.path.abspath(__file__)))
import vf

def main(argv):
    if not argv:
        print(__doc__ or 'usage: check <ID> quick|thorough | check <ID> --replay f | check --setup')
        return 2
    if argv[0] == '--setup':
        return vf.setup()
    if argv[0] == '--all':
        import json, subprocess
        tier = argv[1] if len(argv) > 1 else 'quick'
        man = json.load(open(os.path.join(vf.VERIF, 'MANIFEST.json')))
        rc = 0
        for c in man['checks']:
            p = subprocess.run([os.path.join(vf.VERIF, 'check'), c['property_id'], tier], capture_output=True, text=True)
            lines = [l for l in p.stdout.splitlines() if l.startswith(('VIOLATION', 'KNOWN-FINDING', c['property_id'] + ' '))]
            print('\n'.join(l[:160] for l in lines), flush=True)
            rc = rc or p.returncode
        return rc
    pid = argv[0]
    seed = int(os.environ.get('VERIF_SEED', '0') or 0)
    if len(argv) >= 3 and argv[1] == '--replay':
        return vf.run_check(pid, 'quick', seed, replay=argv[2])
    tier = argv[1] if len(argv) > 1 else os.environ.get('VERIF_TIER', 'quick')
    return vf.run_check(pid, tier, seed)

if __name__ == '__main__':
    sys.exit(main(sys.argv[1:]))
