"""Prints the prompt given to an independent seeding sub-agent: only the property text and a scratch worktree.
usage: python3 lib/seedprompt.py C05 [n_changes]"""
import json, sys
import glob, os
pid = sys.argv[1]; n = int(sys.argv[2]) if len(sys.argv) > 2 else 3
tag = sys.argv[3] if len(sys.argv) > 3 else 'seed'     # worktree /tmp/<tag>_<ID>, output /tmp/<tag>_<ID>_out
prev = []
for d in sorted(glob.glob(f'/verif/seeded/{pid}-*')):
    try:
        m = json.load(open(os.path.join(d, 'meta.json')))
        prev.append('- ' + ' '.join(str(m.get('breaks', '')).split())[:260] + ' (files: ' + ', '.join(m.get('files_changed', [])) + ')')
    except Exception:
        pass
for l in open('/verif/properties.jsonl'):
    p = json.loads(l)
    if p['id'] == pid: break
files = ', '.join(p['anchors']['files'])
AVOID = ("Changes of this kind that OTHER testers have already tried (do not repeat them; aim at other functions, other clauses of the property, other mechanisms such as caches, aliasing, error paths, rarely used argument combinations):\n" + "\n".join(prev) + "\n\n") if prev and tag != "seed" else ""
print(f"""You are testing how robust a Python library's behaviour is against subtle regressions. The library is thermosteam (a thermodynamic engine used by BioSTEAM); you have your own scratch git worktree of it at /tmp/{tag}_{pid} (work ONLY there and under /tmp/{tag}_{pid}_out; never touch /repo or /verif, and do not read anything under /verif). Run Python as `cd /tmp/{tag}_{pid} && PYTHONPATH=/tmp/{tag}_{pid} PYTHONHASHSEED=0 PYTHONWARNINGS=ignore /venv/bin/python …` (no network; a harmless `WARNING conda.cli.condarc` line may be printed). No biosteam is installed; user-defined chemicals can be made without the database, e.g. `tmo.Chemical('A_', search_db=False, MW=16., Hf=-1024., Cn=64., phase='l', default=True)`; many database chemicals (Water, Ethanol, …) also load offline.

Here is a semantic property the library is supposed to satisfy:

Title: {p['title']}
Statement: {p['statement']}
Quantified over: {p['quantifier']['text']}
(Relevant code: {files}.)

{AVOID}Task: produce {n} different, realistic source changes to thermosteam (each a small patch a developer could plausibly make by mistake while refactoring, "simplifying" or "optimising"), each of which BREAKS this property while the library still imports and the existing test suite still passes. Prefer changes that need something specific to manifest — a particular interleaving or multi-step sequence of operations, an aliasing between objects, an unusual but legitimate input (zero flows, a chemical absent from one package, a particular phase, a cache that must first fill up, a particular specification pair), or two cooperating sites that each look fine alone — NOT ones that any ordinary use would expose at once. The changes should break different clauses of the property / live in different functions.

For each change i = 1..{n}:
1. start from a clean worktree (`git -C /tmp/{tag}_{pid} checkout -- .`), make the change, and save it as /tmp/{tag}_{pid}_out/<i>/patch.diff (`git -C /tmp/{tag}_{pid} diff > …`; create the directories);
2. write /tmp/{tag}_{pid}_out/<i>/demo.py: a small standalone program that exits 0 and prints PASS when the property holds and exits 1 printing what went wrong when it does not; it must FAIL with your change and PASS without it (verify both, with PYTHONPATH pointing at the worktree);
3. verify the existing tests still pass with the change: `cd /tmp/{tag}_{pid} && /venv/bin/python -m pytest -q -p no:cacheprovider --timeout=900 --continue-on-collection-errors 2>&1 | tail -8` — the baseline has exactly 5 known failures (tests/test_chemical.py::test_chemical_creation, tests/test_network.py::test_disconnect, two BubblePointBeta doctests, the FlashPackage doctest) and 210 passes; with your change it must be the same 5 failures and 210 passes (the run takes about 20-40 s);
4. write /tmp/{tag}_{pid}_out/<i>/notes.md: which clause of the property it breaks, what is needed for it to manifest, and the commands you ran with their outcomes.
Do NOT use `git stash` (stashes are shared between worktrees): switch between the clean tree and your change with `git diff > patch.diff; git checkout -- .; git apply patch.diff`. Finish with a clean worktree (`git -C /tmp/{tag}_{pid} checkout -- .`). Your final message: a short list of the changes (file/function, what manifests it) and confirmation of the verification steps for each.""")
