#!/bin/bash
# Thorough tier for every claimed property, N lanes in parallel; logs in .cache/thorough/
cd /verif; mkdir -p .cache/thorough
lanes=${1:-4}
seq -w 1 20 | xargs -P $lanes -I{} sh -c './check C{} thorough > .cache/thorough/C{}.log 2>&1; echo "C{} exit=$?" >> .cache/thorough/C{}.log'
grep -h -E "^C[0-9]+ (thorough|exit)|^VIOLATION" .cache/thorough/*.log
