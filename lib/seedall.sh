#!/bin/bash
# Re-run every seeded change through its property's quick check, one serial lane per property, N lanes in parallel.
# usage: lib/seedall.sh [lanes] [skip-regex]   (results in seeded/*/meta.json; logs in /verif/.cache/seedall/)
cd /verif; mkdir -p .cache/seedall
lanes=${1:-5}; skip=${2:-NONE}
for p in $(ls seeded | sed 's/-.*//' | sort -u | grep -Ev "$skip"); do echo $p; done | \
  xargs -P $lanes -I{} sh -c 'python3 lib/seedtest.py $(ls -d seeded/{}-* | sort -t- -k2 -n) > .cache/seedall/{}.log 2>&1 < /dev/null'
grep -H "missed" .cache/seedall/C*.log
