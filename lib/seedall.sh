#!/bin/bash
# Re-run every seeded change through its property's quick check, one serial lane per property, N lanes in parallel.
# usage: lib/seedall.sh [lanes]   (results in seeded/*/meta.json; log in /verif/.cache/seedall/)
cd /verif; mkdir -p .cache/seedall
lanes=${1:-5}
for p in $(ls seeded | sed 's/-.*//' | sort -u); do echo $p; done | \
  xargs -P $lanes -I{} sh -c 'python3 lib/seedtest.py $(ls -d seeded/{}-* | sort -t- -k2 -n) > .cache/seedall/{}.log 2>&1'
grep -h "missed" .cache/seedall/*.log
