"""Shared machinery for the /verif checks: Coq build, correspondence runs, search,
known findings, evidence.  Run with /venv/bin/python, PYTHONPATH=/repo (see ../check)."""
import os, sys, json, time, random, re, subprocess, hashlib, fcntl, importlib, traceback, glob, signal, shutil
from concurrent.futures import ThreadPoolExecutor
from fractions import Fraction

VERIF = os.path.dirname(os.path.dirname(os.path.abspath(__file__)))
COQ = os.path.join(VERIF, 'coq')
REPO = os.environ.get('VERIF_REPO', '/repo')   # development override only; registered commands use /repo
SHARD = 250

FORBIDDEN = re.compile(r'\b(Admitted|admit|Axiom|Parameter|Conjecture|Unset Guard|bypass_check|Admit Obligations)\b|-type-in-type|-impredicative-set')

# ---------------------------------------------------------------- Gallina literals
def q(x):
    """Exact Coq Q literal of a number (floats are converted exactly)."""
    f = Fraction(x)
    n, d = f.numerator, f.denominator
    return f'({n} # {d})' if n >= 0 else f'(-{-n} # {d})'

def clist(xs, f=str):
    return '[' + '; '.join(f(x) for x in xs) + ']'

def qlist(xs):
    return clist(xs, q)

def qmat(rows):
    return clist(rows, qlist)

def cbool(b):
    return 'true' if b else 'false'

def cnat(n):
    return f'{int(n)}%nat'

def copt(x, f=str):
    return 'None' if x is None else f'(Some {f(x)})'

def frac(x):
    """float/np.float -> Fraction (exact)."""
    return Fraction(float(x))

def fr_json(x):
    """Fraction -> JSON-serialisable string 'n/d'."""
    f = Fraction(x)
    return f'{f.numerator}/{f.denominator}'

def fr_parse(s):
    return Fraction(s)

class TranslatorError(Exception):
    pass

class CaseTimeout(Exception):
    pass

def _alarm(signum, frame):
    raise CaseTimeout()

def with_timeout(fn, seconds, *a, **k):
    old = signal.signal(signal.SIGALRM, _alarm)
    signal.alarm(seconds)
    try:
        return fn(*a, **k)
    finally:
        signal.alarm(0)
        signal.signal(signal.SIGALRM, old)

# ---------------------------------------------------------------- Coq build
def coq_sources():
    files = []
    for d in sorted(os.listdir(COQ)):
        p = os.path.join(COQ, d)
        if os.path.isdir(p) and d != 'cases':
            for f in sorted(os.listdir(p)):
                if f.endswith('.v'):
                    files.append(f'{d}/{f}')
    return files

def gate(dirs=None):
    """No Admitted/Axiom/... anywhere in the development (comments included: stricter)."""
    bad = []
    for f in coq_sources():
        if dirs is not None and f.split('/')[0] not in dirs:
            continue
        for n, line in enumerate(open(os.path.join(COQ, f)), 1):
            if FORBIDDEN.search(line):
                bad.append(f'{f}:{n}: {line.strip()}')
    return bad

class Lock:
    def __enter__(self):
        self.f = open(os.path.join(COQ, '.build.lock'), 'w')
        fcntl.flock(self.f, fcntl.LOCK_EX)
    def __exit__(self, *a):
        fcntl.flock(self.f, fcntl.LOCK_UN)
        self.f.close()

def write_if_changed(path, text):
    try:
        if open(path).read() == text:
            return False
    except FileNotFoundError:
        pass
    with open(path, 'w') as f:
        f.write(text)
    return True

def refresh_makefile():
    proj = '-Q . V\n' + '\n'.join(coq_sources()) + '\n'
    changed = write_if_changed(os.path.join(COQ, '_CoqProject'), proj)
    if changed or not os.path.exists(os.path.join(COQ, 'Makefile')):
        subprocess.run(['coq_makefile', '-f', '_CoqProject', '-o', 'Makefile'], cwd=COQ,
                       check=True, stdout=subprocess.DEVNULL, stderr=subprocess.DEVNULL)

def make(targets, jobs=8, timeout=1500):
    """Full .vo build of the given targets.  Returns (ok, output)."""
    with Lock():
        refresh_makefile()
        try:
            p = subprocess.run(['make', f'-j{jobs}'] + targets, cwd=COQ, capture_output=True,
                               text=True, timeout=timeout)
            return p.returncode == 0, p.stdout + p.stderr
        except subprocess.TimeoutExpired as e:
            return False, f'TIMEOUT after {timeout}s\n{e.stdout or ""}'

def header_targets(header):
    """.vo files the generated case files import (they must be rebuilt with the theorems)."""
    t = []
    for m in re.finditer(r'From V Require (?:Import|Export)\s+(.*?)\.(?:\s|$)', header, re.S):
        for mod in m.group(1).split():
            t.append(mod.replace('.', '/') + '.vo')
    return t

def build_property(coq_dir, props_files=('Props.v',), timeout=1500, extra=()):
    """Rebuild the property's Props files (always recompiled so that Print Assumptions
    output is captured) and everything they depend on."""
    outs = []
    ok_all = True
    for pf in props_files:
        vo = os.path.join(COQ, coq_dir, pf + 'o')
        if os.path.exists(vo):
            os.remove(vo)
    ok, out = make([f'{coq_dir}/{pf}o' for pf in props_files] + list(extra), timeout=timeout)
    return ok, out

THM = re.compile(r'^\s*(Theorem|Example)\s+([A-Za-z0-9_\']+)', re.M)

def theorems_of(coq_dir, props_files=('Props.v',)):
    names = []
    for pf in props_files:
        src = open(os.path.join(COQ, coq_dir, pf)).read()
        names += [m.group(2) for m in THM.finditer(src)]
    return names

def parse_assumptions(out):
    """Collect axioms printed by Print Assumptions (anything after 'Axioms:' lines)."""
    axioms = set()
    closed = out.count('Closed under the global context')
    blocks = re.split(r'\n(?=Axioms:)', out)
    for b in blocks:
        if b.startswith('Axioms:'):
            for line in b.splitlines()[1:]:
                m = re.match(r'^([A-Za-z0-9_\.\']+)\s*:', line)
                if m:
                    axioms.add(m.group(1))
                elif line and not line.startswith(' ') and not line.startswith('\t'):
                    if re.match(r'^(COQC|Closed|make)', line):
                        break
    return closed, sorted(axioms)

def first_error(out):
    m = re.search(r'File "([^"]+)", line (\d+), characters [^\n]*\n(Error:.*?)(?:\n\n|\nmake|\Z)', out, re.S)
    if not m:
        return out[-1500:]
    path, line, msg = m.group(1), int(m.group(2)), m.group(3)
    name = None
    try:
        src = open(os.path.join(COQ, path)).read().splitlines()
        for i in range(line - 1, -1, -1):
            mm = re.match(r'^\s*(Lemma|Theorem|Example|Definition|Fixpoint|Corollary)\s+([A-Za-z0-9_\']+)', src[i])
            if mm:
                name = mm.group(2)
                break
    except Exception:
        pass
    return f'{path}:{line} in {name}: {msg.strip()[:600]}'

# ---------------------------------------------------------------- Coq evaluation of case files
def eval_cases(pid, header, terms, jobs=12, timeout=900):
    """terms: list of Gallina bool terms.  Returns (list of failing indices, list of errors)."""
    d = os.path.join(COQ, 'cases', f'{pid}_{os.getpid()}')
    shutil.rmtree(d, ignore_errors=True)
    os.makedirs(d)
    shards = [terms[i:i + SHARD] for i in range(0, len(terms), SHARD)]
    files = []
    for k, sh in enumerate(shards):
        path = os.path.join(d, f'cases_{k}.v')
        with open(path, 'w') as f:
            f.write(header + '\n')
            for j, t in enumerate(sh):
                f.write(f'Definition c{j} : bool := {t}.\n')
            f.write('Definition results : list bool := ' + clist([f'c{j}' for j in range(len(sh))]) + '.\n')
            f.write('Eval vm_compute in failing results.\n')
        files.append(path)
    def one(path):
        try:
            p = subprocess.run(['coqc', '-Q', COQ, 'V', path], capture_output=True, text=True, timeout=timeout)
            return p.returncode, p.stdout, p.stderr
        except subprocess.TimeoutExpired:
            return 124, '', 'timeout'
    failing, errors = [], []
    with ThreadPoolExecutor(max_workers=jobs) as ex:
        results = list(ex.map(one, files))
    for k, (rc, so, se) in enumerate(results):
        if rc != 0:
            errors.append(f'shard {k}: coqc rc={rc}: {se[-800:]}')
            continue
        m = re.search(r'=\s*\[(.*?)\]\s*:\s*list N', so, re.S)
        if not m:
            errors.append(f'shard {k}: unparsable output {so[-300:]}')
            continue
        for tok in re.findall(r'(\d+)%N', m.group(1)):
            failing.append(k * SHARD + int(tok))
        # without %N annotation
        if not re.search(r'%N', m.group(1)):
            for tok in re.findall(r'\d+', m.group(1)):
                failing.append(k * SHARD + int(tok))
    shutil.rmtree(d, ignore_errors=True)
    return sorted(set(failing)), errors

def debug_mismatches(pid, plugin, cases, outs, mism, n=3):
    for i in mism[:n]:
        print('--- mismatch case', i)
        print(json.dumps(cases[i], default=str)[:3000])
        print(json.dumps({k: v for k, v in outs[i].items()}, default=str)[:4000])
        if hasattr(plugin, 'coq_show') and 'harness_exception' not in outs[i]:
            d = os.path.join(COQ, 'cases', f'dbg_{os.getpid()}')
            os.makedirs(d, exist_ok=True)
            path = os.path.join(d, 'dbg.v')
            with open(path, 'w') as f:
                f.write(plugin.COQ_HEADER + '\nEval vm_compute in ' + plugin.coq_show(cases[i], outs[i]) + '.\n')
            p = subprocess.run(['coqc', '-Q', COQ, 'V', path], capture_output=True, text=True)
            print('model:', (p.stdout + p.stderr)[:4000])
            shutil.rmtree(d, ignore_errors=True)

def shrink_list(case, field, oracle, max_tries=400):
    """Delta-debugging on case[field] (a list): delete elements while oracle(case) still fails."""
    import copy
    best = copy.deepcopy(case)
    tries = 0
    changed = True
    while changed and tries < max_tries:
        changed = False
        i = 0
        while i < len(best[field]) and tries < max_tries:
            cand = copy.deepcopy(best)
            del cand[field][i]
            tries += 1
            try:
                bad = oracle(cand)
            except Exception:
                bad = None
            if bad:
                best = cand
                changed = True
            else:
                i += 1
    return best

# ---------------------------------------------------------------- known findings
def load_known():
    """Lines:  finding: property=<id> key=<key> <text>   |   fixed: property=<id> <commit> <text>"""
    known = {}
    path = os.path.join(VERIF, 'known_findings.txt')
    if os.path.exists(path):
        for line in open(path):
            m = re.match(r'^finding:\s+property=(\S+)\s+key=(\S+)\s+(.*)$', line.strip())
            if m:
                known[(m.group(1), m.group(2))] = m.group(3)
    return known

# ---------------------------------------------------------------- evidence
def write_evidence(pid, ev):
    if REPO != '/repo':      # development runs against a scratch worktree are not evidence
        return
    os.makedirs(os.path.join(VERIF, 'evidence'), exist_ok=True)
    with open(os.path.join(VERIF, 'evidence', f'{pid}.json'), 'w') as f:
        json.dump(ev, f, indent=1, default=str)

def case_hash(case):
    return hashlib.sha256(json.dumps(case, sort_keys=True, default=str).encode()).hexdigest()

# ---------------------------------------------------------------- the generic check
def run_check(pid, tier, seed, replay=None):
    t0 = time.time()
    sys.path.insert(0, os.path.join(VERIF, 'props'))
    plugin = importlib.import_module(pid)
    rng = random.Random(seed * 1000003 + (1 if tier == 'thorough' else 0))
    known = load_known()
    log = []
    violations = []      # (key, description, replay-dict)
    known_hits = []
    broken = []          # names of obligations / correspondences that no longer check

    if replay:
        data = json.load(open(replay))
        case = data.get('case')
        if case is None:
            print(f'replay names a broken obligation, not an input: {data.get("broken")}')
            return 1
        msg = plugin.oracle(case)
        if msg:
            print(f'REPLAY FAILS property={pid}: {msg}')
            return 1
        print('replay passes on the current tree')
        return 0

    # 0. gate (this property's files and the shared ones; ./check --setup gates everything)
    bad = gate({'Common', plugin.COQ_DIR} | set(getattr(plugin, 'EXTRA_COQ_DIRS', ())))
    if bad:
        print('FRAMEWORK ERROR: forbidden construct in the development:\n' + '\n'.join(bad))
        return 2

    # 1. translators
    gen_info = []
    if hasattr(plugin, 'translate'):
        try:
            gen_info = plugin.translate() or []
        except TranslatorError as e:
            broken.append(f'translator: {e}')
        except Exception as e:
            broken.append(f'translator crashed: {type(e).__name__}: {e}')

    # 2. proofs
    props_files = getattr(plugin, 'PROPS_FILES', ('Props.v',))
    names = theorems_of(plugin.COQ_DIR, props_files)
    obligations = len(names)
    discharged = 0
    axioms = []
    build_out = ''
    if not any(b.startswith('translator') for b in broken):
        ok, build_out = build_property(plugin.COQ_DIR, props_files, extra=header_targets(plugin.COQ_HEADER))
        if ok:
            closed, axioms = parse_assumptions(build_out)
            discharged = obligations
        else:
            broken.append('proof: ' + first_error(build_out))
    coqchk_report = None
    if tier == 'thorough' and discharged == obligations and not os.environ.get('VERIF_NO_COQCHK'):
        try:
            mods = [f'V.{plugin.COQ_DIR}.{pf[:-2]}' for pf in props_files]
            pc = subprocess.run(['coqchk', '-o', '-silent', '-Q', COQ, 'V'] + mods, capture_output=True, text=True, timeout=1200)
            m = re.search(r'\* Axioms:(.*?)\n\s*\n\* Constants', pc.stdout + pc.stderr, re.S)
            coqchk_report = {'rc': pc.returncode, 'axioms': ' '.join(m.group(1).split()) if m else (pc.stdout + pc.stderr)[-500:]}
            if pc.returncode != 0:
                broken.append('coqchk rejected the compiled development: ' + (pc.stdout + pc.stderr)[-500:])
        except subprocess.TimeoutExpired:
            coqchk_report = {'rc': None, 'axioms': 'coqchk timed out'}
    model_ok = True
    if broken:
        # the model file may still build even if a proof does not
        okm, outm = make([f'{plugin.COQ_DIR}/{f}o' for f in getattr(plugin, 'MODEL_FILES', ('Model.v',))])
        model_ok = okm
        if not okm:
            broken.append('model does not compile: ' + first_error(outm))

    # 3. correspondence
    cases = list(getattr(plugin, 'CORPUS', [])) + list(plugin.gen_cases(rng, tier))
    outs, terms, idx = [], [], []
    impl_errors = 0
    for i, c in enumerate(cases):
        try:
            o = with_timeout(plugin.run_impl, getattr(plugin, 'CASE_TIMEOUT', 60), c)
        except CaseTimeout:
            o = {'harness_timeout': True}
        except Exception as e:
            o = {'harness_exception': f'{type(e).__name__}: {e}', 'tb': traceback.format_exc()[-1500:]}
        outs.append(o)
    mism = []
    coq_errs = []
    if model_ok:
        for i, (c, o) in enumerate(zip(cases, outs)):
            if 'harness_exception' in o or 'harness_timeout' in o:
                mism.append(i)
                continue
            try:
                terms.append(plugin.coq_case(c, o))
                idx.append(i)
            except Exception as e:
                o['harness_exception'] = f'coq_case: {type(e).__name__}: {e}'
                mism.append(i)
        failing, coq_errs = eval_cases(pid, plugin.COQ_HEADER, terms)
        mism += [idx[j] for j in failing]
        mism = sorted(set(mism))
        if coq_errs:
            broken.append('correspondence files do not evaluate: ' + '; '.join(coq_errs)[:800])
    if mism and os.environ.get('VERIF_DEBUG'):
        debug_mismatches(pid, plugin, cases, outs, mism)
    if mism:
        broken.append(f'correspondence: model and implementation differ on {len(mism)} of {len(cases)} cases (first: #{mism[0]})')

    # 4. witnesses of refuted statements (known findings are re-established on every run)
    for w in getattr(plugin, 'WITNESSES', []):
        msg = None
        try:
            msg = with_timeout(plugin.oracle, 120, w['case'])
        except Exception as e:
            msg = f'oracle raised {type(e).__name__}: {e}'
        if msg:
            key = w['key']
            if (pid, key) in known:
                known_hits.append((key, known[(pid, key)]))
            else:
                violations.append((key, msg, {'case': w['case'], 'witness': key}))
        else:
            broken.append(f'witness {w["key"]} of a refuted statement no longer fails on the implementation '
                          f'(the model still contains the defect)')

    # 4b. development self-test (not a registered command): the direct oracle must be silent on every generated case of
    #     a tree on which nothing broke; whatever it says there is either a defect of the repository or of the oracle
    if os.environ.get('VERIF_ORACLE_SELFTEST') and not broken and not violations:
        extra = list(plugin.search_cases(rng, tier)) if hasattr(plugin, 'search_cases') else []
        said = {}
        for c in list(cases) + extra:
            try:
                msg = with_timeout(plugin.oracle, getattr(plugin, 'CASE_TIMEOUT', 60), c)
            except Exception as e:
                msg = f'oracle raised {type(e).__name__}: {e}'
            if msg:
                key = plugin.finding_key(c, msg) if hasattr(plugin, 'finding_key') else case_hash(c)[:16]
                if (pid, key) not in known and key not in said:
                    said[key] = msg
                    os.makedirs(os.path.join(VERIF, '.cache', 'selftest'), exist_ok=True)
                    with open(os.path.join(VERIF, '.cache', 'selftest', f'{pid}_{len(said)}.json'), 'w') as f:
                        json.dump({'case': c, 'message': msg, 'key': key}, f, indent=1, default=str)
        print(f'ORACLE-SELFTEST {pid}: {len(cases) + len(extra)} cases, {len(said)} distinct complaints')
        for k, m in said.items():
            print(f'ORACLE-SELFTEST {pid} [{k}]: {m[:300]}')

    # 5. search for a failing input when something broke
    searched = 0
    if broken and not violations:
        order = mism + [i for i in range(len(cases)) if i not in set(mism)]
        extra = []
        if hasattr(plugin, 'search_cases'):
            extra = list(plugin.search_cases(rng, tier))
        found = None
        for c in [cases[i] for i in order] + extra:
            searched += 1
            try:
                msg = with_timeout(plugin.oracle, getattr(plugin, 'CASE_TIMEOUT', 60), c)
            except CaseTimeout:
                msg = 'oracle timed out (implementation does not return)'
            except Exception as e:
                msg = f'oracle raised {type(e).__name__}: {e}'
            if msg:
                if hasattr(plugin, 'shrink'):
                    try:
                        c = plugin.shrink(c)
                        msg = plugin.oracle(c) or msg
                    except Exception:
                        pass
                key = plugin.finding_key(c, msg) if hasattr(plugin, 'finding_key') else case_hash(c)[:16]
                if (pid, key) in known:
                    if not any(k == key for k, _ in known_hits):
                        known_hits.append((key, known[(pid, key)]))
                    continue
                found = (key, msg, {'case': c})
                break
        if found:
            violations.append(found)
        else:
            only_known = False
            # everything that broke is explained by listed findings?  only if nothing else is broken
            violations.append(('no-input', '; '.join(broken)[:1500],
                               {'broken': broken, 'mismatching_cases': [cases[i] for i in mism[:3]],
                                'impl_outputs': [outs[i] for i in mism[:3]]}))

    # 6. report
    rc = 0
    for key, text in known_hits:
        print(f'KNOWN-FINDING: property={pid} {key}: {text}')
    for key, msg, rep in violations:
        os.makedirs(os.path.join(VERIF, 'replays'), exist_ok=True)
        path = os.path.join(VERIF, 'replays', f'{pid}_{seed}_{abs(hash(key)) % 100000}.json')
        rep = dict(rep, property=pid, seed=seed, tier=tier, message=msg, key=key)
        with open(path, 'w') as f:
            json.dump(rep, f, indent=1, default=str)
        tail = ' no-failing-input-found' if key == 'no-input' else ''
        print(f'{msg[:300]}')
        print(f'VIOLATION property={pid} replay={path}{tail}')
        rc = 1

    # 7. evidence
    nontriv = set()
    for c, o in zip(cases, outs):
        try:
            if plugin.nontrivial(c, o):
                nontriv.add(case_hash(c))
        except Exception:
            pass
    dist = {}
    if hasattr(plugin, 'classify'):
        for c, o in zip(cases, outs):
            try:
                for k in plugin.classify(c, o):
                    dist[k] = dist.get(k, 0) + 1
            except Exception:
                pass
    samples = []
    for i in (list(range(min(2, len(cases)))) + ([len(cases) - 1] if len(cases) > 2 else [])):
        samples.append({'case': cases[i], 'implementation': {k: v for k, v in outs[i].items() if k != 'tb'}})
    trusted = list(getattr(plugin, 'TRUSTED', [])) + [
        'Coq 8.16.1 kernel and vm_compute (no native_compute)',
        'axioms reported by Print Assumptions this run: ' + (', '.join(axioms) if axioms else 'none (closed under the global context)'),
        'correspondence harness props/%s.py (generators, canonicalisation, float->Fraction, tolerance 1e-9 where stated)' % pid,
        'Python/NumPy semantics of the modelled constructs as transcribed in the model; float rounding not modelled',
    ]
    ev = {
        'property_id': pid, 'tier': tier, 'seed': seed, 'level': 'proof',
        'coverage': {
            'obligations': obligations, 'discharged': discharged,
            'checker_cmd': f'cd /verif/coq && make -j8 {plugin.COQ_DIR}/Props.vo  (coq_makefile, full .vo build; coqc 8.16.1)',
            'trusted_base': trusted,
            'theorems': names,
            'coqchk': coqchk_report,
            'generated_files': gen_info,
            'evaluations': len(cases),
            'distinct_nontrivial': len(nontriv),
            'rule': getattr(plugin, 'RULE', ''),
            'samples': samples,
            'distribution': dist,
            'traces_validated_against_impl': len(cases) - len(mism),
            'correspondence_mismatches': len(mism),
            'searched_for_failing_input': searched,
            'broken': broken,
            'known_findings_reestablished': [k for k, _ in known_hits],
        },
        'assumptions': list(getattr(plugin, 'ASSUMPTIONS', [])),
        'wall_s': round(time.time() - t0, 2),
        'violations': len(violations),
    }
    write_evidence(pid, ev)
    print(f'{pid} {tier}: theorems {discharged}/{obligations}, correspondence {len(cases) - len(mism)}/{len(cases)} '
          f'({len(nontriv)} distinct non-trivial), known findings {len(known_hits)}, violations {len(violations)}, '
          f'{ev["wall_s"]}s')
    return rc

def setup():
    """Build the Coq development for every property claimed in MANIFEST.json (full .vo build)."""
    sys.path.insert(0, os.path.join(VERIF, 'props'))
    man = json.load(open(os.path.join(VERIF, 'MANIFEST.json')))
    pids = [c['property_id'] for c in man['checks']]
    targets, dirs = [], {'Common'}
    for pid in pids:
        try:
            plugin = importlib.import_module(pid)
            if hasattr(plugin, 'translate'):
                plugin.translate()
            dirs.add(plugin.COQ_DIR)
            dirs |= set(getattr(plugin, 'EXTRA_COQ_DIRS', ()))
            targets += [f'{plugin.COQ_DIR}/{pf}o' for pf in getattr(plugin, 'PROPS_FILES', ('Props.v',))]
        except Exception as e:
            print(f'setup: {pid}: {type(e).__name__}: {e}')
    bad = gate(dirs)
    if bad:
        print('forbidden constructs:\n' + '\n'.join(bad))
        return 2
    ok, out = make(targets, jobs=16, timeout=3400)
    print(out[-3000:])
    return 0 if ok else 1
