#!/bin/bash
# False-alarm experiment, round 2: apply each behaviour-preserving refactoring alone in a scratch worktree and run the checks anchored there.
cd /verif
declare -A MAP=( [1]="C07" [2]="C07" [3]="C07 C02" [4]="C16 C15" [5]="C15 C03" [6]="C08 C04" [7]="C04 C03" [8]="C20 C03 C15" [9]="C14 C12 C02" [10]="C13 C14 C11" [11]="C10 C01" [12]="C10" [13]="C18 C19" [14]="C05 C06 C17" )
[ -n "$APPEND" ] || : > harmless2/RESULT.txt
for i in $(seq 1 14); do
  wt=/tmp/harm2_wt_$i
  git -C /repo worktree remove --force $wt 2>/dev/null; rm -rf $wt
  git -C /repo worktree add -f $wt HEAD -q
  if ! git -C $wt apply /verif/harmless2/$i/patch.diff; then echo "harmless2-$i: PATCH DOES NOT APPLY" >> harmless2/RESULT.txt; git -C /repo worktree remove --force $wt; continue; fi
  for p in ${MAP[$i]}; do echo "$p" | grep -Eq "^(${SKIP:-NONE})$" && continue
    out=$(VERIF_REPO=$wt timeout 1500 ./check $p quick 2>&1 | grep -v "^KNOWN-FINDING" | tail -2 | tr '\n' ' ' | cut -c1-400)
    echo "harmless2-$i $p: $out" >> harmless2/RESULT.txt
  done
  git -C /repo worktree remove --force $wt; rm -rf $wt
done
rm -f replays/*.json
cat harmless2/RESULT.txt
