"""Runs the repository's pinned baseline suite and compares with /root/.vp/BASELINE.json.
usage: python3 lib/baseline.py [repo_dir]      exit 0 iff every stable_pass test still passes."""
import json, os, subprocess, sys, tempfile, xml.etree.ElementTree as ET
repo = sys.argv[1] if len(sys.argv) > 1 else '/repo'
base = json.load(open('/root/.vp/BASELINE.json'))
with tempfile.TemporaryDirectory() as d:
    xml = os.path.join(d, 'r.xml')
    env = dict(os.environ, PYTHONPATH=repo)
    env.pop('THERMOSTEAM_VERIF', None)
    p = subprocess.run(['/venv/bin/python', '-m', 'pytest', '-ra', '-q', '-p', 'no:cacheprovider', '--timeout=900',
                        '--continue-on-collection-errors', f'--junitxml={xml}'], cwd=repo, env=env,
                       capture_output=True, text=True)
    res = {}
    for tc in ET.parse(xml).iter('testcase'):
        res[tc.get('classname') + '::' + tc.get('name')] = not any(c.tag in ('failure', 'error', 'skipped') for c in tc)
bad = [n for n in base['stable_pass'] if not res.get(n)]
print(p.stdout.strip().splitlines()[-1])
print('stable_pass tests no longer passing:', bad)
sys.exit(1 if bad else 0)
