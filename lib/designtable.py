"""Prints the markdown table of seeded changes and their outcomes (from seeded/*/meta.json)."""
import json, glob, os, re
V = os.path.dirname(os.path.dirname(os.path.abspath(__file__)))
def key(d):
    m = re.match(r'C(\d+)-(\d+)', os.path.basename(d)); return (int(m.group(1)), int(m.group(2)))
import sys, io
_out = io.StringIO(); _real = sys.stdout; sys.stdout = _out
print('| seed | files changed | what it breaks / needs (seeder\'s words, abridged) | check result |')
print('|---|---|---|---|')
for d in sorted(glob.glob(os.path.join(V, 'seeded', 'C*-*')), key=key):
    m = json.load(open(os.path.join(d, 'meta.json')))
    br = ' '.join(str(m.get('breaks', '')).replace('|', '/').split())[:230]
    cr = m.get('check_result', {})
    if isinstance(cr, dict):
        res = ('caught: ' if cr.get('caught') else 'MISSED') + (' '.join(cr.get('message', '').replace('|', '/').split())[:140] if cr.get('caught') else '')
        if cr.get('caught') and 'no-failing-input-found' in cr.get('violation_line', ''): res = 'caught (no-failing-input-found): ' + res[8:]
    else:
        res = ' '.join(str(cr).replace('|', '/').split())[:200]
    if m.get('caught_by_other_check') and res.startswith('MISSED'):
        o = m['caught_by_other_check']; res = f"missed by {m['property']}; caught by the {o['property']} check: " + ' '.join(o['message'].replace('|', '/').split())[:120]
    files = ', '.join(os.path.basename(f) for f in m.get('files_changed', [])) or '_reaction.py'
    print(f"| {os.path.basename(d)} | {files} | {br} | {res} |")

sys.stdout = _real
table = _out.getvalue()
if '--write' in sys.argv:
    dp = os.path.join(V, 'DESIGN.md'); d = open(dp).read()
    a = d.index('<!-- SEEDTABLE:BEGIN -->') + len('<!-- SEEDTABLE:BEGIN -->\n'); b = d.index('<!-- SEEDTABLE:END -->')
    open(dp, 'w').write(d[:a] + table + d[b:])
else:
    print(table)
