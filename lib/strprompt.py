"""Writes the prompt for a strengthening builder: python3 lib/strprompt.py C03:C03-13[,C03-14] ...  -> /tmp/str/Cxx.txt"""
import sys, os
os.makedirs('/tmp/str', exist_ok=True)
def mk(pid, seeds):
    sl = ', '.join(f'/verif/seeded/{s}/' for s in seeds)
    open(f'/tmp/str/{pid}.txt', 'w').write(f"""You are a builder strengthening an existing machine-checked verification (Coq 8.16.1) of one property of the Python library thermosteam (/repo). The framework is in /verif. Your property is {pid}. You have about 50 minutes of wall time; stop with a final report by then (whatever is on disk and green counts).

FIRST read: /verif/BUILDING.md (the rules: binding), the line for {pid} in /verif/properties.jsonl, /verif/summaries/{pid}.md, then /verif/coq/{pid}/*.v and /verif/props/{pid}.py as needed.

SITUATION: independent testers produced source changes to thermosteam that break property {pid} while the repository's test suite still passes. The check `./check {pid} quick` MISSED these: {sl} (each has patch.diff, demo.py = a program that fails with the change and passes without, notes.md = what it breaks and what it needs to manifest, meta.json). A miss means the model / generators / correspondence do not cover the code path or history the change needs.

GOAL: strengthen the machinery so that each missed change is caught *for the right reason*: bring the affected code path into the executable Coq model (branch for branch, as the code is at /repo HEAD), extend the generators so the correspondence exercises the kind of history/input the change needs (as a CLASS of inputs - never special-case the seed's literal input), add the theorem(s) that state the violated clause for all inputs/histories over the extended model, and make sure the direct `oracle()` can exhibit a concrete failing input so the VIOLATION has a replay. Do not weaken anything that exists. No false alarms: the check must stay silent on the unchanged /repo.

HOW TO TEST A SEED (never touch /repo itself):
  git -C /repo worktree add -f /tmp/str_{pid}_wt HEAD && git -C /tmp/str_{pid}_wt apply /verif/seeded/<seed>/patch.diff
  cd /verif && VERIF_REPO=/tmp/str_{pid}_wt timeout 1500 ./check {pid} quick      (must print VIOLATION property={pid} ... and exit 1)
  git -C /repo worktree remove --force /tmp/str_{pid}_wt                       (always remove it when done)
and on the unchanged tree `cd /verif && ./check {pid} quick` must exit 0 with no VIOLATION line (KNOWN-FINDING lines are fine), in under ~2 minutes on a quiet machine (other builders run concurrently, so wall time may be longer now; keep case counts modest).

HARD CONSTRAINTS
- Touch only: /verif/coq/{pid}/*, /verif/props/{pid}.py, /verif/tr/{pid}_*, /verif/summaries/{pid}.md. Never edit /repo, lib/, check, MANIFEST.json, DESIGN.md, known_findings.txt, Common/, other properties' files, /verif/seeded. Do not `git commit`.
- No Admitted/admit/Axiom/Parameter anywhere (not even in comments). New Coq files must be Required from Props.v.
- If while doing this you find that the UNCHANGED code contradicts the property on a new input, model the code as it is, prove a `_refuted` theorem, add the witness to WITNESSES and give me the exact `finding: property={pid} key=... ...` line in your report.
- Never `pkill`; the Coq build is serialised by a lock shared with other builders.
- Scratch only under /tmp/str_{pid}*/ and delete it at the end.

Final report: for each seed - caught or not, by which part (theorem / translator / correspondence + which oracle message); what was added to model, theorems, generators; `./check {pid} quick` result and time on the unchanged tree; update /verif/summaries/{pid}.md truthfully.
""")
for a in sys.argv[1:]:
    pid, seeds = a.split(':'); mk(pid, seeds.split(','))
