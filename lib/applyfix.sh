#!/bin/bash
# usage: lib/applyfix.sh pending_fixes/Cxx_n_slug   (applies .diff to /repo and commits with .msg)
set -e
base="$(readlink -f "$1.diff")"; base="${base%.diff}"
cd /repo
if ! git apply --check "$base.diff" 2>/dev/null; then
  git apply -C1 --check "$base.diff" || { echo "DOES NOT APPLY: $base"; exit 1; }
  git apply -C1 "$base.diff"
else
  git apply "$base.diff"
fi
git commit -qa -F "$base.msg"
git log --oneline | head -1
