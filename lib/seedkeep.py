"""Moves an independent seeder's output /tmp/seed_<ID>_out/<i>/ into /verif/seeded/<ID>-<i>/ with a meta.json,
then replays each against the check in a scratch worktree (lib/seedtest.py) and records the outcome.
usage: python3 lib/seedkeep.py C19"""
import json, os, shutil, subprocess, sys, glob, re
VERIF = os.path.dirname(os.path.dirname(os.path.abspath(__file__)))
pid = sys.argv[1]
tag = sys.argv[2] if len(sys.argv) > 2 else 'seed'
src = f'/tmp/{tag}_{pid}_out'
existing = [int(os.path.basename(d).split('-')[1]) for d in glob.glob(os.path.join(VERIF, 'seeded', f'{pid}-*'))]
offset = max(existing) if (existing and tag != 'seed') else 0
kept = []
for d in sorted(glob.glob(src + '/*')):
    i = os.path.basename(d)
    if not os.path.exists(os.path.join(d, 'patch.diff')) or not os.path.exists(os.path.join(d, 'demo.py')):
        continue
    if not i.isdigit():
        continue
    dst = os.path.join(VERIF, 'seeded', f'{pid}-{int(i) + offset}')
    os.makedirs(dst, exist_ok=True)
    for f in ('patch.diff', 'demo.py', 'notes.md'):
        if os.path.exists(os.path.join(d, f)):
            shutil.copy(os.path.join(d, f), dst)
    notes = open(os.path.join(dst, 'notes.md')).read() if os.path.exists(os.path.join(dst, 'notes.md')) else ''
    files = re.findall(r'^\+\+\+ b/(\S+)', open(os.path.join(dst, 'patch.diff')).read(), re.M)
    meta = {'property': pid, 'files_changed': files,
            'breaks': notes.strip().split('\n\n')[0][:600] if notes else '',
            'needs_to_manifest': 'see notes.md (written by the seeder)',
            'author': 'independent sub-agent given only the property text and a scratch worktree of /repo'}
    json.dump(meta, open(os.path.join(dst, 'meta.json'), 'w'), indent=1)
    kept.append(dst)
print('kept', kept)
