"""Replays seeded changes against the checks, in a scratch worktree (never in /repo).
usage: python3 lib/seedtest.py [seeded/<id> ...]     (default: all)"""
import json, os, subprocess, sys, glob, shutil
VERIF = os.path.dirname(os.path.dirname(os.path.abspath(__file__)))
def sh(cmd, **k):
    return subprocess.run(cmd, shell=True, capture_output=True, text=True, **k)
def main(dirs):
    rows = []
    for d in dirs:
        d = os.path.abspath(d)
        meta = json.load(open(os.path.join(d, 'meta.json')))
        pid = meta['property']
        wt = f'/tmp/seedtest_{os.path.basename(d)}'
        sh(f'git -C /repo worktree remove --force {wt}'); shutil.rmtree(wt, ignore_errors=True)
        r = sh(f'git -C /repo worktree add -f {wt} HEAD')
        env = f'PYTHONPATH={wt} PYTHONHASHSEED=0 PYTHONWARNINGS=ignore'
        demo = os.path.join(d, 'demo.py')
        before = sh(f'cd {wt} && {env} timeout 600 /venv/bin/python {demo}').returncode
        ap = sh(f'git -C {wt} apply {os.path.join(d, "patch.diff")}')
        after = sh(f'cd {wt} && {env} timeout 600 /venv/bin/python {demo}').returncode
        chk = sh(f'cd {VERIF} && VERIF_REPO={wt} timeout 1500 ./check {pid} quick')
        viol = [l for l in chk.stdout.splitlines() if l.startswith('VIOLATION')]
        msg = [l for l in chk.stdout.splitlines() if not l.startswith(('VIOLATION', 'KNOWN-FINDING', pid + ' '))]
        rows.append((os.path.basename(d), pid, before, after, ap.returncode, chk.returncode, viol[:1], msg[-1:] ))
        meta['verified'] = {'demo_rc_unchanged_tree': before, 'demo_rc_with_change': after, 'patch_applies_rc': ap.returncode,
                            'how': 'scratch worktree of /repo HEAD; PYTHONPATH=<worktree> demo.py; VERIF_REPO=<worktree> ./check %s quick' % pid}
        meta['check_result'] = {'exit': chk.returncode, 'violation_line': (viol[:1] or [''])[0].replace(wt, '<worktree>'),
                                'message': (msg[-1:] or [''])[0][:400], 'caught': chk.returncode == 1 and bool(viol)}
        json.dump(meta, open(os.path.join(d, 'meta.json'), 'w'), indent=1)
        sh(f'git -C /repo worktree remove --force {wt}'); shutil.rmtree(wt, ignore_errors=True)
        print(f'{os.path.basename(d)}: demo unchanged rc={before} (want 0), demo with change rc={after} (want !=0), '
              f'patch applies rc={ap.returncode}, check rc={chk.returncode} (want 1) {viol[:1]} {msg[-1:]}', flush=True)
    # the replays written against worktrees are not evidence
    for f in glob.glob(os.path.join(VERIF, 'replays', '*.json')):
        os.remove(f)
    missed = [r[0] for r in rows if r[5] != 1]
    print('missed:', missed)
    return 1 if missed else 0
if __name__ == '__main__':
    ds = sys.argv[1:] or sorted(glob.glob(os.path.join(VERIF, 'seeded', '*')))
    sys.exit(main(ds))
