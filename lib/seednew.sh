#!/bin/bash
# Run seedtest on seeds that have no check_result yet (one serial lane per property). usage: lib/seednew.sh [lanes] [skip-regex]
cd /verif; mkdir -p .cache/seedall
lanes=${1:-5}; skip=${2:-NONE}
for p in $(ls seeded | sed 's/-.*//' | sort -u | grep -Ev "$skip"); do
  new=$(for d in $(ls -d seeded/$p-* | sort -t- -k2 -n); do grep -q check_result $d/meta.json || echo $d; done | tr '\n' ' ' | sed 's/ *$//')
  [ -n "$new" ] && echo "$p $new"
done > .cache/seedall/new.list
xargs -a .cache/seedall/new.list -P $lanes -L1 sh -c 'p=$0; python3 lib/seedtest.py "$@" > .cache/seedall/new_$p.log 2>&1 < /dev/null'
grep -h "^C[0-9]*-[0-9]*:\|missed" .cache/seedall/new_*.log | cut -c1-330
