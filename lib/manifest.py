"""Regenerates /verif/MANIFEST.json from the table below (run: python3 lib/manifest.py)."""
import json, os
VERIF = os.path.dirname(os.path.dirname(os.path.abspath(__file__)))
PROPS = [json.loads(l)['id'] for l in open(os.path.join(VERIF, 'properties.jsonl'))]

# id -> (technique, level text, level note, design ref)
CLAIMED = {
 'C17': ('Coq proof over an executable Q model of Reaction arithmetic + correspondence (vm_compute) against the real classes',
         'Theorems (coq/C17/Props.v) over exact rationals for all stoichiometries/conversions/feeds/histories: a+b = parallel, (a+b)-b = a, '
         'k*a, a/k, in-place = binary, operands unchanged for every history, set/item conversion sharing. The model is hand-written and '
         'tied to /repo by running the same operation histories on the real Reaction classes and on the model inside Coq.',
         'Trusted: Coq kernel + vm_compute; hand-written model coq/C17/Model.v; correspondence harness props/C17.py; float rounding not '
         'modelled (1e-9 relative comparison, dyadic inputs so branch decisions are exact); no axioms (closed under the global context).',
         'DESIGN.md section 3 C17'),
 'C01': ('Coq proof of per-chemical conservation for mixing (single-phase receivers, any inlets/packages/phases, receiver among inlets), splitting, scaling, CAS remapping, SparseVector.mix_from + correspondence over real streams and 5 property packages',
         'PARTIAL: mix_value is proved by induction over inlet lists for single-phase receivers (any number/kind/phase/package of inlets), '
         'split_value, scale_value, remap and the sparse receiver-among-inlets accounting are proved; the multi-phase-receiver half of mix_value, '
         'totality (mix_total), separate_restores and copy_remove are stated (Definition ..._statement), modelled and tied to the code by '
         'correspondence, but not yet theorems.',
         'Trusted: Coq kernel + vm_compute; hand-written model coq/C01/Model.v (of the repaired code); harness props/C01.py (index caches are '
         'cleared before every operation, see ASSUMPTIONS); no axioms.',
         'DESIGN.md section 3 C01, section 8'),
 'C19': ('Coq proof of Network.sort (permutation, topological order, quiet) + verified certificate checker evaluated in Coq on every observed Network.from_units result; correspondence for sort/PathSource',
         'Part 1: Network.sort is modelled loop for loop and proved for every path and every strict partial order reach (perm, topo, no '
         'warning, input-order independence). Part 2: a Gallina checker for complete from_units results with soundness theorems against the '
         'two clauses of C19; the real from_units output of every generated flowsheet is checked inside Coq. PARTIAL: the path-finding/joining '
         'phase is validated per instance by the verified checker, not proved for all graphs (C19_from_units_statement vs _partial).',
         'Trusted: Coq kernel + vm_compute; hand-written model coq/C19/Model.v; harness props/C19.py (graph encoding of real AbstractUnit '
         'flowsheets); no axioms.',
         'DESIGN.md section 3 C19, section 8'),
 'C05': ('Coq proof over an executable Q model of reaction application (Reaction/Parallel/Series/System, mol/wt, streams/arrays, other packages) + correspondence',
         'Theorems for every linear functional a with a.S = 0 (atoms, mass): conserved by every reaction object, basis and material kind; '
         'reactant consumed exactly X*feed; parallel/series/system definitions by induction over lists; basis equivalence; no negative flow on '
         'normal return, clamp bounded by 1e-12. One clause refuted on the faithful model (phase-less reaction on a MultiStream) and recorded '
         'as a known finding with a Coq witness.',
         'Trusted: Coq kernel + vm_compute; hand-written model coq/C05/Model.v (+ C17 model); harness props/C05.py; float rounding not modelled; no axioms.',
         'DESIGN.md section 3 C05, section 8'),
 'C06': ('Coq proof of dH formula and adiabatic/isothermal energy closure, oracle-parametric in the H/T solver + correspondence on an exact stub package',
         'dH (mol, wt, latent table) and adiabatic closure Hnet\' = Hnet + Q for every solver satisfying H(solveT m h) = h; isothermal clause '
         'proved at the reference state and as the general Kirchhoff identity elsewhere (PARTIAL by design, see DESIGN C06).',
         'Trusted: Coq kernel + vm_compute; hand-written model coq/C06/Model.v over C05/C17 models; harness props/C06.py; oracle contract '
         'solve_spec (H setter inverts H) is an assumption exercised by the correspondence; no axioms.',
         'DESIGN.md section 3 C06, section 8'),
 'C03': ('Coq proof of conservation / non-negativity / light-heavy placement for the VLE, LLE, SLE wrappers for EVERY solver-oracle output + stubbed and recorded-solver correspondence',
         'The VLE wrapper (all 11 specification pairs, single-chemical branches, clips, lever rule, PH/PS correction), LLE write-back and SLE '
         'are modelled around an adversarial oracle; theorems hold for all oracle outputs. PARTIAL: lle_nonneg and vlle_conserve not proved; '
         'reactive VLE out of scope.',
         'Trusted: Coq kernel + vm_compute; hand-written model coq/C03/Model.v; harness props/C03.py with solver stubs installed from the '
         'harness process; third-party solvers are oracles; no axioms.',
         'DESIGN.md section 3 C03, section 8'),
 'C04': ('Coq proof that every Ok branch of the flash leaves T/P at the specified values (all oracles), Rachford-Rice closed form solves RR, RR monotone/unique root + correspondence',
         'PARTIAL: T/P clause proved for every branch and oracle; binary RR closed form and uniqueness of the RR root proved; H/S reproduction, '
         'phase-boundary rule, iso-fugacity fixed points and homogeneity are modelled and compared against the code but not yet theorems; '
         '"V within solver resolution" is a third-party solver contract.',
         'Trusted: Coq kernel + vm_compute; models coq/C03/Model.v, coq/C04/Model.v; harness props/C04.py; flexsolve contracts; no axioms.',
         'DESIGN.md section 3 C04, section 8'),
}
NOT_YET = 'not claimed yet: model and proofs under construction (see DESIGN.md section 8 for status)'

def main():
    checks = []
    for pid in PROPS:
        if pid in CLAIMED:
            tech, text, note, ref = CLAIMED[pid]
            checks.append({
                'property_id': pid,
                'quick_cmd': f'./check {pid} quick',
                'thorough_cmd': f'./check {pid} thorough',
                'evidence_file': f'/verif/evidence/{pid}.json',
                'replay_cmd_template': f'./check {pid} --replay {{path}}',
                'engine': 'coq',
                'level_claimed': {'category': 'proof', 'text': text, 'design_ref': ref},
                'level_note': note,
                'technique': tech,
            })
    man = {
        'version': 1,
        'setup_cmd': './check --setup',
        'hooks': {
            'guard': 'THERMOSTEAM_VERIF',
            'enable': 'no hooks in /repo: all instrumentation is done from the harness process (monkey-patching, id() inspection); '
                      'the checks export THERMOSTEAM_VERIF=1 for uniformity but the repository never reads it',
            'baseline_off_cmd': 'cd /repo && /venv/bin/python -m pytest -ra -q -p no:cacheprovider --timeout=900 --continue-on-collection-errors',
            'source_commits': [],
            'add_only': True,
        },
        'engines': [{'name': 'coq', 'path': '/verif/coq', 'serves_properties': sorted(CLAIMED),
                     'kind_free_text': 'Coq 8.16.1 development (models, proofs, property theorems) + python correspondence driver lib/vf.py'}],
        'checks': checks,
        'notes': 'Each check: (1) regenerates translated model files from /repo where a translator exists, (2) rebuilds and re-checks the '
                 'property theorems with a full .vo build and Print Assumptions, (3) runs the same inputs/histories on the implementation '
                 'and on the Coq model (vm_compute) and compares, (4) on any break searches for a concrete failing input with a direct '
                 'oracle. known_findings.txt lists recorded findings and repaired defects.',
        'not_applicable': [{'property_id': p, 'reason': NOT_YET} for p in PROPS if p not in CLAIMED],
    }
    with open(os.path.join(VERIF, 'MANIFEST.json'), 'w') as f:
        json.dump(man, f, indent=1)
    print('claimed:', sorted(CLAIMED), 'not claimed:', [p for p in PROPS if p not in CLAIMED])

if __name__ == '__main__':
    main()
