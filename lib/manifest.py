"""Regenerates /verif/MANIFEST.json from the table below (run: python3 lib/manifest.py)."""
import json, os
VERIF = os.path.dirname(os.path.dirname(os.path.abspath(__file__)))
PROPS = [json.loads(l)['id'] for l in open(os.path.join(VERIF, 'properties.jsonl'))]

# id -> (technique, level text, level note, design ref)
CLAIMED = {
 'C17': ('Coq proof over an executable Q model of Reaction arithmetic + correspondence (vm_compute) against the real classes',
         'Theorems (coq/C17/Props.v) over exact rationals for all stoichiometries/conversions/feeds/histories: a+b = parallel, (a+b)-b = a, '
         'k*a, a/k, in-place = binary, operands unchanged for every history, set/item conversion sharing. The model is hand-written and '
         'tied to /repo by running the same operation histories on the real Reaction classes and on the model inside Coq.',
         'Trusted: Coq kernel + vm_compute; hand-written model coq/C17/Model.v; correspondence harness props/C17.py; float rounding not '
         'modelled (1e-9 relative comparison, dyadic inputs so branch decisions are exact); no axioms (closed under the global context).',
         'DESIGN.md section 3 C17'),
 'C01': ('Coq proof of per-chemical conservation for mixing (any receivers/inlets/packages/phases, receiver among inlets, copy_like and fallback paths), totality, splitting, separating, copy-with-removal, scaling + correspondence over real streams and 5 property packages',
         '24 theorems by induction over inlet lists / phase rows: mix_value (full), mix_total, mix_frame, split_value/product/nonneg, '
         'separate_value/restores, copy_remove (IDs=all), scale, remap, SparseVector.mix_from accounting. Not covered by a theorem: copy_flow with '
         'partial IDs/exclude and MultiStream.copy_flow (correspondence/oracle only).',
         'Trusted: Coq kernel + vm_compute; hand-written model coq/C01/*.v (of the repaired code); harness props/C01.py (index caches are '
         'cleared before every operation, see ASSUMPTIONS); no axioms.',
         'DESIGN.md section 3 C01, section 8'),
 'C08': ('Coq proof over a hand-written Q model of bubble/dew point wrappers with the root finders as oracles, residual kernels and z pre-processing GENERATED from source and proved equal to the model by reflexivity + stubbed-solver correspondence',
         'normalised output, solve_* return roots of the residual of the NORMALISED composition (scale invariance), permutation invariance, ideal closed forms, '
         'P_dew <= P_bubble (weighted AM-HM) and T_bubble <= T_dew for ideal packages with increasing Psat, T<->P inverse, single component, instance cache. '
         'PARTIAL: ordering with composition-dependent activity coefficients is not a theorem (azeotropes); root finding is a flexsolve contract.',
         'Trusted: Coq kernel + vm_compute; translator tr/C08_kernels.py; model coq/C08/Model.v; harness props/C08.py; contracts secant_ok/iq_ok/weg_fix; no axioms.',
         'DESIGN.md section 3 C08, section 8'),
 'C14': ('Coq proof over an object-graph model of the property memo (key cells, memo dicts, proxies, links, phase views): every read equals the package value at the current state for ALL histories + correspondence with an injective stub property package',
         'read_fresh via a memo-coherence invariant by induction over histories of all public mutators, proxies, links, views and reads; '
         'read_equals_fresh_stream proved for single-phase objects (multi-phase follows from read_fresh + spec_depends_only_on_state); the unrepaired proxy code is refuted in Coq.',
         'Trusted: Coq kernel + vm_compute; hand-written model coq/C14/Model.v; harness props/C14.py; contract: package functions respect numeric equality; no axioms.',
         'DESIGN.md section 3 C14, section 8'),
 'C15': ('LLE/SLE kernels and the cache decision GENERATED from lle.py/sle.py on every run (fail-closed translator) + Coq proofs of cache soundness, cached-branch consistency, labelling, SLE bounds for all histories + stubbed-solver correspondence',
         'use_cache_sound (a call never reuses K from another T or composition), solver_sees_current, cached split is the RR split of the current z, '
         'top_label, SLE only-solute-moves/bounds/pure rule. Equal-activity at fixed points is REFUTED for the inner loop as written (pinned by a doctest) -> '
         'known finding with Coq witness, _partial proved; homogeneity PARTIAL (normalised feed identical for k*mol; scatter scaling lemma missing). '
         'Global optimisers (SHGO/DE) and flexsolve are oracles.',
         'Trusted: Coq kernel + vm_compute; translator tr/C15_kernels.py; hand-written coq/C15/{Base,Model}.v; harness props/C15.py; no axioms.',
         'DESIGN.md section 3 C15, section 8'),
 'C09': ('Coq proof over a store of sparse vectors / logical vectors / sparse arrays: representation invariant for every operation history, refinement of dense NumPy semantics (Dense.v) for the arithmetic/comparison kernels, frames, rejections + correspondence (random histories, exhaustive small scope) with NumPy run on the dense images',
         'history_invariant (stored entries are exactly the non-zeros after ANY history of modelled operations over all object kinds), frame/history_frame, '
         'rejected_unchanged, arithmetic/neg/abs/comparison refinement incl. broadcast branches, in-place = binary, history_refines for the float-vector '
         'fragment. PARTIAL: division broadcast branches, logical kernels, get/set, reductions and array lifts are covered by invariant/frame theorems and '
         'the correspondence, not by refinement theorems; 8 clauses refuted on the faithful model (deviations from NumPy kept by the source) -> known findings with Coq witnesses.',
         'Trusted: Coq kernel + vm_compute; hand-written model coq/C09/{Model,Dense}.v; harness props/C09.py; NumPy itself is the reference oracle in the harness; no axioms.',
         'DESIGN.md section 3 C09, Appendix D, section 8'),
 'C10': ('Coq proof of cache coherence (lookup = pure classification for every lookup history), get/set refinement of dense positional access, name resolution + correspondence with histories that fill and evict both bounded caches',
         'lookup_pure by a cache-coherence invariant over unbounded histories (100-entry FIFO shared with index_overlap, 500/100 class-level cache), '
         'lookup_total, get_refines (chem and material, all key forms), set_get family with frames, group_scalar, names_single.',
         'Trusted: Coq kernel + vm_compute; hand-written model coq/C10/Model.v; harness props/C10.py; wf_chems hypothesis (distinct IDs/CAS); no axioms.',
         'DESIGN.md section 3 C10, section 8'),
 'C12': ('Coq proof over a representation state machine (Stream<->MultiStream, phase sets, cached phase views, save/restore) for all histories + correspondence on real streams (exhaustive depth 4 in thorough)',
         'totals/T/P preserved by every conversion along every history, placement rule, views_live (cached sub-streams alias the current rows and '
         'share T,P), write-through both ways, data_roundtrip, totality of covered targets. One clause refuted on the faithful model (Stream.vle/.lle/.sle '
         'relabel material; deliberate in the source) -> 5 known findings with Coq witness; proved _partial where the label is not rewritten.',
         'Trusted: Coq kernel + vm_compute; hand-written model coq/C12/Model.v; harness props/C12.py; no axioms.',
         'DESIGN.md section 3 C12, section 8'),
 'C13': ('Coq proof over a heap (object-graph) model: copy equal/disjoint for all mutation histories, proxy/flow_proxy/link_with share exactly the advertised cells, unlink, reduce round trip + correspondence with id()-level aliasing and real pickle',
         'copy_equal, copy_disjoint (every interleaved history), mutators_local, proxy_all, flow_proxy_flows_only, link_exact (all 8 flag subsets), '
         'unlink_sep (PARTIAL: refuted for unlink after proxy -> known finding with witness), copy_like_eq (PARTIAL: proved Stream<-Stream, other '
         'kind combinations by correspondence), reduce_roundtrip (PARTIAL: plain fields proved; flows/phases/T/P by correspondence and real pickle).',
         'Trusted: Coq kernel + vm_compute; hand-written model coq/C13/Model.v; harness props/C13.py; pickle itself is run, not modelled; no axioms.',
         'DESIGN.md section 3 C13, section 8'),
 'C11': ('Coq proof over a heap model of molar/mass/volumetric views, their caches and memos, unit factors as oracle: alias invariant and value laws after every history + correspondence with an injective stub molar volume and real unit factors',
         'alias_inv and the full invariant for all histories of view reads/writes and structural ops (T/P/phase(s) setters, link/unlink, copy_like, '
         'package reset), mass_get/set, vol_get (at the current phase and T,P up to the deliberate 1e-12 memo tolerance), totals (mol, mass, vol), '
         'units (factor, other unit, wrong dimension, set-then-get), set_total_keeps_composition.',
         'Trusted: Coq kernel + vm_compute; hand-written model coq/C11/Model.v; harness props/C11.py; molar volume and pint factors are oracles; no axioms.',
         'DESIGN.md section 3 C11, section 8'),
 'C02': ('Coq proof of the energy bookkeeping of mix_from/separate_out and the H/h/S/Hnet setters, oracle-parametric in the property package and T-solver; Newton kernels of mixture.py + correspondence on an exact stub package',
         'mix_energy (H_out = sum H_in before + Q, receiver among inlets, fallback path), mix_pressure, frames, sep_energy, setter round trips and '
         'idempotence from the solver contracts, iter_T fixed point / affine exactness. Solver convergence is an oracle contract (solve_spec).',
         'Trusted: Coq kernel + vm_compute; hand-written model coq/C02/Model.v; harness props/C02.py; contracts solve_spec/solve_fix; flexsolve internals not modelled; no axioms.',
         'DESIGN.md section 3 C02, section 8'),
 'C07': ('Model GENERATED from free_energy.py / _chemical.py / ideal_mixture_model.py on every run (fail-closed ast translators) + Coquelicot proofs over R for arbitrary Cn, Tm, Tb, T, P + correspondence of the generated terms at Q against real Chemical objects',
         'reference values, dH/dT = Cn, dS/dT = Cn/T, pressure term, phase jumps, phase-locked chemicals, mixture linearity for all nine (ref, phase) '
         'pairs. mix_entropy and mixing_never_lowers_S are refuted on the generated model (IdealEntropyModel mixing term; pinned by a doctest) -> known '
         'finding with witness; the ideal formula is proved to satisfy the property.',
         'Trusted: Coq kernel + vm_compute; translators tr/C07_*.py; hand-written glue coq/C07/Model.v; stdlib axioms sig_not_dec, sig_forall_dec, '
         'functional_extensionality_dep, Classical_Prop.classic (reals, ln); excess/EOS terms not modelled.',
         'DESIGN.md section 3 C07, section 8'),
 'C16': ('Kernels GENERATED from activity_coefficients.py on every run (fail-closed translator) + proofs (any carrier: x untouched, no-group = 1, f = call; over R: literature form, pure limit, permutation equivariance, binary Gibbs-Duhem for the combinatorial part) + exact stand-in correspondence',
         'PARTIAL: Gibbs-Duhem for the residual part and for n > 2 is measured by the oracle, not proved; pure_limit for the whole coefficient under the '
         'reference_is_pure_mixture hypothesis.',
         'Trusted: Coq kernel + vm_compute; translator tr/C16_kernels.py; hand-written wrappers coq/C16/{Ops,Wrapper,Model}.v; stdlib real axioms + classic for the R theorems.',
         'DESIGN.md section 3 C16, section 8'),
 'C20': ('Coq proof of the separation helpers as algebra over flow vectors with the phase-fraction/equilibrium/linear solvers as oracles + correspondence on real streams with stubbed and real solvers',
         '33 theorems: mix_and_split, clip range, moisture adjustment (conserves in every outcome, target reached), partition (conserves always, '
         'K reproduced with explicit common factor, non-negativity, forced chemicals), lle/vle wrappers with efficiency, phase_split, chemical_splits, material_balance.',
         'Trusted: Coq kernel + vm_compute; hand-written model coq/C20/Model.v; harness props/C20.py; oracle contracts (A x = b; rowL + rowl = feed); no axioms.',
         'DESIGN.md section 3 C20, section 8'),
 'C18': ('Coq proof that the docking invariant is preserved by every rewiring operation within its precondition, lifted to all operation sequences + correspondence against real AbstractUnit/AbstractStream objects (random histories, bounded exhaustive enumeration)',
         'Inv (in ins iff sink, in outs iff source, no object in two ports, fixed lists keep size, placeholders point back and are empty) is '
         'preserved by each modelled operation (StreamSequence ops, pipes, unit.insert/disconnect/take_place_of/replace_with, reconnect, constructors) '
         'within exactly the property preconditions; per-precondition counterexamples show none can be dropped; lifted by induction to all histories.',
         'Trusted: Coq kernel + vm_compute; hand-written model coq/C18/Model.v; harness props/C18.py (per-step states folded into a rolling checksum, '
         'final state compared in full); no axioms.',
         'DESIGN.md section 3 C18, Appendix C, section 8'),
 'C19': ('Coq proof of Network.sort (permutation, topological order, quiet) + verified certificate checker evaluated in Coq on every observed Network.from_units result; correspondence for sort/PathSource',
         'Part 1: Network.sort is modelled loop for loop and proved for every path and every strict partial order reach (perm, topo, no '
         'warning, input-order independence). Part 2: a Gallina checker for complete from_units results with soundness theorems against the '
         'two clauses of C19; the real from_units output of every generated flowsheet is checked inside Coq. PARTIAL: the path-finding/joining '
         'phase is validated per instance by the verified checker, not proved for all graphs (C19_from_units_statement vs _partial).',
         'Trusted: Coq kernel + vm_compute; hand-written model coq/C19/Model.v; harness props/C19.py (graph encoding of real AbstractUnit '
         'flowsheets); no axioms.',
         'DESIGN.md section 3 C19, section 8'),
 'C05': ('Coq proof over an executable Q model of reaction application (Reaction/Parallel/Series/System, mol/wt, streams/arrays, other packages) + correspondence',
         'Theorems for every linear functional a with a.S = 0 (atoms, mass): conserved by every reaction object, basis and material kind; '
         'reactant consumed exactly X*feed; parallel/series/system definitions by induction over lists; basis equivalence; no negative flow on '
         'normal return, clamp bounded by 1e-12. One clause refuted on the faithful model (phase-less reaction on a MultiStream) and recorded '
         'as a known finding with a Coq witness.',
         'Trusted: Coq kernel + vm_compute; hand-written model coq/C05/Model.v (+ C17 model); harness props/C05.py; float rounding not modelled; no axioms.',
         'DESIGN.md section 3 C05, section 8'),
 'C06': ('Coq proof of dH formula and adiabatic/isothermal energy closure, oracle-parametric in the H/T solver + correspondence on an exact stub package',
         'dH (mol, wt, latent table) and adiabatic closure Hnet\' = Hnet + Q for every solver satisfying H(solveT m h) = h; isothermal clause '
         'proved at the reference state and as the general Kirchhoff identity elsewhere (PARTIAL by design, see DESIGN C06).',
         'Trusted: Coq kernel + vm_compute; hand-written model coq/C06/Model.v over C05/C17 models; harness props/C06.py; oracle contract '
         'solve_spec (H setter inverts H) is an assumption exercised by the correspondence; no axioms.',
         'DESIGN.md section 3 C06, section 8'),
 'C03': ('Coq proof of conservation / non-negativity / light-heavy placement for the VLE, LLE, SLE wrappers for EVERY solver-oracle output + stubbed and recorded-solver correspondence',
         'The VLE wrapper (all 11 specification pairs, single-chemical branches, clips, lever rule, PH/PS correction), LLE write-back and SLE '
         'are modelled around an adversarial oracle; theorems hold for all oracle outputs. PARTIAL: lle_nonneg and vlle_conserve not proved; '
         'reactive VLE out of scope.',
         'Trusted: Coq kernel + vm_compute; hand-written model coq/C03/Model.v; harness props/C03.py with solver stubs installed from the '
         'harness process; third-party solvers are oracles; no axioms.',
         'DESIGN.md section 3 C03, section 8'),
 'C04': ('Coq proof that every Ok branch of the flash leaves T/P at the specified values (all oracles), Rachford-Rice closed form solves RR, RR monotone/unique root, and that the bracketing solver (model of flexsolve.IQ_interpolation) returns within its stated resolution for every residual + correspondence (wrapper, kernels generated from source, solver and its call sites)',
         'PARTIAL: T/P clause proved for every branch and oracle; binary RR closed form and uniqueness of the RR root proved; H/S reproduction, '
         'phase-boundary rule, iso-fugacity fixed points and homogeneity are modelled and compared against the code but not yet theorems; '
         '"V within solver resolution" is a theorem about the model of flexsolve.IQ_interpolation (coq/C04/Flx.v), tied to the installed flexsolve and to the six call sites of vle.py by correspondence.',
         'Trusted: Coq kernel + vm_compute; models coq/C03/Model.v, coq/C04/Model.v, coq/C04/Flx.v; harness props/C04.py; flexsolve fixed-point contracts; no axioms.',
         'DESIGN.md section 3 C04, section 8'),
}
NOT_YET = 'not claimed yet: model and proofs under construction (see DESIGN.md section 8 for status)'  # unused once every property is claimed

def main():
    checks = []
    for pid in PROPS:
        if pid in CLAIMED:
            tech, text, note, ref = CLAIMED[pid]
            sm = os.path.join(VERIF, 'summaries', pid + '.md')   # refreshed by the property's builder after the last strengthening round
            if os.path.exists(sm):
                text = ' '.join(open(sm).read().split())
            checks.append({
                'property_id': pid,
                'quick_cmd': f'./check {pid} quick',
                'thorough_cmd': f'./check {pid} thorough',
                'evidence_file': f'/verif/evidence/{pid}.json',
                'replay_cmd_template': f'./check {pid} --replay {{path}}',
                'engine': 'coq',
                'level_claimed': {'category': 'proof', 'text': text, 'design_ref': ref},
                'level_note': note,
                'technique': tech,
            })
    man = {
        'version': 1,
        'setup_cmd': './check --setup',
        'hooks': {
            'guard': 'THERMOSTEAM_VERIF',
            'enable': 'no hooks in /repo: all instrumentation is done from the harness process (monkey-patching, id() inspection); '
                      'the checks export THERMOSTEAM_VERIF=1 for uniformity but the repository never reads it',
            'baseline_off_cmd': 'cd /repo && /venv/bin/python -m pytest -ra -q -p no:cacheprovider --timeout=900 --continue-on-collection-errors',
            'source_commits': [],
            'add_only': True,
        },
        'engines': [{'name': 'coq', 'path': '/verif/coq', 'serves_properties': sorted(CLAIMED),
                     'kind_free_text': 'Coq 8.16.1 development (models, proofs, property theorems) + python correspondence driver lib/vf.py'}],
        'checks': checks,
        'notes': 'Each check: (1) regenerates translated model files from /repo where a translator exists, (2) rebuilds and re-checks the '
                 'property theorems with a full .vo build and Print Assumptions, (3) runs the same inputs/histories on the implementation '
                 'and on the Coq model (vm_compute) and compares, (4) on any break searches for a concrete failing input with a direct '
                 'oracle. known_findings.txt lists recorded findings and repaired defects.',
        'not_applicable': [{'property_id': p, 'reason': NOT_YET} for p in PROPS if p not in CLAIMED],
    }
    with open(os.path.join(VERIF, 'MANIFEST.json'), 'w') as f:
        json.dump(man, f, indent=1)
    print('claimed:', sorted(CLAIMED), 'not claimed:', [p for p in PROPS if p not in CLAIMED])

if __name__ == '__main__':
    main()
