"""Regenerates /verif/MANIFEST.json from the table below (run: python3 lib/manifest.py)."""
import json, os
VERIF = os.path.dirname(os.path.dirname(os.path.abspath(__file__)))
PROPS = [json.loads(l)['id'] for l in open(os.path.join(VERIF, 'properties.jsonl'))]

# id -> (technique, level text, level note, design ref)
CLAIMED = {
 'C17': ('Coq proof over an executable Q model of Reaction arithmetic + correspondence (vm_compute) against the real classes',
         'Theorems (coq/C17/Props.v) over exact rationals for all stoichiometries/conversions/feeds/histories: a+b = parallel, (a+b)-b = a, '
         'k*a, a/k, in-place = binary, operands unchanged for every history, set/item conversion sharing. The model is hand-written and '
         'tied to /repo by running the same operation histories on the real Reaction classes and on the model inside Coq.',
         'Trusted: Coq kernel + vm_compute; hand-written model coq/C17/Model.v; correspondence harness props/C17.py; float rounding not '
         'modelled (1e-9 relative comparison, dyadic inputs so branch decisions are exact); no axioms (closed under the global context).',
         'DESIGN.md section 3 C17'),
}
NOT_YET = 'not claimed yet: model and proofs under construction (see DESIGN.md section 8 for status)'

def main():
    checks = []
    for pid in PROPS:
        if pid in CLAIMED:
            tech, text, note, ref = CLAIMED[pid]
            checks.append({
                'property_id': pid,
                'quick_cmd': f'./check {pid} quick',
                'thorough_cmd': f'./check {pid} thorough',
                'evidence_file': f'/verif/evidence/{pid}.json',
                'replay_cmd_template': f'./check {pid} --replay {{path}}',
                'engine': 'coq',
                'level_claimed': {'category': 'proof', 'text': text, 'design_ref': ref},
                'level_note': note,
                'technique': tech,
            })
    man = {
        'version': 1,
        'setup_cmd': './check --setup',
        'hooks': {
            'guard': 'THERMOSTEAM_VERIF',
            'enable': 'no hooks in /repo: all instrumentation is done from the harness process (monkey-patching, id() inspection); '
                      'the checks export THERMOSTEAM_VERIF=1 for uniformity but the repository never reads it',
            'baseline_off_cmd': 'cd /repo && /venv/bin/python -m pytest -ra -q -p no:cacheprovider --timeout=900 --continue-on-collection-errors',
            'source_commits': [],
            'add_only': True,
        },
        'engines': [{'name': 'coq', 'path': '/verif/coq', 'serves_properties': sorted(CLAIMED),
                     'kind_free_text': 'Coq 8.16.1 development (models, proofs, property theorems) + python correspondence driver lib/vf.py'}],
        'checks': checks,
        'notes': 'Each check: (1) regenerates translated model files from /repo where a translator exists, (2) rebuilds and re-checks the '
                 'property theorems with a full .vo build and Print Assumptions, (3) runs the same inputs/histories on the implementation '
                 'and on the Coq model (vm_compute) and compares, (4) on any break searches for a concrete failing input with a direct '
                 'oracle. known_findings.txt lists recorded findings and repaired defects.',
        'not_applicable': [{'property_id': p, 'reason': NOT_YET} for p in PROPS if p not in CLAIMED],
    }
    with open(os.path.join(VERIF, 'MANIFEST.json'), 'w') as f:
        json.dump(man, f, indent=1)
    print('claimed:', sorted(CLAIMED), 'not claimed:', [p for p in PROPS if p not in CLAIMED])

if __name__ == '__main__':
    main()
