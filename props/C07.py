"""C07 -- pure-component and mixture enthalpy/entropy are thermodynamically consistent.

Tie T: translate() regenerates coq/C07/Gen_*.v from free_energy.py, _chemical.py (_init_energies and the
Sfus statement of _init_data) and ideal_mixture_model.py on every run.  Because the translators are trusted, the correspondence
below additionally runs the generated definitions (over Q, integrals as tables, log as a rational
stand-in) against REAL Chemical / IdealMixture objects whose heat-capacity handles are fakes that
return the same table values."""
import os, sys, random, math
from fractions import Fraction as F
import vf
from vf import q, clist, cbool, copt, frac, fr_json

sys.path.insert(0, os.path.join(vf.VERIF, 'tr'))

ID = 'C07'
COQ_DIR = 'C07'
MODEL_FILES = ('InstQ.v',)
PROPS_FILES = ('Props.v',)
COQ_HEADER = 'From V Require Import Common.Num C07.Model C07.Rewire C07.Packages C07.InstQ.\nOpen Scope Q_scope.'
RULE = ('chem cases: one real Chemical per case in one of 15 configurations (Cn PhaseHandle / phase-locked at s,l,g / no handle) x '
        'phase_ref s,l,g, data Tm,Tb,Hfus,Sfus,S0 drawn from dyadic alphabets including None and 0.0, Hvap handle present / '
        'falsy / returning None or 0, per-phase Cn handles truthy or falsy; 4-9 queries H|S(phase in s,l,g,S,L; T in T_ref,Tm,Tb,'
        'others,None; P in multiples of P_ref, inexact, 0, negative, None).  mix cases: 2-4 such chemicals, mol vectors with zeros, '
        'negatives and a/-a pairs, observations mixture.H/S/Cn/xH/xS with and without (table) excess models.  single cases: the two '
        'single-phase mixture models on table models.  sfus cases: the real Chemical._init_data with the database look-ups replaced by '
        'case values (arguments Hfus/Tm given, None or 0; database values present or None), observed: stored _Hfus, _Tm, _Sfus or the '
        'exception.  hist cases: 1-2 real chemicals with constant user heat-capacity / Hvap methods, then 2-7 operations from '
        'copy, in-place change of the handle objects (method selection or add_method) + reset_free_energies, copy_models_from(other, names) '
        'with names over Cn/Hvap/Psat/sigma, at_state, phase_ref/Tm/Tb/Hfus/Sfus setters, reset; afterwards H/S of EVERY chemical in '
        'the store (copies included) at 3-5 (phase,T,P) are compared with the state machine of coq/C07/Rewire.v (integrals harvested '
        'from the real handles).  Integrals are opaque seeded tables keyed by (phase, a, b); log is a seeded '
        'rational stand-in patched into free_energy.py and ideal_mixture_model.py.  Compared: kind of _H/_S after wiring '
        '(None/functor/PhaseHandle) or the exception of _init_energies, and per query the value (1e-9 relative) or exception class. '
        'ctor cases: a database chemical (six IDs) x phase_ref s,l,g built by ONE call of the real constructor with method= drawn from names of Hvap models, '
        'heat-capacity-only models and an unknown name (or absent), Hvap= user value or absent, default= or absent; nothing is done to the object afterwards; '
        'observed H/S at 4-6 (phase, T in T_ref,Tm,Tb,others, P) -- always one at Tb in l or g -- , Cn of each phase and Hvap(Tb), compared with Rewire.construct over the '
        'generated statement order (handle answers under the default and the requested method are taken from a plainly built reference object). '
        'non-trivial = at least one query returns a number; distinct = distinct case hash')
ASSUMPTIONS = [
    'heat-capacity handles are oracles: a handle that is truthy has total integrals T_dependent_property_integral[_over_T](a, b) '
    'for numeric a, b (raises TypeError for None); a falsy handle raises (thermo raises UnboundLocalError; only "raises" is modelled)',
    'theorems: Cn ph continuous on the temperature interval used, I ph a b = RInt (Cn ph) a b, J ph a b = RInt (fun t => Cn ph t / t) a b, '
    '0 < Tm, 0 < Tb (in either order), 0 < T_ref, 0 < T, 0 < P, 0 < P_ref, all data present (not None), Hvap(Tb) <> 0',
    'PhaseTPHandle.force_gas_critical_phase is False (the class default)',
    'float rounding is not modelled: values compared to 1e-9 relative; branch decisions (truthiness, == 0, <= 0) are exact because inputs are dyadic',
]
TRUSTED = [
    'translators tr/C07_pysubset.py, tr/C07_free_energy.py, tr/C07_init_energies.py, tr/C07_mixture_models.py, tr/C07_init_data.py '
    '(Python ast -> Gallina, fail closed)',
    'hand-written coq/C07/Model.v: Python value/exception semantics of + - * / log, truthiness, sum([...]), SparseVector(list).dct, '
    'Functor call convention (TFunctor drops P), PhaseFunctorBuilder.__call__, PhaseTPHandle/MockPhaseTPHandle dispatch, Mixture.H/S/xH/xS '
    '(tie for these = the correspondence check)',
    'tr/C07_rewire.py translates only WHETHER (under which guard) copy, copy_models_from, at_state, the phase_ref/Tm/Tb/Hfus/Sfus setters and '
    'reset_free_energies rebuild the wiring from the chemical\'s own fields; WHAT each of them changes (coq/C07/Rewire.v: copy_maybe gives new '
    'handle objects, lock_phase, reset_constant, reset_energy_constant, the Cn/Hvap branches of copy_models_from) is modelled by hand, tie = hist cases',
    'constructor: tr/C07_rewire.py translates the ORDER of the wiring-relevant statements of Chemical.__new__ (and that cls.new / cls.blank get free_energies=False); '
    'what set_method(method) and default() change is by hand (Rewire.ctor_step_run: set_method switches the Hvap handle iff it has the method and leaves the Cn handles, '
    'for names that are not sublimation-pressure models; default() on a chemical without functors ends with a rebuild), tie = ctor cases; phase= constructions are not generated',
    'of Chemical._init_data only the statement `self._Sfus = ...` is translated; the stored _Hfus/_Tm it reads are inputs of the model',
    'excess-energy functors (Excess_*; equation-of-state departure functions) are not translated: include_excess_energies is False by default',
]
CASE_TIMEOUT = 60

T_REF, P_REF = 298.15, 101325.0
PHC = {'s': 'Ps', 'l': 'Pl', 'g': 'Pg'}            # phases proper (phase_ref, locked state, keys of the integral tables)
LAB = {'s': 'Ls', 'l': 'Ll', 'g': 'Lg', 'S': 'Lus', 'L': 'Lul'}
PHTP = {k: f'(tpph {v})' for k, v in LAB.items()}   # phase LABEL of a query -> the model the generated PhaseTPHandle dispatch selects
PHT = {k: f'(tph {v})' for k, v in LAB.items()}     # ... the generated PhaseTHandle dispatch (Cn)
ERR = {'TypeError': 'EType', 'ZeroDivisionError': 'EZeroDiv', 'ValueError': 'EValue', 'KeyError': 'EKey',
       'IndexError': 'EIndex', 'OracleFailure': 'EOther'}


# ---------------------------------------------------------------------------------------------- translators
def translate():
    import importlib
    fe = importlib.import_module('C07_free_energy')
    ie = importlib.import_module('C07_init_energies')
    mm = importlib.import_module('C07_mixture_models')
    out_dir = os.path.join(vf.COQ, COQ_DIR)
    meta, i1 = fe.run(vf.REPO, out_dir)
    i2 = ie.run(vf.REPO, out_dir, meta)
    i3 = mm.run(vf.REPO, out_dir)
    i4 = importlib.import_module('C07_init_data').run(vf.REPO, out_dir)
    i5 = importlib.import_module('C07_rewire').run(vf.REPO, out_dir)
    i6 = importlib.import_module('C07_packages').run(vf.REPO, out_dir)
    i7 = importlib.import_module('C07_handles').run(vf.REPO, out_dir)
    i8 = importlib.import_module('C07_phase_handle').run(vf.REPO, out_dir)
    return [i1, i2, i3, i4, i5, i6, i7, i8]


# ---------------------------------------------------------------------------------------------- environment
_env = {}
def env():
    if not _env:
        import thermosteam as tmo
        import thermosteam.free_energy as fe
        import thermosteam.mixture.ideal_mixture_model as imm
        import thermosteam.mixture.mixture as mixmod
        from thermosteam.base import PhaseHandle, PhaseTHandle
        _env.update(tmo=tmo, fe=fe, imm=imm, mixmod=mixmod, PhaseHandle=PhaseHandle, PhaseTHandle=PhaseTHandle,
                    real_log=(fe.log, imm.log), n=0)
    return _env


class OracleFailure(Exception):
    pass


def tval(seed, kind, ph, a, b):
    """opaque table value: a dyadic rational determined by the key"""
    return random.Random(f'{seed}|{kind}|{ph}|{a!r}|{b!r}').randint(-8192, 8192) / 8.0


class FakeCn:
    """stand-in for a thermo heat-capacity handle; table mode (opaque values) or analytic mode (Cn = a + b T)"""
    def __init__(self, ph, seed, truthy, rec, analytic=None):
        self.ph, self.seed, self.truthy, self.rec, self.analytic = ph, seed, truthy, rec, analytic
    def __bool__(self):
        return self.truthy
    def copy(self):
        return self
    def __call__(self, T, P=None):
        if T is None: raise TypeError('None temperature')
        if not self.truthy: return None
        if self.analytic:
            a, b = self.analytic
            return a + b * T
        self.rec['cn'].add((self.ph, T))
        return tval(self.seed, 'C', self.ph, T, T)
    def T_dependent_property_integral(self, Ta, Tb):
        if Ta is None or Tb is None: raise TypeError('None bound')
        if not self.truthy: raise OracleFailure('handle has no method')
        if self.analytic:
            a, b = self.analytic
            return a * (Tb - Ta) + b * (Tb * Tb - Ta * Ta) / 2.
        self.rec['I'].add((self.ph, Ta, Tb))
        return tval(self.seed, 'I', self.ph, Ta, Tb)
    def T_dependent_property_integral_over_T(self, Ta, Tb):
        if Ta is None or Tb is None: raise TypeError('None bound')
        if not self.truthy: raise OracleFailure('handle has no method')
        if self.analytic:
            a, b = self.analytic
            return a * math.log(Tb / Ta) + b * (Tb - Ta)
        self.rec['J'].add((self.ph, Ta, Tb))
        return tval(self.seed, 'J', self.ph, Ta, Tb)


class FakeHvap:
    def __init__(self, mode, val):
        self.mode, self.val = mode, val
    def __bool__(self):
        return self.mode != 'falsy'
    def copy(self):
        return self
    def __call__(self, T, P=None):
        return None if self.mode == 'none' else self.val


ANALYTIC = {'s': (24., 0.03125), 'l': (64., 0.0625), 'g': (32., 0.015625)}


def build_chem(spec, analytic=False):
    """a REAL thermosteam Chemical whose data fields and Cn/Hvap handles are set from the spec, wired by the real
    reset_free_energies / at_state / phase_ref setter.  returns (chemical, record of table keys, wiring error or None)"""
    e = env(); tmo = e['tmo']
    e['n'] += 1
    rec = {'I': set(), 'J': set(), 'cn': set()}
    c = tmo.Chemical(f'C07x{e["n"]}_', cache=False, search_db=False, MW=16., Hf=0., S0=0.)
    for f in ('Tm', 'Tb', 'Hfus', 'Sfus', 'S0'):
        setattr(c, '_' + f, spec[f])
    c._Hvap = FakeHvap(spec['hvap'], spec['hvap_val'])
    k = 1. + (spec['seed'] % 7) / 8.            # analytic mode: chemicals with different seeds have different heat capacities
    hs = {ph: FakeCn(ph, spec['seed'], bool(t), rec, (ANALYTIC[ph][0] * k, ANALYTIC[ph][1] * k) if analytic else None)
          for ph, t in zip('slg', spec['has'])}
    err = None
    tdp = getattr(sys.modules['thermosteam._chemical'], 'TDependentProperty', None)
    try:
        if spec['kind'] == 'plain':
            c._Cn = hs['l']
            c._phase_ref = spec['pr']
            c.reset_free_energies()
        else:
            c._Cn = e['PhaseTHandle']('Cn', hs['s'], hs['l'], hs['g'], None)
            if spec['kind'] == 'handle':
                c._phase_ref = spec['pr']
                c.reset_free_energies()
            else:
                c.at_state(spec['sp'])
                if spec['pr'] != spec['sp']:
                    c.phase_ref = spec['pr']
    except Exception as ex:
        err = type(ex).__name__
    finally:
        if tdp is not None:
            tdp.RAISE_PROPERTY_CALCULATION_ERROR = True
    return c, rec, err


class patched_log:
    def __init__(self, ln):
        self.c, self.d = ln
    def __enter__(self):
        c, d = self.c, self.d
        def log(x):
            if x <= 0: raise ValueError('math domain error')
            return (x - c) / d
        e = env()
        e['fe'].log = log
        e['imm'].log = log
    def __exit__(self, *a):
        e = env()
        e['fe'].log, e['imm'].log = e['real_log']


def observe(f, *args):
    try:
        v = f(*args)
    except Exception as ex:
        n = type(ex).__name__
        if n not in ERR:
            raise
        return ['err', n]
    if v is None:
        return ['none']
    return ['ok', fr_json(frac(v))]


def kind_of(h):
    if h is None: return 0
    return 2 if isinstance(h, env()['PhaseHandle']) else 1


def handle_of(c, var):
    """the phase handle the mixture models call: the real create_mixture_model wrapper"""
    return env()['mixmod'].create_mixture_model([c], var, lambda handles, v: handles[0])


def rec_json(rec):
    return {k: sorted([list(x) for x in v], key=repr) for k, v in rec.items()}


DB_FUNCS = ['normal_melting_point_temperature', 'normal_boiling_point_temperature', 'critical_point_temperature',
            'critical_point_pressure', 'critical_point_volume', 'acentric_factor', 'triple_point_pressure',
            'triple_point_temperature', 'heat_of_fusion', 'dipole_moment']


def run_init_data(case):
    """the real Chemical._init_data with the database look-ups replaced by the case's values"""
    e = env(); tmo = e['tmo']
    mod = sys.modules['thermosteam._chemical']
    saved = {n: getattr(mod, n) for n in DB_FUNCS}
    db = {'normal_melting_point_temperature': case['db_Tm'], 'heat_of_fusion': case['db_Hfus']}
    e['n'] += 1
    c = tmo.Chemical(f'C07d{e["n"]}_', cache=False, search_db=False, MW=16., Hf=0., S0=0.)
    try:
        for n in DB_FUNCS:
            setattr(mod, n, (lambda v: (lambda CAS: v))(db.get(n)))
        err = None
        try:
            c._init_data('0-00-0', 16., case['Tm'], None, None, None, None, None, None, None, case['Hfus'],
                         None, None, None, None)
        except Exception as ex:
            err = type(ex).__name__
            if err not in ERR: raise
    finally:
        for n, f in saved.items():
            setattr(mod, n, f)
    def o(x):
        return None if x is None else fr_json(frac(x))
    return {'stored_Hfus': o(c._Hfus), 'stored_Tm': o(c._Tm),
            'Sfus': ['err', err] if err else (['none'] if c._Sfus is None else ['ok', fr_json(frac(c._Sfus))])}


# ---------------------------------------------------------------------------------------------- property packages
def run_pkg_ops(chems, ops):
    """store of real Thermo / IdealThermo objects derived by the operations"""
    tmo = env()['tmo']
    store = []
    for o in ops:
        if o[0] == 'new': store.append(tmo.Thermo([chems[i] for i in o[1]], skip_checks=True))
        elif o[0] == 'subset': store.append(store[o[1]].subset([chems[i] for i in o[2]]))
        elif o[0] == 'extended': store.append(store[o[1]].extended([chems[i] for i in o[2]]))
        elif o[0] == 'ideal': store.append(store[o[1]].ideal())
        else: raise ValueError(o[0])
    return store


def gen_pkg(rng):
    nc = rng.randint(3, 5)
    specs = [gen_spec(rng, complete=rng.random() < 0.8) for _ in range(nc)]
    first = rng.sample(range(nc), rng.randint(2, nc))
    ops = [['new', first]]
    sizes = [list(first)]
    ideal = [False]
    for _ in range(rng.randint(1, 4)):
        i = rng.randrange(len(sizes)); cur = sizes[i]
        r = rng.random()
        if r < 0.45:                      # the same chemicals in another order
            sel = list(cur); rng.shuffle(sel)
            ops.append(['subset', i, sel]); sizes.append(sel); ideal.append(ideal[i])
        elif r < 0.7 and len(cur) > 1:    # a strict subset, order drawn afresh
            sel = rng.sample(cur, rng.randint(1, len(cur) - 1))
            ops.append(['subset', i, sel]); sizes.append(sel); ideal.append(ideal[i])
        elif r < 0.85 and not ideal[i]:
            extra = rng.sample(range(nc), rng.randint(1, 2))
            ops.append(['extended', i, extra]); sizes.append(cur + [x for x in extra if x not in cur]); ideal.append(False)
        else:
            ops.append(['ideal', i]); sizes.append(list(cur)); ideal.append(True)
    obs = []
    for k, cur in enumerate(sizes):
        for _ in range(2):
            kind = rng.choice(['H', 'S', 'Cn'])
            mol = [rng.choice(MOLS) for _ in cur]
            if rng.random() < 0.4:        # one component only: the pure-component limit
                j = rng.randrange(len(cur)); mol = [0.] * len(cur); mol[j] = rng.choice(MOLS[1:])
            obs.append([kind, k, rng.choice('slgslgSL'), mol, rng.choice(TS[:4]), rng.choice(PS[:4])])
    return {'type': 'pkg', 'chems': specs, 'ops': ops, 'obs': obs, 'ln': [0., 1.]}


def run_pkg(case):
    built = [build_chem(s) for s in case['chems']]
    chems = [b[0] for b in built]
    store = run_pkg_ops(chems, case['ops'])
    ids = [c.ID for c in chems]
    vals = []
    for kind, k, ph, mol, T, P in case['obs']:
        mx = store[k].mixture
        if kind == 'H': vals.append(observe(mx.H, ph, mol, T, P))
        elif kind == 'S': vals.append(observe(mx.S, ph, mol, T, P))
        else: vals.append(observe(mx.Cn, ph, mol, T))
    return {'wiring_err': [b[2] for b in built], 'vals': vals, 'rec': [rec_json(b[1]) for b in built],
            'chem_lists': [[ids.index(i) for i in t.chemicals.IDs] for t in store]}


# ---------------------------------------------------------------------------------------------- packages over changing chemicals
def ident_index(lst, x):
    for k, y in enumerate(lst):
        if y is x: return k
    raise ValueError('object not in the store')


def run_pkghist_ops(case, strict=False):
    import pickle
    store = [build_hist_chem(s, picklable=True) for s in case['chems']]
    pstore, oks = [], []
    tmo = env()['tmo']
    for kind, o in case['ops']:
        try:
            if kind == 'chem': apply_hist_op(store, o)
            elif o[0] == 'new': pstore.append(tmo.Thermo([store[i] for i in o[1]], skip_checks=True))
            elif o[0] == 'subset': pstore.append(pstore[o[1]].subset([store[i] for i in o[2]]))
            elif o[0] == 'extended': pstore.append(pstore[o[1]].extended([store[i] for i in o[2]]))
            elif o[0] == 'ideal': pstore.append(pstore[o[1]].ideal())
            elif o[0] == 'pickle':
                # package, mixture and chemicals in ONE pickle (what tmo.utils.save/load, copy.deepcopy and multiprocessing do);
                # the loaded chemicals join the store, in the order of the package
                t2 = pickle.loads(pickle.dumps(pstore[o[1]]))
                store.extend(t2.chemicals.tuple)
                pstore.append(t2)
            oks.append(True)
        except (TypeError, ValueError, AttributeError, RuntimeError) as ex:
            oks.append(type(ex).__name__)
    return store, pstore, oks


def run_pkghist(case):
    rec = {'I': {}, 'J': {}}
    with harvest_integrals(rec):
        store, pstore, oks = run_pkghist_ops(case)
        vals = []
        for kind, k, ph, mol, T, P in case['obs']:
            mx = pstore[k].mixture
            if kind == 'H': vals.append(observe(mx.H, ph, mol, T, P))
            elif kind == 'S': vals.append(observe(mx.S, ph, mol, T, P))
            else: vals.append(observe(mx.Cn, ph, mol, T))
    tdp = getattr(sys.modules['thermosteam._chemical'], 'TDependentProperty', None)
    if tdp is not None: tdp.RAISE_PROPERTY_CALCULATION_ERROR = True
    return {'oks': oks, 'vals': vals, 'chem_lists': [[ident_index(store, c) for c in t.chemicals.tuple] for t in pstore],
            'tabI': [[list(k), v] for k, v in sorted(rec['I'].items())], 'tabJ': [[list(k), v] for k, v in sorted(rec['J'].items())]}


def gen_pkghist(rng):
    """packages are built FIRST, then the chemicals are edited through their public API, then more packages are derived"""
    def hspec():
        return {'pr': rng.choice('slg'), 'Tm': rng.choice(TMS), 'Tb': rng.choice(TBS), 'Hfus': rng.choice(VALS[1:6]),
                'Sfus': rng.choice(VALS[3:7]), 'S0': rng.choice(VALS[:7]), 'cn': [rng.choice(HCN) for _ in range(3)], 'hv': rng.choice(HHV)}
    nc = rng.randint(2, 3)
    chems = [hspec() for _ in range(nc)]
    ops = []
    for _ in range(rng.randint(0, 2)):      # before any package exists the heat-capacity models may change too
        i = rng.randrange(nc)
        ops.append(['chem', rng.choice([['mutcn', i, [rng.choice(HCN) for _ in range(3)]], ['redefcn', i, [rng.choice(HCN) for _ in range(3)]],
                                        ['copymodels', i, (i + 1) % nc, ['Cn', 'Hvap']], ['setsc', i, 'Tb', rng.choice(TBS)]])])
    first = rng.sample(range(nc), rng.randint(2, nc))
    ops.append(['pkg', ['new', first]])
    pk = [list(first)]; ideal = [False]
    nstore = nc
    for _ in range(rng.randint(2, 6)):
        r = rng.random()
        if r < 0.6:
            # the mixture keeps the H / S functor objects; an edit of the heat-capacity models after that would leave the discarded
            # functors with old constants and new live integrals (outside the model), so only the other inputs are edited here
            i = rng.randrange(nstore)
            r2 = rng.random()
            if r2 < 0.55:
                w = rng.choice(['Tm', 'Tb', 'Hfus', 'Sfus', 'S0', 'Hfus', 'Sfus', 'S0'])
                ops.append(['chem', ['setsc', i, w, rng.choice(TMS + TBS[1:3] if w == 'Tm' else TBS + TMS[:2] if w == 'Tb' else VALS[1:7])]])
            elif r2 < 0.67: ops.append(['chem', ['setpr', i, rng.choice('slg')]])
            elif r2 < 0.77: ops.append(['chem', ['reset', i]])
            elif r2 < 0.9: ops.append(['chem', ['muthv', i, rng.choice(HHV)]])
            else:
                j = rng.choice([k for k in range(nstore) if k != i])
                ops.append(['chem', ['copymodels', i, j, ['Hvap']]])
        else:
            i = rng.randrange(len(pk)); cur = pk[i]
            r2 = rng.random()
            if r2 < 0.25:      # round trip through pickle: the loaded chemicals are new members of the store
                ops.append(['pkg', ['pickle', i]]); pk.append(list(range(nstore, nstore + len(cur)))); ideal.append(ideal[i]); nstore += len(cur)
            elif r2 < 0.5:
                sel = list(cur); rng.shuffle(sel); ops.append(['pkg', ['subset', i, sel]]); pk.append(sel); ideal.append(ideal[i])
            elif r2 < 0.7 and len(cur) > 1:
                sel = rng.sample(cur, rng.randint(1, len(cur) - 1)); ops.append(['pkg', ['subset', i, sel]]); pk.append(sel); ideal.append(ideal[i])
            elif r2 < 0.85 and not ideal[i]:
                extra = rng.sample(range(nc), 1); ops.append(['pkg', ['extended', i, extra]]); pk.append(cur + [x for x in extra if x not in cur]); ideal.append(False)
            else:
                ops.append(['pkg', ['ideal', i]]); pk.append(list(cur)); ideal.append(True)
    obs = []
    for k, cur in enumerate(pk):
        for _ in range(2):
            mol = [rng.choice(MOLS) for _ in cur]
            if rng.random() < 0.4:
                j = rng.randrange(len(cur)); mol = [0.] * len(cur); mol[j] = rng.choice(MOLS[1:])
            obs.append([rng.choice(['H', 'S', 'Cn']), k, rng.choice('slgslgSL'), mol, rng.choice(TS[:4]), rng.choice(PS[:4])])
    return {'type': 'pkghist', 'chems': chems, 'ops': ops, 'obs': obs, 'ln': [0., 1.]}


# ---------------------------------------------------------------------------------------------- histories
class harvest_integrals:
    """records (constant of the handle, a, b) -> value of every integral the real heat-capacity handles compute"""
    def __init__(self, rec):
        self.rec = rec
    def __enter__(self):
        import thermo.heat_capacity as hc
        self.saved = []
        rec = self.rec
        for cls in (hc.HeatCapacitySolid, hc.HeatCapacityLiquid, hc.HeatCapacityGas):
            for name, key in (('T_dependent_property_integral', 'I'), ('T_dependent_property_integral_over_T', 'J')):
                orig = getattr(cls, name)
                self.saved.append((cls, name, cls.__dict__.get(name)))
                def wrapped(self_, a, b, _orig=orig, _key=key):
                    r = _orig(self_, a, b)
                    rec[_key][(float(self_.T_dependent_property(300.)), float(a), float(b))] = float(r)
                    return r
                setattr(cls, name, wrapped)
    def __exit__(self, *a):
        for cls, name, own in self.saved:
            if own is None: delattr(cls, name)
            else: setattr(cls, name, own)


def select_const(handle, alphabet, v):
    """give the handle one named constant method per value of the alphabet (once) and select the one for v.
    Selection (`handle.method = name`) is per object; thermosteam's TDependentProperty.copy shares the dict of
    user methods between copies, so the methods themselves are never redefined after construction."""
    if not getattr(handle, '_c07_methods', False):
        for k, x in enumerate(alphabet):
            handle.add_method(x, name=f'K{k}')
        handle._c07_methods = True
    handle.method = f'K{alphabet.index(v)}'


def build_hist_chem(spec, picklable=False):
    e = env(); tmo = e['tmo']
    e['n'] += 1
    c = tmo.Chemical(f'C07h{e["n"]}_', cache=False, search_db=False, MW=16., Hf=0., S0=spec['S0'], Tm=spec['Tm'], Tb=spec['Tb'],
                     Hfus=spec['Hfus'], Sfus=spec['Sfus'], phase_ref=spec['pr'])
    for ph, v in zip('slg', spec['cn']):
        select_const(getattr(c.Cn, ph), HCN, v)  # registers the named alternatives, so that later changes are pure method switches
        getattr(c.Cn, ph).add_method(v)          # the unnamed user method ('USER_METHOD'), as users define models; it is the active one
    if spec['hv'] is not None:
        select_const(c.Hvap, HHV, spec['hv'])
        c.Hvap.add_method(spec['hv'])
    if picklable:
        c.Psat.add_method(101325.)      # unpickling a package compiles its chemicals with the checks on: Psat is a key property
    c.reset_free_energies()
    return c


def apply_hist_op(store, o):
    e = env()
    name = o[0]
    c = store[o[1]]
    if name == 'reset': c.reset_free_energies()
    elif name == 'copy':
        e['n'] += 1
        store.append(c.copy(f'C07h{e["n"]}_'))
    elif name == 'mutcn':
        if c.locked_state: select_const(c.Cn, HCN, o[2]['slg'.index(c.locked_state)])
        else:
            for ph, v in zip('slg', o[2]): select_const(getattr(c.Cn, ph), HCN, v)
        c.reset_free_energies()
    elif name == 'redefcn':
        # the documented way to change a model: add_method replaces the user method of THIS handle object
        if c.locked_state: c.Cn.add_method(o[2]['slg'.index(c.locked_state)])
        else:
            for ph, v in zip('slg', o[2]): getattr(c.Cn, ph).add_method(v)
        c.reset_free_energies()
    elif name == 'muthv':
        select_const(c.Hvap, HHV, o[2]); c.reset_free_energies()
    elif name == 'copymodels': c.copy_models_from(store[o[2]], list(o[3]))
    elif name == 'atstate': c.at_state(o[2])
    elif name == 'atstatecopy': store.append(c.at_state(o[2], copy=True))
    elif name == 'setpr': c.phase_ref = o[2]
    elif name == 'setsc': setattr(c, o[2], o[3])
    else: raise ValueError(name)


def probe(store, cnq):
    """what a user sees when looking at the chemicals' own models: Cn of each phase at the query temperatures, Hvap(Tb).
    Done after construction and after every operation, so that state kept between calls (a memo) would show."""
    cn, hv = [], []
    first = {}
    for ph, T in cnq: first.setdefault(ph, T)
    n = len(cnq)
    cnq = list(cnq) + [[ph, T] for ph, T in first.items()]      # every handle ends at the temperature its next look starts with
    for c in store:
        if c.locked_state: cn.append([observe(c.Cn, T) for ph, T in cnq][:n])
        else: cn.append([observe(c.Cn, ph, T) for ph, T in cnq][:n])
        hv.append(observe(c.Hvap, c.Tb) if c.Hvap and c.Tb else ['none'])
    return cn, hv


def run_hist(case):
    rec = {'I': {}, 'J': {}}
    cnq = [[ph, T] for fn, ph, T, P in case['queries']]
    with harvest_integrals(rec):
        store = [build_hist_chem(s) for s in case['chems']]
        probe(store, cnq)
        oks = []
        for o in case['ops']:
            try:
                apply_hist_op(store, o); oks.append(True)
            except (TypeError, ValueError, AttributeError, RuntimeError) as ex:
                oks.append(type(ex).__name__)
            probe(store, cnq)
        cnvals, hvvals = probe(store, cnq)
        vals = []
        for c in store:
            hH, hS = handle_of(c, 'H'), handle_of(c, 'S')
            vals.append([observe(hH if fn == 'H' else hS, ph, T, P) for fn, ph, T, P in case['queries']])
    tdp = getattr(sys.modules['thermosteam._chemical'], 'TDependentProperty', None)
    if tdp is not None: tdp.RAISE_PROPERTY_CALCULATION_ERROR = True
    return {'oks': oks, 'hvals': vals, 'cnvals': cnvals, 'hvvals': hvvals, 'vals': [v for row in vals for v in row],
            'tabI': [[list(k), v] for k, v in sorted(rec['I'].items())], 'tabJ': [[list(k), v] for k, v in sorted(rec['J'].items())]}


HCN = [24., 64., 32., 128., 75.5, 40.]
HHV = [40650., 6010.5, 1000., 30000.]


def gen_hist(rng):
    def hspec():
        return {'pr': rng.choice('slg'), 'Tm': rng.choice(TMS), 'Tb': rng.choice(TBS), 'Hfus': rng.choice(VALS[1:6]),
                'Sfus': rng.choice(VALS[3:7]), 'S0': rng.choice(VALS[:7]), 'cn': [rng.choice(HCN) for _ in range(3)],
                'hv': rng.choice(HHV + [None]) if rng.random() < 0.85 else None}
    chems = [hspec() for _ in range(rng.randint(1, 2))]
    n = len(chems)
    locked = [None] * n          # locked phase of each chemical in the store
    ops = []
    for _ in range(rng.randint(2, 7)):
        r = rng.random()
        i = rng.randrange(n)
        if r < 0.22:
            ops.append(['copy', i]); n += 1; locked.append(locked[i])
        elif r < 0.34:
            ops.append(['mutcn', i, [rng.choice(HCN) for _ in range(3)]])
        elif r < 0.42:
            ops.append(['redefcn', i, [rng.choice(HCN) for _ in range(3)]])
        elif r < 0.5:
            ops.append(['muthv', i, rng.choice(HHV)])
        elif r < 0.7 and n >= 2:
            j = rng.choice([k for k in range(n) if k != i])
            names = rng.choice([['Hvap'], ['Cn'], ['Cn', 'Hvap'], ['Psat'], ['Hvap', 'Psat'], ['sigma']])
            if (locked[i] or locked[j]) and 'Cn' in names: names = ['Hvap']
            ops.append(['copymodels', i, j, names])
        elif r < 0.73:
            ph = rng.choice('slg'); ops.append(['atstate', i, ph]); locked[i] = locked[i] or ph
        elif r < 0.78:
            ph = locked[i] or rng.choice('slg'); ops.append(['atstatecopy', i, ph]); n += 1; locked.append(ph)
        elif r < 0.84:
            ops.append(['setpr', i, rng.choice('slg')])
        elif r < 0.96:
            w = rng.choice(['Tm', 'Tb', 'Hfus', 'Sfus', 'S0'])
            ops.append(['setsc', i, w, rng.choice(TMS + TBS[1:3] if w == 'Tm' else TBS + TMS[:2] if w == 'Tb' else VALS[1:7])])
        else:
            ops.append(['reset', i])
    qs = []
    for _ in range(rng.randint(3, 5)):
        qs.append([rng.choice('HS'), rng.choice('slgslgSL'), rng.choice([T_REF] + TS[:4] + TBS[:2]), rng.choice(PS[:4])])
    return {'type': 'hist', 'chems': chems, 'ops': ops, 'queries': qs, 'ln': [0., 1.]}


# ---------------------------------------------------------------------------------------------- the constructor
CTOR_IDS = ['Ethanol', 'Water', 'Hexane', 'Benzene', 'Methanol', 'Acetone']
# names of Hvap models (switch the Hvap handle), of heat-capacity models only / unknown names (switch nothing the wiring reads).
# Not used: names of sublimation-pressure models (set_method's second loop tests the LAST model handle, _Psub).
CTOR_METHODS = ['RIEDEL', 'PITZER', 'MORGAN_KOBAYASHI', 'LIU', 'CHEN', 'VETERE', 'DIPPR_PERRY_8E', 'VDI_PPDS', 'SIVARAMAN_MAGEE_KOBAYASHI',
                'VELASCO', 'HEOS_FIT', 'POLING_CONST', 'TRCIG', 'NO_SUCH_METHOD']


def ctor_kwargs(case):
    kw = {'phase_ref': case['pr'], 'cache': False}
    if case['method']: kw['method'] = case['method']
    if case['hvap'] is not None: kw['Hvap'] = case['hvap']
    if case['default']: kw['default'] = True
    return kw


def ctor_reference(case):
    """what the database and thermo's handles (oracles) answer for this chemical, taken from an object built WITHOUT
    Hvap= / default= / method=: data, the identity Cn.<ph>(300) of each heat-capacity model, Hvap(Tb) of the default model
    and of the requested one (selected by hand on the handle)"""
    tmo = env()['tmo']
    ref = tmo.Chemical(case['ID'], phase_ref=case['pr'], cache=False)
    d = {f: getattr(ref, f) for f in ('Tm', 'Tb', 'Hfus', 'Sfus', 'S0')}
    d['cn'] = [float(getattr(ref.Cn, ph).T_dependent_property(300.)) for ph in 'slg']
    d['hv0'] = float(ref.Hvap(ref.Tb))
    d['has'] = bool(case['method']) and case['method'] in ref.Hvap.all_methods
    if d['has']:
        ref.Hvap.method = case['method']
        d['hvm'] = float(ref.Hvap(ref.Tb))
    else:
        d['hvm'] = None
    return d


def ctor_queries(case, d):
    return [[fn, ph, d[T] if isinstance(T, str) else T, P] for fn, ph, T, P in case['queries']]


def run_ctor(case):
    tmo = env()['tmo']
    d = ctor_reference(case)
    rec = {'I': {}, 'J': {}}
    with harvest_integrals(rec):
        c = tmo.Chemical(case['ID'], **ctor_kwargs(case))       # the constructor under test; nothing is done to c afterwards
        hH, hS = handle_of(c, 'H'), handle_of(c, 'S')
        vals = [observe(hH if fn == 'H' else hS, ph, T, P) for fn, ph, T, P in ctor_queries(case, d)]
        cnvals = [observe(c.Cn, ph, 300.) for ph in 'slg']
        hvval = observe(c.Hvap, c.Tb)
    tdp = getattr(sys.modules['thermosteam._chemical'], 'TDependentProperty', None)
    if tdp is not None: tdp.RAISE_PROPERTY_CALCULATION_ERROR = True
    return {'ref': d, 'vals': vals, 'cnvals': cnvals, 'hvval': hvval, 'data_now': [getattr(c, f) for f in ('Tm', 'Tb', 'Hfus', 'Sfus', 'S0')],
            'tabI': [[list(k), v] for k, v in sorted(rec['I'].items())], 'tabJ': [[list(k), v] for k, v in sorted(rec['J'].items())]}


def gen_ctor(rng):
    qs = [[rng.choice('HS'), rng.choice('lg'), 'Tb', P_REF]]
    for _ in range(rng.randint(3, 5)):
        qs.append([rng.choice('HS'), rng.choice('slg'), rng.choice([T_REF, 300., 350., 'Tb', 'Tb', 'Tm', 400.]), rng.choice(PS[:4])])
    return {'type': 'ctor', 'ID': rng.choice(CTOR_IDS), 'pr': rng.choice('slg'),
            'method': rng.choice(CTOR_METHODS) if rng.random() < 0.8 else None,
            'hvap': rng.choice(HHV) if rng.random() < 0.25 else None, 'default': rng.random() < 0.2,
            'queries': qs, 'ln': [0., 1.]}


def coq_ctor(case, out, lnc, lnd):
    d = out['ref']
    if [frac(x) for x in out['data_now']] != [frac(d[f]) for f in ('Tm', 'Tb', 'Hfus', 'Sfus', 'S0')]:
        raise ValueError('the constructor arguments changed Tm/Tb/Hfus/Sfus/S0 of a database chemical: outside the constructor model')
    spec = (f'({PHC[case["pr"]]}, mkSc {qo(d["Tm"])} {qo(d["Tb"])} {qo(d["Hfus"])} {qo(d["Sfus"])} {qo(d["S0"])}, {qo(d["hv0"])}, {coq_cc(d["cn"])})')
    a_hv = 'None' if case['hvap'] is None else f'(Some {qo(case["hvap"])})'
    a_def = '(Some (fun s : qsc => s))' if case['default'] else 'None'     # complete database chemicals: default() finds nothing missing
    if case['method']:
        fh = f'(fun _ : option Q => {qo(d["hvm"])})' if d['has'] else '(fun x : option Q => x)'
        a_m = f'(Some ({fh}, (fun x : qcc => x)))'
    else:
        a_m = 'None'
    qs = clist([f'(Q{fn} {PHTP[ph]} {qo(T)} {qo(P)})' for fn, ph, T, P in ctor_queries(case, d)])
    return (f'(ctor_case {lnc} {lnd} {coq_ctab(out["tabI"])} {coq_ctab(out["tabJ"])} {spec} (mkCtor qcc (option Q) qsc {a_hv} {a_def} {a_m}) '
            f'{qs} {clist([cpyv(v) for v in out["vals"]])} {clist([PHT[ph] for ph in "slg"])} {clist([cpyv(v) for v in out["cnvals"]])} {cpyv(out["hvval"])})')


def oracle_ctor(case):
    """a chemical as the constructor returns it (real log, real handles): reference state, and the jumps at Tb / Tm equal
    ITS OWN Hvap(Tb) / Hfus / Sfus"""
    tmo = env()['tmo']
    kw = ctor_kwargs(case)
    c = tmo.Chemical(case['ID'], **kw)
    tag = f'[Chemical({case["ID"]!r}, ' + ', '.join(f'{k}={v!r}' for k, v in kw.items() if k != 'cache') + ')]'
    if c._H is None or c._S is None: return f'ctor_no_functors{tag}: H / S are None'
    H, S, P, pr, Tb, Tm = c.H, c.S, P_REF, c.phase_ref, c.Tb, c.Tm
    if not close(H(pr, T_REF, P), 0.): return f'ctor_wiring_not_final{tag}: H at the reference state = {H(pr, T_REF, P)}'
    if not close(S(pr, T_REF, P), c.S0): return f'ctor_wiring_not_final{tag}: S at the reference state = {S(pr, T_REF, P)} != S0 = {c.S0}'
    hv = c.Hvap(Tb)
    if not close(H('g', Tb, P) - H('l', Tb, P), hv, 1e-6):
        return f'ctor_wiring_not_final{tag}: H(g,Tb) - H(l,Tb) = {H("g", Tb, P) - H("l", Tb, P)} but its own Hvap(Tb) = {hv} (Hvap method {c.Hvap.method})'
    if not close(S('g', Tb, P) - S('l', Tb, P), hv / Tb, 1e-6):
        return f'ctor_wiring_not_final{tag}: S(g,Tb) - S(l,Tb) = {S("g", Tb, P) - S("l", Tb, P)} but its own Hvap(Tb)/Tb = {hv / Tb} (Hvap method {c.Hvap.method})'
    if not close(H('l', Tm, P) - H('s', Tm, P), c.Hfus, 1e-6):
        return f'ctor_wiring_not_final{tag}: H(l,Tm) - H(s,Tm) = {H("l", Tm, P) - H("s", Tm, P)} but its own Hfus = {c.Hfus}'
    if not close(S('l', Tm, P) - S('s', Tm, P), c.Sfus, 1e-6):
        return f'ctor_wiring_not_final{tag}: S(l,Tm) - S(s,Tm) = {S("l", Tm, P) - S("s", Tm, P)} but its own Sfus = {c.Sfus}'
    return None


# ---------------------------------------------------------------------------------------------- generators
TMS = [200., 273.25, 150.5, 250.]
TBS = [350., 373.125, 400.5, 512.]
TS = [300., 350., 250., 400., 180., 1024., 64.5]
PS = [P_REF, 2 * P_REF, P_REF / 2, 4 * P_REF, P_REF / 8, 12345.678]
VALS = [0., 1000., -1000., 6010.5, 0.5, 12.25, -3.5, 40650., 2. ** 20, 2. ** -10]


def gen_spec(rng, complete=False):
    r = rng.random()
    kind = 'handle' if r < 0.6 or complete and r < 0.8 else ('locked' if r < 0.92 else 'plain')
    sp = rng.choice('slg') if kind == 'locked' else None
    if kind == 'locked':
        pr = sp if rng.random() < 0.7 else rng.choice('slg')
    else:
        pr = rng.choice('slg')
    spec = {'kind': kind, 'sp': sp, 'pr': pr, 'seed': rng.randrange(10 ** 6),
            'Tm': rng.choice(TMS), 'Tb': rng.choice(TBS), 'Hfus': rng.choice(VALS), 'Sfus': rng.choice(VALS),
            'S0': rng.choice(VALS), 'has': [True, True, True], 'hvap': 'ok', 'hvap_val': rng.choice(VALS[1:])}
    if rng.random() < 0.15:          # sublimes at atmospheric pressure (like CO2): melting point above the boiling point
        spec['Tm'], spec['Tb'] = rng.choice(TBS), rng.choice(TMS)
    if not complete:
        for f in ('Tm', 'Tb'):
            if rng.random() < 0.12: spec[f] = rng.choice([None, 0.0])
        for f in ('Hfus', 'Sfus', 'S0'):
            if rng.random() < 0.08: spec[f] = None
        if rng.random() < 0.2:
            spec['has'] = [rng.random() < 0.6 for _ in range(3)]
        r = rng.random()
        if r < 0.08: spec['hvap'] = 'falsy'
        elif r < 0.14: spec['hvap'] = 'none'
        elif r < 0.2: spec['hvap_val'] = 0.0
    return spec


def gen_T(rng, spec):
    r = rng.random()
    if r < 0.2: return T_REF
    if r < 0.35 and spec['Tm']: return spec['Tm']
    if r < 0.5 and spec['Tb']: return spec['Tb']
    if r < 0.54: return None
    return rng.choice(TS)


def gen_P(rng):
    r = rng.random()
    if r < 0.05: return None
    if r < 0.09: return 0.0
    if r < 0.13: return -P_REF
    return rng.choice(PS)


def gen_ln(rng):
    return [rng.choice([0., 1., 0.5, -2.]), rng.choice([1., 2., 0.5, -4.])]


MOLS = [0., 1., 2., 0.5, 0.25, 3., 8., 1.5]


def gen_mol(rng, n, malformed=False):
    m = [rng.choice(MOLS) for _ in range(n)]
    if malformed:
        r = rng.random()
        if r < 0.4:
            i, j = rng.sample(range(n), 2)
            m[i], m[j] = 2., -2.
        elif r < 0.7:
            m[rng.randrange(n)] = -1.
        else:
            m.append(1.)          # longer than the number of models
    return m


def gen_cases(rng, tier):
    n = 260 if tier == 'quick' else 3000
    cases = []
    for k in range(n):
        r = rng.random()
        ln = gen_ln(rng)
        if r < 0.06 or k < 12:
            c = gen_hist(rng); c['ln'] = ln
            cases.append(c)
            continue
        if k < 20:
            c = gen_pkg(rng); c['ln'] = ln
            cases.append(c)
            continue
        if k < 32:
            c = gen_pkghist(rng); c['ln'] = ln
            cases.append(c)
            continue
        if k < 46 or r > 0.975:
            cases.append(gen_ctor(rng))       # real log is never reached with P = multiples of P_ref only through the stand-in [0, 1]
            continue
        if r < 0.16:
            cases.append({'type': 'sfus', 'Hfus': rng.choice([None, None, 0., 6010., 1000.5, -8.]), 'Tm': rng.choice([None, None, 0., 273.25, 150.]),
                          'db_Hfus': rng.choice([None, 0., 6010., 2.5]), 'db_Tm': rng.choice([None, 0., 273.25, 200.]), 'ln': ln})
            continue
        if r < 0.55:
            spec = gen_spec(rng, complete=rng.random() < 0.45)
            qs = []
            for _ in range(rng.randint(4, 9)):
                qs.append([rng.choice('HS'), rng.choice('slgslgSL'), gen_T(rng, spec), gen_P(rng)])
            cases.append({'type': 'chem', 'chem': spec, 'queries': qs, 'ln': ln})
        elif r < 0.9:
            nc = rng.randint(2, 4)
            specs = [gen_spec(rng, complete=rng.random() < 0.7) for _ in range(nc)]
            excess = rng.random() < 0.25
            hex_ = [rng.choice(VALS + [None]) for _ in range(nc)]
            sex_ = [rng.choice(VALS + [None]) for _ in range(nc)]
            obs = []
            for _ in range(rng.randint(3, 6)):
                kind = rng.choice(['H', 'S', 'S', 'Cn', 'xH', 'xS'])
                T = gen_T(rng, specs[0]); P = gen_P(rng)
                mal = rng.random() < 0.12
                if kind in ('H', 'S'):
                    obs.append([kind, rng.choice('slgslgSL'), gen_mol(rng, nc, mal), T, P])
                elif kind == 'Cn':
                    obs.append([kind, rng.choice('slgslgSL'), gen_mol(rng, nc, mal), T])
                else:
                    obs.append([kind, [[ph, gen_mol(rng, nc, mal)] for ph in rng.sample('slg', rng.randint(1, 3))], T, P])
            cases.append({'type': 'mix', 'chems': specs, 'excess': excess, 'Hex': hex_, 'Sex': sex_, 'obs': obs, 'ln': ln})
        else:
            nc = rng.randint(1, 4)
            vals = [rng.choice(VALS + [None, 'raise']) if rng.random() < 0.3 else rng.choice(VALS) for _ in range(nc)]
            obs = []
            for _ in range(rng.randint(2, 4)):
                mal = rng.random() < 0.15 and nc >= 2
                if rng.random() < 0.5:
                    obs.append(['T', gen_mol(rng, nc, mal), rng.choice(TS)])
                else:
                    obs.append(['TP', gen_mol(rng, nc, mal), rng.choice(TS), rng.choice(PS)])
            cases.append({'type': 'single', 'vals': vals, 'obs': obs, 'ln': ln})
    return cases


# ---------------------------------------------------------------------------------------------- implementation side
def table_model(v):
    def f(*args):
        if v == 'raise': raise ValueError('model raises')
        return v
    return f


def run_impl(case):
    e = env(); tmo = e['tmo']
    out = {}
    if case['type'] == 'sfus':
        out = run_init_data(case)
        out['vals'] = [out['Sfus']]
        return out
    if case['type'] == 'hist':
        with patched_log(case['ln']):
            return run_hist(case)
    if case['type'] == 'ctor':
        with patched_log(case['ln']):
            return run_ctor(case)
    if case['type'] == 'pkg':
        with patched_log(case['ln']):
            return run_pkg(case)
    if case['type'] == 'pkghist':
        with patched_log(case['ln']):
            return run_pkghist(case)
    with patched_log(case['ln']):
        if case['type'] == 'chem':
            c, rec, err = build_chem(case['chem'])
            out['wiring_err'] = err
            out['kinds'] = [kind_of(c._H), kind_of(c._S)]
            hH, hS = handle_of(c, 'H'), handle_of(c, 'S')
            out['vals'] = [observe(hH if fn == 'H' else hS, ph, T, P) for fn, ph, T, P in case['queries']]
            out['rec'] = rec_json(rec)
        elif case['type'] == 'mix':
            built = [build_chem(s) for s in case['chems']]
            out['wiring_err'] = [b[2] for b in built]
            chems = [b[0] for b in built]
            mix = tmo.IdealMixture.from_chemicals(chems, include_excess_energies=case['excess'])
            TP = e['imm'].IdealTPMixtureModel
            mix._H_excess = TP([table_model(v) for v in case['Hex']], 'H_excess')
            mix._S_excess = TP([table_model(v) for v in case['Sex']], 'S_excess')
            vals = []
            for o in case['obs']:
                if o[0] == 'H': vals.append(observe(mix.H, o[1], o[2], o[3], o[4]))
                elif o[0] == 'S': vals.append(observe(mix.S, o[1], o[2], o[3], o[4]))
                elif o[0] == 'Cn': vals.append(observe(mix.Cn, o[1], o[2], o[3]))
                elif o[0] == 'xH': vals.append(observe(mix.xH, [(p, m) for p, m in o[1]], o[2], o[3]))
                elif o[0] == 'xS': vals.append(observe(mix.xS, [(p, m) for p, m in o[1]], o[2], o[3]))
            out['vals'] = vals
            out['rec'] = [rec_json(b[1]) for b in built]
        else:
            ms = [table_model(v) for v in case['vals']]
            mT = e['imm'].SinglePhaseIdealTMixtureModel(ms, 'sigma')
            mTP = e['imm'].SinglePhaseIdealTPMixtureModel(ms, 'V')
            out['vals'] = [observe(mT, o[1], o[2]) if o[0] == 'T' else observe(mTP, o[1], o[2], o[3]) for o in case['obs']]
    return out


# ---------------------------------------------------------------------------------------------- model side
def qo(x):
    return 'None' if x is None else f'(Some {q(x)})'


def cpyv(o):
    if o[0] == 'ok': return f'(Ok (Some {q(F(o[1]))}))'
    if o[0] == 'none': return '(Ok None)'
    return f'(Err {ERR[o[1]]})'


def ctab(seed, kind, keys):
    return clist([f'({PHC[ph]}, {q(a)}, {q(b)}, {q(tval(seed, kind, ph, a, b))})' for ph, a, b in keys])


def cchem(spec, rec):
    kind = {'handle': 'CnHandle', 'plain': 'CnPlain'}.get(spec['kind']) or f'(CnLocked {PHC[spec["sp"]]})'
    hv = {'ok': f'(mk_hvap true [({q(spec["Tb"] or 0)}, {qo(spec["hvap_val"])})])',
          'none': f'(mk_hvap true [({q(spec["Tb"] or 0)}, None)])', 'falsy': '(mk_hvap false [])'}[spec['hvap']]
    has = ' '.join(cbool(x) for x in spec['has'])
    if spec['kind'] == 'plain':
        # the one handle given to a plain chemical is the fake liquid handle; _init_energies never looks at it
        pass
    data = (f'(mkChem Q {qo(T_REF)} {qo(P_REF)} {qo(0.0)} {qo(spec["S0"])} {qo(spec["Hfus"])} {qo(spec["Sfus"])} '
            f'{qo(spec["Tm"])} {qo(spec["Tb"])} {hv} (mk_has {has}))')
    cn = clist([f'({PHC[ph]}, {q(T)}, {q(tval(spec["seed"], "C", ph, T, T))})' for ph, T in rec['cn']])
    return (f'(mkQChem {kind} {PHC[spec["pr"]]} {data} {ctab(spec["seed"], "I", rec["I"])} '
            f'{ctab(spec["seed"], "J", rec["J"])} {cn})')


def ckinds(err, kinds):
    if err is not None:
        return f'(Err {ERR.get(err, "EOther")})'
    return f'(Ok ({kinds[0]}%nat, {kinds[1]}%nat))'


def cmol(m):
    return clist(m, q)


def coq_case(case, out):
    lnc, lnd = (q(x) for x in case['ln'])
    exp = clist([cpyv(o) for o in out['vals']])
    if case['type'] == 'sfus':
        def so(x):
            return 'None' if x is None else f'(Some {q(F(x))})'
        return f'(sfus_case {qo(case["Hfus"])} {qo(case["Tm"])} {so(out["stored_Hfus"])} {so(out["stored_Tm"])} {cpyv(out["Sfus"])})'
    if case['type'] == 'hist':
        return coq_hist(case, out, lnc, lnd)
    if case['type'] == 'pkghist':
        return coq_pkghist(case, out, lnc, lnd)
    if case['type'] == 'ctor':
        return coq_ctor(case, out, lnc, lnd)
    if case['type'] == 'pkg':
        if any(out['wiring_err']):
            raise ValueError('wiring raised while building a package case')
        def nl(x): return clist([f'{i}%nat' for i in x])
        ops = []
        for o in case['ops']:
            if o[0] == 'new': ops.append(f'(PNew {nl(o[1])})')
            elif o[0] == 'subset': ops.append(f'(PSubset {o[1]}%nat {nl(o[2])})')
            elif o[0] == 'extended': ops.append(f'(PExtended {o[1]}%nat {nl(o[2])})')
            else: ops.append(f'(PIdeal {o[1]}%nat)')
        obs = []
        for kind, k, ph, mol, T, P in case['obs']:
            if kind == 'Cn': obs.append(f'(PoCn {k}%nat {PHT[ph]} {cmol(mol)} {qo(T)})')
            else: obs.append(f'(Po{kind} {k}%nat {PHTP[ph]} {cmol(mol)} {qo(T)} {qo(P)})')
        chems = clist([cchem(s_, r) for s_, r in zip(case['chems'], out['rec'])])
        return (f'(pkg_case {lnc} {lnd} {chems} {clist(ops)} {clist([nl(x) for x in out["chem_lists"]])} '
                f'{clist(obs)} {exp})')
    if case['type'] == 'chem':
        qs = clist([f'(Q{fn} {PHTP[ph]} {qo(T)} {qo(P)})' for fn, ph, T, P in case['queries']])
        return (f'(chem_case {lnc} {lnd} {cchem(case["chem"], out["rec"])} {qs} '
                f'{ckinds(out["wiring_err"], out["kinds"])} {exp})')
    if case['type'] == 'mix':
        if any(out['wiring_err']):
            raise ValueError('wiring raised while building a mixture case')
        def ex(vs):
            return clist(['(Ok None)' if v is None else f'(Ok (Some {q(v)}))' for v in vs])
        m = (f'(mkQMix {clist([cchem(s, r) for s, r in zip(case["chems"], out["rec"])])} {cbool(case["excess"])} '
             f'{ex(case["Hex"])} {ex(case["Sex"])})')
        terms = []
        for o in case['obs']:
            if o[0] in ('H', 'S'):
                terms.append(f'(mix_{o[0]} {lnc} {lnd} m {PHTP[o[1]]} {cmol(o[2])} {qo(o[3])} {qo(o[4])})')
            elif o[0] == 'Cn':
                terms.append(f'(mix_Cn {lnc} {lnd} m {PHT[o[1]]} {cmol(o[2])} {qo(o[3])})')
            else:
                pm = clist([f'({PHTP[p]}, {cmol(mm)})' for p, mm in o[1]])
                terms.append(f'(mix_{o[0]} {lnc} {lnd} m {pm} {qo(o[2])} {qo(o[3])})')
        return f'(let m := {m} in pyvs_approxb {clist(terms)} {exp})'
    vals = clist(['(Err EValue)' if v == 'raise' else ('(Ok None)' if v is None else f'(Ok (Some {q(v)}))') for v in case['vals']])
    terms = []
    for o in case['obs']:
        if o[0] == 'T':
            terms.append(f'(sp_T {lnc} {lnd} {vals} {cmol(o[1])} {qo(o[2])})')
        else:
            terms.append(f'(sp_TP {lnc} {lnd} {vals} {cmol(o[1])} {qo(o[2])} {qo(o[3])})')
    return f'(pyvs_approxb {clist(terms)} {exp})'


MN = {'Cn': 'MCn', 'Hvap': 'MHvap'}


def coq_cc(v):
    return f'({qo(v[0])}, {qo(v[1])}, {qo(v[2])})'


def coq_hop(o):
    n, i = o[0], f'{o[1]}%nat'
    if n == 'reset': return f'(OReset _ _ _ {i})'
    if n == 'copy': return f'(OCopy _ _ _ {i})'
    if n in ('mutcn', 'redefcn'): return f'(OMutCn _ _ _ {i} {coq_cc(o[2])})'
    if n == 'muthv': return f'(OMutHv _ _ _ {i} {qo(o[2])})'
    if n == 'copymodels': return f'(OCopyModels _ _ _ {i} {o[2]}%nat {clist([MN.get(x, "MOther") for x in o[3]])})'
    if n == 'atstate': return f'(OAtState _ _ _ {i} {PHC[o[2]]})'
    if n == 'atstatecopy': return f'(OAtStateCopy _ _ _ {i} {PHC[o[2]]})'
    if n == 'setpr': return f'(OSetPr _ _ _ {i} {PHC[o[2]]})'
    if n == 'setsc': return f'(OSetSc _ _ _ {i} W{o[2]} (set_{o[2]} {q(o[3])}))'
    raise ValueError(n)


def coq_ctab(t):
    return clist([f'({q(k[0])}, {q(k[1])}, {q(k[2])}, {q(v)})' for k, v in t])


def coq_hspecs(chems):
    return clist([f'({PHC[s["pr"]]}, mkSc {qo(s["Tm"])} {qo(s["Tb"])} {qo(s["Hfus"])} {qo(s["Sfus"])} {qo(s["S0"])}, {qo(s["hv"])}, {coq_cc(s["cn"])})'
                  for s in chems])


def coq_pkgop(o):
    def nl(x): return clist([f'{i}%nat' for i in x])
    if o[0] == 'new': return f'(PNew {nl(o[1])})'
    if o[0] == 'subset': return f'(PSubset {o[1]}%nat {nl(o[2])})'
    if o[0] == 'extended': return f'(PExtended {o[1]}%nat {nl(o[2])})'
    return f'(PIdeal {o[1]}%nat)'


def coq_pobs(obs):
    out = []
    for kind, k, ph, mol, T, P in obs:
        if kind == 'Cn': out.append(f'(PoCn {k}%nat {PHT[ph]} {cmol(mol)} {qo(T)})')
        else: out.append(f'(Po{kind} {k}%nat {PHTP[ph]} {cmol(mol)} {qo(T)} {qo(P)})')
    return clist(out)


def coq_pkghist(case, out, lnc, lnd):
    ops = []
    nstore = len(case['chems'])
    pk = []                      # chemicals of every package so far (store indices)
    def nl(x): return clist([f'{i}%nat' for i in x])
    for (kind, o), ok in zip(case['ops'], out['oks']):
        if ok is not True: continue
        if kind == 'chem':
            ops.append(f'(PChem (hrun1 {coq_hop(o)}))')
            if o[0] in ('copy', 'atstatecopy'): nstore += 1
        elif o[0] == 'pickle':
            ids = out['chem_lists'][o[1]]
            ops.append(f'(PLoad {o[1]}%nat (hren {nstore}%nat {nl(ids)}) (hload {nstore}%nat {nl(ids)}) (hrebuild {nstore}%nat {len(ids)}%nat))')
            nstore += len(ids)
        else:
            ops.append(coq_pkgop(o))
    cl = clist([clist([f'{i}%nat' for i in x]) for x in out['chem_lists']])
    exp = clist([cpyv(v) for v in out['vals']])
    return (f'(pkghist_case {lnc} {lnd} {coq_ctab(out["tabI"])} {coq_ctab(out["tabJ"])} {coq_hspecs(case["chems"])} '
            f'({clist(ops)} : list (pop hstate)) {cl} {coq_pobs(case["obs"])} {exp})')


def coq_hist(case, out, lnc, lnd):
    cc = coq_cc
    def tab(t):
        return clist([f'({q(k[0])}, {q(k[1])}, {q(k[2])}, {q(v)})' for k, v in t])
    specs = clist([f'({PHC[s["pr"]]}, mkSc {qo(s["Tm"])} {qo(s["Tb"])} {qo(s["Hfus"])} {qo(s["Sfus"])} {qo(s["S0"])}, {qo(s["hv"])}, {cc(s["cn"])})'
                   for s in case['chems']])
    ops = []
    for o, ok in zip(case['ops'], out['oks']):
        if ok is not True:
            continue            # the call raised: no state change is expected
        ops.append(coq_hop(o))
    qs = clist([f'(Q{fn} {PHTP[ph]} {qo(T)} {qo(P)})' for fn, ph, T, P in case['queries']])
    exp = clist([clist([cpyv(v) for v in row]) for row in out['hvals']])
    cnqs = clist([PHT[ph] for fn, ph, T, P in case['queries']])
    cnexp = clist([clist([cpyv(v) for v in row]) for row in out['cnvals']])
    hvexp = clist([cpyv(v) for v in out['hvvals']])
    return (f'(hist_case {lnc} {lnd} {tab(out["tabI"])} {tab(out["tabJ"])} {specs} ({clist(ops)} : list hop) {qs} {exp} '
            f'{cnqs} {cnexp} {hvexp})')


def coq_show(case, out):
    lnc, lnd = (q(x) for x in case['ln'])
    if case['type'] == 'chem':
        qs = clist([f'(Q{fn} {PHTP[ph]} {qo(T)} {qo(P)})' for fn, ph, T, P in case['queries']])
        c = cchem(case['chem'], out['rec'])
        return f'(wiring_kinds {lnc} {lnd} {c}, map (run_query {lnc} {lnd} {c}) {qs})'
    return 'tt'


def nontrivial(case, out):
    return any(o[0] == 'ok' for o in out.get('vals', []))


def classify(case, out):
    ks = ['type:' + case['type']]
    if case['type'] == 'pkghist':
        return ks + [f'pkghist-op:{k}:{o[0]}' for k, o in case['ops']] + [f'pkghist-obs:{o[0]}:' + (v[0] if v[0] != 'err' else v[1]) for o, v in zip(case['obs'], out.get('vals', []))]
    if case['type'] == 'pkg':
        return ks + ['pkg-op:' + o[0] for o in case['ops']] + [f'pkg-obs:{o[0]}:' + (v[0] if v[0] != 'err' else v[1]) for o, v in zip(case['obs'], out.get('vals', []))]
    if case['type'] == 'ctor':
        d = out.get('ref', {})
        ks.append('ctor:method-' + ('none' if not case['method'] else 'switches-Hvap' if d.get('has') else 'not-an-Hvap-model'))
        ks.append(f'ctor:ref-{case["pr"]}' + ('/Hvap=' if case['hvap'] is not None else '') + ('/default' if case['default'] else ''))
        return ks + [f'query:{fn}.{ph}:' + (o[0] if o[0] != 'err' else o[1]) for (fn, ph, T, P), o in zip(case['queries'], out.get('vals', []))]
    if case['type'] == 'hist':
        for o, ok in zip(case['ops'], out.get('oks', [])):
            ks.append(f'hist-op:{o[0]}:' + ('ok' if ok is True else str(ok)))
        return ks
    specs = [case['chem']] if case['type'] == 'chem' else case.get('chems', [])
    for s in specs:
        ks.append(f'config:{s["kind"]}{"-" + s["sp"] if s["sp"] else ""}/ref-{s["pr"]}')
        if not all(s['has']): ks.append('data:falsy-Cn-handle')
        if s['hvap'] != 'ok' or s['hvap_val'] == 0: ks.append('data:Hvap-' + (s['hvap'] if s['hvap'] != 'ok' else 'zero'))
        if any(s[f] is None for f in ('Tm', 'Tb', 'Hfus', 'Sfus', 'S0')): ks.append('data:None-field')
        if s['Tm'] == 0 or s['Tb'] == 0: ks.append('data:zero-Tm-or-Tb')
    if case['type'] == 'sfus':
        ks.append('sfus:args-' + ('given' if case['Hfus'] is not None and case['Tm'] is not None else 'None') + ':' + out['Sfus'][0])
    elif case['type'] == 'chem':
        for (fn, ph, T, P), o in zip(case['queries'], out.get('vals', [])):
            ks.append(f'query:{fn}.{ph}:' + (o[0] if o[0] != 'err' else o[1]))
    else:
        for ob, o in zip(case['obs'], out.get('vals', [])):
            ks.append(f'obs:{ob[0]}:' + (o[0] if o[0] != 'err' else o[1]))
    return ks


# ---------------------------------------------------------------------------------------------- direct oracle
R_GAS = 8.3144598


def complete(spec):
    return (spec['kind'] == 'handle' and all(spec['has']) and spec['hvap'] == 'ok' and spec['hvap_val']
            and spec['Tm'] and spec['Tb'] and 0 < spec['Tm'] and 0 < spec['Tb']
            and all(spec[f] is not None for f in ('Hfus', 'Sfus', 'S0')))


def close(a, b, tol=1e-7):
    return abs(a - b) <= tol * max(1., abs(a), abs(b))


def oracle_chem(spec, Ts, Ps):
    """the thermodynamic identities, evaluated numerically on a real Chemical with analytic Cn = a + b T"""
    c, _, err = build_chem(spec, analytic=True)
    if err: return f'wiring: _init_energies raised {err} on complete data'
    H, S, Cn = c.H, c.S, c.Cn
    pr, Tm, Tb = spec['pr'], spec['Tm'], spec['Tb']
    tag = f'[phase_ref={pr}]'
    if not close(H(pr, T_REF, P_REF), 0.): return f'H_ref_zero{tag}: H({pr}, T_ref) = {H(pr, T_REF, P_REF)} != H_ref = 0'
    if not close(S(pr, T_REF, P_REF), spec['S0']): return f'S_ref{tag}: S({pr}, T_ref, P_ref) = {S(pr, T_REF, P_REF)} != S0 = {spec["S0"]}'
    for ph in 'slgSL':        # 'S' and 'L' label a second solid / liquid phase: same pure-component models
        for T in Ts:
            for P in Ps:
                h = 2. ** -6
                dH = (H(ph, T + h, P) - H(ph, T - h, P)) / (2 * h)
                dS = (S(ph, T + h, P) - S(ph, T - h, P)) / (2 * h)
                if not close(dH, Cn(ph, T), 1e-5): return f'dH_dT{tag}: dH/dT({ph}, {T}) = {dH} but Cn = {Cn(ph, T)}'
                if not close(dS, Cn(ph, T) / T, 1e-5): return f'dS_dT{tag}: dS/dT({ph}, {T}) = {dS} but Cn/T = {Cn(ph, T) / T}'
    for T in Ts:
        for P1 in Ps:
            for P2 in Ps:
                d = S('g', T, P2) - S('g', T, P1)
                if not close(d, -R_GAS * math.log(P2 / P1)): return f'S_pressure{tag}: S(g,{T},{P2}) - S(g,{T},{P1}) = {d} != -R ln(P2/P1) = {-R_GAS * math.log(P2 / P1)}'
                for ph in 'sl':
                    if not close(S(ph, T, P2), S(ph, T, P1)): return f'S_pressure{tag}: condensed-phase S depends on P'
    P = Ps[0]
    hv = spec['hvap_val']
    if not close(H('g', Tb, P) - H('l', Tb, P), hv): return f'jump_vap{tag}: H(g,Tb) - H(l,Tb) = {H("g", Tb, P) - H("l", Tb, P)} != Hvap(Tb) = {hv}'
    want = hv / Tb - R_GAS * math.log(P / P_REF)
    if not close(S('g', Tb, P) - S('l', Tb, P), want): return f'jump_vap{tag}: S(g,Tb,{P}) - S(l,Tb,{P}) = {S("g", Tb, P) - S("l", Tb, P)} != Hvap(Tb)/Tb - R ln(P/P_ref) = {want}'
    if not close(S('g', Tb, P_REF) - S('l', Tb, P_REF), hv / Tb): return f'jump_vap{tag}: S(g,Tb) - S(l,Tb) at P_ref = {S("g", Tb, P_REF) - S("l", Tb, P_REF)} != Hvap(Tb)/Tb = {hv / Tb}'
    if not close(H('l', Tm, P) - H('s', Tm, P), spec['Hfus']): return f'jump_fus{tag}: H(l,Tm) - H(s,Tm) = {H("l", Tm, P) - H("s", Tm, P)} != Hfus = {spec["Hfus"]}'
    if not close(S('l', Tm, P) - S('s', Tm, P), spec['Sfus']): return f'jump_fus{tag}: S(l,Tm) - S(s,Tm) = {S("l", Tm, P) - S("s", Tm, P)} != Sfus = {spec["Sfus"]}'
    return None


def oracle_locked(spec, Ts, Ps):
    """phase-locked chemicals, for every locked phase and every value of phase_ref"""
    for sp in 'slg':
        for pr in 'slg':
            c, _, err = build_chem(dict(spec, kind='locked', sp=sp, pr=pr), analytic=True)
            tag = f'[locked={sp},phase_ref={pr}]'
            if err: return f'wiring{tag}: _init_energies raised {err} on complete data'
            H, S, Cn = c.H, c.S, c.Cn
            if not close(H(T_REF, P_REF), 0.): return f'H_ref_zero{tag}: H(T_ref) = {H(T_REF, P_REF)}'
            if not close(S(T_REF, P_REF), spec['S0']): return f'S_ref{tag}: S(T_ref, P_ref) = {S(T_REF, P_REF)} != S0 = {spec["S0"]}'
            for T in Ts:
                h = 2. ** -6
                dH = (H(T + h, Ps[0]) - H(T - h, Ps[0])) / (2 * h)
                dS = (S(T + h, Ps[0]) - S(T - h, Ps[0])) / (2 * h)
                if not close(dH, Cn(T), 1e-5): return f'dH_dT{tag}: dH/dT({T}) = {dH} but Cn = {Cn(T)}'
                if not close(dS, Cn(T) / T, 1e-5): return f'dS_dT{tag}: dS/dT({T}) = {dS} but Cn/T = {Cn(T) / T}'
                for P1 in Ps:
                    for P2 in Ps:
                        d = S(T, P2) - S(T, P1)
                        want = -R_GAS * math.log(P2 / P1) if sp == 'g' else 0.
                        if not close(d, want):
                            return (f'locked_S_pressure{tag}: S({T},{P2}) - S({T},{P1}) = {d}, expected {want} '
                                    f'({"gas: -R ln(P2/P1)" if sp == "g" else "condensed phase: no pressure dependence"})')
    return None


def oracle_hist(case):
    """after the history, every chemical's H / S must be consistent with ITS OWN current Cn, Hvap, Tm, Tb, Hfus, Sfus, S0"""
    if case.get('check') == 'sfus_follows_setters':
        store = [build_hist_chem(s) for s in case['chems']]
        for o in case['ops']: apply_hist_op(store, o)
        for k, c in enumerate(store):
            if c.Tm and c.Hfus is not None and (c.Sfus is None or not close(c.Sfus, c.Hfus / c.Tm)):
                dS = c.S('l', c.Tm, P_REF) - c.S('s', c.Tm, P_REF)
                return (f'sfus_not_refreshed_by_setters: chemical #{k} after {[o[:1] + o[2:] for o in case["ops"]]}: Hfus = {c.Hfus}, Tm = {c.Tm} but Sfus = {c.Sfus}; '
                        f'S(l,Tm) - S(s,Tm) = {dS}, not Hfus/Tm = {c.Hfus / c.Tm}')
        return None
    cnq = [['s', 300.], ['l', 300.], ['g', 300.], ['s', 350.], ['l', 350.], ['g', 350.]]
    store = [build_hist_chem(s) for s in case['chems']]
    probe(store, cnq)
    for o in case['ops']:
        try: apply_hist_op(store, o)
        except (TypeError, ValueError, AttributeError, RuntimeError): pass
        probe(store, cnq)               # users look at Cn / Hvap between edits
    P = P_REF
    def now(handle, T):
        # the handle's current model near T, from two temperatures it was never asked before
        return 0.5 * (handle(T * (1 + 2. ** -20)) + handle(T * (1 - 2. ** -20)))
    for k, c in enumerate(store):
        tag = f'[chemical #{k} after {[o[0] for o in case["ops"]]}]'
        for ph in ([c.locked_state] if c.locked_state else 'slg'):
            hd = c.Cn if c.locked_state else getattr(c.Cn, ph)
            for T in (300., 350.):          # 300 is the temperature every look ended with
                if hd:
                    seen = hd(T); cur = now(hd, T)
                    if not close(seen, cur, 1e-7):
                        return f'handle_returns_stale_value{tag}: Cn.{ph}({T}) returned {seen} but its current model gives {cur} next to {T}'
        if c.Hvap and c.Tb:
            seen = c.Hvap(c.Tb); cur = now(c.Hvap, c.Tb)
            if not close(seen, cur, 1e-7):
                return f'handle_returns_stale_value{tag}: Hvap(Tb) returned {seen} but its current model gives {cur} next to Tb'
        locked, pr = c.locked_state, c.phase_ref
        if locked:
            H, S, Cn = (lambda ph, T, P: c.H(T, P)), (lambda ph, T, P: c.S(T, P)), (lambda ph, T: c.Cn(T))
            phases = [locked]
        else:
            H, S, Cn = c.H, c.S, c.Cn
            phases = 'slg'
        complete_ = bool(c.Hvap) and c.Tm and c.Tb and now(c.Hvap, c.Tb)
        for ph in phases:
            if not locked and not complete_ and ph != pr: continue
            for T in (300., 350.):
                h = 0.25
                try:
                    dH = (H(ph, T + h, P) - H(ph, T - h, P)) / (2 * h); dS = (S(ph, T + h, P) - S(ph, T - h, P)) / (2 * h)
                except TypeError as ex:
                    return f'wiring_not_own{tag}: H/S({ph}) raises {ex} although the data are complete'
                if not close(dH, Cn(ph, T), 1e-6): return f'wiring_not_own{tag}: dH/dT({ph},{T}) = {dH} but its own Cn = {Cn(ph, T)}'
                if not close(dS, Cn(ph, T) / T, 1e-5): return f'wiring_not_own{tag}: dS/dT({ph},{T}) = {dS} but its own Cn/T = {Cn(ph, T) / T}'
        refph = locked or pr
        if not close(H(refph, T_REF, P), 0.): return f'wiring_not_own{tag}: H at the reference state = {H(refph, T_REF, P)}'
        if not close(S(refph, T_REF, P), c.S0): return f'wiring_not_own{tag}: S at the reference state = {S(refph, T_REF, P)} != S0 = {c.S0}'
        if not locked and complete_:
            Tb, Tm, hv = c.Tb, c.Tm, now(c.Hvap, c.Tb)
            if not close(H('g', Tb, P) - H('l', Tb, P), hv): return f'wiring_not_own{tag}: H(g,Tb) - H(l,Tb) = {H("g", Tb, P) - H("l", Tb, P)} but its own Hvap(Tb) = {hv}'
            if not close(S('g', Tb, P) - S('l', Tb, P), hv / Tb): return f'wiring_not_own{tag}: S(g,Tb) - S(l,Tb) = {S("g", Tb, P) - S("l", Tb, P)} but its own Hvap(Tb)/Tb = {hv / Tb}'
            if not close(H('l', Tm, P) - H('s', Tm, P), c.Hfus): return f'wiring_not_own{tag}: H(l,Tm) - H(s,Tm) = {H("l", Tm, P) - H("s", Tm, P)} but its own Hfus = {c.Hfus}'
            if not close(S('l', Tm, P) - S('s', Tm, P), c.Sfus): return f'wiring_not_own{tag}: S(l,Tm) - S(s,Tm) = {S("l", Tm, P) - S("s", Tm, P)} but its own Sfus = {c.Sfus}'
    return None


def oracle_mix_pressure(specs):
    """mixtures containing phase-locked chemicals, in a phase of the other kind, at P != P_ref:
    S_mix - sum n_i S_i must not depend on P (the mixing term depends on composition only), and
    S_mix falls by R ln(P2/P1) per mole of gas-like component"""
    e = env(); tmo = e['tmo']
    base = specs[0]
    chems = [build_chem(dict(base, kind='handle', sp=None), analytic=True)[0],
             build_chem(dict(base, kind='locked', sp='g', pr='g'), analytic=True)[0],
             build_chem(dict(base, kind='locked', sp='s', pr='s'), analytic=True)[0],
             build_chem(dict(base, kind='locked', sp='l', pr='l'), analytic=True)[0]]
    mix = tmo.IdealMixture.from_chemicals(chems)
    def pure(c, ph, T, P):
        return c.S(T, P) if c.locked_state else c.S(ph, T, P)
    for phase in 'lgs':
        for mol in ([1., 2., 0.5, 0.25], [0., 1., 1., 0.], [2., 0., 0., 1.]):
            T = 350.
            def D(P):
                return mix.S(phase, mol, T, P) - sum(n * pure(c, phase, T, P) for n, c in zip(mol, chems) if n)
            for Px in (2 * P_REF, P_REF / 4):
                if not close(D(Px), D(P_REF)):
                    return (f'mix_entropy_pressure: phase {phase!r}, mol={mol} (flexible, locked gas, locked solid, locked liquid): '
                            f'S_mix - sum n_i S_i = {D(Px)} at P={Px} but {D(P_REF)} at P_ref')
                ngas = sum(n for n, c in zip(mol, chems) if (c.locked_state or phase) == 'g')
                d = mix.S(phase, mol, T, Px) - mix.S(phase, mol, T, P_REF)
                if not close(d, -R_GAS * ngas * math.log(Px / P_REF)):
                    return (f'mix_entropy_pressure: phase {phase!r}, mol={mol}: S_mix(P={Px}) - S_mix(P_ref) = {d}, expected '
                            f'-R n_gas ln(P/P_ref) = {-R_GAS * ngas * math.log(Px / P_REF)}')
    return None


def oracle_pkghist(case):
    """after the whole history (packages built, chemicals edited, more packages derived): for EVERY package the mixture H / Cn
    are the mole-weighted sums of what ITS chemicals report NOW, and a one-component flow has that component's entropy"""
    store, pstore, oks = run_pkghist_ops(case)
    T, P = 350., P_REF
    REBUILDS = ('reset', 'setpr', 'muthv', 'copymodels', 'mutcn', 'redefcn', 'atstate')
    created = [k for k, (kd, o) in enumerate(case['ops']) if kd == 'pkg']       # op index at which package #j was derived
    def edits_after(j, cid):
        """what was done to chemical cid after package j was derived: 'rebuild' if its functors were rebuilt, 'constant' if only
        the S0 / Hfus / Sfus setters were used, None if nothing"""
        kinds = set()
        for kd, o in case['ops'][created[j] + 1:]:
            if kd == 'chem' and o[1] == cid:
                kinds.add('rebuild' if o[0] in REBUILDS or (o[0] == 'setsc' and o[2] in ('Tm', 'Tb')) else 'constant')
        return 'rebuild' if 'rebuild' in kinds else ('constant' if kinds else None)
    def describe():
        return [o[0] if kd == 'pkg' else (f'{o[2]}=' if o[0] == 'setsc' else o[0]) + f'(#{o[1]})' for kd, o in case['ops']]
    for k, t in enumerate(pstore):
        own = t.chemicals.tuple
        n = len(own)
        def pure(f, c, ph):
            return f(c)(T, P) if c.locked_state else f(c)(ph, T, P)
        for j, c in enumerate(own):
            m = [0.] * n; m[j] = 2.
            cid = ident_index(store, c)
            for phase in 'lgs':
                try:
                    wantH, wantS = 2. * pure(lambda c: c.H, c, phase), 2. * pure(lambda c: c.S, c, phase)
                    wantC = 2. * (c.Cn(T) if c.locked_state else c.Cn(phase, T))
                except TypeError:
                    continue            # incomplete data for this phase: nothing to compare
                got = {'H': t.mixture.H(phase, m, T, P), 'S': t.mixture.S(phase, m, T, P), 'Cn': t.mixture.Cn(phase, m, T)}
                for name, want in (('H', wantH), ('S', wantS), ('Cn', wantC)):
                    if not close(got[name], want):
                        why = edits_after(k, cid)
                        key = {'rebuild': 'package_mixture_stale_after_functor_rebuild', 'constant': 'package_mixture_stale_after_constant_setter',
                               None: 'package_mixture_wrong'}[why]
                        return (f'{key}: package #{k} (chemicals {[ident_index(store, x) for x in own]}) after {describe()}: mixture.{name}({phase!r}, {m}) = {got[name]} '
                                f'but 2 x {name} of its chemical #{cid} is now {want}')
    return None


def oracle_pkg(case):
    """every package derived by the operations: mixture H / Cn are the mole-weighted sums over ITS chemicals in ITS order,
    and a one-component flow has the entropy of that component"""
    specs = [s if complete(s) else dict(_witness_spec(s['seed'], s['pr']), Tm=TMS[s['seed'] % 4], Tb=TBS[s['seed'] % 4],
                                        S0=VALS[1 + s['seed'] % 6], hvap_val=VALS[1 + (s['seed'] // 7) % 6] or 1000.) for s in case['chems']]
    chems = [build_chem(s, analytic=True)[0] for s in specs]
    # make the chemicals distinguishable: different constant offsets through H_ref would need source access; use S0 / Hfus / Hvap
    store = run_pkg_ops(chems, case['ops'])
    T, P = 350., P_REF
    for k, t in enumerate(store):
        own = t.chemicals.tuple
        tag = f'[package #{k} = {case["ops"][k][0]}, chemicals {[chems.index(c) for c in own]}]'
        n = len(own)
        mols = [[0.] * j + [2.] + [0.] * (n - j - 1) for j in range(n)] + [[1. + 0.5 * j for j in range(n)]]
        for phase in 'lg':
            pureH = [c.H(phase, T, P) for c in own]; pureC = [c.Cn(phase, T) for c in own]; pureS = [c.S(phase, T, P) for c in own]
            for m in mols:
                got, want = t.mixture.H(phase, m, T, P), sum(x * y for x, y in zip(m, pureH))
                if not close(got, want): return f'package_mixture_misaligned{tag}: mixture.H({phase!r}, {m}) = {got} but sum n_i H_i of its own chemicals = {want}'
                got, want = t.mixture.Cn(phase, m, T), sum(x * y for x, y in zip(m, pureC))
                if not close(got, want): return f'package_mixture_misaligned{tag}: mixture.Cn({phase!r}, {m}) = {got} but sum n_i Cn_i of its own chemicals = {want}'
                if sum(1 for x in m if x) == 1:
                    got, want = t.mixture.S(phase, m, T, P), sum(x * y for x, y in zip(m, pureS))
                    if not close(got, want): return f'package_mixture_misaligned{tag}: mixture.S({phase!r}, {m}) = {got} for a single component but n S_i = {want}'
    return None


def oracle_mix(specs, mols, phase, T, P):
    e = env(); tmo = e['tmo']
    chems = [build_chem(s, analytic=True)[0] for s in specs]
    mix = tmo.IdealMixture.from_chemicals(chems)
    n = len(chems)
    mols = [[abs(x) for x in m[:n]] + [0.] * (n - len(m[:n])) for m in mols]
    late = None
    for lab in 'LS':          # the second liquid / solid phase of a multi-phase stream
        for m in mols:
            pureC = [c.Cn(lab, T) for c in chems]
            if not close(mix.Cn(lab, m, T), sum(x * y for x, y in zip(m, pureC))):
                return f'mix_linear: mixture Cn({lab!r}) {mix.Cn(lab, m, T)} is not the mole-weighted sum {sum(x * y for x, y in zip(m, pureC))}'
            h = 2. ** -6
            dH = (mix.H(lab, m, T + h, P) - mix.H(lab, m, T - h, P)) / (2 * h)
            if not close(dH, mix.Cn(lab, m, T), 1e-5):
                return f'mix_dH_dT: d mixture.H({lab!r}, {m})/dT = {dH} but mixture.Cn({lab!r}) = {mix.Cn(lab, m, T)}'
            for name, f in (('H', lambda p: mix.H(p, m, T, P)), ('Cn', lambda p: mix.Cn(p, m, T))):
                if not close(f(lab), f(lab.lower())):
                    return f'phase_label: mixture {name}({lab!r}, {m}) = {f(lab)} differs from the value for {lab.lower()!r} = {f(lab.lower())}'
    for m in mols:
        for name, f, pure in (('H', lambda mm: mix.H(phase, mm, T, P), [c.H(phase, T, P) for c in chems]),
                              ('Cn', lambda mm: mix.Cn(phase, mm, T), [c.Cn(phase, T) for c in chems])):
            if not close(f(m), sum(x * y for x, y in zip(m, pure))): return f'mix_linear: mixture {name} {f(m)} is not the mole-weighted sum {sum(x * y for x, y in zip(m, pure))}'
            if not close(f([3 * x for x in m]), 3 * f(m)): return f'mix_linear: mixture {name} is not extensive'
            for m2 in mols:
                if not close(f([x + y for x, y in zip(m, m2)]), f(m) + f(m2)): return f'mix_linear: mixture {name} is not additive'
        tot = sum(m)
        if tot > 0:
            ideal = -R_GAS * sum(x * math.log(x / tot) for x in m if x > 0)
            got = mix.S(phase, m, T, P) - sum(x * c.S(phase, T, P) for x, c in zip(m, chems))
            if not close(got, ideal) and late is None:
                late = (f'ideal_entropy_mixing_term: S_mix - sum n_i S_i = {got} for mol={m}, expected -R sum n_i ln x_i = {ideal} '
                        f'(IdealEntropyModel adds + n ln x without R)')
    for m in mols:
        for m2 in mols:
            if sum(m) > 0 and sum(m2) > 0:
                a, b, ab = mix.S(phase, m, T, P), mix.S(phase, m2, T, P), mix.S(phase, [x + y for x, y in zip(m, m2)], T, P)
                if ab < a + b - 1e-9 * max(1., abs(a + b)) and late is None:
                    late = (f'ideal_entropy_mixing_term: mixing {m} and {m2} at equal T, P lowers S: {ab} < {a} + {b}')
    return late


def oracle(case):
    """The property itself evaluated on the implementation (real log, analytic heat capacities)."""
    if case['type'] == 'chem':
        spec = case['chem']
        if not complete(spec): return None
        Ts = sorted({T for _, _, T, _ in case['queries'] if T and T > 100.} | {300., 350.})[:4]
        Ps = sorted({P for _, _, _, P in case['queries'] if P and P > 0} | {P_REF, 2 * P_REF})[:3]
        for pr in 'slg':
            msg = oracle_chem(dict(spec, pr=pr), Ts, Ps)
            if msg: return msg
        return oracle_locked(spec, Ts[:2], Ps)
    if case['type'] == 'mix':
        specs = [s for s in case['chems'] if complete(s)]
        if len(specs) < 2: return None
        for s in specs:
            msg = oracle_chem(s, [300., 350.], [P_REF, 2 * P_REF])
            if msg: return msg
        msg = oracle_mix_pressure(specs)
        if msg: return msg
        mols = [o[2] for o in case['obs'] if o[0] in ('H', 'S', 'Cn')] + [[1., 0.] + [0.] * (len(specs) - 2), [0., 1.] + [0.] * (len(specs) - 2)]
        return oracle_mix(specs, mols[:4], 'l', 350., P_REF)
    if case['type'] == 'db':
        return oracle_db(case)
    if case['type'] == 'ctor':
        return oracle_ctor(case)
    if case['type'] == 'hist':
        return oracle_hist(case)
    if case['type'] == 'pkg':
        return oracle_pkg(case)
    if case['type'] == 'pkghist':
        return oracle_pkghist(case)
    if case['type'] == 'sfus':
        out = run_init_data(case)
        if out['stored_Hfus'] is not None and out['stored_Tm'] is not None and F(out['stored_Tm']) != 0:
            want = float(F(out['stored_Hfus']) / F(out['stored_Tm']))
            got = out['Sfus']
            if got[0] != 'ok' or not close(float(F(got[1])), want):
                return (f'jump_fus_entropy_undefined: _init_data(Hfus={case["Hfus"]}, Tm={case["Tm"]}) stores Hfus={float(F(out["stored_Hfus"]))}, '
                        f'Tm={float(F(out["stored_Tm"]))} but Sfus={got} instead of Hfus/Tm={want}')
        return None
    return None


def oracle_db(case):
    """real database chemicals: identities by finite differences on the real handles"""
    e = env(); tmo = e['tmo']
    c = tmo.Chemical(case['ID'], cache=False)
    if case.get('phase_ref'): c.phase_ref = case['phase_ref']
    H, S, Cn = c.H, c.S, c.Cn
    pr, Tm, Tb = c.phase_ref, c.Tm, c.Tb
    if not close(H(pr, T_REF, P_REF), 0.): return f'H_ref_zero: {case["ID"]} H({pr}, T_ref) = {H(pr, T_REF, P_REF)}'
    if not close(S(pr, T_REF, P_REF), c.S0): return f'S_ref: {case["ID"]} S({pr}, T_ref, P_ref) = {S(pr, T_REF, P_REF)} != S0 = {c.S0}'
    hv = c.Hvap(Tb)
    P = P_REF
    if not close(H('g', Tb, P) - H('l', Tb, P), hv, 1e-6): return f'jump_vap: {case["ID"]} H jump at Tb {H("g", Tb, P) - H("l", Tb, P)} != Hvap(Tb) {hv}'
    if not close(S('g', Tb, P) - S('l', Tb, P), hv / Tb, 1e-6): return f'jump_vap: {case["ID"]} S jump at Tb != Hvap(Tb)/Tb'
    if not close(H('l', Tm, P) - H('s', Tm, P), c.Hfus, 1e-6): return f'jump_fus: {case["ID"]} H jump at Tm {H("l", Tm, P) - H("s", Tm, P)} != Hfus {c.Hfus}'
    try:
        dS = S('l', Tm, P) - S('s', Tm, P)
    except TypeError as ex:
        return f'jump_fus_entropy_undefined: {case["ID"]} (phase_ref={pr}) S cannot be evaluated across the melting point: Sfus is {c.Sfus} ({ex})'
    if not close(dS, c.Hfus / Tm, 1e-6): return f'jump_fus: {case["ID"]} S jump at Tm {dS} != Hfus/Tm {c.Hfus / Tm}'
    return None


def search_cases(rng, tier):
    out = [{'type': 'db', 'ID': 'Water', 'phase_ref': None}, {'type': 'db', 'ID': 'Ethanol', 'phase_ref': 'g'},
           {'type': 'db', 'ID': 'CO2', 'phase_ref': None}, {'type': 'db', 'ID': 'CO2', 'phase_ref': 's'}, {'type': 'db', 'ID': 'SF6', 'phase_ref': 'l'}]
    a = {'pr': 'l', 'Tm': 200., 'Tb': 350., 'Hfus': 1000., 'Sfus': 5., 'S0': 12.25, 'cn': [24., 64., 32.], 'hv': 40650.}
    b = dict(a, cn=[40., 128., 75.5], hv=6010.5, pr='g')
    qs = [['H', 'l', 300., P_REF]]
    out += [{'type': 'hist', 'chems': [a], 'ops': [['copy', 0], ['mutcn', 0, [40., 128., 75.5]]], 'queries': qs, 'ln': [0., 1.]},
            {'type': 'hist', 'chems': [a], 'ops': [['copy', 0], ['redefcn', 0, [40., 128., 75.5]]], 'queries': qs, 'ln': [0., 1.]},
            {'type': 'hist', 'chems': [a, b], 'ops': [['copymodels', 0, 1, ['Hvap']]], 'queries': qs, 'ln': [0., 1.]},
            {'type': 'hist', 'chems': [dict(a, hv=None), b], 'ops': [['copymodels', 0, 1, ['Hvap', 'Psat']]], 'queries': qs, 'ln': [0., 1.]},
            {'type': 'hist', 'chems': [a, b], 'ops': [['copymodels', 0, 1, ['Cn']], ['setsc', 0, 'Tb', 400.5], ['atstate', 1, 'g'], ['setpr', 0, 's']], 'queries': qs, 'ln': [0., 1.]}]
    for k in range(20 if tier == 'quick' else 200):
        out.append(gen_hist(rng))
        out.append(gen_pkg(rng))
        out.append(gen_pkghist(rng))
        w, v = rng.choice([('S0', 40650.), ('Hfus', 6010.5), ('Sfus', 12.25)])
        out.append({'type': 'pkghist', 'chems': [_HA, _HB], 'ops': [['pkg', ['new', [0, 1]]], ['chem', ['setsc', rng.randrange(2), w, v]]], 'obs': [], 'ln': [0., 1.]})
        out.append({'type': 'pkghist', 'chems': [_HA, _HB], 'ops': [['pkg', ['new', [0, 1]]], ['pkg', ['pickle', 0]], ['chem', ['setsc', 2 + rng.randrange(2), w, v]]], 'obs': [], 'ln': [0., 1.]})
    for k in range(40 if tier == 'quick' else 400):
        spec = gen_spec(rng, complete=True)
        spec['kind'], spec['sp'] = 'handle', None
        out.append({'type': 'chem', 'chem': spec, 'queries': [['H', 'l', rng.choice(TS), rng.choice(PS)]], 'ln': [0., 1.]})
    return out


def shrink(case):
    if case.get('type') == 'hist':
        return vf.shrink_list(case, 'ops', oracle)
    if case.get('type') == 'pkghist':
        return vf.shrink_list(dict(case, obs=[]), 'ops', oracle)
    if case.get('type') == 'pkg':
        # keep the observations consistent with the packages that remain: drop them, the oracle does not use them
        return vf.shrink_list(dict(case, obs=[]), 'ops', oracle)
    return case


def finding_key(case, msg):
    return msg.split(':')[0].split('[')[0]


def _witness_spec(seed, pr):
    return {'kind': 'handle', 'sp': None, 'pr': pr, 'seed': seed, 'Tm': 200., 'Tb': 400.5, 'Hfus': 1000., 'Sfus': 5.,
            'S0': 12.25, 'has': [True, True, True], 'hvap': 'ok', 'hvap_val': 40650.}


_HA = {'pr': 'l', 'Tm': 200., 'Tb': 350., 'Hfus': 1000., 'Sfus': 5., 'S0': 12.25, 'cn': [24., 64., 32.], 'hv': 40650.}
_HB = dict(_HA, cn=[40., 128., 75.5], hv=6010.5, pr='g')
_HQ = [['H', 'g', 400., P_REF], ['S', 'g', 400., 2 * P_REF], ['H', 'l', 300., P_REF], ['S', 's', 250., P_REF]]
def _pkg_spec(seed, pr):
    return dict(_witness_spec(seed, pr), Tm=TMS[seed % 4], Tb=TBS[seed % 4], S0=VALS[1 + seed % 6], Hfus=VALS[1 + seed % 5])


_PK = [_pkg_spec(11, 'l'), _pkg_spec(12, 'g'), _pkg_spec(13, 's'), _pkg_spec(14, 'l')]
CORPUS = [
    # a package exists, THEN a chemical is edited (each kind of setter / reset), then another package is derived
    {'type': 'pkghist', 'chems': [_HA, _HB], 'ops': [['pkg', ['new', [0, 1]]], ['chem', ['setsc', 0, 'Tb', 400.5]], ['chem', ['setpr', 1, 'l']],
                                                   ['pkg', ['subset', 0, [1, 0]]], ['chem', ['setsc', 0, 'S0', 40650.]], ['chem', ['setsc', 1, 'Hfus', 6010.5]],
                                                   ['chem', ['setsc', 1, 'Sfus', 12.25]], ['pkg', ['ideal', 1]], ['chem', ['muthv', 1, 30000.]],
                                                   ['chem', ['copymodels', 0, 1, ['Hvap']]], ['pkg', ['subset', 0, [0, 1]]]],
     'obs': [['H', 0, 'g', [1., 2.], 400., P_REF], ['S', 0, 'l', [2., 0.], 300., P_REF], ['S', 0, 's', [0., 1.], 250., 2 * P_REF], ['Cn', 0, 'l', [1., 1.], 300., P_REF],
             ['H', 1, 's', [1., 2.], 250., P_REF], ['S', 1, 'g', [1., 0.], 400., P_REF], ['H', 2, 'l', [0.5, 0.25], 300., P_REF],
             ['H', 3, 'g', [1., 2.], 400., P_REF], ['S', 3, 's', [0., 1.], 250., P_REF]], 'ln': [0., 1.]},
    # the package goes through pickle together with its chemicals; then the LOADED chemicals (#2, #3) are edited
    {'type': 'pkghist', 'chems': [_HA, _HB], 'ops': [['pkg', ['new', [1, 0]]], ['chem', ['setsc', 0, 'Hfus', 6010.5]], ['pkg', ['pickle', 0]],
                                                   ['chem', ['setsc', 2, 'S0', 40650.]], ['chem', ['setsc', 3, 'Hfus', 0.5]], ['chem', ['setsc', 3, 'Sfus', 12.25]],
                                                   ['chem', ['setsc', 0, 'S0', 1000.]], ['pkg', ['pickle', 1]], ['chem', ['setsc', 4, 'Tb', 400.5]]],
     'obs': [['S', 1, 'g', [2., 1.], 400., P_REF], ['H', 1, 's', [1., 2.], 250., P_REF], ['S', 1, 's', [0., 1.], 250., 2 * P_REF], ['S', 0, 'l', [1., 1.], 300., P_REF],
             ['H', 2, 'g', [1., 1.], 400., P_REF], ['S', 2, 'L', [2., 0.], 300., P_REF], ['Cn', 1, 'L', [1., 3.], 300., P_REF]], 'ln': [0., 1.]},
    # only the S0 / Hfus / Sfus setters after the package: they patch the functors in place, the package must follow
    {'type': 'pkghist', 'chems': [_HA, _HB], 'ops': [['pkg', ['new', [1, 0]]], ['chem', ['setsc', 0, 'S0', 40650.]], ['chem', ['setsc', 1, 'Hfus', 6010.5]],
                                                   ['chem', ['setsc', 1, 'Sfus', 12.25]], ['chem', ['setsc', 0, 'Hfus', 0.5]], ['pkg', ['ideal', 0]]],
     'obs': [['S', 0, 'l', [0., 2.], 300., P_REF], ['S', 0, 's', [1., 1.], 250., P_REF], ['H', 0, 's', [2., 1.], 250., P_REF], ['S', 1, 'g', [1., 3.], 400., 2 * P_REF]], 'ln': [0., 1.]},
    # packages: the same chemicals in another order, strict subsets, extension, ideal()
    {'type': 'pkg', 'chems': _PK, 'ops': [['new', [0, 1, 2]], ['subset', 0, [2, 0, 1]], ['subset', 1, [1, 2]], ['extended', 0, [3, 1]],
                                       ['ideal', 1], ['subset', 4, [0, 1, 2]]],
     'obs': [['H', 1, 'l', [3., 0., 0.], 300., P_REF], ['Cn', 1, 'g', [1., 2., 0.5], 350., P_REF], ['S', 1, 'l', [0., 0., 2.], 350., 2 * P_REF],
             ['H', 2, 'g', [1., 2.], 350., P_REF], ['H', 3, 'l', [1., 0., 0., 2.], 350., P_REF], ['H', 4, 'l', [0., 1., 0.], 300., P_REF],
             ['H', 5, 'l', [0., 0., 1.], 300., P_REF], ['Cn', 5, 'l', [2., 1., 0.5], 300., P_REF]], 'ln': [0., 1.]},
    # histories aimed at every call site of the wiring (seeded changes C07-1, C07-2 and the shared user-method containers)
    {'type': 'hist', 'chems': [_HA], 'ops': [['copy', 0], ['mutcn', 0, [40., 128., 75.5]]], 'queries': _HQ, 'ln': [0., 1.]},
    {'type': 'hist', 'chems': [_HA], 'ops': [['copy', 0], ['redefcn', 0, [40., 128., 75.5]]], 'queries': _HQ, 'ln': [0., 1.]},
    {'type': 'hist', 'chems': [_HA], 'ops': [['copy', 0], ['redefcn', 1, [40., 128., 75.5]], ['setsc', 0, 'Tb', 400.5]], 'queries': _HQ, 'ln': [0., 1.]},
    {'type': 'hist', 'chems': [_HA, _HB], 'ops': [['copymodels', 0, 1, ['Hvap']]], 'queries': _HQ, 'ln': [0., 1.]},
    {'type': 'hist', 'chems': [_HA, _HB], 'ops': [['atstatecopy', 0, 'g'], ['atstatecopy', 1, 's'], ['atstatecopy', 0, 'l'], ['atstate', 1, 'l']], 'queries': _HQ, 'ln': [0., 1.]},
    {'type': 'hist', 'chems': [dict(_HA, hv=None), _HB], 'ops': [['copymodels', 0, 1, ['Hvap', 'Psat']]], 'queries': _HQ, 'ln': [0., 1.]},
    {'type': 'hist', 'chems': [_HA, _HB], 'ops': [['copymodels', 0, 1, ['Cn']], ['redefcn', 1, [24., 24., 24.]], ['atstate', 1, 'g'], ['setpr', 0, 's']], 'queries': _HQ, 'ln': [0., 1.]},
    # the witness of mix_entropy_refuted, as a correspondence case (model and implementation must agree on it)
    {'type': 'mix', 'chems': [_witness_spec(1, 'l'), _witness_spec(2, 'l')], 'excess': False, 'Hex': [0., 0.], 'Sex': [0., 0.],
     'obs': [['S', 'l', [1., 1.], 350., P_REF], ['S', 'l', [1., 0.], 350., P_REF], ['S', 'l', [0., 1.], 350., P_REF]], 'ln': [1., 1.]},
]
WITNESSES = [
    {'key': 'package_mixture_stale_after_functor_rebuild',
     'case': {'type': 'pkghist', 'chems': [_HA, _HB], 'ops': [['pkg', ['new', [0, 1]]], ['chem', ['setpr', 0, 'g']]], 'obs': [], 'ln': [0., 1.]}},
    {'key': 'sfus_not_refreshed_by_setters',
     'case': {'type': 'hist', 'check': 'sfus_follows_setters', 'chems': [_HA], 'ops': [['setsc', 0, 'Tm', 250.]], 'queries': _HQ, 'ln': [0., 1.]}},
    {'key': 'ideal_entropy_mixing_term',
     'case': {'type': 'mix', 'chems': [_witness_spec(1, 'l'), _witness_spec(2, 'l')], 'excess': False, 'Hex': [0., 0.], 'Sex': [0., 0.],
              'obs': [['S', 'l', [1., 1.], 350., P_REF]], 'ln': [0., 1.]}},
]
