"""C13 — copies are independent, links share what they advertise, pickles round-trip.
Correspondence harness (real tmo.Stream / tmo.MultiStream object graphs vs the heap model of
coq/C13/Model.v), generators and the direct oracle."""
import pickle, warnings, signal, functools, os, sys
import numpy as np
from fractions import Fraction as F
import vf
from vf import q, qlist, clist, cbool, cnat, copt, frac, fr_json
sys.path.insert(0, os.path.join(vf.VERIF, 'tr'))

ID = 'C13'
COQ_DIR = 'C13'
COQ_HEADER = 'From V Require Import Common.Num C13.Model C13.ModelViews C13.ModelPickle.\nOpen Scope Q_scope.'
MODEL_FILES = ('Model.v', 'ModelViews.v', 'ModelPickle.v')

def translate():
    """utils/pickle.py (cucumber) and the slot protocol of Thermo / IdealThermo -> coq/C13/Gen_pickle.v"""
    import importlib
    return [importlib.import_module('C13_pickle').run(vf.REPO, os.path.join(vf.COQ, COQ_DIR))]

RULE = ('histories of 3-10 operations (copy, copy_like, copy_thermal_condition, copy_phase, flow_proxy, proxy, link_with with '
        'every flag subset, unlink, set flow entry / T / P / phase / phases, scale, empty, in-process __reduce__->from_data) over a '
        'store of 2-4 real Stream/MultiStream objects (single phase, multi-phase incl. one-phase MultiStreams and upper-case '
        'phases, flows from a dyadic alphabet) built over two stub property packages with the chemicals in different order '
        '([A,B,C] and [C,A,D,B]); the same history is run on the heap model in Coq.  Compared: per-operation outcome '
        '(ok / exception class), and for every stream of the final store kind, package, phases, dense flow rows, T, P, price, '
        'characterization factors, ID class, and the aliasing pattern (canonical labels of id() of the indexer, the data '
        'container, every row vector, the phase box and the thermal condition).  Every final stream is also pickled for real '
        'and compared with the in-process reduce.  Flows are additionally read through the keyed access imol[phase, ID] after every '
        'operation (so the index memo is filled before and used after every phase expansion) and through the mass view imass '
        '(operations read_mass / set_mass create and write through the view; the model predicts which rows the view wraps); H is read '
        'through every handle (read_H fills the property memo; families with proxies around undone state changes, and with '
        'other-package sources holding the same chemicals in different dict orders).  non-trivial = at least one operation succeeded and (a mutation changed an '
        'observable or two streams share a cell); distinct = distinct case hash.  Family phase-views: histories of 3-10 operations over '
        '2-3 streams (mostly MultiStreams of one package and phase tuple) mixing ms[phase] look-ups, writes of a flow / T / phase through '
        'the view, copy / flow_proxy / unlink of the view with link_with, unlink, phase(s) setters, copy_like (phase expansion), mutators, '
        'copy, proxies and reduce of the MultiStreams; compared with ModelViews.vrun: outcome of every operation, the keys of every '
        '_streams dict in order, and values + aliasing labels over the store streams AND all cached views; non-trivial = a view exists at the end.  '
        'Family pickle-slots: histories of 3-9 operations over a store of property packages (Thermo(...) over either package with two '
        'activity-coefficient classes, ideal(), pickle round trip, in-process __reduce__, __enter__, applied to packages with and without a '
        'cached ideal package, to ideal packages and to earlier round-trip results); compared with ModelPickle.prun: outcome of every '
        'operation and, for the whole object graph below the store in canonical order, the class and the state of EVERY slot of every '
        'object (unset / None / value code / number of the referenced object); non-trivial = a pickle or reduce succeeded')
ASSUMPTIONS = ['float rounding is not modelled: values compared to 1e-9 relative; inputs are dyadic so copies are exact',
               'links are only generated between streams of the same property package and, for MultiStreams, the same phase tuple '
               '(link_with checks neither); a MultiStream whose shared SparseArray was re-shaped by _expand_phases through its partner '
               '(rows no longer aligned with its phases) is not operated on any further',
               'Stream.phases = <set lacking the current phase of a non-empty stream> leaves __class__ and _imol mismatched; '
               'such assignments are skipped by the harness (recorded as skip) and are outside the model',
               'MultiStream.proxy() leaves the MultiStream-only slots (_streams, equilibrium caches) unset, so assigning phase/phases '
               'to such a proxy raises AttributeError after rebinding _imol; those assignments are skipped as well',
               'characterization_factors, price, ID are plain values in the model (the dict shared by proxy() is not a heap cell)',
               'the volumetric view and _property_cache, copy(thermo=...) / copy_flow are not modelled; the per-phase views ms[phase] are '
               'modelled (coq/C13/ModelViews.v) for __getitem__, writes of flows / T / phase through the view, copy, flow_proxy, unlink of '
               'the view and the maintenance of _streams by the phase(s) setters; copy_like / link_with ONTO a view and the unset price '
               'slot of a view are not; '
               'of _data_cache only the mass view is modelled (which dict an indexer holds, which rows the view wraps)']
TRUSTED = ['model coq/C13/Model.v is hand-written from thermosteam/_stream.py, _multi_stream.py, indexer.py, _phase.py, '
           '_thermal_condition.py; SparseVector rows are dense Q lists; tie = correspondence check on values and aliasing',
           'pickle of Reaction / Chemical is executed, not modelled (harness compares observable state); the generic pickling of slotted '
           'classes (utils/pickle.py cucumber: get_state / new_from_state, misc.getfields / setfields) is interpreted by the hand-written '
           'coq/C13/ModelPickle.v over class tables regenerated from the source on every run by tr/C13_pickle.py (slots, _pickle_recipe, '
           'slot writes of Thermo.__init__ and Thermo.ideal(); the fixed-shape functions are compared with the expected AST, anything else '
           'is a translator error); pickle itself is modelled as: reduce value built recursively, args first, memo per object, opaque '
           'values (chemicals, mixture, classes) carried over as codes',
           'the equilibrium caches (_vle_cache, _lle_cache, _sle_cache) are executed, not modelled: after every operation their '
           'references must be the MultiStream\'s own indexer and thermal condition (eq_cache_checks)',
           'the per-phase views ms[phase] (LockedPhase) are modelled by hand in coq/C13/ModelViews.v (family phase-views of the '
           'correspondence: which views exist, their values and the aliasing of their cells with every stream of the store); '
           'pickles of a view and copy_like onto its copy stay executed clauses (view_checks)',
           'the property memo (_property_cache, _property_cache_key) is modelled by its specification: H is a function of the '
           'current state (64 (T - 298.15) * total flow for the stub packages); read_H operations fill and use the memo']

# ------------------------------------------------------------------ time limits
# The driver's per-case limit is wall time; on a loaded machine a healthy case can exceed a short wall limit, so it is set
# generously (a blocked call is still reported) and a real hang (a loop that burns CPU) is reported by a limit on the CPU
# time of this process.  Neither is ever turned into a property message: both propagate out of run_impl / oracle.
CASE_TIMEOUT = 900
CPU_LIMIT = 90

class CpuTimeout(Exception):
    pass

def _cpu_alarm(signum, frame):
    raise CpuTimeout(f'more than {CPU_LIMIT} s of CPU time in one case: the implementation does not return')

def cpu_limited(fn):
    @functools.wraps(fn)
    def wrapper(*a, **k):
        old = signal.signal(signal.SIGVTALRM, _cpu_alarm)
        signal.setitimer(signal.ITIMER_VIRTUAL, CPU_LIMIT)
        try:
            return fn(*a, **k)
        finally:
            signal.setitimer(signal.ITIMER_VIRTUAL, 0)
            signal.signal(signal.SIGVTALRM, old)
    return wrapper

def is_timeout(ex):
    return type(ex).__name__ in ('CaseTimeout', 'CpuTimeout')

# ------------------------------------------------------------------ environment
CHEMS = ['A_', 'B_', 'C_', 'D_']
PKGS = [[0, 1, 2], [2, 0, 3, 1]]
PH = {'L': 0, 'S': 1, 'g': 2, 'l': 3, 's': 4, 'q': 6}
ERR = {'ValueError': 'EValue', 'KeyError': 'EKey', 'IndexError': 'EIndex', 'TypeError': 'EType',
       'RuntimeError': 'ERuntime', 'UndefinedPhase': 'EUndefPhase', 'UndefinedChemicalAlias': 'EKey',
       'InfeasibleRegion': 'EInfeasible', 'AttributeError': 'EOther'}
_env = {}

def env():
    if not _env:
        warnings.filterwarnings('ignore')
        import thermosteam as tmo
        mk = lambda n, mw, **k: tmo.Chemical(n, search_db=False, MW=mw, Hf=0., Cn=64., phase='l', default=True, **k)
        cs = [mk(n, mw) for n, mw in zip(CHEMS, [16., 32., 8., 4.])]
        _env['tmo'] = tmo
        _env['chems'] = cs
        _env['thermo'] = [tmo.Thermo(tmo.Chemicals([cs[i] for i in p])) for p in PKGS]
        # a package whose chemicals carry user-defined names (constructor aliases / synonyms and Chemicals.set_alias)
        al = [mk('E_', 16., aliases={'Eta'}), mk('F_', 8., synonyms='Phi0'), mk('G_', 4.)]
        _env['alias_thermo'] = tmo.Thermo(tmo.Chemicals(al))
        _env['alias_thermo'].chemicals.set_alias('F_', 'Phi')
        _env['alias_names'] = {'E_': ['Eta'], 'F_': ['Phi0', 'Phi'], 'G_': []}
        tmo.settings.set_thermo(_env['thermo'][0])
    return _env

def swapcase(p):
    return p.lower() if p.isupper() else p.upper()

# ------------------------------------------------------------------ generators
VALS = [0., 0., 1., 2., 0.5, 4., 3., 1024., 1. / 1024, 0.25]
TS = [300., 350.5, 273.25, 400., 298.125]
PS = [101325., 200000., 50000.5, 101325.]
PRICES = [0., 0.5, 2., 0.125]
CFS = [{}, {}, {'GWP': 1.5}, {'GWP': 2., 'FEC': 0.25}]
PHASE_SETS = [['g', 'l'], ['g', 'l'], ['l', 's'], ['g', 'l', 's'], ['g'], ['l'], ['s'], ['g', 's'], ['L', 'l'], ['L', 'g'], ['L']]
SINGLE_PHASES = ['l', 'l', 'g', 's', 'L']

def gen_vec(rng, n):
    return [rng.choice(VALS) for _ in range(n)]

def gen_stream(rng, k, pkg=None):
    pkg = rng.randrange(2) if pkg is None else pkg
    n = len(PKGS[pkg])
    base = {'pkg': pkg, 'T': rng.choice(TS), 'P': rng.choice(PS), 'price': rng.choice(PRICES),
            'cf': dict(rng.choice(CFS)), 'id': None if rng.random() < 0.2 else f'x{k + 1}'}
    if rng.random() < 0.5:
        base.update(kind='S', phase=rng.choice(SINGLE_PHASES), flow=gen_vec(rng, n))
    else:
        phs = list(rng.choice(PHASE_SETS))
        base.update(kind='M', phases=phs, flows={p: gen_vec(rng, n) for p in phs if rng.random() < 0.8})
    return base

OPS = ['copy', 'copy_like', 'copy_like', 'copy_like', 'copy_like', 'copy_tc', 'copy_phase', 'flow_proxy', 'proxy',
       'link', 'link', 'unlink', 'unlink', 'set_flow', 'set_flow', 'set_T', 'set_P', 'set_phase', 'set_phases',
       'scale', 'empty', 'reduce', 'read_mass', 'read_mass', 'set_mass', 'read_H', 'read_H']

def gen_op(rng):
    o = rng.choice(OPS)
    i, j = rng.randrange(64), rng.randrange(64)
    if o in ('copy', 'flow_proxy', 'proxy', 'unlink', 'empty', 'reduce', 'read_mass', 'read_H'):
        return [o, i]
    if o == 'set_mass':
        return [o, i, rng.randrange(8), rng.randrange(8), rng.choice([0., 16., 32., 64., 8., 4., 128.])]
    if o in ('copy_like', 'copy_tc', 'copy_phase'):
        return [o, i, j]
    if o == 'link':
        return [o, i, j, rng.random() < 0.6, rng.random() < 0.6, rng.random() < 0.6]
    if o == 'set_flow':
        return [o, i, rng.randrange(8), rng.randrange(8), rng.choice(VALS + [8., 16.])]
    if o == 'set_T':
        return [o, i, rng.choice(TS + [310., 0.])]
    if o == 'set_P':
        return [o, i, rng.choice(PS + [1e5])]
    if o == 'set_phase':
        return [o, i, rng.choice(['g', 'l', 's', 'L', 'l', 'g', 'q'])]
    if o == 'set_phases':
        return [o, i, list(rng.choice(PHASE_SETS))]
    if o == 'scale':
        return [o, i, rng.choice([2., 0.5, 0., 3., -1.])]
    raise ValueError(o)

def gen_case(rng):
    ns = rng.randint(2, 4)
    samepkg = rng.random() < 0.45
    pkg = rng.randrange(2)
    streams = [gen_stream(rng, k, pkg if samepkg else None) for k in range(ns)]
    ops = [gen_op(rng) for _ in range(rng.randint(3, 10))]
    rx = {'a': rng.choice([1., 2., 0.5]), 'b': rng.choice([1., 2., 0.5, 3.]), 'X': rng.choice([0.5, 0.25, 1., 0.75])}
    return {'streams': streams, 'ops': ops, 'rx': rx}

def targeted_cases(rng, n):
    """kind x kind x package matrix of a single copy_like / pickling, so every branch is reached in every run"""
    cases = []
    for _ in range(n):
        a = gen_stream(rng, 0); b = gen_stream(rng, 1)
        if rng.random() < 0.5:
            b['pkg'] = a['pkg']
            nb = len(PKGS[b['pkg']])
            if b['kind'] == 'S': b['flow'] = gen_vec(rng, nb)
            else: b['flows'] = {p: gen_vec(rng, nb) for p in b['flows']}
        ops = [['copy_like', 0, 1]]
        r = rng.random()
        if r < 0.3: ops.append(['reduce', 0])
        elif r < 0.5: ops += [['copy', 0], ['set_flow', 2, rng.randrange(8), rng.randrange(8), 8.], ['set_T', 0, 310.]]
        cases.append({'streams': [a, b], 'ops': ops, 'rx': {'a': 1., 'b': 2., 'X': 0.5}})
    return cases

def view_cases(rng, n):
    """link -> look at the mass view -> unlink -> mutate, and copy_like with phase expansion around keyed look-ups"""
    cases = []
    for _ in range(n):
        pkg = rng.randrange(2)
        a = gen_stream(rng, 0, pkg); b = gen_stream(rng, 1, pkg)
        if rng.random() < 0.7:
            b = dict(b); b.update({k: a[k] for k in ('kind',) })
            nb = len(PKGS[pkg])
            if a['kind'] == 'S': b.update(phase=rng.choice(SINGLE_PHASES), flow=gen_vec(rng, nb)); b.pop('phases', None); b.pop('flows', None)
            else: b.update(phases=list(a['phases']), flows={p: gen_vec(rng, nb) for p in a['phases']}); b.pop('phase', None); b.pop('flow', None)
        c = gen_stream(rng, 2)
        ops = []
        if rng.random() < 0.7:
            full = rng.random() < 0.5
            ops.append(['link', rng.randrange(2), rng.randrange(2), True if full else rng.random() < 0.5,
                        True if full else rng.random() < 0.5, True if full else rng.random() < 0.5])
        for _ in range(rng.randint(0, 2)):
            ops.append(rng.choice([['read_mass', rng.randrange(2)], ['set_mass', rng.randrange(2), rng.randrange(8), rng.randrange(8), 64.],
                                   ['copy_like', rng.randrange(2), 2], ['flow_proxy', 0], ['proxy', 1]]))
        ops.append(rng.choice([['unlink', 0], ['unlink', 1], ['unlink', 0], ['copy_like', 0, 2], ['link', 1, 0, True, True, True],
                               ['copy_like', 0, 1], ['copy_like', 1, 0], ['set_phase', rng.randrange(2), rng.choice(['g', 'l', 's'])]]))
        for _ in range(rng.randint(1, 3)):
            ops.append(rng.choice([['set_flow', rng.randrange(2), rng.randrange(8), rng.randrange(8), rng.choice([8., 16., 0.5])],
                                   ['set_mass', rng.randrange(2), rng.randrange(8), rng.randrange(8), rng.choice([64., 32., 128.])],
                                   ['scale', rng.randrange(2), 2.], ['read_mass', rng.randrange(2)], ['read_mass', rng.randrange(2)],
                                   ['copy_like', rng.randrange(2), rng.randrange(2)], ['set_phase', rng.randrange(2), rng.choice(['g', 'l', 's'])]]))
        cases.append({'streams': [a, b, c], 'ops': ops, 'rx': {'a': 1., 'b': 2., 'X': 0.5}})
    return cases

def memo_cases(rng, n):
    """H read through a stream and its proxy / flow proxy / copy / link partner around a state change that is undone
    afterwards (A-B-A patterns: a memo that is stale for one handle shows up when that handle reads first after the return)"""
    cases = []
    for _ in range(n):
        a = gen_stream(rng, 0); a.update(kind='S', phase=rng.choice(['l', 'g']), flow=gen_vec(rng, len(PKGS[a['pkg']])))
        a['flow'][0] = rng.choice([1., 2., 4.]); a.pop('phases', None); a.pop('flows', None)
        b = gen_stream(rng, 1, a['pkg'])
        ops = [[rng.choice(['proxy', 'proxy', 'proxy', 'flow_proxy', 'copy']), 0]]
        def change():
            k = rng.randrange(5)
            if k == 0:
                T2 = rng.choice([t for t in TS if t != a['T']]); return ['set_T', rng.choice([0, 2]), T2], ['set_T', rng.choice([0, 2]), a['T']]
            if k == 1:
                P2 = rng.choice([x for x in PS + [1e5] if x != a['P']]); return ['set_P', rng.choice([0, 2]), P2], ['set_P', rng.choice([0, 2]), a['P']]
            if k == 2:
                c = rng.randrange(len(a['flow'])); return ['set_flow', rng.choice([0, 2]), 0, c, a['flow'][c] + rng.choice([1., 2.])], ['set_flow', rng.choice([0, 2]), 0, c, a['flow'][c]]
            if k == 3:
                return ['set_phase', rng.choice([0, 2]), 's'], ['set_phase', rng.choice([0, 2]), a['phase']]
            return ['scale', rng.choice([0, 2]), 2.], ['scale', rng.choice([0, 2]), 0.5]
        for _ in range(rng.randint(1, 2)):
            h1, h2 = rng.choice([(0, 2), (2, 0), (0, 0), (2, 2)])
            there, back = change()
            ops += [['read_H', h1], ['read_H', h2], there, ['read_H', rng.choice([h1, h2])], back, ['read_H', rng.choice([h1, h2])],
                    ['read_H', rng.choice([0, 2])]]
        if rng.random() < 0.3: ops.insert(rng.randrange(1, len(ops)), rng.choice([['unlink', 0], ['copy_like', 0, 1], ['link', 0, 1, True, True, True]]))
        cases.append({'streams': [a, b], 'ops': ops, 'rx': {'a': 1., 'b': 2., 'X': 0.5}})
    return cases

def order_cases(rng, n):
    """copy_like between packages where the sources hold the same chemicals entered in different orders (entries zeroed and
    set again move to the end of the sparse dict), so that index_overlap is asked the same question in several orders"""
    cases = []
    for _ in range(n):
        pa = rng.randrange(2); pb = 1 - pa
        a = gen_stream(rng, 0, pa); b = gen_stream(rng, 1, pb); c = gen_stream(rng, 2, pb)
        common = [k for k in range(len(PKGS[pb])) if PKGS[pb][k] in PKGS[pa]]
        for s in (b, c):
            vec = [0.] * len(PKGS[pb])
            for k in common[:rng.randint(2, len(common))]: vec[k] = rng.choice([1., 2., 3., 4., 0.5, 8.])
            s.update(kind='S', phase=rng.choice(SINGLE_PHASES), flow=vec); s.pop('phases', None); s.pop('flows', None)
        ops = [['copy_like', 0, 1]]
        for _ in range(rng.randint(1, 3)):
            j = rng.choice([1, 2]); k = rng.choice(common)
            ops += [['set_flow', j, 0, k, 0.], ['set_flow', j, 0, k, rng.choice([5., 6., 7.])], ['copy_like', 0, j]]
        ops.append(['copy_like', rng.choice([0, 3]) if False else 0, rng.choice([1, 2])])
        cases.append({'streams': [a, b, c], 'ops': ops, 'rx': {'a': 1., 'b': 2., 'X': 0.5}})
    return cases

def gen_cases(rng, tier):
    n = 220 if tier == 'quick' else 3500
    m = 80 if tier == 'quick' else 1200
    return ([gen_case(rng) for _ in range(n)] + targeted_cases(rng, m) + view_cases(rng, m)
            + memo_cases(rng, m // 2) + order_cases(rng, m // 2) + subview_cases(rng, m + m // 2)
            + pickle_cases(rng, m // 2))

# ------------------------------------------------------------------ pickles of property packages (model: coq/C13/ModelPickle.v)
GAMMA = {'DortmundActivityCoefficients': 20, 'IdealFugacityCoefficients': 21, 'MockPoyintingCorrectionFactors': 22,
         'IdealActivityCoefficients': 23}
POPS = ['new', 'ideal', 'ideal', 'pickle', 'pickle', 'pickle', 'reduce', 'enter']

def pickle_cases(rng, n):
    """histories over a store of property packages: build a Thermo (either package, two activity-coefficient classes), ask for
    its ideal package (creates / returns the cached IdealThermo), pickle round trips and in-process reduce of packages with and
    without a cached ideal package, of ideal packages and of earlier round-trip results, __enter__"""
    cases = []
    for _ in range(n):
        ops = [['new', rng.randrange(2), rng.choice([20, 20, 23])]]
        for _ in range(rng.randint(2, 8)):
            o = rng.choice(POPS)
            ops.append(['new', rng.randrange(2), rng.choice([20, 20, 23])] if o == 'new' else [o, rng.randrange(64)])
        cases.append({'pops': ops})
    return cases

def p_is_obj(v):
    return type(v).__name__ in ('Thermo', 'IdealThermo') and type(v).__module__ == 'thermosteam._thermo'

def p_all_slots(o):
    out = []
    for c in type(o).__mro__[:-1]:
        sl = c.__dict__.get('__slots__', ())
        out += [sl] if isinstance(sl, str) else list(sl)
    return out

def p_slot(o, name):
    """('unset',) | ('none',) | ('atom', code) | ('ref', object)"""
    try:
        v = object.__getattribute__(o, name)
    except AttributeError:
        return ('unset',)
    if v is None: return ('none',)
    if p_is_obj(v): return ('ref', v)
    th = env()['thermo']
    if type(v).__name__ in ('CompiledChemicals', 'Chemicals'):
        cas = tuple(v.CASs)
        return ('atom', next((k for k, x in enumerate(th) if tuple(x.chemicals.CASs) == cas), 9))
    if type(v).__name__ == 'IdealMixture': return ('atom', 10)
    if isinstance(v, type) and v.__name__ in GAMMA: return ('atom', GAMMA[v.__name__])
    return ('atom', 99)

def p_snapshot(roots):
    """canonical observation of the object graph below the roots: objects numbered in the order they are first reached (roots in
    order, then the references of every visited object in slot order); per object the class and EVERY slot of the class"""
    vis = []
    def add(o):
        if not any(o is x for x in vis): vis.append(o)
    for r in roots: add(r)
    k = 0
    while k < len(vis):
        for nm in p_all_slots(vis[k]):
            v = p_slot(vis[k], nm)
            if v[0] == 'ref': add(v[1])
        k += 1
    num = lambda o: next(j for j, x in enumerate(vis) if x is o)
    rows = []
    for o in vis:
        row = []
        for nm in p_all_slots(o):
            v = p_slot(o, nm)
            row.append([nm] + ([v[0], num(v[1])] if v[0] == 'ref' else list(v)))
        rows.append([0 if type(o).__name__ == 'Thermo' else 1, row])
    return [num(r) for r in roots], rows

def p_apply(store, rop):
    tmo = env()['tmo']; name = rop[0]
    if name == 'new':
        cs = env()['chems']
        G = {20: tmo.equilibrium.DortmundActivityCoefficients, 23: tmo.equilibrium.IdealActivityCoefficients}[rop[2]]
        return tmo.Thermo(tmo.Chemicals([cs[i] for i in PKGS[rop[1]]]), Gamma=G)
    o = store[rop[1]]
    if name == 'ideal': return o.ideal()
    if name == 'pickle': return pickle.loads(pickle.dumps(o))
    if name == 'reduce':
        f, args = o.__reduce__(); return f(*args)
    if name == 'enter':
        o.__enter__(); return None
    raise ValueError(name)

def p_resolve(store, op):
    return list(op) if op[0] == 'new' else [op[0], op[1] % len(store)]

def run_impl_pickle(case):
    tmo = env()['tmo']; tmo.settings.set_thermo(env()['thermo'][0])
    store = []; out = {'ops': [], 'res': []}
    for op in case['pops']:
        rop = p_resolve(store, op); out['ops'].append(rop)
        try:
            r = p_apply(store, rop); out['res'].append('ok')
            if r is not None: store.append(r)
        except Exception as ex:
            if is_timeout(ex): raise
            out['res'].append(ERR.get(type(ex).__name__, 'EOther'))
            out.setdefault('errors', []).append(type(ex).__name__)
    tmo.settings.set_thermo(env()['thermo'][0])
    out['labels'], out['rows'] = p_snapshot(store)
    out['final'] = []
    return out

def cpop(o):
    if o[0] == 'new': return f'(PNew {cnat(o[1])} 10 {cnat(o[2])} 21 22)'
    return '(%s %s)' % ({'ideal': 'PIdeal', 'pickle': 'PPickle', 'reduce': 'PReduce', 'enter': 'PEnter'}[o[0]], cnat(o[1]))

def csval(v):
    k = v[1]
    if k == 'unset': return 'None'
    if k == 'none': return '(Some SvNone)'
    if k == 'atom': return f'(Some (SvAtom {cnat(v[2])}))'
    return f'(Some (SvRef {cnat(v[2])}))'

def coq_case_pickle(case, out):
    rows = clist([f'({cnat(c)}, {clist(r, csval)})' for c, r in out['rows']])
    return f'(prun_eqb {clist(out["ops"], cpop)} {clist([cerr(r) for r in out["res"]])} {clist(out["labels"], cnat)} {rows})'

def p_roundtrip_msg(o, what):
    """the property on one object: the unpickled object has the same class and the same state of EVERY slot (set or not, value,
    sharing below it), and its ideal package can be asked for exactly as the original's"""
    try:
        o2 = pickle.loads(pickle.dumps(o)); o3 = pickle.loads(pickle.dumps(o))
    except Exception as ex:
        if is_timeout(ex): raise
        return f'pickle: {what}: round trip raised {type(ex).__name__}'
    a, b = p_snapshot([o]), p_snapshot([o2])
    if a != b:
        diff = [f'{x[0]} {x[1:]} -> {y[1:]}' for (_, ra), (_, rb) in zip(a[1], b[1]) for x, y in zip(ra, rb) if x != y] or ['object graph differs']
        return f'pickle: {what}: slot state differs after round trip ({"; ".join(diff[:3])})'
    try:
        i3 = o3.ideal()
    except Exception as ex:
        if is_timeout(ex): raise
        return f'pickle: {what}: ideal() of the unpickled object raises {type(ex).__name__}: {ex}'
    if type(i3).__name__ != 'IdealThermo' or i3.chemicals is not o3.chemicals or i3.mixture is not o3.mixture or o3.ideal() is not i3:
        return f'pickle: {what}: ideal() of the unpickled object is not the ideal package over its own chemicals and mixture'
    return None

def oracle_pickle(case):
    tmo = env()['tmo']; tmo.settings.set_thermo(env()['thermo'][0])
    store = []
    for op in case['pops']:
        rop = p_resolve(store, op)
        if rop[0] == 'pickle':
            m = p_roundtrip_msg(store[rop[1]], f'{type(store[rop[1]]).__name__} (store entry {rop[1]})')
            if m: return m
        try:
            r = p_apply(store, rop)
            if r is not None: store.append(r)
        except Exception as ex:
            if is_timeout(ex): raise
            if rop[0] != 'enter': return f'pickle: operation {rop[0]} on a property package raised {type(ex).__name__}: {ex}'
    tmo.settings.set_thermo(env()['thermo'][0])
    for k, o in enumerate(store):
        m = p_roundtrip_msg(o, f'{type(o).__name__} (store entry {k})')
        if m: return m
    return None


# ------------------------------------------------------------------ per-phase views ms[phase] (model: coq/C13/ModelViews.v)
VIEW_KEYS = ['g', 'l', 'l', 's', 'L', 'S']
VOPS = ['vget', 'vget', 'vset_flow', 'vset_flow', 'vset_T', 'vset_phase', 'vcopy', 'vflow_proxy', 'vunlink']

def gen_vop(rng, n):
    o = rng.choice(VOPS); i = rng.randrange(n); p = rng.choice(VIEW_KEYS)
    if o == 'vset_flow': return [o, i, p, rng.randrange(8), rng.choice([8., 16., 0.5, 0., 3.])]
    if o == 'vset_T': return [o, i, p, rng.choice(TS + [310.])]
    if o == 'vset_phase': return [o, i, p, rng.choice([p, p, 'g', 'l', 'q'])]
    return [o, i, p]

def subview_cases(rng, n):
    """histories over MultiStreams (mostly same package and phases, so that they can be linked) in which the per-phase
    views ms[phase] are created, written through, copied and flow-proxied between link_with / unlink / phase(s) changes /
    copy_like with phase expansion / mutations of the MultiStream"""
    cases = []
    for _ in range(n):
        pkg = rng.randrange(2); nb = len(PKGS[pkg])
        phs = list(rng.choice([['g', 'l'], ['g', 'l'], ['l', 's'], ['g', 'l', 's'], ['L', 'l'], ['L', 'g'], ['g']]))
        a = gen_stream(rng, 0, pkg); a.update(kind='M', phases=list(phs), flows={p: gen_vec(rng, nb) for p in phs if rng.random() < 0.8})
        a.pop('phase', None); a.pop('flow', None)
        b = gen_stream(rng, 1, pkg)
        if rng.random() < 0.7:
            b.update(kind='M', phases=list(phs), flows={p: gen_vec(rng, nb) for p in phs if rng.random() < 0.8}); b.pop('phase', None); b.pop('flow', None)
        streams = [a, b] + ([gen_stream(rng, 2)] if rng.random() < 0.5 else [])
        ns = len(streams)
        vops = []
        for _ in range(rng.randint(3, 10)):
            r = rng.random()
            if r < 0.55:
                vops.append(gen_vop(rng, ns + (1 if rng.random() < 0.2 else 0)))
            elif r < 0.75:
                vops.append(rng.choice([['link', 0, 1, True, True, True], ['link', 1, 0, True, True, True], ['unlink', 0], ['unlink', 1],
                                        ['link', rng.randrange(ns), rng.randrange(ns), rng.random() < 0.6, rng.random() < 0.6, rng.random() < 0.6]]))
            elif r < 0.9:
                vops.append(rng.choice([['set_phases', rng.randrange(ns), list(rng.choice(PHASE_SETS))], ['set_phase', rng.randrange(ns), rng.choice(['g', 'l', 's'])],
                                        ['copy_like', rng.randrange(ns), rng.randrange(ns)], ['set_flow', rng.randrange(ns), rng.randrange(8), rng.randrange(8), rng.choice([8., 16., 0.5])],
                                        ['set_T', rng.randrange(ns), rng.choice(TS)], ['scale', rng.randrange(ns), 2.], ['empty', rng.randrange(ns)]]))
            else:
                vops.append(rng.choice([['copy', rng.randrange(ns)], ['flow_proxy', rng.randrange(ns)], ['reduce', rng.randrange(ns)], ['proxy', rng.randrange(ns)]]))
        cases.append({'streams': streams, 'vops': vops, 'rx': {'a': 1., 'b': 2., 'X': 0.5}})
    return cases

def has_views(s):
    return type(s) is env()['tmo'].MultiStream and is_multi(s) and hasattr(s, '_streams') and not inconsistent(s)

def resolve_v(store, op):
    name = op[0]
    if not name.startswith('v'): return resolve(store, op)
    i = op[1] % len(store); s = store[i]
    if not has_views(s): return ['skip']
    if name == 'vset_flow': return [name, i, op[2], op[3] % s._imol._chemicals.size, op[4]]
    return [name, i] + list(op[2:])

def apply_vop(store, rop):
    name = rop[0]
    if not name.startswith('v'): return apply_op(store, rop)
    v = store[rop[1]][rop[2]]
    if name == 'vget': return None
    if name == 'vset_flow': v._imol.data[rop[3]] = rop[4]; return None
    if name == 'vset_T': v.T = rop[3]; return None
    if name == 'vset_phase': v.phase = rop[3]; return None
    if name == 'vcopy': return v.copy()
    if name == 'vflow_proxy': return v.flow_proxy()
    if name == 'vunlink': v.unlink(); return None
    raise ValueError(name)

def views_of(store):
    """[(store index, phase key, view object)] object by object, in the order of the dict _streams"""
    return [(k, p, v) for k, s in enumerate(store) for p, v in getattr(s, '_streams', {}).items()]

def values_view(v):
    im = v._imol
    return {'multi': False, 'cls_ok': type(v) is env()['tmo'].Stream and not is_multi(v), 'pkg': pkg_of(v),
            'thermo_ok': v._thermo.chemicals is im._chemicals, 'phases': [PH.get(im._phase._phase, 7)],
            'rows': [dense(im.data, im._chemicals.size)], 'T': float(v._thermal_condition._T), 'P': float(v._thermal_condition._P),
            'price': 0., 'cf': sorted((k, float(x)) for k, x in v.characterization_factors.items()), 'id': idclass(v)}

def snapshot_v(store):
    vws = views_of(store)
    objs = list(store) + [v for _, _, v in vws]
    vals = [values(s) for s in store] + [values_view(v) for _, _, v in vws]
    ids = []
    for s, v in zip(objs, vals):
        c = [id(x) for x in cells(s)]
        v['ncells'] = len(c); ids += c
    lab = canon(ids); k = 0
    for v in vals:
        v['labels'] = lab[k:k + v['ncells']]; k += v['ncells']
    return vals, [[k, PH[p]] for k, p, _ in vws]

def run_impl_views(case):
    out = {'new': [], 'ops': [], 'res': [], 'family': 'views'}
    store = []
    for spec in case['streams']:
        try:
            store.append(build_stream(spec)); out['new'].append('ok')
        except Exception as ex:
            if is_timeout(ex): raise
            out['new'].append(ERR.get(type(ex).__name__, 'EOther'))
    if not store:
        out['final'] = []; out['keys'] = []
        return out
    for op in case['vops']:
        rop = resolve_v(store, op)
        out['ops'].append(rop)
        try:
            r = apply_vop(store, rop)
            out['res'].append('ok')
            if r is not None: store.append(r)
        except Exception as ex:
            if is_timeout(ex): raise
            out['res'].append(ERR.get(type(ex).__name__, 'EOther'))
            out.setdefault('errors', []).append(type(ex).__name__)
    out['final'], out['keys'] = snapshot_v(store)
    return out

def cvop(o):
    n = o[0]
    if not n.startswith('v'): return f'(VBase {cop(o)})'
    if n == 'vget': return f'(VGet {cnat(o[1])} {cph(o[2])})'
    if n == 'vset_flow': return f'(VSetFlow {cnat(o[1])} {cph(o[2])} {cnat(o[3])} {q(o[4])})'
    if n == 'vset_T': return f'(VSetT {cnat(o[1])} {cph(o[2])} {q(o[3])})'
    if n == 'vset_phase': return f'(VSetPhase {cnat(o[1])} {cph(o[2])} {cph(o[3])})'
    if n == 'vcopy': return f'(VCopy {cnat(o[1])} {cph(o[2])})'
    if n == 'vflow_proxy': return f'(VFlowProxy {cnat(o[1])} {cph(o[2])})'
    if n == 'vunlink': return f'(VUnlink {cnat(o[1])} {cph(o[2])})'
    raise ValueError(n)

def model_vops(case, out):
    return clist([f'(VBase {cnew(s)})' for s in case['streams']] + [cvop(o) for o in out['ops']])

def attached(store, name):
    """the clause on the per-phase views: ms[p] shares exactly the row of its phase and the thermal condition of ms"""
    for k, s in enumerate(store):
        if not has_views(s): continue
        for p, v in s._streams.items():
            if type(v) is not env()['tmo'].Stream: continue
            try: row = s._imol.data.rows[s._imol._phase_indexer(p)]
            except Exception as ex:
                if is_timeout(ex): raise
                return f'subview: {name}: stream {k} keeps a view of phase {p!r}, which it no longer has'
            if v._imol.data is not row or v._thermal_condition is not s._thermal_condition:
                what = [w for w, bad in (('flows', v._imol.data is not row), ('T and P', v._thermal_condition is not s._thermal_condition)) if bad]
                who = [j for j, t in enumerate(store) if t is not s and is_multi(t) and any(r is v._imol.data for r in t._imol.data.rows)]
                return (f'subview: {name}: the view {k}[{p!r}] no longer shares the {" and ".join(what)} of stream {k}: a write through it is '
                        f'not seen by the stream' + (f'; it still shares the flows of stream {who[0]}' if who else ''))
    return None

def oracle_views(case):
    store = []
    for spec in case['streams']:
        try: store.append(build_stream(spec))
        except Exception as ex:
            if is_timeout(ex): raise
            return f'constructor: raised {type(ex).__name__} on valid arguments'
    for op in case['vops']:
        rop = resolve_v(store, op); name = rop[0]
        if name == 'skip': continue
        view = None
        if name.startswith('v'):
            s = store[rop[1]]
            try: s._imol._phase_indexer(rop[2])
            except Exception as ex:
                if is_timeout(ex): raise
                continue      # no such phase: __getitem__ raises UndefinedPhase, nothing to check
            try: view = s[rop[2]]
            except Exception as ex:
                if is_timeout(ex): raise
                return f'subview: {name}: ms[{rop[2]!r}] raised {type(ex).__name__}'
            snap = lambda x: (x.phase, dict(x._imol.data.dct), float(x.T), float(x.P))
            before = snap(view)
        try:
            r = apply_vop(store, rop); raised = None
        except Exception as ex:
            if is_timeout(ex): raise
            r = None; raised = type(ex).__name__
        msg = attached(store, name)
        if msg: return msg
        if name in ('vcopy', 'vflow_proxy'):
            if raised: return f'subview: {name}: raised {raised}'
            if (r.phase, dict(r._imol.data.dct), float(r.T), float(r.P)) != before: return f'subview: {name}: the result differs from the view'
            if type(r._imol._phase).__name__ != 'Phase': return f'subview: {name}: the result holds a locked phase'
            sh = probe_shared(r, view); sh2 = {k: v for k, v in probe_shared(view, r).items() if k != 'phase'}
            want = {'flow': name == 'vflow_proxy', 'TP': False, 'phase': False}
            if sh != want or sh2 != {k: v for k, v in want.items() if k != 'phase'}:
                return f'subview: {name}: shares {sh} with the view, expected {want}'
        if r is not None: store.append(r)
    return None

# ------------------------------------------------------------------ implementation side
def build_stream(spec):
    e = env(); tmo = e['tmo']
    th = e['thermo'][spec['pkg']]
    ids = [CHEMS[c] for c in PKGS[spec['pkg']]]
    kw = dict(T=spec['T'], P=spec['P'], price=spec['price'], thermo=th,
              characterization_factors=dict(spec['cf']) if spec['cf'] else None)
    if spec['kind'] == 'S':
        return tmo.Stream(spec['id'], flow=list(spec['flow']), phase=spec['phase'], **kw)
    flows = {p: [(ids[k], v) for k, v in enumerate(vs)] for p, vs in spec['flows'].items()}
    return tmo.MultiStream(spec['id'], phases=tuple(spec['phases']), **kw, **flows)

def is_multi(s):
    return isinstance(s._imol, env()['tmo'].indexer.MaterialIndexer)

def pkg_of(s):
    th = env()['thermo']
    for k, t in enumerate(th):
        if s._imol._chemicals is t.chemicals:
            return k
    return -1

def dense(v, n):
    d = v.dct
    return [float(d.get(i, 0.)) for i in range(n)]

def idclass(s):
    i = s._ID
    if not i: return ['none']
    if i[0] == 'x' and i[1:].isdigit(): return ['name', int(i[1:])]
    return ['auto']

def values(s):
    """observable state without identities"""
    im = s._imol
    n = im._chemicals.size
    if is_multi(s):
        phases = [PH[p] for p in im._phases]
        rows = [dense(r, n) for r in im.data.rows]
    else:
        phases = [PH.get(im._phase._phase, 7)]
        rows = [dense(im.data, n)]
    return {'multi': is_multi(s), 'cls_ok': (type(s) is env()['tmo'].MultiStream) == is_multi(s), 'pkg': pkg_of(s),
            'thermo_ok': s._thermo.chemicals is im._chemicals,
            'phases': phases, 'rows': rows, 'T': float(s._thermal_condition._T), 'P': float(s._thermal_condition._P),
            'price': float(s._price), 'cf': sorted((k, float(v)) for k, v in s.characterization_factors.items()),
            'id': idclass(s)}

def cells(s):
    """python objects forming the footprint of s, in the model's traversal order"""
    im = s._imol
    if is_multi(s):
        return [im, im.data] + list(im.data.rows) + [s._thermal_condition]
    return [im, im.data, im._phase, s._thermal_condition]

def canon(ids):
    first = {}
    out = []
    for k, x in enumerate(ids):
        first.setdefault(x, k)
        out.append(first[x])
    return out

def keyed_rows(s):
    """flows read through the public keyed access imol[phase, ID] / imol[ID] (fills and uses the index memo)"""
    im = s._imol
    ids = [c.ID for c in im._chemicals.tuple]
    if is_multi(s):
        if inconsistent(s): return [dense(r, len(ids)) for r in im.data.rows]
        return [[float(im[p, i]) for i in ids] for p in im._phases]
    return [[float(im[i]) for i in ids]]

def mass_rows(s):
    """what the mass view reads (creates the view when there is none)"""
    d = s.imass.data
    n = s._imol._chemicals.size
    rows = d.rows if is_multi(s) else [d]
    return [[float(r[i]) for i in range(n)] for r in rows]

def mass_phases(s):
    """phase(s) reported by the mass view (the Phase object / phases tuple it was built with)"""
    v = s.imass
    if is_multi(s): return [PH[p] for p in v._phases]
    return [PH.get(v._phase._phase, 7)]

def view_checks(store):
    """clauses of the property on the per-phase views ms[phase] (LockedPhase) of every final MultiStream: a copy / flow
    proxy of a view is an ordinary stream (free phase, can be unlinked, accepts copy_like from another phase, pickles),
    and is independent of / shares with the view what it should.  Executed, not modelled.  Returns failure messages."""
    tmo = env()['tmo']; msgs = []
    for k, s in enumerate(store):
        if not is_multi(s) or inconsistent(s) or not hasattr(s, '_streams') or type(s) is not tmo.MultiStream: continue
        for p in s._imol._phases:
            try:
                v = s[p]
                other = 'g' if p != 'g' else 'l'
                snap = lambda x: (x.phase, dict(x._imol.data.dct), float(x.T), float(x.P))
                before = snap(v)
                c = v.copy()
                if snap(c) != before: msgs.append(f'view: copy of stream {k}[{p!r}] differs from the view'); continue
                c.phase = other
                if snap(v) != before: msgs.append(f'view: changing the phase of a copy of stream {k}[{p!r}] changed the view')
                c.unlink()
                c2 = v.copy()
                src = tmo.Stream(None, flow=dense(v._imol.data, v._imol._chemicals.size), phase=other, T=311., thermo=s._thermo)
                src._imol.data[0] = 3.
                c2.copy_like(src)
                if (c2.phase, c2.T, dict(c2._imol.data.dct)) != (other, 311., dict(src._imol.data.dct)):
                    msgs.append(f'view: copy_like onto a copy of stream {k}[{p!r}] did not copy the conditions')
                fp = v.flow_proxy()
                if fp._imol.data is not v._imol.data: msgs.append(f'view: flow proxy of stream {k}[{p!r}] does not share the flows')
                fp.phase = other
                if v.phase != p: msgs.append(f'view: changing the phase of a flow proxy of stream {k}[{p!r}] changed the view')
                fp.unlink()
                c3 = v.copy(); t = pickle.loads(pickle.dumps(c3))
                t.phase = other; c3.phase = other
                if (t.phase, dict(t._imol.data.dct), t.T) != (c3.phase, dict(c3._imol.data.dct), c3.T):
                    msgs.append(f'view: pickled copy of stream {k}[{p!r}] differs from the copy')
            except Exception as ex:
                if is_timeout(ex): raise
                msgs.append(f'view: copy / flow proxy of the phase view {k}[{p!r}] is not an ordinary stream: raised {type(ex).__name__}: {ex}')
    return msgs[:3]

def eq_cache_checks(store):
    """the VLE / LLE / SLE caches of a MultiStream keep REFERENCES to its indexer and thermal condition; whatever rebinds one
    of the two (link_with, unlink, a phases change, copy_like onto a Stream) must leave the caches pointing at the stream's own
    current objects, else an equilibrium call writes T, P or flows into another stream.  Executed, not modelled."""
    tmo = env()['tmo']; msgs = []
    for k, s in enumerate(store):
        if type(s) is not tmo.MultiStream or not is_multi(s): continue
        for nm in ('_vle_cache', '_lle_cache', '_sle_cache'):
            c = getattr(s, nm, None)
            if c is None: continue
            objs = [c.args] + ([(c.value._imol, c.value._thermal_condition)] if getattr(c, 'value', None) is not None
                               and hasattr(c.value, '_imol') and hasattr(c.value, '_thermal_condition') else [])
            for a in objs:
                if a[0] is not s._imol:
                    msgs.append(f'equilibrium: {nm[1:4].upper()} of stream {k} works on an indexer that is not the stream\'s own')
                elif a[1] is not s._thermal_condition:
                    who = [j for j, t in enumerate(store) if t is not s and t._thermal_condition is a[1]]
                    msgs.append(f'equilibrium: {nm[1:4].upper()} of stream {k} would write T, P into a thermal condition that is not '
                                f'the stream\'s own' + (f' (it is that of stream {who[0]}: they still share it)' if who else ''))
    return msgs[:3]

def touch_keys(store):
    for s in store:
        try: keyed_rows(s)
        except Exception as ex:
            if is_timeout(ex): raise

def snapshot(store):
    vals = [values(s) for s in store]
    ids = []
    for s, v in zip(store, vals):
        c = [id(x) for x in cells(s)]
        v['ncells'] = len(c)
        ids += c
    lab = canon(ids)
    k = 0
    for v in vals:
        v['labels'] = lab[k:k + v['ncells']]; k += v['ncells']
    return vals

def would_break_class(s, phases):
    """Stream.phases = phases raises after switching __class__ (see ASSUMPTIONS)"""
    if is_multi(s) or len(set(phases)) == 1: return False
    p = s.phase
    return bool(s._imol.data.dct) and not (p in phases or swapcase(p) in phases)

_reads = []
def h_spec(s):
    """H of the stub packages as a function of the current state"""
    im = s._imol
    rows = im.data.rows if is_multi(s) else [im.data]
    return 64. * (float(s._thermal_condition._T) - 298.15) * sum(sum(r.dct.values()) for r in rows)

def inconsistent(s):
    """a MultiStream whose SparseArray was re-shaped through another indexer sharing it (rows and phases no longer align)"""
    return is_multi(s) and len(s._imol.data.rows) != len(s._imol._phases)

def resolve(store, op):
    name = op[0]; n = len(store); i = op[1] % n
    if inconsistent(store[i]) or (name in ('copy_like', 'copy_tc', 'copy_phase', 'link') and inconsistent(store[op[2] % n])):
        return ['skip']
    if name in ('set_phase', 'set_phases') and is_multi(store[i]) and not hasattr(store[i], '_streams'):
        return ['skip']   # a proxy of a MultiStream has no _streams: its phase setter raises half-way
    if name in ('copy', 'flow_proxy', 'proxy', 'unlink', 'empty', 'reduce', 'read_mass', 'read_H'):
        return [name, i]
    if name == 'set_mass':
        s = store[i]
        d = s.imass.data   # creates the view, as the operation itself does
        nr = len(d.rows) if is_multi(s) else 1
        if nr == 0: return ['skip']
        return [name, i, op[2] % nr, op[3] % s._imol._chemicals.size, op[4]]
    if name in ('copy_like', 'copy_tc', 'copy_phase'):
        return [name, i, op[2] % n]
    if name == 'link':
        j = op[2] % n
        a, b = store[i], store[j]
        if pkg_of(a) != pkg_of(b) or (is_multi(a) and is_multi(b) and a._imol._phases != b._imol._phases):
            return ['skip']
        return [name, i, j] + [bool(b) for b in op[3:6]]
    if name == 'set_flow':
        s = store[i]
        nr = len(s._imol.data.rows) if is_multi(s) else 1
        nc = s._imol.data.rows[0].size if is_multi(s) and nr else (s._imol.data.size if not is_multi(s) else 1)
        if nr == 0: return ['skip']
        return [name, i, op[2] % nr, op[3] % nc, op[4]]
    if name == 'set_phases':
        if would_break_class(store[i], op[2]): return ['skip']
        return [name, i, list(op[2])]
    return [name, i] + list(op[2:])

def apply_op(store, rop):
    """apply a resolved op on the real objects; returns a new object or None; raises what the implementation raises"""
    name = rop[0]
    if name == 'skip': return None
    s = store[rop[1]]
    if name == 'copy': return s.copy()
    if name == 'copy_like': s.copy_like(store[rop[2]]); return None
    if name == 'copy_tc': s.copy_thermal_condition(store[rop[2]]); return None
    if name == 'copy_phase': s.copy_phase(store[rop[2]]); return None
    if name == 'flow_proxy': return s.flow_proxy()
    if name == 'proxy': return s.proxy()
    if name == 'link': s.link_with(store[rop[2]], flow=rop[3], phase=rop[4], TP=rop[5]); return None
    if name == 'unlink': s.unlink(); return None
    if name == 'set_flow':
        if is_multi(s): s._imol.data[rop[2], rop[3]] = rop[4]
        else: s._imol.data[rop[3]] = rop[4]
        return None
    if name == 'set_T': s.T = rop[2]; return None
    if name == 'set_P': s.P = rop[2]; return None
    if name == 'set_phase': s.phase = rop[2]; return None
    if name == 'set_phases': s.phases = rop[2]; return None
    if name == 'scale': s.scale(rop[2]); return None
    if name == 'empty': s.empty(); return None
    if name == 'reduce':
        f, args = s.__reduce__()
        return f(*args)
    if name == 'read_mass': s.imass; return None
    if name == 'read_H':
        _reads.append(float(s.H) if not inconsistent(s) else h_spec(s)); return None
    if name == 'set_mass':
        if is_multi(s): s.imass.data[rop[2], rop[3]] = rop[4]
        else: s.imass.data[rop[3]] = rop[4]
        return None
    raise ValueError(name)

def plus_equal(a, b, with_id=True):
    """obs+ of two snapshots (values only)"""
    keys = ['multi', 'pkg', 'phases', 'rows', 'T', 'P', 'price', 'cf'] + (['id'] if with_id else [])
    return all(a[k] == b[k] for k in keys)

def pickle_values(s):
    """values of pickle.loads(pickle.dumps(s)); package identified by its CAS tuple (the thermo object is pickled too)"""
    t = pickle.loads(pickle.dumps(s))
    th = env()['thermo']
    v = values(t)
    cas = tuple(t._imol._chemicals.CASs)
    v['pkg'] = next((k for k, x in enumerate(th) if tuple(x.chemicals.CASs) == cas), -1)
    return v

def aux_pickles(rx):
    """reactions, chemicals and Thermo really pickled; returns list of failure messages"""
    e = env(); tmo = e['tmo']; msgs = []
    tmo.settings.set_thermo(e['thermo'][0])
    r = tmo.Reaction(f"{rx['a']!r} A_ -> {rx['b']!r} B_", reactant='A_', X=rx['X'])
    r2 = pickle.loads(pickle.dumps(r))
    if not (list(r2._stoichiometry.to_array()) == list(r._stoichiometry.to_array()) and r2.X == r.X
            and r2._reactant_index == r._reactant_index and r2._basis == r._basis
            and tuple(r2.chemicals.CASs) == tuple(r.chemicals.CASs)):
        msgs.append('pickle: Reaction state differs after round-trip')
    pr = tmo.ParallelReaction([r, tmo.Reaction('B_ -> C_', reactant='B_', X=rx['X'] / 2)])
    pr2 = pickle.loads(pickle.dumps(pr))
    st = lambda x: [[float(v) for v in (row.to_array() if hasattr(row, 'to_array') else row)] for row in x._stoichiometry]
    if not (list(pr2.X) == list(pr.X) and st(pr2) == st(pr) and list(pr2._reactant_index) == list(pr._reactant_index)):
        msgs.append('pickle: ParallelReaction state differs after round-trip')
    for c in e['chems']:
        c2 = pickle.loads(pickle.dumps(c))
        if not (c2.ID == c.ID and c2.CAS == c.CAS and c2.MW == c.MW and c2.Cn(300.) == c.Cn(300.) and c2.Hf == c.Hf
                and c2.phase_ref == c.phase_ref and c2.H(350., 101325.) == c.H(350., 101325.)):
            msgs.append(f'pickle: Chemical {c.ID} state differs after round-trip')
    for t in e['thermo']:
        t2 = pickle.loads(pickle.dumps(t))
        if not (tuple(t2.chemicals.CASs) == tuple(t.chemicals.CASs) and type(t2.mixture) is type(t.mixture)
                and type(t2.Gamma) is type(t.Gamma) and type(t2.Phi) is type(t.Phi) and type(t2.PCF) is type(t.PCF)
                and [c.MW for c in t2.chemicals] == [c.MW for c in t.chemicals]):
            msgs.append('pickle: Thermo state differs after round-trip')
        m = p_roundtrip_msg(t, 'Thermo') or p_roundtrip_msg(t.ideal(), 'IdealThermo')
        if m: msgs.append(m)
    # every name a chemical can be addressed by before pickling still addresses it afterwards
    ath = e['alias_thermo']; names = e['alias_names']
    for c in ath.chemicals:
        c2 = pickle.loads(pickle.dumps(c))
        if set(c2.aliases) != set(c.aliases):
            msgs.append(f'pickle: Chemical {c.ID} loses its user-defined names {sorted(c.aliases)} -> {sorted(c2.aliases)}')
    a2 = pickle.loads(pickle.dumps(ath))
    st = tmo.Stream(None, Eta=rx['a'], Phi=rx['b'], Phi0=rx['X'], thermo=ath)
    st2 = pickle.loads(pickle.dumps(st))
    if p_snapshot([st2._thermo]) != p_snapshot([st._thermo]):
        msgs.append('pickle: the property package travelling with a pickled Stream has a different slot state after the round trip')
    for cid, als in names.items():
        for nm in [cid] + als:
            for what, obj, ref in (('Thermo', lambda: a2.chemicals[nm].ID, cid),
                                   ('Stream', lambda: float(st2.imol[nm]), float(st.imol[nm]))):
                try:
                    got = obj()
                except Exception as ex:
                    if is_timeout(ex): raise
                    got = type(ex).__name__
                if got != ref:
                    msgs.append(f'pickle: after the round trip of a {what} the name {nm!r} of chemical {cid} gives {got!r} instead of {ref!r}')
    return msgs[:4]

@cpu_limited
def run_impl(case):
    env()
    if 'vops' in case: return run_impl_views(case)
    if 'pops' in case: return run_impl_pickle(case)
    out = {'new': [], 'ops': [], 'res': []}
    store = []; del _reads[:]
    for spec in case['streams']:
        try:
            store.append(build_stream(spec)); out['new'].append('ok')
        except Exception as ex:
            if is_timeout(ex): raise
            out['new'].append(ERR.get(type(ex).__name__, 'EOther'))
    if not store:
        out['final'] = []; out['pickle_ok'] = True; out['aux'] = []; out['keyed'] = []; out['mass'] = []; out['mphases'] = []; out['H'] = []; out['views'] = []; out['reads'] = []
        return out
    touch_keys(store)
    for op in case['ops']:
        rop = resolve(store, op)
        out['ops'].append(rop)
        try:
            r = apply_op(store, rop)
            out['res'].append('ok')
            if r is not None:
                store.append(r)
        except Exception as ex:
            if is_timeout(ex): raise
            out['res'].append(ERR.get(type(ex).__name__, 'EOther'))
            out.setdefault('errors', []).append(type(ex).__name__)
        touch_keys(store)
    out['final'] = snapshot(store)
    out['keyed'] = [keyed_rows(s) for s in store]
    out['mass'] = [mass_rows(s) for s in store]
    out['mphases'] = [mass_phases(s) for s in store]
    # (an inconsistent MultiStream, see ASSUMPTIONS, is not read through H: xH zips phases with rows)
    out['reads'] = list(_reads)
    out['H'] = [float(s.H) if not inconsistent(s) else h_spec(s) for s in store]
    out['views'] = view_checks(store) + eq_cache_checks(store)
    # real pickling of every final stream, compared with the in-process reduce (which the model predicts)
    ok = True; notes = []
    for k, s in enumerate(store):
        if not out['final'][k]['cls_ok'] or inconsistent(s):
            continue
        try:
            f, args = s.__reduce__()
            inproc = values(f(*args))
        except Exception as ex:
            if is_timeout(ex): raise
            inproc = type(ex).__name__
        try:
            pk = pickle_values(s)
        except Exception as ex:
            if is_timeout(ex): raise
            pk = type(ex).__name__
        if isinstance(inproc, str) or isinstance(pk, str):
            same = inproc == pk
        else:
            same = plus_equal(inproc, pk)
        if not same:
            ok = False; notes.append(f'stream {k}: pickle gives {pk}, in-process reduce gives {inproc}')
    out['pickle_ok'] = ok
    if notes: out['pickle_notes'] = notes[:3]
    out['aux'] = aux_pickles(case['rx'])
    return out

# ------------------------------------------------------------------ model side
def cph(p): return cnat(PH[p])
def ccf(cf):
    names = {'FEC': 1, 'GWP': 2}
    items = sorted((names[k], v) for k, v in (cf.items() if isinstance(cf, dict) else cf))
    return clist([f'({cnat(k)}, {q(v)})' for k, v in items])
def cid(i):
    if i is None or i == '' or i == ['none']: return 'IdNone'
    if isinstance(i, str): return f'(IdName {cnat(int(i[1:]))})'
    if i[0] == 'name': return f'(IdName {cnat(i[1])})'
    return 'IdAuto'
def cerr(r): return 'None' if r == 'ok' else f'(Some {r})'

def cnew(spec):
    if spec['kind'] == 'S':
        return (f'(ONewS {cid(spec["id"])} {cnat(spec["pkg"])} {cph(spec["phase"])} {qlist(spec["flow"])} '
                f'{q(spec["T"])} {q(spec["P"])} {q(spec["price"])} {ccf(spec["cf"])})')
    fl = clist([f'({cph(p)}, {qlist(v)})' for p, v in spec['flows'].items()])
    return (f'(ONewM {cid(spec["id"])} {cnat(spec["pkg"])} {clist(spec["phases"], cph)} {fl} '
            f'{q(spec["T"])} {q(spec["P"])} {q(spec["price"])} {ccf(spec["cf"])})')

def cop(o):
    n = o[0]
    if n == 'skip': return 'OSkip'
    simple = {'copy': 'OCopy', 'flow_proxy': 'OFlowProxy', 'proxy': 'OProxy', 'unlink': 'OUnlink', 'empty': 'OEmpty', 'reduce': 'OReduce'}
    if n in simple: return f'({simple[n]} {cnat(o[1])})'
    two = {'copy_like': 'OCopyLike', 'copy_tc': 'OCopyTC', 'copy_phase': 'OCopyPhase'}
    if n in two: return f'({two[n]} {cnat(o[1])} {cnat(o[2])})'
    if n == 'link': return f'(OLink {cnat(o[1])} {cnat(o[2])} {cbool(o[3])} {cbool(o[4])} {cbool(o[5])})'
    if n == 'set_flow': return f'(OSetFlow {cnat(o[1])} {cnat(o[2])} {cnat(o[3])} {q(o[4])})'
    if n == 'set_T': return f'(OSetT {cnat(o[1])} {q(o[2])})'
    if n == 'set_P': return f'(OSetP {cnat(o[1])} {q(o[2])})'
    if n == 'set_phase': return f'(OSetPhase {cnat(o[1])} {cph(o[2])})'
    if n == 'set_phases': return f'(OSetPhases {cnat(o[1])} {clist(o[2], cph)})'
    if n == 'scale': return f'(OScale {cnat(o[1])} {q(o[2])})'
    if n == 'read_mass': return f'(OReadMass {cnat(o[1])})'
    if n == 'read_H': return f'(OReadH {cnat(o[1])})'
    if n == 'set_mass': return f'(OSetMass {cnat(o[1])} {cnat(o[2])} {cnat(o[3])} {q(o[4])})'
    raise ValueError(n)

def csnap(v):
    return (f'(mksobs {cbool(v["multi"])} {cnat(v["pkg"])} {clist(v["phases"], cnat)} {clist(v["rows"], qlist)} '
            f'{q(v["T"])} {q(v["P"])} {q(v["price"])} {ccf(v["cf"])} {cid(v["id"])} {clist(v["labels"], cnat)})')

def model_ops(case, out):
    news = [cnew(s) for s in case['streams']]
    return clist(news + [cop(o) for o in out['ops']])

def coq_case(case, out):
    if 'pops' in case: return coq_case_pickle(case, out)
    if any(not v['cls_ok'] or not v['thermo_ok'] or v['pkg'] < 0 for v in out['final']):
        raise ValueError('object outside the model: class/indexer or package mismatch')
    res = clist([cerr(r) for r in out['new'] + out['res']])
    final = clist([csnap(v) for v in out['final']])
    if 'vops' in case:
        keys = clist([f'({cnat(k)}, {cnat(p)})' for k, p in out['keys']])
        return f'(vrun_eqb {model_vops(case, out)} {res} {final} {keys})'
    side = out['pickle_ok'] and not out['aux'] and not out['views']
    mass = clist([clist(m, qlist) for m in out['mass']])
    keyed = clist([clist(m, qlist) for m in out['keyed']])
    mph = clist([clist(m, cnat) for m in out['mphases']])
    return f'(run_eqb {model_ops(case, out)} {res} {final} {mass} {keyed} {mph} {qlist(out["H"])} {qlist(out["reads"])} && {cbool(side)})'

def coq_show(case, out):
    if 'pops' in case: return f'(prun_show {clist(out["ops"], cpop)})'
    if 'vops' in case: return f'(vrun_show {model_vops(case, out)})'
    return f'(run_show {model_ops(case, out)})'

def nontrivial(case, out):
    if 'pops' in case: return any(o[0] in ('pickle', 'reduce') and r == 'ok' for o, r in zip(out.get('ops', []), out.get('res', [])))
    if 'final' not in out or not any(r == 'ok' for r in out.get('res', [])): return False
    labs = [l for v in out['final'] for l in v['labels']]
    shared = any(l != k for k, l in enumerate(labs))
    if 'vops' in case: return bool(out.get('keys'))     # at least one view exists at the end
    return shared or len(out['final']) > len(case['streams']) or any(o[0] in ('set_flow', 'copy_like', 'scale', 'set_T', 'set_mass') for o in out['ops'])

def classify(case, out):
    ks = []
    if 'pops' in case:
        return ['family:pickle-slots'] + [f'pop:{o[0]}:{"ok" if r == "ok" else r}' for o, r in zip(out.get('ops', []), out.get('res', []))]
    for o, r in zip(out.get('ops', []), out.get('res', [])):
        ks.append(f'op:{o[0]}:{"ok" if r == "ok" else r}')
        if o[0] == 'copy_like' and 'final' in out:
            ks.append('copy_like')
    if 'vops' in case: ks.append('family:phase-views')
    for s in case['streams']:
        ks.append('init:' + s['kind'] + ':pkg%d' % s['pkg'] + (':n%d' % len(s['phases']) if s['kind'] == 'M' else ''))
    if 'final' in out:
        labs = [l for v in out['final'] for l in v['labels']]
        ks.append('final:sharing' if any(l != k for k, l in enumerate(labs)) else 'final:separate')
    for e in out.get('errors', []):
        ks.append('error:' + e)
    return ks

# ------------------------------------------------------------------ direct oracle
def cond(s):
    """conditions by name: {(phase, chemical): flow != 0}, T, P"""
    im = s._imol
    ids = {k: c.ID for k, c in enumerate(im._chemicals.tuple)}
    ids = type('D', (dict,), {'__missing__': lambda self, k: f'#{k}'})(ids)
    fl = {}
    if is_multi(s):
        for p, r in zip(im._phases, im.data.rows):
            for k, v in r.dct.items():
                if v: fl[(p, ids[k])] = fl.get((p, ids[k]), 0.) + float(v)
    else:
        for k, v in im.data.dct.items():
            if v: fl[(im._phase._phase, ids[k])] = float(v)
    return fl, float(s.T), float(s.P)

def fold(fl):
    """flows with upper-case phases folded on their lower-case twin (a target without 'L' stores it under 'l')"""
    o = {}
    for (p, c), v in fl.items():
        o[(p.lower(), c)] = o.get((p.lower(), c), 0.) + v
    return o

def full(s):
    v = values(s)
    return (v['multi'], tuple(v['phases']), tuple(map(tuple, v['rows'])), v['T'], v['P'])

def footprint_ids(s):
    return {id(x) for x in cells(s)}

def probe_shared(a, b):
    """which parts of a are visible through b, established by writing a sentinel through a and reading b (then restoring)"""
    res = {}
    # flow
    da = a._imol.data.rows[0] if is_multi(a) else a._imol.data
    old = da.dct.get(0, 0.)
    before = full(b)
    da[0] = old + 12345.
    res['flow'] = full(b) != before
    da[0] = old
    # T
    old = a._thermal_condition._T; before = full(b)
    a.T = old + 7.
    res['TP'] = full(b) != before
    a.T = old
    # phase
    if not is_multi(a):
        old = a.phase; before = full(b)
        a._imol._phase._phase = 'g' if old != 'g' else 'l'
        res['phase'] = full(b) != before
        a._imol._phase._phase = old
    else:
        res['phase'] = False
    return res

def views_agree(store, name):
    """every stream, read through the keyed access and through its mass view, shows its own current flows"""
    for k, s in enumerate(store):
        v = values(s)
        if not v['cls_ok'] or inconsistent(s): continue
        try:
            kr = keyed_rows(s)
        except Exception as ex:
            if is_timeout(ex): raise
            return f'{name}: reading stream {k} by (phase, ID) raised {type(ex).__name__}'
        if kr != v['rows']:
            return f'{name}: flows of stream {k} read by (phase, ID) differ from its data rows: {kr} vs {v["rows"]}'
        mw = [float(c.MW) for c in s._imol._chemicals.tuple]
        want = [[x * m for x, m in zip(r, mw)] for r in v['rows']]
        got = mass_rows(s)
        if any(abs(a - b) > 1e-9 * max(1., abs(a), abs(b)) for ra, rb in zip(got, want) for a, b in zip(ra, rb)) or len(got) != len(want):
            return f'{name}: the mass view of stream {k} does not show its own flows ({got} vs {want}): it still wraps data of another stream'
        if not is_multi(s):
            for vname, view in (('mass', s.imass), ('volumetric', s.ivol)):
                if view._phase is not s._imol._phase:
                    return (f'{name}: the {vname} view of stream {k} is bound to the phase object of another stream '
                            f'(view phase {view._phase._phase!r}, stream phase {s.phase!r}): a derived view is shared although the phase is not')
        elif tuple(s.imass._phases) != tuple(s._imol._phases):
            return f'{name}: the mass view of stream {k} has phases {s.imass._phases}, the stream {s._imol._phases}'
    return None

def h_check(store, k, name):
    s = store[k]; v = values(s)
    if not v['cls_ok'] or inconsistent(s) or any(p > 4 for p in v['phases']): return None
    want_H = h_spec(s); got_H = float(s.H)
    if abs(got_H - want_H) > 1e-9 * max(1., abs(got_H), abs(want_H)):
        twins = [j for j, t in enumerate(store) if t is not s and getattr(t, '_property_cache', None) is s._property_cache]
        return (f'{name}: H of stream {k} is {got_H}, a fresh stream in the same state gives {want_H}'
                + (f' (it shares its property memo with stream {twins[0]}: a proxy does not see the same thermal data)' if twins else ''))
    return None

@cpu_limited
def oracle(case):
    env()
    if 'vops' in case: return oracle_views(case)
    if 'pops' in case: return oracle_pickle(case)
    store = []
    for spec in case['streams']:
        try:
            s = build_stream(spec)
        except Exception as ex:
            if is_timeout(ex): raise
            return f'constructor: raised {type(ex).__name__} on valid arguments'
        if float(s.price) != spec['price']: return 'constructor: price given at construction is not kept'
        if dict(s.characterization_factors) != spec['cf']:
            return f'constructor: characterization_factors given at construction are discarded ({spec["cf"]} -> {dict(s.characterization_factors)})'
        store.append(s)
    for op in case['ops']:
        rop = resolve(store, op)
        name = rop[0]
        if name == 'skip': continue
        i = rop[1]; a = store[i]
        before = [full(s) for s in store]
        fps = [footprint_ids(s) for s in store]
        separate = [k for k in range(len(store)) if k != i and not (fps[k] & fps[i])]
        src_before = cond(store[rop[2]]) if name == 'copy_like' else None
        if name == 'read_H':
            msg = h_check(store, i, name)
            if msg: return msg
            continue
        try:
            r = apply_op(store, rop)
            raised = None
        except Exception as ex:
            if is_timeout(ex): raise
            r = None; raised = type(ex).__name__
        if name in ('read_mass', 'set_mass') and raised: return f'{name}: raised {raised}'
        msg = views_agree(store, name)
        if msg: return msg
        vm = eq_cache_checks(store)
        if vm: return f'{name}: ' + vm[0]
        vm = view_checks(store)
        if vm: return vm[0]
        # frame: whatever happened to the target, streams sharing nothing with it are untouched
        for k in separate:
            if name == 'link' and k == rop[2]:
                pass
            if full(store[k]) != before[k]:
                return f'{name}: stream {k}, which shares nothing with the target, changed'
        if name == 'copy':
            if raised: return f'copy: raised {raised}'
            if full(r) != before[i]: return 'copy: the copy differs from the original'
            c1 = r; c2 = a.copy()
            for x, y in ((c1, c2), (c2, c1)):
                if any(probe_shared(x, y).values()) or any(probe_shared(x, a).values()):
                    return 'copy: a change to the copy is visible in another copy or in the original'
            if any(probe_shared(a, c1).values()): return 'copy: a change to the original is visible in the copy'
        elif name == 'copy_like':
            b = store[rop[2]]
            src = src_before
            if cond(b) != src_before and not raised:
                return (f'copy_like: the source stream was changed by copy_like ({src_before[0]} -> {cond(b)[0]}); '
                        f'{"target and source share flow data" if fps[i] & fps[rop[2]] else "nothing shared"}')
            have = {c.ID for c in a._imol._chemicals.tuple}
            feasible = all(c in have for (_, c) in src[0])
            bad_phase = any(p > 4 for p in values(b)['phases'])   # an invalid phase letter (set unchecked through MultiStream.phase)
            if raised == 'RuntimeError' and bad_phase:
                pass
            elif raised:
                if feasible or raised != 'UndefinedChemicalAlias':
                    return f'copy_like: raised {raised} ({values(a)["multi"] and "MultiStream" or "Stream"} <- {values(b)["multi"] and "MultiStream" or "Stream"}, phases {values(b)["phases"]})'
            else:
                got = cond(a)
                if got[1:] != src[1:]: return f'copy_like: T, P not copied ({got[1:]} vs {src[1:]})'
                if got[0] != src[0] and fold(got[0]) != fold(src[0]):
                    return f'copy_like: flows differ after copy_like: {got[0]} vs source {src[0]}'
        elif name == 'copy_tc':
            if raised: return f'copy_thermal_condition: raised {raised}'
            if (a.T, a.P) != (store[rop[2]].T, store[rop[2]].P): return 'copy_thermal_condition: T, P differ'
        elif name == 'copy_phase':
            b = store[rop[2]]
            if not raised and a.phase != b.phase: return 'copy_phase: phases differ'
        elif name in ('proxy', 'flow_proxy'):
            if raised: return f'{name}: raised {raised}'
            if full(r)[:3] != before[i][:3]: return f'{name}: flows/phases of the proxy differ from the original'
            sh = probe_shared(a, r); sh2 = probe_shared(r, a)
            want = {'flow': True, 'TP': name == 'proxy', 'phase': name == 'proxy' and not is_multi(a)}
            if sh != want or sh2 != want: return f'{name}: shares {sh}/{sh2}, expected {want}'
        elif name == 'link':
            b = store[rop[2]]
            if raised:
                if is_multi(a) == is_multi(b): return f'link_with: raised {raised}'
            elif a is not b:
                sh = probe_shared(a, b)
                prior = fps[i] & fps[rop[2]]
                want = {'flow': rop[3], 'TP': rop[5], 'phase': rop[4] and not is_multi(a)}
                if not prior and sh != want: return f'link_with(flow={rop[3]}, phase={rop[4]}, TP={rop[5]}): shares {sh}'
                if rop[3] and full(a)[2] != full(b)[2]: return 'link_with: flows differ after linking flows'
        elif name == 'unlink':
            if raised: return f'unlink: raised {raised}'
            if full(a) != before[i]: return 'unlink: values changed'
            for k, s in enumerate(store):
                if s is not a:
                    sh = probe_shared(a, s)
                    if any(sh.values()): return f'unlink: still shares {[x for x in sh if sh[x]]} with another stream ({"proxy" if a._imol is s._imol else "link"})'
        elif name == 'reduce':
            v = values(a)
            if raised == 'RuntimeError' and any(p > 4 for p in v['phases']): continue
            if raised: return f'reduce/from_data: raised {raised} (phases {v["phases"]}, multi={v["multi"]})'
            w = values(r)
            if not plus_equal(v, w, with_id=bool(a._ID)) and not (v['multi'] and len(v['phases']) == 1 and
                    plus_equal(dict(v, multi=False), w, with_id=bool(a._ID))):
                return f'reduce/from_data: observable state differs: {w} vs {v}'
        if r is not None: store.append(r)
    for k in reversed(range(len(store))):
        msg = h_check(store, k, 'final')
        if msg: return msg
    for k, s in enumerate(store):
        v = values(s)
        if not v['cls_ok'] or inconsistent(s) or any(p > 4 for p in v['phases']): continue
        try:
            w = pickle_values(s)
        except Exception as ex:
            if is_timeout(ex): raise
            return f'pickle: raised {type(ex).__name__} (phases {v["phases"]}, multi={v["multi"]})'
        if not plus_equal(v, w, with_id=bool(s._ID)) and not (v['multi'] and len(v['phases']) == 1 and
                plus_equal(dict(v, multi=False), w, with_id=bool(s._ID))):
            bad = [x for x in ('phases', 'rows', 'T', 'P', 'price', 'cf', 'id', 'pkg', 'multi') if v[x] != w[x]]
            return f'pickle: observable state differs after round-trip in {bad}'
    aux = aux_pickles(case['rx'])
    if aux: return aux[0]
    return None

def finding_key(case, msg):
    head = msg.split(':')[0]
    if head == 'unlink' and 'proxy' in msg: return 'C13:unlink-after-proxy'
    if 'bound to the phase object' in msg: return 'C13:view-phase'
    if msg.startswith('view:'): return 'C13:phase-view-copy'
    if msg.startswith('subview:'): return 'C13:phase-view-detached' if 'no longer shares' in msg else 'C13:phase-view'
    if 'equilibrium:' in msg: return 'C13:equilibrium-cache'
    if ': H of stream' in msg: return 'C13:property-memo'
    if 'mass view' in msg: return 'C13:stale-mass-view'
    if '(phase, ID)' in msg: return 'C13:keyed-access'
    return 'C13:' + head

def _s(kind, pkg, **kw):
    d = {'pkg': pkg, 'T': 300., 'P': 101325., 'price': 0.5, 'cf': {}, 'id': None, 'kind': kind}
    d.update(kw)
    return d
_RX = {'a': 1., 'b': 2., 'X': 0.5}
# minimised inputs of the defects found with this check; cases 3-6 were repaired in /repo by the fix: commits
# 70f04fc, 1c6e5d7, 747278e, 635bcdf and stay as regression cases; 1, 2, 7, 8 pass once pending_fixes/C13_1..4 are applied
CORPUS = [
    # 1 characterization_factors given to the constructor are discarded (and so lost by pickling)
    {'streams': [_s('S', 0, phase='l', flow=[1., 0., 2.], cf={'GWP': 1.5}, id='x1'),
                 _s('M', 0, phases=['g', 'l'], flows={'g': [0., 4., 0.]}, cf={'GWP': 2., 'FEC': 0.25}, id='x2')],
     'ops': [['reduce', 0], ['reduce', 1]], 'rx': _RX},
    # 2 Stream.copy_like(one-phase MultiStream): T, P not copied (other-package flows by position: repaired in 70f04fc)
    {'streams': [_s('S', 1, phase='l', flow=[0., 0., 3., 0.], id='x1'),
                 _s('M', 0, phases=['g'], flows={'g': [1., 0., 2.]}, T=350.5, P=200000., id='x2')],
     'ops': [['copy_like', 0, 1]], 'rx': _RX},
    # 3 MultiStream.copy_like(Stream in a phase the target lacks): UndefinedPhase
    {'streams': [_s('M', 0, phases=['g', 'l'], flows={'g': [1., 0., 0.], 'l': [0., 2., 0.]}, id='x1'),
                 _s('S', 0, phase='s', flow=[4., 0., 0.], T=350.5, id='x2')],
     'ops': [['copy_like', 0, 1]], 'rx': _RX},
    # 4 MultiStream.copy_like(MultiStream with other phases): rows copied by position
    {'streams': [_s('M', 0, phases=['g', 'l', 's'], flows={'g': [1., 0., 0.], 'l': [0., 2., 0.], 's': [0., 0., 3.]}, id='x1'),
                 _s('M', 0, phases=['l', 's'], flows={'l': [4., 0., 0.], 's': [0., 8., 0.]}, T=350.5, id='x2')],
     'ops': [['copy_like', 0, 1]], 'rx': _RX},
    {'streams': [_s('M', 1, phases=['g', 'l'], flows={'g': [1., 0., 0., 0.]}, id='x1'),
                 _s('M', 0, phases=['l', 's'], flows={'l': [4., 0., 1.], 's': [0., 8., 0.]}, T=350.5, id='x2')],
     'ops': [['copy_like', 0, 1]], 'rx': _RX},
    # 5 compatible phase sets, other package: rows added by position
    {'streams': [_s('M', 1, phases=['L'], flows={}, id='x1'),
                 _s('M', 0, phases=['l'], flows={'l': [4., 0., 1.]}, T=350.5, id='x2')],
     'ops': [['copy_like', 0, 1]], 'rx': _RX},
    # 6 Stream.copy_like(MultiStream lacking the stream's phase): UndefinedPhase, object left half converted
    {'streams': [_s('S', 0, phase='s', flow=[1., 0., 0.], id='x1'),
                 _s('M', 0, phases=['g', 'l'], flows={'g': [1., 0., 0.], 'l': [0., 2., 0.]}, T=350.5, id='x2')],
     'ops': [['copy_like', 0, 1]], 'rx': _RX},
    # 7 set_data / from_data / pickle of a one-phase MultiStream: AttributeError
    {'streams': [_s('M', 0, phases=['g'], flows={'g': [1., 0., 2.]}, id='x1'), _s('S', 0, phase='l', flow=[1., 0., 0.], id='x2')],
     'ops': [['reduce', 0]], 'rx': _RX},
    # 8 MultiStream.proxy(): AttributeError (no `equations`)
    {'streams': [_s('M', 0, phases=['g', 'l'], flows={'g': [1., 0., 2.]}, id='x1'), _s('S', 0, phase='l', flow=[1., 0., 0.], id='x2')],
     'ops': [['proxy', 0], ['set_flow', 2, 0, 1, 8.], ['set_T', 0, 310.]], 'rx': _RX},
]
# every flag subset of link_with between two Streams in different phases, then both mass views are read and a phase is changed;
# copy_like between streams that already share their flow data (flow proxy, link) in both directions
for _fl in (False, True):
    for _ph in (False, True):
        for _tp in (False, True):
            CORPUS.append({'streams': [_s('S', 0, phase='l', flow=[1., 0., 2.], id='x1'), _s('S', 0, phase='g', flow=[0., 4., 0.], T=350.5, id='x2')],
                           'ops': [['link', 1, 0, _fl, _ph, _tp], ['read_mass', 0], ['read_mass', 1], ['set_phase', 1, 's'], ['set_mass', 1, 0, 1, 64.]],
                           'rx': _RX})
CORPUS += [
    {'streams': [_s('S', 0, phase='l', flow=[1., 0., 2.], id='x1'), _s('S', 0, phase='g', flow=[0., 4., 0.], T=350.5, id='x2')],
     'ops': [['flow_proxy', 0], ['copy_like', 2, 0], ['copy_like', 0, 2], ['link', 1, 0, True, False, False], ['copy_like', 1, 0], ['copy_like', 0, 1]], 'rx': _RX},
    {'streams': [_s('M', 0, phases=['g', 'l'], flows={'g': [1., 0., 2.], 'l': [0., 4., 0.]}, id='x1'),
                 _s('M', 0, phases=['g', 'l'], flows={'l': [0., 8., 0.]}, T=350.5, id='x2')],
     'ops': [['link', 1, 0, True, True, True], ['copy_like', 1, 0], ['copy_like', 0, 1], ['flow_proxy', 0], ['copy_like', 2, 0]], 'rx': _RX},
]
CORPUS += [
    {'streams': [_s('M', 0, phases=['g', 'l'], flows={'g': [1., 0., 2.], 'l': [0., 4., 0.]}, id='x1'),
                 _s('M', 0, phases=['g', 'l'], flows={'l': [0., 8., 0.]}, T=350., id='x2')],
     'vops': [['link', 0, 1, True, True, True], ['vget', 0, 'l'], ['unlink', 0], ['vset_flow', 0, 'l', 0, 9.], ['vset_T', 0, 'l', 333.]], 'rx': _RX},
    {'streams': [_s('M', 0, phases=['g', 'l'], flows={'g': [1., 0., 2.], 'l': [0., 4., 0.]}, id='x1'), _s('S', 0, phase='s', flow=[7., 0., 0.], T=310., id='x2')],
     'vops': [['vget', 0, 'l'], ['vget', 0, 'g'], ['copy_like', 0, 1], ['vget', 0, 's'], ['set_phases', 0, ['l', 's']], ['vset_flow', 0, 'l', 1, 5.],
              ['vset_T', 0, 's', 333.], ['vcopy', 0, 'l'], ['vflow_proxy', 0, 's'], ['vunlink', 0, 'l'], ['vset_phase', 0, 'l', 'g'], ['vget', 0, 'L']], 'rx': _RX},
]
# witness of C13_unlink_sep_refuted (coq/C13/Props.v): a proxy holds the same indexer object, unlink does not replace it
WITNESSES = [{'key': 'C13:unlink-after-proxy',
              'case': {'streams': [_s('S', 0, phase='l', flow=[1., 0., 2.], id='x1')],
                       'ops': [['proxy', 0], ['unlink', 0]], 'rx': _RX}},
             # witness of C13_phase_views_attached_refuted: link_with / unlink leave the cached views ms[phase] on the old rows
             {'key': 'C13:phase-view-detached',
              'case': {'streams': [_s('M', 0, phases=['g', 'l'], flows={'g': [1., 0., 2.], 'l': [0., 4., 0.]}, id='x1'),
                                   _s('M', 0, phases=['g', 'l'], flows={'l': [0., 8., 0.]}, T=350., id='x2')],
                       'vops': [['link', 0, 1, True, True, True], ['vget', 0, 'l'], ['unlink', 0]], 'rx': _RX}}]
