"""C11 — molar / mass / volumetric views and unit conversions of a stream always agree.
Correspondence harness (real streams vs coq/C11/Model.v), generators and the direct oracle."""
import os, warnings, math
from fractions import Fraction as F
from vf import q, qlist, clist, cbool, cnat, copt, frac, fr_json

ID = 'C11'
COQ_DIR = 'C11'
COQ_HEADER = 'From V Require Import Common.Num C11.Model C11.ModelProp.\nOpen Scope Q_scope.'
RULE = ('(0000) get_property / set_property of F_mol, F_mass, F_vol in every unit string (right and wrong dimension) from COLD units caches (Stream._flow_cache and every AbsoluteUnitsOfMeasure.factor_cache emptied before the history, as in a new process), so that a unit is first used by set_property (unconvert), by get_property (convert) or by the flow API in either order, then cross-read in the other units of the view, around T / phase changes (24); the same two calls also appear in the random histories, 60% of which start from cold caches; (000) MultiStream.reset_flow (empty, phases setter, groups of flows per phase label in every unit, total) on MultiStreams with used views and phase streams, and Stream.empty (14); (00) copy_like between streams of different property packages, single- and multi-phase on either side, incl. a chemical the receiver lacks (14); (0) structured families that make state kept between calls matter: phase streams ms[phase] with used views around a new indexer of the MultiStream (phases setter, package reset, unlink, added phases) (20); Stream.reset_flow with a new phase and flows / totals in every unit (12); single-phase streams with cached views adopted by MultiStream.from_streams, then T/P changed through either side (12); package changes (persistent, or reset-and-restore) to a package with the chemicals at other positions or with other Chemical objects at the same positions, around name-keyed accesses and volumetric totals (18); every unit string x every view through the views\' own get_data/set_data after the unit was converted legitimately elsewhere (24); a view written with another view as the value between streams / phases at different T, P, phase (24); F_vol / volumetric totals re-read after material moved between phases at unchanged overall composition (16); (a) 40 link scenarios in quick (5 per flag subset, all 8 subsets of link_with(flow, phase, TP)) between single-phase streams in different phases with ivol/imass reads, writes and get_flow on both sides in both orders before and after the link; (b) histories of 4-16 operations over a store of 2-3 streams (single-phase Stream and MultiStream, two property packages '
        'of stub chemicals whose molar volume is an injective dyadic function of (chemical, phase, T, P)): reads of the '
        'mol/mass/vol views and totals, get_flow/get_total_flow in 8 units + 3 wrong-dimension units, writes through every view '
        '(imol/imass/ivol item, set_flow, set_total_flow, F_mol/F_mass/F_vol setters), interleaved with T/P/phase/phases setters, '
        'link_with (all 8 flag combinations), unlink, copy_like, property-package reset (_reset_thermo and the '
        'reset_chemicals(container) round trip used by reactions). Every operation is executed on the real '
        'objects and on the Coq model; compared per operation: exception class or returned values (1e-9 relative), and after the '
        'history for every stream: kind, phases, T, P, molar data, mass view data, volumetric view data, F_mol/F_mass/F_vol and '
        'id()-level aliasing flags (view rows wrap the current molar dicts in order, TP and phase sources are the stream\'s). '
        'non-trivial = at least one write and one structural operation succeeded; distinct = distinct case hash')
ASSUMPTIONS = [
    'molar volume oracle Vf chem phase T P > 0 (every chemical has a molar-volume model in the phase) and molecular weights MW > 0',
    'unit factors are positive rationals per unit string with a dimension tag (pint is an oracle); the table used in the correspondence is read from the real AbsoluteUnitsOfMeasure.conversion_factor',
    'get_property / set_property are modelled for the three flow totals F_mol, F_mass, F_vol (coq/C11/ModelProp.v: the total is read, then convert = value * conversion_factor(units); unconvert = value / conversion_factor(units), then the F_ setter), with the factor cache of the units object of the dimension shared with the views\' get_data / set_data and with Stream._get_flow_name_and_factor; histories flagged cold start from emptied factor caches (the harness clears Stream._flow_cache and every AbsoluteUnitsOfMeasure.factor_cache, the state of a new process), the others from whatever earlier cases left (all of it written by conversion_factor); the direct oracle compares with fixed factors written in props/C11.py (0.45359237 kg/lb, 3.785411784e-3 m3/gal, 3.6, 0.06), not with thermosteam\'s or pint\'s',
    'the molar-volume memo of a volumetric view is reused while |dT|,|dP| < 1e-12 (ThermalCondition.in_equilibrium): vol_get is stated at the (T\',P\') of the memo entry, within 1e-12 of the current values; the generators never move T or P by less than 0.5',
    'float rounding not modelled: values compared to 1e-9 relative; branch decisions are exact because inputs are dyadic; a total-flow setter is not exercised when the current total is a rounding-level residue of an exact cancellation (|F| < 1e-9 sum|x|, possible with the negative test flows)',
    'sparse storage invariant (stored keys = non-zero entries) is C09\'s; molar rows are modelled as dense vectors',
    'what a name -> position dict of MaterialIndexer._index_caches[(phases, chemicals)] holds is C10\'s subject: the model keeps WHICH dict the molar indexer of each stream consults and lets that dict answer for its own (phases, chemicals)',
    'phase streams (ms[phase], and the streams adopted by MultiStream.from_streams) are ordinary streams of the store registered in the MultiStream\'s _streams dict; the model re-creates their indexers where the MultiStream gets a new MaterialIndexer (phases setter, _reset_thermo), forgets them when it becomes single-phase and renews their property memo in reset_cache; that a phase stream keeps seeing the parent\'s row after other operations (liveness) is C12\'s subject',
    'streams related by proxy() (one shared indexer object) are outside this model (C13/C14); each stream owns its indexer',
    'outside the modelled domain (C12/C13 own them; the model answers XDomain and the harness skips them): link_with between streams of different property packages (copy_like across packages IS modelled), flow-linking MultiStreams with different phase tuples, copy_like between MultiStreams with different phase sets, expanding the phases of a MultiStream whose data is linked, phases setters that drop or relabel a non-empty phase; a package reset that drops a chemical with non-zero flow; ms[phase] phase views; MultiStream.reset_flow that leaves fewer than two phases',
    'F_vol reads the mixture molar volume through the stream property memo (_get_property): the memo of the one property these histories read (V) is part of the model (key = phase(s), T, P, normalised composition per phase; reset_cache call sites), for streams that are not proxies of each other; the ideal mixture rule V = sum z_i V_i is used',
]
TRUSTED = ['model coq/C11/Model.v is hand-written from thermosteam/indexer.py (by_mass, by_volume, reset_chemicals, copy_like, '
           '_expand_phases, to_material_indexer, to_chemical_indexer), base/dictionary_view.py, _stream.py and '
           '_multi_stream.py (views, totals, get/set_flow, link_with, unlink, copy_like incl. other packages (index_overlap), '
           '_reset_thermo, phase/phases setters, __getitem__, Stream.empty, Stream.reset_flow, MultiStream.reset_flow as the '
           'composition empty / phases setter / set_flow per phase label / set_total_flow); tie = correspondence check',
           'coq/C11/ModelProp.v is hand-written from thermosteam/utils/decorators/units_of_measure.py (get_property, set_property) and thermosteam/units_of_measure.py (AbsoluteUnitsOfMeasure.convert / unconvert / conversion_factor); tie = correspondence check',
           'the harness resolves chemical IDs / phase labels to positions with the real objects before the model runs (key lookup is C10\'s)']

PH = {'g': 1, 'l': 2, 's': 3, 'L': 4, 'S': 5}
PHC = {'s': 1, 'l': 2, 'g': 5}
GIDS = {'A_': 0, 'B_': 1, 'C_': 2, 'D_': 3}
MWS = {0: 16., 1: 32., 2: 8., 3: 4., 8: 64., 9: 2., 10: 128.}
# package 2 holds OTHER Chemical objects with the CAS numbers of A_, B_, C_ at the same positions (another MW, another
# molar-volume model): chemical id = 8 * variant + CAS number, as in coq/C11/Model.v
PKGS = [['A_', 'B_', 'C_'], ['C_', 'A_', 'D_', 'B_'], ['A_', 'B_', 'C_']]
PKG_GIDS = [[0, 1, 2], [2, 0, 3, 1], [8, 9, 10]]
UNITS = ['kmol/hr', 'mol/s', 'kg/hr', 'lb/hr', 'g/min', 'm3/hr', 'L/min', 'gal/min', 'kg', 'm/s', 'K']
TS = [256., 320., 384., 298.15, 320.5]   # distinct values differ by far more than the 1e-12 of in_equilibrium
PS = [65536., 101325., 131072., 65537.]
VALS = [F(0), F(1), F(2), F(1, 2), F(3), F(1, 4), F(8), F(-1), F(1, 1024), F(4096), F(5, 2)]

def vstub(gid, ph, T, P):
    """stand-in molar volume: injective in (chemical, base phase), strictly increasing in T and P, dyadic, positive"""
    return (1 + gid) / 64 + PHC[ph] / 8 + T / 4096 + P / 2 ** 26

class VStub:
    def __init__(self, gid, ph):
        self.gid = gid; self.ph = ph
    def __call__(self, T, P):
        return vstub(self.gid, self.ph, T, P)
    def __bool__(self):
        return True
    def copy(self):
        return self

_env = {}
def env():
    if not _env:
        warnings.filterwarnings('ignore')
        import thermosteam as tmo
        from thermosteam.base.phase_handle import PhaseTPHandle
        chems = {}
        names = {g: n for n, g in GIDS.items()}
        for gid in sorted(MWS):
            c = tmo.Chemical(names[gid % 8], search_db=False, MW=MWS[gid], Hf=0., default=True)
            c._V = PhaseTPHandle('V', VStub(gid, 's'), VStub(gid, 'l'), VStub(gid, 'g'), None)
            chems[gid] = c
        thermos = []
        for gids in PKG_GIDS:
            thermos.append(tmo.Thermo(tmo.Chemicals([chems[g] for g in gids]), skip_checks=True))
        tmo.settings.set_thermo(thermos[0])
        _env.update(tmo=tmo, thermos=thermos, chems=chems)
        tab = []
        for u in UNITS:
            try:
                name, factor = tmo.Stream._get_flow_name_and_factor(u)
                tab.append((name, frac(factor)))
            except Exception as e:
                tab.append((type(e).__name__, None))
        _env['utab'] = tab
    return _env

ERR = {'ValueError': 'EValue', 'KeyError': 'EKey', 'IndexError': 'EIndex', 'TypeError': 'EType',
       'ZeroDivisionError': 'EZeroDiv', 'RuntimeError': 'ERuntime', 'InfeasibleRegion': 'EInfeasible',
       'UndefinedPhase': 'EUndefPhase', 'DimensionError': 'EDim', 'DimensionalityError': 'EDim', 'FloatingPointError': 'EZeroDiv'}
def err_of(ex):
    return ERR.get(type(ex).__name__, 'EOther')

# ------------------------------------------------------------------ generators
def gen_stream(rng):
    pkg = rng.choice([0, 0, 0, 0, 0, 0, 1, 1, 2])
    n = len(PKGS[pkg])
    def row():
        r = [float(rng.choice([0, 0, 1, 2, F(1, 2), 3, 8])) for _ in range(n)]
        if pkg == 1:
            r[2] = 0.   # D_ is never given a flow (a reset to package 0 must stay defined)
        return r
    T, P = rng.choice(TS[:4]), rng.choice(PS[:3])
    if rng.random() < 0.6:
        return {'kind': 'S', 'pkg': pkg, 'phase': rng.choice(['l', 'l', 'g', 's', 'L']), 'T': T, 'P': P, 'flow': row()}
    phases = sorted(rng.sample(['g', 'l', 's', 'L'], rng.choice([2, 2, 3])))
    return {'kind': 'M', 'pkg': pkg, 'phases': phases, 'T': T, 'P': P, 'flow': [row() for _ in phases]}

OPKINDS = (['read'] * 5 + ['F'] * 2 + ['get_flow'] * 3 + ['get_total'] * 2 + ['set'] * 6 + ['set_flow'] * 4 + ['set_total'] * 2
           + ['setF'] * 2 + ['T'] * 3 + ['P'] * 2 + ['phase'] * 4 + ['phases'] * 3 + ['link'] * 4 + ['unlink'] * 3
           + ['copy_like'] * 3 + ['thermo'] * 2 + ['rtrip'] * 1 + ['alias'] * 2 + ['get_data'] * 3 + ['set_data'] * 2 + ['assign'] * 3 + ['copy_row'] * 2 + ['from_streams'] * 2 + ['sub'] * 3 + ['reset_flow'] * 3 + ['empty'] * 1 + ['reset_flow_m'] * 3
           + ['get_prop'] * 3 + ['set_prop'] * 3)

def gen_reset_flow_op(rng, i):
    chems = rng.sample(['A_', 'B_', 'C_'], rng.choice([0, 1, 2, 2, 3]))
    return ['reset_flow', i, rng.choice([None, 'l', 'g', 's', 'g', 'l']), rng.choice([None, None] + list(range(8)) + [5, 6, 7, 8]),
            rng.choice([None, None, float(rng.choice(VALS[1:7])), 0.0]), [[c, float(rng.choice(VALS[1:7]))] for c in chems]]

def gen_reset_flow_m_op(rng, i):
    """MultiStream.reset_flow(total_flow, units, phases, **phase_flows): groups of flows for distinct phase labels (mostly
    among the phases asked for, sometimes the other case of a label or a missing phase), every unit incl. wrong dimensions"""
    labels = rng.sample(['g', 'l', 's', 'L'], rng.choice([0, 1, 1, 2, 2, 3]))
    pf = [[p, [[c, float(rng.choice(VALS[1:7]))] for c in rng.sample(['A_', 'B_', 'C_'], rng.choice([1, 1, 2, 3]))]] for p in labels]
    k = rng.random()
    if k < 0.45: phases = None
    elif k < 0.85: phases = sorted(set(labels) | set(rng.sample(['g', 'l', 's', 'L'], rng.choice([1, 2]))))
    else: phases = sorted(rng.sample(['g', 'l', 's', 'L'], rng.choice([2, 3])))
    u = rng.randrange(len(UNITS)) if rng.random() < 0.1 else rng.randrange(8)
    return ['reset_flow_m', i, rng.choice([None, None, float(rng.choice(VALS[1:7])), 0.0]), u, phases, pf]

def gen_op(rng):
    k = rng.choice(OPKINDS)
    i, j = rng.randrange(64), rng.randrange(64)
    view = rng.choice(['mol', 'mass', 'mass', 'vol', 'vol'])
    chem = rng.choice(['A_', 'B_', 'C_'])
    ph = rng.randrange(8)
    val = float(rng.choice(VALS))
    u = rng.randrange(len(UNITS)) if rng.random() < 0.15 else rng.randrange(8)
    if k == 'read': return [k, i, view]
    if k == 'F': return [k, i, view]
    if k == 'get_flow': return [k, i, u, ph, chem]
    if k == 'get_total': return [k, i, u]
    if k == 'set': return [k, i, view, ph, chem, val]
    if k == 'set_flow': return [k, i, u, ph, chem, val]
    if k == 'set_total': return [k, i, u, val]
    if k == 'setF': return [k, i, view, val]
    if k == 'T': return [k, i, rng.choice(TS)]
    if k == 'P': return [k, i, rng.choice(PS)]
    if k == 'phase': return [k, i, rng.choice(['l', 'g', 's', 'L', 'g', 'l'])]
    if k == 'phases': return [k, i, sorted(rng.sample(['g', 'l', 's', 'L'], rng.choice([1, 2, 2, 3, 4])))]
    if k == 'link': return [k, i, j, rng.random() < 0.7, rng.random() < 0.7, rng.random() < 0.7]
    if k == 'unlink': return [k, i]
    if k == 'copy_like': return [k, i, j]
    if k == 'thermo': return [k, i, rng.randrange(3)]
    if k == 'rtrip': return [k, i, rng.randrange(3)]
    if k == 'alias': return [k, i]
    if k == 'get_data': return [k, i, view, rng.randrange(8), ph, chem]
    if k == 'set_data': return [k, i, view, rng.randrange(8), ph, chem, val]
    if k == 'assign': return [k, i, j, view]
    if k == 'copy_row': return [k, i, view, ph, rng.randrange(8)]
    if k == 'from_streams': return [k, i, [rng.randrange(64) for _ in range(rng.choice([1, 2, 2, 3]))]]
    if k == 'sub': return [k, i, ph]
    if k == 'reset_flow': return gen_reset_flow_op(rng, i)
    if k == 'empty': return [k, i]
    if k == 'reset_flow_m': return gen_reset_flow_m_op(rng, i)
    if k == 'get_prop': return [k, i, view, u]
    if k == 'set_prop': return [k, i, view, u, float(rng.choice(VALS[1:7]))]
    raise ValueError(k)

OWN_UNITS = {'mol': [0, 1], 'mass': [2, 3, 4], 'vol': [5, 6, 7]}
def gen_prop_case(rng):
    """the units objects keep conversion factors between calls and are filled by BOTH directions of conversion: starting from
    cold caches, a unit string is first used by set_property, by get_property or by the flow API (any order), then the
    total is cross-read in the other units of the view and written again, with a T / phase change in between"""
    streams = [gen_stream(rng) for _ in range(2)]
    ops = []
    for _ in range(rng.choice([1, 2, 2, 3])):
        view = rng.choice(['mol', 'mass', 'mass', 'vol', 'vol'])
        i = rng.randrange(2)
        us = OWN_UNITS[view]
        u = rng.choice(us)
        chem = rng.choice(['A_', 'B_', 'C_'])
        val = float(rng.choice(VALS[1:7]))
        first = rng.choice([['set_prop', i, view, u, val]] * 3 + [['get_prop', i, view, u], ['get_total', i, u],
                            ['set_flow', i, u, 0, chem, val], ['get_data', i, view, u, 0, chem]])
        ops.append(first)
        tail = [['get_prop', i, view, rng.choice(us)], ['get_total', i, rng.choice(us)], ['F', i, view],
                ['set_prop', i, view, rng.choice(us), float(rng.choice(VALS[1:7]))], ['get_flow', i, u, 0, chem],
                ['get_prop', i, view, u], ['set_total', i, u, float(rng.choice(VALS[1:7]))],
                rng.choice([['T', i, rng.choice(TS)], ['phase', i, rng.choice(['l', 'g', 's'])], ['P', i, rng.choice(PS)]])]
        if rng.random() < 0.3:
            tail.append(rng.choice([['get_prop', i, view, rng.randrange(len(UNITS))],
                                    ['set_prop', i, view, rng.randrange(len(UNITS)), val]]))
        rng.shuffle(tail)
        ops += tail[:rng.randint(3, len(tail))]
    ops.append(['read', rng.randrange(2), rng.choice(['mol', 'mass', 'vol'])])
    return {'streams': streams, 'ops': ops, 'cold': True}

def gen_units_case(rng, u, view):
    """the units objects keep conversion factors between calls: a unit string is first converted legitimately (by the
    stream API or by the view of its own dimension), then asked of the view `view` (right or wrong dimension)"""
    streams = [gen_stream(rng) for _ in range(2)]
    i = rng.randrange(2)
    chem = rng.choice(['A_', 'B_', 'C_'])
    own = ['mol', 'mol', 'mass', 'mass', 'mass', 'vol', 'vol', 'vol'][u]
    warm = rng.choice([['get_flow', i, u, 0, chem], ['get_total', i, u], ['get_data', i, own, u, 0, chem],
                       ['set_flow', i, u, 0, chem, float(rng.choice(VALS[1:]))]])
    ops = [warm]
    ops.append(['get_data', rng.randrange(2), view, u, rng.randrange(4), chem])
    ops.append(['set_data', rng.randrange(2), view, u, rng.randrange(4), chem, float(rng.choice(VALS[1:]))])
    ops.append(['read', i, rng.choice(['mol', 'mass', 'vol'])])
    ops.append(['get_data', i, own, u, 0, chem])
    rng.shuffle(ops[1:])
    return {'streams': streams, 'ops': ops}

def gen_viewcopy_case(rng):
    """a view is written with another view as the value (s1.vol = s2.vol, ms.ivol['g'] = ms.ivol['l']) between streams /
    phases at different T, P, phase; reads on both sides before and after"""
    pkg = 0 if rng.random() < 0.7 else 1
    n = len(PKGS[pkg])
    def row():
        r = [float(rng.choice([0, 1, 2, F(1, 2), 3, 8])) for _ in range(n)]
        if pkg == 1: r[2] = 0.
        return r
    view = rng.choice(['vol', 'vol', 'vol', 'mass', 'mol'])
    if rng.random() < 0.6:
        p1, p2 = rng.sample(['l', 'g', 's', 'L'], 2) if rng.random() < 0.7 else ['l', 'l']
        T1, T2 = rng.sample(TS[:4], 2)
        streams = [{'kind': 'S', 'pkg': pkg, 'phase': p1, 'T': T1, 'P': rng.choice(PS[:3]), 'flow': row()},
                   {'kind': 'S', 'pkg': pkg, 'phase': p2, 'T': T2, 'P': rng.choice(PS[:3]), 'flow': row()}]
        a, b = rng.sample([0, 1], 2)
        ops = [['read', x, view] for x in rng.sample([a, b], rng.choice([0, 1, 2]))]
        if rng.random() < 0.25:
            ops.append(['link', a, b, rng.random() < 0.5, rng.random() < 0.5, rng.random() < 0.5])
        ops += [['assign', a, b, view], ['read', a, view], ['read', b, view], ['F', a, view]]
        if rng.random() < 0.5:
            ops += [['T', b, rng.choice(TS)], ['assign', b, a, view], ['read', b, view]]
    else:
        phases = sorted(rng.sample(['g', 'l', 's', 'L'], rng.choice([2, 3])))
        streams = [{'kind': 'M', 'pkg': pkg, 'phases': phases, 'T': rng.choice(TS[:4]), 'P': rng.choice(PS[:3]),
                    'flow': [row() for _ in phases]}, gen_stream(rng)]
        r1, r2 = rng.sample(range(len(phases)), 2)
        ops = [['read', 0, view]] if rng.random() < 0.5 else []
        ops += [['copy_row', 0, view, r1, r2], ['read', 0, view], ['F', 0, view]]
        if rng.random() < 0.5:
            ops += [['P', 0, rng.choice(PS)], ['copy_row', 0, view, r2, r1], ['read', 0, view]]
    return {'streams': streams, 'ops': ops}

def gen_memo_case(rng):
    """the stream keeps the mixture molar volume between calls: F_vol / get_total_flow in volumetric units is read, then
    material moves between the phases of a MultiStream while T, P, the phases and the OVERALL composition stay the same
    (one chemical only, or two phases exchanging their contents), then it is read again and a total is written"""
    pkg = 0
    phases = sorted(rng.sample(['g', 'l', 's', 'L'], rng.choice([2, 2, 3])))
    T, P = rng.choice(TS[:4]), rng.choice(PS[:3])
    vread = lambda: rng.choice([['F', 0, 'vol'], ['get_total', 0, rng.choice([5, 6, 7])]])
    if rng.random() < 0.6:
        c = rng.randrange(3); chem = PKGS[0][c]
        flow = [[0., 0., 0.] for _ in phases]
        for r in flow: r[c] = float(rng.choice([1, 2, F(1, 2), 3, 8]))
        ops = [vread()]
        for _ in range(rng.randint(1, 3)):
            ops.append(rng.choice([['set', 0, rng.choice(['mol', 'mass', 'vol']), rng.randrange(8), chem, float(rng.choice(VALS[1:7]))],
                                   ['set_flow', 0, rng.randrange(8), rng.randrange(8), chem, float(rng.choice(VALS[1:7]))]]))
            ops.append(vread())
    else:
        a = [float(rng.choice([1, 2, 3, 8])) for _ in range(3)]; b = [float(rng.choice([0, 1, F(1, 2), 2])) for _ in range(3)]
        flow = [a, b] + [[0., 0., 0.] for _ in phases[2:]]
        ops = [vread()]
        for c, chem in enumerate(PKGS[0]):
            ops.append(['set', 0, 'mol', 0, chem, b[c]]); ops.append(['set', 0, 'mol', 1, chem, a[c]])
        ops.append(vread())
    ops.append(rng.choice([['set_total', 0, rng.choice([5, 6, 7]), float(rng.choice([1, 8, 4096]))], ['setF', 0, 'vol', 8.0]]))
    ops += [vread(), ['read', 0, 'vol']]
    return {'streams': [{'kind': 'M', 'pkg': pkg, 'phases': phases, 'T': T, 'P': P, 'flow': flow}, gen_stream(rng)], 'ops': ops}

def gen_adopt_case(rng):
    """single-phase streams whose views are already cached are adopted by MultiStream.from_streams (every stream but the
    first is re-bound to the first one's ThermalCondition object), then T / P change through either side and every view is
    read and written again"""
    pkg = rng.choice([0, 0, 1, 2])
    n = len(PKGS[pkg])
    def row():
        r = [float(rng.choice([0, 1, 2, F(1, 2), 3, 8])) for _ in range(n)]
        if pkg == 1: r[2] = 0.
        return r
    k = rng.choice([2, 2, 3])
    phases = rng.sample(['l', 'g', 's', 'L'], k)
    streams = [{'kind': 'S', 'pkg': pkg, 'phase': p, 'T': rng.choice(TS[:4]), 'P': rng.choice(PS[:3]), 'flow': row()} for p in phases]
    order = rng.sample(range(k), k)
    ops = []
    for x in rng.sample(range(k), rng.randint(1, k)):
        ops.append(rng.choice([['read', x, 'vol'], ['read', x, 'mass'], ['get_flow', x, rng.choice([5, 6, 7]), 0, rng.choice(PKGS[pkg][:2])],
                               ['F', x, 'vol']]))
    ops.append(['from_streams', order[0], order[1:]])
    who = lambda: rng.choice(list(range(k + 1)))
    for _ in range(rng.randint(1, 3)):
        ops.append(rng.choice([['T', who(), rng.choice(TS)], ['P', who(), rng.choice(PS)]]))
        x = who()
        ops.append(rng.choice([['read', x, 'vol'], ['F', x, 'vol'], ['get_flow', x, rng.choice([5, 6, 7]), rng.randrange(4), rng.choice(PKGS[pkg][:2])],
                               ['set', x, 'vol', rng.randrange(4), rng.choice(PKGS[pkg][:2]), float(rng.choice(VALS[1:7]))]]))
    ops += [['read', x, 'vol'] for x in range(k + 1)]
    return {'streams': streams, 'ops': ops}

def gen_package_case(rng):
    """the property package of a stream is changed (persistently, or reset and restored) after name-keyed accesses and
    volumetric totals were used: to a package with the same chemicals at other positions, or with other Chemical objects
    (other MW, other molar volume) at the same positions; then the same keys / totals are used again through every view"""
    a, b = rng.choice([(0, 1), (1, 0), (0, 2), (2, 0), (2, 1), (1, 2)])
    n = len(PKGS[a])
    def row():
        r = [float(rng.choice([0, 1, 2, F(1, 2), 3, 8])) for _ in range(n)]
        if a == 1: r[2] = 0.
        return r
    if rng.random() < 0.6:
        phases = sorted(rng.sample(['g', 'l', 's', 'L'], rng.choice([2, 3])))
        st = {'kind': 'M', 'pkg': a, 'phases': phases, 'T': rng.choice(TS[:4]), 'P': rng.choice(PS[:3]), 'flow': [row() for _ in phases]}
    else:
        st = {'kind': 'S', 'pkg': a, 'phase': rng.choice(['l', 'g', 's']), 'T': rng.choice(TS[:4]), 'P': rng.choice(PS[:3]), 'flow': row()}
    chem = lambda: rng.choice(['A_', 'B_', 'C_'])
    def touch():
        k = rng.random()
        if k < 0.3: return ['get_flow', 0, rng.randrange(8), rng.randrange(4), chem()]
        if k < 0.5: return ['set', 0, rng.choice(['mol', 'mass', 'vol']), rng.randrange(4), chem(), float(rng.choice(VALS[1:7]))]
        if k < 0.65: return ['set_flow', 0, rng.randrange(8), rng.randrange(4), chem(), float(rng.choice(VALS[1:7]))]
        if k < 0.85: return rng.choice([['F', 0, 'vol'], ['get_total', 0, rng.choice([5, 6, 7])]])
        return ['get_data', 0, rng.choice(['mol', 'mass', 'vol']), rng.randrange(8), rng.randrange(4), chem()]
    ops = [touch() for _ in range(rng.randint(1, 3))]
    ops.append(rng.choice([['thermo', 0, b], ['thermo', 0, b], ['rtrip', 0, b]]))
    ops += [touch() for _ in range(rng.randint(2, 4))]
    if rng.random() < 0.5:
        ops += [['set_total', 0, rng.choice([5, 6, 7]), float(rng.choice([1, 8, 4096]))], ['F', 0, 'vol'], ['thermo', 0, a], touch(), ['F', 0, 'vol']]
    return {'streams': [st, gen_stream(rng)], 'ops': ops}

def gen_sub_case(rng):
    """phase streams ms[phase] whose mass / volumetric views were used, then the MultiStream gets a new indexer (phases
    setter, package reset), becomes single-phase, is unlinked or has phases added by copy_like; then flows change through
    the MultiStream and through the phase streams and every view of every stream is read"""
    pkg = rng.choice([0, 0, 1, 2])
    n = len(PKGS[pkg])
    def row():
        r = [float(rng.choice([1, 2, F(1, 2), 3, 8])) for _ in range(n)]
        if pkg == 1: r[2] = 0.
        return r
    phases = sorted(rng.sample(['g', 'l', 's', 'L'], rng.choice([2, 2, 3])))
    streams = [{'kind': 'M', 'pkg': pkg, 'phases': phases, 'T': rng.choice(TS[:4]), 'P': rng.choice(PS[:3]), 'flow': [row() for _ in phases]},
               gen_stream(rng)]
    chem = lambda: rng.choice(PKGS[pkg][:2])
    ops = []
    kids = rng.sample(range(len(phases)), rng.randint(1, len(phases)))
    for r in kids:
        ops.append(['sub', 0, r])
    nk = len(kids)
    for c in range(nk):
        if rng.random() < 0.8:
            ops.append(rng.choice([['read', 2 + c, 'mass'], ['read', 2 + c, 'vol'], ['get_flow', 2 + c, rng.randrange(2, 8), 0, chem()],
                                   ['F', 2 + c, 'vol']]))
    others = [p for p in ['g', 'l', 's', 'L'] if p not in phases]
    grow = sorted(phases + rng.sample(others, rng.randint(1, len(others)))) if others else phases
    ops.append(rng.choice([['phases', 0, grow], ['phases', 0, grow], ['thermo', 0, rng.choice([x for x in range(3) if x != pkg])],
                           ['unlink', 0], ['phases', 0, sorted(rng.sample(['g', 'l', 's', 'L'], 2))], ['copy_like', 0, 1], ['sub', 0, 0]]))
    for _ in range(rng.randint(2, 4)):
        x = rng.choice([0] + [2 + c for c in range(nk)])
        ops.append(rng.choice([['set', x, rng.choice(['mol', 'mass', 'vol']), rng.randrange(4), chem(), float(rng.choice(VALS[1:7]))],
                               ['set_flow', x, rng.randrange(8), rng.randrange(4), chem(), float(rng.choice(VALS[1:7]))],
                               ['read', x, rng.choice(['mass', 'vol'])], ['sub', 0, rng.randrange(4)], ['F', x, 'vol']]))
    ops += [['read', x, 'mass'] for x in range(2 + nk)]
    return {'streams': streams, 'ops': ops}

def gen_resetflow_case(rng):
    """Stream.reset_flow with its rarely used arguments: a new phase together with flows and / or a total in molar, mass and
    volumetric units (the conversion must use the NEW phase), read back in the same unit"""
    streams = [gen_stream(rng), gen_stream(rng)]
    ops = []
    for _ in range(rng.randint(1, 3)):
        i = rng.randrange(2)
        if rng.random() < 0.5: ops.append(['read', i, rng.choice(['vol', 'mass'])])
        op = gen_reset_flow_op(rng, i)
        if rng.random() < 0.7: op[2] = rng.choice(['l', 'g', 's'])
        if rng.random() < 0.6: op[3] = rng.choice([5, 6, 7, 2, 3, 0])
        ops.append(op)
        ops.append(rng.choice([['read', i, 'vol'], ['F', i, 'vol'], ['get_total', i, rng.choice([5, 6, 7])], ['read', i, 'mol']]))
    return {'streams': streams, 'ops': ops}

def gen_resetflow_m_case(rng):
    """MultiStream.reset_flow on a MultiStream whose views (and the views of its phase streams ms[phase]) were used: the
    call empties the data, goes through the phases setter (new indexer when the phases change), writes the groups of
    flows in the given unit and the total; read back in the same unit through the MultiStream and the phase streams"""
    pkg = rng.choice([0, 0, 1, 2])
    n = len(PKGS[pkg])
    def row():
        r = [float(rng.choice([0, 1, 2, F(1, 2), 3, 8])) for _ in range(n)]
        if pkg == 1: r[2] = 0.
        return r
    phases = sorted(rng.sample(['g', 'l', 's', 'L'], rng.choice([2, 2, 3])))
    streams = [{'kind': 'M', 'pkg': pkg, 'phases': phases, 'T': rng.choice(TS[:4]), 'P': rng.choice(PS[:3]), 'flow': [row() for _ in phases]},
               gen_stream(rng)]
    ops = []
    nk = 0
    if rng.random() < 0.5:
        for r in rng.sample(range(len(phases)), rng.randint(1, len(phases))):
            ops.append(['sub', 0, r]); nk += 1
    who = lambda: rng.choice([0] + [2 + c for c in range(nk)])
    for _ in range(rng.randint(0, 2)):
        ops.append(rng.choice([['read', who(), 'vol'], ['read', who(), 'mass'], ['F', 0, 'vol'], ['get_total', 0, rng.choice([5, 6, 7])]]))
    for _ in range(rng.randint(1, 2)):
        op = gen_reset_flow_m_op(rng, 0)
        if rng.random() < 0.6: op[3] = rng.choice([5, 6, 7, 2, 3, 0])
        ops.append(op)
        x = who()
        ops.append(rng.choice([['read', x, 'vol'], ['F', x, 'vol'], ['get_total', 0, op[3]], ['read', 0, 'mass'],
                               ['get_flow', 0, op[3], rng.randrange(4), rng.choice(PKGS[pkg][:2])]]))
        if rng.random() < 0.4:
            ops.append(rng.choice([['T', 0, rng.choice(TS)], ['empty', who()], ['set', who(), 'vol', rng.randrange(4), rng.choice(PKGS[pkg][:2]), float(rng.choice(VALS[1:7]))]]))
    ops += [['read', x, 'vol'] for x in range(2 + nk)]
    return {'streams': streams, 'ops': ops}

def gen_xcopy_case(rng):
    """copy_like between streams of DIFFERENT property packages (other positions of the chemicals, other Chemical objects
    with the same CAS numbers, a chemical the receiver lacks -> UndefinedChemicalAlias after the receiver was emptied),
    single- and multi-phase on either side, with the receiver's mass / volumetric views cached before; afterwards every
    view is read and written through again"""
    a, b = rng.choice([(0, 1), (1, 0), (0, 2), (2, 0), (2, 1), (1, 2)])
    def row(pkg):
        r = [float(rng.choice([0, 1, 2, F(1, 2), 3, 8])) for _ in range(len(PKGS[pkg]))]
        if pkg == 1 and rng.random() < 0.7: r[2] = 0.       # D_ exists in package 1 only
        return r
    def st(pkg):
        T, P = rng.choice(TS[:4]), rng.choice(PS[:3])
        if rng.random() < 0.5:
            return {'kind': 'S', 'pkg': pkg, 'phase': rng.choice(['l', 'g', 's', 'L']), 'T': T, 'P': P, 'flow': row(pkg)}
        phases = sorted(rng.sample(['g', 'l', 's', 'L'], rng.choice([2, 2, 3])))
        return {'kind': 'M', 'pkg': pkg, 'phases': phases, 'T': T, 'P': P, 'flow': [row(pkg) for _ in phases]}
    streams = [st(a), st(b)]
    if streams[0]['kind'] == 'M' and streams[1]['kind'] == 'M' and rng.random() < 0.8:
        streams[1]['phases'] = list(streams[0]['phases']); streams[1]['flow'] = [row(b) for _ in streams[1]['phases']]
    if rng.random() < 0.3: streams.append(gen_stream(rng))
    chem = lambda: rng.choice(['A_', 'B_', 'C_'])
    def touch(i):
        k = rng.random()
        view = rng.choice(['vol', 'vol', 'mass'])
        if k < 0.4: return ['read', i, view]
        if k < 0.6: return ['set', i, view, rng.randrange(4), chem(), float(rng.choice(VALS[1:7]))]
        if k < 0.8: return ['get_flow', i, rng.choice([5, 6, 7, 2, 3]), rng.randrange(4), chem()]
        return rng.choice([['F', i, 'vol'], ['get_total', i, rng.choice([2, 5, 6])]])
    ops = [touch(x) for x in rng.sample([0, 1], rng.choice([0, 1, 2]))]
    ops.append(['copy_like', 0, 1])
    ops += [touch(0), touch(1), ['read', 0, 'mass']]
    if rng.random() < 0.5:
        ops += [rng.choice([['T', 1, rng.choice(TS)], ['set', 1, 'mol', rng.randrange(4), chem(), float(rng.choice(VALS[1:7]))]]),
                ['copy_like', 1, 0] if rng.random() < 0.5 else ['copy_like', 0, 1], touch(0), touch(1)]
    return {'streams': streams, 'ops': ops}

def gen_link_case(rng, flags):
    """partial/full link between two single-phase streams of one package that are in DIFFERENT phases, with view reads and
    writes on both sides in both orders around it (the cached views must follow the flags exactly)"""
    pkg = 0 if rng.random() < 0.7 else 1
    n = len(PKGS[pkg])
    def row():
        r = [float(rng.choice([1, 2, F(1, 2), 3, 8])) for _ in range(n)]
        if pkg == 1:
            r[2] = 0.
        return r
    p1, p2 = rng.sample(['l', 'g', 's', 'L'], 2)
    streams = [{'kind': 'S', 'pkg': pkg, 'phase': p, 'T': rng.choice(TS[:4]), 'P': rng.choice(PS[:3]), 'flow': row()}
               for p in (p1, p2)]
    if rng.random() < 0.3:
        streams.append(gen_stream(rng))
    a, b = rng.sample([0, 1], 2)
    def touch(i):
        k = rng.random()
        view = rng.choice(['vol', 'vol', 'mass'])
        if k < 0.5: return ['read', i, view]
        if k < 0.75: return ['set', i, view, 0, rng.choice(['A_', 'B_', 'C_']), float(rng.choice(VALS[1:]))]
        return ['get_flow', i, rng.choice([5, 6, 7, 2, 3]), 0, rng.choice(['A_', 'B_', 'C_'])]
    ops = []
    for i in rng.sample([a, b], rng.choice([0, 1, 2])):     # views cached before the link, on either / both sides
        ops.append(touch(i))
    ops.append(['link', a, b] + list(flags))
    first, second = rng.sample([a, b], 2)                    # after the link: both sides, both orders
    ops += [touch(first), touch(second), touch(first)]
    if rng.random() < 0.5:
        ops.append(rng.choice([['phase', first, rng.choice(['l', 'g', 's'])], ['T', second, rng.choice(TS)],
                               ['unlink', rng.choice([a, b])], ['link', b, a] + [rng.random() < 0.5 for _ in range(3)]]))
        ops += [touch(second), touch(first)]
    return {'streams': streams, 'ops': ops}

ALL_FLAGS = [[f, p, t] for f in (True, False) for p in (True, False) for t in (True, False)]

def gen_cases(rng, tier):
    n = 50 if tier == 'quick' else 2600
    m = 3 if tier == 'quick' else 75            # link scenarios per flag subset
    cases = []
    for _ in range(24 if tier == 'quick' else 400):
        cases.append(gen_prop_case(rng))
    for flags in ALL_FLAGS:
        for _ in range(m):
            cases.append(gen_link_case(rng, flags))
    for u in range(8):                          # every unit string x the three views (right and wrong dimension)
        for view in ('mol', 'mass', 'vol'):
            for _ in range(1 if tier == 'quick' else 6):
                cases.append(gen_units_case(rng, u, view))
    for _ in range(18 if tier == 'quick' else 300):
        cases.append(gen_viewcopy_case(rng))
    for _ in range(12 if tier == 'quick' else 200):
        cases.append(gen_memo_case(rng))
    for _ in range(12 if tier == 'quick' else 200):
        cases.append(gen_adopt_case(rng))
    for _ in range(18 if tier == 'quick' else 300):
        cases.append(gen_package_case(rng))
    for _ in range(20 if tier == 'quick' else 300):
        cases.append(gen_sub_case(rng))
    for _ in range(12 if tier == 'quick' else 200):
        cases.append(gen_resetflow_case(rng))
    for _ in range(14 if tier == 'quick' else 200):
        cases.append(gen_xcopy_case(rng))
    for _ in range(14 if tier == 'quick' else 200):
        cases.append(gen_resetflow_m_case(rng))
    for _ in range(n):
        streams = [gen_stream(rng) for _ in range(rng.choice([2, 2, 3]))]
        ops = [gen_op(rng) for _ in range(rng.randint(4, 16))]
        cases.append({'streams': streams, 'ops': ops, 'cold': rng.random() < 0.6})
    return cases

# ------------------------------------------------------------------ implementation side
def cold_units():
    """state of a new process: no unit string has been converted yet (every cache of conversion factors is empty)"""
    tmo = env()['tmo']
    from thermosteam.units_of_measure import AbsoluteUnitsOfMeasure
    for uo in list(AbsoluteUnitsOfMeasure._cache.values()):
        uo.factor_cache.clear()
    tmo.Stream._flow_cache.clear()

def build(case):
    e = env(); tmo = e['tmo']
    if case.get('cold'):
        cold_units()
    store = []
    for s in case['streams']:
        th = e['thermos'][s['pkg']]
        if s['kind'] == 'S':
            st = tmo.Stream(None, flow=s['flow'], phase=s['phase'], T=s['T'], P=s['P'], thermo=th)
        else:
            st = tmo.MultiStream(None, flow=[list(r) for r in s['flow']], phases=tuple(s['phases']), T=s['T'], P=s['P'], thermo=th)
        store.append(st)
    return store

def pkg_of(s):
    e = env()
    for k, th in enumerate(e['thermos']):
        if s._imol._chemicals is th.chemicals:
            return k
    raise RuntimeError('unknown package')

def is_multi(s):
    return s._imol.data.ndim == 2

def rows_of(data):
    """molar SparseVector objects of an indexer's data, in order"""
    return list(data.rows) if data.ndim == 2 else [data]

def dense(data):
    import numpy as np
    a = np.asarray(data.to_array(), float)
    if a.ndim == 1:
        a = a.reshape(1, -1)
    return [[fr_json(frac(x)) for x in r] for r in a]

def key_of(s, ph, chem):
    """(python key, row, column) for a chemical of the stream; row chosen among the stream's phases"""
    col = PKGS[pkg_of(s)].index(chem)
    if is_multi(s):
        phases = s._imol._phases
        r = ph % len(phases)
        return (phases[r], chem), r, col
    return chem, 0, col

def alias_flags(s):
    """id()-level structure of the views that the stream hands out now"""
    imol = s._imol
    mrows = rows_of(imol.data)
    mass = s.imass
    vrows = rows_of(mass.data)
    f_mass = len(vrows) == len(mrows) and all(v.dct.dct is m.dct for v, m in zip(vrows, mrows))
    f_mw = all(v.dct.MW is imol._chemicals.MW for v in vrows)
    vol = s.ivol
    wrows = rows_of(vol.data)
    f_vol = len(wrows) == len(mrows) and all(v.dct.dct is m.dct for v, m in zip(wrows, mrows))
    f_tp = all(v.dct.TP is s._thermal_condition for v in wrows)
    if is_multi(s):
        f_ph = len(wrows) == len(imol._phases) and all(v.dct.phase == p for v, p in zip(wrows, imol._phases))
        f_mph = tuple(mass._phases) == tuple(imol._phases) and tuple(vol._phases) == tuple(imol._phases)
    else:
        f_ph = all(v.dct.phase is None and v.dct.phase_container is imol._phase for v in wrows)
        f_mph = mass._phase is imol._phase and vol._phase is imol._phase
    f_v = all(all(a is b.V for a, b in zip(v.dct.V, imol._chemicals)) and len(v.dct.V) == imol._chemicals.size for v in wrows)
    return [bool(f_mass), bool(f_mw), bool(f_vol), bool(f_tp), bool(f_ph), bool(f_mph), bool(f_v)]

def nonempty_phases(s):
    if is_multi(s):
        return [p for p, r in zip(s._imol._phases, s._imol.data.rows) if r.any()]
    return [s.phase] if s._imol.data.any() else []

def is_locked(s):
    from thermosteam._phase import LockedPhase
    return (not is_multi(s)) and isinstance(s._imol._phase, LockedPhase)

def rounding_level_total(s, name):
    """the total is an exact cancellation that float rounding turned into a tiny non-zero number (negative test flows): the
    setters branch on `total != 0`, which is then decided by rounding, not by the modelled arithmetic"""
    import numpy as np
    try:
        F_ = float(getattr(s, 'F_' + name))
        comp = float(np.abs(np.asarray(getattr(s, 'i' + name).data.to_array(), float)).sum())
    except Exception:
        return False
    return F_ != 0. and abs(F_) < 1e-9 * comp

def apply_op(store, op):
    """Execute one raw op on the real objects.  Returns (resolved op, observation).  Raises what the code raises;
    the resolved op is attached to the exception as .resolved."""
    e = env(); tmo = e['tmo']
    k = op[0]
    n = len(store)
    i = op[1] % n
    s = store[i]
    res = None
    def run(f):
        try:
            return f()
        except Exception as ex:
            ex.resolved = res
            raise
    kids = getattr(s, '_streams', None) or {}
    if k == 'link' and kids:
        return ['skip'], None               # re-binding the data of a MultiStream that owns phase streams: C12/C13's domain
    if k == 'thermo' and any(is_multi(c) for c in kids.values()):
        return ['skip'], None               # _reset_thermo gives a multi-phase child a single-phase indexer: C12's domain
    if is_locked(s):
        if (k == 'copy_like' and op[2] % n != i) or (k == 'phases' and len(set(op[2])) == 1 and list(set(op[2]))[0] != s.phase) \
                or (k == 'reset_flow' and op[2] and op[2] != s.phase):
            return ['skip'], None           # raises half-way (LockedPhase) after the data was touched
    if k == 'sub':
        if not is_multi(s):
            return ['skip'], None
        phases = s._imol._phases
        r = op[2] % len(phases)
        res = ['sub', i, r]
        def f():
            child = s[phases[r]]
            if not any(child is x for x in store):
                store.append(child)
        return res, run(f)
    if k == 'reset_flow':
        if is_multi(s):
            return ['skip'], None
        cols = [[PKGS[pkg_of(s)].index(c), v] for c, v in op[5]]
        res = ['reset_flow', i, op[2], op[3], op[4], cols]
        return res, run(lambda: s.reset_flow(phase=op[2], units=None if op[3] is None else UNITS[op[3]], total_flow=op[4],
                                             **{c: v for c, v in op[5]}))
    if k == 'empty':
        res = ['empty', i]
        return res, run(lambda: s.empty())
    if k == 'reset_flow_m':
        if not is_multi(s):
            return ['skip'], None
        labels = [p for p, _ in op[5]]
        eff = set(op[4]) if op[4] is not None else set(labels) | {'l', 'g'}
        if len(eff) < 2 or len(set(labels)) != len(labels):
            return ['skip'], None           # the stream would become single-phase half-way: C12's domain
        if op[3] >= 8 and any(p not in eff for p in labels):
            return ['skip'], None           # a wrong-dimension unit AND a phase label outside the phases asked for: which of the two
                                            # errors wins depends on the order of checks inside set_flow, which the model does not fix
        pf = [[p, [[PKGS[pkg_of(s)].index(c), v] for c, v in fl]] for p, fl in op[5]]
        res = ['reset_flow_m', i, op[2], op[3], None if op[4] is None else list(op[4]), pf]
        return res, run(lambda: s.reset_flow(total_flow=op[2], units=UNITS[op[3]], phases=None if op[4] is None else tuple(op[4]),
                                             **{p: [(c, v) for c, v in fl] for p, fl in op[5]}))
    if k == 'from_streams':
        idx = [i] + [j % n for j in op[2]]
        ss = [store[x] for x in idx]
        if any(is_multi(x) for x in ss) or len({pkg_of(x) for x in ss}) != 1:
            return ['skip'], None
        res = ['from_streams', i, idx[1:]]
        def f():
            store.append(tmo.MultiStream.from_streams(ss))
        return res, run(f)
    if k == 'read':
        res = ['read', i, op[2]]
        return res, run(lambda: dense({'mol': lambda: s.imol, 'mass': lambda: s.imass, 'vol': lambda: s.ivol}[op[2]]().data))
    if k == 'F':
        res = ['F', i, op[2]]
        return res, run(lambda: [[fr_json(frac(getattr(s, 'F_' + op[2])))]])
    if k == 'alias':
        res = ['alias', i]
        return res, run(lambda: alias_flags(s))
    if k in ('get_flow', 'set_flow'):
        key, r, c = key_of(s, op[3], op[4])
        u = op[2]
        if k == 'get_flow':
            res = ['get_flow', i, u, r, c]
            return res, run(lambda: [[fr_json(frac(s.get_flow(UNITS[u], key)))]])
        res = ['set_flow', i, u, r, c, op[5]]
        return res, run(lambda: s.set_flow(op[5], UNITS[u], key))
    if k == 'get_total':
        res = ['get_total', i, op[2]]
        return res, run(lambda: [[fr_json(frac(s.get_total_flow(UNITS[op[2]])))]])
    if k == 'set_total':
        nm = e['utab'][op[2]][0]
        if nm in ('mol', 'mass', 'vol') and rounding_level_total(s, nm):
            return ['skip'], None
        res = ['set_total', i, op[2], op[3]]
        return res, run(lambda: s.set_total_flow(op[3], UNITS[op[2]]))
    if k == 'set':
        key, r, c = key_of(s, op[3], op[4])
        res = ['set', i, op[2], r, c, op[5]]
        def f():
            getattr(s, 'i' + op[2])[key] = op[5]
        return res, run(f)
    if k == 'get_prop':
        res = ['get_prop', i, op[2], op[3]]
        return res, run(lambda: [[fr_json(frac(s.get_property('F_' + op[2], UNITS[op[3]])))]])
    if k == 'set_prop':
        if rounding_level_total(s, op[2]):
            return ['skip'], None
        res = ['set_prop', i, op[2], op[3], op[4]]
        return res, run(lambda: s.set_property('F_' + op[2], op[4], UNITS[op[3]]))
    if k == 'setF':
        if rounding_level_total(s, op[2]):
            return ['skip'], None
        res = ['setF', i, op[2], op[3]]
        return res, run(lambda: setattr(s, 'F_' + op[2], op[3]))
    if k in ('T', 'P'):
        res = [k, i, op[2]]
        return res, run(lambda: setattr(s, k, op[2]))
    if k == 'phase':
        res = ['phase', i, op[2]]
        return res, run(lambda: setattr(s, 'phase', op[2]))
    if k == 'phases':
        phs = list(op[2])
        keep = nonempty_phases(s)
        if any(p not in phs for p in keep):
            return ['skip'], None           # would drop or relabel material: C12's domain
        res = ['phases', i, phs]
        return res, run(lambda: setattr(s, 'phases', tuple(phs)))
    if k == 'link':
        j = op[2] % n
        o = store[j]
        if pkg_of(s) != pkg_of(o) or i == j:
            return ['skip'], None
        if is_multi(s) and is_multi(o) and op[3] and tuple(s._imol._phases) != tuple(o._imol._phases):
            return ['skip'], None           # flow link between different phase tuples: C13's domain
        res = ['link', i, j, op[3], op[4], op[5]]
        return res, run(lambda: s.link_with(o, op[3], op[4], op[5]))
    if k == 'unlink':
        res = ['unlink', i]
        return res, run(lambda: s.unlink())
    if k == 'copy_like':
        j = op[2] % n
        o = store[j]
        if is_multi(o) and is_multi(s) and set(s._imol._phases) != set(o._imol._phases):
            return ['skip'], None           # positional copy after expansion: C13's domain
        if is_multi(s) and not is_multi(o) and o.phase not in s._imol._phase_indexer \
                and any(x is not s and x._imol.data is s._imol.data for x in store):
            return ['skip'], None           # expanding the phases of a linked MultiStream: C13's domain
        res = ['copy_like', i, j]
        return res, run(lambda: s.copy_like(o))
    if k == 'thermo':
        res = ['thermo', i, op[2]]
        return res, run(lambda: s._reset_thermo(e['thermos'][op[2]]))
    if k in ('get_data', 'set_data'):
        key, r, c = key_of(s, op[4], op[5])
        ind = lambda: getattr(s, 'i' + op[2])
        if k == 'get_data':
            res = ['get_data', i, op[2], op[3], r, c]
            return res, run(lambda: [[fr_json(frac(ind().get_data(UNITS[op[3]], key)))]])
        res = ['set_data', i, op[2], op[3], r, c, op[6]]
        return res, run(lambda: ind().set_data(op[6], UNITS[op[3]], key))
    if k == 'assign':
        j = op[2] % n
        o = store[j]
        if i == j or is_multi(s) or is_multi(o) or pkg_of(s) != pkg_of(o):
            return ['skip'], None
        res = ['assign', i, j, op[3]]
        return res, run(lambda: setattr(s, op[3], getattr(o, op[3])))
    if k == 'copy_row':
        if not is_multi(s):
            return ['skip'], None
        phases = s._imol._phases
        r1, r2 = op[3] % len(phases), op[4] % len(phases)
        res = ['copy_row', i, op[2], r1, r2]
        def f():
            getattr(s, 'i' + op[2])[phases[r1]] = getattr(s, 'i' + op[2])[phases[r2]]
        return res, run(f)
    if k == 'rtrip':
        # what Reaction.__call__ does around a stream of another package: reset_chemicals(new) ... reset_chemicals(old, container)
        res = ['rtrip', i, op[2]]
        def f():
            old = s._imol._chemicals
            new = e['thermos'][op[2]].chemicals
            if new is old:
                return
            container = s._imol.reset_chemicals(new)
            s._imol.reset_chemicals(old, container)
        return res, run(f)
    raise ValueError(k)

def snapshot(s):
    """final observation of one stream (reads every view; executed on the model as the same reads)"""
    out = {}
    out['multi'] = is_multi(s)
    out['pkg'] = pkg_of(s)
    out['phases'] = [PH[p] for p in (s._imol._phases if is_multi(s) else [s.phase])]
    out['T'] = fr_json(frac(s.T)); out['P'] = fr_json(frac(s.P))
    for name, f in (('mol', lambda: dense(s.imol.data)), ('mass', lambda: dense(s.imass.data)), ('vol', lambda: dense(s.ivol.data)),
                    ('F_mol', lambda: fr_json(frac(s.F_mol))), ('F_mass', lambda: fr_json(frac(s.F_mass))),
                    ('F_vol', lambda: fr_json(frac(s.F_vol))), ('alias', lambda: alias_flags(s))):
        try:
            out[name] = f()
        except Exception as ex:
            out[name] = 'ERR:' + err_of(ex)
    return out

def run_impl(case):
    store = build(case)
    out = {'ops': [], 'obs': []}
    for op in case['ops']:
        try:
            res, obs = apply_op(store, op)
            out['ops'].append(res)
            out['obs'].append(obs)
        except Exception as ex:
            res = getattr(ex, 'resolved', None)
            if res is None:
                raise
            out['ops'].append(res)
            out['obs'].append('ERR:' + err_of(ex))
            out.setdefault('errors', []).append(type(ex).__name__)
    out['final'] = [snapshot(s) for s in store]
    return out

# ------------------------------------------------------------------ model side
VIEW = {'mol': 'VMol', 'mass': 'VMass', 'vol': 'VVol'}
def cph(p):
    return {'g': 'Pg', 'l': 'Pl', 's': 'Ps', 'L': 'PL', 'S': 'PS', 1: 'Pg', 2: 'Pl', 3: 'Ps', 4: 'PL', 5: 'PS'}[p]

def cop(o):
    k = o[0]
    if k == 'get_prop': return f'(XGetProp {cnat(o[1])} {VIEW[o[2]]} {cnat(o[3])})'
    if k == 'set_prop': return f'(XSetProp {cnat(o[1])} {VIEW[o[2]]} {cnat(o[3])} {q(o[4])})'
    return f'(XBase {cop0(o)})'

def cop0(o):
    k = o[0]
    if k == 'skip': return 'OSkip'
    if k == 'read': return f'(ORead {cnat(o[1])} {VIEW[o[2]]})'
    if k == 'F': return f'(OTotal {cnat(o[1])} {VIEW[o[2]]})'
    if k == 'alias': return f'(OAlias {cnat(o[1])})'
    if k == 'get_flow': return f'(OGetFlow {cnat(o[1])} {cnat(o[2])} {cnat(o[3])} {cnat(o[4])})'
    if k == 'set_flow': return f'(OSetFlow {cnat(o[1])} {cnat(o[2])} {cnat(o[3])} {cnat(o[4])} {q(o[5])})'
    if k == 'get_total': return f'(OGetTotal {cnat(o[1])} {cnat(o[2])})'
    if k == 'set_total': return f'(OSetTotal {cnat(o[1])} {cnat(o[2])} {q(o[3])})'
    if k == 'set': return f'(OSet {cnat(o[1])} {VIEW[o[2]]} {cnat(o[3])} {cnat(o[4])} {q(o[5])})'
    if k == 'setF': return f'(OSetF {cnat(o[1])} {VIEW[o[2]]} {q(o[3])})'
    if k == 'T': return f'(OSetT {cnat(o[1])} {q(o[2])})'
    if k == 'P': return f'(OSetP {cnat(o[1])} {q(o[2])})'
    if k == 'phase': return f'(OPhase {cnat(o[1])} {cph(o[2])})'
    if k == 'phases': return f'(OPhases {cnat(o[1])} {clist(o[2], cph)})'
    if k == 'link': return f'(OLink {cnat(o[1])} {cnat(o[2])} {cbool(o[3])} {cbool(o[4])} {cbool(o[5])})'
    if k == 'unlink': return f'(OUnlink {cnat(o[1])})'
    if k == 'copy_like': return f'(OCopyLike {cnat(o[1])} {cnat(o[2])})'
    if k == 'thermo': return f'(OThermo {cnat(o[1])} {cnat(o[2])})'
    if k == 'rtrip': return f'(ORoundTrip {cnat(o[1])} {cnat(o[2])})'
    if k == 'get_data': return f'(OGetData {cnat(o[1])} {VIEW[o[2]]} {cnat(o[3])} {cnat(o[4])} {cnat(o[5])})'
    if k == 'set_data': return f'(OSetData {cnat(o[1])} {VIEW[o[2]]} {cnat(o[3])} {cnat(o[4])} {cnat(o[5])} {q(o[6])})'
    if k == 'assign': return f'(OAssignView {cnat(o[1])} {cnat(o[2])} {VIEW[o[3]]})'
    if k == 'copy_row': return f'(OCopyRow {cnat(o[1])} {VIEW[o[2]]} {cnat(o[3])} {cnat(o[4])})'
    if k == 'from_streams': return f'(OFromStreams {clist([o[1]] + list(o[2]), cnat)})'
    if k == 'sub': return f'(OSub {cnat(o[1])} {cnat(o[2])})'
    if k == 'empty': return f'(OEmpty {cnat(o[1])})'
    if k == 'reset_flow_m':
        one = lambda cv: f'({cnat(cv[0])}, {q(cv[1])})'
        pf = clist(o[5], lambda g: f'({cph(g[0])}, {clist(g[1], one)})')
        return f'(OResetFlowM {cnat(o[1])} {copt(o[2], q)} {cnat(o[3])} {copt(o[4], lambda l: clist(l, cph))} {pf})'
    if k == 'reset_flow':
        fl = clist(o[5], lambda cv: f'({cnat(cv[0])}, {q(cv[1])})')
        return f'(OResetFlow {cnat(o[1])} {copt(o[2], cph)} {copt(o[3], cnat)} {copt(o[4], q)} {fl})'
    raise ValueError(k)

def cmat(m):
    return clist([qlist([F(x) for x in r]) for r in m])

def cobs(o):
    """expected observation of one op"""
    if o is None: return 'XNone'
    if isinstance(o, str): return f'(XErr {o[4:]})'
    if o and isinstance(o[0], bool): return f'(XFlags {clist(o, cbool)})'
    return f'(XMat {cmat(o)})'

def cfield(x, f):
    if isinstance(x, str) and x.startswith('ERR:'):
        return f'(Err {x[4:]})'
    return f'(Ok {f(x)})'

def cfinal(s):
    return ('(mkfin ' + cbool(s['multi']) + ' ' + cnat(s['pkg']) + ' ' + clist(s['phases'], cph) + ' ' + q(F(s['T'])) + ' ' + q(F(s['P']))
            + ' ' + cfield(s['mol'], cmat) + ' ' + cfield(s['mass'], cmat) + ' ' + cfield(s['vol'], cmat)
            + ' ' + cfield(s['F_mol'], lambda x: q(F(x))) + ' ' + cfield(s['F_mass'], lambda x: q(F(x)))
            + ' ' + cfield(s['F_vol'], lambda x: q(F(x))) + ' ' + cfield(s['alias'], lambda x: clist(x, cbool)) + ')')

def cinit(s):
    if s['kind'] == 'S':
        return f'(IS {cnat(s["pkg"])} {cph(s["phase"])} {q(s["T"])} {q(s["P"])} {qlist(s["flow"])})'
    return f'(IM {cnat(s["pkg"])} {clist(s["phases"], cph)} {q(s["T"])} {q(s["P"])} {clist(s["flow"], qlist)})'

def cutab():
    tab = env()['utab']
    def one(t):
        name, f = t
        if f is None: return 'None'
        return f'(Some ({VIEW[name]}, {q(f)}))'
    return clist(tab, one)

def coq_case(case, out):
    return (f'(check_caseX {cutab()} {clist(case["streams"], cinit)} {clist(out["ops"], cop)} '
            f'{clist(out["obs"], cobs)} {clist(out["final"], cfinal)})')

def coq_show(case, out):
    return f'(show_caseX {cutab()} {clist(case["streams"], cinit)} {clist(out["ops"], cop)})'

STRUCT = ('T', 'P', 'phase', 'phases', 'link', 'unlink', 'copy_like', 'thermo', 'rtrip', 'from_streams', 'sub', 'reset_flow', 'reset_flow_m')
WRITES = ('set', 'set_flow', 'set_total', 'setF', 'set_prop', 'set_data', 'assign', 'copy_row', 'reset_flow', 'reset_flow_m', 'empty')
def nontrivial(case, out):
    ok = [o[0] for o, b in zip(out.get('ops', []), out.get('obs', [])) if not (isinstance(b, str))]
    return any(k in STRUCT for k in ok) and any(k in WRITES for k in ok)

def classify(case, out):
    ks = []
    for o, b in zip(out.get('ops', []), out.get('obs', [])):
        ks.append(f'op:{o[0]}:{"raise" if isinstance(b, str) else "ok"}')
    for e_ in out.get('errors', []):
        ks.append('error:' + e_)
    ks.append('streams:' + ''.join(s['kind'] for s in case['streams']))
    return ks

# ------------------------------------------------------------------ direct oracle
def close(a, b, tol=1e-9):
    return abs(a - b) <= tol * max(1., abs(a), abs(b))

def check_stream(s, where):
    """The C11 relations evaluated on one real stream.  Returns a message or None."""
    import numpy as np
    imol = s._imol
    chems = imol._chemicals
    ids = [c.ID for c in chems]
    mol = np.asarray(imol.data.to_array(), float)
    if mol.ndim == 1: mol = mol.reshape(1, -1)
    if mol.shape[1] != len(ids):
        return f'{where}: molar data has {mol.shape[1]} columns but the stream has {len(ids)} chemicals'
    phases = list(imol._phases) if is_multi(s) else [s.phase]
    if len(phases) != mol.shape[0]:
        return f'{where}: {len(phases)} phases but {mol.shape[0]} molar rows'
    try:
        mass = np.asarray(s.imass.data.to_array(), float).reshape(-1, len(ids))
        vol = np.asarray(s.ivol.data.to_array(), float).reshape(-1, len(ids))
    except Exception as ex:
        return f'{where}: reading a view raised {type(ex).__name__}: {ex}'
    if mass.shape != mol.shape: return f'{where}: mass view has shape {mass.shape}, molar data {mol.shape}'
    if vol.shape != mol.shape: return f'{where}: vol view has shape {vol.shape}, molar data {mol.shape}'
    T, P = s.T, s.P
    gids = PKG_GIDS[pkg_of(s)]
    for r, ph in enumerate(phases):
        for c, cid in enumerate(ids):
            gid = gids[c]
            key = (ph, cid) if is_multi(s) else cid
            for vname, arr in (('mol', mol), ('mass', mass), ('vol', vol)):
                try:
                    got = getattr(s, 'i' + vname)[key]
                except Exception as ex:
                    return f'{where}: i{vname}[{key}] raised {type(ex).__name__}: {ex}'
                if not close(got, arr[r, c]):
                    return f'{where}: name-keyed access i{vname}[{key}] = {got} but the {vname} data at that phase and chemical is {arr[r, c]}'
            if not close(mass[r, c], mol[r, c] * MWS[gid]):
                return f'{where}: mass[{ph},{cid}] = {mass[r, c]} but mol*MW = {mol[r, c] * MWS[gid]}'
            want = mol[r, c] * 1000. * vstub(gid, ph.lower(), T, P)
            if not close(vol[r, c], want):
                return f'{where}: vol[{ph},{cid}] = {vol[r, c]} but mol*1000*V({ph},{T},{P}) = {want}'
    if not close(s.F_mol, mol.sum()): return f'{where}: F_mol {s.F_mol} != sum mol {mol.sum()}'
    if not close(s.F_mass, mass.sum()): return f'{where}: F_mass {s.F_mass} != sum mass {mass.sum()}'
    try:
        fv = s.F_vol
    except Exception as ex:
        return f'{where}: F_vol raised {type(ex).__name__}'
    if (mol >= 0).all() and not close(fv, vol.sum()): return f'{where}: F_vol {fv} != sum vol {vol.sum()}'
    fl = alias_flags(s)
    if not all(fl): return f'{where}: cached views do not wrap the current molar data/TP/phase: flags {fl}'
    return None

# fixed conversion factors (base unit of the view per 1 unit), independent of thermosteam and pint
TOBASE = [1., 3.6, 1., 0.45359237, 0.06, 1., 0.06, 60. * 3.785411784e-3, None, None, None]
UDIM = ['mol', 'mol', 'mass', 'mass', 'mass', 'vol', 'vol', 'vol', None, None, None]
BASEU = {'mol': 'kmol/hr', 'mass': 'kg/hr', 'vol': 'm3/hr'}

def oracle(case):
    e = env(); tmo = e['tmo']
    import numpy as np
    store = build(case)
    for n, op in enumerate(case['ops']):
        k = op[0]
        s = store[op[1] % len(store)]
        where = f'op#{n} {k}'
        before = None
        if k in ('set_total', 'setF', 'set_prop'):
            d = np.asarray(s._imol.data.to_array(), float).reshape(-1)
            before = d / d.sum() if d.sum() else None
        want = None
        lacks = False
        if k == 'copy_like':    # the source holds a chemical (by CAS) that the receiver's package lacks: copy_like must refuse
            o_ = store[op[2] % len(store)]
            d_ = np.asarray(o_._imol.data.to_array(), float).reshape(-1, o_._imol._chemicals.size)
            lacks = any(d_[:, c_].any() and ch_.CAS not in s._imol._chemicals._index for c_, ch_ in enumerate(o_._imol._chemicals))
        try:            # the value about to be written through a view, when it is itself a view
            if k == 'assign':
                o = store[op[2] % len(store)]
                if not (s is o or is_multi(s) or is_multi(o) or pkg_of(s) != pkg_of(o) or s._imol.data.dct is o._imol.data.dct):
                    want = np.asarray(getattr(o, op[3]).to_array(), float).copy()
            if k == 'copy_row' and is_multi(s):
                phs_ = s._imol._phases
                if op[3] % len(phs_) != op[4] % len(phs_):
                    want = np.asarray(getattr(s, 'i' + op[2])[phs_[op[4] % len(phs_)]].to_array(), float).copy()
        except Exception as ex:
            return f'{where}: reading the source view raised {type(ex).__name__}: {ex}'
        try:
            res, obs = apply_op(store, op)
        except Exception as ex:
            if getattr(ex, 'resolved', None) is None:
                raise
            res = ex.resolved
            if k in ('get_flow', 'set_flow', 'get_total', 'set_total'):
                dim_ok = e['utab'][op[2]][1] is not None
                if not dim_ok and type(ex).__name__ != 'DimensionError':
                    return f'{where}: wrong-dimension unit {UNITS[op[2]]} raised {type(ex).__name__}, not DimensionError'
                if dim_ok and type(ex).__name__ == 'DimensionError':
                    return f'{where}: unit {UNITS[op[2]]} rejected'
            if k in ('get_prop', 'set_prop'):
                dim_ok = UDIM[op[3]] == op[2]
                if not dim_ok and type(ex).__name__ != 'DimensionalityError':
                    return f'{where}: wrong-dimension unit {UNITS[op[3]]} for F_{op[2]} raised {type(ex).__name__}, not DimensionalityError'
                if dim_ok and (k == 'get_prop' or type(ex).__name__ in ('DimensionalityError', 'DimensionError')):
                    return f'{where}: {k}(F_{op[2]}, {UNITS[op[3]]}) raised {type(ex).__name__}: {ex}'
            if k in ('get_data', 'set_data'):
                dim_ok = e['utab'][op[3]][0] == op[2]
                if dim_ok:
                    return f'{where}: i{op[2]}.{k} in {UNITS[op[3]]} raised {type(ex).__name__}: {ex}'
                if type(ex).__name__ != 'DimensionalityError':
                    return f'{where}: wrong-dimension unit {UNITS[op[3]]} for i{op[2]} raised {type(ex).__name__}, not DimensionalityError'
            if k == 'empty':
                return f'{where}: raised {type(ex).__name__}: {ex}'
            if k == 'reset_flow_m':
                nm = type(ex).__name__
                eff_ = set(op[4]) if op[4] is not None else {p for p, _ in op[5]} | {'l', 'g'}
                legit = (nm == 'DimensionError' and e['utab'][op[3]][1] is None and (op[5] or op[2])) \
                    or (nm == 'UndefinedPhase' and any(p not in eff_ and p.swapcase() not in eff_ for p, _ in op[5])) \
                    or (nm == 'AttributeError' and op[2] and not op[5])
                if not legit:
                    return f'{where}: MultiStream.reset_flow raised {nm}: {ex}'
            if k in ('assign', 'copy_row', 'sub') or (k == 'from_streams' and type(ex).__name__ != 'ValueError'):
                return f'{where}: raised {type(ex).__name__}: {ex}'
            if k in ('read', 'F', 'alias', 'get_flow', 'get_total'):
                if not (k in ('get_flow', 'get_total') and e['utab'][op[2]][1] is None):
                    return f'{where}: reading raised {type(ex).__name__}: {ex}'
            if k in ('unlink', 'copy_like', 'phases', 'phase', 'thermo', 'rtrip') and 'locked' not in str(ex) \
                    and not (k == 'copy_like' and type(ex).__name__ == 'UndefinedChemicalAlias' and lacks):
                return f'{where}: raised {type(ex).__name__}: {ex}'
            res = None
        if res is not None and res[0] != 'skip':
            s = store[res[1]]
            if k in ('get_flow', 'set_flow', 'get_total', 'set_total') and e['utab'][op[2]][1] is None:
                return f'{where}: wrong-dimension unit {UNITS[op[2]]} was accepted'
            if k in ('get_prop', 'set_prop'):
                vw, u_ = op[2], op[3]
                if UDIM[u_] != vw:
                    return f'{where}: dimensionally inconsistent unit {UNITS[u_]} was accepted by {k}(F_{vw})'
                Fb = float(getattr(s, 'F_' + vw))
                if k == 'get_prop':
                    got = float(F(obs[0][0]))
                    if not close(got, Fb / TOBASE[u_]):
                        return (f'{where}: get_property(F_{vw}, {UNITS[u_]}) = {got} but F_{vw} = {Fb} {BASEU[vw]} '
                                f'and the fixed factor gives {Fb / TOBASE[u_]} {UNITS[u_]}')
                else:
                    want_b = op[4] * TOBASE[u_]
                    if not close(Fb, want_b):
                        return (f'{where}: set_property(F_{vw}, {op[4]}, {UNITS[u_]}) left F_{vw} = {Fb} {BASEU[vw]}; the fixed factor '
                                f'of {UNITS[u_]} says {want_b} {BASEU[vw]}')
                    for u2 in OWN_UNITS[vw]:
                        for how, f_ in (('get_property', lambda: s.get_property('F_' + vw, UNITS[u2])),
                                        ('get_total_flow', lambda: s.get_total_flow(UNITS[u2]))):
                            got = float(f_())
                            if not close(got, want_b / TOBASE[u2]):
                                return (f'{where}: wrote F_{vw} = {op[4]} {UNITS[u_]} with set_property; {how}({UNITS[u2]}) returns {got}, '
                                        f'the fixed factors say {want_b / TOBASE[u2]}')
            if k in ('get_data', 'set_data'):
                name, fac = e['utab'][op[3]]
                if name != op[2]:
                    return f'{where}: dimensionally inconsistent unit {UNITS[op[3]]} was accepted by i{op[2]}.{k}'
                key, r, c = key_of(s, op[4], op[5])
                got = getattr(s, 'i' + op[2]).get_data(UNITS[op[3]], key)
                if k == 'set_data':
                    if not close(got, op[6]): return f'{where}: i{op[2]}.set_data({op[6]}, {UNITS[op[3]]}), get_data gives {got}'
                elif not close(got, float(fac) * getattr(s, 'i' + op[2])[key]):
                    return f'{where}: i{op[2]}.get_data({UNITS[op[3]]}) = {got}, factor * view = {float(fac) * getattr(s, "i" + op[2])[key]}'
            if k == 'reset_flow':
                if op[2] and s.phase != op[2]: return f'{where}: reset_flow(phase={op[2]!r}) left the stream in phase {s.phase!r}'
                uname = 'kmol/hr' if op[3] is None else UNITS[op[3]]
                vals = {c: v for c, v in op[5]}
                if vals and not op[4]:
                    for c_, v_ in vals.items():
                        got = s.get_flow(uname, c_)
                        if not close(got, v_): return f'{where}: reset_flow wrote {v_} {uname} of {c_} (phase={op[2]!r}), get_flow gives {got}'
                if op[4]:
                    got = s.get_total_flow(uname)
                    if not close(got, op[4]): return f'{where}: reset_flow(total_flow={op[4]} {uname}, phase={op[2]!r}), get_total_flow gives {got}'
                    tot_ = sum(vals.values())
                    if vals and tot_:
                        for c_, v_ in vals.items():
                            got = s.get_flow(uname, c_)
                            if not close(got, op[4] * v_ / tot_):
                                return f'{where}: reset_flow: composition written in {uname} not kept: {c_} is {got}, expected {op[4] * v_ / tot_}'
            if k == 'empty' and np.asarray(s._imol.data.to_array(), float).any():
                return f'{where}: empty() left flows behind'
            if k == 'reset_flow_m':
                uname = UNITS[op[3]]
                if e['utab'][op[3]][1] is None and (op[5] or op[2]):
                    return f'{where}: wrong-dimension unit {uname} was accepted by MultiStream.reset_flow'
                want_ph = set(op[4]) if op[4] is not None else {p for p, _ in op[5]} | {'l', 'g'}
                if set(s.phases) != want_ph: return f'{where}: MultiStream.reset_flow(phases={op[4]}) left the phases {s.phases}'
                vals = {(p, c_): v_ for p, fl in op[5] for c_, v_ in fl}
                if any(p not in s.phases for p, _ in op[5]):
                    vals = {}       # a label answered by its other case: two groups may share one row, no per-flow read-back
                if vals and not op[2]:
                    for (p, c_), v_ in vals.items():
                        got = s.get_flow(uname, (p, c_))
                        if not close(got, v_): return f'{where}: MultiStream.reset_flow wrote {v_} {uname} of {c_} in phase {p!r}, get_flow gives {got}'
                if op[2]:
                    got = s.get_total_flow(uname)
                    if not close(got, op[2]): return f'{where}: MultiStream.reset_flow(total_flow={op[2]} {uname}), get_total_flow gives {got}'
                    tot_ = sum(vals.values())
                    for (p, c_), v_ in vals.items():
                        got = s.get_flow(uname, (p, c_))
                        if not close(got, op[2] * v_ / tot_):
                            return f'{where}: MultiStream.reset_flow: composition written in {uname} not kept: ({p},{c_}) is {got}, expected {op[2] * v_ / tot_}'
            if k == 'assign' and want is not None:
                got = np.asarray(getattr(s, op[3]).to_array(), float)
                if not all(close(a, b) for a, b in zip(got, want)):
                    return f'{where}: wrote {want.tolist()} through {op[3]} (another stream\'s {op[3]} view), read back {got.tolist()}'
            if k == 'copy_row' and want is not None:
                got = np.asarray(getattr(s, 'i' + op[2])[s._imol._phases[res[3]]].to_array(), float)
                if not all(close(a, b) for a, b in zip(got, want)):
                    return f'{where}: wrote {want.tolist()} to i{op[2]}[{s._imol._phases[res[3]]}] (a row of the same view), read back {got.tolist()}'
            if k == 'set' and op[5] != 0:
                key, r, c = key_of(s, op[3], op[4])
                got = getattr(s, 'i' + op[2])[key]
                if not close(got, op[5]): return f'{where}: wrote {op[5]} to i{op[2]}[{key}], read back {got}'
            if k == 'set_flow':
                key, r, c = key_of(s, op[3], op[4])
                got = s.get_flow(UNITS[op[2]], key)
                if not close(got, op[5]): return f'{where}: set_flow {op[5]} {UNITS[op[2]]}, get_flow gives {got}'
                name, fac = e['utab'][op[2]]
                for u2, (n2, f2) in enumerate(e['utab']):
                    if n2 == name and f2 is not None:
                        got2 = s.get_flow(UNITS[u2], key)
                        if not close(got2, op[5] * float(f2 / fac)):
                            return f'{where}: {op[5]} {UNITS[op[2]]} read in {UNITS[u2]} gives {got2}, factor says {op[5] * float(f2 / fac)}'
            if k == 'set_total':
                got = s.get_total_flow(UNITS[op[2]])
                if not close(got, op[3]): return f'{where}: set_total_flow {op[3]}, get_total_flow gives {got}'
            if k == 'setF':
                got = getattr(s, 'F_' + op[2])
                if not close(got, op[3]): return f'{where}: F_{op[2]} = {op[3]}, read back {got}'
            if k in ('set_total', 'setF', 'set_prop') and before is not None:
                d = np.asarray(s._imol.data.to_array(), float).reshape(-1)
                if d.sum() and not all(close(a, b) for a, b in zip(before, d / d.sum())):
                    return f'{where}: composition changed'
        for m, st in enumerate(store):
            msg = check_stream(st, f'{where} stream {m}')
            if msg: return msg
    return None

def finding_key(case, msg):
    import re
    m = re.search(r'op#\d+ (\w+)', msg)
    what = 'reset_flow' if 'reset_flow' in msg else 'keyed' if 'name-keyed' in msg else 'units' if 'dimension' in msg else 'viewcopy' if 'read back' in msg and 'view' in msg else 'totals' if 'F_vol' in msg or 'F_mass' in msg else 'alias' if 'cached views' in msg else ('vol' if 'vol[' in msg or 'vol view' in msg else ('mass' if 'mass' in msg else 'other'))
    return f'C11:{m.group(1) if m else "?"}:{what}'

# minimised histories of the defects found in the unchanged tree (all repaired in /repo now: 071a958, efddd9f, 9fbe2c1,
# a0ac858, 1c6e5d7, 7cf5a9b; they stay as regression cases); they run first
CORPUS_NAMES = ['phase_stream_views_after_new_phases', 'reset_flow_new_phase_volumetric', 'adopted_stream_rebinds_TP', 'package_reset_keyed_access', 'package_reset_same_positions_total', 'warm_unit_cache_wrong_dimension', 'view_written_with_view', 'memo_phase_redistribution', 'partial_link_different_phases', 'memo_phase', 'unlink_shared_cache', 'link_shared_cache', 'expand_phases_cache', 'copy_like_phase_indexer', 'reset_chemicals_container']
CORPUS = [
    {'streams': [{'kind': 'M', 'pkg': 0, 'phases': ['g', 'l'], 'T': 320.0, 'P': 65536.0, 'flow': [[1.0, 2.0, 0.0], [0.0, 0.5, 3.0]]}, {'kind': 'S', 'pkg': 0, 'phase': 's', 'T': 320.0, 'P': 65536.0, 'flow': [1.0, 1.0, 1.0]}], 'ops': [['sub', 0, 1], ['sub', 0, 0], ['read', 2, 'mass'], ['read', 2, 'vol'], ['get_flow', 3, 6, 0, 'A_'], ['phases', 0, ['g', 'l', 's']], ['set', 0, 'mol', 1, 'A_', 4.0], ['read', 2, 'mass'], ['read', 2, 'vol'], ['set', 3, 'mass', 0, 'B_', 8.0], ['read', 0, 'mass'], ['thermo', 0, 1], ['read', 2, 'vol'], ['set', 2, 'vol', 0, 'B_', 2.0], ['read', 0, 'vol'], ['phase', 0, 'l'], ['read', 2, 'mass']]},   # phase_stream_views_after_new_phases
    {'streams': [{'kind': 'S', 'pkg': 0, 'phase': 'l', 'T': 320.0, 'P': 65536.0, 'flow': [2.0, 0.5, 1.0]}, {'kind': 'S', 'pkg': 2, 'phase': 'g', 'T': 384.0, 'P': 131072.0, 'flow': [1.0, 3.0, 0.0]}], 'ops': [['read', 0, 'vol'], ['reset_flow', 0, 'g', 5, None, [['A_', 2.0], ['B_', 0.5]]], ['get_flow', 0, 5, 0, 'A_'], ['read', 0, 'vol'], ['reset_flow', 1, 'l', 6, 8.0, [['A_', 1.0], ['C_', 3.0]]], ['get_total', 1, 6], ['read', 1, 'vol'], ['reset_flow', 1, 's', 2, None, [['B_', 4.0]]], ['reset_flow', 0, None, 9, 1.0, []], ['read', 0, 'mol']]},   # reset_flow_new_phase_volumetric
    {'streams': [{'kind': 'S', 'pkg': 0, 'phase': 'l', 'T': 320.0, 'P': 65536.0, 'flow': [2.0, 0.5, 1.0]}, {'kind': 'S', 'pkg': 0, 'phase': 'g', 'T': 384.0, 'P': 131072.0, 'flow': [1.0, 3.0, 0.0]}], 'ops': [['read', 1, 'vol'], ['get_flow', 1, 6, 0, 'A_'], ['from_streams', 0, [1]], ['T', 2, 256.0], ['read', 1, 'vol'], ['F', 1, 'vol'], ['set', 1, 'vol', 0, 'B_', 8.0], ['P', 1, 65536.0], ['read', 2, 'vol'], ['F', 2, 'vol']]},   # adopted_stream_rebinds_TP
    {'streams': [{'kind': 'M', 'pkg': 0, 'phases': ['g', 'l'], 'T': 320.0, 'P': 65536.0, 'flow': [[1.0, 2.0, 0.0], [0.0, 0.5, 3.0]]}, {'kind': 'M', 'pkg': 0, 'phases': ['g', 'l'], 'T': 320.0, 'P': 65536.0, 'flow': [[1.0, 1.0, 1.0], [2.0, 2.0, 2.0]]}], 'ops': [['get_flow', 0, 0, 1, 'C_'], ['set', 0, 'mol', 0, 'A_', 4.0], ['thermo', 0, 1], ['get_flow', 0, 0, 1, 'C_'], ['get_flow', 0, 2, 1, 'C_'], ['set', 0, 'mol', 0, 'A_', 2.0], ['set_flow', 0, 3, 1, 'B_', 8.0], ['get_data', 0, 'mol', 1, 0, 'A_'], ['get_flow', 1, 0, 1, 'C_'], ['read', 0, 'mass']]},   # package_reset_keyed_access
    {'streams': [{'kind': 'S', 'pkg': 0, 'phase': 'l', 'T': 320.0, 'P': 65536.0, 'flow': [2.0, 0.5, 1.0]}, {'kind': 'M', 'pkg': 2, 'phases': ['g', 'l'], 'T': 320.0, 'P': 65536.0, 'flow': [[1.0, 2.0, 0.0], [0.0, 0.5, 3.0]]}], 'ops': [['F', 0, 'vol'], ['thermo', 0, 2], ['F', 0, 'vol'], ['set_total', 0, 6, 4096.0], ['get_total', 0, 6], ['read', 0, 'vol'], ['get_total', 1, 5], ['thermo', 1, 0], ['get_total', 1, 5], ['read', 1, 'vol']]},   # package_reset_same_positions_total
    {'streams': [{'kind': 'S', 'pkg': 0, 'phase': 'l', 'T': 320.0, 'P': 65536.0, 'flow': [2.0, 0.5, 1.0]}, {'kind': 'M', 'pkg': 0, 'phases': ['g', 'l'], 'T': 320.0, 'P': 65536.0, 'flow': [[1.0, 2.0, 0.0], [0.0, 0.5, 3.0]]}], 'ops': [['get_flow', 0, 3, 0, 'A_'], ['get_total', 1, 6], ['get_data', 0, 'mol', 3, 0, 'A_'], ['set_data', 1, 'mass', 6, 1, 'B_', 2.0], ['get_data', 1, 'vol', 1, 0, 'A_'], ['get_data', 0, 'mass', 3, 0, 'A_'], ['read', 1, 'mol']]},   # warm_unit_cache_wrong_dimension
    {'streams': [{'kind': 'S', 'pkg': 0, 'phase': 'l', 'T': 320.0, 'P': 65536.0, 'flow': [2.0, 0.5, 1.0]}, {'kind': 'S', 'pkg': 0, 'phase': 'g', 'T': 384.0, 'P': 131072.0, 'flow': [1.0, 3.0, 0.0]}, {'kind': 'M', 'pkg': 0, 'phases': ['g', 'l'], 'T': 320.0, 'P': 65536.0, 'flow': [[1.0, 2.0, 0.0], [0.0, 0.5, 3.0]]}], 'ops': [['read', 1, 'vol'], ['assign', 0, 1, 'vol'], ['read', 0, 'vol'], ['F', 0, 'vol'], ['assign', 1, 0, 'mass'], ['copy_row', 2, 'vol', 0, 1], ['read', 2, 'vol'], ['F', 2, 'vol']]},   # view_written_with_view
    {'streams': [{'kind': 'M', 'pkg': 0, 'phases': ['g', 'l'], 'T': 320.0, 'P': 65536.0, 'flow': [[3.0, 0.0, 0.0], [8.0, 0.0, 0.0]]}, {'kind': 'S', 'pkg': 0, 'phase': 'l', 'T': 320.0, 'P': 65536.0, 'flow': [1.0, 1.0, 1.0]}], 'ops': [['F', 0, 'vol'], ['set', 0, 'mol', 0, 'A_', 1.0], ['F', 0, 'vol'], ['get_total', 0, 6], ['set_total', 0, 6, 4096.0], ['get_total', 0, 6], ['read', 0, 'vol']]},   # memo_phase_redistribution
    {'streams': [{'kind': 'S', 'pkg': 0, 'phase': 'l', 'T': 320.0, 'P': 65536.0, 'flow': [2.0, 0.5, 1.0]}, {'kind': 'S', 'pkg': 0, 'phase': 'g', 'T': 320.0, 'P': 65536.0, 'flow': [1.0, 3.0, 0.0]}], 'ops': [['read', 0, 'vol'], ['link', 1, 0, True, False, True], ['read', 1, 'vol'], ['read', 0, 'vol'], ['set', 1, 'vol', 0, 'A_', 8.0], ['get_flow', 0, 5, 0, 'A_']]},   # partial_link_different_phases (flow+TP linked, phase not): views must not be shared
    {"streams": [{"kind": "S", "pkg": 0, "phase": "g", "T": 320.0, "P": 65536.0, "flow": [2.0, 0.5, 1.0]}, {"kind": "S", "pkg": 0, "phase": "s", "T": 320.0, "P": 65536.0, "flow": [2.0, 0.5, 1.0]}], "ops": [["read", 0, "vol"], ["phase", 0, "l"], ["read", 0, "vol"]]},   # memo_phase
    {"streams": [{"kind": "S", "pkg": 0, "phase": "l", "T": 320.0, "P": 65536.0, "flow": [2.0, 0.5, 1.0]}, {"kind": "S", "pkg": 0, "phase": "l", "T": 320.0, "P": 65536.0, "flow": [0.0, 0.0, 0.0]}], "ops": [["link", 1, 0, True, True, True], ["unlink", 0], ["read", 1, "mass"], ["set", 0, "mol", 0, "A_", 8.0], ["read", 0, "mass"]]},   # unlink_shared_cache
    {"streams": [{"kind": "S", "pkg": 0, "phase": "l", "T": 320.0, "P": 65536.0, "flow": [2.0, 0.5, 1.0]}, {"kind": "S", "pkg": 0, "phase": "l", "T": 320.0, "P": 65536.0, "flow": [0.0, 3.0, 0.0]}, {"kind": "S", "pkg": 0, "phase": "s", "T": 320.0, "P": 65536.0, "flow": [8.0, 3.0, 0.0]}], "ops": [["link", 2, 1, True, True, True], ["link", 1, 0, True, True, False], ["read", 1, "mass"], ["read", 2, "mass"]]},   # link_shared_cache
    {"streams": [{"kind": "M", "pkg": 0, "phases": ["g", "l"], "T": 320.0, "P": 65536.0, "flow": [[1.0, 2.0, 0.0], [0.0, 0.5, 3.0]]}, {"kind": "S", "pkg": 0, "phase": "s", "T": 320.0, "P": 65536.0, "flow": [2.0, 0.5, 1.0]}], "ops": [["read", 0, "mass"], ["copy_like", 0, 1], ["read", 0, "mass"]]},   # expand_phases_cache
    {"streams": [{"kind": "M", "pkg": 0, "phases": ["L", "l"], "T": 320.0, "P": 65536.0, "flow": [[1.0, 2.0, 0.0], [0.0, 0.5, 3.0]]}, {"kind": "S", "pkg": 0, "phase": "s", "T": 320.0, "P": 65536.0, "flow": [2.0, 0.5, 1.0]}], "ops": [["copy_like", 0, 1], ["read", 0, "mol"]]},   # copy_like_phase_indexer
    {"streams": [{"kind": "M", "pkg": 1, "phases": ["g", "l"], "T": 320.0, "P": 65536.0, "flow": [[1.0, 2.0, 0.0, 1.0], [0.0, 0.5, 0.0, 3.0]]}, {"kind": "S", "pkg": 0, "phase": "s", "T": 320.0, "P": 65536.0, "flow": [2.0, 0.5, 1.0]}], "ops": [["read", 0, "mass"], ["rtrip", 0, 0], ["read", 0, "mass"]]},   # reset_chemicals_container
]
WITNESSES = []
