"""C01 — mixing / splitting / separating / copying / scaling streams conserves every chemical.
Correspondence harness, generators and direct oracle."""
import numpy as np
from fractions import Fraction as F
from vf import q, qlist, clist, cbool, cnat, copt, frac, fr_json

ID = 'C01'
COQ_DIR = 'C01'
COQ_HEADER = 'From V Require Import Common.Num C01.Model.\nOpen Scope Q_scope.'
RULE = ('histories of 1-3 operations (Stream.mix_from with 0-5 inlets, split_to, separate_out, copy_flow, scale, *) over a '
        'store of 3-6 real streams built on 5 real property packages (6 user-defined chemicals listed in different orders '
        'and subsets, two packages with equal lists but distinct objects); single- and multi-phase receivers and inlets, '
        'phases from s l g S L, the receiver among the inlets 0/1/2 times, dyadic flows including all-zero streams, '
        'energy_balance on and off, the temperature solver made to fail 0-3 times (fallback to multi-phase); families of histories '
        'for cache-order effects, MultiStream.copy_flow and aliases (flow_proxy objects with their own phase, sub-streams ms[p] handed '
        'out before the history and also used as RECEIVERS of separate_out / copy_flow / scale; a family of its own separates a MultiStream and its OWN '
        'sub-streams out of each other (partial sharing of flow data; the MultiStream also assembled by MultiStream.from_streams), other phases non-empty; '
        'what EVERY stream object shows is compared); executed on '
        'the real classes and on the Coq model; the whole store (class, package, phases, every phase x chemical flow) or '
        'the exception class and the store before the raising call are compared.  non-trivial = an operation succeeded '
        'and changed the store, or raised; distinct = distinct case hash')
ASSUMPTIONS = [
    'float rounding is not modelled: inputs are dyadic so the material arithmetic is exact; values compared to 1e-9 relative',
    'the index caches of Chemicals objects (index_overlap / _get_index_and_kind) are NOT modelled: property C10 proves them '
    'transparent, so a coherent implementation agrees with the cache-free model and a broken cache shows as a mismatch; '
    'they are cleared only at the start of a case so that every case replays on its own',
    'the enthalpy setter is an oracle: mixture.solve_T_at_HP / xsolve_T_at_HP are made to raise for the first hf calls; '
    'energy_balance=True cases use non-negative flows so that the mixed stream is not empty',
    'separate_out is run with energy_balance=False (its enthalpy part belongs to C02)',
]
TRUSTED = ['model coq/C01/Model.v is hand-written from thermosteam/{_stream,_multi_stream,indexer,_phase}.py and '
           'base/sparse.py (SparseVector.mix_from); tie = correspondence check',
           'SparseVector/SparseArray item access, arithmetic and sum are modelled by their dense meaning (property C09)',
           'aliases: flow proxies of single-phase streams, per-phase sub-streams multistream[p] and linked MultiStreams are '
           'modelled as handles on shared cells (Model.astep); an operation that replaces a stream\'s indexer (phases setters) '
           'moves that stream to new data and leaves the other handles on the old data, as the source does; a history is cut '
           'when a linked MultiStream is out of step with its rows, and before a mix of the two classes listed as findings '
           '(multi-phase fallback with an inlet sharing the receiver\'s data; a multi-phase receiver with its linked partner as inlet)']

NAMES = ['A_', 'B_', 'C_', 'D_', 'E_', 'F_']
PKGS = [['A_', 'B_', 'C_', 'D_', 'E_', 'F_'], ['C_', 'A_', 'B_'], ['F_', 'E_', 'D_', 'C_', 'B_', 'A_'], ['B_', 'D_'],
        ['A_', 'B_', 'C_', 'D_', 'E_', 'F_']]
PHASES = ['L', 'S', 'g', 'l', 's']
PHC = {'L': 'PL', 'S': 'PS', 'g': 'Pg', 'l': 'Pl', 's': 'Ps'}
ERR = {'ValueError': 'EValue', 'KeyError': 'EKey', 'IndexError': 'EIndex', 'TypeError': 'EType',
       'RuntimeError': 'ERuntime', 'UndefinedPhase': 'EUndefPhase', 'UndefinedChemicalAlias': 'EOther',
       'ZeroDivisionError': 'EZeroDiv'}

_env = {}
def env():
    if not _env:
        import thermosteam as tmo
        U = {n: tmo.Chemical(n, search_db=False, CAS='9900-0%d-0' % (i + 1), MW=16., Hf=0., Cn=64., phase='l', default=True)
             for i, n in enumerate(NAMES)}
        _env['tmo'] = tmo
        _env['P'] = [tmo.Thermo(tmo.Chemicals([U[n] for n in names])) for names in PKGS]
        _env['code'] = {n: i for i, n in enumerate(NAMES)}
    return _env

def clear_caches():
    for p in env()['P']:
        p.chemicals._index_cache.clear()

# ------------------------------------------------------------------ generators
VALS = [F(0), F(1), F(2), F(1, 2), F(1, 4), F(3), F(8), F(3, 2), F(1, 1024), F(4096)]
SPLITS = [F(0), F(1), F(1, 2), F(1, 4), F(3, 4), F(1, 8)]
KS = [F(0), F(0), F(1), F(2), F(1, 2), F(3), F(1, 4), F(-1)]

def gen_stream(rng, neg=False, pkg=None):
    k = pkg if pkg is not None else rng.choice([0, 0, 1, 1, 2, 2, 3, 4])
    n = len(PKGS[k])
    multi = rng.random() < 0.4
    if multi:
        m = rng.choice([1, 2, 2, 2, 3, 3])
        phases = sorted(rng.sample(PHASES, m)) if rng.random() < 0.5 else sorted(rng.sample(['g', 'l', 's'], min(m, 3)))
    else:
        phases = [rng.choice(['l', 'l', 'g', 'g', 's', 'L', 'S'])]
    mode = rng.random()
    rows = []
    for _ in phases:
        if mode < 0.12:
            row = [0.] * n
        else:
            row = [float(rng.choice(VALS)) if rng.random() < 0.5 else 0. for _ in range(n)]
            if mode > 0.9 and rng.random() < 0.5:
                row = [0.] * n            # an empty phase of a multi-phase stream
            if neg:
                row = [x * rng.choice([1, 1, -1]) for x in row]
        rows.append(row)
    sd = {'pkg': k, 'multi': multi, 'phases': phases, 'flows': rows}
    if rng.random() < 0.35:
        order = list(range(n)); rng.shuffle(order)
        sd['order'] = order
    return sd

def gen_op(rng, ns, streams, eb_ok):
    kind = rng.choice(['mix'] * 10 + ['split'] * 3 + ['sep'] * 2 + ['copy_flow'] * 3 + ['scale', 'scale', 'mul', 'mixsep'])
    big = [i for i in range(ns) if streams[i]['pkg'] in (0, 2, 4)] or list(range(ns))
    if kind in ('mix', 'mixsep'):
        r = rng.choice(big) if rng.random() < 0.9 else rng.randrange(ns)
        n_in = rng.choice([0, 1, 1, 2, 2, 2, 3, 3, 4, 5])
        if kind == 'mixsep':
            n_in = 2
        ins = [rng.randrange(ns) for _ in range(n_in)]
        selfs = rng.choice([0, 0, 0, 1, 1, 2])
        ins = [i for i in ins if i != r] if selfs == 0 else ins
        for _ in range(selfs):
            if ins:
                ins[rng.randrange(len(ins))] = r
        eb = eb_ok and rng.random() < 0.45
        hf = rng.choice([0, 0, 0, 0, 1, 2, 2, 3]) if eb else 0
        ops = [['mix', r, ins, eb, hf]]
        if kind == 'mixsep' and len(ins) == 2:
            ops.append(['sep', r, ins[1]])
        return ops
    if kind == 'split':
        f = rng.randrange(ns)
        s1, s2 = rng.randrange(ns), rng.randrange(ns)
        if rng.random() < 0.85:
            others = [i for i in range(ns) if i != f]
            if len(others) >= 2:
                s1, s2 = rng.sample(others, 2)
        if rng.random() < 0.5:
            sp = float(rng.choice(SPLITS))
        else:
            sp = [float(rng.choice(SPLITS)) for _ in PKGS[streams[f]['pkg']]]
        return [['split', f, s1, s2, sp, rng.random() < 0.6]]
    if kind == 'sep':
        r = rng.choice(big)
        return [['sep', r, rng.randrange(ns)]]
    if kind == 'copy_flow':
        d = rng.randrange(ns)
        cands = [i for i in range(ns) if i != d] or [d]
        if streams[d]['multi'] and rng.random() < 0.85:
            # MultiStream.copy_flow wants the same chemical IDs
            same = [i for i in cands if PKGS[streams[i]['pkg']] == PKGS[streams[d]['pkg']]]
            cands = same or cands
        s = rng.choice(cands)
        if rng.random() < 0.06:
            s = d                       # a stream copied onto itself
        m = rng.random()
        if m < 0.4:
            ids = None
        elif m < 0.55:
            ids = rng.choice(NAMES)
        else:
            ids = rng.sample(NAMES, rng.randint(1, 3))
            if rng.random() < 0.7:
                ids = [x for x in ids if x in PKGS[streams[s]['pkg']]] or [PKGS[streams[s]['pkg']][0]]
        phase = rng.choice([None, None, None, 'l', 'g', 's', 'L'])
        if phase is not None and rng.random() < 0.5:
            phase = rng.choice(streams[s]['phases'])        # a selector that matches the source
        return [['copy_flow', d, s, ids, rng.random() < 0.7, rng.random() < 0.3, phase]]
    if kind == 'scale':
        return [['scale', rng.randrange(ns), float(rng.choice(KS))]]
    return [['mul', rng.randrange(ns), float(rng.choice(KS))]]

def gen_cache_case(rng):
    """several cross-package operations hit one receiver package with the same set of non-zero
    chemicals presented in different key orders (reordered packages, different insertion orders)"""
    recv_pkg = rng.choice([0, 0, 4, 2])
    others = [k for k in range(len(PKGS)) if PKGS[k] != PKGS[recv_pkg] and k != 3]
    common = ['A_', 'B_', 'C_']
    chosen = rng.sample(common, rng.choice([2, 2, 3]))
    vals = rng.sample([1., 2., 3., 8., 0.5, 0.25, 4096.], len(chosen))
    streams = []
    n_recv = rng.choice([1, 2, 2])
    for _ in range(n_recv):
        sd = gen_stream(rng, pkg=recv_pkg)
        if rng.random() < 0.5:
            sd['flows'] = [[0.] * len(r) for r in sd['flows']]
        streams.append(sd)
    n_in = rng.choice([2, 2, 3, 4])
    for j in range(n_in):
        k = rng.choice(others) if j else others[0]
        if j == 1:
            k = [x for x in others if x != streams[-1]['pkg']][0]
        names = PKGS[k]
        multi = rng.random() < 0.25
        phases = sorted(rng.sample(['g', 'l', 's'], 2)) if multi else [rng.choice(['l', 'g'])]
        scale = rng.choice([1., 1., 2., 0.5])
        rows = []
        for pi, _ in enumerate(phases):
            row = [0.] * len(names)
            for c, v in zip(chosen, vals):
                if not multi or rng.random() < 0.7 or pi == 0:
                    row[names.index(c)] = v * scale * (pi + 1)
            rows.append(row)
        order = [names.index(c) for c in chosen] + [i for i in range(len(names)) if names[i] not in chosen]
        if rng.random() < 0.6:
            head = order[:len(chosen)]; rng.shuffle(head); order = head + order[len(chosen):]
        streams.append({'pkg': k, 'multi': multi, 'phases': phases, 'flows': rows, 'order': order})
    ins = list(range(n_recv, n_recv + n_in))
    ops = []
    for _ in range(rng.choice([2, 3, 3, 4])):
        r = rng.randrange(n_recv)
        kind = rng.choice(['mix1', 'mix1', 'mixn', 'mixsep', 'copy_like', 'copy_flow'])
        if kind == 'mix1':
            ops.append(['mix', r, [rng.choice(ins)], False, 0])
        elif kind == 'mixn':
            ops.append(['mix', r, rng.sample(ins, min(len(ins), rng.choice([2, 3]))) + ([r] if rng.random() < 0.3 else []), rng.random() < 0.3, 0])
        elif kind == 'mixsep':
            a, b = rng.sample(ins, 2)
            ops += [['mix', r, [a, b], False, 0], ['sep', r, b]]
        elif kind == 'copy_like':
            ops.append(['mix', r, [rng.choice(ins)], True, 0])
        else:
            ops.append(['copy_flow', r, rng.choice(ins), None, False, False, None])
    return {'streams': streams, 'ops': ops}

def gen_copy_flow_case(rng):
    """MultiStream.copy_flow: multi-phase receiver, single- and multi-phase sources with the same chemical IDs,
    every phase selector (none, the source's phase, another phase), IDs all/str/list, remove, exclude"""
    k = rng.choice([0, 1, 2, 3, 4])
    twin = {0: 4, 4: 0}.get(k, k)
    n = len(PKGS[k])
    def flows():
        return [float(rng.choice(VALS)) if rng.random() < 0.7 else 0. for _ in range(n)]
    rph = sorted(rng.sample(['g', 'l', 's'], rng.choice([2, 2, 3]))) if rng.random() < 0.7 else sorted(rng.sample(PHASES, rng.choice([1, 2, 3])))
    recv = {'pkg': k, 'multi': True, 'phases': rph, 'flows': [flows() if rng.random() < 0.5 else [0.] * n for _ in rph]}
    streams = [recv]
    for _ in range(rng.choice([1, 2, 3])):
        pk = k if rng.random() < 0.7 else twin
        if rng.random() < 0.55:
            streams.append({'pkg': pk, 'multi': False, 'phases': [rng.choice(rph + ['l', 'g', 'L'])], 'flows': [flows()]})
        else:
            sph = list(rph) if rng.random() < 0.6 else sorted(rng.sample(PHASES, rng.choice([1, 2, 3])))
            streams.append({'pkg': pk, 'multi': True, 'phases': sph, 'flows': [flows() for _ in sph]})
    ops = []
    for _ in range(rng.choice([1, 2, 3])):
        s = rng.randrange(1, len(streams))
        m = rng.random()
        ids = None if m < 0.4 else (rng.choice(PKGS[k]) if m < 0.55 else rng.sample(PKGS[k], rng.randint(1, min(3, n))))
        phase = rng.choice([None, None, 'g', 'l', 's', 'L'] + rph + streams[s]['phases'])
        ops.append(['copy_flow', 0, s, ids, rng.random() < 0.75, rng.random() < 0.3, phase])
    return {'streams': streams, 'ops': ops}

def gen_alias_case(rng):
    """histories over several stream objects on one flow data: flow proxies of single-phase streams (own phase)
    and per-phase sub-streams multistream[p] handed out before the history starts"""
    ns = rng.randint(2, 4)
    streams = []
    for j in range(ns):
        sd = gen_stream(rng, pkg=rng.choice([0, 0, 1, 2, 4]))
        if j == 0 and sd['multi']:
            sd = gen_stream(rng, pkg=sd['pkg'])
        streams.append(sd)
    if not any(not s['multi'] for s in streams):
        streams[0] = dict(gen_stream(rng, pkg=0), multi=False, phases=['l'], flows=[[float(rng.choice(VALS)) for _ in PKGS[0]]])
    if not any(s['multi'] for s in streams) and rng.random() < 0.7:
        k = rng.choice([0, 1, 2])
        ph = sorted(rng.sample(['g', 'l', 's'], 2))
        streams.append({'pkg': k, 'multi': True, 'phases': ph,
                        'flows': [[float(rng.choice(VALS)) if rng.random() < 0.6 else 0. for _ in PKGS[k]] for _ in ph]})
    newphase = {}                # for a multi-phase stream: a single-phase stream in a phase it lacks
    for j in range(len(streams)):
        if streams[j]['multi'] and rng.random() < 0.8:
            missing = [p for p in ['g', 'l', 's'] if p not in [q.lower() for q in streams[j]['phases']]]
            if missing:
                k = rng.choice([streams[j]['pkg'], streams[j]['pkg'], 1])
                streams.append({'pkg': k, 'multi': False, 'phases': [rng.choice(missing)],
                                'flows': [[float(rng.choice(VALS[1:])) if rng.random() < 0.7 else 0. for _ in PKGS[k]]]})
                newphase[j] = len(streams) - 1
    twin = {}                    # for a multi-phase stream: another one with the same phases and package
    for j in range(len(streams)):
        if streams[j]['multi'] and rng.random() < 0.6:
            k = streams[j]['pkg']
            streams.append({'pkg': k, 'multi': True, 'phases': list(streams[j]['phases']),
                            'flows': [[float(rng.choice(VALS)) if rng.random() < 0.6 else 0. for _ in PKGS[k]] for _ in streams[j]['phases']]})
            twin[j] = len(streams) - 1
    ns = len(streams)
    handles = []
    for j in twin:               # sub-streams of a receiver that will take over another stream's rows (copy_like)
        if rng.random() < 0.8:
            handles.append(['view', j, rng.choice(streams[j]['phases'])])
    for j in newphase:           # the sub-streams are handed out before the phases are expanded
        handles.append(['view', j, rng.choice(streams[j]['phases'])])
    for _ in range(rng.choice([1, 2, 2, 3])):
        j = rng.randrange(ns)
        if streams[j]['multi'] and rng.random() < 0.4 and not any(h[0] == 'view' and h[1] == j for h in handles):
            handles.append(['link', j])
        elif streams[j]['multi'] and not any(h[0] == 'link' and h[1] == j for h in handles):
            handles.append(['view', j, rng.choice(streams[j]['phases'])])
        elif streams[j]['multi']:
            handles.append(['link', j])
        else:
            handles.append(['proxy', j, rng.choice(['l', 'g', 's', 'L', streams[j]['phases'][0]])])
    nh = ns + len(handles)
    cell = list(range(ns)) + [h[1] for h in handles]
    views = [k for k in range(ns, nh) if handles[k - ns][0] == 'view']
    nonviews = [k for k in range(nh) if k not in views]
    empties = []
    if rng.random() < 0.6:      # empty streams accompany a single non-empty inlet
        streams_extra = dict(gen_stream(rng, pkg=streams[0]['pkg']), multi=False, phases=[rng.choice(['l', 'g'])])
        streams_extra['flows'] = [[0.] * len(PKGS[streams_extra['pkg']])]
        streams_extra.pop('order', None)
    ops = []
    for _ in range(rng.choice([2, 3, 3, 4])):
        kind = rng.choice(['mix_alias1', 'mix_alias1', 'mix_aliasn', 'mix_new_phase', 'mix_new_phase', 'mix_from_view', 'mix_rebind', 'mix_twin', 'mix_twin', 'split', 'split_multi',
                           'sep', 'scale', 'copy_flow', 'mul', 'sep_view', 'scale_view', 'copy_view'])
        r = rng.choice(nonviews)
        if kind in ('sep_view', 'scale_view', 'copy_view'):
            # a sub-stream multistream[p] as the RECEIVER of the in-place operations (its phase is locked, its
            # indexer wraps the row object of the MultiStream)
            kind = {'sep_view': 'sep', 'scale_view': 'scale', 'copy_view': 'copy_flow'}[kind]
            if views:
                r = rng.choice(views)
        same = [k for k in range(nh) if k != r and cell[k] == cell[r]]
        if kind == 'mix_alias1':
            # one non-empty inlet that shares the receiver's data (or is one of its sub-streams): copy_like path
            ins = [rng.choice(same)] if same else [rng.randrange(nh)]
            ops.append(['mix', r, ins, rng.random() < 0.8, 0])
        elif kind == 'mix_aliasn':
            ins = [rng.randrange(nh) for _ in range(rng.choice([2, 3]))] + ([rng.choice(same)] if same else [])
            rng.shuffle(ins)
            ops.append(['mix', r, ins, rng.random() < 0.4, 0])
        elif kind == 'mix_new_phase':
            multis = [k for k in range(ns) if streams[k]['multi']]
            r = rng.choice(list(newphase) or multis or [r])
            ins = [rng.randrange(nh) for _ in range(rng.choice([1, 2, 3]))]
            if r in newphase:
                ins.insert(rng.randrange(len(ins) + 1), newphase[r])
            ops.append(['mix', r, ins, rng.random() < 0.3, 0])
        elif kind == 'mix_twin':
            # one non-empty multi-phase inlet with the receiver's phases and package: MultiStream.copy_like
            if twin:
                r = rng.choice(list(twin))
                a, b = (r, twin[r]) if rng.random() < 0.7 else (twin[r], r)
                ops.append(['mix', a, [b], rng.random() < 0.85, 0])
        elif kind == 'mix_rebind':
            # operations that replace the receiver's indexer while other stream objects share its data
            shared = [k for k in nonviews if [cell[x] for x in range(nh)].count(cell[k]) > 1] or nonviews
            r = rng.choice(shared)
            multis = [k for k in range(nh) if streams[cell[k]]['multi'] and k not in views]
            if multis and rng.random() < 0.5:
                ops.append(['mix', r, [rng.choice(multis)] + ([] if rng.random() < 0.6 else [rng.randrange(nh)]), True, rng.choice([0, 0, 1, 2])])
            else:
                ops.append(['mix', r, [rng.randrange(nh) for _ in range(rng.choice([2, 3]))], True, rng.choice([1, 2, 2, 3])])
        elif kind == 'mix_from_view':
            ins = ([rng.choice(views)] if views else []) + [rng.randrange(nh) for _ in range(rng.choice([0, 1, 2]))]
            ops.append(['mix', r, ins, rng.random() < 0.4, 0])
        elif kind in ('split', 'split_multi'):
            multis = [k for k in range(ns) if streams[k]['multi']]
            f = rng.choice(multis) if (kind == 'split_multi' and multis) else rng.randrange(nh)
            outs = [k for k in nonviews if k != f]
            if len(outs) >= 2:
                s1, s2 = rng.sample(outs, 2)
                sp = float(rng.choice(SPLITS)) if rng.random() < 0.6 else [float(rng.choice(SPLITS)) for _ in PKGS[streams[cell[f]]['pkg']]]
                ops.append(['split', f, s1, s2, sp, rng.random() < 0.6])
        elif kind == 'sep':
            ops.append(['sep', r, rng.randrange(nh)])
        elif kind == 'scale':
            ops.append(['scale', r, float(rng.choice(KS))])
        elif kind == 'copy_flow':
            s = rng.choice([k for k in range(nh) if cell[k] != cell[r]] or [r])
            ids = None if rng.random() < 0.5 else rng.sample(PKGS[streams[cell[s]]['pkg']], 1)
            ops.append(['copy_flow', r, s, ids, rng.random() < 0.6, False, None])
        else:
            ops.append(['mul', rng.randrange(nh), float(rng.choice(KS))])
    case = {'streams': streams, 'handles': handles, 'ops': ops}
    if rng.random() < 0.6:
        case['mass_views'] = True
    return case

def gen_split_case(rng):
    """recycle-like histories: the same outlets are split into repeatedly, from multi-phase feeds whose phase sets
    differ (the outlets' phases are reset by split_to; their per-phase sub-streams were used by the earlier split)"""
    k = rng.choice([0, 1, 2, 4])
    n = len(PKGS[k])
    def row(): return [float(rng.choice(VALS)) if rng.random() < 0.6 else 0. for _ in range(n)]
    def multi(pk, phases=None):
        ph = phases or sorted(rng.sample(['g', 'l', 's'] if rng.random() < 0.7 else PHASES, rng.choice([1, 2, 2, 3])))
        return {'pkg': pk, 'multi': True, 'phases': ph, 'flows': [row() if pk == k else [float(rng.choice(VALS)) for _ in PKGS[pk]] for _ in ph]}
    base = sorted(rng.sample(['g', 'l', 's'], rng.choice([1, 2])))           # nested phase sets: a feed that gained a phase
    wider = sorted(set(base) | set(rng.sample(['g', 'l', 's'], rng.choice([1, 2]))))
    feeds = [multi(k, base), multi(k, wider)] + [multi(k) for _ in range(rng.choice([0, 0, 1]))]
    outs = []
    for _ in range(rng.choice([2, 2, 3])):
        pk = k if rng.random() < 0.75 else rng.choice([0, 2, 4])
        if rng.random() < 0.65:
            o = multi(pk)
        else:
            o = {'pkg': pk, 'multi': False, 'phases': [rng.choice(['l', 'g', 's'])], 'flows': [[float(rng.choice(VALS)) if rng.random() < 0.5 else 0. for _ in PKGS[pk]]]}
        outs.append(o)
    streams = feeds + outs
    nf, no = len(feeds), len(outs)
    ops = []
    for _ in range(rng.choice([2, 3, 3, 4])):
        u = rng.random()
        if u < 0.7:
            f = min(len([o for o in ops if o[0] == 'split']), nf - 1) if rng.random() < 0.6 else rng.randrange(nf)
            s1, s2 = rng.sample(range(nf, nf + no), 2)
            sp = float(rng.choice(SPLITS)) if rng.random() < 0.6 else [float(rng.choice(SPLITS)) for _ in range(n)]
            ops.append(['split', f, s1, s2, sp, rng.random() < 0.75])
        elif u < 0.85:
            ops.append(['mix', rng.randrange(nf), [rng.randrange(nf + no) for _ in range(rng.choice([1, 2]))], rng.random() < 0.3, 0])
        else:
            ops.append(['scale', rng.randrange(nf + no), float(rng.choice(KS))])
    return {'streams': streams, 'ops': ops}

def gen_case_pair_case(rng):
    """phases that differ only by case (l/L, s/S) held together by an inlet while the multi-phase receiver has only one
    of them: the upper/lower-case fallbacks must not fold two rows into one"""
    k = rng.choice([0, 1, 2, 4])
    ki = k if rng.random() < 0.6 else rng.choice([0, 1, 2, 4])
    pair = rng.choice([['L', 'l'], ['S', 's']])
    extra = rng.sample(['g'] + [p for p in PHASES if p.lower() != pair[0].lower()], rng.choice([0, 0, 1]))
    iph = sorted(set(pair + extra))
    rph = sorted(set([rng.choice(pair)] + rng.sample(['g', 'l', 's'], rng.choice([0, 1, 2]))) - ({pair[0], pair[1]} - {None}) | {rng.choice(pair)})
    def row(pk, dense=0.8): return [float(rng.choice(VALS[1:])) if rng.random() < dense else 0. for _ in PKGS[pk]]
    recv = {'pkg': k, 'multi': True, 'phases': rph, 'flows': [row(k, 0.3) for _ in rph]}
    inlet = {'pkg': ki, 'multi': True, 'phases': iph, 'flows': [row(ki) for _ in iph]}
    empty = {'pkg': k, 'multi': False, 'phases': [rng.choice(['l', 'g'])], 'flows': [[0.] * len(PKGS[k])]}
    other = gen_stream(rng, pkg=k)
    single = {'pkg': k, 'multi': False, 'phases': [rng.choice(['l', 'g', 's'])], 'flows': [row(k, 0.2)]}
    streams = [recv, inlet, empty, other, single]
    ops = []
    for _ in range(rng.choice([1, 2, 2, 3])):
        u = rng.random()
        r = rng.choice([0, 0, 0, 4])
        if u < 0.5:
            ops.append(['mix', r, [1] + ([2] if rng.random() < 0.5 else []), True, 0])          # copy_like path
        elif u < 0.75:
            ops.append(['mix', r, [1, rng.choice([2, 3, 0])], rng.random() < 0.5, 0])
        elif u < 0.9:
            ops.append(['sep', 0, 1])
        else:
            ops.append(['copy_flow', 0, 1, None, rng.random() < 0.5, False, rng.choice([None] + pair)])
    return {'streams': streams, 'ops': ops}

def gen_view_recv_case(rng):
    """per-phase sub-streams multistream[p] as the RECEIVERS of separate_out / copy_flow / scale (in place on the row
    object they wrap), interleaved with operations on the MultiStream itself and on its other sub-streams"""
    k = rng.choice([0, 0, 1, 2, 4])
    ph = sorted(rng.sample(PHASES, rng.choice([2, 2, 3])))
    def row(pk, dense=0.7): return [float(rng.choice(VALS[1:])) if rng.random() < dense else 0. for _ in PKGS[pk]]
    streams = [{'pkg': k, 'multi': True, 'phases': ph, 'flows': [row(k) for _ in ph]}]
    for _ in range(rng.choice([1, 2, 2])):
        kk = rng.choice([k, k, 1, 3])
        streams.append({'pkg': kk, 'multi': False, 'phases': [rng.choice(PHASES)], 'flows': [row(kk, 0.5)]})
    if rng.random() < 0.5:
        kk = rng.choice([k, k, 1])
        ph2 = sorted(rng.sample(['g', 'l', 's'], 2))
        streams.append({'pkg': kk, 'multi': True, 'phases': ph2, 'flows': [row(kk, 0.5) for _ in ph2]})
    ns = len(streams)
    handles = [['view', 0, p] for p in rng.sample(ph, rng.choice([1, 2]))]
    if rng.random() < 0.4:
        handles.append(['proxy', 1, rng.choice(['l', 'g', streams[1]['phases'][0]])])
    if streams[-1]['multi'] and ns > 2 and rng.random() < 0.5:
        handles.append(['view', ns - 1, rng.choice(streams[-1]['phases'])])
    nh = ns + len(handles)
    cell = list(range(ns)) + [h[1] for h in handles]
    views = [x for x in range(ns, nh) if handles[x - ns][0] == 'view']
    ops = []
    for _ in range(rng.choice([2, 3, 3, 4])):
        u = rng.random()
        v = rng.choice(views)
        if u < 0.3:
            ops.append(['sep', v, rng.randrange(nh)])
        elif u < 0.5:
            ops.append(['scale', v, float(rng.choice(KS))])
        elif u < 0.8:
            src = rng.choice([x for x in range(nh) if cell[x] != cell[v]])
            ids = None if rng.random() < 0.5 else rng.sample(PKGS[streams[cell[src]]['pkg']], rng.choice([1, 1, 2]))
            ops.append(['copy_flow', v, src, ids, rng.random() < 0.7, rng.random() < 0.15, None])
        elif u < 0.9:
            ops.append(['scale', cell[v], float(rng.choice(KS))])
        else:
            ops.append(['mix', cell[v], [rng.randrange(nh) for _ in range(rng.choice([1, 2]))], False, 0])
    return {'streams': streams, 'handles': handles, 'ops': ops}

def gen_sep_own_case(rng):
    """separate_out between a MultiStream and stream objects that share only PART of its flow data: its own per-phase
    sub-streams multistream[p] (also a MultiStream assembled by MultiStream.from_streams from single-phase streams, whose
    rows ARE those streams' data), in both directions, with at least one other phase holding material; mixed with
    separations of independent streams, a stream out of itself, scaling and a preceding mix"""
    k = rng.choice([0, 0, 1, 2, 4])
    ph = sorted(rng.sample(PHASES, rng.choice([2, 2, 3, 3])))
    def row(pk, dense=0.75): return [float(rng.choice(VALS[1:])) if rng.random() < dense else 0. for _ in PKGS[pk]]
    owner = {'pkg': k, 'multi': True, 'phases': ph, 'flows': [row(k) for _ in ph]}
    if rng.random() < 0.2:
        owner['flows'][rng.randrange(len(ph))] = [0.] * len(PKGS[k])          # an empty phase
    if rng.random() < 0.4:
        owner['from_streams'] = True
    streams = [owner]
    for _ in range(rng.choice([1, 2])):
        kk = rng.choice([k, k, 1])
        streams.append({'pkg': kk, 'multi': False, 'phases': [rng.choice(ph + ['l', 'g'])], 'flows': [row(kk, 0.5)]})
    if rng.random() < 0.4:
        ph2 = sorted(rng.sample(ph, 2))
        streams.append({'pkg': k, 'multi': True, 'phases': ph2, 'flows': [row(k, 0.5) for _ in ph2]})
    ns = len(streams)
    handles = [['view', 0, p] for p in rng.sample(ph, rng.choice([1, 2, len(ph)]))]
    if streams[-1]['multi'] and rng.random() < 0.5:
        handles.append(['view', ns - 1, rng.choice(streams[-1]['phases'])])
    nh = ns + len(handles)
    own = [x for x in range(ns, nh) if handles[x - ns][1] == 0]
    ops = []
    for _ in range(rng.choice([1, 2, 2, 3])):
        u = rng.random()
        if u < 0.45:
            ops.append(['sep', 0, rng.choice(own)])                 # the mixture minus one of its own phases
        elif u < 0.6:
            ops.append(['sep', rng.choice(own), 0])                 # a phase minus the whole mixture
        elif u < 0.7:
            a = rng.choice(own)
            ops.append(['sep', a, rng.choice(own) if rng.random() < 0.7 else a])
        elif u < 0.8:
            ops.append(['sep', rng.choice([0] + own), rng.randrange(1, nh)])
        elif u < 0.9:
            ops.append(['scale', rng.choice([0] + own), float(rng.choice(KS[2:7]))])
        else:
            ops.append(['mix', 0, [rng.randrange(1, ns) for _ in range(rng.choice([1, 2]))] + ([0] if rng.random() < 0.5 else []), False, 0])
    return {'streams': streams, 'handles': handles, 'ops': ops}

def gen_case(rng):
    case = gen_case_family(rng)
    if rng.random() < 0.5:
        case['mass_views'] = True        # the mass-flow views are built (and cached) before the history starts
    return case

def gen_case_family(rng):
    u = rng.random()
    if u > 0.86:
        return gen_alias_case(rng)
    if 0.27 <= u < 0.35:
        return gen_split_case(rng)
    if 0.35 <= u < 0.40:
        return gen_case_pair_case(rng)
    if 0.40 <= u < 0.46:
        return gen_view_recv_case(rng)
    if 0.46 <= u < 0.53:
        return gen_sep_own_case(rng)
    if u < 0.15:
        return gen_cache_case(rng)
    if u < 0.27:
        return gen_copy_flow_case(rng)
    ns = rng.randint(3, 6)
    neg = rng.random() < 0.12
    streams = [gen_stream(rng, neg) for _ in range(ns)]
    if rng.random() < 0.7:
        streams[0] = gen_stream(rng, neg, pkg=rng.choice([0, 2, 4]))
    ops = []
    for _ in range(rng.choice([1, 1, 2, 3])):
        ops += gen_op(rng, ns, streams, not neg)
    return {'streams': streams, 'ops': ops}

def gen_cases(rng, tier):
    n = 380 if tier == 'quick' else 6000
    return [gen_case(rng) for _ in range(n)]

# ------------------------------------------------------------------ implementation side
def build(sd, T=320.):
    e = env(); tmo = e['tmo']
    P = e['P'][sd['pkg']]
    if sd['multi'] and sd.get('from_streams'):
        # a MultiStream assembled from single-phase streams: its rows are those streams' flow data and multistream[p]
        # hands the very same stream objects back
        parts = [build({'pkg': sd['pkg'], 'multi': False, 'phases': [p], 'flows': [row]}, T) for p, row in zip(sd['phases'], sd['flows'])]
        s = tmo.MultiStream.from_streams(parts)
        assert list(s.phases) == list(sd['phases']) and all(s[p] is x for p, x in zip(sd['phases'], parts))
        return s
    if sd['multi']:
        s = tmo.MultiStream(None, phases=tuple(sd['phases']), T=T, thermo=P)
        assert list(s.phases) == list(sd['phases'])
        if 'order' in sd:      # dictionary insertion order = iteration order of the non-zero keys
            for k, row in enumerate(sd['flows']):
                for j in sd['order']:
                    if j < len(row) and row[j]: s.imol.data[k, j] = float(row[j])
        else:
            s.imol.data[:] = np.array(sd['flows'], float)
    else:
        s = tmo.Stream(None, phase=sd['phases'][0], T=T, thermo=P)
        if 'order' in sd:
            for j in sd['order']:
                if j < len(sd['flows'][0]) and sd['flows'][0][j]: s.mol[j] = float(sd['flows'][0][j])
        else:
            s.mol[:] = np.array(sd['flows'][0], float)
    return s

def pkg_of(s):
    for k, p in enumerate(env()['P']):
        if s.chemicals is p.chemicals:
            return k
    raise RuntimeError('unknown property package')

def snap(s):
    tmo = env()['tmo']
    if isinstance(s, tmo.MultiStream):
        arr = np.asarray(s.imol.data.to_array(), float)
        return {'pkg': pkg_of(s), 'multi': True, 'phases': list(s.phases),
                'flows': [[fr_json(frac(x)) for x in row] for row in arr]}
    arr = np.asarray(s.mol.to_array(), float)
    return {'pkg': pkg_of(s), 'multi': False, 'phases': [s.phase], 'flows': [[fr_json(frac(x)) for x in arr]]}

class FailingSolves:
    """mixture.solve_T_at_HP / xsolve_T_at_HP raise for the first n calls (oracle substitution)."""
    def __init__(self, n):
        self.n = n
    def __enter__(self):
        from thermosteam.mixture.mixture import Mixture
        self.M = Mixture
        self.orig = (Mixture.solve_T_at_HP, Mixture.xsolve_T_at_HP)
        outer = self
        def wrap(f):
            def g(self, *a, **k):
                if outer.n > 0:
                    outer.n -= 1
                    raise RuntimeError('temperature solve failed (oracle)')
                return f(self, *a, **k)
            return g
        Mixture.solve_T_at_HP = wrap(self.orig[0])
        Mixture.xsolve_T_at_HP = wrap(self.orig[1])
    def __exit__(self, *a):
        self.M.solve_T_at_HP, self.M.xsolve_T_at_HP = self.orig

def apply_op(store, op):
    name = op[0]
    if name == 'mix':
        _, r, ins, eb, hf = op
        with FailingSolves(hf):
            store[r].mix_from([store[i] for i in ins], energy_balance=eb)
    elif name == 'split':
        _, f, s1, s2, sp, eb = op
        split = np.array(sp, float) if isinstance(sp, list) else sp
        store[f].split_to(store[s1], store[s2], split, energy_balance=eb)
    elif name == 'sep':
        store[op[1]].separate_out(store[op[2]], energy_balance=False)
    elif name == 'copy_flow':
        d, s, ids, remove, exclude = op[1:6]
        phase = op[6] if len(op) > 6 else None
        IDs = ... if ids is None else (tuple(ids) if isinstance(ids, list) else ids)
        if isinstance(store[d], env()['tmo'].MultiStream):
            store[d].copy_flow(store[s], ... if phase is None else phase, IDs, remove=remove, exclude=exclude)
        else:       # Stream.copy_flow has no phase selector
            store[d].copy_flow(store[s], IDs, remove=remove, exclude=exclude)
    elif name == 'scale':
        store[op[1]].scale(op[2])
    elif name == 'mul':
        store.append(store[op[1]] * op[2])
    else:
        raise ValueError(name)

def build_store(case):
    """the base streams plus, for histories with aliases, other stream objects on the same flow data:
    ['proxy', j, phase] = streams[j].flow_proxy() with its own phase; ['view', j, p] = streams[j][p];
    ['link', j] = a MultiStream linked with streams[j]"""
    store = [build(sd) for sd in case['streams']]
    for h in case.get('handles', []):
        if h[0] == 'proxy':
            x = store[h[1]].flow_proxy()
            x.phase = h[2]
        elif h[0] == 'link':        # a second MultiStream linked with streams[j] (shares the SparseArray)
            base = store[h[1]]
            x = env()['tmo'].MultiStream(None, phases=tuple(base.phases), thermo=base.thermo)
            x.link_with(base)
        else:
            x = store[h[1]][h[2]]
        store.append(x)
    if case.get('mass_views'):       # the cached mass-flow views (indexer._data_cache) wrap the same row objects
        for x in store: x.imass
    return store

def handle_cells(case):
    n = len(case['streams'])
    return list(range(n)) + [h[1] for h in case.get('handles', [])]

def in_fragment(case, store, op):
    """mirror of Model.safe_op: sub-streams are receivers of separate_out / copy_flow / scale only; a history with aliases stops once a linked
    MultiStream is out of step with its rows (phases tuple and rows list of different lengths)"""
    if op[0] == 'copy_flow' and cancelling_copy(store, op):
        return False
    if not case.get('handles'):
        return True
    tmo = env()['tmo']
    n = len(case['streams'])
    for x in store:
        if isinstance(x, tmo.MultiStream) and len(x.phases) != len(x.imol.data.rows):
            return False
    def is_view(k): return n <= k < n + len(case['handles']) and case['handles'][k - n][0] == 'view'
    name = op[0]
    if name == 'split':
        return not is_view(op[2]) and not is_view(op[3])
    if name == 'mix':
        return not is_view(op[1]) and alias_mix_class(case, store, op) is None
    if name == 'copy_flow' and is_view(op[1]):
        # into a sub-stream from a stream on the same flow data: outside (mirror of Model.safe_op / same_cell; the
        # static cells are a safe over-approximation of the model's current cells)
        cells = handle_cells(case)
        d, s = op[1], op[2]
        return not (d < len(cells) and s < len(cells) and cells[d] == cells[s])
    return True

def cancelling_copy(store, op):
    """Stream.copy_flow(IDs, remove=True) from a MultiStream of another package in which some chemical's phase flows
    cancel to a zero total (needs negative flows, outside the property's quantifier): the code drops such a chemical
    from the index list when the receiver does not list it and then removes by the shortened list, so its phase rows
    stay; the model removes by the full list (totals agree, rows differ).  Such histories are cut here."""
    tmo = env()['tmo']
    d, s, ids, remove = op[1], op[2], op[3], op[4]
    if ids is None or not remove or max(d, s) >= len(store): return False
    if not isinstance(store[s], tmo.MultiStream) or isinstance(store[d], tmo.MultiStream): return False
    if store[d].chemicals is store[s].chemicals: return False
    arr = np.asarray(store[s].imol.data.to_array(), float)
    return bool(((arr.sum(0) == 0) & (arr != 0).any(0)).any())

def alias_mix_class(case, store, op):
    """two classes of mixes over shared flow data that are outside the modelled fragment (findings)"""
    tmo = env()['tmo']
    n = len(case['streams'])
    cells = handle_cells(case) + list(range(len(handle_cells(case)), len(store)))
    def is_view(k): return n <= k < n + len(case['handles']) and case['handles'][k - n][0] == 'view'
    _, r, ins, eb, hf = op
    sharing = [i for i in ins if i != r and i < len(cells) and r < len(cells) and cells[i] == cells[r]]
    if eb and hf > 0 and sharing:
        return 'mix:fallback-with-inlet-sharing-receiver-data'
    if r < len(store) and isinstance(store[r], tmo.MultiStream) and any(not is_view(i) for i in sharing):
        return 'mix:recv=M:inlet-is-linked-MultiStream'
    return None

def run_impl(case):
    clear_caches()
    store = build_store(case)
    out = {'init': [snap(s) for s in store], 'n_ok': 0, 'error': None, 'views_ok': True}
    out['ops'] = []
    for op in case['ops']:
        if not in_fragment(case, store, op):
            break                     # would leave other stream objects behind: outside the modelled fragment
        if op[0] == 'copy_flow':
            multi = isinstance(store[op[1]], env()['tmo'].MultiStream)
            op = list(op[:6]) + [(op[6] if len(op) > 6 else None) if multi else None, multi]
        out['ops'].append(op)
        before = [snap(s) for s in store]
        try:
            apply_op(store, op)
            out['n_ok'] += 1
        except Exception as ex:
            out['error'] = type(ex).__name__
            out['final'] = before
            return out
        # derived views held in caches (mass flows) must keep showing the stream's data: the model has no such
        # cache (the mass flow is MW * molar flow of the same data), so a stale view is a disagreement
        msg = mass_consistency(case, store, op[0])
        if msg:
            out['views_ok'] = False
            out['views_msg'] = msg
    out['final'] = [snap(s) for s in store]
    return out

# ------------------------------------------------------------------ model side
def cpkg(k):
    code = env()['code']
    return f'(mkpkg {cnat(k)} {clist([code[n] for n in PKGS[k]], cnat)})'

def cstream(sd):
    rows = [[F(x) for x in row] for row in sd['flows']]
    if sd['multi']:
        return f'(MS (mkm {cpkg(sd["pkg"])} {clist([PHC[p] for p in sd["phases"]])} {clist(rows, qlist)}))'
    return f'(SS (mkc {cpkg(sd["pkg"])} {PHC[sd["phases"][0]]} {qlist(rows[0])}))'

def cop(o):
    code = env()['code']
    n = o[0]
    if n == 'mix':
        return f'(OMix {cnat(o[1])} {clist(o[2], cnat)} {cbool(o[3])} {cnat(o[4])})'
    if n == 'split':
        sp = f'(SpV {qlist(o[4])})' if isinstance(o[4], list) else f'(SpS {q(o[4])})'
        return f'(OSplit {cnat(o[1])} {cnat(o[2])} {cnat(o[3])} {sp} {cbool(o[5])})'
    if n == 'sep':
        return f'(OSep {cnat(o[1])} {cnat(o[2])})'
    if n == 'copy_flow':
        ids = o[3]
        if ids is None: i = 'IdAll'
        elif isinstance(ids, str): i = f'(IdOne {cnat(code[ids])})'
        else: i = f'(IdList {clist([code[x] for x in ids], cnat)})'
        if len(o) > 7 and o[7]:
            ps = 'PhAll' if o[6] is None else f'(PhOne {PHC[o[6]]})'
            return f'(OCopyFlowM {cnat(o[1])} {cnat(o[2])} {ps} {i} {cbool(o[4])} {cbool(o[5])})'
        return f'(OCopyFlow {cnat(o[1])} {cnat(o[2])} {i} {cbool(o[4])} {cbool(o[5])})'
    if n == 'scale':
        return f'(OScale {cnat(o[1])} {q(o[2])})'
    if n == 'mul':
        return f'(OMul {cnat(o[1])} {q(o[2])})'
    raise ValueError(n)

def chandle(h, case=None):
    if h[0] == 'proxy': return f'(HProxy {cnat(h[1])} {PHC[h[2]]})'
    if h[0] == 'link': return f'(HLink {cnat(h[1])} {clist([PHC[p] for p in case["streams"][h[1]]["phases"]])})'
    ph = case['streams'][h[1]]['phases'] if case else [h[2]]
    bound = h[2] if h[2] in ph else h[2].swapcase()          # the row object multistream[label] wraps
    return f'(HView {cnat(h[1])} {PHC[bound]} {PHC[h[2]]})'

def castore(case, out):
    n = len(case['streams'])
    cells = clist([cstream(s) for s in out['init'][:n]])
    linked = {h[1] for h in case['handles'] if h[0] == 'link'}
    hs = clist([chandle(['link', j], case) if j in linked else f'(HCell {cnat(j)})' for j in range(n)]
               + [chandle(h, case) for h in case['handles']])
    return f'(mka {cells} {hs})'

def coq_case(case, out):
    return f'({coq_case_model(case, out)} && {cbool(out.get("views_ok", True))})'

def coq_case_model(case, out):
    if case.get('handles'):
        ops = clist([cop(o) for o in out['ops']])
        e = 'None' if out['error'] is None else f'(Some {ERR.get(out["error"], "EOther")})'
        return f'(arun_eqb {castore(case, out)} {ops} {cnat(out["n_ok"])} {e} {clist([cstream(s) for s in out["final"]])})'
    st = clist([cstream(s) for s in out['init']])
    ops = clist([cop(o) for o in out['ops']])
    e = 'None' if out['error'] is None else f'(Some {ERR.get(out["error"], "EOther")})'
    return f'(run_eqb {st} {ops} {cnat(out["n_ok"])} {e} {clist([cstream(s) for s in out["final"]])})'

def coq_show(case, out):
    if case.get('handles'):
        ops = clist([cop(o) for o in out['ops']])
        return f'(match fst (arun_upto {castore(case, out)} {ops} {cnat(out["n_ok"] + 1)}) with Ok a => views (cells a) (hs a) | Err e => Err e end)'
    st = clist([cstream(s) for s in out['init']])
    ops = clist([cop(o) for o in out['ops']])
    return f'(run_upto {st} {ops} {cnat(out["n_ok"] + 1)})'

def nontrivial(case, out):
    return out.get('error') is not None or out.get('final') != out.get('init')

def classify(case, out):
    ks = []
    n_ok = out.get('n_ok', 0)
    for j, o in enumerate(case['ops']):
        if j > n_ok: break
        res = 'ok' if j < n_ok else 'raise:' + str(out.get('error'))
        ks.append(f'op:{o[0]}:{res}')
        nst, hd = len(case['streams']), case.get('handles', [])
        if (o[0] in ('sep', 'scale', 'copy_flow') and nst <= o[1] < nst + len(hd) and hd[o[1] - nst][0] == 'view'
                and j < len(out.get('ops', []))):
            ks.append(f'recv=sub-stream:{o[0]}:{res}')
        if o[0] == 'mix':
            r, ins = o[1], o[2]
            ks.append(f'mix:inlets={len(ins)}')
            ks.append(f'mix:self_in_inlets={min(ins.count(r), 2)}')
            ks.append('mix:receiver=' + ('multi' if case['streams'][r]['multi'] else 'single') if r < len(case['streams']) else 'mix:receiver=new')
            if any(case['streams'][i]['pkg'] != case['streams'][r]['pkg'] for i in ins if i < len(case['streams']) and r < len(case['streams'])):
                ks.append('mix:other_package_inlet')
            if o[3]: ks.append(f'mix:energy_balance:hf={o[4]}')
    return ks

# ------------------------------------------------------------------ direct oracle
def totals(s):
    """per-chemical (by name) total flow of a real stream"""
    tmo = env()['tmo']
    arr = np.asarray(s.imol.data.to_array(), float)
    if arr.ndim == 2: arr = arr.sum(0)
    t = {n: 0. for n in NAMES}
    for c, x in zip(s.chemicals.IDs, arr):
        t[c] = float(x)
    return t

def phase_totals(s):
    tmo = env()['tmo']
    arr = np.asarray(s.imol.data.to_array(), float)
    if arr.ndim == 1: arr = arr.reshape(1, -1)
    return arr

def close(a, b, tol=1e-9):
    return abs(a - b) <= tol * max(1., abs(a), abs(b))

def same_tot(a, b):
    return all(close(a[n], b[n]) for n in NAMES)

def nonneg(s):
    return bool((phase_totals(s) >= 0).all())

def covers(recv, t):
    ids = set(recv.chemicals.IDs)
    return all(n in ids for n in NAMES if t[n] != 0)

def kind_of(s):
    return 'M' if isinstance(s, env()['tmo'].MultiStream) else 'S'

def dicts_of(s):
    d = s.imol.data
    return {id(r.dct) for r in d.rows} if hasattr(d, 'rows') else {id(d.dct)}

def shares(a, b):
    """two stream objects on (partly) the same flow data: flow_proxy / link_with / multistream[phase]"""
    return a is b or bool(dicts_of(a) & dicts_of(b))

def mass_consistency(case, store, name):
    """the mass-flow view of every stream keeps showing MW * molar flow of the same stream (MW = 16 for every stub chemical)"""
    if not case.get('mass_views'):
        return None
    for k, x in enumerate(store):
        try:
            mass = np.asarray(x.imass.data.to_array(), float)
            mol = np.asarray(x.imol.data.to_array(), float)
        except Exception:
            continue
        if mass.shape != mol.shape or not np.allclose(mass, 16. * mol, rtol=1e-9, atol=0):
            return (f'alias:mass-view: after {name} the mass flows of stream {k} show {mass.tolist()} but its molar flows are '
                    f'{mol.tolist()} (MW = 16)')
    return None

def alias_consistency(case, store, name, detached=()):
    """every other stream object on the same flow data keeps showing that data (unless one of the two had its
    indexer replaced by a phases setter, which ends the sharing by construction)"""
    n = len(case['streams'])
    for k, h in enumerate(case.get('handles', [])):
        x, parent = store[n + k], store[h[1]]
        if (n + k) in detached or h[1] in detached:
            continue
        if h[0] == 'link':
            if kind_of(parent) == 'M' and kind_of(x) == 'M' and not same_tot(totals(x), totals(parent)):
                return f'alias:link_with: after {name} the MultiStream linked with stream {h[1]} shows {totals(x)} but that stream holds {totals(parent)}'
            continue
        if h[0] == 'proxy':
            if kind_of(parent) == 'S' and not same_tot(totals(x), totals(parent)):
                return f'alias:flow_proxy: after {name} the proxy of stream {h[1]} shows {totals(x)} but the stream holds {totals(parent)}'
        else:
            if kind_of(parent) == 'M' and h[2] in parent.phases:
                row = np.asarray(parent.imol[h[2]].to_array() if hasattr(parent.imol[h[2]], 'to_array') else parent.imol[h[2]], float)
                mine = np.asarray(x.mol.to_array(), float)
                if not np.allclose(row, mine, rtol=1e-9, atol=0):
                    return (f'alias:sub-stream: after {name} the sub-stream [{h[2]!r}] of MultiStream {h[1]} shows {mine.tolist()} '
                            f'but the MultiStream holds {row.tolist()} in that phase')
    return None

def oracle(case):
    """The property evaluated directly on the implementation: per-chemical conservation, and the
    operation must return a result within the property's preconditions."""
    tmo = env()['tmo']
    clear_caches()
    store = build_store(case)
    detached = set()
    for op in case['ops']:
        name = op[0]
        if not in_fragment(case, store, op):
            cls = alias_mix_class(case, store, op) if (name == 'mix' and case.get('handles')) else None
            if cls:
                tot0 = [totals(s) for s in store]
                expect = {n: sum(tot0[i][n] for i in op[2]) for n in NAMES}
                try:
                    apply_op(store, op)
                except Exception:
                    return None
                if covers(store[op[1]], expect) and not same_tot(totals(store[op[1]]), expect):
                    return f'{cls}: per-chemical totals of the receiver {totals(store[op[1]])} != sum of the inlets {expect}'
            return None
        imols0 = [x._imol for x in store]
        shared0 = [[shares(a, b) for b in store] for a in store]
        moved_msg = copy_flow_moves(store, op) if name == 'copy_flow' and op[1] != op[2] else None
        tot0 = [totals(s) for s in store]
        ok_flows = all(nonneg(s) for s in store)
        kinds = [kind_of(s) for s in store]
        phs0 = [phases_info(s) for s in store]
        rows0 = [phase_totals(s).copy() for s in store]
        desc = None
        try:
            apply_op(store, op)
            raised = None
        except Exception as ex:
            raised = type(ex).__name__
        if name == 'mix':
            _, r, ins, eb, hf = op
            expect = {n: sum(tot0[i][n] for i in ins) for n in NAMES}
            pre = ok_flows and covers(store[r], expect)
            ne = sum(1 for i in ins if any(tot0[i][n] != 0 for n in NAMES))
            where = (f'mix:recv={kinds[r]}:inlets={"".join(sorted(set(kinds[i] for i in ins)))}:nonempty={min(ne, 2)}:eb={int(eb)}:hf={min(hf, 2)}'
                     f':self={int(r in ins)}:otherpkg={int(any(pkg_of(store[i]) != pkg_of(store[r]) for i in ins))}')
            if raised:
                # a RuntimeError with hf > 0 is the (oracle) temperature solver giving up
                if pre and not (eb and hf > 0 and raised == 'RuntimeError'):
                    return f'{where}: raises {raised} although the receiver lists every inlet chemical'
                return None          # the history stops at a raise
            if pre or covers(store[r], expect):
                if not same_tot(totals(store[r]), expect):
                    return f'{where}: per-chemical totals of the receiver {totals(store[r])} != sum of the inlets {expect}'
            for i in range(len(tot0)):
                if i != r and not shared0[i][r] and not same_tot(totals(store[i]), tot0[i]):
                    return f'{where}: inlet/bystander stream {i} was modified'
        elif name == 'split':
            _, f, s1, s2, sp, eb = op
            feed = tot0[f]
            ids = case_ids(store[f])
            spl = dict(zip(ids, sp)) if isinstance(sp, list) else {n: sp for n in NAMES}
            e1 = {n: feed[n] * spl.get(n, 0.) for n in NAMES}
            e2 = {n: feed[n] - e1[n] for n in NAMES}
            pre = (ok_flows and s1 != s2 and covers(store[s1], e1) and covers(store[s2], e2)
                   and (eb or kinds[f] == 'M' or (kinds[s1] == 'S' and kinds[s2] == 'S')))
            where = f'split:feed={kinds[f]}:outs={kinds[s1]}{kinds[s2]}:eb={int(eb)}:otherpkg={int(pkg_of(store[s1]) != pkg_of(store[f]) or pkg_of(store[s2]) != pkg_of(store[f]))}'
            if raised:
                if pre and raised != 'UndefinedPhase':
                    return f'{where}: raises {raised}'
                return None
            if s1 != s2 and not shared0[s1][s2] and not shared0[f][s1] and not shared0[f][s2]:
                if f != s1 and not same_tot(totals(store[s1]), e1):
                    return f'{where}: first outlet {totals(store[s1])} != split*feed {e1}'
                if f != s2 and s1 != s2 and not same_tot(totals(store[s2]), e2):
                    return f'{where}: second outlet {totals(store[s2])} != feed - split*feed {e2}'
                if ok_flows and (not nonneg(store[s1]) or not nonneg(store[s2])):
                    return f'{where}: negative outlet flow'
        elif name == 'sep':
            _, r, o = op
            if raised:
                ok_ph = kinds[r] == 'S' or all(p.lower() in [x.lower() for x in phs0[r][0]] for p in (phs0[o][1] if kinds[o] == 'M' else phs0[o][0]))
                if covers(store[r], tot0[o]) and ok_ph and r != o:
                    return f'separate_out:recv={kinds[r]}:other={kinds[o]}:otherpkg={int(pkg_of(store[r]) != pkg_of(store[o]))}: raises {raised} although the receiver lists every chemical and phase of the other stream'
                return None
            if r != o:
                exp = {n: tot0[r][n] - tot0[o][n] for n in NAMES}
                if not same_tot(totals(store[r]), exp):
                    return f'separate_out:recv={kinds[r]}:other={kinds[o]}: totals {totals(store[r])} != receiver - other {exp}'
                if not shared0[r][o] and not same_tot(totals(store[o]), tot0[o]):
                    return 'separate_out: the separated stream was modified'
                # "restores the remainder": only the phase the separated single-phase stream lands in changes - also when
                # that stream is one of the mixture's own phases (it shares part of the mixture's flow data)
                if kinds[r] == 'M' and kinds[o] == 'S' and kind_of(store[r]) == 'M' and list(store[r].phases) == phs0[r][0]:
                    po = phs0[o][0][0]
                    hit = po if po in phs0[r][0] else po.swapcase()
                    for pq, a, b in zip(phs0[r][0], rows0[r], phase_totals(store[r])):
                        if pq != hit and not np.allclose(a, b, rtol=1e-9, atol=0):
                            return (f'separate_out:recv=M:other=S:shared={int(shared0[r][o])}: phase {pq!r} of the receiver held {a.tolist()}, '
                                    f'now {b.tolist()}, although the separated stream is in phase {po!r}')
        elif name == 'copy_flow':
            d, s, ids, remove, exclude = op[1:6]
            if raised: return None
            if d == s:
                # copy with removal neither duplicates nor loses material - also onto the stream itself
                if not same_tot(totals(store[d]), tot0[d]):
                    return f'copy_flow:onto-itself:remove={int(remove)}: the stream held {tot0[d]}, now holds {totals(store[d])}'
                continue
            if moved_msg: return moved_msg
            if kinds[d] == 'M' or shared0[d][s]: continue
            names = NAMES if ids is None else ([ids] if isinstance(ids, str) else list(ids))
            moved = [n for n in NAMES if (n in names) != bool(exclude)] if ids is not None else ([] if exclude else NAMES)
            src_ids = set(store[s].chemicals.IDs)
            for n in NAMES:
                td, ts = totals(store[d])[n], totals(store[s])[n]
                if n in moved and n in src_ids:
                    exp_d = tot0[s][n]
                    exp_s = 0. if remove else tot0[s][n]
                elif n in moved and ids is None:
                    exp_d, exp_s = 0., tot0[s][n]
                else:
                    exp_d, exp_s = tot0[d][n], tot0[s][n]
                if not close(td, exp_d) or not close(ts, exp_s):
                    return (f'copy_flow:src={kinds[s]}:ids={"all" if ids is None else "some"}:remove={int(remove)}:exclude={int(exclude)}'
                            f':otherpkg={int(pkg_of(store[s]) != pkg_of(store[d]))}: chemical {n}: receiver {td} (expected {exp_d}), source {ts} (expected {exp_s})')
        elif name in ('scale', 'mul'):
            if raised: return f'{name}: raises {raised}'
            i, k = op[1], op[2]
            target = store[i] if name == 'scale' else store[-1]
            exp = {n: k * tot0[i][n] for n in NAMES}
            if not same_tot(totals(target), exp):
                return f'{name}: totals {totals(target)} != k * flows {exp}'
            if name == 'mul' and not same_tot(totals(store[i]), tot0[i]):
                return 'mul: the operand was modified'
        if raised:
            return None
        for k, x in enumerate(store[:len(imols0)]):
            if x._imol is not imols0[k]: detached.add(k)
        msg = alias_consistency(case, store, name, detached) or mass_consistency(case, store, name)
        if msg: return msg
    return None

def phases_info(s):
    """(all phases, phases that hold material)"""
    arr = phase_totals(s)
    ph = list(s.phases) if kind_of(s) == 'M' else [s.phase]
    return ph, [p for p, row in zip(ph, arr) if row.any()]

def copy_flow_moves(store, op):
    """copy with removal neither duplicates nor loses material: the same call on copies of the two
    streams, the receiver emptied first, must leave receiver + source == source before, chemical
    by chemical (whatever the phase selector, the IDs and exclude)."""
    tmo = env()['tmo']
    d, s, ids, remove, exclude = op[1:6]
    if not remove: return None
    try:
        recv = store[d].copy(); recv.empty(); src = store[s].copy()
    except Exception:
        return None
    before = totals(src)
    info_r, info_s = phases_info(recv), phases_info(src)
    try:
        apply_op([recv, src], ['copy_flow', 0, 1] + list(op[3:]))
    except Exception:
        return None
    after, got = totals(src), totals(recv)
    for n in NAMES:
        if not close(got[n] + after[n], before[n]):
            phase = op[6] if len(op) > 6 else None
            multi_recv = kind_of(store[d]) == 'M'
            sel = 'all'
            if phase is not None and multi_recv:
                try:
                    gi = store[d].imol.get_phase_index
                    sel = 'match' if kind_of(store[s]) == 'M' or gi(phase) == gi(store[s].phase) else 'mismatch'
                except Exception:
                    sel = 'mismatch'
            detail = f'chemical {n}: source had {before[n]}, keeps {after[n]}, receiver got {got[n]}'
            # classes already present in the unchanged tree get a stable key each
            if multi_recv and exclude and ids is None:
                return f'copy_flow:recv=M:exclude-with-all-IDs:remove=1: {detail}'
            if multi_recv and kind_of(store[s]) == 'M' and len(info_r[0]) != len(info_s[0]):
                return f'copy_flow:recv=M:src=M:number-of-phases-differs:remove=1: {detail}'
            if multi_recv and kind_of(store[s]) == 'S' and exclude and sel == 'mismatch':
                return f'copy_flow:recv=M:src=S:exclude-with-other-phase-selector:remove=1: {detail}'
            return (f'copy_flow:recv={kind_of(store[d])}:src={kind_of(store[s])}:selector={sel}:ids={"all" if ids is None else "some"}'
                    f':exclude={int(exclude)}:remove=1: {detail}')
    return None

def case_ids(s):
    return list(s.chemicals.IDs)

def finding_key(case, msg):
    return 'C01:' + msg.split(': ')[0]

def _s(pkg, phase, flows): return {'pkg': pkg, 'multi': False, 'phases': [phase], 'flows': [flows]}
def _m(pkg, phases, flows): return {'pkg': pkg, 'multi': True, 'phases': phases, 'flows': flows}
_Z6 = [0.] * 6
# minimised inputs of the defects found (pending_fixes/C01_<n>_*); they run first in every check
CORPUS = [
    # 1: multi-phase inlet of another package into a single-phase receiver (DESIGN 5 #6)
    {'streams': [_s(0, 'l', _Z6), _s(0, 'l', [1., 0, 0, 0, 0, 0]), _m(1, ['g', 'l'], [[0, 1., 2.], [0, 0, 0]])],
     'ops': [['mix', 0, [1, 2], False, 0]]},
    # 2: inlet phase the multi-phase receiver lacks (DESIGN 5 #7)
    {'streams': [_m(0, ['g', 'l'], [_Z6, _Z6]), _s(0, 'l', [1., 0, 0, 0, 0, 0]), _s(0, 's', [1., 0, 0, 0, 0, 0])],
     'ops': [['mix', 0, [1, 2], False, 0]]},
    # 3: one non-empty inlet of another package, multi-phase receiver, no energy balance
    {'streams': [_m(0, ['g', 'l'], [_Z6, _Z6]), _s(1, 'l', [0, 1., 0])], 'ops': [['mix', 0, [1], False, 0]]},
    # 4: one-phase MultiStream of another package copied by position
    {'streams': [_s(0, 'l', _Z6), _m(1, ['g'], [[0, 1., 2.]])], 'ops': [['mix', 0, [1], True, 0]]},
    # 5: single-phase inlet whose phase the multi-phase receiver lacks, energy balance
    {'streams': [_m(0, ['g', 'l'], [_Z6, _Z6]), _s(0, 's', [1., 0, 0, 0, 0, 0])], 'ops': [['mix', 0, [1], True, 0]]},
    # 6: multi-phase receiver and inlet with different phases: stale row kept / rows by position / no remap
    {'streams': [_m(0, ['g', 'l'], [[0, 0, 1., 0, 0, 0], [0, 0, 0, 2., 0, 0]]), _m(0, ['L', 'g'], [[0, 2., 0, 0, 0, 0], [1., 0, 0, 0, 0, 0]])],
     'ops': [['mix', 0, [1], True, 0]]},
    {'streams': [_m(0, ['l', 's'], [_Z6, _Z6]), _m(2, ['L', 'S'], [[0, 0, 0, 0, 0, 1.], [0, 0, 0, 0, 2., 0]])],
     'ops': [['mix', 0, [1], True, 0]]},
    # 7: receiver's phase not among the multi-phase inlet's phases
    {'streams': [_s(0, 'l', [1., 0, 0, 0, 0, 0]), _m(0, ['g', 's'], [[1., 0, 0, 0, 0, 0], [0, 2., 0, 0, 0, 0]])],
     'ops': [['mix', 0, [1], True, 0]]},
    # 8: outlet of another package receives nothing
    {'streams': [_s(1, 'g', [0, 2., 0]), _s(0, 'l', _Z6), _s(2, 'l', _Z6)], 'ops': [['split', 0, 1, 2, 1., True]]},
    # 9: multi-phase feed, single-phase outlets, no energy balance
    {'streams': [_m(0, ['g', 'l'], [[2., 0, 0, 0, 0, 0], [1., 4., 0, 0, 0, 0]]), _s(0, 'l', _Z6), _s(0, 'l', _Z6)],
     'ops': [['split', 0, 1, 2, 0.5, False]]},
    # 10, 11: separate_out of a multi-phase stream of another package
    {'streams': [_s(0, 'l', [8., 8., 8., 0, 0, 0]), _m(1, ['g', 'l'], [[0, 1., 0], [1., 0, 2.]])], 'ops': [['sep', 0, 1]]},
    {'streams': [_m(0, ['L', 'S'], [[8., 8., 0, 0, 0, 0], [0, 0, 8., 0, 0, 0]]), _m(2, ['L', 'S'], [[0, 0, 0, 0, 0, 1.], [0, 0, 0, 2., 0, 0]])],
     'ops': [['sep', 0, 1]]},
    # 12: receiver among the inlets, temperature solve fails, fallback to multi-phase
    {'streams': [_s(0, 's', [2., 0, 0.25, 0, 0, 1.]), _s(0, 'g', [1., 0, 0, 0, 0, 0])], 'ops': [['mix', 0, [0, 1], True, 1]]},
    # seeded C01-1: the same set of non-zero chemicals presented in another key order (reordered package, insertion order)
    {'streams': [_s(0, 'l', _Z6), _s(0, 'g', _Z6), _s(1, 'l', [0, 3., 40.]), _s(2, 'l', [0, 0, 0, 0, 2., 1.]),
                 dict(_s(1, 'g', [0, 5., 7.]), order=[2, 1, 0])],
     'ops': [['mix', 0, [2], False, 0], ['mix', 1, [3], False, 0], ['mix', 0, [2, 3, 4], False, 0], ['sep', 0, 4], ['mix', 1, [4], True, 0]]},
    # seeded C01-3: MultiStream.copy_flow with a phase selector that is not the single-phase source's phase, remove=True
    {'streams': [_m(1, ['g', 'l'], [[0, 0, 0], [0, 0, 0]]), _s(1, 'l', [4., 1., 2.])],
     'ops': [['copy_flow', 0, 1, None, True, False, 'g']]},
    {'streams': [_m(0, ['g', 'l'], [[1., 0, 0, 0, 0, 0], _Z6]), _s(4, 'g', [0, 1., 2., 0, 0, 4.])],
     'ops': [['copy_flow', 0, 1, ['B_', 'F_'], True, False, 'l'], ['copy_flow', 0, 1, 'C_', True, False, 'g']]},
    # aliases: the receiver's flow proxy is the only non-empty inlet of an energy-balanced mix (copy_like on shared data)
    {'streams': [_s(1, 'l', [1., 2., 0]), _s(1, 'g', [0, 0, 0])], 'handles': [['proxy', 0, 'g']],
     'ops': [['mix', 0, [2, 1], True, 0], ['mix', 2, [0], True, 0], ['mix', 0, [2, 1, 0], False, 0]]},
    # aliases: sub-streams and mass views of a MultiStream that takes over another MultiStream's rows (one inlet, copy_like)
    {'streams': [_m(1, ['g', 'l'], [[4., 0, 1.], [0, 0, 2.]]), _m(1, ['g', 'l'], [[1., 2., 0], [0, 0, 8.]]), _s(1, 'l', [0, 0, 0]), _s(1, 'g', [0, 0, 0])],
     'handles': [['view', 0, 'l'], ['view', 0, 'g']], 'mass_views': True,
     'ops': [['mix', 0, [1, 2], True, 0], ['split', 0, 2, 3, 0.5, True]]},
    # aliases: sub-streams handed out before a mix that expands the phases must keep showing the MultiStream's rows
    {'streams': [_m(1, ['g', 'l'], [[1., 0, 0], [0, 2., 4.]]), _s(1, 's', [0, 1., 1.]), _s(1, 'l', [8., 0, 0]), _s(1, 'l', [0, 0, 0]), _s(1, 'g', [0, 0, 0])],
     'handles': [['view', 0, 'l'], ['view', 0, 'g']],
     'ops': [['mix', 0, [1, 2, 0], False, 0], ['mix', 3, [5], True, 0], ['split', 0, 3, 4, 0.5, True]]},
    # in-place scaling by 0 (and 2) with the mass-flow views built before
    {'streams': [_s(1, 'l', [1., 2., 0]), _m(1, ['g', 'l'], [[1., 0, 0], [0, 2., 4.]])], 'mass_views': True,
     'ops': [['scale', 0, 0.], ['scale', 1, 0.], ['mix', 0, [1], False, 0], ['scale', 0, 2.]]},
    # the same multi-phase outlet is split into twice, the second feed has one phase more (phases setter on a used MultiStream)
    {'streams': [_m(1, ['l'], [[2., 0, 4.]]), _m(1, ['g', 'l'], [[1., 2., 0], [0, 4., 8.]]), _m(1, ['l', 's'], [[9., 5., 0], [0, 0, 0]]), _s(1, 'l', [0, 0, 0])],
     'ops': [['split', 0, 2, 3, 0.5, True], ['split', 1, 2, 3, 0.25, True]]},
    # an inlet holding flow in 'l' and 'L' copied into a receiver that has only 'l' (one non-empty inlet, energy balance)
    {'streams': [_m(1, ['g', 'l'], [[0, 0, 0], [0, 0, 1.]]), _m(1, ['L', 'l'], [[2., 0, 0], [1., 0, 8.]]), _s(1, 'g', [0, 0, 0])],
     'ops': [['mix', 0, [1, 2], True, 0]]},
    # fixed in a4a2555: an energy-balanced mix whose only non-empty inlet is one of the receiver's own sub-streams
    {'streams': [_m(1, ['g', 'l'], [[1., 0, 0], [0, 2., 4.]]), _s(1, 'g', [0, 0, 0])], 'handles': [['view', 0, 'l']],
     'ops': [['mix', 0, [2, 1], True, 0], ['mix', 0, [2], True, 0]]},
    # seeded C01-14: a MultiStream minus one of its own phases (the sub-stream shares one row of its flow data), the other
    # phase holds material; also assembled by from_streams, and a phase minus the whole mixture
    {'streams': [_m(1, ['g', 'l'], [[1., 0, 0.5], [0, 2., 4.]]), _s(1, 'g', [0, 1., 0])], 'handles': [['view', 0, 'l'], ['view', 0, 'g']],
     'ops': [['sep', 0, 2], ['sep', 0, 1], ['sep', 3, 0]]},
    {'streams': [dict(_m(0, ['L', 'g', 's'], [[1., 0, 0, 0, 0, 2.], [0, 2., 4., 0, 0, 0], [0, 0, 0, 8., 0, 0]]), from_streams=True)],
     'handles': [['view', 0, 'g'], ['view', 0, 's']], 'ops': [['sep', 0, 1], ['sep', 2, 0]]},
    # mix then separate (same and other package, self inlet)
    {'streams': [_s(0, 'l', [1., 2., 0, 0, 0, 0]), _s(1, 'g', [4., 0.5, 0]), _m(2, ['g', 'l'], [[0, 0, 0, 0, 1., 0], [0, 0, 0, 8., 0, 3.]])],
     'ops': [['mix', 0, [0, 1, 2, 0], False, 0], ['sep', 0, 2]]},
]
# Witnesses of the refuted statement C01_multi_copy_remove_statement (coq/C01/Props.v): three ways in which
# MultiStream.copy_flow(remove=True) loses or duplicates material on the unchanged tree.  A witness is replayed
# (and must still fail) in every run once its finding line is recorded in known_findings.txt; until then it
# is listed here only (the oracle reports these classes under the same keys when a search runs).
_ALL_WITNESSES = [
    {'key': 'C01:copy_flow:recv=M:src=M:number-of-phases-differs:remove=1',
     'case': {'streams': [_m(1, ['g', 'l'], [[0, 0, 0], [0, 0, 0]]), _m(1, ['g', 'l', 's'], [[1., 0, 0], [0, 2., 0], [0, 0, 4.]])],
              'ops': [['copy_flow', 0, 1, None, True, False, None]]}},
    {'key': 'C01:copy_flow:recv=M:exclude-with-all-IDs:remove=1',
     'case': {'streams': [_m(1, ['g', 'l'], [[0, 0, 0], [0, 0, 0]]), _s(1, 'l', [4., 1., 2.])],
              'ops': [['copy_flow', 0, 1, None, True, True, None]]}},
    {'key': 'C01:copy_flow:recv=M:src=S:exclude-with-other-phase-selector:remove=1',
     'case': {'streams': [_m(1, ['g', 'l'], [[0, 0, 0], [0, 0, 0]]), _s(1, 'l', [4., 1., 2.])],
              'ops': [['copy_flow', 0, 1, ['A_'], True, True, 'g']]}},
    {'key': 'C01:mix:fallback-with-inlet-sharing-receiver-data',
     'case': {'streams': [_s(1, 'l', [1., 2., 0]), _s(1, 'g', [0, 4., 4.])], 'handles': [['proxy', 0, 'l']],
              'ops': [['mix', 0, [2, 1], True, 2]]}},
    {'key': 'C01:mix:recv=M:inlet-is-linked-MultiStream',
     'case': {'streams': [_m(1, ['l', 's'], [[1., 0, 0], [0, 2., 4.]]), _s(1, 'g', [0, 1., 1.])], 'handles': [['link', 0]],
              'ops': [['mix', 0, [2, 1], False, 0]]}},
    {'key': 'C01:copy_flow:onto-itself:remove=1',
     'case': {'streams': [_s(1, 'l', [4., 1., 2.])], 'ops': [['copy_flow', 0, 0, None, True, False, None]]}},
]
def _recorded():
    import os, re
    path = os.path.join(os.path.dirname(os.path.dirname(os.path.abspath(__file__))), 'known_findings.txt')
    try:
        return set(re.findall(r'^finding:\s+property=C01\s+key=(\S+)', open(path).read(), re.M))
    except OSError:
        return set()
WITNESSES = [w for w in _ALL_WITNESSES if w['key'] in _recorded()]
